/-
  Lemmas.DBRP — the virtual-mapping merge of `FindMany`.
-/
import Influx.Model.DBRP
import Influx.Spec.C43

namespace Influx.DBRP
open Influx.Spec.C43

/-- the decision of `filterFunc` spelled out -/
def filterFuncSpec (m : Mapping) (f : Filter) : Bool :=
  (f.ID.isNone || f.ID == some m.ID) &&
  (f.OrgID.isNone || f.OrgID == some m.OrganizationID) &&
  (f.BucketID.isNone || f.BucketID == some m.BucketID) &&
  (f.Database.isNone || f.Database == some m.Database) &&
  (f.RetentionPolicy.isNone || f.RetentionPolicy == some m.RetentionPolicy) &&
  (f.Default.isNone || f.Default == some m.Default) &&
  (f.Virtual.isNone || f.Virtual == some m.Virtual)

theorem go_conj {α : Type} [DecidableEq α] (x : Option α) (y : α) :
    Go.or (some x.isNone) (Go.eq (Go.deref x) (some y)) = some (x.isNone || x == some y) := by
  cases x with
  | none => simp
  | some v => simp [Go.eq]

/-- the generated `filterFunc` never dereferences nil and decides `filterFuncSpec` -/
theorem generated_filterFunc (m : Mapping) (f : Filter) :
    Influx.Generated.DBRP.filterFunc m f = some (filterFuncSpec m f) := by
  unfold Influx.Generated.DBRP.filterFunc filterFuncSpec
  simp only [go_conj, Go.and_some_some]

theorem filterFunc_eq_spec (m : Mapping) (f : Filter) : filterFunc m f = filterFuncSpec m f := by
  unfold filterFunc
  rw [generated_filterFunc]
  cases filterFuncSpec m f <;> rfl

/-- same (database, retention policy) -/
def samePair (a b : Mapping) : Bool := a.Database == b.Database && a.RetentionPolicy == b.RetentionPolicy

theorem pairsUnique_append (ms : List Mapping) (nm : Mapping) :
    pairsUnique (ms ++ [nm]) = (pairsUnique ms && ms.all fun m => !(nm.Database == m.Database && nm.RetentionPolicy == m.RetentionPolicy)) := by
  induction ms with
  | nil => simp [pairsUnique]
  | cons m ms ih =>
    simp only [List.cons_append, pairsUnique, ih, List.all_append, List.all_cons, List.all_nil, Bool.and_true]
    cases pairsUnique ms <;> cases (ms.all fun x => !(x.Database == m.Database && x.RetentionPolicy == m.RetentionPolicy)) <;>
      cases (nm.Database == m.Database && nm.RetentionPolicy == m.RetentionPolicy) <;> simp

/-- `mergeOne` only changes `Default` -/
theorem mergeOne_some {nm r : Mapping} {ms : List Mapping} (h : mergeOne nm ms = some r) :
    r.Database = nm.Database ∧ r.RetentionPolicy = nm.RetentionPolicy ∧ r.ID = nm.ID ∧
    r.OrganizationID = nm.OrganizationID ∧ r.Virtual = nm.Virtual ∧ r.BucketID = nm.BucketID ∧
    (r.Default = true → nm.Default = true) := by
  induction ms generalizing nm with
  | nil => simp only [mergeOne, Option.some.injEq] at h; subst h; simp
  | cons m ms ih =>
    simp only [mergeOne] at h
    split at h
    · split at h
      · cases h
      · have := ih h
        split at this <;> simp_all
    · exact ih h

/-- a virtual mapping that survives `mergeOne` shares its (db, rp) with no entry -/
theorem mergeOne_some_fresh {nm r : Mapping} {ms : List Mapping} (hv : nm.Virtual = true)
    (h : mergeOne nm ms = some r) :
    ∀ m ∈ ms, ¬(m.Database = nm.Database ∧ m.RetentionPolicy = nm.RetentionPolicy) := by
  induction ms generalizing nm with
  | nil => simp
  | cons m ms ih =>
    simp only [mergeOne] at h
    intro x hx
    split at h
    · next hdb =>
      split at h
      · cases h
      · next hrp =>
        rcases List.mem_cons.mp hx with rfl | hx
        · simp only [hv, Bool.true_and, beq_iff_eq] at hrp
          intro hc; exact hrp hc.2
        · have := ih (nm := if m.Default && nm.Default then { nm with Default := false } else nm)
            (by split <;> simp [hv]) h x hx
          split at this <;> simpa using this
    · next hdb =>
      rcases List.mem_cons.mp hx with rfl | hx
      · simp only [beq_iff_eq] at hdb
        intro hc; exact hdb hc.1
      · exact ih hv h x hx

/-- … and is not a default when an entry of its database already is -/
theorem mergeOne_some_default {nm r : Mapping} {ms : List Mapping} (h : mergeOne nm ms = some r)
    (hd : r.Default = true) : ∀ m ∈ ms, m.Database = nm.Database → m.Default = false := by
  induction ms generalizing nm with
  | nil => simp
  | cons m ms ih =>
    simp only [mergeOne] at h
    intro x hx hxdb
    split at h
    · next hdb =>
      split at h
      · cases h
      · rcases List.mem_cons.mp hx with rfl | hx
        · by_cases hmd : x.Default = true
          · -- then nm.Default was cleared (or was false): r.Default cannot be true
            have := (mergeOne_some h).2.2.2.2.2.2 hd
            split at this
            · simp at this
            · next hc => simp only [hmd, Bool.true_and, Bool.not_eq_true] at hc; simp [hc] at this
          · simpa using hmd
        · have := ih h x hx
          split at this <;> simpa [hxdb] using this
    · next hdb =>
      rcases List.mem_cons.mp hx with rfl | hx
      · simp only [beq_iff_eq] at hdb; exact absurd hxdb hdb
      · exact ih h x hx hxdb

theorem bucketToMapping_virtual (b : Bucket) : (bucketToMapping b).Virtual = true := rfl

/-- **virtual mappings never duplicate a (database, retention policy) pair**: the merge keeps
    the pairs of the result unique, for every filter and bucket list -/
theorem mergeVirtual_pairsUnique (f : Filter) (bs : List Bucket) (ms : List Mapping)
    (h : pairsUnique ms = true) : pairsUnique (mergeVirtual f ms bs) = true := by
  induction bs generalizing ms with
  | nil => simpa [mergeVirtual] using h
  | cons b bs ih =>
    simp only [mergeVirtual]
    split
    · exact ih ms h
    · next nm hm =>
      split
      · apply ih
        rw [pairsUnique_append, h]
        simp only [Bool.true_and, List.all_eq_true, Bool.not_eq_true', Bool.and_eq_false_iff, beq_eq_false_iff_ne]
        intro m hmem
        have hs := mergeOne_some hm
        have := mergeOne_some_fresh (bucketToMapping_virtual b) hm m hmem
        rw [hs.1, hs.2.1]
        by_cases hdb : (bucketToMapping b).Database = m.Database
        · right; intro hrp; exact this ⟨hdb.symm, hrp.symm⟩
        · left; exact hdb
      · exact ih ms h

/-- stored mappings stay in front and unchanged: the merge only appends -/
theorem mergeVirtual_prefix (f : Filter) (bs : List Bucket) (ms : List Mapping) :
    ∃ vs, mergeVirtual f ms bs = ms ++ vs ∧ ∀ v ∈ vs, v.Virtual = true := by
  induction bs generalizing ms with
  | nil => exact ⟨[], by simp [mergeVirtual]⟩
  | cons b bs ih =>
    simp only [mergeVirtual]
    split
    · exact ih ms
    · next nm hm =>
      split
      · obtain ⟨vs, h1, h2⟩ := ih (ms ++ [nm])
        refine ⟨nm :: vs, by simp [h1], ?_⟩
        intro v hv
        rcases List.mem_cons.mp hv with rfl | hv
        · rw [(mergeOne_some hm).2.2.2.2.1]; rfl
        · exact h2 v hv
      · exact ih ms

end Influx.DBRP
