/-
  Lemmas.FieldValidate — the two-loop `validateSeriesAndFields` of the code and
  the one-pass `verdicts` decide the same thing; basic facts about verdicts.
-/
import Influx.Model.FieldSchema

namespace Influx.Fields

@[simp] theorem accepted_drop (r : Reason) : (VRes.drop r).accepted = false := rfl
@[simp] theorem accepted_ok : VRes.ok.accepted = true := rfl
@[simp] theorem accepted_stripped : VRes.stripped.accepted = true := rfl

/-- the verdict list is the batch, in order, each point with its verdict -/
theorem verdicts_map_fst (s : Schema) (pts : List Point) :
    (verdicts s pts).2.2.map (·.1) = pts := by
  induction pts generalizing s with
  | nil => rfl
  | cons p ps ih =>
    unfold verdicts
    split
    · simp [ih]
    · split
      · simp [ih]
      · simp [ih]

theorem phase2_verdicts (s : Schema) (pts : List Point) :
    (phase2 s (pts.filter (fun p => !hasTimeTag p))).1 = (verdicts s pts).1 ∧
    (phase2 s (pts.filter (fun p => !hasTimeTag p))).2.1 = (verdicts s pts).2.1 ∧
    (phase2 s (pts.filter (fun p => !hasTimeTag p))).2.2.filter (fun pv => pv.2.accepted)
      = (verdicts s pts).2.2.filter (fun pv => pv.2.accepted) ∧
    pts.countP hasTimeTag + countDropped (phase2 s (pts.filter (fun p => !hasTimeTag p))).2.2
      = countDropped (verdicts s pts).2.2 ∧
    (phase2 s (pts.filter (fun p => !hasTimeTag p))).2.2.any (fun pv => pv.2 == .stripped)
      = (verdicts s pts).2.2.any (fun pv => pv.2 == .stripped) := by
  induction pts generalizing s with
  | nil => simp [phase2, verdicts, countDropped]
  | cons p ps ih =>
    by_cases ht : hasTimeTag p = true
    · have hf : (p :: ps).filter (fun p => !hasTimeTag p) = ps.filter (fun p => !hasTimeTag p) := by
        simp [List.filter_cons, ht]
      rw [hf]
      obtain ⟨h1, h2, h3, h4, h5⟩ := ih s
      unfold verdicts
      simp only [ht, if_true]
      refine ⟨h1, h2, ?_, ?_, ?_⟩
      · simp [List.filter_cons, h3]
      · simp only [countDropped] at h4 ⊢
        simp only [List.countP_cons, ht, if_true, accepted_drop, Bool.not_false]
        omega
      · simp [List.any_cons, h5]
    · have ht' : hasTimeTag p = false := by simpa using ht
      have hf : (p :: ps).filter (fun p => !hasTimeTag p) = p :: ps.filter (fun p => !hasTimeTag p) := by
        simp [List.filter_cons, ht']
      rw [hf]
      unfold verdicts phase2
      simp only [ht', Bool.false_eq_true, if_false]
      by_cases ho : onlyTimeFields p = true
      · simp only [ho, if_true]
        obtain ⟨h1, h2, h3, h4, h5⟩ := ih s
        refine ⟨h1, h2, ?_, ?_, ?_⟩
        · simp [List.filter_cons, h3]
        · simp only [countDropped] at h4 ⊢
          simp only [List.countP_cons, ht', Bool.false_eq_true, if_false, accepted_drop, Bool.not_false, if_true]
          omega
        · simp [List.any_cons, h5]
      · have ho' : onlyTimeFields p = false := by simpa using ho
        simp only [ho', Bool.false_eq_true, if_false]
        obtain ⟨h1, h2, h3, h4, h5⟩ := ih (validateFields p.meas s p.fields false).1
        refine ⟨h1, by rw [h2], ?_, ?_, ?_⟩
        · simp only [List.filter_cons, h3]
        · simp only [countDropped] at h4 ⊢
          simp only [List.countP_cons, ht', Bool.false_eq_true, if_false]
          omega
        · simp [List.any_cons, h5]

/-- The two-loop code and the one-pass verdicts: same schema, same created
    fields, same kept points (in order), same dropped count, same stripped flag. -/
theorem validate_eq (s : Schema) (pts : List Point) :
    (validateTwoPhase s pts).sch = (verdicts s pts).1 ∧
    (validateTwoPhase s pts).created = (verdicts s pts).2.1 ∧
    (validateTwoPhase s pts).kept = ((verdicts s pts).2.2.filter (fun pv => pv.2.accepted)).map (·.1) ∧
    (validateTwoPhase s pts).dropped = countDropped (verdicts s pts).2.2 ∧
    (validateTwoPhase s pts).stripped = (verdicts s pts).2.2.any (fun pv => pv.2 == .stripped) := by
  obtain ⟨h1, h2, h3, h4, h5⟩ := phase2_verdicts s pts
  unfold validateTwoPhase
  exact ⟨h1, h2, by simp only [h3], h4, h5⟩

theorem firstReason_isSome (vs : List (Point × VRes)) :
    (firstReason vs).isSome = true ↔ countDropped vs > 0 := by
  induction vs with
  | nil => simp [firstReason, countDropped]
  | cons a vs ih =>
    obtain ⟨p, v⟩ := a
    cases v with
    | drop r => simp [firstReason, countDropped, List.countP_cons]
    | ok =>
      have : countDropped ((p, VRes.ok) :: vs) = countDropped vs := by simp [countDropped, List.countP_cons]
      rw [this]; simpa [firstReason] using ih
    | stripped =>
      have : countDropped ((p, VRes.stripped) :: vs) = countDropped vs := by simp [countDropped, List.countP_cons]
      rw [this]; simpa [firstReason] using ih

/-- a refusal always has a reason (the `hardError` branch of `writePoints` is dead) -/
theorem validate_reason (s : Schema) (pts : List Point) (h : (validateTwoPhase s pts).dropped > 0) :
    (validateTwoPhase s pts).reason.isSome = true := by
  unfold validateTwoPhase at h ⊢
  simp only at h ⊢
  by_cases h1 : List.countP hasTimeTag pts > 0
  · simp [h1]
  · simp only [h1, if_false]
    rw [firstReason_isSome]
    have : List.countP hasTimeTag pts = 0 := by omega
    simp only [this, Nat.zero_add] at h
    exact h

end Influx.Fields
