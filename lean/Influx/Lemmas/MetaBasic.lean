/-
  Lemmas.MetaBasic — the generated leaf predicates of `Influx.Generated.Meta` as
  propositions over `Int`, and basic facts about expiry selection.
-/
import Influx.Model.MetaSM

namespace Influx.Meta
open Influx.Generated.Meta

@[simp] theorem before_iff (a b : Int) : Time.Before a b = true ↔ a < b := by simp [Time.Before]
@[simp] theorem after_iff (a b : Int) : Time.After a b = true ↔ b < a := by simp [Time.After]
@[simp] theorem before_false_iff (a b : Int) : Time.Before a b = false ↔ b ≤ a := by
  simp [Time.Before]
@[simp] theorem after_false_iff (a b : Int) : Time.After a b = false ↔ a ≤ b := by
  simp [Time.After]
@[simp] theorem isZero_iff (a : Int) : Time.IsZero a = true ↔ a = zeroTime := by simp [Time.IsZero]
@[simp] theorem isZero_false_iff (a : Int) : Time.IsZero a = false ↔ a ≠ zeroTime := by simp [Time.IsZero]
@[simp] theorem add_eq (a : Int) (d : Int) : Time.Add a d = a + d := rfl
@[simp] theorem unix_eq (v : Int) : Time.Unix v = v := rfl

theorem contains_iff (g : ShardGroupInfo) (t : Int) :
    Contains g t = true ↔ g.StartTime ≤ t ∧ t < g.EndTime := by
  simp [Contains]

theorem deleted_iff (g : ShardGroupInfo) : Deleted g = true ↔ g.DeletedAt ≠ zeroTime := by
  simp [Deleted]

theorem deleted_false_iff (g : ShardGroupInfo) : Deleted g = false ↔ g.DeletedAt = zeroTime := by
  simp [Deleted]

theorem truncated_iff (g : ShardGroupInfo) : Truncated g = true ↔ g.TruncatedAt ≠ zeroTime := by
  simp [Truncated]

theorem truncated_false_iff (g : ShardGroupInfo) : Truncated g = false ↔ g.TruncatedAt = zeroTime := by
  simp [Truncated]

theorem overlaps_iff (g : ShardGroupInfo) (a b : Int) :
    Overlaps g a b = true ↔ g.StartTime ≤ b ∧ a < g.EndTime := by
  simp [Overlaps]

/-- `ExpiredShardGroups`: exactly the live groups with `EndTime + Duration < t`, when the
    policy has a duration -/
theorem mem_expired_iff (r : RetentionPolicyInfo) (t : Int) (g : ShardGroupInfo) :
    g ∈ expiredShardGroups r t ↔
      g ∈ r.ShardGroups ∧ g.DeletedAt = zeroTime ∧ r.Duration ≠ 0 ∧ g.EndTime + r.Duration < t := by
  simp [expiredShardGroups, List.mem_filter, deleted_false_iff]

theorem mem_deleted_iff (r : RetentionPolicyInfo) (g : ShardGroupInfo) :
    g ∈ deletedShardGroups r ↔ g ∈ r.ShardGroups ∧ g.DeletedAt ≠ zeroTime := by
  simp [deletedShardGroups, List.mem_filter, deleted_iff]

end Influx.Meta
