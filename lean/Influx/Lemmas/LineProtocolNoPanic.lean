/-
  The out-of-range outcomes of the model (`Err.panic`) are unreachable from `parsePoint`.
-/
import Influx.Lemmas.LineProtocolSortPath

namespace Influx.LP
open Influx.Generated.LineProto

def Err.isPanic : Err → Bool
  | .panic _ => true
  | _ => false

theorem scanTagsKeyAux_noPanic (prev : Nat) (buf : Bytes) (e : Err) (h : scanTagsKeyAux prev buf = .error e) :
    e.isPanic = false := by
  induction buf generalizing prev with
  | nil => simp [scanTagsKeyAux] at h; subst h; rfl
  | cons b rest ih =>
    rw [scanTagsKeyAux] at h
    split at h
    · cases h; rfl
    · split at h
      · cases h
      · cases hrec : scanTagsKeyAux b rest with
        | error e' => rw [hrec] at h; cases h; exact ih b hrec
        | ok p => rw [hrec] at h; cases h

theorem scanTagsKey_noPanic (buf : Bytes) (e : Err) (h : scanTagsKey buf = .error e) : e.isPanic = false := by
  cases buf with
  | nil => simp [scanTagsKey] at h; subst h; rfl
  | cons b rest =>
    rw [scanTagsKey] at h
    split at h
    · cases h; rfl
    · cases hrec : scanTagsKeyAux b rest with
      | error e' => rw [hrec] at h; cases h; exact scanTagsKeyAux_noPanic b rest _ hrec
      | ok p => rw [hrec] at h; cases h

theorem scanTagsValueAux_noPanic (prev : Nat) (buf : Bytes) (e : Err)
    (h : scanTagsValueAux prev buf = .error e) : e.isPanic = false := by
  induction buf generalizing prev with
  | nil => simp [scanTagsValueAux] at h; subst h; rfl
  | cons b rest ih =>
    rw [scanTagsValueAux] at h
    split at h
    · cases h; rfl
    · split at h
      · cases h
      · split at h
        · cases h
        · cases hrec : scanTagsValueAux b rest with
          | error e' => rw [hrec] at h; cases h; exact ih b hrec
          | ok p => rw [hrec] at h; cases h

theorem scanTagsValue_noPanic (buf : Bytes) (e : Err) (h : scanTagsValue buf = .error e) : e.isPanic = false := by
  cases buf with
  | nil => simp [scanTagsValue] at h; subst h; rfl
  | cons b rest =>
    rw [scanTagsValue] at h
    split at h
    · cases h; rfl
    · cases hrec : scanTagsValueAux b rest with
      | error e' => rw [hrec] at h; cases h; exact scanTagsValueAux_noPanic b rest _ hrec
      | ok p => rw [hrec] at h; cases h

/-- the fuel of `scanTags` (the buffer length + 1) is never exhausted -/
theorem scanTags_noPanic (fuel : Nat) (buf : Bytes) (hf : buf.length < fuel) (e : Err)
    (h : scanTags fuel buf = .error e) : e.isPanic = false := by
  induction fuel generalizing buf with
  | zero => omega
  | succ n ih =>
    rw [scanTags] at h
    cases hk : scanTagsKey buf with
    | error e' => rw [hk] at h; cases h; exact scanTagsKey_noPanic buf _ hk
    | ok p =>
      obtain ⟨k, r1⟩ := p
      rw [hk] at h
      simp only at h
      obtain ⟨_, _, _, k4⟩ := scanTagsKey_shape buf k r1 hk
      cases hv : scanTagsValue r1 with
      | error e' => rw [hv] at h; cases h; exact scanTagsValue_noPanic r1 _ hv
      | ok q =>
        obtain ⟨v, te⟩ := q
        rw [hv] at h
        obtain ⟨_, _, _, v4, _⟩ := scanTagsValue_shape r1 v te hv
        cases te with
        | fields r2 => cases h
        | key r2 =>
          simp only at h
          have e1 := v4 r2 rfl
          cases hrec : scanTags n r2 with
          | ok pr => rw [hrec] at h; cases h
          | error e' =>
            rw [hrec] at h; cases h
            apply ih r2 _ hrec
            rw [k4, e1] at hf
            simp only [List.length_append, List.length_cons] at hf
            omega

/-! ### where the key ends -/

theorem scanMeasurement_split (buf n : Bytes) (e : MeasEnd) (h : scanMeasurement buf = (n, e)) :
    (∀ r, e = .tags r → buf = n ++ cComma :: r) ∧
    (∀ r, e = .fields r → buf = n ++ r ∧ r.head? = some cSpace) := by
  cases buf with
  | nil =>
    simp [scanMeasurement] at h
    obtain ⟨_, rfl⟩ := h
    constructor <;> intro r hr <;> cases hr
  | cons b rest =>
    by_cases hb : b = cComma
    · simp [scanMeasurement, hb] at h
      obtain ⟨_, rfl⟩ := h
      constructor <;> intro r hr <;> cases hr
    · rw [scanMeasurement, if_neg hb] at h
      obtain ⟨n', e', hne⟩ : ∃ n' e', scanMeasAux b rest = (n', e') := ⟨_, _, rfl⟩
      rw [hne] at h
      simp only [Prod.mk.injEq] at h
      obtain ⟨rfl, rfl⟩ := h
      obtain ⟨_, i2, i3⟩ := scanMeasAux_shape b rest n' e' hne
      constructor
      · intro r hr; exact congrArg (List.cons b) (i2 r hr).2
      · intro r hr; exact ⟨congrArg (List.cons b) (i3 r hr).2.1, (i3 r hr).2.2⟩

theorem scanKeySort_rest (name : Bytes) (raws : List Bytes) (rest key r : Bytes)
    (h : scanKeySort name raws rest = .ok (key, r)) : r = rest := by
  unfold scanKeySort at h
  split at h
  · cases h
  · split at h
    · cases h
    · cases h; rfl

/-- after an accepted key the buffer continues with the space that ends it -/
theorem scanKey_split (buf key rest : Bytes) (h : scanKey buf = .ok (key, rest)) :
    ∃ X, X ≠ [] ∧ skipWhitespace buf = X ++ rest ∧ rest.head? = some cSpace := by
  unfold scanKey at h
  split at h
  · cases h
  · cases h
  · next name r hm =>
    simp only [Except.ok.injEq, Prod.mk.injEq] at h
    obtain ⟨rfl, rfl⟩ := h
    obtain ⟨h1, _, _⟩ := scanMeasurement_shape _ _ _ hm (Or.inr ⟨r, rfl⟩)
    obtain ⟨_, s2⟩ := scanMeasurement_split _ _ _ hm
    exact ⟨name, h1, (s2 r rfl).1, (s2 r rfl).2⟩
  · next name r0 hm =>
    obtain ⟨s1, _⟩ := scanMeasurement_split _ _ _ hm
    have hbuf := s1 r0 rfl
    unfold scanKeyTags at h
    cases hst : scanTags (r0.length + 1) r0 with
    | error e => rw [hst] at h; cases h
    | ok p =>
      obtain ⟨raws, rest'⟩ := p
      rw [hst] at h
      simp only at h
      obtain ⟨kvs, _, _, _, hrest, hr0⟩ := scanTags_shape _ _ _ _ hst
      have hrest' : rest = rest' := by
        split at h
        · cases h
        · split at h
          · cases h
          · cases h; rfl
          · exact scanKeySort_rest _ _ _ _ _ h
      subst hrest'
      refine ⟨name ++ cComma :: joinRaw raws, by simp, ?_, hrest⟩
      rw [hbuf, hr0]; simp

/-! ### scanFields and the rest never answer `panic` -/

theorem toErr_noPanic (e : NumErr) : e.toErr.isPanic = false := by cases e <;> rfl

theorem checkBoolean_noPanic (tok : Bytes) (e : Err) (h : checkBoolean tok = .error e) : e.isPanic = false := by
  cases e with
  | panic w =>
    exfalso
    unfold checkBoolean at h
    split at h
    · cases h
    · simp only [] at h
      repeat' split at h
      all_goals cases h
  | _ => rfl

theorem finish_noPanic (s : FSt) (rest : Bytes) (e : Err) (h : s.finish rest = .error e) : e.isPanic = false := by
  cases e with
  | panic w =>
    exfalso
    unfold FSt.finish at h
    repeat' split at h
    all_goals cases h
  | _ => rfl

theorem consOk_error (b : Nat) (r : Except Err (Bytes × Bytes)) (e : Err) (h : consOk b r = .error e) :
    r = .error e := by
  cases r with
  | error e' => simpa [consOk] using h
  | ok p => obtain ⟨f, r⟩ := p; simp [consOk] at h

theorem scanFieldsM_noPanic (m : FMode) (s : FSt) (buf : Bytes) (e : Err)
    (h : scanFieldsM m s buf = .error e) : e.isPanic = false := by
  induction buf generalizing m s with
  | nil =>
    cases m with
    | normal => rw [scanFieldsM] at h; exact finish_noPanic _ _ _ h
    | skip => rw [scanFieldsM] at h; exact finish_noPanic _ _ _ h
    | num t =>
      rw [scanFieldsM] at h
      split at h
      · cases h; exact toErr_noPanic _
      · exact finish_noPanic _ _ _ h
    | bool t =>
      rw [scanFieldsM] at h
      split at h
      · next e' he => cases h; exact checkBoolean_noPanic _ _ he
      · exact finish_noPanic _ _ _ h
  | cons b rest ih =>
    cases m with
    | skip => rw [scanFieldsM] at h; exact ih _ _ (consOk_error _ _ _ h)
    | num t =>
      rw [scanFieldsM] at h
      split at h
      · split at h
        · cases h; exact toErr_noPanic _
        · split at h
          · exact ih _ _ (consOk_error _ _ _ h)
          · exact finish_noPanic _ _ _ h
      · exact ih _ _ (consOk_error _ _ _ h)
    | bool t =>
      rw [scanFieldsM] at h
      split at h
      · split at h
        · next e' he => cases h; exact checkBoolean_noPanic _ _ he
        · split at h
          · exact ih _ _ (consOk_error _ _ _ h)
          · exact finish_noPanic _ _ _ h
      · exact ih _ _ (consOk_error _ _ _ h)
    | normal =>
      rw [scanFieldsM] at h
      split at h
      · exact ih _ _ (consOk_error _ _ _ h)
      · split at h
        · exact ih _ _ (consOk_error _ _ _ h)
        · split at h
          · simp only [] at h
            split at h
            · cases h; rfl
            · split at h
              · cases h; rfl
              · split at h
                · cases h; rfl
                · split at h
                  · cases h; rfl
                  · split at h
                    · exact ih _ _ (consOk_error _ _ _ h)
                    · split at h
                      · exact ih _ _ (consOk_error _ _ _ h)
                      · exact ih _ _ (consOk_error _ _ _ h)
          · split at h
            · exact finish_noPanic _ _ _ h
            · exact ih _ _ (consOk_error _ _ _ h)

theorem lastTwo_some (l : Bytes) (h : 2 ≤ l.length) : ∃ p, lastTwo l = some p := by
  unfold lastTwo
  have hl : l.reverse.length = l.length := List.length_reverse
  cases hr : l.reverse with
  | nil => rw [hr] at hl; simp at hl; omega
  | cons a t =>
    cases t with
    | nil => rw [hr] at hl; simp at hl; omega
    | cons b t' => exact ⟨(a, b), rfl⟩

theorem skipWhitespace_length_le (l : Bytes) : (skipWhitespace l).length ≤ l.length := by
  induction l with
  | nil => simp [skipWhitespace]
  | cons b r ih => rw [skipWhitespace]; split <;> simp <;> omega

theorem scanFields_noPanic (pre rest : Bytes) (hpre : pre ≠ []) (hr : rest.head? = some cSpace) (e : Err)
    (h : scanFields pre rest = .error e) : e.isPanic = false := by
  unfold scanFields at h
  cases rest with
  | nil => simp at hr
  | cons c r =>
    simp at hr; subst hr
    have hsk : skipWhitespace (cSpace :: r) = skipWhitespace r := by
      rw [skipWhitespace]; simp [show isWs cSpace = true from by decide]
    have hlen := skipWhitespace_length_le r
    have hws : 1 ≤ (cSpace :: r).length - (skipWhitespace (cSpace :: r)).length := by
      rw [hsk]; simp only [List.length_cons]; omega
    obtain ⟨p, hp⟩ := lastTwo_some (pre ++ (cSpace :: r).take ((cSpace :: r).length - (skipWhitespace (cSpace :: r)).length)) (by
      have : 1 ≤ pre.length := by cases pre with | nil => exact absurd rfl hpre | cons _ _ => simp
      have h2 : 1 ≤ ((cSpace :: r).take ((cSpace :: r).length - (skipWhitespace (cSpace :: r)).length)).length := by
        rw [List.length_take]; simp only [List.length_cons] at hws ⊢; omega
      simp only [List.length_append]; omega)
    simp only [hp] at h
    exact scanFieldsM_noPanic _ _ _ _ h

theorem walkFieldsCheck_noPanic (keyLen fuel : Nat) (fields : Bytes) (e : Err)
    (h : walkFieldsCheck keyLen fuel fields = .error e) : e.isPanic = false := by
  induction fuel generalizing fields with
  | zero => simp [walkFieldsCheck] at h
  | succ n ih =>
    cases fields with
    | nil => simp [walkFieldsCheck] at h
    | cons b r =>
      unfold walkFieldsCheck at h
      simp only at h
      split at h
      · cases h; rfl
      · split at h
        · cases h; rfl
        · split at h
          · cases h; rfl
          · exact ih _ h

theorem scanTimeAux_noPanic (a : Bool) (buf : Bytes) (e : Err) (h : scanTimeAux a buf = .error e) :
    e.isPanic = false := by
  induction buf generalizing a with
  | nil => simp [scanTimeAux] at h
  | cons b rest ih =>
    rw [scanTimeAux] at h
    split at h
    · cases h
    · split at h
      · exact ih _ (consOk_error _ _ _ h)
      · split at h
        · cases h; rfl
        · exact ih _ (consOk_error _ _ _ h)

theorem scanKey_noPanic (buf : Bytes) (e : Err) (h : scanKey buf = .error e) : e.isPanic = false := by
  unfold scanKey at h
  split at h
  · cases h; rfl
  · cases h; rfl
  · cases h
  · next name r0 hm =>
    unfold scanKeyTags at h
    cases hst : scanTags (r0.length + 1) r0 with
    | error e' => rw [hst] at h; cases h; exact scanTags_noPanic _ _ (by omega) _ hst
    | ok p =>
      obtain ⟨raws, rest'⟩ := p
      rw [hst] at h
      simp only at h
      obtain ⟨kvs, rfl, _, hks, hrest, _⟩ := scanTags_shape _ _ _ _ hst
      split at h
      · cases h; rfl
      · split at h
        · next e' he =>
          cases h
          -- checkSorted only fails with "duplicate tags"
          have : ∀ (l : List Bytes) (e : Err), checkSorted l = .error e → e.isPanic = false := by
            intro l
            induction l with
            | nil => intro e h; simp [checkSorted] at h
            | cons a rest ih =>
              intro e h
              cases rest with
              | nil => simp [checkSorted] at h
              | cons b r =>
                rw [checkSorted] at h
                split at h
                · cases h
                · cases h; rfl
                · exact ih _ h
          exact this _ _ he
        · cases h
        · unfold scanKeySort at h
          have hshape : ∀ s ∈ insertionSort (fun a b => cmpBytes (rawTagKey a) (rawTagKey b) == .lt)
              (tagSuffixes (kvs.map kvText) rest'), SuffixShape s := by
            intro s hs'
            exact tagSuffixes_shape kvs rest' hks hrest s ((mem_insertionSort _ _ s).mp hs')
          obtain ⟨kvl, m1, _, _⟩ := mapM_scanToSpaceOr _ hshape
          rw [m1] at h
          simp only at h
          split at h
          · cases h; rfl
          · cases h

/-- **no modelled panic**: `parsePoint` never answers with one of the out-of-range outcomes
    (`scanTags` index growth, `scanToSpaceOr`, `scanFields` look-behind) -/
theorem parsePoint_noPanic (line : Bytes) (dt : Int) (prec : String) (e : Err)
    (h : parsePoint line dt prec = .error e) : e.isPanic = false := by
  unfold parsePoint at h
  cases hk : scanKey line with
  | error e' => rw [hk] at h; cases h; exact scanKey_noPanic _ _ hk
  | ok p =>
    obtain ⟨key, rest⟩ := p
    rw [hk] at h
    simp only at h
    obtain ⟨X, hX, hsplit, hhead⟩ := scanKey_split _ _ _ hk
    split at h
    · cases h; rfl
    · split at h
      · cases h; rfl
      · have hpre : (skipWhitespace line).take ((skipWhitespace line).length - rest.length) ≠ [] := by
          rw [hsplit]
          have : (X ++ rest).length - rest.length = X.length := by simp
          rw [this, List.take_left']
          · exact hX
          · rfl
        split at h
        · next e' hf => cases h; exact scanFields_noPanic _ _ hpre hhead _ hf
        · split at h
          · cases h; rfl
          · split at h
            · next e' hw => cases h; exact walkFieldsCheck_noPanic _ _ _ _ hw
            · split at h
              · next e' ht =>
                cases h
                unfold scanTime at ht
                exact scanTimeAux_noPanic _ _ _ ht
              · split at h
                · cases h
                · split at h
                  · cases h; rfl
                  · split at h
                    · next e' hs =>
                      cases h
                      unfold safeCalcTime at hs
                      repeat' split at hs
                      all_goals first | (cases hs; rfl) | cases hs
                    · split at h
                      · cases h
                      · cases h; rfl

end Influx.LP
