/-
  The out-of-range outcomes of the model (`Err.panic`) are unreachable from `parsePoint`.
-/
import Influx.Lemmas.LineProtocolSortPath

namespace Influx.LP
open Influx.Generated.LineProto

def Err.isPanic : Err → Bool
  | .panic _ => true
  | _ => false

theorem scanTagsKeyAux_noPanic (prev : Nat) (buf : Bytes) (e : Err) (h : scanTagsKeyAux prev buf = .error e) :
    e.isPanic = false := by
  induction buf generalizing prev with
  | nil => simp [scanTagsKeyAux] at h; subst h; rfl
  | cons b rest ih =>
    rw [scanTagsKeyAux] at h
    split at h
    · cases h; rfl
    · split at h
      · cases h
      · cases hrec : scanTagsKeyAux b rest with
        | error e' => rw [hrec] at h; cases h; exact ih b hrec
        | ok p => rw [hrec] at h; cases h

theorem scanTagsKey_noPanic (buf : Bytes) (e : Err) (h : scanTagsKey buf = .error e) : e.isPanic = false := by
  cases buf with
  | nil => simp [scanTagsKey] at h; subst h; rfl
  | cons b rest =>
    rw [scanTagsKey] at h
    split at h
    · cases h; rfl
    · cases hrec : scanTagsKeyAux b rest with
      | error e' => rw [hrec] at h; cases h; exact scanTagsKeyAux_noPanic b rest _ hrec
      | ok p => rw [hrec] at h; cases h

theorem scanTagsValueAux_noPanic (prev : Nat) (buf : Bytes) (e : Err)
    (h : scanTagsValueAux prev buf = .error e) : e.isPanic = false := by
  induction buf generalizing prev with
  | nil => simp [scanTagsValueAux] at h; subst h; rfl
  | cons b rest ih =>
    rw [scanTagsValueAux] at h
    split at h
    · cases h; rfl
    · split at h
      · cases h
      · split at h
        · cases h
        · cases hrec : scanTagsValueAux b rest with
          | error e' => rw [hrec] at h; cases h; exact ih b hrec
          | ok p => rw [hrec] at h; cases h

theorem scanTagsValue_noPanic (buf : Bytes) (e : Err) (h : scanTagsValue buf = .error e) : e.isPanic = false := by
  cases buf with
  | nil => simp [scanTagsValue] at h; subst h; rfl
  | cons b rest =>
    rw [scanTagsValue] at h
    split at h
    · cases h; rfl
    · cases hrec : scanTagsValueAux b rest with
      | error e' => rw [hrec] at h; cases h; exact scanTagsValueAux_noPanic b rest _ hrec
      | ok p => rw [hrec] at h; cases h

/-- the fuel of `scanTags` (the buffer length + 1) is never exhausted -/
theorem scanTags_noPanic (fuel : Nat) (buf : Bytes) (hf : buf.length < fuel) (e : Err)
    (h : scanTags fuel buf = .error e) : e.isPanic = false := by
  induction fuel generalizing buf with
  | zero => omega
  | succ n ih =>
    rw [scanTags] at h
    cases hk : scanTagsKey buf with
    | error e' => rw [hk] at h; cases h; exact scanTagsKey_noPanic buf _ hk
    | ok p =>
      obtain ⟨k, r1⟩ := p
      rw [hk] at h
      simp only at h
      obtain ⟨_, _, _, k4⟩ := scanTagsKey_shape buf k r1 hk
      cases hv : scanTagsValue r1 with
      | error e' => rw [hv] at h; cases h; exact scanTagsValue_noPanic r1 _ hv
      | ok q =>
        obtain ⟨v, te⟩ := q
        rw [hv] at h
        obtain ⟨_, _, _, v4, _⟩ := scanTagsValue_shape r1 v te hv
        cases te with
        | fields r2 => cases h
        | key r2 =>
          simp only at h
          have e1 := v4 r2 rfl
          cases hrec : scanTags n r2 with
          | ok pr => rw [hrec] at h; cases h
          | error e' =>
            rw [hrec] at h; cases h
            apply ih r2 _ hrec
            rw [k4, e1] at hf
            simp only [List.length_append, List.length_cons] at hf
            omega

/-! ### where the key ends -/

theorem scanMeasurement_split (buf n : Bytes) (e : MeasEnd) (h : scanMeasurement buf = (n, e)) :
    (∀ r, e = .tags r → buf = n ++ cComma :: r) ∧
    (∀ r, e = .fields r → buf = n ++ r ∧ r.head? = some cSpace) := by
  cases buf with
  | nil =>
    simp [scanMeasurement] at h
    obtain ⟨_, rfl⟩ := h
    constructor <;> intro r hr <;> cases hr
  | cons b rest =>
    by_cases hb : b = cComma
    · simp [scanMeasurement, hb] at h
      obtain ⟨_, rfl⟩ := h
      constructor <;> intro r hr <;> cases hr
    · rw [scanMeasurement, if_neg hb] at h
      obtain ⟨n', e', hne⟩ : ∃ n' e', scanMeasAux b rest = (n', e') := ⟨_, _, rfl⟩
      rw [hne] at h
      simp only [Prod.mk.injEq] at h
      obtain ⟨rfl, rfl⟩ := h
      obtain ⟨_, i2, i3⟩ := scanMeasAux_shape b rest n' e' hne
      constructor
      · intro r hr; exact congrArg (List.cons b) (i2 r hr).2
      · intro r hr; exact ⟨congrArg (List.cons b) (i3 r hr).2.1, (i3 r hr).2.2⟩

theorem scanKeySort_rest (name : Bytes) (raws : List Bytes) (rest key r : Bytes)
    (h : scanKeySort name raws rest = .ok (key, r)) : r = rest := by
  unfold scanKeySort at h
  split at h
  · cases h
  · split at h
    · cases h
    · cases h; rfl

/-- after an accepted key the buffer continues with the space that ends it -/
theorem scanKey_split (buf key rest : Bytes) (h : scanKey buf = .ok (key, rest)) :
    ∃ X, X ≠ [] ∧ skipWhitespace buf = X ++ rest ∧ rest.head? = some cSpace := by
  unfold scanKey at h
  split at h
  · cases h
  · cases h
  · next name r hm =>
    simp only [Except.ok.injEq, Prod.mk.injEq] at h
    obtain ⟨rfl, rfl⟩ := h
    obtain ⟨h1, _, _⟩ := scanMeasurement_shape _ _ _ hm (Or.inr ⟨r, rfl⟩)
    obtain ⟨_, s2⟩ := scanMeasurement_split _ _ _ hm
    exact ⟨name, h1, (s2 r rfl).1, (s2 r rfl).2⟩
  · next name r0 hm =>
    obtain ⟨s1, _⟩ := scanMeasurement_split _ _ _ hm
    have hbuf := s1 r0 rfl
    unfold scanKeyTags at h
    cases hst : scanTags (r0.length + 1) r0 with
    | error e => rw [hst] at h; cases h
    | ok p =>
      obtain ⟨raws, rest'⟩ := p
      rw [hst] at h
      simp only at h
      obtain ⟨kvs, _, _, _, hrest, hr0⟩ := scanTags_shape _ _ _ _ hst
      have hrest' : rest = rest' := by
        split at h
        · cases h
        · split at h
          · cases h
          · cases h; rfl
          · exact scanKeySort_rest _ _ _ _ _ h
      subst hrest'
      refine ⟨name ++ cComma :: joinRaw raws, by simp, ?_, hrest⟩
      rw [hbuf, hr0]; simp

/-! ### scanFields and the rest never answer `panic` -/

theorem checkNumber_noPanic (tok : Bytes) (e : Err) (h : checkNumber tok = .error e) : e.isPanic = false := by
  unfold checkNumber at h
  repeat' split at h
  all_goals first | (cases h; rfl) | cases h

theorem checkBoolean_noPanic (tok : Bytes) (e : Err) (h : checkBoolean tok = .error e) : e.isPanic = false := by
  unfold checkBoolean at h
  repeat' split at h
  all_goals first | (cases h; rfl) | cases h

theorem finish_noPanic (s : FSt) (rest : Bytes) (e : Err) (h : s.finish rest = .error e) : e.isPanic = false := by
  unfold FSt.finish at h
  repeat' split at h
  all_goals first | (cases h; rfl) | cases h

theorem consOk_error (b : Nat) (r : Except Err (Bytes × Bytes)) (e : Err) (h : consOk b r = .error e) :
    r = .error e := by
  cases r with
  | error e' => simpa [consOk] using h
  | ok p => obtain ⟨f, r⟩ := p; simp [consOk] at h

end Influx.LP
