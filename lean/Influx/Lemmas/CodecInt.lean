/-
  Lemmas.CodecInt — boolean and integer codecs decode what they encode.
-/
import Influx.Lemmas.CodecBits
import Influx.Lemmas.CodecS8b
import Influx.Model.CodecBlock
namespace Influx.Codec
open Influx.Generated.Codec

/-! ### boolean -/

theorem boolDecode_boolEncode (vs : List Bool) (hlen : vs.length < W) : boolDecode (boolEncode vs) = some vs := by
  unfold boolEncode boolDecode
  simp only
  rw [getUvarint_put _ hlen]
  obtain ⟨pad, hp⟩ := bitsOfBytes_packBits vs
  simp only [hp, List.take_left']

theorem boolDecode_boolEncodeS (vs : List Bool) (hlen : vs.length < W) : boolDecode (boolEncodeS vs) = some vs := by
  unfold boolEncodeS
  split
  · next h =>
    have : vs = [] := by simpa using h
    subst this
    decide
  · exact boolDecode_boolEncode vs hlen

/-! ### integer -/

theorem zigzagDec_lt (v : Nat) (h : v < W) : zigzagDec v < W := by
  unfold zigzagDec
  have hW : W = 18446744073709551616 := rfl
  rw [hW] at h ⊢
  have h2 : v / 2 < 2 ^ 64 := by omega
  split
  · rw [ones64_eq, xor_ones64 _ h2]; omega
  · rw [Nat.xor_zero]; omega

theorem zzDeltas_lt (prev : Nat) (vs : List Nat) : ∀ e ∈ zzDeltas prev vs, e < W := by
  induction vs generalizing prev with
  | nil => simp [zzDeltas]
  | cons v vs ih =>
    intro e he
    simp only [zzDeltas, List.mem_cons] at he
    rcases he with rfl | he
    · exact zigzagEnc_lt _
    · exact ih v e he

theorem zzDeltas_length (prev : Nat) (vs : List Nat) : (zzDeltas prev vs).length = vs.length := by
  induction vs generalizing prev with
  | nil => rfl
  | cons v vs ih => simp [zzDeltas, ih]

/-- delta + zigzag and back -/
theorem unDeltas_zzDeltas (prev : Nat) (vs : List Nat) (hp : prev < W) (hv : ∀ v ∈ vs, v < W) :
    unDeltas prev (zzDeltas prev vs) = vs := by
  induction vs generalizing prev with
  | nil => rfl
  | cons v vs ih =>
    have hvv := hv v List.mem_cons_self
    simp only [zzDeltas, unDeltas]
    have hW : W = 18446744073709551616 := rfl
    have hlt : (v + W - prev) % W < W := Nat.mod_lt _ (by rw [hW]; omega)
    rw [Influx.Codec.zigzag_roundtrip _ hlt]
    have e : (prev + (v + W - prev) % W) % W = v := by rw [hW] at hp hvv ⊢; omega
    rw [e, ih v hvv (fun x hx => hv x (List.mem_cons_of_mem _ hx))]


theorem zigzagEnc_inj (a b : Nat) (ha : a < W) (hb : b < W) (h : zigzagEnc a = zigzagEnc b) : a = b := by
  rw [← Influx.Codec.zigzag_roundtrip a ha, ← Influx.Codec.zigzag_roundtrip b hb, h]

theorem rleExpand_succ (first d n i : Nat) :
    rleExpand first d (n + 1) i = ((first + i * d) % W) :: rleExpand first d n (i + 1) := rfl

theorem rleExpand_spec (first d : Nat) (hd : d < W) : ∀ (vs : List Nat) (prev i : Nat), prev < W →
    prev = (first + i * d) % W → (∀ v ∈ vs, v < W) → (∀ e ∈ zzDeltas prev vs, e = zigzagEnc d) →
    rleExpand first d vs.length (i + 1) = vs := by
  intro vs
  induction vs with
  | nil => intros; rfl
  | cons v vs ih =>
    intro prev i hp hprev hv he
    have hvv := hv v List.mem_cons_self
    simp only [zzDeltas, List.mem_cons, forall_eq_or_imp] at he
    have hW : W = 18446744073709551616 := rfl
    have hlt : (v + W - prev) % W < W := Nat.mod_lt _ (by rw [hW]; omega)
    have hdelta := zigzagEnc_inj _ _ hlt hd he.1
    have hveq : v = (first + (i + 1) * d) % W := by
      have h1 : v = (prev + d) % W := by rw [← hdelta]; rw [hW] at hp hvv ⊢; omega
      rw [h1, hprev, Nat.succ_mul, ← Nat.add_assoc, Nat.mod_add_mod]
    simp only [List.length_cons, rleExpand]
    rw [← hveq]
    congr 1
    exact ih v (i + 1) hvv hveq (fun x hx => hv x (List.mem_cons_of_mem _ hx)) he.2

theorem allEqTail_spec (e0 e1 : Nat) (rest : List Nat) (h : allEqTail (e0 :: e1 :: rest) = true) :
    ∀ e ∈ e1 :: rest, e = e1 := by
  intro e he
  rcases List.mem_cons.mp he with rfl | he'
  · rfl
  · have := List.all_eq_true.mp h e he'
    simpa using this

theorem words_wordsToBytes (ws : List Nat) (h : ∀ w ∈ ws, w < W) : words (wordsToBytes ws) = (ws, []) :=
  words_flatMap_putU64 ws h

/-! format lemmas over generic words (kept generic so that the kernel never has to evaluate a codec) -/

theorem intDecode_rle_fmt (e0 e1 cnt : Nat) (h0 : e0 < W) (h1 : e1 < W) (hc : cnt < W) :
    intDecode ((intCompressedRLE * 16) :: (putU64 e0 ++ putUvarint e1 ++ putUvarint cnt)) =
      some (rleExpand (zigzagDec e0) (zigzagDec e1) (cnt + 1) 0) := by
  unfold intDecode
  have hh : intCompressedRLE * 16 / 16 = 2 := by decide
  have c0 : ¬ (2 = intUncompressed) := by decide
  have c1 : ¬ (2 = intCompressedSimple) := by decide
  have c2 : 2 = intCompressedRLE := by decide
  simp only [hh, if_neg c0, if_neg c1, if_pos c2]
  rw [List.append_assoc, getU64_putU64 _ h0]
  simp only
  rw [getUvarint_put _ h1]
  simp only
  have : putUvarint cnt = putUvarint cnt ++ [] := by simp
  rw [this, getUvarint_put _ hc]

theorem intDecode_raw_fmt (ws : List Nat) (h : ∀ w ∈ ws, w < W) :
    intDecode ((intUncompressed * 16) :: ws.flatMap putU64) = some (unDeltas 0 ws) := by
  unfold intDecode
  have hh : intUncompressed * 16 / 16 = 0 := by decide
  have c0 : 0 = intUncompressed := by decide
  simp only [hh, if_pos c0]
  rw [words_flatMap_putU64 ws h]
  simp

theorem intDecode_packed_fmt (e0 : Nat) (ws : List Nat) (h0 : e0 < W) (h : ∀ w ∈ ws, w < W) :
    intDecode ((intCompressedSimple * 16) :: (putU64 e0 ++ wordsToBytes ws)) = some (unDeltas 0 (e0 :: decodeWords ws)) := by
  unfold intDecode
  have hh : intCompressedSimple * 16 / 16 = 1 := by decide
  have c0 : ¬ (1 = intUncompressed) := by decide
  have c1 : 1 = intCompressedSimple := by decide
  simp only [hh, if_neg c0, if_pos c1]
  rw [getU64_putU64 _ h0]
  simp only
  rw [words_wordsToBytes ws h]
  simp


/-- RLE-shaped delta lists expand back -/
theorem rle_roundtrip (v0 v1 : Nat) (tail : List Nat) (hv : ∀ v ∈ v0 :: v1 :: tail, v < W)
    (hrle : allEqTail (zzDeltas 0 (v0 :: v1 :: tail)) = true) :
    ∃ e0 e1 rest, zzDeltas 0 (v0 :: v1 :: tail) = e0 :: e1 :: rest ∧ e0 < W ∧ e1 < W ∧
      rleExpand (zigzagDec e0) (zigzagDec e1) (tail.length + 1 + 1) 0 = v0 :: v1 :: tail := by
  have hv0 := hv v0 List.mem_cons_self
  have hv1 := hv v1 (by simp)
  have hW : W = 18446744073709551616 := rfl
  have hd : (v1 + W - v0) % W < W := Nat.mod_lt _ (by rw [hW]; omega)
  have e0 : (v0 + W - 0) % W = v0 := by rw [hW] at hv0 ⊢; omega
  refine ⟨zigzagEnc ((v0 + W - 0) % W), zigzagEnc ((v1 + W - v0) % W), zzDeltas v1 tail, rfl, zigzagEnc_lt _, zigzagEnc_lt _, ?_⟩
  have hall := allEqTail_spec _ _ _ hrle
  rw [Influx.Codec.zigzag_roundtrip _ (by rw [e0]; exact hv0), Influx.Codec.zigzag_roundtrip _ hd, e0]
  have hrest := rleExpand_spec v0 ((v1 + W - v0) % W) hd (v1 :: tail) v0 0 hv0 (by rw [hW] at hv0 ⊢; omega)
    (fun x hx => hv x (List.mem_cons_of_mem _ hx))
    (by intro e he; exact hall e he)
  have hx : (v0 + 0 * ((v1 + W - v0) % W)) % W = v0 := by rw [hW] at hv0 ⊢; omega
  rw [rleExpand_succ, hx]
  simp only [List.length_cons, Nat.zero_add] at hrest
  rw [hrest]

/-- **integer codec, scalar encoder**: encodes every sequence, and the decoder returns it. -/
theorem intEncodeS_roundtrip (vs : List Nat) (hv : ∀ v ∈ vs, v < W) (hlen : vs.length < W) :
    ∃ b, intEncodeS vs = some b ∧ intDecode b = some vs := by
  unfold intEncodeS
  simp only
  have hencW := zzDeltas_lt 0 vs
  have hund := unDeltas_zzDeltas 0 vs (by decide) hv
  have hl := zzDeltas_length 0 vs
  split
  · next hc =>
    simp only [Bool.and_eq_true, decide_eq_true_eq] at hc
    obtain ⟨hrle, h2⟩ := hc
    match vs, hv, hlen, hencW, hund, hl, hrle, h2 with
    | v0 :: v1 :: tail, hv, hlen, _, _, _, hrle, _ =>
      obtain ⟨e0, e1, rest, heq, h0, h1, hexp⟩ := rle_roundtrip v0 v1 tail hv hrle
      refine ⟨_, rfl, ?_⟩
      have hlen' : (zzDeltas 0 (v0 :: v1 :: tail)).length = tail.length + 1 + 1 := by rw [zzDeltas_length]; rfl
      rw [heq] at hlen' ⊢
      simp only [rleBytes, hlen']
      have : tail.length + 1 + 1 - 1 = tail.length + 1 := by omega
      rw [this, intDecode_rle_fmt e0 e1 (tail.length + 1) h0 h1 (by simp at hlen; omega), hexp]
    | [_], _, _, _, _, _, _, h2 => simp [zzDeltas] at h2
    | [], _, _, _, _, _, _, h2 => simp [zzDeltas] at h2
  · split
    · refine ⟨_, rfl, ?_⟩
      rw [intDecode_raw_fmt _ hencW, hund]
    · next hsmall =>
      generalize henc : zzDeltas 0 vs = enc at *
      cases enc with
      | nil =>
        have : vs = [] := List.length_eq_zero_iff.mp (by rw [← hl]; rfl)
        subst this
        exact ⟨[], rfl, rfl⟩
      | cons e0 rest =>
        have hgood : ∀ v ∈ rest, v ≤ MaxValue := by
          intro v hvv
          apply Nat.le_of_not_lt
          intro hgt
          exact hsmall (List.any_eq_true.mpr ⟨v, List.mem_cons_of_mem _ hvv, by simpa using hgt⟩)
        obtain ⟨ws, e1, e2, e3⟩ := encodeAllJ_ok rest hgood
        simp only [e1]
        refine ⟨_, rfl, ?_⟩
        rw [intDecode_packed_fmt e0 ws (hencW e0 List.mem_cons_self) e3, e2, hund]

/-- **integer codec, batch encoder** -/
theorem intEncodeB_roundtrip (vs : List Nat) (hv : ∀ v ∈ vs, v < W) (hlen : vs.length < W) :
    ∃ b, intEncodeB vs = some b ∧ intDecode b = some vs := by
  unfold intEncodeB
  simp only
  have hencW := zzDeltas_lt 0 vs
  have hund := unDeltas_zzDeltas 0 vs (by decide) hv
  have hl := zzDeltas_length 0 vs
  cases henc : zzDeltas 0 vs with
  | nil =>
    have : vs = [] := List.length_eq_zero_iff.mp (by rw [← hl, henc]; rfl)
    subst this
    exact ⟨[], rfl, rfl⟩
  | cons e0 rest =>
    simp only
    split
    · next hc =>
      simp only [Bool.and_eq_true, decide_eq_true_eq] at hc
      obtain ⟨h2, hrle⟩ := hc
      rw [← henc] at hrle h2 ⊢
      match vs, hv, hlen, hrle, h2 with
      | v0 :: v1 :: tail, hv, hlen, hrle, _ =>
        obtain ⟨e0', e1, rest', heq, h0, h1, hexp⟩ := rle_roundtrip v0 v1 tail hv hrle
        refine ⟨_, rfl, ?_⟩
        have hlen' : (zzDeltas 0 (v0 :: v1 :: tail)).length = tail.length + 1 + 1 := by rw [zzDeltas_length]; rfl
        rw [heq] at hlen' ⊢
        simp only [rleBytes, hlen']
        have : tail.length + 1 + 1 - 1 = tail.length + 1 := by omega
        rw [this, intDecode_rle_fmt e0' e1 (tail.length + 1) h0 h1 (by simp at hlen; omega), hexp]
      | [_], _, _, _, h2 => simp [zzDeltas] at h2
      | [], _, _, _, h2 => simp [zzDeltas] at h2
    · split
      · refine ⟨_, rfl, ?_⟩
        rw [← henc, intDecode_raw_fmt _ hencW, hund]
      · next hsmall =>
        have hgood : ∀ v ∈ rest, v ≤ MaxValue := by
          intro v hvv
          apply Nat.le_of_not_lt
          intro hgt
          exact hsmall (List.any_eq_true.mpr ⟨v, hvv, by simpa using hgt⟩)
        obtain ⟨ws, e1, e2, e3⟩ := encodeAllI_ok rest hgood
        simp only [e1]
        refine ⟨_, rfl, ?_⟩
        rw [henc] at hencW hund
        rw [intDecode_packed_fmt e0 ws (hencW e0 List.mem_cons_self) e3, e2, hund]

end Influx.Codec
