/-
  Lemmas.CompactTrace — the statement checker along a model trace.
-/
import Influx.Lemmas.CompactDel

namespace Influx.Model.Compact
open Influx.Spec.C04

/-! ### the statement checker on model traces -/

/-- the hypotheses under which a compaction of the accepted operations `acc` is proved to
    satisfy the statement: at most 20 blocks per key (see
    `C04_sort_stable_fails`), no input block larger than the requested size (see
    `C04_full_fails`), and the model run returns (termination of the loops is not proved) -/
def GoodAt (acc : List Op) (fast : Bool) (size : Nat) : Prop :=
  (∀ k, (blocksOfKey acc k).length ≤ 20) ∧
  (∀ f k pts, Op.blk f k pts ∈ acc → pts.length ≤ size) ∧
  ∃ files, modelCompact acc fast size = Obs.out files

/-- `GoodAt` at every compaction of the case (state = accepted operations, newest first) -/
def CaseGood : State → List Op → Prop
  | _, [] => True
  | s, op :: rest =>
    (match op with
      | Op.compact fast size _ => (size = 0 ∨ size > 100000) ∨ GoodAt s.reverse fast size
      | _ => True) ∧ CaseGood (step s op).1 rest

theorem validFrom_snoc : ∀ (l pre : List Op) (op : Op), ValidFrom pre l →
    (match op with
      | Op.blk f k pts => blkOK (pre ++ l).reverse f k pts = true
      | Op.del f keys _ _ => delOK f keys = true
      | _ => True) → ValidFrom pre (l ++ [op])
  | [], pre, op, _, h => by
    simp only [List.nil_append, ValidFrom, List.append_nil] at h ⊢
    exact ⟨h, trivial⟩
  | x :: l, pre, op, hv, h => by
    obtain ⟨h1, h2⟩ := hv
    refine ⟨h1, validFrom_snoc l (pre ++ [x]) op h2 ?_⟩
    simpa using h

theorem modelSnap_out (ops : List Op) (size : Nat) : ∃ files, modelSnap ops size = Obs.out files := by
  unfold modelSnap
  have hs : 0 < (if size = 0 then 1000 else size) := by split <;> omega
  rw [snapshotSeq_eq _ hs]
  exact ⟨_, rfl⟩

theorem judgeAll_run : ∀ (ops : List Op) (s : State), ValidFrom [] s.reverse → CaseGood s ops →
    judgeAll s.reverse (run s ops) = none
  | [], _, _, _ => rfl
  | op :: rest, s, hv, hg => by
    obtain ⟨g1, g2⟩ := hg
    unfold run
    cases op with
    | blk f k pts =>
      simp only [step] at g2 ⊢
      by_cases hb : blkOK s f k pts = true
      · rw [if_pos hb] at g2 ⊢
        simp only [judgeAll]
        have hv' : ValidFrom [] (Op.blk f k pts :: s).reverse := by
          rw [List.reverse_cons]
          apply validFrom_snoc _ _ _ hv
          simpa using hb
        have := judgeAll_run rest _ hv' g2
        rw [List.reverse_cons] at this
        exact this
      · rw [if_neg hb] at g2 ⊢
        simp only [judgeAll]
        exact judgeAll_run rest s hv g2
    | del f keys lo hi =>
      simp only [step] at g2 ⊢
      by_cases hb : delOK f keys = true
      · rw [if_pos hb] at g2 ⊢
        simp only [judgeAll]
        have hv' : ValidFrom [] (Op.del f keys lo hi :: s).reverse := by
          rw [List.reverse_cons]
          exact validFrom_snoc _ _ _ hv hb
        have := judgeAll_run rest _ hv' g2
        rw [List.reverse_cons] at this
        exact this
      · rw [if_neg hb] at g2 ⊢
        simp only [judgeAll]
        exact judgeAll_run rest s hv g2
    | cw k pts =>
      simp only [step] at g2 ⊢
      by_cases hb : cwOK k pts = true
      · rw [if_pos hb] at g2 ⊢
        simp only [judgeAll]
        have hv' : ValidFrom [] (Op.cw k pts :: s).reverse := by
          rw [List.reverse_cons]
          exact validFrom_snoc _ _ _ hv trivial
        have := judgeAll_run rest _ hv' g2
        rw [List.reverse_cons] at this
        exact this
      · rw [if_neg hb] at g2 ⊢
        simp only [judgeAll]
        exact judgeAll_run rest s hv g2
    | compact fast size reopen =>
      simp only [step] at g2 ⊢
      by_cases hb : size = 0 ∨ size > 100000
      · rw [if_pos hb] at g2 ⊢
        simp only [judgeAll]
        exact judgeAll_run rest s hv g2
      · rw [if_neg hb] at g2 ⊢
        rcases g1 with g1 | ⟨n2, n3, files, n4⟩
        · exact absurd g1 hb
        · simp only [n4, judgeAll]
          rw [modelCompact_ok' s.reverse hv n2 fast size (by omega) n3 files n4]
          exact judgeAll_run rest s hv g2
    | snap size =>
      simp only [step] at g2 ⊢
      by_cases hb : size > 100000
      · rw [if_pos hb] at g2 ⊢
        simp only [judgeAll]
        exact judgeAll_run rest s hv g2
      · rw [if_neg hb] at g2 ⊢
        obtain ⟨files, hf⟩ := modelSnap_out s.reverse size
        simp only [hf, judgeAll]
        rw [modelSnap_ok s.reverse size files hf]
        exact judgeAll_run rest s hv g2

theorem ptsOf_length_le (f : Nat) (k : Key) (ops : List Op) : (ptsOf f k ops).length ≤ ops.length := by
  unfold ptsOf; exact List.length_filterMap_le _ _

end Influx.Model.Compact
