/-
  Lemmas.TsmDeleteRange — `indirectIndex.DeleteRange`: the cursor loop visits exactly
  the live keys that are in the key list, each once; per key the outcome is: nothing
  (range outside the key's span), the key is removed (range covers the span), or the
  range is recorded (and the key removed when the recorded ranges line up to cover the
  span).
-/
import Influx.Lemmas.TsmDelete

namespace Influx.Tsm
open Influx.Generated.TsmLayout

def perKey (ix : Index) (lo hi : Int) (a : DRAcc) (ke : KeyEntry) : DRAcc := (drBody ix lo hi ke a).1

/-- the cursor loop = a fold of the loop body over the live keys that are in `keys` -/
theorem drLoop_eq (ix : Index) (lo hi : Int) (live : List KeyEntry) (hs : SortedKE live) :
    ∀ (keys : List Key) (acc : DRAcc), SortedK keys →
      drLoop ix lo hi live keys acc =
        (live.filter fun ke => decide (ke.key ∈ keys)).foldl (perKey ix lo hi) acc := by
  induction live with
  | nil => intro keys acc _; rfl
  | cons ke rest ih =>
    intro keys acc hk
    have hrest : SortedKE rest := (List.pairwise_cons.mp hs).2
    have hlt : ∀ x ∈ rest, klt ke.key x.key = true := (List.pairwise_cons.mp hs).1
    have hmem : ∀ x ∈ ke :: rest, (x.key ∈ keys ↔ x.key ∈ keys.dropWhile (klt · ke.key)) := by
      intro x hx
      constructor
      · intro h
        rcases mem_split_dropWhile keys ke.key x.key h with h' | h'
        · exfalso
          rcases List.mem_cons.mp hx with rfl | hx
          · simp [klt_irrefl] at h'
          · have := klt_trans h' (hlt x hx)
            simp [klt_irrefl] at this
        · exact h'
      · exact dropWhile_subset keys ke.key x.key
    simp only [drLoop]
    have hk' := dropWhile_sorted keys ke.key hk
    cases hd : keys.dropWhile (klt · ke.key) with
    | nil =>
      simp only
      have : (ke :: rest).filter (fun ke => decide (ke.key ∈ keys)) = [] := by
        apply List.filter_eq_nil_iff.mpr
        intro x hx
        have := hmem x hx
        rw [hd] at this
        simp [this]
      rw [this]; rfl
    | cons k ks =>
      simp only
      rw [hd] at hk' hmem
      have hkle : kle ke.key k = true := dropWhile_head keys ke.key k ks hd
      have hks : SortedK ks := (List.pairwise_cons.mp hk').2
      have hkall : ∀ z ∈ ks, kle k z = true := (List.pairwise_cons.mp hk').1
      by_cases heq : k = ke.key
      · have hin : ke.key ∈ keys := (hmem ke List.mem_cons_self).mpr (by simp [heq])
        have hrestmem : ∀ x ∈ rest, (x.key ∈ keys ↔ x.key ∈ ks) := by
          intro x hx
          have h1 := hmem x (List.mem_cons_of_mem _ hx)
          have hne : x.key ≠ k := by rw [heq]; exact (klt_ne (hlt x hx)).symm
          rw [h1]; simp [hne]
        have hf : (ke :: rest).filter (fun ke => decide (ke.key ∈ keys)) =
            ke :: rest.filter (fun ke => decide (ke.key ∈ ks)) := by
          simp only [List.filter_cons, hin, decide_true, if_true]
          congr 1
          apply List.filter_congr
          intro x hx; simp [hrestmem x hx]
        have hf2 : rest.filter (fun ke => decide (ke.key ∈ k :: ks)) = rest.filter (fun ke => decide (ke.key ∈ ks)) := by
          apply List.filter_congr
          intro x hx
          have hne : x.key ≠ k := by rw [heq]; exact (klt_ne (hlt x hx)).symm
          simp [hne]
        simp only [heq, ne_eq, not_true_eq_false, if_false]
        rw [hf, List.foldl_cons]
        split
        · rw [ih hrest ks _ hks]; rfl
        · rw [ih hrest (ke.key :: ks) _ (by rw [← heq]; exact hk'), ← heq, hf2]; rfl
      · have hnin : ¬ ke.key ∈ keys := by
          intro h
          have h2 := (hmem ke List.mem_cons_self).mp h
          rcases List.mem_cons.mp h2 with h3 | h3
          · exact heq h3.symm
          · exact heq (kle_antisymm hkle (hkall ke.key h3)).symm
        simp only [ne_eq, heq, not_false_eq_true, if_true]
        rw [ih hrest (k :: ks) acc hk']
        simp only [List.filter_cons, hnin, decide_false, Bool.false_eq_true, if_false]
        congr 1
        apply List.filter_congr
        intro x hx
        have h1 := hmem x (List.mem_cons_of_mem _ hx)
        simp [h1]


/-! ### the outcome for one key -/

def spanKE (ke : KeyEntry) : Option (Int × Int) :=
  match ke.entries.head?, ke.entries.getLast? with
  | some a, some b => some (a.MinTime, b.MaxTime)
  | _, _ => none

inductive Outcome where
  | skip
  | full
  | recd (ts : List TimeRange) (gone : Bool)

def outcome (ix : Index) (lo hi : Int) (ke : KeyEntry) : Outcome :=
  match spanKE ke with
  | none => .skip
  | some (mn, mx) =>
    if lo > mx || hi < mn then .skip
    else if lo ≤ mn && hi ≥ mx then .full
    else
      let newTs := sortTR (tombRange ix ke.key ++ [⟨lo, hi⟩])
      .recd newTs (decide ((window newTs).1 ≤ mn) && decide ((window newTs).2 ≥ mx))

def Outcome.gone : Outcome → Bool
  | .skip => false
  | .full => true
  | .recd _ g => g

def Outcome.recorded : Outcome → Option (List TimeRange)
  | .recd ts _ => some ts
  | _ => none

def lk (m : List (Key × List TimeRange)) (k : Key) : Option (List TimeRange) := (m.find? (·.1 = k)).map (·.2)

theorem tombRange_eq_lk (ix : Index) (k : Key) : tombRange ix k = (lk ix.tombs k).getD [] := by
  unfold tombRange lk; cases ix.tombs.find? _ <;> rfl

theorem mapSet_absent (m : List (Key × List TimeRange)) (k : Key) (v : List TimeRange)
    (h : lk m k = none) : mapSet m k v = m ++ [(k, v)] := by
  induction m with
  | nil => rfl
  | cons p m ih =>
    obtain ⟨k', v'⟩ := p
    simp only [lk, List.find?_cons] at h
    by_cases hk : k' = k
    · simp [hk] at h
    · simp only [hk, decide_false] at h
      simp only [mapSet, hk, if_false, List.cons_append]
      rw [ih (by simpa [lk] using h)]

theorem lk_mapSet (m : List (Key × List TimeRange)) (k k' : Key) (v : List TimeRange) :
    lk (mapSet m k v) k' = if k' = k then some v else lk m k' := by
  induction m with
  | nil =>
    simp only [mapSet, lk, List.find?_cons, List.find?_nil]
    by_cases h : k = k'
    · simp [h]
    · have : ¬ k' = k := fun e => h e.symm
      simp [h, this]
  | cons p m ih =>
    obtain ⟨k0, v0⟩ := p
    simp only [mapSet]
    by_cases h0 : k0 = k
    · subst h0
      simp only [if_true, lk, List.find?_cons]
      by_cases h : k0 = k'
      · simp [h]
      · have : ¬ k' = k0 := fun e => h e.symm
        simp [h, this]
    · simp only [h0, if_false, lk, List.find?_cons]
      by_cases h : k0 = k'
      · have : ¬ k' = k := by rw [← h]; exact h0
        simp [h, this]
      · simp only [h, decide_false]
        have := ih
        simp only [lk] at this
        exact this

/-- the loop body on a key whose range list is not yet in the call-local map -/
theorem drBody_outcome (ix : Index) (lo hi : Int) (ke : KeyEntry) (acc : DRAcc)
    (h : lk acc.tombs ke.key = none) :
    drBody ix lo hi ke acc =
      match outcome ix lo hi ke with
      | .skip => (acc, false)
      | .full => ({ acc with full := ke.key :: acc.full }, true)
      | .recd ts g => ({ full := if g then ke.key :: acc.full else acc.full, tombs := acc.tombs ++ [(ke.key, ts)] }, g) := by
  unfold drBody outcome spanKE
  cases h0 : ke.entries.head? with
  | none => simp
  | some e0 =>
    cases hN : ke.entries.getLast? with
    | none => simp
    | some eN =>
      simp only
      by_cases c1 : (decide (lo > eN.MaxTime) || decide (hi < e0.MinTime)) = true
      · simp [c1]
      · simp only [c1, Bool.false_eq_true, if_false]
        by_cases c2 : (decide (lo ≤ e0.MinTime) && decide (hi ≥ eN.MaxTime)) = true
        · simp [c2]
        · simp only [c2, Bool.false_eq_true, if_false]
          have hf : acc.tombs.find? (fun x => decide (x.1 = ke.key)) = none := by simpa [lk] using h
          simp only [hf, List.nil_append]
          rw [mapSet_absent _ _ _ h]
          by_cases c3 : (decide ((window (sortTR (tombRange ix ke.key ++ [⟨lo, hi⟩]))).1 ≤ e0.MinTime) &&
              decide ((window (sortTR (tombRange ix ke.key ++ [⟨lo, hi⟩]))).2 ≥ eN.MaxTime)) = true
          · simp [c3]
          · simp [c3]


/-! ### the fold over the visited keys -/

def goneKeys (ix : Index) (lo hi : Int) (T : List KeyEntry) : List Key :=
  (T.filter fun ke => (outcome ix lo hi ke).gone).map (·.key)

def recList (ix : Index) (lo hi : Int) (T : List KeyEntry) : List (Key × List TimeRange) :=
  T.filterMap fun ke => (outcome ix lo hi ke).recorded.map fun ts => (ke.key, ts)

theorem lk_append_single (m : List (Key × List TimeRange)) (k k' : Key) (v : List TimeRange)
    (h : lk m k' = none) (hne : k ≠ k') : lk (m ++ [(k, v)]) k' = none := by
  simp only [lk, List.find?_append] at h ⊢
  have hm : m.find? (fun x => decide (x.1 = k')) = none := by simpa using h
  simp [hm, hne]

theorem sorted_key_inj {l : List KeyEntry} (hs : SortedKE l) {a b : KeyEntry} (ha : a ∈ l) (hb : b ∈ l)
    (h : a.key = b.key) : a = b := by
  induction l with
  | nil => cases ha
  | cons x l ih =>
    have hx := List.pairwise_cons.mp hs
    rcases List.mem_cons.mp ha with rfl | ha' <;> rcases List.mem_cons.mp hb with rfl | hb'
    · rfl
    · have := hx.1 b hb'; rw [h] at this; simp [klt_irrefl] at this
    · have := hx.1 a ha'; rw [h] at this; simp [klt_irrefl] at this
    · exact ih hx.2 ha' hb'

theorem fold_char (ix : Index) (lo hi : Int) (T : List KeyEntry) (hs : SortedKE T) :
    ∀ acc0 : DRAcc, (∀ ke ∈ T, lk acc0.tombs ke.key = none) →
      T.foldl (perKey ix lo hi) acc0 =
        { full := (goneKeys ix lo hi T).reverse ++ acc0.full, tombs := acc0.tombs ++ recList ix lo hi T } := by
  induction T with
  | nil => intro acc0 _; simp [goneKeys, recList]
  | cons ke rest ih =>
    intro acc0 h0
    have hx := List.pairwise_cons.mp hs
    have hne : ∀ x ∈ rest, ke.key ≠ x.key := fun x hx' => klt_ne (hx.1 x hx')
    simp only [List.foldl_cons, perKey]
    rw [drBody_outcome ix lo hi ke acc0 (h0 ke List.mem_cons_self)]
    cases ho : outcome ix lo hi ke with
    | skip =>
      simp only
      rw [ih hx.2 acc0 (fun x hx' => h0 x (List.mem_cons_of_mem _ hx'))]
      simp [goneKeys, recList, List.filter_cons, List.filterMap_cons, ho, Outcome.gone, Outcome.recorded]
    | full =>
      simp only
      rw [ih hx.2 { acc0 with full := ke.key :: acc0.full } (fun x hx' => h0 x (List.mem_cons_of_mem _ hx'))]
      simp [goneKeys, recList, List.filter_cons, List.filterMap_cons, ho, Outcome.gone, Outcome.recorded]
    | recd ts g =>
      simp only
      rw [ih hx.2 { full := if g = true then ke.key :: acc0.full else acc0.full, tombs := acc0.tombs ++ [(ke.key, ts)] }
        (fun x hx' => lk_append_single _ _ _ _ (h0 x (List.mem_cons_of_mem _ hx')) (hne x hx'))]
      cases g <;>
        simp [goneKeys, recList, List.filter_cons, List.filterMap_cons, ho, Outcome.gone, Outcome.recorded]

theorem lk_foldl_mapSet (L : List (Key × List TimeRange)) (hnd : (L.map (·.1)).Nodup) :
    ∀ (m0 : List (Key × List TimeRange)) (k : Key),
      lk (L.foldl (fun m p => mapSet m p.1 p.2) m0) k = (lk L k).orElse fun _ => lk m0 k := by
  induction L with
  | nil => intro m0 k; simp [lk]
  | cons p L ih =>
    intro m0 k
    obtain ⟨kp, vp⟩ := p
    simp only [List.map_cons, List.nodup_cons] at hnd
    simp only [List.foldl_cons]
    rw [ih hnd.2, lk_mapSet]
    by_cases hk : kp = k
    · subst hk
      have hfind : L.find? (fun x => decide (x.1 = kp)) = none := by
        simp only [List.find?_eq_none]
        intro x hx
        simp only [decide_eq_true_eq]
        intro e
        exact hnd.1 (by rw [← e]; exact List.mem_map_of_mem hx)
      simp [lk, List.find?_cons, hfind]
    · have hk' : ¬ k = kp := fun e => hk e.symm
      simp [hk', lk, List.find?_cons, hk]

theorem delete_fields (ix : Index) (ks : List Key) :
    (delete ix ks).tombs = ix.tombs ∧ (delete ix ks).all = ix.all ∧ (delete ix ks).minKey = ix.minKey ∧
    (delete ix ks).maxKey = ix.maxKey ∧ (delete ix ks).minTime = ix.minTime ∧ (delete ix ks).maxTime = ix.maxTime := by
  unfold delete; cases sortKeys ks <;> simp

/-- the main branch of `DeleteRange`, as list comprehensions -/
theorem deleteRange_main (ix : Index) (h : IndexInv ix) (keys : List Key) (lo hi : Int)
    (hk : keys ≠ []) (hfull : ¬ (lo = minInt64 ∧ hi = maxInt64)) (hin : ¬ (lo > ix.maxTime ∨ hi < ix.minTime)) :
    let T := ix.live.filter fun ke => decide (ke.key ∈ keys)
    (deleteRange ix keys lo hi).live = ix.live.filter (fun ke => !decide (ke.key ∈ goneKeys ix lo hi T)) ∧
    (deleteRange ix keys lo hi).tombs = (recList ix lo hi T).foldl (fun m p => mapSet m p.1 p.2) ix.tombs ∧
    (deleteRange ix keys lo hi).all = ix.all ∧ (deleteRange ix keys lo hi).minKey = ix.minKey ∧
    (deleteRange ix keys lo hi).maxKey = ix.maxKey ∧ (deleteRange ix keys lo hi).minTime = ix.minTime ∧
    (deleteRange ix keys lo hi).maxTime = ix.maxTime := by
  intro T
  have hT : (ix.live.filter fun ke => decide (ke.key ∈ sortKeys keys)) = T := by
    apply List.filter_congr
    intro x _
    simp [mem_sortKeys]
  have hTs : SortedKE T := List.Pairwise.sublist (List.filter_sublist) h.sortedLive
  have hacc : drLoop ix lo hi ix.live (sortKeys keys) {} =
      { full := (goneKeys ix lo hi T).reverse, tombs := recList ix lo hi T } := by
    rw [drLoop_eq ix lo hi ix.live h.sortedLive _ _ (sortKeys_sorted keys), hT]
    rw [fold_char ix lo hi T hTs {} (by intro ke _; rfl)]
    simp
  unfold deleteRange
  have e1 : keys.isEmpty = false := by cases keys <;> simp_all
  have e2 : (decide (lo = minInt64) && decide (hi = maxInt64)) = false := by
    simp only [Bool.and_eq_false_iff, decide_eq_false_iff_not]
    by_cases h1 : lo = minInt64
    · right; intro h2; exact hfull ⟨h1, h2⟩
    · left; exact h1
  have e3 : (decide (lo > ix.maxTime) || decide (hi < ix.minTime)) = false := by
    simp only [Bool.or_eq_false_iff, decide_eq_false_iff_not]
    exact ⟨fun h1 => hin (Or.inl h1), fun h2 => hin (Or.inr h2)⟩
  simp only [e1, Bool.false_eq_true, if_false, e2, e3, hacc, List.reverse_reverse]
  by_cases hg : (goneKeys ix lo hi T).reverse.isEmpty = true
  · have hg' : goneKeys ix lo hi T = [] := by simpa using hg
    simp only [hg, if_true, hg']
    refine ⟨?_, rfl, rfl, rfl, rfl, rfl, rfl⟩
    symm; apply List.filter_eq_self.mpr; intro x _; simp
  · simp only [hg, Bool.false_eq_true, if_false]
    obtain ⟨d1, d2, d3, d4, d5, d6⟩ := delete_fields ix (goneKeys ix lo hi T)
    exact ⟨delete_live ix h _, by rw [d1], d2, d3, d4, d5, d6⟩

end Influx.Tsm
