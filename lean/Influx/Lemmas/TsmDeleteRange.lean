/-
  Lemmas.TsmDeleteRange — `indirectIndex.DeleteRange`: the cursor loop visits exactly
  the live keys that are in the key list, each once; per key the outcome is: nothing
  (range outside the key's span), the key is removed (range covers the span), or the
  range is recorded (and the key removed when the recorded ranges line up to cover the
  span).
-/
import Influx.Lemmas.TsmDelete

namespace Influx.Tsm
open Influx.Generated.TsmLayout

def perKey (ix : Index) (lo hi : Int) (a : DRAcc) (ke : KeyEntry) : DRAcc := (drBody ix lo hi ke a).1

/-- the cursor loop = a fold of the loop body over the live keys that are in `keys` -/
theorem drLoop_eq (ix : Index) (lo hi : Int) (live : List KeyEntry) (hs : SortedKE live) :
    ∀ (keys : List Key) (acc : DRAcc), SortedK keys →
      drLoop ix lo hi live keys acc =
        (live.filter fun ke => decide (ke.key ∈ keys)).foldl (perKey ix lo hi) acc := by
  induction live with
  | nil => intro keys acc _; rfl
  | cons ke rest ih =>
    intro keys acc hk
    have hrest : SortedKE rest := (List.pairwise_cons.mp hs).2
    have hlt : ∀ x ∈ rest, klt ke.key x.key = true := (List.pairwise_cons.mp hs).1
    have hmem : ∀ x ∈ ke :: rest, (x.key ∈ keys ↔ x.key ∈ keys.dropWhile (klt · ke.key)) := by
      intro x hx
      constructor
      · intro h
        rcases mem_split_dropWhile keys ke.key x.key h with h' | h'
        · exfalso
          rcases List.mem_cons.mp hx with rfl | hx
          · simp [klt_irrefl] at h'
          · have := klt_trans h' (hlt x hx)
            simp [klt_irrefl] at this
        · exact h'
      · exact dropWhile_subset keys ke.key x.key
    simp only [drLoop]
    have hk' := dropWhile_sorted keys ke.key hk
    cases hd : keys.dropWhile (klt · ke.key) with
    | nil =>
      simp only
      have : (ke :: rest).filter (fun ke => decide (ke.key ∈ keys)) = [] := by
        apply List.filter_eq_nil_iff.mpr
        intro x hx
        have := hmem x hx
        rw [hd] at this
        simp [this]
      rw [this]; rfl
    | cons k ks =>
      simp only
      rw [hd] at hk' hmem
      have hkle : kle ke.key k = true := dropWhile_head keys ke.key k ks hd
      have hks : SortedK ks := (List.pairwise_cons.mp hk').2
      have hkall : ∀ z ∈ ks, kle k z = true := (List.pairwise_cons.mp hk').1
      by_cases heq : k = ke.key
      · have hin : ke.key ∈ keys := (hmem ke List.mem_cons_self).mpr (by simp [heq])
        have hrestmem : ∀ x ∈ rest, (x.key ∈ keys ↔ x.key ∈ ks) := by
          intro x hx
          have h1 := hmem x (List.mem_cons_of_mem _ hx)
          have hne : x.key ≠ k := by rw [heq]; exact (klt_ne (hlt x hx)).symm
          rw [h1]; simp [hne]
        have hf : (ke :: rest).filter (fun ke => decide (ke.key ∈ keys)) =
            ke :: rest.filter (fun ke => decide (ke.key ∈ ks)) := by
          simp only [List.filter_cons, hin, decide_true, if_true]
          congr 1
          apply List.filter_congr
          intro x hx; simp [hrestmem x hx]
        have hf2 : rest.filter (fun ke => decide (ke.key ∈ k :: ks)) = rest.filter (fun ke => decide (ke.key ∈ ks)) := by
          apply List.filter_congr
          intro x hx
          have hne : x.key ≠ k := by rw [heq]; exact (klt_ne (hlt x hx)).symm
          simp [hne]
        simp only [heq, ne_eq, not_true_eq_false, if_false]
        rw [hf, List.foldl_cons]
        split
        · rw [ih hrest ks _ hks]; rfl
        · rw [ih hrest (ke.key :: ks) _ (by rw [← heq]; exact hk'), ← heq, hf2]; rfl
      · have hnin : ¬ ke.key ∈ keys := by
          intro h
          have h2 := (hmem ke List.mem_cons_self).mp h
          rcases List.mem_cons.mp h2 with h3 | h3
          · exact heq h3.symm
          · exact heq (kle_antisymm hkle (hkall ke.key h3)).symm
        simp only [ne_eq, heq, not_false_eq_true, if_true]
        rw [ih hrest (k :: ks) acc hk']
        simp only [List.filter_cons, hnin, decide_false, Bool.false_eq_true, if_false]
        congr 1
        apply List.filter_congr
        intro x hx
        have h1 := hmem x (List.mem_cons_of_mem _ hx)
        simp [h1]

end Influx.Tsm
