/-
  The two sorts involved in a round trip (`sort.Strings` on field names in MarshalBinary, the
  specification's `sortByKey`) agree, and sorted distinct keys are strictly increasing.
-/
import Influx.Lemmas.LineProtocolFields3

namespace Influx.LP
open Influx.Spec.C11

theorem mem_insertByKey (x w : Bytes × FV) (l : List (Bytes × FV)) :
    w ∈ insertByKey x l ↔ w = x ∨ w ∈ l := by
  induction l with
  | nil => simp [insertByKey]
  | cons y ys ih =>
    simp only [insertByKey]
    split
    · simp only [List.mem_cons, ih]
      constructor
      · rintro (h | h | h) <;> simp [h]
      · rintro (h | h | h) <;> simp [h]
    · simp

theorem mem_sortFields (w : Bytes × FV) (fs : List (Bytes × FV)) : w ∈ sortFields fs ↔ w ∈ fs := by
  induction fs with
  | nil => simp [sortFields]
  | cons f rest ih =>
    have : sortFields (f :: rest) = insertByKey f (sortFields rest) := rfl
    rw [this, mem_insertByKey, ih]; simp

theorem length_insertByKey (x : Bytes × FV) (l : List (Bytes × FV)) :
    (insertByKey x l).length = l.length + 1 := by
  induction l with
  | nil => rfl
  | cons y ys ih => simp only [insertByKey]; split <;> simp [ih]

theorem length_sortFields (fs : List (Bytes × FV)) : (sortFields fs).length = fs.length := by
  induction fs with
  | nil => rfl
  | cons f rest ih =>
    have : sortFields (f :: rest) = insertByKey f (sortFields rest) := rfl
    rw [this, length_insertByKey, ih]; rfl

theorem sortedKeys_insertByKey (x : Bytes × FV) (l : List (Bytes × FV)) (hs : SortedKeys l)
    (hne : ∀ y ∈ l, y.1 ≠ x.1) : SortedKeys (insertByKey x l) := by
  induction l with
  | nil => simp [insertByKey, SortedKeys]
  | cons y ys ih =>
    have hs' := List.pairwise_cons.mp hs
    simp only [insertByKey]
    split
    · next hgt =>
      have hgt' : cmpBytes x.1 y.1 = .gt := by simpa using hgt
      have hyx : cmpBytes y.1 x.1 = .lt := (cmpBytes_gt_iff_lt _ _).mp hgt'
      apply List.pairwise_cons.mpr
      refine ⟨?_, ih hs'.2 (fun z hz => hne z (by simp [hz]))⟩
      intro w hw
      rcases (mem_insertByKey x w ys).mp hw with h | h
      · subst h; exact hyx
      · exact hs'.1 w h
    · next hgt =>
      have hne' : x.1 ≠ y.1 := fun e => hne y (by simp) e.symm
      have hlt : cmpBytes x.1 y.1 = .lt := by
        have h1 : cmpBytes x.1 y.1 ≠ .gt := by simpa using hgt
        have h2 : cmpBytes x.1 y.1 ≠ .eq := fun e => hne' ((cmpBytes_eq_iff _ _).mp e)
        cases hc : cmpBytes x.1 y.1 <;> simp_all
      apply List.pairwise_cons.mpr
      refine ⟨?_, hs⟩
      intro w hw
      rcases List.mem_cons.mp hw with h | h
      · subst h; exact hlt
      · exact cmpBytes_lt_trans _ _ _ hlt (hs'.1 w h)

theorem sortedKeys_sortFields (fs : List (Bytes × FV)) (hd : distinct (fs.map (·.1)) = true) :
    SortedKeys (sortFields fs) := by
  induction fs with
  | nil => simp [sortFields, SortedKeys]
  | cons f rest ih =>
    simp only [List.map_cons, distinct, Bool.and_eq_true, Bool.not_eq_true'] at hd
    have : sortFields (f :: rest) = insertByKey f (sortFields rest) := rfl
    rw [this]
    apply sortedKeys_insertByKey _ _ (ih hd.2)
    intro y hy e
    have hy' := (mem_sortFields y rest).mp hy
    have : (rest.map (·.1)).contains f.1 = true := by
      simp only [List.contains_iff_mem, List.mem_map]
      exact ⟨y, hy', e⟩
    rw [this] at hd; cases hd.1

/-- the specification's sort on the expected fields is `sort.Strings` of MarshalBinary -/
theorem sortByKey_map (g : FV → γ) (fs : List (Bytes × FV)) :
    sortByKey (fun (x : Bytes × γ) => x.1) (fs.map fun f => (f.1, g f.2)) = (sortFields fs).map fun f => (f.1, g f.2) := by
  have hins : ∀ (x : Bytes × FV) (l : List (Bytes × FV)),
      insertSorted (fun (x : Bytes × γ) => x.1) (x.1, g x.2) (l.map fun f => (f.1, g f.2)) =
        (insertByKey x l).map fun f => (f.1, g f.2) := by
    intro x l
    induction l with
    | nil => rfl
    | cons y ys ih =>
      simp only [List.map_cons, insertSorted, insertByKey]
      by_cases hle : bytesLe x.1 y.1 = true
      · have : ¬ (cmpBytes x.1 y.1 == .gt) = true := by
          have := (bytesLe_iff x.1 y.1).mp hle; simpa using this
        simp [hle, this]
      · have : (cmpBytes x.1 y.1 == .gt) = true := by
          have h := mt (bytesLe_iff x.1 y.1).mpr hle
          simp only [ne_eq, Decidable.not_not] at h
          simp [h]
        simp [hle, this, ih]
  induction fs with
  | nil => rfl
  | cons f rest ih =>
    have h1 : sortFields (f :: rest) = insertByKey f (sortFields rest) := rfl
    have h2 : sortByKey (fun (x : Bytes × γ) => x.1) ((f :: rest).map fun f => (f.1, g f.2)) =
        insertSorted (fun (x : Bytes × γ) => x.1) (f.1, g f.2)
          (sortByKey (fun (x : Bytes × γ) => x.1) (rest.map fun f => (f.1, g f.2))) := rfl
    rw [h1, h2, ih, hins]

/-- tags given in strictly increasing key order are their own sorted form -/
theorem sortByKey_sorted (key : α → Bytes) (l : List α) (h : strictlySorted key l = true) :
    sortByKey key l = l := by
  induction l with
  | nil => rfl
  | cons a rest ih =>
    cases rest with
    | nil => rfl
    | cons b r =>
      simp only [strictlySorted, Bool.and_eq_true] at h
      have : sortByKey key (a :: b :: r) = insertSorted key a (sortByKey key (b :: r)) := rfl
      rw [this, ih h.2]
      simp [insertSorted, h.1.1]

end Influx.LP
