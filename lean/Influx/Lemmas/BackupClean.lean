/-
  Lemmas.BackupClean — histories without range deletes and without exports: no
  tombstone file ever exists, the series index lists every key, and the
  statement checker reports nothing at all.
-/
import Influx.Lemmas.BackupTrace4

namespace Influx.Backup
open Influx.Spec.C38

/-- the operations of a "clean" history -/
def Op.clean : Op → Bool
  | .delete .. => false
  | .export .. => false
  | _ => true

/-- no tombstone file, and the index lists every key of the cache and of the files -/
structure Shard.Clean (s : Shard) : Prop where
  noTomb : ∀ f ∈ s.files, f.tombM = none
  fileKeys : ∀ f ∈ s.files, ∀ b ∈ f.blocks, b.key ∈ s.series
  cacheKeys : ∀ e ∈ s.cache, e.1 ∈ s.series

theorem Shard.Clean_empty : Shard.empty.Clean :=
  ⟨by simp [Shard.empty], by simp [Shard.empty], by simp [Shard.empty]⟩

theorem Shard.Clean.seriesOK {s : Shard} (h : s.Clean) : s.seriesOK = true := by
  unfold Shard.seriesOK
  rw [Bool.or_eq_true]
  right
  rw [List.all_eq_true]
  intro f hf
  rw [List.all_eq_true]
  intro b hb
  simpa using h.fileKeys f hf b hb

theorem Shard.Clean.noTombstone {s : Shard} (h : s.Clean) : hasTombstone (listing s.files) = false := by
  cases hh : hasTombstone (listing s.files) with
  | false => rfl
  | true =>
    obtain ⟨f, hf, ht⟩ := (hasTombstone_listing _).mp hh
    rw [h.noTomb f hf] at ht; simp at ht

theorem writePts_mem (k : Key) (step : Int) : ∀ (n : Nat) (t0 v0 : Int) (c : Cache) (e : Key × TS × Val),
    e ∈ writePts k t0 step v0 n c → e.1 = k ∨ e ∈ c := by
  intro n
  induction n with
  | zero => intro t0 v0 c e h; right; simpa [writePts] using h
  | succ n ih =>
    intro t0 v0 c e h
    simp only [writePts] at h
    rcases ih _ _ _ e h with h1 | h1
    · left; exact h1
    · rcases List.mem_cons.mp h1 with rfl | h2
      · left; rfl
      · right; exact h2

theorem Shard.Clean_write (s : Shard) (h : s.Clean) (k : Key) (t0 step : Int) (n : Nat) (v0 : Int) :
    (s.write k t0 step n v0).Clean := by
  have hsub : ∀ x ∈ s.series, x ∈ (if s.series.contains k then s.series else insertKey k s.series) := by
    intro x hx; split
    · exact hx
    · exact mem_insertKey.mpr (Or.inr hx)
  have hk : k ∈ (if s.series.contains k then s.series else insertKey k s.series) := by
    split
    · next hc => simpa using hc
    · exact mem_insertKey.mpr (Or.inl rfl)
  refine ⟨h.noTomb, fun f hf b hb => hsub _ (h.fileKeys f hf b hb), ?_⟩
  intro e he
  rcases writePts_mem k step n t0 v0 s.cache e he with h1 | h1
  · rw [h1]; exact hk
  · exact hsub _ (h.cacheKeys e h1)

theorem mkBlocks_key {k : Key} {pts : List (TS × Val)} {b : Block} (h : b ∈ mkBlocks k pts) : b.key = k := by
  unfold mkBlocks at h
  obtain ⟨c, _, rfl⟩ := List.mem_map.mp h
  rfl

theorem flushBlocks_key {c : Cache} {b : Block} (h : b ∈ flushBlocks c) : ∃ e ∈ c, e.1 = b.key := by
  unfold flushBlocks at h
  obtain ⟨k, hk, hb⟩ := List.mem_flatMap.mp h
  rw [mkBlocks_key hb]
  unfold cacheKeys at hk
  rw [mem_sortKeys] at hk
  obtain ⟨e, he, rfl⟩ := List.mem_map.mp hk
  exact ⟨e, he, rfl⟩

theorem Shard.Clean_noteRead (s : Shard) (h : s.Clean) : s.noteRead.Clean := by
  unfold Shard.noteRead
  split
  · exact ⟨h.noTomb, h.fileKeys, h.cacheKeys⟩
  · exact h

theorem Shard.Clean_flush (s : Shard) (h : s.Clean) : s.flush.Clean := by
  unfold Shard.flush
  split
  · split
    · exact ⟨h.noTomb, h.fileKeys, h.cacheKeys⟩
    · exact h
  · refine ⟨?_, ?_, by simp⟩
    · intro f hf
      rcases List.mem_append.mp hf with hf | hf
      · exact h.noTomb f hf
      · split at hf
        · simp at hf
        · simp at hf; subst hf; rfl
    · intro f hf b hb
      rcases List.mem_append.mp hf with hf | hf
      · exact h.fileKeys f hf b hb
      · split at hf
        · simp at hf
        · simp at hf; subst hf
          obtain ⟨e, he, hk⟩ := flushBlocks_key hb
          rw [← hk]; exact h.cacheKeys e he

theorem compactBlocks_key {fs : List TFile} {b : Block} (h : b ∈ compactBlocks fs) :
    ∃ f ∈ fs, ∃ b' ∈ f.blocks, b'.key = b.key := by
  unfold compactBlocks at h
  obtain ⟨k, hk, hb⟩ := List.mem_flatMap.mp h
  rw [mkBlocks_key hb]
  unfold filesKeys at hk
  rw [mem_sortKeys] at hk
  obtain ⟨f, hf, hkf⟩ := List.mem_flatMap.mp hk
  obtain ⟨b', hb', rfl⟩ := List.mem_map.mp hkf
  exact ⟨f, hf, b', hb', rfl⟩

theorem Shard.Clean_compact (s : Shard) (h : s.Clean) : s.compact.Clean := by
  unfold Shard.compact
  split
  · exact h
  · simp only []
    split
    · exact ⟨by simp, by simp, h.cacheKeys⟩
    · refine ⟨?_, ?_, h.cacheKeys⟩
      · intro f hf; simp at hf; subst hf; rfl
      · intro f hf b hb
        simp at hf; subst hf
        obtain ⟨g, hg, b', hb', hk⟩ := compactBlocks_key hb
        rw [← hk]; exact h.fileKeys g hg b' hb'

theorem Shard.Clean_age (s : Shard) (h : s.Clean) (sec : Int) : (s.age sec).Clean := by
  unfold Shard.age
  refine ⟨?_, ?_, h.cacheKeys⟩
  · intro f hf
    obtain ⟨g, hg, rfl⟩ := List.mem_map.mp hf
    simp [h.noTomb g hg]
  · intro f hf b hb
    obtain ⟨g, hg, rfl⟩ := List.mem_map.mp hf
    exact h.fileKeys g hg b hb

theorem step_Clean (st : State) (op : Op) (hop : op.clean = true) (h : st.src.Clean) :
    (step st op).1.src.Clean := by
  cases op with
  | write k t0 sp n v0 =>
    simp only [step]; split
    · exact h
    · exact Shard.Clean_write _ h _ _ _ _ _
  | delete => simp [Op.clean] at hop
  | «export» => simp [Op.clean] at hop
  | snap => exact Shard.Clean_flush _ h
  | compact => exact Shard.Clean_compact _ h
  | age sec =>
    simp only [step]; split
    · exact h
    · exact Shard.Clean_age _ h _
  | backup id since => exact Shard.Clean_flush _ h
  | restore ids =>
    simp only [step]; split
    · exact h
    · split <;> exact h
  | importA ids =>
    simp only [step]; split <;> exact h
  | dump => exact Shard.Clean_noteRead _ h
  | bigcase n imp => simp only [step]; split <;> exact h

theorem seriesAlong_clean (ops : List Op) (st : State) (hops : ∀ op ∈ ops, op.clean = true)
    (h : st.src.Clean) : SeriesAlong st ops := by
  induction ops generalizing st with
  | nil => trivial
  | cons op rest ih =>
    have hc := step_Clean st op (hops op (by simp)) h
    exact ⟨hc.seriesOK, ih _ (fun o ho => hops o (by simp [ho])) hc⟩

/-- every record of the checker comes from a clean shard: no tombstone file, a backup -/
def RecsClean (recs : List Rec) : Prop :=
  ∀ r ∈ recs, hasTombstone r.files = false ∧ ∃ since, r.made = .backup since

theorem findRec_mem {recs : List Rec} {id : String} {r : Rec} (h : findRec recs id = some r) : r ∈ recs :=
  List.mem_of_find?_eq_some h

theorem step_restore_fst (st : State) (ids : List String) : (step st (.restore ids)).1 = st := by
  simp only [step]
  split
  · rfl
  · split <;> rfl

theorem step_import_fst (st : State) (ids : List String) : (step st (.importA ids)).1 = st := by
  simp only [step]
  split <;> rfl

theorem step_restore_obs (st : State) (ids : List String) :
    (step st (.restore ids)).2 = .noArchive ∨ (step st (.restore ids)).2 = .badOp ∨
    ∃ f d, (step st (.restore ids)).2 = .target f d := by
  simp only [step]
  split
  · left; rfl
  · split
    · right; left; rfl
    · right; right; exact ⟨_, _, rfl⟩

theorem step_import_obs (st : State) (ids : List String) :
    (step st (.importA ids)).2 = .noArchive ∨ ∃ f d, (step st (.importA ids)).2 = .target f d := by
  simp only [step]
  split
  · left; rfl
  · right; exact ⟨_, _, rfl⟩

theorem judge_restore_other (recs : List Rec) (ids : List String) (o : Obs) (hlen : ids.length ≠ 1)
    (ho : o = .noArchive ∨ o = .badOp ∨ ∃ f d, o = .target f d) :
    judge recs (.restore ids) o = ([], recs) := by
  rcases ids with _ | ⟨id, _ | ⟨id2, rest⟩⟩
  · rcases ho with rfl | rfl | ⟨f, d, rfl⟩ <;> rfl
  · simp at hlen
  · rcases ho with rfl | rfl | ⟨f, d, rfl⟩ <;> rfl

theorem judge_import_other (recs : List Rec) (ids : List String) (o : Obs) (hlen : ids.length ≠ 1)
    (ho : o = .noArchive ∨ ∃ f d, o = .target f d) :
    judge recs (.importA ids) o = ([], recs) := by
  rcases ids with _ | ⟨id, _ | ⟨id2, rest⟩⟩
  · rcases ho with rfl | ⟨f, d, rfl⟩ <;> rfl
  · simp at hlen
  · rcases ho with rfl | ⟨f, d, rfl⟩ <;> rfl

/-- the failure list of a full-backup content check is empty when it can only blame a
    tombstone file and there is none -/
theorem content_nil {r : Rec} {d : Dump} (hnt : hasTombstone r.files = false)
    (hk : ∀ sig ∈ (if sameContent r.d d then [] else
      [if hasTombstone r.files then Sig.restoreLostTombstone else Sig.restoreDiffers]), sig.known = true) :
    (if sameContent r.d d then [] else
      [if hasTombstone r.files then Sig.restoreLostTombstone else Sig.restoreDiffers]) = [] := by
  split
  · rfl
  · next hd =>
    exfalso
    have := hk (if hasTombstone r.files then Sig.restoreLostTombstone else Sig.restoreDiffers) (by simp [hd])
    simp [hnt, Sig.known] at this

/-- one clean step: the checker reports nothing, and its records stay clean -/
theorem judge_step_clean (st : State) (recs : List Rec) (hinv : st.src.Inv) (hl : Linked st.archives recs)
    (hc : st.src.Clean) (hrc : RecsClean recs) (op : Op) (hop : op.clean = true) :
    (judge recs op (step st op).2).1 = [] ∧ RecsClean (judge recs op (step st op).2).2 := by
  have hknown := (judge_step st recs hinv hl op (step_Clean st op hop hc).seriesOK).1
  cases op with
  | delete => simp [Op.clean] at hop
  | «export» => simp [Op.clean] at hop
  | write k t0 sp n v0 =>
    simp only [step]; split <;> exact ⟨rfl, hrc⟩
  | snap => exact ⟨rfl, hrc⟩
  | compact => exact ⟨rfl, hrc⟩
  | age sec => simp only [step]; split <;> exact ⟨rfl, hrc⟩
  | dump => exact ⟨rfl, hrc⟩
  | bigcase n imp =>
    simp only [step]; split
    · exact ⟨rfl, hrc⟩
    · exact ⟨by simp [judge], hrc⟩
  | backup id since =>
    simp only [step, Shard.backup, State.put, judge]
    refine ⟨by rw [incrementalOK_backup]; rfl, ?_⟩
    intro r hr
    rcases List.mem_cons.mp hr with rfl | hr
    · exact ⟨(Shard.Clean_flush _ hc).noTombstone, since, rfl⟩
    · exact hrc r hr
  | restore ids =>
    by_cases hlen : ids.length = 1
    · obtain ⟨id, rfl⟩ : ∃ id, ids = [id] := by
        rcases ids with _ | ⟨id, _ | ⟨_, _⟩⟩ <;> simp at hlen
        exact ⟨id, rfl⟩
      rcases step_restore_obs st [id] with ho | ho | ⟨f, d, ho⟩
      · rw [ho]; exact ⟨rfl, hrc⟩
      · rw [ho]; exact ⟨rfl, hrc⟩
      · rw [ho] at hknown ⊢
        refine ⟨?_, by rw [judge_target_snd]; exact hrc⟩
        cases h2 : findRec recs id with
        | none =>
          exfalso
          have : (judge recs (.restore [id]) (.target f d)).1 = [.badObservation] := by simp [judge, h2]
          rw [this] at hknown
          have := hknown Sig.badObservation (by simp)
          simp [Sig.known] at this
        | some r =>
          obtain ⟨hnt, since, hmade⟩ := hrc r (findRec_mem h2)
          rw [judge_restore_single h2] at hknown ⊢
          rw [hmade] at hknown ⊢
          cases since with
          | some t => rfl
          | none => exact content_nil hnt hknown
    · have := judge_restore_other recs ids _ hlen (step_restore_obs st ids)
      rw [this]; exact ⟨rfl, hrc⟩
  | importA ids =>
    by_cases hlen : ids.length = 1
    · obtain ⟨id, rfl⟩ : ∃ id, ids = [id] := by
        rcases ids with _ | ⟨id, _ | ⟨_, _⟩⟩ <;> simp at hlen
        exact ⟨id, rfl⟩
      rcases step_import_obs st [id] with ho | ⟨f, d, ho⟩
      · rw [ho]; exact ⟨rfl, hrc⟩
      · rw [ho] at hknown ⊢
        refine ⟨?_, by rw [judge_target_snd]; exact hrc⟩
        cases h2 : findRec recs id with
        | none =>
          exfalso
          have : (judge recs (.importA [id]) (.target f d)).1 = [.badObservation] := by simp [judge, h2]
          rw [this] at hknown
          have := hknown Sig.badObservation (by simp)
          simp [Sig.known] at this
        | some r =>
          obtain ⟨hnt, since, hmade⟩ := hrc r (findRec_mem h2)
          rw [judge_import_single h2] at hknown ⊢
          rw [hmade] at hknown ⊢
          cases since with
          | some t => rfl
          | none => exact content_nil hnt hknown
    · have := judge_import_other recs ids _ hlen (step_import_obs st ids)
      rw [this]; exact ⟨rfl, hrc⟩

/-- **a clean history has no failure at all** -/
theorem failures_clean (ops : List Op) (st : State) (recs : List Rec) (hinv : st.src.Inv)
    (hl : Linked st.archives recs) (hc : st.src.Clean) (hrc : RecsClean recs)
    (hops : ∀ op ∈ ops, op.clean = true) : failuresFrom recs (run st ops) = [] := by
  induction ops generalizing st recs with
  | nil => rfl
  | cons op rest ih =>
    have hop := hops op (by simp)
    simp only [run, failuresFrom]
    obtain ⟨h1, h2⟩ := judge_step_clean st recs hinv hl hc hrc op hop
    have hl' := (judge_step st recs hinv hl op (step_Clean st op hop hc).seriesOK).2
    rw [h1, List.nil_append]
    exact ih _ _ (step_Inv st op hinv) hl' (step_Clean st op hop hc) h2 (fun o ho => hops o (by simp [ho]))

end Influx.Backup
