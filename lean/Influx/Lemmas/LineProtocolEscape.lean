/-
  Lemmas about the escaping functions of Influx.Model.LineProtocol:
  the `bytes.Replace` chains are one-pass escapers, and un-escaping inverts them on
  every byte string.
-/
import Influx.Model.LineProtocol

namespace Influx.LP

/-- one-pass escaping of the bytes in `S` with a backslash -/
def escBy (S : Nat → Bool) : Bytes → Bytes
  | [] => []
  | b :: rest => if S b then cBS :: b :: escBy S rest else b :: escBy S rest

def isTagSpecial (c : Nat) : Bool := c == cComma || c == cSpace || c == cEq
def isMeasSpecial (c : Nat) : Bool := c == cComma || c == cSpace

@[simp] theorem escBy_nil (S) : escBy S [] = [] := rfl
theorem escBy_cons (S b rest) :
    escBy S (b :: rest) = if S b then cBS :: b :: escBy S rest else b :: escBy S rest := rfl

theorem escBy_append (S) (a b : Bytes) : escBy S (a ++ b) = escBy S a ++ escBy S b := by
  induction a with
  | nil => rfl
  | cons x xs ih => simp only [List.cons_append, escBy_cons, ih]; split <;> rfl

theorem escBy_eq_nil (S) (s : Bytes) : escBy S s = [] ↔ s = [] := by
  cases s with
  | nil => simp
  | cons b r => simp [escBy_cons]; split <;> simp

theorem replace12_not_mem (k e1 e2 : Nat) (s : Bytes) (h : k ∉ s) : replace12 k e1 e2 s = s := by
  induction s with
  | nil => rfl
  | cons b r ih =>
    simp only [List.mem_cons, not_or] at h
    simp [replace12, Ne.symm h.1, ih h.2]

theorem replace12_guard (k e1 e2 : Nat) (s : Bytes) :
    (if s.contains k = true then replace12 k e1 e2 s else s) = replace12 k e1 e2 s := by
  split
  · rfl
  · next h => rw [replace12_not_mem]; simpa using h

/-- a further `bytes.Replace(k → \k)` pass extends the escaped set -/
theorem replace12_escBy (S : Nat → Bool) (k : Nat) (hk : k ≠ cBS) (hS : S k = false) (s : Bytes) :
    replace12 k cBS k (escBy S s) = escBy (fun b => S b || b == k) s := by
  induction s with
  | nil => rfl
  | cons b r ih =>
    simp only [escBy_cons]
    by_cases hb : S b = true
    · have hbk : b ≠ k := by intro h; rw [h, hS] at hb; cases hb
      have : cBS ≠ k := Ne.symm hk
      simp [hb, replace12, this, hbk, ih]
    · by_cases hbk : b = k
      · subst hbk; simp [hb, replace12, ih]
      · simp [hb, replace12, hbk, ih]

theorem escBy_congr (S T : Nat → Bool) (h : ∀ b, S b = T b) (s : Bytes) : escBy S s = escBy T s := by
  have : S = T := funext h
  rw [this]

theorem escBy_false (s : Bytes) : escBy (fun _ => false) s = s := by
  induction s with
  | nil => rfl
  | cons b r ih => simp [escBy_cons, ih]

theorem escapeTag_eq (s : Bytes) : escapeTag s = escBy isTagSpecial s := by
  unfold escapeTag escapeWith tagEscapeCodes
  simp only [List.foldl_cons, List.foldl_nil, replace12_guard]
  have h0 : s = escBy (fun _ => false) s := (escBy_false s).symm
  conv => lhs; rw [h0]
  rw [replace12_escBy _ _ (by decide) (by rfl), replace12_escBy _ _ (by decide) (by decide),
    replace12_escBy _ _ (by decide) (by decide)]
  apply escBy_congr
  intro b; simp [isTagSpecial]

theorem escapeMeasurement_eq (s : Bytes) : escapeMeasurement s = escBy isMeasSpecial s := by
  unfold escapeMeasurement escapeWith measurementEscapeCodes
  simp only [List.foldl_cons, List.foldl_nil, replace12_guard]
  have h0 : s = escBy (fun _ => false) s := (escBy_false s).symm
  conv => lhs; rw [h0]
  rw [replace12_escBy _ _ (by decide) (by rfl), replace12_escBy _ _ (by decide) (by decide)]
  apply escBy_congr
  intro b; simp [isMeasSpecial]

/-! ### un-escaping -/

theorem replace21_cons_ne (e1 e2 k a : Nat) (l : Bytes) (h : a ≠ e1) :
    replace21 e1 e2 k (a :: l) = a :: replace21 e1 e2 k l := by
  cases l with
  | nil => rfl
  | cons b r => simp [replace21, h]

theorem replace21_cons_head (e1 e2 k a : Nat) (l : Bytes) (h : l.head? ≠ some e2) :
    replace21 e1 e2 k (a :: l) = a :: replace21 e1 e2 k l := by
  cases l with
  | nil => rfl
  | cons b r =>
    have : b ≠ e2 := by simpa using h
    simp [replace21, this]

theorem replace21_not_mem (e1 e2 k : Nat) (s : Bytes) (h : e2 ∉ s) : replace21 e1 e2 k s = s := by
  induction s with
  | nil => rfl
  | cons a r ih =>
    simp only [List.mem_cons, not_or] at h
    rw [replace21_cons_head, ih h.2]
    cases r with
    | nil => simp
    | cons b r' => simp only [List.mem_cons, not_or] at h; simpa using Ne.symm h.2.1

theorem replace21_guard (e1 e2 k : Nat) (s : Bytes) :
    (if s.contains e2 = true then replace21 e1 e2 k s else s) = replace21 e1 e2 k s := by
  split
  · rfl
  · next h => rw [replace21_not_mem]; simpa using h

theorem escBy_head_ne (S : Nat → Bool) (k : Nat) (hk : k ≠ cBS) (hS : S k = true) (r : Bytes) :
    (escBy S r).head? ≠ some k := by
  cases r with
  | nil => simp
  | cons b r' =>
    simp only [escBy_cons]
    by_cases hb : S b = true
    · simp [hb]; exact Ne.symm hk
    · simp [hb]; intro h; rw [h] at hb; exact hb hS

/-- a `bytes.Replace(\k → k)` pass removes `k` from the escaped set -/
theorem replace21_escBy (S : Nat → Bool) (k : Nat) (hk : k ≠ cBS) (hS : S k = true)
    (hbs : S cBS = false) (s : Bytes) :
    replace21 cBS k k (escBy S s) = escBy (fun b => S b && b != k) s := by
  induction s with
  | nil => rfl
  | cons b r ih =>
    simp only [escBy_cons]
    by_cases hb : S b = true
    · by_cases hbk : b = k
      · subst hbk; simp [hb, replace21, ih]
      · have hb92 : b ≠ cBS := by intro h; rw [h, hbs] at hb; cases hb
        simp only [hb, if_true, Bool.true_and, bne_iff_ne, ne_eq, hbk, not_false_eq_true]
        rw [replace21_cons_head _ _ _ _ _ (by simpa using hbk), replace21_cons_ne _ _ _ _ _ hb92, ih]
    · simp only [hb, Bool.false_and, Bool.false_eq_true, if_false]
      rw [replace21_cons_head _ _ _ _ _ (escBy_head_ne S k hk hS r), ih]

theorem escBy_no_bs (S : Nat → Bool) (s : Bytes) (h : cBS ∉ escBy S s) : escBy S s = s := by
  induction s with
  | nil => rfl
  | cons b r ih =>
    simp only [escBy_cons] at h ⊢
    by_cases hb : S b = true
    · simp [hb] at h
    · simp only [hb, Bool.false_eq_true, if_false, List.mem_cons, not_or] at h ⊢
      rw [ih h.2]

theorem unescapeTag_escBy (s : Bytes) : unescapeTag (escBy isTagSpecial s) = s := by
  unfold unescapeTag unescapeWith
  split
  · next h => exact escBy_no_bs _ _ (by simpa using h)
  · unfold tagEscapeCodes
    simp only [List.foldl_cons, List.foldl_nil, replace21_guard]
    rw [replace21_escBy _ _ (by decide) (by decide) (by decide),
      replace21_escBy _ _ (by decide) (by decide) (by decide),
      replace21_escBy _ _ (by decide) (by decide) (by decide)]
    rw [escBy_congr _ (fun _ => false), escBy_false]
    intro b; simp [isTagSpecial]; omega

theorem unescapeMeasurement_escBy (s : Bytes) : unescapeMeasurement (escBy isMeasSpecial s) = s := by
  unfold unescapeMeasurement unescapeWith
  split
  · next h => exact escBy_no_bs _ _ (by simpa using h)
  · unfold measurementEscapeCodes
    simp only [List.foldl_cons, List.foldl_nil, replace21_guard]
    rw [replace21_escBy _ _ (by decide) (by decide) (by decide),
      replace21_escBy _ _ (by decide) (by decide) (by decide)]
    rw [escBy_congr _ (fun _ => false), escBy_false]
    intro b; simp [isMeasSpecial]; omega

/-- `unescapeTag ∘ escapeTag = id` on every byte string -/
theorem unescapeTag_escapeTag (s : Bytes) : unescapeTag (escapeTag s) = s := by
  rw [escapeTag_eq, unescapeTag_escBy]

theorem unescapeMeasurement_escapeMeasurement (s : Bytes) :
    unescapeMeasurement (escapeMeasurement s) = s := by
  rw [escapeMeasurement_eq, unescapeMeasurement_escBy]

end Influx.LP
