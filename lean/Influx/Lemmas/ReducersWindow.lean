/-
  Lemmas.ReducersWindow — stddev, spread, moving_average of Model.Reducers against
  Spec.C23.
-/
import Influx.Model.Reducers
import Influx.Spec.C23
open Influx.Reducers Influx.Spec.C23

namespace Influx.Reducers.Lemmas
variable {V F : Type}

/-! ### stddev: the two folds are the recursive definitions -/

theorem stddev_mean_fold (fo : FOps F) (vals : List F) : ∀ (m : F) (k : Nat),
    vals.foldl (fun (mc : F × Nat) x =>
      let c := mc.2 + 1
      (fo.add mc.1 (fo.div (fo.sub x mc.1) (fo.ofInt c)), c)) (m, k) =
      (incMean fo vals k m, k + vals.length) := by
  induction vals with
  | nil => intro m k; simp [incMean]
  | cons x xs ih =>
    intro m k
    simp only [List.foldl_cons, incMean, List.length_cons]
    rw [ih]
    have : ((k + 1 : Nat) : Int) = (k : Int) + 1 := by omega
    simp only [this]
    congr 1
    omega

theorem stddev_var_fold (fo : FOps F) (mean : F) (vals : List F) : ∀ (acc : F),
    vals.foldl (fun acc x => let d := fo.sub x mean; fo.add acc (fo.mul d d)) acc = sumSq fo mean vals acc := by
  induction vals with
  | nil => intro acc; simp [sumSq]
  | cons x xs ih => intro acc; simp only [List.foldl_cons, sumSq]; rw [ih]

theorem stddev_eq_def (A : Arith V F) (xs : List (Pt V)) :
    stddev A.vo A.fo xs = stddevDef A xs := by
  unfold stddev stddevDef
  split
  · rfl
  · simp only [stddev_mean_fold, stddev_var_fold, Nat.zero_add]

/-! ### moving_average -/

theorem foldl_take_succ {α β : Type} (f : β → α → β) (z : β) (l : List α) (i : Nat) (x : α)
    (h : l[i]? = some x) : (l.take (i + 1)).foldl f z = f ((l.take i).foldl f z) x := by
  induction l generalizing i z with
  | nil => simp at h
  | cons a l ih =>
    cases i with
    | zero => simp at h; subst h; simp
    | succ i => simp at h; simp [ih _ _ h]

/-- state of the reducer after `k` points of the value list `vs` -/
structure MaInv (A : Arith V F) (n : Nat) (vs : List V) (k : Nat) (s : MaSt V) : Prop where
  len : s.buf.length = min k n
  pos : s.pos = k % n
  ring : ∀ i, i < k → k ≤ i + n → s.buf[i % n]? = vs[i]?
  sum_lo : k ≤ n → s.sum = (vs.take k).foldl A.vo.add A.vo.zero
  sum_hi : n ≤ k → slideSum A n vs (k - n) = some s.sum

theorem maInv_init (A : Arith V F) (n : Nat) (vs : List V) :
    MaInv A n vs 0 ({ sum := A.vo.zero } : MaSt V) where
  len := by simp
  pos := by simp
  ring := by intro i hi; omega
  sum_lo := by intro _; simp
  sum_hi := by
    intro h
    have : n = 0 := by omega
    subst this
    simp [slideSum]

theorem mod_ne_of_lt {i k n : Nat} (h1 : i < k) (h2 : k < i + n) : i % n ≠ k % n := by
  intro h
  have hdvd : n ∣ k - i := Nat.dvd_of_mod_eq_zero (Nat.sub_mod_eq_zero_of_mod_eq h.symm)
  have hpos : 0 < k - i := by omega
  have := Nat.le_of_dvd hpos hdvd
  omega

theorem succ_mod' (k n : Nat) : (k + 1) % n = (k % n + 1) % n := by
  rw [Nat.add_mod k 1 n, Nat.add_mod (k % n) 1 n, Nat.mod_mod]

theorem maAgg_step (A : Arith V F) (n : Nat) (hn : 0 < n) (vs : List V) (k : Nat) (s : MaSt V)
    (inv : MaInv A n vs k s) (p : Pt V) (hp : vs[k]? = some p.v) :
    ∃ s', maAgg A.vo n s p = some s' ∧ MaInv A n vs (k + 1) s' ∧ s'.time = p.t := by
  by_cases hk : k < n
  · -- the buffer is still filling
    have hlen : s.buf.length = k := by rw [inv.len]; omega
    have hne : s.buf.length ≠ n := by omega
    refine ⟨_, by simp only [maAgg, hne, ne_eq, not_false_eq_true, if_true]; rfl, ?_, rfl⟩
    have hpos : s.pos = k := by rw [inv.pos]; exact Nat.mod_eq_of_lt hk
    constructor
    · simp [hlen]; omega
    · show (if s.pos + 1 ≥ n then 0 else s.pos + 1) = (k + 1) % n
      rw [hpos]
      by_cases h1 : k + 1 ≥ n
      · have : k + 1 = n := by omega
        simp [h1, this]
      · simp only [h1, if_false]
        exact (Nat.mod_eq_of_lt (by omega)).symm
    · intro i hi hle
      have hin : i % n = i := Nat.mod_eq_of_lt (by omega)
      show (s.buf ++ [p.v])[i % n]? = vs[i]?
      rw [hin]
      by_cases hik : i = k
      · subst hik
        rw [List.getElem?_append_right (by omega)]
        simp [hlen, hp]
      · have hi' : i < k := by omega
        rw [List.getElem?_append_left (by omega)]
        have := inv.ring i hi' (by omega)
        rwa [hin] at this
    · intro _
      show A.vo.add s.sum p.v = _
      rw [foldl_take_succ _ _ _ _ _ hp, inv.sum_lo (by omega)]
    · intro hle
      have hkn : k + 1 = n := by omega
      show slideSum A n vs (k + 1 - n) = some (A.vo.add s.sum p.v)
      have : k + 1 - n = 0 := by omega
      rw [this]
      simp only [slideSum]
      rw [← hkn, foldl_take_succ _ _ _ _ _ hp, inv.sum_lo (by omega)]
  · -- the buffer is full: the oldest value (at `pos`) leaves
    have hkn : n ≤ k := by omega
    have hlen : s.buf.length = n := by rw [inv.len]; omega
    have hposlt : s.pos < n := by rw [inv.pos]; exact Nat.mod_lt _ hn
    have hold : s.buf[s.pos]? = vs[k - n]? := by
      have := inv.ring (k - n) (by omega) (by omega)
      have hm : (k - n) % n = k % n := by
        have : k = (k - n) + n := by omega
        conv => rhs; rw [this, Nat.add_mod_right]
      rw [hm, ← inv.pos] at this
      exact this
    have hsome : ∃ old, s.buf[s.pos]? = some old := by
      have : s.pos < s.buf.length := by omega
      exact ⟨s.buf[s.pos], by simp [this]⟩
    obtain ⟨old, hold'⟩ := hsome
    refine ⟨_, by simp only [maAgg, hlen, ne_eq, not_true_eq_false, if_false, hold']; rfl, ?_, rfl⟩
    constructor
    · simp [hlen]; omega
    · show (if s.pos + 1 ≥ n then 0 else s.pos + 1) = (k + 1) % n
      rw [inv.pos]
      by_cases h1 : k % n + 1 ≥ n
      · have h2 : k % n + 1 = n := by have := Nat.mod_lt k hn; omega
        simp only [h1, if_true]
        rw [succ_mod', h2, Nat.mod_self]
      · simp only [h1, if_false]
        rw [succ_mod']
        exact (Nat.mod_eq_of_lt (by omega)).symm
    · intro i hi hle
      show (s.buf.set s.pos p.v)[i % n]? = vs[i]?
      by_cases hik : i = k
      · subst hik
        rw [← inv.pos, List.getElem?_set_self (by omega), hp]
      · have hi' : i < k := by omega
        have hne : s.pos ≠ i % n := by
          rw [inv.pos]
          exact (mod_ne_of_lt hi' (by omega)).symm
        rw [List.getElem?_set_ne hne]
        exact inv.ring i hi' (by omega)
    · intro hle
      omega
    · intro _
      show slideSum A n vs (k + 1 - n) = some (A.vo.add (A.vo.sub s.sum old) p.v)
      have h1 : k + 1 - n = (k - n) + 1 := by omega
      rw [h1]
      simp only [slideSum]
      rw [inv.sum_hi hkn, ← hold, hold']
      have h2 : k - n + n = k := by omega
      rw [h2, hp]

end Influx.Reducers.Lemmas
