/-
  Lemmas.ReducersWindow — stddev, spread, moving_average of Model.Reducers against
  Spec.C23.
-/
import Influx.Model.Reducers
import Influx.Spec.C23
open Influx.Reducers Influx.Spec.C23

namespace Influx.Reducers.Lemmas
variable {V F : Type}

/-! ### stddev: the two folds are the recursive definitions -/

theorem stddev_mean_fold (fo : FOps F) (vals : List F) : ∀ (m : F) (k : Nat),
    vals.foldl (fun (mc : F × Nat) x =>
      let c := mc.2 + 1
      (fo.add mc.1 (fo.div (fo.sub x mc.1) (fo.ofInt c)), c)) (m, k) =
      (incMean fo vals k m, k + vals.length) := by
  induction vals with
  | nil => intro m k; simp [incMean]
  | cons x xs ih =>
    intro m k
    simp only [List.foldl_cons, incMean, List.length_cons]
    rw [ih]
    have : ((k + 1 : Nat) : Int) = (k : Int) + 1 := by omega
    simp only [this]
    congr 1
    omega

theorem stddev_var_fold (fo : FOps F) (mean : F) (vals : List F) : ∀ (acc : F),
    vals.foldl (fun acc x => let d := fo.sub x mean; fo.add acc (fo.mul d d)) acc = sumSq fo mean vals acc := by
  induction vals with
  | nil => intro acc; simp [sumSq]
  | cons x xs ih => intro acc; simp only [List.foldl_cons, sumSq]; rw [ih]

theorem stddev_eq_def (A : Arith V F) (xs : List (Pt V)) :
    stddev A.vo A.fo xs = stddevDef A xs := by
  unfold stddev stddevDef
  split
  · rfl
  · simp only [stddev_mean_fold, stddev_var_fold, Nat.zero_add]

/-! ### moving_average -/

theorem foldl_take_succ {α β : Type} (f : β → α → β) (z : β) (l : List α) (i : Nat) (x : α)
    (h : l[i]? = some x) : (l.take (i + 1)).foldl f z = f ((l.take i).foldl f z) x := by
  induction l generalizing i z with
  | nil => simp at h
  | cons a l ih =>
    cases i with
    | zero => simp at h; subst h; simp
    | succ i => simp at h; simp [ih _ _ h]

/-- state of the reducer after `k` points of the value list `vs` -/
structure MaInv (A : Arith V F) (n : Nat) (vs : List V) (k : Nat) (s : MaSt V) : Prop where
  len : s.buf.length = min k n
  pos : s.pos = k % n
  ring : ∀ i, i < k → k ≤ i + n → s.buf[i % n]? = vs[i]?
  sum_lo : k ≤ n → s.sum = (vs.take k).foldl A.vo.add A.vo.zero
  sum_hi : n ≤ k → slideSum A n vs (k - n) = some s.sum

theorem maInv_init (A : Arith V F) (n : Nat) (vs : List V) :
    MaInv A n vs 0 ({ sum := A.vo.zero } : MaSt V) where
  len := by simp
  pos := by simp
  ring := by intro i hi; omega
  sum_lo := by intro _; simp
  sum_hi := by
    intro h
    have : n = 0 := by omega
    subst this
    simp [slideSum]

theorem mod_ne_of_lt {i k n : Nat} (h1 : i < k) (h2 : k < i + n) : i % n ≠ k % n := by
  intro h
  have hdvd : n ∣ k - i := Nat.dvd_of_mod_eq_zero (Nat.sub_mod_eq_zero_of_mod_eq h.symm)
  have hpos : 0 < k - i := by omega
  have := Nat.le_of_dvd hpos hdvd
  omega

theorem succ_mod' (k n : Nat) : (k + 1) % n = (k % n + 1) % n := by
  rw [Nat.add_mod k 1 n, Nat.add_mod (k % n) 1 n, Nat.mod_mod]

theorem maAgg_step (A : Arith V F) (n : Nat) (hn : 0 < n) (vs : List V) (k : Nat) (s : MaSt V)
    (inv : MaInv A n vs k s) (p : Pt V) (hp : vs[k]? = some p.v) :
    ∃ s', maAgg A.vo n s p = some s' ∧ MaInv A n vs (k + 1) s' ∧ s'.time = p.t := by
  by_cases hk : k < n
  · -- the buffer is still filling
    have hlen : s.buf.length = k := by rw [inv.len]; omega
    have hne : s.buf.length ≠ n := by omega
    refine ⟨_, by simp only [maAgg, hne, ne_eq, not_false_eq_true, if_true]; rfl, ?_, rfl⟩
    have hpos : s.pos = k := by rw [inv.pos]; exact Nat.mod_eq_of_lt hk
    constructor
    · simp [hlen]; omega
    · show (if s.pos + 1 ≥ n then 0 else s.pos + 1) = (k + 1) % n
      rw [hpos]
      by_cases h1 : k + 1 ≥ n
      · have : k + 1 = n := by omega
        simp [h1, this]
      · simp only [h1, if_false]
        exact (Nat.mod_eq_of_lt (by omega)).symm
    · intro i hi hle
      have hin : i % n = i := Nat.mod_eq_of_lt (by omega)
      show (s.buf ++ [p.v])[i % n]? = vs[i]?
      rw [hin]
      by_cases hik : i = k
      · subst hik
        rw [List.getElem?_append_right (by omega)]
        simp [hlen, hp]
      · have hi' : i < k := by omega
        rw [List.getElem?_append_left (by omega)]
        have := inv.ring i hi' (by omega)
        rwa [hin] at this
    · intro _
      show A.vo.add s.sum p.v = _
      rw [foldl_take_succ _ _ _ _ _ hp, inv.sum_lo (by omega)]
    · intro hle
      have hkn : k + 1 = n := by omega
      show slideSum A n vs (k + 1 - n) = some (A.vo.add s.sum p.v)
      have : k + 1 - n = 0 := by omega
      rw [this]
      simp only [slideSum]
      rw [← hkn, foldl_take_succ _ _ _ _ _ hp, inv.sum_lo (by omega)]
  · -- the buffer is full: the oldest value (at `pos`) leaves
    have hkn : n ≤ k := by omega
    have hlen : s.buf.length = n := by rw [inv.len]; omega
    have hposlt : s.pos < n := by rw [inv.pos]; exact Nat.mod_lt _ hn
    have hold : s.buf[s.pos]? = vs[k - n]? := by
      have := inv.ring (k - n) (by omega) (by omega)
      have hm : (k - n) % n = k % n := by
        have : k = (k - n) + n := by omega
        conv => rhs; rw [this, Nat.add_mod_right]
      rw [hm, ← inv.pos] at this
      exact this
    have hsome : ∃ old, s.buf[s.pos]? = some old := by
      have : s.pos < s.buf.length := by omega
      exact ⟨s.buf[s.pos], by simp [this]⟩
    obtain ⟨old, hold'⟩ := hsome
    refine ⟨_, by simp only [maAgg, hlen, ne_eq, not_true_eq_false, if_false, hold']; rfl, ?_, rfl⟩
    constructor
    · simp [hlen]; omega
    · show (if s.pos + 1 ≥ n then 0 else s.pos + 1) = (k + 1) % n
      rw [inv.pos]
      by_cases h1 : k % n + 1 ≥ n
      · have h2 : k % n + 1 = n := by have := Nat.mod_lt k hn; omega
        simp only [h1, if_true]
        rw [succ_mod', h2, Nat.mod_self]
      · simp only [h1, if_false]
        rw [succ_mod']
        exact (Nat.mod_eq_of_lt (by omega)).symm
    · intro i hi hle
      show (s.buf.set s.pos p.v)[i % n]? = vs[i]?
      by_cases hik : i = k
      · subst hik
        rw [← inv.pos, List.getElem?_set_self (by omega), hp]
      · have hi' : i < k := by omega
        have hne : s.pos ≠ i % n := by
          rw [inv.pos]
          exact (mod_ne_of_lt hi' (by omega)).symm
        rw [List.getElem?_set_ne hne]
        exact inv.ring i hi' (by omega)
    · intro hle
      omega
    · intro _
      show slideSum A n vs (k + 1 - n) = some (A.vo.add (A.vo.sub s.sum old) p.v)
      have h1 : k + 1 - n = (k - n) + 1 := by omega
      rw [h1]
      simp only [slideSum]
      rw [inv.sum_hi hkn, ← hold, hold']
      have h2 : k - n + n = k := by omega
      rw [h2, hp]

end Influx.Reducers.Lemmas

namespace Influx.Reducers.Lemmas
variable {V F : Type}

/-- what the reducer emits right after aggregating point number `k` (0-based) -/
def maOut (A : Arith V F) (n : Nat) (xs : List (Pt V)) (k : Nat) : List (Pt F) :=
  if k + 1 < n then [] else
  match xs[k]?, slideSum A n (xs.map (·.v)) (k + 1 - n) with
  | some p, some s => [⟨p.t, A.fo.div (A.vo.toF s) (A.fo.ofInt n)⟩]
  | _, _ => []

theorem maRun_from (A : Arith V F) (n : Nat) (hn : 0 < n) (xs : List (Pt V)) :
    ∀ (rest : List (Pt V)) (k : Nat) (s : MaSt V), MaInv A n (xs.map (·.v)) k s → xs.drop k = rest →
      maRun A.vo A.fo n s rest = some ((List.range' k rest.length).flatMap (maOut A n xs)) := by
  intro rest
  induction rest with
  | nil => intro k s _ _; simp [maRun]
  | cons p ps ih =>
    intro k s inv hdrop
    have hk : xs[k]? = some p := by
      have := congrArg List.head? hdrop
      simpa [List.head?_drop] using this
    have hv : (xs.map (·.v))[k]? = some p.v := by simp [hk]
    obtain ⟨s', hagg, inv', htime⟩ := maAgg_step A n hn _ k s inv p hv
    have hdrop' : xs.drop (k + 1) = ps := by
      have := congrArg List.tail hdrop
      simpa [List.tail_drop] using this
    simp only [maRun, hagg, ih (k + 1) s' inv' hdrop', Option.map_some, List.length_cons,
      List.range'_succ, List.flatMap_cons]
    congr 2
    -- the emission of this step
    unfold maEmit maOut
    have hlen := inv'.len
    by_cases hlt : k + 1 < n
    · have : s'.buf.length ≠ n := by omega
      simp [this, hlt]
    · have hl : s'.buf.length = n := by omega
      have hs := inv'.sum_hi (by omega)
      simp only [hl, ne_eq, not_true_eq_false, if_false, hlt, hk, hs, htime]

theorem flatMap_range'_shift {β : Type} (f : Nat → List β) (s m : Nat) :
    (List.range' s m).flatMap f = (List.range m).flatMap (fun i => f (s + i)) := by
  rw [List.range'_eq_map_range, List.flatMap_map]

theorem filterMap_eq_flatMap {α β : Type} (g : α → Option β) (l : List α) :
    l.filterMap g = l.flatMap (fun a => (g a).toList) := by
  induction l with
  | nil => rfl
  | cons a l ih => cases h : g a <;> simp [List.filterMap_cons, h, ih]

theorem flatMap_nil_of {α β : Type} (f : α → List β) (l : List α) (h : ∀ a ∈ l, f a = []) :
    l.flatMap f = [] := by
  induction l with
  | nil => rfl
  | cons a l ih => simp [h a (by simp), ih (fun b hb => h b (by simp [hb]))]

theorem flatMap_congr' {α β : Type} (f g : α → List β) (l : List α) (h : ∀ a ∈ l, f a = g a) :
    l.flatMap f = l.flatMap g := by
  induction l with
  | nil => rfl
  | cons a l ih => simp [h a (by simp), ih (fun b hb => h b (by simp [hb]))]

/-- **moving_average(n)**, any arithmetic: the ring-buffer reducer emits exactly the
    sliding-window definition (never indexes out of range for `n ≥ 1`). -/
theorem movingAverage_eq_def (A : Arith V F) (n : Nat) (hn : 0 < n) (xs : List (Pt V)) :
    movingAverage A.vo A.fo n xs = some (movingAverageDef A n xs) := by
  unfold movingAverage
  rw [maRun_from A n hn xs xs 0 _ (maInv_init A n _) (by simp)]
  congr 1
  unfold movingAverageDef
  rw [filterMap_eq_flatMap]
  -- split the steps into the first n-1 (nothing emitted) and the rest
  by_cases hlen : xs.length + 1 ≤ n
  · have h0 : xs.length + 1 - n = 0 := by omega
    rw [h0]
    simp only [List.range_zero, List.flatMap_nil]
    apply flatMap_nil_of
    intro k hk
    have : k < xs.length := by simpa using (List.mem_range'_1.mp hk).2
    simp [maOut, show k + 1 < n by omega]
  · have hsplit : List.range' 0 xs.length = List.range' 0 (n - 1) ++ List.range' (n - 1) (xs.length + 1 - n) := by
      have := List.range'_append_1 (s := 0) (m := n - 1) (n := xs.length + 1 - n)
      simp only [Nat.zero_add] at this
      rw [this]
      congr 1
      omega
    rw [hsplit, List.flatMap_append]
    have hfirst : (List.range' 0 (n - 1)).flatMap (maOut A n xs) = [] := by
      apply flatMap_nil_of
      intro k hk
      have : k < n - 1 := by simpa using (List.mem_range'_1.mp hk).2
      simp [maOut, show k + 1 < n by omega]
    rw [hfirst, List.nil_append, flatMap_range'_shift]
    apply flatMap_congr'
    intro i _
    obtain ⟨j, hj⟩ : ∃ j, j = n - 1 + i := ⟨_, rfl⟩
    rw [← hj]
    have h1 : ¬ (j + 1 < n) := by omega
    have h2 : j + 1 - n = i := by omega
    have h3 : i + n - 1 = j := by omega
    simp only [maOut, h1, if_false, h2, h3]
    cases xs[j]? <;> cases slideSum A n (xs.map (·.v)) i <;> rfl

end Influx.Reducers.Lemmas

namespace Influx.Reducers.Lemmas

/-! ### integers: the sliding sum is the window's sum -/

def isum (l : List Int) : Int := l.foldl (· + ·) 0

theorem foldl_add_shift (l : List Int) (a : Int) : l.foldl (· + ·) a = a + isum l := by
  unfold isum
  induction l generalizing a with
  | nil => simp
  | cons x xs ih => simp only [List.foldl_cons]; rw [ih (a + x), ih (0 + x)]; omega

theorem isum_cons (x : Int) (l : List Int) : isum (x :: l) = x + isum l := by
  unfold isum; simp only [List.foldl_cons]; rw [foldl_add_shift]; simp [isum]

theorem isum_take_succ (l : List Int) (n : Nat) (x : Int) (h : l[n]? = some x) :
    isum (l.take (n + 1)) = isum (l.take n) + x := by
  induction l generalizing n with
  | nil => simp at h
  | cons a l ih =>
    cases n with
    | zero => simp at h; subst h; simp [isum]
    | succ n =>
      simp at h
      simp only [List.take_succ_cons, isum_cons, ih n h]; omega

/-- with exact integer arithmetic the maintained sliding sum IS the sum of the window
    `vs[i .. i+n)` -/
theorem slideSum_int {F : Type} (fo : FOps F) (eqvF : F → F → Bool) (hF : ∀ x, eqvF x x = true)
    (n : Nat) (vs : List Int) : ∀ i, i + n ≤ vs.length →
      slideSum (intArith fo eqvF hF) n vs i = some (isum ((vs.drop i).take n)) := by
  intro i
  induction i with
  | zero => intro _; simp [slideSum, isum, intArith, intOps]
  | succ i ih =>
    intro hle
    have hi : i < vs.length := by omega
    have hin : i + n < vs.length := by omega
    simp only [slideSum, ih (by omega), List.getElem?_eq_getElem hi, List.getElem?_eq_getElem hin]
    congr 1
    show isum ((vs.drop i).take n) - vs[i] + vs[i + n] = isum ((vs.drop (i + 1)).take n)
    have hd : vs.drop i = vs[i] :: vs.drop (i + 1) := List.drop_eq_getElem_cons hi
    cases n with
    | zero => simp [isum]; omega
    | succ n =>
      rw [hd, List.take_succ_cons, isum_cons]
      have hx : (vs.drop (i + 1))[n]? = some vs[i + (n + 1)] := by
        rw [List.getElem?_drop]
        have : i + 1 + n = i + (n + 1) := by omega
        rw [this, List.getElem?_eq_getElem hin]
      rw [isum_take_succ _ n _ hx]
      omega

end Influx.Reducers.Lemmas
