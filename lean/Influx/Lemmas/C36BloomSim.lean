/-
  Lemmas.C36BloomSim — simulation between the bloom part of the model (`stepB`) and the
  bloom part of the statement (`checkB`).
-/
import Influx.Lemmas.C36Bloom

namespace Influx.C36
open Influx.Spec.C36

/-- pointwise update of two lists related index by index -/
theorem rel_set {α β : Type} (Rel : Option α → Option β → Prop)
    (hsn : ∀ x, ¬ Rel (some x) none) (hns : ∀ y, ¬ Rel none (some y))
    (a : List α) (b : List β) (h : ∀ j : Nat, Rel a[j]? b[j]?) (r : Nat) (x : α) (y : β)
    (hxy : Rel (some x) (some y)) : ∀ j : Nat, Rel (a.set r x)[j]? (b.set r y)[j]? := by
  intro j
  rw [List.getElem?_set, List.getElem?_set]
  by_cases hrj : r = j
  · subst hrj
    simp only [if_true]
    have hr := h r
    by_cases ha : r < a.length
    · by_cases hb : r < b.length
      · simp [ha, hb, hxy]
      · have : b[r]? = none := by simp; omega
        rw [this, List.getElem?_eq_getElem ha] at hr
        exact absurd hr (hsn _)
    · by_cases hb : r < b.length
      · have : a[r]? = none := by simp; omega
        rw [this, List.getElem?_eq_getElem hb] at hr
        exact absurd hr (hns _)
      · simp only [ha, hb, if_false]
        have h1 : a[r]? = none := by simp; omega
        have h2 : b[r]? = none := by simp; omega
        rw [h1, h2] at hr; exact hr
  · simp only [hrj, if_false]; exact h j

/-- the hashes an op carries are those of its key -/
def BOp.WF (bh : Key → Nat × Nat) : BOp → Prop
  | .ins _ key h0 h1 => bh key = (h0, h1)
  | .has _ key h0 h1 => bh key = (h0, h1)
  | _ => True

/-- a filter and the list of keys inserted into it -/
def RB1 (bh : Key → Nat × Nat) : Option (Option Bloom.Filter) → Option (Option (List Key)) → Prop
  | none, none => True
  | some none, some none => True
  | some (some f), some (some ks) =>
    0 < f.bits.length ∧ ∀ key ∈ ks, f.contains (bh key).1 (bh key).2 = true
  | _, _ => False

def RB (bh : Key → Nat × Nat) (bf : List (Option Bloom.Filter)) (bl : List (Option (List Key))) : Prop :=
  ∀ j : Nat, RB1 bh bf[j]? bl[j]?

theorem RB_init (bh) : RB bh (List.replicate nReg none) (List.replicate nReg none) := by
  intro j
  by_cases h : j < nReg
  · simp [h, RB1]
  · simp [h, RB1]

theorem RB_set {bh bf bl} (h : RB bh bf bl) (r : Nat) (f : Bloom.Filter) (ks : List Key)
    (hf : RB1 bh (some (some f)) (some (some ks))) : RB bh (bf.set r (some f)) (bl.set r (some ks)) := by
  apply rel_set (RB1 bh) _ _ bf bl h r (some f) (some ks) hf
  · intro x; cases x <;> simp [RB1]
  · intro y; cases y <;> simp [RB1]

/-- one bloom op: the statement accepts the model's answer and the relation is kept -/
theorem stepB_sim (bh : Key → Nat × Nat) (bf bl) (op : BOp) (hR : RB bh bf bl) (hwf : BOp.WF bh op) :
    (checkB bl op (stepB bf op).2).2 = none ∧ RB bh (stepB bf op).1 (checkB bl op (stepB bf op).2).1 := by
  cases op with
  | new r m k =>
    simp only [stepB]
    split
    · cases hn : Bloom.new m k with
      | none => simp [checkB, hR]
      | some f =>
        simp only [checkB]
        exact ⟨trivial, RB_set hR r f [] ⟨Bloom.new_pos hn, by simp⟩⟩
    · simp [checkB, hR]
  | buf r bytes k =>
    simp only [stepB]
    split
    · cases hn : Bloom.ofBuffer bytes k with
      | none => simp [checkB, hR]
      | some f =>
        simp only [checkB]
        exact ⟨trivial, RB_set hR r f [] ⟨Bloom.ofBuffer_pos hn, by simp⟩⟩
    · simp [checkB, hR]
  | ins r key h0 h1 =>
    have hr := hR r
    simp only [stepB, checkB]
    cases hbf : bf[r]? with
    | none =>
      cases hbl : bl[r]? with
      | none => simp [hR]
      | some y => rw [hbf, hbl] at hr; cases y <;> simp [RB1] at hr
    | some of =>
      cases of with
      | none =>
        cases hbl : bl[r]? with
        | none => rw [hbf, hbl] at hr; simp [RB1] at hr
        | some y =>
          cases y with
          | none => simp [hR]
          | some ks => rw [hbf, hbl] at hr; simp [RB1] at hr
      | some f =>
        cases hbl : bl[r]? with
        | none => rw [hbf, hbl] at hr; simp [RB1] at hr
        | some y =>
          cases y with
          | none => rw [hbf, hbl] at hr; simp [RB1] at hr
          | some ks =>
            rw [hbf, hbl] at hr
            obtain ⟨hpos, hks⟩ := hr
            simp only
            refine ⟨trivial, RB_set hR r _ _ ⟨?_, ?_⟩⟩
            · simpa [Bloom.Filter.insert, Bloom.setBits_length] using hpos
            · intro key' hk'
              rcases List.mem_cons.mp hk' with rfl | hmem
              · simp only [BOp.WF] at hwf
                rw [hwf]
                exact Bloom.contains_insert_self f h0 h1 hpos
              · exact Bloom.contains_insert_mono f _ _ h0 h1 (hks key' hmem)
  | has r key h0 h1 =>
    have hr := hR r
    simp only [stepB, checkB]
    cases hbf : bf[r]? with
    | none =>
      cases hbl : bl[r]? with
      | none => simp [hR]
      | some y => rw [hbf, hbl] at hr; cases y <;> simp [RB1] at hr
    | some of =>
      cases of with
      | none =>
        cases hbl : bl[r]? with
        | none => rw [hbf, hbl] at hr; simp [RB1] at hr
        | some y =>
          cases y with
          | none => simp [hR]
          | some ks => rw [hbf, hbl] at hr; simp [RB1] at hr
      | some f =>
        cases hbl : bl[r]? with
        | none => rw [hbf, hbl] at hr; simp [RB1] at hr
        | some y =>
          cases y with
          | none => rw [hbf, hbl] at hr; simp [RB1] at hr
          | some ks =>
            rw [hbf, hbl] at hr
            obtain ⟨hpos, hks⟩ := hr
            refine ⟨?_, hR⟩
            simp only [expect]
            split
            · rfl
            · next hne =>
              exfalso; apply hne
              by_cases hmem : key ∈ ks
              · have := hks key hmem
                simp only [BOp.WF] at hwf
                rw [hwf] at this
                simp [this]
              · simp [hmem]
  | merge r o =>
    have hr := hR r
    have ho := hR o
    simp only [stepB, checkB]
    cases hbf : bf[r]? with
    | none =>
      rw [hbf] at hr
      cases hbl : bl[r]? with
      | none => simp [hR]
      | some y => rw [hbl] at hr; cases y <;> simp [RB1] at hr
    | some of =>
      rw [hbf] at hr
      cases of with
      | none =>
        cases hbl : bl[r]? with
        | none => rw [hbl] at hr; simp [RB1] at hr
        | some y =>
          cases y with
          | some ks => rw [hbl] at hr; simp [RB1] at hr
          | none =>
            cases hbo : bf[o]? with
            | none => simp [hR]
            | some og => simp [hR]
      | some f =>
        cases hbl : bl[r]? with
        | none => rw [hbl] at hr; simp [RB1] at hr
        | some y =>
          cases y with
          | none => rw [hbl] at hr; simp [RB1] at hr
          | some ks =>
            rw [hbl] at hr
            cases hbo : bf[o]? with
            | none =>
              rw [hbo] at ho
              cases hblo : bl[o]? with
              | none => simp [hR]
              | some y => rw [hblo] at ho; cases y <;> simp [RB1] at ho
            | some og =>
              rw [hbo] at ho
              cases og with
              | none =>
                cases hblo : bl[o]? with
                | none => rw [hblo] at ho; simp [RB1] at ho
                | some y =>
                  cases y with
                  | none => simp [hR]
                  | some os => rw [hblo] at ho; simp [RB1] at ho
              | some g =>
                cases hblo : bl[o]? with
                | none => rw [hblo] at ho; simp [RB1] at ho
                | some y =>
                  cases y with
                  | none => rw [hblo] at ho; simp [RB1] at ho
                  | some os =>
                    rw [hblo] at ho
                    cases hm : f.merge g with
                    | error e => cases e <;> simp [hm, hR]
                    | ok f' =>
                      simp only [hm]
                      refine ⟨trivial, RB_set hR r _ _ ⟨?_, ?_⟩⟩
                      · rw [Bloom.merge_length hm]; exact hr.1
                      · intro key hk
                        rcases List.mem_append.mp hk with h1 | h1
                        · exact Bloom.contains_merge_right hm _ _ (ho.2 key h1)
                        · exact Bloom.contains_merge_left hm _ _ (hr.2 key h1)
  | clone src dst =>
    have hr := hR src
    simp only [stepB, checkB]
    cases hbf : bf[src]? with
    | none =>
      rw [hbf] at hr
      cases hbl : bl[src]? with
      | none => simp [hR]
      | some y => rw [hbl] at hr; cases y <;> simp [RB1] at hr
    | some of =>
      rw [hbf] at hr
      cases of with
      | none =>
        cases hbl : bl[src]? with
        | none => rw [hbl] at hr; simp [RB1] at hr
        | some y =>
          cases y with
          | none => simp [hR]
          | some ks => rw [hbl] at hr; simp [RB1] at hr
      | some f =>
        cases hbl : bl[src]? with
        | none => rw [hbl] at hr; simp [RB1] at hr
        | some y =>
          cases y with
          | none => rw [hbl] at hr; simp [RB1] at hr
          | some ks =>
            rw [hbl] at hr
            by_cases hd : dst < nReg
            · simp only [hd, if_true]
              exact ⟨trivial, RB_set hR dst f ks hr⟩
            · simp [hd, hR]
  | bytes r =>
    simp only [stepB, checkB]
    refine ⟨trivial, ?_⟩
    split <;> exact hR
  | kl r =>
    simp only [stepB, checkB]
    refine ⟨trivial, ?_⟩
    split <;> exact hR

end Influx.C36
