/-
  Lemmas.SnowflakeF12 — DESIGN §6 F12 worked out on `Model.Snowflake`: an explicit interleaving in
  which the 100-try fallback `AddUint64` carries out of a full sequence field and `Next` repeats an id.
-/
import Influx.Lemmas.Snowflake

namespace Influx.Lemmas.SnowflakeF12
open Influx.Model.Snowflake Influx.Generated.IDGen Influx.Lemmas.Snowflake

theorem run_append (s : Sys) (a b : Sched) : run s (a ++ b) = run (run s a) b := by
  induction a generalizing s with
  | nil => rfl
  | cons e a ih => obtain ⟨t, n⟩ := e; simp only [List.cons_append, run, ih]

theorem tOf_epoch : tOf epoch = 0 := by decide +kernel

/-- with the clock at the epoch (`t = 0`) and a sequence field that is not full, a proposal is `current + 1` -/
theorem propose_inc (cur : Nat) (hc : cur < 2 ^ 64 - 1) (hseq : cur % 4096 ≠ 4095) : propose 0 cur = cur + 1 := by
  unfold propose
  simp only [mask_mod, seq_mod]
  simp only [Nat.shiftRight_eq_div_pow, Nat.shiftLeft_eq, u64, timeShift, sequenceMask]
  split
  · omega
  · first | omega | (split <;> omega)

/-- caller 0 runs one whole uncontended `Next` with the clock at the epoch -/
def callA : Sched := [(0, epoch), (0, epoch), (0, epoch)]

/-- what `callA` does: one increment, one value handed out, nobody else moves -/
structure Stepped (s s' : Sys) (k : Nat) : Prop where
  g : s'.g = s.g + k
  machine : s'.machine = s.machine
  pc0 : s'.pc 0 = .idle
  others : ∀ j, j ≠ 0 → s'.pc j = s.pc j
  out : ∃ l, s'.out = s.out ++ l

theorem callA_spec (s : Sys) (hpc : s.pc 0 = .idle) (hc : s.g < 2 ^ 64 - 1) (hseq : s.g % 4096 ≠ 4095) :
    Stepped s (run s callA) 1 ∧ (run s callA).out = s.out ++ [(s.g + 1) ||| s.machine] ∧ (run s callA).bad = s.bad := by
  have hp := propose_inc s.g hc hseq
  simp only [callA, run, step, hpc, tOf_epoch, setPC, if_true, hp]
  simp only [Nat.add_one_ne_zero, if_false]
  refine ⟨⟨?_, ?_, ?_, ?_, ?_⟩, ?_, ?_⟩
  · simp
  · simp
  · simp [setPC]
  · intro j hj; simp [setPC, hj]
  · exact ⟨_, rfl⟩
  · simp
  · simp

theorem stepped_trans (a b c : Sys) (j k : Nat) (h1 : Stepped a b j) (h2 : Stepped b c k) : Stepped a c (j + k) := by
  obtain ⟨l1, e1⟩ := h1.out
  obtain ⟨l2, e2⟩ := h2.out
  exact ⟨by rw [h2.g, h1.g]; omega, by rw [h2.machine, h1.machine], h2.pc0,
    fun i hi => by rw [h2.others i hi, h1.others i hi], ⟨l1 ++ l2, by rw [e2, e1, List.append_assoc]⟩⟩

/-- `k` uncontended calls in a row, as long as the sequence field does not fill up -/
theorem callsA_spec (k : Nat) (s : Sys) (hpc : s.pc 0 = .idle) (hc : s.g + k < 2 ^ 64)
    (hseq : s.g % 4096 + k ≤ 4095) :
    Stepped s (run s (List.replicate k callA).flatten) k ∧ (run s (List.replicate k callA).flatten).bad = s.bad := by
  induction k generalizing s with
  | zero => exact ⟨⟨rfl, rfl, hpc, fun _ _ => rfl, ⟨[], by simp [run]⟩⟩, rfl⟩
  | succ k ih =>
    obtain ⟨st, _, hb⟩ := callA_spec s hpc (by omega) (by omega)
    simp only [List.replicate_succ, List.flatten_cons, run_append]
    obtain ⟨st2, hb2⟩ := ih (run s callA) st.pc0 (by rw [st.g]; omega) (by rw [st.g]; omega)
    refine ⟨?_, by rw [hb2, hb]⟩
    have := stepped_trans _ _ _ 1 k st st2
    rwa [Nat.add_comm] at this

/-- a step of caller 1 that only moves its program counter -/
structure PcOnly (s s' : Sys) : Prop where
  g : s'.g = s.g
  machine : s'.machine = s.machine
  pc0 : s'.pc 0 = s.pc 0
  out : s'.out = s.out
  bad : s'.bad = s.bad

theorem stepB_read (s : Sys) (i : Nat) (h : (s.pc 1 = .idle ∧ i = 0) ∨ s.pc 1 = .top i) :
    PcOnly s (step s 1 epoch) ∧ (step s 1 epoch).pc 1 = .gotT i 0 := by
  rcases h with ⟨h, rfl⟩ | h <;> simp [step, h, tOf_epoch, setPC] <;> exact ⟨rfl, rfl, rfl, rfl, rfl⟩

theorem stepB_load (s : Sys) (i t : Nat) (h : s.pc 1 = .gotT i t) :
    PcOnly s (step s 1 epoch) ∧ (step s 1 epoch).pc 1 = .loaded i t s.g := by
  simp [step, h, setPC]; exact ⟨rfl, rfl, rfl, rfl, rfl⟩

theorem stepB_casfail (s : Sys) (i t cur : Nat) (h : s.pc 1 = .loaded i t cur) (hne : s.g ≠ cur) :
    PcOnly s (step s 1 epoch) ∧
      (step s 1 epoch).pc 1 = (if i + 1 < maxTries then PC.top (i + 1) else PC.fallback) := by
  simp only [step, h, hne, if_false]
  split <;> (simp [setPC]; exact ⟨rfl, rfl, rfl, rfl, rfl⟩)

/-- one round: caller 1 reads the clock and loads, caller 0 completes a `Next`, caller 1's CAS fails -/
def failB : Sched := [(1, epoch), (1, epoch)] ++ (callA ++ [(1, epoch)])

theorem failB_spec (s : Sys) (i : Nat) (hB : (s.pc 1 = .idle ∧ i = 0) ∨ s.pc 1 = .top i)
    (hpc : s.pc 0 = .idle) (hc : s.g < 2 ^ 64 - 1) (hseq : s.g % 4096 ≠ 4095) :
    let s' := run s failB
    s'.g = s.g + 1 ∧ s'.machine = s.machine ∧ s'.pc 0 = .idle ∧ (∃ l, s'.out = s.out ++ l) ∧ s'.bad = s.bad ∧
      s'.pc 1 = (if i + 1 < maxTries then PC.top (i + 1) else PC.fallback) := by
  obtain ⟨f1, p1⟩ := stepB_read s i hB
  obtain ⟨f2, p2⟩ := stepB_load (step s 1 epoch) i 0 p1
  have hpc2 : (step (step s 1 epoch) 1 epoch).pc 0 = .idle := by rw [f2.pc0, f1.pc0, hpc]
  have hg2 : (step (step s 1 epoch) 1 epoch).g = s.g := by rw [f2.g, f1.g]
  obtain ⟨st, _, hb3⟩ := callA_spec (step (step s 1 epoch) 1 epoch) hpc2 (by rw [hg2]; exact hc) (by rw [hg2]; exact hseq)
  have p3 : (run (step (step s 1 epoch) 1 epoch) callA).pc 1 = .loaded i 0 s.g := by
    rw [st.others 1 (by decide), p2, f1.g]
  have hg3 : (run (step (step s 1 epoch) 1 epoch) callA).g = s.g + 1 := by rw [st.g, hg2]
  obtain ⟨f4, p4⟩ := stepB_casfail _ i 0 s.g p3 (by rw [hg3]; omega)
  obtain ⟨l, hl⟩ := st.out
  simp only [failB, List.cons_append, List.nil_append, run, run_append]
  refine ⟨by rw [f4.g, hg3], by rw [f4.machine, st.machine, f2.machine, f1.machine], by rw [f4.pc0, st.pc0],
    ⟨l, by rw [f4.out, hl, f2.out, f1.out]⟩, by rw [f4.bad, hb3, f2.bad, f1.bad], p4⟩

theorem rounds_spec (j : Nat) (s : Sys) (hj : j ≤ 100) (hB : s.pc 1 = .idle) (hpc : s.pc 0 = .idle)
    (hc : s.g + j < 2 ^ 64) (hseq : s.g % 4096 + j ≤ 4095) :
    let s' := run s (List.replicate j failB).flatten
    s'.g = s.g + j ∧ s'.machine = s.machine ∧ s'.pc 0 = .idle ∧ (∃ l, s'.out = s.out ++ l) ∧ s'.bad = s.bad ∧
      ((j = 0 ∧ s'.pc 1 = .idle) ∨ (0 < j ∧ j < 100 ∧ s'.pc 1 = .top j) ∨ (j = 100 ∧ s'.pc 1 = .fallback)) := by
  induction j with
  | zero => exact ⟨rfl, rfl, hpc, ⟨[], by simp [run]⟩, rfl, .inl ⟨rfl, hB⟩⟩
  | succ j ih =>
    obtain ⟨a1, a2, a3, ⟨l, a4⟩, a5, a6⟩ := ih (by omega) (by omega) (by omega)
    have hrep : (List.replicate (j + 1) failB).flatten = (List.replicate j failB).flatten ++ failB := by
      rw [List.replicate_succ', List.flatten_append]; simp
    simp only [hrep, run_append]
    generalize run s (List.replicate j failB).flatten = m at a1 a2 a3 a4 a5 a6
    have hBm : (m.pc 1 = .idle ∧ j = 0) ∨ m.pc 1 = .top j := by
      rcases a6 with ⟨h0, h⟩ | ⟨_, _, h⟩ | ⟨h100, _⟩
      · exact .inl ⟨h, h0⟩
      · exact .inr h
      · omega
    obtain ⟨b1, b2, b3, ⟨l2, b4⟩, b5, b6⟩ := failB_spec m j hBm a3 (by rw [a1]; omega) (by rw [a1]; omega)
    refine ⟨by rw [b1, a1]; omega, by rw [b2, a2], b3, ⟨l ++ l2, by rw [b4, a4, List.append_assoc]⟩, by rw [b5, a5], ?_⟩
    rw [b6]
    by_cases h : j + 1 < maxTries
    · rw [if_pos h]; simp only [maxTries] at h; exact .inr (.inl ⟨by omega, h, rfl⟩)
    · rw [if_neg h]; simp only [maxTries] at h; exact .inr (.inr ⟨by omega, rfl⟩)

theorem stepB_fallback (s : Sys) (h : s.pc 1 = .fallback) :
    (step s 1 epoch).g = u64 (s.g + 1) ∧ (step s 1 epoch).machine = s.machine ∧ (step s 1 epoch).pc 0 = s.pc 0 ∧
      (step s 1 epoch).out = s.out ++ [u64 (s.g + 1) ||| s.machine] ∧
      (step s 1 epoch).bad = (s.bad || decide (s.g &&& sequenceMask = sequenceMask)) := by
  simp [step, h, setPC]

/-- the schedule of DESIGN §6 F12: caller 1 loses 100 CAS races, the sequence field fills up, its fallback
    `AddUint64` carries into the machine-id bits, and the next id repeats the very first one -/
def collisionSched : Sched :=
  callA ++ ((List.replicate 100 failB).flatten ++ ((List.replicate 3994 callA).flatten ++ ([(1, epoch)] ++ callA)))

/-- the start word: time field 2^41 (far ahead of the clock readings used), sequence 0 -/
def T0 : Nat := 2 ^ 41 <<< 22

/-- **F12 on the model**: the generator with machine id 1, started from the well-formed word `T0`, hands
    out the same id twice under `collisionSched` — the first and the last of its 4097 ids are equal. -/
theorem fallback_collision :
    let s := run (Sys.init T0 (1 <<< serverShift)) collisionSched
    s.bad = true ∧ ∃ v l, s.out = v :: (l ++ [v]) := by
  have hT : T0 = 2 ^ 63 := by decide
  -- the first call
  obtain ⟨st1, o1, b1⟩ := callA_spec (Sys.init T0 (1 <<< serverShift)) rfl (by rw [show (Sys.init T0 (1 <<< serverShift)).g = T0 from rfl, hT]; decide)
    (by rw [show (Sys.init T0 (1 <<< serverShift)).g = T0 from rfl, hT]; decide)
  simp only [collisionSched, run_append]
  generalize run (Sys.init T0 (1 <<< serverShift)) callA = s1 at st1 o1 b1
  have g1 : s1.g = 2 ^ 63 + 1 := by rw [st1.g]; show T0 + 1 = _; rw [hT]
  have m1 : s1.machine = 4096 := by rw [st1.machine]; decide
  have pc1 : s1.pc 1 = .idle := by rw [st1.others 1 (by decide)]; rfl
  have out1 : s1.out = [2 ^ 63 + 4097] := by
    rw [o1]; show [] ++ [(T0 + 1) ||| (1 <<< serverShift)] = _; rw [hT]; decide
  have bad1 : s1.bad = false := by rw [b1]; rfl
  -- 100 lost races
  obtain ⟨g2, m2, p2, ⟨l2, o2⟩, b2, h2⟩ := rounds_spec 100 s1 (by decide) pc1 st1.pc0 (by rw [g1]; decide) (by rw [g1]; decide)
  generalize run s1 (List.replicate 100 failB).flatten = s2 at g2 m2 p2 o2 b2 h2
  have pcB : s2.pc 1 = .fallback := by
    rcases h2 with ⟨h, _⟩ | ⟨_, h, _⟩ | ⟨_, h⟩
    · cases h
    · omega
    · exact h
  -- the sequence field fills up
  obtain ⟨st3, b3⟩ := callsA_spec 3994 s2 p2 (by rw [g2, g1]; decide) (by rw [g2, g1]; decide)
  generalize run s2 (List.replicate 3994 callA).flatten = s3 at st3 b3
  obtain ⟨l3, o3⟩ := st3.out
  have g3 : s3.g = 2 ^ 63 + 4095 := by rw [st3.g, g2, g1]
  have pcB3 : s3.pc 1 = .fallback := by rw [st3.others 1 (by decide), pcB]
  -- the fallback add carries
  obtain ⟨g4, m4, p4, o4, b4⟩ := stepB_fallback s3 pcB3
  simp only [run]
  generalize step s3 1 epoch = s4 at g4 m4 p4 o4 b4
  have g4' : s4.g = 2 ^ 63 + 4096 := by rw [g4, g3]; decide
  have bad4 : s4.bad = true := by
    rw [b4, g3]
    have : decide ((2 ^ 63 + 4095) &&& sequenceMask = sequenceMask) = true := by decide
    rw [this]; simp
  -- and the next id repeats the first
  obtain ⟨st5, o5, b5⟩ := callA_spec s4 (by rw [p4, st3.pc0]) (by rw [g4']; decide) (by rw [g4']; decide)
  refine ⟨by rw [b5, bad4], 2 ^ 63 + 4097, l2 ++ l3 ++ [u64 (s3.g + 1) ||| s3.machine], ?_⟩
  rw [o5, o4, o3, o2, out1, g4', m4, st3.machine, m2, m1]
  have : (2 ^ 63 + 4096 + 1) ||| 4096 = 2 ^ 63 + 4097 := by decide
  rw [this]
  simp

end Influx.Lemmas.SnowflakeF12
