/-
  Lemmas.C36RHHInsert — `(*HashMap).insert` (robin-hood displacement) keeps the invariant
  and changes the contents exactly as a map update does.
-/
import Influx.Lemmas.C36RHHLookup

namespace Influx.RHH

/-- the key is already stored: the loop reaches its slot without swapping and overwrites it -/
theorem insertLoop_existing {hf : Key → Nat} {s : Slots} (hw : WF hf s) (x : Entry)
    {p : Nat} {e0 : Entry} (hp : At s p e0) (hk : e0.key = x.key) (hx : x.hash = hf x.key) :
    ∀ (fuel pos d : Nat), pos < s.length → d = dist x.hash pos s.length →
      d ≤ dist x.hash p s.length → dist x.hash p s.length - d < fuel →
      insertLoop s.length fuel s pos d x = some (s.set p (some x), true) := by
  have hh : e0.hash = x.hash := by rw [hw.hash p e0 hp, hk, hx]
  intro fuel
  induction fuel with
  | zero => intro pos d _ _ _ hf; omega
  | succ fuel ih =>
    intro pos d hpos hd hle hfuel
    unfold insertLoop
    by_cases heq : d = dist x.hash p s.length
    · have : pos = p := dist_inj x.hash pos p s.length hw.pos hpos hp.lt (by omega)
      subst this
      unfold At at hp
      simp only [hp, hk, if_true]
    · have hpath := hw.path hp (dist x.hash p s.length - d) pos hpos (by rw [hh]; omega)
      obtain ⟨e', h', hle'⟩ := hpath
      rw [hh] at hle'
      have hne : ¬ e'.key = x.key := by
        intro hk'
        have := hw.uniq pos p e' e0 h' hp (by rw [hk', hk])
        subst this
        exact heq hd
      have hlt := dist_lt x.hash p s.length hw.pos
      have hnext := dist_next x.hash pos s.length hw.pos hpos (by omega)
      unfold At at h'
      simp only [h', hne, if_false]
      have : ¬ dist e'.hash pos s.length < d := by omega
      simp only [this, if_false]
      exact ih (next pos s.length) (d + 1) (next_lt _ _ hw.pos) (by omega) (by omega) (by omega)

/-- loop invariant of `insert` while the carried element's key is not in the table -/
structure LoopInv (hf : Key → Nat) (t : Slots) (pos d : Nat) (x : Entry) : Prop where
  wf : WF hf t
  xhash : x.hash = hf x.key
  fresh : ∀ e, Mem t e → e.key ≠ x.key
  pos_lt : pos < t.length
  d_eq : d = dist x.hash pos t.length
  /-- the carried element may stand at `pos`: its predecessor is occupied and rich enough -/
  fits : ∀ i, i < t.length → next i t.length = pos → d ≠ 0 →
    ∃ e', At t i e' ∧ d ≤ dist e'.hash i t.length + 1
  /-- a free slot lies ahead, closer than a full turn -/
  gap : ∃ q, q < t.length ∧ Free t q ∧ d + dist pos q t.length < t.length

theorem mem_set_free {t : Slots} {p : Nat} {x : Entry} (hf : Free t p) (e : Entry) :
    Mem (t.set p (some x)) e ↔ Mem t e ∨ e = x := by
  have hlt : p < t.length := (List.getElem?_eq_some_iff.mp hf).1
  constructor
  · rintro ⟨i, hi⟩
    rcases (at_set t p i x e).mp hi with ⟨_, _, rfl⟩ | ⟨_, h⟩
    · exact Or.inr rfl
    · exact Or.inl ⟨i, h⟩
  · rintro (⟨i, hi⟩ | rfl)
    · have : i ≠ p := by
        intro h; subst h; unfold At at hi; unfold Free at hf; rw [hi] at hf; simp at hf
      exact ⟨i, (at_set t p i x e).mpr (Or.inr ⟨this, hi⟩)⟩
    · exact ⟨p, (at_set t p p e e).mpr (Or.inl ⟨rfl, hlt, rfl⟩)⟩

/-- placing the carried element into a free slot keeps the invariant -/
theorem wf_set_free {hf : Key → Nat} {t : Slots} {pos d : Nat} {x : Entry}
    (hI : LoopInv hf t pos d x) (hfree : Free t pos) : WF hf (t.set pos (some x)) := by
  have hw := hI.wf
  have hc := hw.pos
  refine ⟨by simpa using hc, ?_, ?_, ?_⟩
  · intro i e hi hat hd0
    simp only [List.length_set] at hi hat hd0 ⊢
    rcases (at_set t pos _ x e).mp hat with ⟨hnp, _, rfl⟩ | ⟨hnp, hat'⟩
    · -- the new element: its predecessor is given by `fits`
      rw [hnp, ← hI.d_eq] at hd0
      obtain ⟨e', he', hle⟩ := hI.fits i hi hnp hd0
      have hip : i ≠ pos := by
        intro h; subst h; unfold At at he'; unfold Free at hfree; rw [he'] at hfree; simp at hfree
      refine ⟨e', (at_set t pos i e e').mpr (Or.inr ⟨hip, he'⟩), ?_⟩
      rw [hnp, ← hI.d_eq]; exact hle
    · obtain ⟨e', he', hle⟩ := hw.rh i e hi hat' hd0
      have hip : i ≠ pos := by
        intro h; subst h; unfold At at he'; unfold Free at hfree; rw [he'] at hfree; simp at hfree
      exact ⟨e', (at_set t pos i x e').mpr (Or.inr ⟨hip, he'⟩), hle⟩
  · intro i j e e' hi hj hk
    rcases (at_set t pos i x e).mp hi with ⟨rfl, _, rfl⟩ | ⟨hip, hi'⟩
    · rcases (at_set t i j e e').mp hj with ⟨rfl, _, _⟩ | ⟨_, hj'⟩
      · rfl
      · exact absurd hk.symm (hI.fresh e' ⟨j, hj'⟩)
    · rcases (at_set t pos j x e').mp hj with ⟨rfl, _, rfl⟩ | ⟨_, hj'⟩
      · exact absurd hk (hI.fresh e ⟨i, hi'⟩)
      · exact hw.uniq i j e e' hi' hj' hk
  · intro i e hi
    rcases (at_set t pos i x e).mp hi with ⟨_, _, rfl⟩ | ⟨_, hi'⟩
    · exact hI.xhash
    · exact hw.hash i e hi'

/-- the fresh-key case of `insert`: terminates at a free slot, the invariant holds again, the
    new element is the only change of the contents -/
theorem insertLoop_new {hf : Key → Nat} :
    ∀ (fuel : Nat) (t : Slots) (pos d : Nat) (x : Entry), LoopInv hf t pos d x →
      (∀ q, q < t.length → Free t q → dist pos q t.length < fuel) →
      ∃ t', insertLoop t.length fuel t pos d x = some (t', false) ∧ WF hf t' ∧
        t'.length = t.length ∧ (∀ e, Mem t' e ↔ Mem t e ∨ e = x) ∧ count t' = count t + 1 := by
  intro fuel
  induction fuel with
  | zero =>
    intro t pos d x hI hfuel
    obtain ⟨q, hq, hfq, _⟩ := hI.gap
    have := hfuel q hq hfq; omega
  | succ fuel ih =>
    intro t pos d x hI hfuel
    have hw := hI.wf
    have hc := hw.pos
    unfold insertLoop
    have hsome : ∃ o, t[pos]? = some o := ⟨t[pos]'hI.pos_lt, List.getElem?_eq_getElem hI.pos_lt⟩
    obtain ⟨o, ho⟩ := hsome
    cases o with
    | none =>
      -- free slot: done
      simp only [ho]
      exact ⟨_, rfl, wf_set_free hI ho, by simp, fun e => mem_set_free ho e, count_set_free t pos x ho⟩
    | some y =>
      have hy : At t pos y := ho
      have hyk : ¬ y.key = x.key := hI.fresh y ⟨pos, hy⟩
      simp only [ho, hyk, if_false]
      obtain ⟨q, hq, hfq, hgap⟩ := hI.gap
      have hqp : q ≠ pos := by
        intro h; subst h; unfold Free at hfq; rw [ho] at hfq; simp at hfq
      have hoff := off_next pos q t.length hc hI.pos_lt hq hqp
      have hnl := next_lt pos t.length hc
      by_cases hsw : dist y.hash pos t.length < d
      · -- swap: x takes the slot, y travels on
        simp only [hsw, if_true]
        have hlen : (t.set pos (some x)).length = t.length := by simp
        have hI' : LoopInv hf (t.set pos (some x)) (next pos t.length) (dist y.hash pos t.length + 1) y := by
          have hwf' : WF hf (t.set pos (some x)) := by
            refine ⟨by simpa using hc, ?_, ?_, ?_⟩
            · intro i e hi hat hd0
              simp only [List.length_set] at hi hat hd0 ⊢
              rcases (at_set t pos _ x e).mp hat with ⟨hnp, _, rfl⟩ | ⟨hnp, hat'⟩
              · rw [hnp, ← hI.d_eq] at hd0
                obtain ⟨e', he', hle⟩ := hI.fits i hi hnp hd0
                have hip : i ≠ pos := by
                  intro h; subst h
                  -- next pos = pos only when the table has one slot, where every distance is 0
                  have : t.length = 1 := by
                    rw [next_eq i t.length hi] at hnp; split at hnp <;> omega
                  have := dist_lt e.hash i t.length hc
                  omega
                refine ⟨e', (at_set t pos i e e').mpr (Or.inr ⟨hip, he'⟩), ?_⟩
                rw [hnp, ← hI.d_eq]; exact hle
              · obtain ⟨e', he', hle⟩ := hw.rh i e hi hat' hd0
                by_cases hip : i = pos
                · subst hip
                  have := At.inj he' hy
                  subst this
                  refine ⟨x, (at_set t i i x x).mpr (Or.inl ⟨rfl, hi, rfl⟩), ?_⟩
                  rw [← hI.d_eq]; omega
                · exact ⟨e', (at_set t pos i x e').mpr (Or.inr ⟨hip, he'⟩), hle⟩
            · intro i j e e' hi hj hk
              rcases (at_set t pos i x e).mp hi with ⟨rfl, _, rfl⟩ | ⟨hip, hi'⟩
              · rcases (at_set t i j e e').mp hj with ⟨rfl, _, _⟩ | ⟨_, hj'⟩
                · rfl
                · exact absurd hk.symm (hI.fresh e' ⟨j, hj'⟩)
              · rcases (at_set t pos j x e').mp hj with ⟨rfl, _, rfl⟩ | ⟨_, hj'⟩
                · exact absurd hk (hI.fresh e ⟨i, hi'⟩)
                · exact hw.uniq i j e e' hi' hj' hk
            · intro i e hi
              rcases (at_set t pos i x e).mp hi with ⟨_, _, rfl⟩ | ⟨_, hi'⟩
              · exact hI.xhash
              · exact hw.hash i e hi'
          have hdl := dist_lt x.hash pos t.length hc
          refine ⟨hwf', hw.hash pos y hy, ?_, by simpa using hnl, ?_, ?_, ?_⟩
          · intro e hm hk
            obtain ⟨i, hi⟩ := hm
            rcases (at_set t pos i x e).mp hi with ⟨_, _, rfl⟩ | ⟨hip, hi'⟩
            · exact hyk hk.symm
            · exact hip (hw.uniq i pos e y hi' hy hk)
          · rw [hlen]
            exact (dist_next y.hash pos t.length hc hI.pos_lt (by rw [hI.d_eq] at hsw; omega)).symm
          · intro i hi hnp _
            rw [hlen] at hi hnp ⊢
            have : i = pos := next_inj i pos t.length hi hI.pos_lt hnp
            subst this
            refine ⟨x, (at_set t i i x x).mpr (Or.inl ⟨rfl, hi, rfl⟩), ?_⟩
            rw [← hI.d_eq]; omega
          · rw [hlen]
            exact ⟨q, hq, (free_set t pos q x).mpr ⟨hqp, hfq⟩, by omega⟩
        have hfuel' : ∀ q', q' < (t.set pos (some x)).length → Free (t.set pos (some x)) q' →
            dist (next pos t.length) q' (t.set pos (some x)).length < fuel := by
          intro q' hq' hf'
          rw [hlen] at hq' ⊢
          obtain ⟨hne, hf''⟩ := (free_set t pos q' x).mp hf'
          have := hfuel q' hq' hf''
          have := off_next pos q' t.length hc hI.pos_lt hq' hne
          omega
        obtain ⟨t', hrun, hwf', hlen', hmem, hcnt⟩ := ih _ _ _ _ hI' hfuel'
        rw [hlen] at hrun hlen'
        refine ⟨t', hrun, hwf', hlen', ?_, ?_⟩
        · intro e
          rw [hmem e]
          constructor
          · rintro (⟨i, hi⟩ | rfl)
            · rcases (at_set t pos i x e).mp hi with ⟨_, _, rfl⟩ | ⟨_, hi'⟩
              · exact Or.inr rfl
              · exact Or.inl ⟨i, hi'⟩
            · exact Or.inl ⟨pos, hy⟩
          · rintro (⟨i, hi⟩ | rfl)
            · by_cases hip : i = pos
              · subst hip; exact Or.inr (At.inj hi hy)
              · exact Or.inl ⟨i, (at_set t pos i x e).mpr (Or.inr ⟨hip, hi⟩)⟩
            · exact Or.inl ⟨pos, (at_set t pos pos e e).mpr (Or.inl ⟨rfl, hI.pos_lt, rfl⟩)⟩
        · rw [hcnt, count_set_at t pos x y hy]
      · -- no swap: x moves on
        simp only [hsw, if_false]
        have hdl := dist_lt y.hash pos t.length hc
        have hI' : LoopInv hf t (next pos t.length) (d + 1) x := by
          refine ⟨hw, hI.xhash, hI.fresh, hnl, ?_, ?_, ?_⟩
          · rw [hI.d_eq]
            exact (dist_next x.hash pos t.length hc hI.pos_lt (by rw [← hI.d_eq]; omega)).symm
          · intro i hi hnp _
            have : i = pos := next_inj i pos t.length hi hI.pos_lt hnp
            subst this
            exact ⟨y, hy, by omega⟩
          · exact ⟨q, hq, hfq, by omega⟩
        have hfuel' : ∀ q', q' < t.length → Free t q' → dist (next pos t.length) q' t.length < fuel := by
          intro q' hq' hf'
          have hne : q' ≠ pos := by
            intro h; subst h; unfold Free at hf'; rw [ho] at hf'; simp at hf'
          have := hfuel q' hq' hf'
          have := off_next pos q' t.length hc hI.pos_lt hq' hne
          omega
        exact ih _ _ _ _ hI' hfuel'

end Influx.RHH
