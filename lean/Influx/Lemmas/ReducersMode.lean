/-
  Lemmas.ReducersMode — mode of Model.Reducers reports a most frequent value
  (Spec.C23.modeValueOK), under the value order laws.
-/
import Influx.Lemmas.ReducersTop
import Influx.Lemmas.ReducersSelect
open Influx.Reducers Influx.Spec.C23

namespace Influx.Reducers.Lemmas
variable {V F : Type}

theorem eq_refl' (A : Arith V F) (h : OrdLaws A) (a : V) : A.vo.eq a a = true := by
  simp [h.eq_iff, h.sw.irrefl]

theorem eq_symm' (A : Arith V F) (h : OrdLaws A) (a b : V) : A.vo.eq a b = A.vo.eq b a := by
  simp [h.eq_iff, Bool.and_comm]

theorem lt_congr (A : Arith V F) (h : OrdLaws A) (a b : V) (hab : A.vo.eq a b = true) (x : V) :
    A.vo.lt x a = A.vo.lt x b ∧ A.vo.lt a x = A.vo.lt b x := by
  simp only [h.eq_iff, Bool.and_eq_true, Bool.not_eq_true'] at hab
  have n1 := h.sw.negTrans
  constructor
  · cases h1 : A.vo.lt x a <;> cases h3 : A.vo.lt x b
    · rfl
    · have := n1 x a b h1 hab.1; rw [h3] at this; cases this
    · have := n1 x b a h3 hab.2; rw [h1] at this; cases this
    · rfl
  · cases h2 : A.vo.lt a x <;> cases h4 : A.vo.lt b x
    · rfl
    · have := n1 b a x hab.2 h2; rw [h4] at this; cases this
    · have := n1 a b x hab.1 h4; rw [h2] at this; cases this
    · rfl

/-- equal values are interchangeable on the right of `==` -/
theorem eq_congr_right (A : Arith V F) (h : OrdLaws A) (a b : V) (hab : A.vo.eq a b = true) (x : V) :
    A.vo.eq x a = A.vo.eq x b := by
  have := lt_congr A h a b hab x
  simp only [h.eq_iff, this.1, this.2]

structure ModeInv (A : Arith V F) (Q R : List (Pt V)) (s : ModeSt V) : Prop where
  a : s.currFreq = Q.countP (fun x => A.vo.eq x.v s.currMode)
  b : ∀ x ∈ Q, A.vo.lt s.currMode x.v = false
  c : ∀ r ∈ R, A.vo.lt r.v s.currMode = false
  d : ∀ x ∈ Q, Q.countP (fun y => A.vo.eq y.v x.v) ≤ s.mostFreq
  e : Q ≠ [] → 1 ≤ s.mostFreq
  f : s.mostFreq ≤ Q.countP (fun y => A.vo.eq y.v s.mostMode)
  g : Q ≠ [] → ∃ q ∈ Q, q.v = s.mostMode
  /-- before the first point: `currMode` was initialised from it -/
  z : Q = [] → ∀ r, R.head? = some r → A.vo.eq r.v s.currMode = true

theorem countP_snoc {α : Type} (p : α → Bool) (l : List α) (x : α) :
    (l ++ [x]).countP p = l.countP p + (if p x then 1 else 0) := by
  simp [List.countP_append, List.countP_cons]

theorem mode_step_inv (A : Arith V F) (h : OrdLaws A) (Q R : List (Pt V)) (p : Pt V) (s : ModeSt V)
    (hsorted : List.Pairwise (fun x y => A.vo.lt y.v x.v = false) (Q ++ p :: R))
    (inv : ModeInv A Q (p :: R) s) : ModeInv A (Q ++ [p]) R (modeStep A.vo s p) := by
  have hpw := List.pairwise_append.mp hsorted
  have hQp : ∀ x ∈ Q, A.vo.lt p.v x.v = false := fun x hx => hpw.2.2 x hx p (by simp)
  have hpR : ∀ r ∈ R, A.vo.lt r.v p.v = false := (List.pairwise_cons.mp hpw.2.1).1
  have hcp : A.vo.lt p.v s.currMode = false := inv.c p (by simp)
  unfold modeStep
  by_cases heq : A.vo.eq p.v s.currMode = true
  · -- the run of `currMode` goes on
    simp only [heq, Bool.not_true, Bool.false_eq_true, if_false]
    have hcf : s.currFreq + 1 = (Q ++ [p]).countP (fun x => A.vo.eq x.v s.currMode) := by
      rw [countP_snoc, inv.a]; simp [heq]
    have hcnt : ∀ x : V, (Q ++ [p]).countP (fun y => A.vo.eq y.v x) =
        Q.countP (fun y => A.vo.eq y.v x) + (if A.vo.eq p.v x then 1 else 0) := fun x => countP_snoc _ _ _
    have hb' : ∀ x ∈ Q ++ [p], A.vo.lt s.currMode x.v = false := by
      intro x hx
      rcases List.mem_append.mp hx with hx | hx
      · exact inv.b x hx
      · simp at hx; subst hx
        simp only [h.eq_iff, Bool.and_eq_true, Bool.not_eq_true'] at heq
        exact heq.2
    have hc' : ∀ r ∈ R, A.vo.lt r.v s.currMode = false := fun r hr => inv.c r (by simp [hr])
    have hd_le : ∀ x ∈ Q ++ [p], (Q ++ [p]).countP (fun y => A.vo.eq y.v x.v) ≤ max s.mostFreq (s.currFreq + 1) := by
      intro x hx
      by_cases hxe : A.vo.eq p.v x.v = true
      · -- x has the value of the current run
        have : (fun y : Pt V => A.vo.eq y.v x.v) = (fun y : Pt V => A.vo.eq y.v s.currMode) := by
          funext y
          have h1 := eq_congr_right A h p.v x.v hxe y.v
          have h2 := eq_congr_right A h p.v s.currMode heq y.v
          rw [← h1, h2]
        rw [this, ← hcf]; omega
      · have hxe' : A.vo.eq p.v x.v = false := by simpa using hxe
        rw [hcnt, hxe']
        rcases List.mem_append.mp hx with hx | hx
        · have := inv.d x hx; simp; omega
        · simp at hx; subst hx; rw [eq_refl' A h] at hxe'; cases hxe'
    by_cases hskip : (decide (s.mostFreq > s.currFreq + 1) || (s.mostFreq == s.currFreq + 1 && decide (s.currTime > s.mostTime))) = true
    · simp only [hskip, if_true]
      have hge : s.currFreq + 1 ≤ s.mostFreq := by
        simp only [Bool.or_eq_true, decide_eq_true_eq, Bool.and_eq_true, beq_iff_eq] at hskip
        omega
      exact {
        a := hcf
        b := hb'
        c := hc'
        d := fun x hx => by
          have := hd_le x hx
          show _ ≤ s.mostFreq
          omega
        e := fun _ => by show 1 ≤ s.mostFreq; omega
        f := by
          show s.mostFreq ≤ (Q ++ [p]).countP (fun y => A.vo.eq y.v s.mostMode)
          rw [hcnt]; have := inv.f; omega
        g := fun _ => by
          have hQ : Q ≠ [] := by
            intro hq; subst hq
            have h1 := inv.f; simp at h1; omega
          obtain ⟨q, hq, hqv⟩ := inv.g hQ
          exact ⟨q, by simp [hq], hqv⟩
        z := fun hq => by simp at hq }
    · simp only [hskip, Bool.false_eq_true, if_false]
      have hlt : s.mostFreq ≤ s.currFreq + 1 := by
        simp only [Bool.or_eq_true, decide_eq_true_eq, Bool.and_eq_true, beq_iff_eq, not_or, not_and] at hskip
        omega
      exact {
        a := hcf
        b := hb'
        c := hc'
        d := fun x hx => by have := hd_le x hx; show _ ≤ s.currFreq + 1; omega
        e := fun _ => by show 1 ≤ s.currFreq + 1; omega
        f := by
          show s.currFreq + 1 ≤ (Q ++ [p]).countP (fun y => A.vo.eq y.v p.v)
          have : (fun y : Pt V => A.vo.eq y.v p.v) = (fun y : Pt V => A.vo.eq y.v s.currMode) := by
            funext y; exact eq_congr_right A h p.v s.currMode heq y.v
          rw [this, ← hcf]; omega
        g := fun _ => ⟨p, by simp, rfl⟩
        z := fun hq => by simp at hq }
  · -- a new run starts
    have heq' : A.vo.eq p.v s.currMode = false := by simpa using heq
    simp only [heq', Bool.not_false, if_true]
    -- currMode < p strictly
    have hlt : A.vo.lt s.currMode p.v = true := by
      cases hl : A.vo.lt s.currMode p.v with
      | true => rfl
      | false => simp [h.eq_iff, hl, hcp] at heq'
    -- nothing processed so far has p's value
    have hnone : ∀ x ∈ Q, A.vo.eq x.v p.v = false := by
      intro x hx
      have h1 := inv.b x hx
      -- x ≤ currMode < p ⇒ x < p
      have : A.vo.lt x.v p.v = true := by
        cases hxp : A.vo.lt x.v p.v with
        | true => rfl
        | false =>
          have := h.sw.negTrans s.currMode x.v p.v h1 hxp
          rw [hlt] at this; cases this
      simp [h.eq_iff, this]
    have hzero : Q.countP (fun x => A.vo.eq x.v p.v) = 0 := by
      rw [List.countP_eq_zero]; intro x hx; simp [hnone x hx]
    have hcnt : ∀ x : V, (Q ++ [p]).countP (fun y => A.vo.eq y.v x) =
        Q.countP (fun y => A.vo.eq y.v x) + (if A.vo.eq p.v x then 1 else 0) := fun x => countP_snoc _ _ _
    -- the very first point matches the initial `currMode`, so something was processed
    have hQ : Q ≠ [] := by
      intro hq
      have := inv.z hq p (by simp)
      rw [heq'] at this; cases this
    have hmf : 1 ≤ s.mostFreq := inv.e hQ
    exact {
      a := by
        show 1 = (Q ++ [p]).countP (fun x => A.vo.eq x.v p.v)
        rw [hcnt, hzero, eq_refl' A h]; simp
      b := by
        intro x hx
        show A.vo.lt p.v x.v = false
        rcases List.mem_append.mp hx with hx | hx
        · exact hQp x hx
        · simp at hx; subst hx; exact h.sw.irrefl _
      c := fun r hr => hpR r hr
      d := by
        intro x hx
        show _ ≤ s.mostFreq
        rcases List.mem_append.mp hx with hx | hx
        · rw [hcnt]
          have hpx : A.vo.eq p.v x.v = false := by rw [eq_symm' A h]; exact hnone x hx
          have := inv.d x hx
          simp [hpx]; omega
        · simp at hx; subst hx
          rw [hcnt, hzero, eq_refl' A h]
          simp; omega
      e := fun _ => hmf
      f := by
        show s.mostFreq ≤ (Q ++ [p]).countP (fun y => A.vo.eq y.v s.mostMode)
        rw [hcnt]; have := inv.f; omega
      g := fun _ => by
        show ∃ q ∈ Q ++ [p], q.v = s.mostMode
        obtain ⟨q, hq, hqv⟩ := inv.g hQ
        exact ⟨q, by simp [hq], hqv⟩
      z := fun hq => by simp at hq }

theorem mode_fold_inv (A : Arith V F) (h : OrdLaws A) (R : List (Pt V)) : ∀ (Q : List (Pt V)) (s : ModeSt V),
    List.Pairwise (fun x y => A.vo.lt y.v x.v = false) (Q ++ R) → ModeInv A Q R s →
      ModeInv A (Q ++ R) [] (R.foldl (modeStep A.vo) s) := by
  induction R with
  | nil => intro Q s _ inv; simpa using inv
  | cons p R ih =>
    intro Q s hs inv
    simp only [List.foldl_cons]
    have := ih (Q ++ [p]) (modeStep A.vo s p) (by simpa using hs) (mode_step_inv A h Q R p s hs inv)
    simpa using this

/-- what the statement requires of a mode observation, the documented tie rule left out -/
def modeOK (A : Arith V F) (xs : List (Pt V)) (out : List (Pt V)) : Bool :=
  match out with
  | [p] => modeValueOK A xs p.v && (decide (p.t = zeroTime) || decide (xs.map (·.t) = [p.t]))
  | _ => false

/-- **mode** under the value order laws: the reducer reports a value of maximal frequency -/
theorem mode_ok (A : Arith V F) (h : OrdLaws A) (xs : List (Pt V)) (hne : xs ≠ []) :
    modeOK A xs (mode A.vo xs) = true := by
  match xs, hne with
  | [p], _ =>
    simp [mode, modeOK, modeValueOK, freq, A.eqvV_refl]
  | p :: q :: r, _ =>
    have hsw := ptLt_strictWeak A h.sw
    have hperm : (sortByValue A.vo (p :: q :: r)).Perm (p :: q :: r) := insertionSort_perm _ _
    have hsorted : List.Pairwise (fun a b => A.vo.lt b.v a.v = false) (sortByValue A.vo (p :: q :: r)) :=
      insertionSort_sorted hsw _
    simp only [mode]
    cases hsort : sortByValue A.vo (p :: q :: r) with
    | nil => have := hperm.length_eq; rw [hsort] at this; simp at this
    | cons a0 rest =>
      rw [hsort] at hperm hsorted
      simp only
      have inv0 : ModeInv A [] (a0 :: rest)
          ({ currMode := a0.v, mostMode := a0.v, mostTime := a0.t, currTime := a0.t } : ModeSt V) :=
        { a := by simp
          b := by intro x hx; cases hx
          c := by
            intro r hr
            rcases List.mem_cons.mp hr with rfl | hr
            · exact h.sw.irrefl _
            · exact (List.pairwise_cons.mp hsorted).1 r hr
          d := by intro x hx; cases hx
          e := by intro hq; exact absurd rfl hq
          f := by simp
          g := by intro hq; exact absurd rfl hq
          z := by intro _ r hr; simp at hr; subst hr; exact eq_refl' A h _ }
      have inv := mode_fold_inv A h (a0 :: rest) [] _ (by simpa using hsorted) inv0
      simp only [List.nil_append] at inv
      obtain ⟨qm, hqm, hqv⟩ := inv.g (by simp)
      have hqm' : qm ∈ p :: q :: r := hperm.mem_iff.mp hqm
      simp only [modeOK, decide_true, Bool.true_or, Bool.and_true, modeValueOK, Bool.and_eq_true,
        List.any_eq_true, List.all_eq_true, decide_eq_true_eq]
      refine ⟨⟨qm, hqm', by rw [hqv]; exact A.eqvV_refl _⟩, ?_⟩
      intro x hx
      have hx' : x ∈ a0 :: rest := hperm.mem_iff.mpr hx
      have h1 := inv.d x hx'
      have h2 := inv.f
      simp only [freq]
      rw [← hperm.countP_eq, ← hperm.countP_eq]
      omega

end Influx.Reducers.Lemmas
