/-
  Lemmas.TsmCrash — crash atomicity of the tombstone commit in the file-system model:
  at every crash point of `prepareV4 … commit` the restart finds, under the tombstone
  name, the old bytes or the complete new bytes.
-/
import Influx.Model.TsmTombBytes

namespace Influx.Tsm

def run (fs : FS) (steps : List FSStep) : FS := steps.foldl fsStep fs

theorem prefix_nil {p s : Bytes} (h : ([] : Bytes) = p ++ s) : p = [] := by
  cases p with
  | nil => rfl
  | cons a l => simp at h

section
variable (tomb tmp : String) (hne : tomb ≠ tmp)
variable (dir0 : Dir) (inodes0 : Nat → Inode) (i : Nat)

/-- the bytes under the tombstone name before the commit -/
def oldBytes : Option Bytes := (dir0 tomb).map fun j => (inodes0 j).durable

/-- between `create` and `rename`: `w` has been appended to the tmp file -/
structure Phase1 (fs : FS) (w : Bytes) : Prop where
  ddir : fs.ddir = dir0
  dpend : fs.dpend = [.link tmp i]
  dir : fs.dir = dir0.set tmp i
  tmpW : (fs.inodes i).durable ++ (fs.inodes i).pending.flatten = w
  others : ∀ j, j ≠ i → fs.inodes j = inodes0 j

/-- every crash of `fs` restarts with the old bytes or with `new` under the tombstone name -/
def Good (fs : FS) (new : Bytes) : Prop :=
  ∀ fs', CrashOf fs fs' → readDurable fs' tomb = oldBytes tomb dir0 inodes0 ∨ readDurable fs' tomb = some new

/-- the tombstone file's inode, if any, is not the tmp inode and has nothing unsynced -/
def OldOK : Prop := ∀ j, dir0 tomb = some j → j ≠ i ∧ (inodes0 j).pending = []

include hne in
/-- as long as the directory on disk still maps the tombstone name to the old inode, the old bytes are read -/
theorem old_read (hold : OldOK tomb dir0 inodes0 i) (fs fs' : FS) (hc : CrashOf fs fs')
    (hlook : fs'.ddir tomb = dir0 tomb) (hothers : ∀ j, j ≠ i → fs.inodes j = inodes0 j) :
    readDurable fs' tomb = oldBytes tomb dir0 inodes0 := by
  unfold readDurable oldBytes Dir.lookup
  rw [hlook]
  cases hl : dir0 tomb with
  | none => rfl
  | some j =>
    obtain ⟨hji, hp⟩ := hold j hl
    obtain ⟨p, s, hps, hdur⟩ := hc.data j
    rw [hothers j hji, hp] at hps
    simp only [List.flatten_nil] at hps
    simp only [Option.map_some]
    rw [hdur, prefix_nil hps, hothers j hji]; simp

include hne in
theorem phase1_good (hold : OldOK tomb dir0 inodes0 i) (fs : FS) (w new : Bytes)
    (h : Phase1 tmp dir0 inodes0 i fs w) : Good tomb dir0 inodes0 fs new := by
  intro fs' hc
  left
  apply old_read tomb tmp hne dir0 inodes0 i hold fs fs' hc _ h.others
  obtain ⟨k, _, hd⟩ := hc.dir
  rw [h.dpend, h.ddir] at hd
  rw [hd]
  match k with
  | 0 => rfl
  | k + 1 =>
    simp only [List.take_succ_cons, List.take_nil, List.foldl_cons, List.foldl_nil, applyDirOp, Dir.set]
    simp [hne]

include hne in
/-- fsync, rename, SyncDir from a Phase-1 state, cut anywhere -/
theorem commit_tail (hold : OldOK tomb dir0 inodes0 i) (fs : FS) (w : Bytes)
    (h : Phase1 tmp dir0 inodes0 i fs w) (k : Nat) :
    Good tomb dir0 inodes0 (run fs (([.fsync tmp, .rename tmp tomb, .syncDir] : List FSStep).take k)) w := by
  have hlk : fs.dir.lookup tmp = some i := by rw [h.dir]; simp [Dir.lookup, Dir.set]
  -- after fsync
  have h1 : Phase1 tmp dir0 inodes0 i (fsStep fs (.fsync tmp)) w := by
    simp only [fsStep, hlk]
    refine ⟨h.ddir, h.dpend, h.dir, ?_, ?_⟩
    · simp [setInode, h.tmpW]
    · intro j hj; simp [setInode, hj, h.others j hj]
  have hsynced : ((fsStep fs (.fsync tmp)).inodes i).durable = w ∧ ((fsStep fs (.fsync tmp)).inodes i).pending = [] := by
    refine ⟨?_, ?_⟩ <;> simp [fsStep, hlk, setInode, h.tmpW]
  match k with
  | 0 => exact phase1_good tomb tmp hne dir0 inodes0 i hold fs w w h
  | 1 => exact phase1_good tomb tmp hne dir0 inodes0 i hold _ w w h1
  | k + 2 =>
    -- renamed (k = 0) or renamed and directory synced (k ≥ 1)
    generalize hg : fsStep fs (.fsync tmp) = g at h1 hsynced
    have hnewdir : ∀ d : Dir, d = dir0 → (applyDirOp (applyDirOp d (.link tmp i)) (.rename tmp tomb)) tomb = some i := by
      intro d _
      simp [applyDirOp, Dir.lookup, Dir.set, Dir.remove]
    intro fs' hc
    have key : fs'.ddir tomb = dir0 tomb ∨ fs'.ddir tomb = some i := by
      obtain ⟨kk, hkk, hd⟩ := hc.dir
      match k with
      | 0 =>
        simp only [List.take_succ_cons, List.take_zero, run, List.foldl_cons, List.foldl_nil, hg] at hd hkk
        simp only [fsStep, h1.dpend, h1.ddir, List.cons_append, List.nil_append, List.length_cons, List.length_nil] at hd hkk
        rw [hd]
        match kk with
        | 0 => left; rfl
        | 1 =>
          left
          simp only [List.take_succ_cons, List.take_zero, List.foldl_cons, List.foldl_nil, applyDirOp, Dir.set]
          simp [hne]
        | 2 =>
          right
          simp only [List.take_succ_cons, List.take_zero, List.foldl_cons, List.foldl_nil]
          exact hnewdir dir0 rfl
        | kk + 3 => omega
      | k + 1 =>
        simp only [List.take_succ_cons, List.take_nil, run, List.foldl_cons, List.foldl_nil, hg] at hd hkk
        simp only [fsStep, h1.dpend, h1.ddir, List.cons_append, List.nil_append, List.length_nil, Nat.le_zero] at hd hkk
        subst hkk
        right
        rw [hd]
        simp only [List.take_zero, List.foldl_cons, List.foldl_nil]
        exact hnewdir dir0 rfl
    -- inodes are untouched by rename / SyncDir
    have hin : ∀ st : List FSStep, (st = [.rename tmp tomb] ∨ st = [.rename tmp tomb, .syncDir]) →
        (run g st).inodes = g.inodes := by
      intro st hst
      rcases hst with rfl | rfl <;> simp [run, fsStep]
    have hsteps : (run fs (([.fsync tmp, .rename tmp tomb, .syncDir] : List FSStep).take (k + 2))).inodes = g.inodes := by
      match k with
      | 0 => simp only [List.take_succ_cons, List.take_zero, run, List.foldl_cons, List.foldl_nil, hg]; rfl
      | k + 1 => simp only [List.take_succ_cons, List.take_nil, run, List.foldl_cons, List.foldl_nil, hg]; rfl
    rcases key with hk | hk
    · left
      apply old_read tomb tmp hne dir0 inodes0 i hold _ fs' hc hk
      intro j hj; rw [hsteps]; exact h1.others j hj
    · right
      unfold readDurable Dir.lookup
      rw [hk]
      simp only [Option.map_some]
      obtain ⟨p, s, hps, hdur⟩ := hc.data i
      rw [hsteps] at hps hdur
      rw [hsynced.2] at hps
      simp only [List.flatten_nil] at hps
      rw [hdur, prefix_nil hps, hsynced.1]; simp

include hne in
/-- the writes of the new member in chunks, then the commit, cut anywhere -/
theorem phase1_run (hold : OldOK tomb dir0 inodes0 i) (chunks : List Bytes) :
    ∀ (fs : FS) (w : Bytes), Phase1 tmp dir0 inodes0 i fs w → ∀ k,
      Good tomb dir0 inodes0
        (run fs ((chunks.map (FSStep.append tmp) ++ [FSStep.fsync tmp, FSStep.rename tmp tomb, FSStep.syncDir]).take k))
        (w ++ chunks.flatten) := by
  induction chunks with
  | nil =>
    intro fs w h k
    simpa using commit_tail tomb tmp hne dir0 inodes0 i hold fs w h k
  | cons c cs ih =>
    intro fs w h k
    match k with
    | 0 => exact phase1_good tomb tmp hne dir0 inodes0 i hold fs w _ h
    | k + 1 =>
      have hlk : fs.dir.lookup tmp = some i := by rw [h.dir]; simp [Dir.lookup, Dir.set]
      have hnext : Phase1 tmp dir0 inodes0 i (fsStep fs (.append tmp c)) (w ++ c) := by
        simp only [fsStep, hlk]
        refine ⟨h.ddir, h.dpend, h.dir, ?_, ?_⟩
        · simp [setInode, ← h.tmpW]
        · intro j hj; simp [setInode, hj, h.others j hj]
      have := ih (fsStep fs (.append tmp c)) (w ++ c) hnext k
      simpa [run, List.append_assoc] using this

/-- the file system before `prepareV4`: nothing pending in the directory, no tmp file,
    the tombstone file (if any) fully synced -/
structure Quiescent (fs : FS) : Prop where
  dir : fs.dir = dir0
  ddir : fs.ddir = dir0
  dpend : fs.dpend = []
  next : fs.next = i
  inodes : fs.inodes = inodes0
  noTmp : dir0 tmp = none

include hne in
/-- **Crash atomicity of the tombstone commit.**  Cut the protocol after any number of
    steps and crash: under the tombstone name the restart finds the old bytes (or no
    file, if there was none) or exactly the old-copy + new member. -/
theorem commit_crash_atomic (hold : OldOK tomb dir0 inodes0 i) (fs : FS)
    (hq : Quiescent tmp dir0 inodes0 i fs) (base : Bytes) (chunks : List Bytes) (k : Nat) :
    Good tomb dir0 inodes0 (run fs ((commitSteps tomb tmp base chunks).take k)) (base ++ chunks.flatten) := by
  unfold commitSteps
  match k with
  | 0 =>
    intro fs' hc
    simp only [List.take_zero, run, List.foldl_nil] at hc
    left
    apply old_read tomb tmp hne dir0 inodes0 i hold fs fs' hc
    · obtain ⟨kk, hkk, hd⟩ := hc.dir
      rw [hq.dpend] at hd
      simp only [List.take_nil, List.foldl_nil] at hd
      rw [hd, hq.ddir]
    · intro j _; rw [hq.inodes]
  | 1 =>
    have h1 : Phase1 tmp dir0 inodes0 i (fsStep fs (.create tmp)) [] := by
      simp only [fsStep, hq.next]
      refine ⟨hq.ddir, by simp [hq.dpend], by rw [hq.dir], by simp [setInode], ?_⟩
      intro j hj; simp [setInode, hj, hq.inodes]
    simpa [run] using phase1_good tomb tmp hne dir0 inodes0 i hold _ [] (base ++ chunks.flatten) h1
  | k + 2 =>
    have h1 : Phase1 tmp dir0 inodes0 i (fsStep fs (.create tmp)) [] := by
      simp only [fsStep, hq.next]
      refine ⟨hq.ddir, by simp [hq.dpend], by rw [hq.dir], by simp [setInode], ?_⟩
      intro j hj; simp [setInode, hj, hq.inodes]
    have hlk : (fsStep fs (.create tmp)).dir.lookup tmp = some i := by rw [h1.dir]; simp [Dir.lookup, Dir.set]
    have h2 : Phase1 tmp dir0 inodes0 i (fsStep (fsStep fs (.create tmp)) (.append tmp base)) base := by
      generalize fsStep fs (.create tmp) = g at h1 hlk
      simp only [fsStep, hlk]
      refine ⟨h1.ddir, h1.dpend, h1.dir, ?_, ?_⟩
      · have := h1.tmpW
        simp only [setInode, if_true, List.flatten_append, List.flatten_cons, List.flatten_nil, List.append_nil]
        rw [← List.append_assoc, this]; simp
      · intro j hj; simp [setInode, hj, h1.others j hj]
    have := phase1_run tomb tmp hne dir0 inodes0 i hold chunks _ base h2 k
    simpa [run] using this

end

end Influx.Tsm
