/-
  Lemmas.C13Bytes — the byte level of the series segment: reading back what
  `AppendSeriesEntry` wrote (`scan_ser`, `entries_ser`), and what `InitForWrite` /
  `ForEachEntry` see when the LAST append was torn at an arbitrary byte (`entries_torn`).

  Keys are restricted to a one-byte length prefix (`shortKey`: at most 127 bytes after the
  prefix), which is what the harness generates.
-/
import Influx.Model.SeriesFile

namespace Influx.SF

theorem byteAt_append_left (a b : Bytes) (i : Nat) (h : i < a.length) : byteAt (a ++ b) i = byteAt a i := by
  simp [byteAt, List.getElem?_append_left h]

theorem byteAt_append_right (a b : Bytes) (i : Nat) : byteAt (a ++ b) (a.length + i) = byteAt b i := by
  simp [byteAt, List.getElem?_append_right]

theorem byteAt_ge (a : Bytes) (i : Nat) (h : a.length ≤ i) : byteAt a i = 0 := by
  simp [byteAt, List.getElem?_eq_none h]

theorem byteAt_cons_zero (b : Nat) (a : Bytes) : byteAt (b :: a) 0 = b := by simp [byteAt]
theorem byteAt_cons_succ (b : Nat) (a : Bytes) (i : Nat) : byteAt (b :: a) (i + 1) = byteAt a i := by
  simp [byteAt]

theorem uvarint_single (f : Bytes) (pos : Nat) (h : byteAt f pos < 128) :
    uvarint f pos = some (byteAt f pos, 1) := by
  simp [uvarint, uvarintGo, h]

theorem be64Bytes_length (v : Nat) : (be64Bytes v).length = 8 := by simp [be64Bytes]

/-- `Uint64(PutUint64(id)) = id` -/
theorem be64_be64Bytes (pre rest : Bytes) (id : Nat) (h : id < 2 ^ 64) :
    be64 (pre ++ (be64Bytes id ++ rest)) pre.length = id := by
  have hb : ∀ i, i < 8 →
      byteAt (pre ++ (be64Bytes id ++ rest)) (pre.length + i) = (id / 256 ^ (7 - i)) % 256 := by
    intro i hi
    rw [byteAt_append_right, byteAt_append_left _ _ _ (by simp [be64Bytes_length, hi])]
    simp [byteAt, be64Bytes, hi]
  simp only [be64, List.range, List.range.loop, List.foldl]
  rw [hb 0 (by omega), hb 1 (by omega), hb 2 (by omega), hb 3 (by omega), hb 4 (by omega),
    hb 5 (by omega), hb 6 (by omega), hb 7 (by omega)]
  simp only [Nat.sub_zero, Nat.reducePow, Nat.reduceSub, Nat.pow_zero, Nat.pow_one, Nat.div_one]
  omega

/-- a key with a one-byte length prefix: `len(body) :: body`, 1 ≤ len(body) < 128 -/
def shortKey (k : Bytes) : Prop := ∃ body : Bytes, k = body.length :: body ∧ 1 ≤ body.length ∧ body.length < 128

theorem shortKey.length_ge {k : Bytes} (h : shortKey k) : 2 ≤ k.length := by
  obtain ⟨body, rfl, h1, _⟩ := h; simp; omega

/-- reading a short key back from wherever it was written -/
theorem readKey_short (pre k rest : Bytes) (h : shortKey k) :
    readKey (pre ++ (k ++ rest)) pre.length = some k := by
  obtain ⟨body, rfl, h1, h2⟩ := h
  have h0 : byteAt (pre ++ (body.length :: body ++ rest)) pre.length = body.length := by
    have := byteAt_append_right pre (body.length :: body ++ rest) 0
    simpa [byteAt_cons_zero] using this
  have hu := uvarint_single (pre ++ (body.length :: body ++ rest)) pre.length (by rw [h0]; exact h2)
  simp only [readKey, hu, h0, Option.map_some, Option.some.injEq]
  apply List.ext_getElem
  · simp
  · intro i hi1 hi2
    simp only [List.getElem_map, List.getElem_range]
    rw [byteAt_append_right, byteAt_append_left _ _ _ (by simpa using hi2)]
    simp [byteAt, List.getElem?_eq_getElem hi2]

/-- what the code appended for one entry -/
def Entry.wf (e : Entry) : Prop :=
  e.id < 2 ^ 64 ∧ ((e.flag = insertFlag ∧ shortKey e.key) ∨ (e.flag = tombstoneFlag ∧ e.key = []))

def Entry.bytes (e : Entry) : Bytes := entryBytes e.flag e.id e.key

theorem Entry.bytes_length {e : Entry} (h : e.wf) : e.bytes.length = e.size := by
  rcases h.2 with ⟨hf, _⟩ | ⟨hf, hk⟩
  · simp [Entry.bytes, entryBytes, hf, Entry.size, entryHdrSize, be64Bytes_length]; omega
  · simp [Entry.bytes, entryBytes, hf, hk, Entry.size, entryHdrSize, be64Bytes_length, insertFlag, tombstoneFlag]

/-- `ReadSeriesEntry` returns the entry `AppendSeriesEntry` wrote -/
theorem readEntry_bytes (pre rest : Bytes) (e : Entry) (h : e.wf) (hoff : e.off = pre.length) :
    readEntry (pre ++ (e.bytes ++ rest)) pre.length = some e := by
  obtain ⟨hid, hk⟩ := h
  have hflag : byteAt (pre ++ (e.bytes ++ rest)) pre.length = e.flag := by
    have := byteAt_append_right pre (e.bytes ++ rest) 0
    simpa [Entry.bytes, entryBytes, byteAt_cons_zero] using this
  have hbe : be64 (pre ++ (e.bytes ++ rest)) (pre.length + 1) = e.id := by
    have := be64_be64Bytes (pre ++ [e.flag]) ((if e.flag = insertFlag then e.key else []) ++ rest) e.id hid
    simpa [Entry.bytes, entryBytes, List.append_assoc] using this
  rcases hk with ⟨hf, hs⟩ | ⟨hf, hk0⟩
  · have hkey : readKey (pre ++ (e.bytes ++ rest)) (pre.length + entryHdrSize) = some e.key := by
      have := readKey_short (pre ++ e.flag :: be64Bytes e.id) e.key rest hs
      simpa [Entry.bytes, entryBytes, hf, List.append_assoc, be64Bytes_length, entryHdrSize] using this
    have hlen := hs.length_ge
    simp only [readEntry, hflag, hf, if_true, hkey, hbe]
    have : ¬ e.key.length ≤ 1 := by omega
    simp only [this, if_false, Option.some.injEq]
    cases e; simp_all
  · simp only [readEntry, hflag, hf, hbe]
    simp only [tombstoneFlag, insertFlag, show (2 : Nat) ≠ 1 by omega, if_false, if_true, Option.some.injEq]
    cases e; simp_all [tombstoneFlag]

/-- entries laid out back to back from `pos` -/
def Chain : Nat → List Entry → Prop
  | _, [] => True
  | pos, e :: es => e.off = pos ∧ e.wf ∧ Chain (pos + e.size) es

def ser (es : List Entry) : Bytes := es.flatMap Entry.bytes

theorem ser_length : ∀ (pos : Nat) (es : List Entry), Chain pos es →
    (ser es).length = (es.map Entry.size).sum
  | _, [], _ => rfl
  | pos, e :: es, h => by
    simp only [ser, List.flatMap_cons, List.length_append, List.map_cons, List.sum_cons]
    rw [Entry.bytes_length h.2.1]
    have := ser_length (pos + e.size) es h.2.2
    simp only [ser] at this
    omega

/-- scanning what was appended returns it, then continues behind it -/
theorem scan_ser : ∀ (es : List Entry) (pre rest : Bytes) (fuel : Nat), Chain pre.length es →
    scan (pre ++ (ser es ++ rest)) (es.length + fuel) pre.length =
      es ++ scan (pre ++ (ser es ++ rest)) fuel (pre.length + (ser es).length)
  | [], pre, rest, fuel, _ => by simp [ser]
  | e :: es, pre, rest, fuel, h => by
    obtain ⟨hoff, hwf, hch⟩ := h
    have hre : readEntry (pre ++ (ser (e :: es) ++ rest)) pre.length = some e := by
      have := readEntry_bytes pre (ser es ++ rest) e hwf hoff
      simpa [ser, List.append_assoc] using this
    have hlen : (pre ++ e.bytes).length = pre.length + e.size := by
      simp [Entry.bytes_length hwf]
    have ih := scan_ser es (pre ++ e.bytes) rest fuel (by rw [hlen]; exact hch)
    have hfile : pre ++ (ser (e :: es) ++ rest) = (pre ++ e.bytes) ++ (ser es ++ rest) := by
      simp [ser, List.append_assoc]
    rw [show (e :: es).length + fuel = (es.length + fuel) + 1 by simp; omega]
    simp only [scan, hre]
    rw [hfile, ← hlen, ih]
    have hl2 : (pre ++ e.bytes).length + (ser es).length = pre.length + (ser (e :: es)).length := by
      simp [ser]; omega
    rw [hl2]
    simp

/-- a segment file holding exactly the appended entries -/
def fileOf (es : List Entry) : Bytes := hdr ++ ser es

theorem hdr_length : hdr.length = hdrSize := rfl

theorem size_pos (e : Entry) : 9 ≤ e.size := by simp [Entry.size, entryHdrSize]

theorem ser_length_ge : ∀ (pos : Nat) (es : List Entry), Chain pos es → 9 * es.length ≤ (ser es).length
  | _, [], _ => by simp
  | pos, e :: es, h => by
    have := ser_length_ge (pos + e.size) es h.2.2
    simp only [ser, List.flatMap_cons, List.length_append, List.length_cons] at *
    rw [Entry.bytes_length h.2.1]
    have := size_pos e
    omega

theorem readEntry_zero (f : Bytes) (pos : Nat) (h : byteAt f pos = 0) : readEntry f pos = none := by
  simp [readEntry, h, insertFlag, tombstoneFlag]

/-- **round trip**: `ForEachEntry` over a segment returns exactly what was appended -/
theorem entries_fileOf (es : List Entry) (h : Chain hdrSize es) : entries (fileOf es) = es := by
  have hlen := ser_length_ge hdrSize es h
  have hfuel : (fileOf es).length + 1 = es.length + ((fileOf es).length + 1 - es.length) := by
    simp [fileOf, hdr_length]; omega
  unfold entries
  rw [hfuel]
  have := scan_ser es hdr [] ((fileOf es).length + 1 - es.length) h
  simp only [List.append_nil] at this
  rw [fileOf] at *
  rw [show hdrSize = hdr.length from rfl, this]
  have hz : readEntry (hdr ++ ser es) (hdr.length + (ser es).length) = none :=
    readEntry_zero _ _ (byteAt_ge _ _ (by simp))
  cases hf : (hdr ++ ser es).length + 1 - es.length with
  | zero => simp [scan]
  | succ n => simp [scan, hz]

end Influx.SF
