/-
  Lemmas.TsmSpecFile — the statement checker accepts the model's trace of: writing a
  well-formed list of keys and blocks, `WriteIndex`, opening the file, and any sequence of
  index lookups (key count, key-at, key, seek, contains, entries, type, key range,
  contains-value).  Part 1: the model side.
-/
import Influx.Model.TsmOps
import Influx.Spec.C08
import Influx.Lemmas.TsmWriter
import Influx.Lemmas.TsmLookup
import Influx.Lemmas.TsmSpecTs

namespace Influx.Tsm
open Influx.Spec.C08

def flatWrites (kbs : List (Key × List Blk)) : List (Key × Blk) :=
  kbs.flatMap fun kb => kb.2.map fun b => (kb.1, b)

def wOp (p : Key × Blk) : Op := .wb p.1 p.2.minT p.2.maxT p.2.data none

def runOps (s : State) (ops : List Op) : State := ops.foldl (fun s op => (step s op).1) s

theorem traceFrom_append (s : State) (a b : List Op) :
    traceFrom s (a ++ b) = traceFrom s a ++ traceFrom (runOps s a) b := by
  induction a generalizing s with
  | nil => rfl
  | cons op a ih => simp [traceFrom, runOps, ih]

/-- the writer state after a flat list of writes -/
def flatW (crc : Bytes → Nat) (w : WState) (ps : List (Key × Blk)) : WState :=
  ps.foldl (fun w p => (writeBlock crc w p.1 p.2.minT p.2.maxT p.2.data).1) w

def flatAns (crc : Bytes → Nat) (w : WState) : List (Key × Blk) → List WAns
  | [] => []
  | p :: ps => (writeBlock crc w p.1 p.2.minT p.2.maxT p.2.data).2 ::
      flatAns crc (writeBlock crc w p.1 p.2.minT p.2.maxT p.2.data).1 ps

theorem writeKey_flat (crc : Bytes → Nat) (k : Key) (bs : List Blk) : ∀ w : WState,
    (writeKey crc w k bs).1 = flatW crc w (bs.map fun b => (k, b)) ∧
    (writeKey crc w k bs).2 = flatAns crc w (bs.map fun b => (k, b)) := by
  induction bs with
  | nil => intro w; simp [writeKey, flatW, flatAns]
  | cons b bs ih =>
    intro w
    rw [writeKey_cons]
    obtain ⟨h1, h2⟩ := ih (writeBlock crc w k b.minT b.maxT b.data).1
    simp only [List.map_cons, flatW, List.foldl_cons, flatAns]
    exact ⟨by rw [h1]; rfl, by rw [h2]⟩

theorem flatW_append (crc : Bytes → Nat) (w : WState) (a b : List (Key × Blk)) :
    flatW crc w (a ++ b) = flatW crc (flatW crc w a) b := by simp [flatW]

theorem flatAns_append (crc : Bytes → Nat) (a b : List (Key × Blk)) : ∀ w : WState,
    flatAns crc w (a ++ b) = flatAns crc w a ++ flatAns crc (flatW crc w a) b := by
  induction a with
  | nil => intro w; rfl
  | cons p a ih => intro w; simp [flatAns, flatW, ih]

theorem writeAll_flat_from (crc : Bytes → Nat) (kbs : List (Key × List Blk)) : ∀ (w : WState),
    (kbs.foldl (fun acc kb => let r := writeKey crc acc.1 kb.1 kb.2; (r.1, acc.2 ++ r.2)) (w, [])).1 =
        flatW crc w (flatWrites kbs) ∧
    (kbs.foldl (fun acc kb => let r := writeKey crc acc.1 kb.1 kb.2; (r.1, acc.2 ++ r.2)) (w, [])).2 =
        flatAns crc w (flatWrites kbs) := by
  induction kbs with
  | nil => intro w; simp [flatWrites, flatW, flatAns]
  | cons kb kbs ih =>
    intro w
    simp only [List.foldl_cons]
    rw [writeAll_acc]
    obtain ⟨h1, h2⟩ := ih (writeKey crc w kb.1 kb.2).1
    obtain ⟨k1, k2⟩ := writeKey_flat crc kb.1 kb.2 w
    simp only [flatWrites, List.flatMap_cons] at h1 h2 ⊢
    rw [flatW_append, flatAns_append, ← k1, ← k2]
    exact ⟨h1, by rw [h2]; simp⟩

theorem writeAll_flat (crc : Bytes → Nat) (kbs : List (Key × List Blk)) :
    (writeAll crc kbs).1 = flatW crc {} (flatWrites kbs) ∧ (writeAll crc kbs).2 = flatAns crc {} (flatWrites kbs) :=
  writeAll_flat_from crc kbs {}

/-- the model stepping through accepted writes: only the writer state changes, every answer is ok -/
theorem model_writes (ps : List (Key × Blk)) : ∀ (s : State), s.wdead = false →
    (∀ a ∈ flatAns s.crc s.w ps, a = WAns.ok) →
    runOps s (ps.map wOp) = { s with w := flatW s.crc s.w ps } ∧
    traceFrom s (ps.map wOp) = ps.map fun p => (wOp p, Ans.ok) := by
  induction ps with
  | nil => intro s _ _; simp [runOps, flatW, traceFrom]
  | cons p ps ih =>
    intro s hd hans
    have h0 : (writeBlock s.crc s.w p.1 p.2.minT p.2.maxT p.2.data).2 = .ok := hans _ (by simp [flatAns])
    have hstep : step s (wOp p) = ({ s with w := (writeBlock s.crc s.w p.1 p.2.minT p.2.maxT p.2.data).1 }, .ok) := by
      simp only [wOp, step, hd, Bool.false_eq_true, if_false, writerStep]
      cases hw : writeBlock s.crc s.w p.1 p.2.minT p.2.maxT p.2.data with
      | mk w' a =>
        rw [hw] at h0
        simp only at h0
        subst h0
        simp [WAns.toAns]
    obtain ⟨i1, i2⟩ := ih { s with w := (writeBlock s.crc s.w p.1 p.2.minT p.2.maxT p.2.data).1 } hd
      (by intro a ha; exact hans a (by simp [flatAns]; exact Or.inr ha))
    simp only [List.map_cons, runOps, List.foldl_cons, traceFrom, hstep]
    refine ⟨?_, ?_⟩
    · have := i1; simp only [runOps] at this; rw [this]; simp [flatW]
    · rw [i2]

end Influx.Tsm
