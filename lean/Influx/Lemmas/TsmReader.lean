/-
  Lemmas.TsmReader — the reader level: `NewTSMReader` (apply the tombstone file),
  `TSMReader.DeleteRange` (batch: filter, append a member to the tombstone file, apply)
  and `TSMReader.Delete`.  `Req` is the list of all acknowledged requests (k, lo, hi).
  `RInv file r Req` says: the index hides exactly what `Req` asks for, and the tombstone
  file holds every request that matters — so re-opening the file restores the same.
-/
import Influx.Lemmas.TsmApply
import Influx.Lemmas.TsmVisible

namespace Influx.Tsm

/-- every tombstone of the file, in order (= `allTombs` of Model/TsmOps) -/
def fileTombs (f : TFile) : List Tombstone := (f.getD []).flatten

def fileReqs (f : TFile) : Hist := (fileTombs f).map toReq

/-- a request that can hide something: its key is in the file and its range meets the key's span -/
def matters (all : List KeyEntry) (q : Key × Int × Int) : Prop :=
  ∃ ke ∈ all, ke.key = q.1 ∧ ∃ t, q.2.1 ≤ t ∧ t ≤ q.2.2 ∧ spanIn ke t

structure RInv (file : TFile) (r : Reader) (Req : Hist) : Prop where
  nopend : r.ts.pending = none
  applied : r.ts.lastApplied ≤ (file.getD []).length
  idx : ∃ H, TInv r.ix H ∧ (∀ q ∈ H, q ∈ Req) ∧ (∀ q ∈ Req, matters r.ix.all q → q ∈ H)
  fileSub : ∀ q ∈ fileReqs file, q ∈ Req
  filePersist : ∀ q ∈ Req, matters r.ix.all q → q ∈ fileReqs file

/-! ### `.all` never changes -/

theorem deleteRange_all (ix : Index) (keys : List Key) (lo hi : Int) : (deleteRange ix keys lo hi).all = ix.all := by
  unfold deleteRange
  split
  · rfl
  · split
    · exact (delete_fields ix _).2.1
    · split
      · rfl
      · simp only
        split
        · rfl
        · exact (delete_fields ix _).2.1

theorem abStep_all (s : ABState) (t : Tombstone) : (abStep s t).ix.all = s.ix.all := by
  unfold abStep
  simp only
  split <;> split <;> simp [deleteRange_all]

theorem foldl_abStep_all (ws : List Tombstone) (s : ABState) : (ws.foldl abStep s).ix.all = s.ix.all := by
  induction ws generalizing s with
  | nil => rfl
  | cons t ws ih => simp only [List.foldl_cons]; rw [ih, abStep_all]

theorem applyWalked_all (ix : Index) (ws : List Tombstone) : (applyWalked ix ws).all = ix.all := by
  unfold applyWalked
  simp only
  split
  · exact foldl_abStep_all ws _
  · rw [deleteRange_all]; exact foldl_abStep_all ws _

theorem applyTombstones_eq (file : TFile) (r : Reader) :
    applyTombstones file r =
      { r with ix := applyWalked r.ix (tWalk file r.ts).1, ts := (tWalk file r.ts).2 } := by
  unfold applyTombstones applyWalked
  rfl

/-! ### what hides -/

/-- **hide exactly** at the reader level: a point is visible iff a block holds it and no
    acknowledged request covers it -/
theorem reader_visible_iff (file : TFile) (r : Reader) (Req : Hist) (h : RInv file r Req) (k : Key) (t : Int) :
    containsValue r.ix k t = true ↔ hasPoint r.ix.all k t ∧ ¬ coveredH Req k t := by
  obtain ⟨H, hT, hsub, hmat⟩ := h.idx
  rw [containsValue_iff r.ix H hT]
  constructor
  · rintro ⟨hp, hnc⟩
    refine ⟨hp, ?_⟩
    rintro ⟨q, hq, hqk, h1, h2⟩
    obtain ⟨ke, hke, hkk, e, he, he1, he2⟩ := hp
    have hsp := (hT.wf ke hke).within e he t he1 he2
    exact hnc ⟨q, hmat q hq ⟨ke, hke, by rw [hkk, hqk], t, h1, h2, hsp⟩, hqk, h1, h2⟩
  · rintro ⟨hp, hnc⟩
    exact ⟨hp, fun ⟨q, hq, hx⟩ => hnc ⟨q, hsub q hq, hx⟩⟩

/-! ### re-opening -/

theorem tWalk_fresh (file : TFile) : (tWalk file {}).1 = fileTombs file ∧
    (tWalk file {}).2.pending = none ∧ (tWalk file {}).2.lastApplied ≤ (file.getD []).length := by
  unfold tWalk fileTombs
  cases file with
  | none => simp
  | some ms =>
    simp only [Option.getD_some]
    split
    · next h =>
      have : ms = [] := by
        cases ms with
        | nil => rfl
        | cons a l => simp at h
      subst this; simp
    · simp

/-- **Persistence**: a reader opened on the same TSM content and the tombstone file as it is
    on disk satisfies the invariant for the same requests — whatever the old reader did. -/
theorem reopen_inv (file : TFile) (r : Reader) (Req : Hist) (h : RInv file r Req)
    (hs : SortedKE r.ix.all) (hwf : ∀ ke ∈ r.ix.all, WFKE ke) :
    RInv file (openReader file r.ix.all) Req ∧ (openReader file r.ix.all).ix.all = r.ix.all := by
  unfold openReader
  rw [applyTombstones_eq]
  obtain ⟨w1, w2, w3⟩ := tWalk_fresh file
  have hall : (applyWalked (mkIndex r.ix.all) (tWalk file {}).1).all = r.ix.all := by
    rw [applyWalked_all]; rfl
  obtain ⟨H, hT, hset⟩ := applyWalked_inv (mkIndex r.ix.all) [] (TInv_mkIndex _ hs hwf) (tWalk file {}).1
  rw [w1] at hset
  refine ⟨⟨w2, w3, ⟨H, hT, ?_, ?_⟩, h.fileSub, ?_⟩, hall⟩
  · intro q hq
    rcases (hset q).mp hq with h' | h'
    · cases h'
    · exact h.fileSub q h'
  · intro q hq hm
    simp only [hall] at hm
    exact (hset q).mpr (Or.inr (h.filePersist q hq hm))
  · intro q hq hm
    simp only [hall] at hm
    exact h.filePersist q hq hm


/-- a reader opened on a strictly sorted, well-formed key list and any tombstone file -/
theorem open_inv (file : TFile) (kes : List KeyEntry) (hs : SortedKE kes) (hwf : ∀ ke ∈ kes, WFKE ke) :
    RInv file (openReader file kes) (fileReqs file) ∧ (openReader file kes).ix.all = kes := by
  unfold openReader
  rw [applyTombstones_eq]
  obtain ⟨w1, w2, w3⟩ := tWalk_fresh file
  have hall : (applyWalked (mkIndex kes) (tWalk file {}).1).all = kes := by rw [applyWalked_all]; rfl
  obtain ⟨H, hT, hset⟩ := applyWalked_inv (mkIndex kes) [] (TInv_mkIndex _ hs hwf) (tWalk file {}).1
  rw [w1] at hset
  refine ⟨⟨w2, w3, ⟨H, hT, ?_, ?_⟩, fun q hq => hq, fun q hq _ => hq⟩, hall⟩
  · intro q hq
    rcases (hset q).mp hq with h' | h'
    · cases h'
    · exact h'
  · intro q hq _
    exact (hset q).mpr (Or.inr hq)

/-! ### DeleteRange / Delete on the reader -/

theorem filter_dropWhile_not (f : Key → Bool) (keys : List Key) :
    (keys.dropWhile fun k => !f k).filter f = keys.filter f := by
  induction keys with
  | nil => rfl
  | cons k ks ih =>
    simp only [List.dropWhile_cons, List.filter_cons]
    cases hf : f k <;> simp [hf, ih]

theorem dropWhile_not_empty (f : Key → Bool) (keys : List Key) :
    (keys.dropWhile fun k => !f k).isEmpty = (keys.filter f).isEmpty := by
  induction keys with
  | nil => rfl
  | cons k ks ih =>
    simp only [List.dropWhile_cons, List.filter_cons]
    cases hf : f k <;> simp [hf, ih]

theorem tAddRange_none (file : TFile) (o : TObj) (f : Key → Bool) (keys : List Key) (lo hi : Int)
    (hp : o.pending = none) :
    (tAddRange file o (some f) keys lo hi).pending =
      (if (keys.filter f).isEmpty then none
       else some ⟨file.getD [], (keys.filter f).map fun k => ⟨k, lo, hi⟩⟩) ∧
    (tAddRange file o (some f) keys lo hi).lastApplied = o.lastApplied := by
  unfold tAddRange
  simp only [dropWhile_not_empty, filter_dropWhile_not]
  split
  · exact ⟨hp, rfl⟩
  · simp [hp]

theorem sortedK_head_le (keys : List Key) (h : SortedK keys) (k0 : Key) (h0 : keys.head? = some k0) :
    ∀ k ∈ keys, kle k0 k = true := by
  cases keys with
  | nil => simp at h0
  | cons a l =>
    simp at h0; subst h0
    intro k hk
    rcases List.mem_cons.mp hk with rfl | hk
    · exact kle_refl _
    · exact (List.pairwise_cons.mp h).1 k hk

theorem sortedK_le_last (keys : List Key) (h : SortedK keys) (kN : Key) (hN : keys.getLast? = some kN) :
    ∀ k ∈ keys, kle k kN = true := by
  induction keys with
  | nil => simp at hN
  | cons a l ih =>
    intro k hk
    have hp := List.pairwise_cons.mp h
    cases l with
    | nil => simp at hN hk; subst hN; subst hk; exact kle_refl _
    | cons b l' =>
      have hN' : (b :: l').getLast? = some kN := by simpa [List.getLast?_cons_cons] using hN
      rcases List.mem_cons.mp hk with rfl | hk
      · exact hp.1 kN (List.mem_of_getLast? hN')
      · exact ih hp.2 hN' k hk

theorem containsKey_all {ix : Index} (h : IndexInv ix) {ke : KeyEntry} (hke : ke ∈ ix.all) :
    containsKey ix ke.key = true := by
  simp only [containsKey, h.minK, h.maxK, Bool.and_eq_true]
  exact ⟨sorted_head_le _ h.sortedAll ke hke, sorted_le_last _ h.sortedAll ke hke⟩

/-- what `batchDelete.DeleteRange` records for sorted keys: every key that matters -/
theorem bdRange_spec (file : TFile) (r : Reader) (Req : Hist) (h : RInv file r Req) (keys : List Key)
    (hne : keys ≠ []) (hsk : SortedK keys) (lo hi : Int) :
    ∃ rec : List Key,
      (bdRange file r keys lo hi).ix = r.ix ∧
      (bdRange file r keys lo hi).ts.lastApplied = r.ts.lastApplied ∧
      (bdRange file r keys lo hi).ts.pending =
        (if rec.isEmpty then none else some ⟨file.getD [], rec.map fun k => ⟨k, lo, hi⟩⟩) ∧
      (∀ k ∈ rec, k ∈ keys) ∧
      (∀ q ∈ reqs keys lo hi, matters r.ix.all q → q.1 ∈ rec) := by
  obtain ⟨H, hT, _, _⟩ := h.idx
  unfold bdRange
  cases h0 : keys.head? with
  | none => cases keys <;> simp_all
  | some k0 =>
    cases hN : keys.getLast? with
    | none => cases keys <;> simp_all
    | some kN =>
      simp only
      -- a request that matters passes every filter
      have hm : ∀ q ∈ reqs keys lo hi, matters r.ix.all q →
          overlapsKeyRange r.ix k0 kN = true ∧ overlapsTimeRange r.ix lo hi = true ∧ containsKey r.ix q.1 = true := by
        intro q hq ⟨ke, hke, hkk, t, h1, h2, hsp⟩
        obtain ⟨hqk, hqlo, hqhi⟩ := mem_reqs.mp hq
        have hck := containsKey_all hT.inv hke
        rw [hkk] at hck
        have hrange := hT.range ke hke t hsp
        refine ⟨?_, ?_, hck⟩
        · simp only [containsKey, Bool.and_eq_true] at hck
          simp only [overlapsKeyRange, Bool.and_eq_true]
          exact ⟨kle_trans hck.1 (sortedK_le_last keys hsk kN hN q.1 hqk),
                 kle_trans (sortedK_head_le keys hsk k0 h0 q.1 hqk) hck.2⟩
        · simp only [overlapsTimeRange, Bool.and_eq_true, decide_eq_true_eq]
          omega
      by_cases c1 : overlapsKeyRange r.ix k0 kN = true
      · by_cases c2 : overlapsTimeRange r.ix lo hi = true
        · simp only [c1, c2, Bool.not_true, Bool.false_eq_true, if_false]
          obtain ⟨p1, p2⟩ := tAddRange_none file r.ts (containsKey r.ix) keys lo hi h.nopend
          refine ⟨keys.filter (containsKey r.ix), trivial, p2, p1, fun k hk => (List.mem_filter.mp hk).1, ?_⟩
          intro q hq hmq
          exact List.mem_filter.mpr ⟨(mem_reqs.mp hq).1, (hm q hq hmq).2.2⟩
        · simp only [c1, c2, Bool.not_true, Bool.false_eq_true, if_false, Bool.not_false, if_true]
          exact ⟨[], trivial, trivial, by simp [h.nopend], by simp, fun q hq hmq => absurd (hm q hq hmq).2.1 c2⟩
      · simp only [c1, Bool.not_false, if_true]
        exact ⟨[], trivial, trivial, by simp [h.nopend], by simp, fun q hq hmq => absurd (hm q hq hmq).1 c1⟩


theorem tWalk_sub (f : TFile) (o : TObj) : ∀ t ∈ (tWalk f o).1, t ∈ fileTombs f := by
  unfold tWalk fileTombs
  cases f with
  | none => simp
  | some ms =>
    simp only [Option.getD_some]
    split
    · simp
    · intro t ht
      obtain ⟨m, hm, htm⟩ := List.mem_flatten.mp ht
      exact List.mem_flatten.mpr ⟨m, List.mem_of_mem_drop hm, htm⟩

theorem tWalk_pending (f : TFile) (o : TObj) : (tWalk f o).2.pending = o.pending := by
  unfold tWalk; split <;> (try split) <;> rfl

theorem tWalk_applied (f : TFile) (o : TObj) (h : o.lastApplied ≤ (f.getD []).length) :
    (tWalk f o).2.lastApplied ≤ (f.getD []).length := by
  unfold tWalk
  cases f with
  | none => simpa using h
  | some ms =>
    simp only [Option.getD_some] at h ⊢
    split
    · exact h
    · simp

theorem tWalk_last (pre : List (List Tombstone)) (m : List Tombstone) (o : TObj) (h : o.lastApplied ≤ pre.length) :
    ∀ t ∈ m, t ∈ (tWalk (some (pre ++ [m])) o).1 := by
  intro t ht
  unfold tWalk
  simp only
  rw [if_neg (by simp; omega)]
  simp only
  apply List.mem_flatten.mpr
  refine ⟨m, ?_, ht⟩
  rw [List.drop_append_of_le_length h]
  simp

/-- committing a batch whose recorded keys are `rec` (every request that matters among `NewReq`) -/
theorem commit_inv (file : TFile) (r : Reader) (Req : Hist) (h : RInv file r Req) (r1 : Reader)
    (rec : List Key) (lo hi : Int) (NewReq : Hist)
    (hix : r1.ix = r.ix) (hla : r1.ts.lastApplied = r.ts.lastApplied)
    (hp : r1.ts.pending = if rec.isEmpty then none else some ⟨file.getD [], rec.map fun k => ⟨k, lo, hi⟩⟩)
    (hsub : ∀ k ∈ rec, (k, lo, hi) ∈ NewReq)
    (hmat : ∀ q ∈ NewReq, matters r.ix.all q → q.1 ∈ rec ∧ q.2.1 = lo ∧ q.2.2 = hi) :
    RInv (bdCommit file r1).1 (bdCommit file r1).2 (Req ++ NewReq) ∧ (bdCommit file r1).2.ix.all = r.ix.all := by
  obtain ⟨H, hT, hHsub, hHmat⟩ := h.idx
  unfold bdCommit
  by_cases hrec : rec.isEmpty = true
  · -- nothing recorded: the file is unchanged
    have hpn : r1.ts.pending = none := by rw [hp]; simp [hrec]
    simp only [tFlush, hpn, applyTombstones_eq, hix]
    have hall : (applyWalked r.ix (tWalk file r1.ts).1).all = r.ix.all := applyWalked_all _ _
    obtain ⟨H', hT', hset⟩ := applyWalked_inv r.ix H hT (tWalk file r1.ts).1
    refine ⟨⟨by rw [tWalk_pending]; exact hpn, tWalk_applied _ _ (by rw [hla]; exact h.applied), ⟨H', hT', ?_, ?_⟩, ?_, ?_⟩, hall⟩
    · intro q hq
      rcases (hset q).mp hq with h' | h'
      · exact List.mem_append_left _ (hHsub q h')
      · obtain ⟨t, ht, rfl⟩ := List.mem_map.mp h'
        exact List.mem_append_left _ (h.fileSub _ (List.mem_map_of_mem (tWalk_sub _ _ t ht)))
    · intro q hq hm
      simp only [hall] at hm
      rcases List.mem_append.mp hq with hq | hq
      · exact (hset q).mpr (Or.inl (hHmat q hq hm))
      · have := (hmat q hq hm).1
        have : rec = [] := List.isEmpty_iff.mp hrec
        simp_all
    · intro q hq; exact List.mem_append_left _ (h.fileSub q hq)
    · intro q hq hm
      simp only [hall] at hm
      rcases List.mem_append.mp hq with hq | hq
      · exact h.filePersist q hq hm
      · have := (hmat q hq hm).1
        have : rec = [] := List.isEmpty_iff.mp hrec
        simp_all
  · -- one member is appended to the file and applied
    have hps : r1.ts.pending = some ⟨file.getD [], rec.map fun k => ⟨k, lo, hi⟩⟩ := by rw [hp]; simp [hrec]
    simp only [tFlush, hps, applyTombstones_eq, hix]
    generalize hm : (rec.map fun k => (⟨k, lo, hi⟩ : Tombstone)) = m
    have hall : (applyWalked r.ix (tWalk (some (file.getD [] ++ [m])) { r1.ts with pending := none }).1).all = r.ix.all :=
      applyWalked_all _ _
    obtain ⟨H', hT', hset⟩ := applyWalked_inv r.ix H hT (tWalk (some (file.getD [] ++ [m])) { r1.ts with pending := none }).1
    have hfile' : ∀ q, q ∈ fileReqs (some (file.getD [] ++ [m])) ↔ (q ∈ fileReqs file ∨ q ∈ reqs rec lo hi) := by
      intro q
      simp only [fileReqs, fileTombs, Option.getD_some, List.flatten_append, List.flatten_cons, List.flatten_nil,
        List.append_nil, List.map_append, List.mem_append]
      rw [← hm]
      simp [reqs, toReq, Function.comp_def]
    have hrecNew : ∀ q ∈ reqs rec lo hi, q ∈ NewReq := by
      intro q hq
      obtain ⟨a, b, c⟩ := q
      obtain ⟨h1, h2, h3⟩ := mem_reqs.mp hq
      simp only at h1 h2 h3; subst h2; subst h3
      exact hsub a h1
    refine ⟨⟨by rw [tWalk_pending], ?_, ⟨H', hT', ?_, ?_⟩, ?_, ?_⟩, hall⟩
    · apply tWalk_applied
      simp only [Option.getD_some, List.length_append, List.length_cons, List.length_nil]
      have := h.applied
      rw [hla]; omega
    · intro q hq
      rcases (hset q).mp hq with h' | h'
      · exact List.mem_append_left _ (hHsub q h')
      · obtain ⟨t, ht, rfl⟩ := List.mem_map.mp h'
        have := (hfile' (toReq t)).mp (List.mem_map_of_mem (tWalk_sub _ _ t ht))
        rcases this with h1 | h1
        · exact List.mem_append_left _ (h.fileSub _ h1)
        · exact List.mem_append_right _ (hrecNew _ h1)
    · intro q hq hmq
      simp only [hall] at hmq
      rcases List.mem_append.mp hq with hq | hq
      · exact (hset q).mpr (Or.inl (hHmat q hq hmq))
      · obtain ⟨h1, h2, h3⟩ := hmat q hq hmq
        apply (hset q).mpr
        right
        have hin : (⟨q.1, lo, hi⟩ : Tombstone) ∈ m := by
          rw [← hm]; exact List.mem_map_of_mem h1
        have := tWalk_last (file.getD []) m { r1.ts with pending := none } (by simp [hla]; exact h.applied) _ hin
        have hq' : q = toReq ⟨q.1, lo, hi⟩ := by
          obtain ⟨a, b, c⟩ := q
          simp only at h2 h3; subst h2; subst h3; rfl
        rw [hq']
        exact List.mem_map_of_mem this
    · intro q hq
      rcases (hfile' q).mp hq with h1 | h1
      · exact List.mem_append_left _ (h.fileSub q h1)
      · exact List.mem_append_right _ (hrecNew q h1)
    · intro q hq hmq
      simp only [hall] at hmq
      apply (hfile' q).mpr
      rcases List.mem_append.mp hq with hq | hq
      · exact Or.inl (h.filePersist q hq hmq)
      · obtain ⟨h1, h2, h3⟩ := hmat q hq hmq
        right
        obtain ⟨a, b, c⟩ := q
        simp only at h1 h2 h3; subst h2; subst h3
        exact mem_reqs.mpr ⟨h1, rfl, rfl⟩

/-- **`TSMReader.DeleteRange(keys, lo, hi)`** (sorted keys) keeps the reader invariant with the
    requests (k, lo, hi), k ∈ keys, acknowledged. -/
theorem rDeleteRange_inv (file : TFile) (r : Reader) (Req : Hist) (h : RInv file r Req) (keys : List Key)
    (hsk : SortedK keys) (lo hi : Int) :
    RInv (rDeleteRange file r keys lo hi).1 (rDeleteRange file r keys lo hi).2 (Req ++ reqs keys lo hi) ∧
    (rDeleteRange file r keys lo hi).2.ix.all = r.ix.all := by
  unfold rDeleteRange
  by_cases hk : keys.isEmpty = true
  · have : keys = [] := List.isEmpty_iff.mp hk
    subst this
    simpa [reqs] using h
  · simp only [hk, Bool.false_eq_true, if_false]
    have hne : keys ≠ [] := by intro e; rw [e] at hk; simp at hk
    obtain ⟨rec, h1, h2, h3, h4, h5⟩ := bdRange_spec file r Req h keys hne hsk lo hi
    exact commit_inv file r Req h _ rec lo hi (reqs keys lo hi) h1 h2 h3
      (fun k hk' => mem_reqs.mpr ⟨h4 k hk', rfl, rfl⟩)
      (fun q hq hm => ⟨h5 q hq hm, (mem_reqs.mp hq).2.1, (mem_reqs.mp hq).2.2⟩)


/-- **`TSMReader.Delete(keys)`** keeps the reader invariant with (k, MinInt64, MaxInt64), k ∈ keys. -/
theorem rDelete_inv (file : TFile) (r : Reader) (Req : Hist) (h : RInv file r Req) (keys : List Key) :
    RInv (rDelete file r keys).1 (rDelete file r keys).2 (Req ++ reqs keys minInt64 maxInt64) ∧
    (rDelete file r keys).2.ix.all = r.ix.all := by
  obtain ⟨H, hT, hHsub, hHmat⟩ := h.idx
  obtain ⟨p1, p2⟩ := tAddRange_none file r.ts (containsKey r.ix) keys minInt64 maxInt64 h.nopend
  have hall : (delete r.ix keys).all = r.ix.all := (delete_fields r.ix keys).2.1
  have hT' := TInv_delete r.ix H hT keys
  unfold rDelete
  simp only
  by_cases hrec : (keys.filter (containsKey r.ix)).isEmpty = true
  · have hpn : (tAddRange file r.ts (some (containsKey r.ix)) keys minInt64 maxInt64).pending = none := by
      rw [p1]; simp [hrec]
    simp only [tFlush, hpn]
    have hnone : ∀ q ∈ reqs keys minInt64 maxInt64, ¬ matters r.ix.all q := by
      intro q hq ⟨ke, hke, hkk, _⟩
      have : q.1 ∈ keys.filter (containsKey r.ix) :=
        List.mem_filter.mpr ⟨(mem_reqs.mp hq).1, by rw [← hkk]; exact containsKey_all hT.inv hke⟩
      have he : keys.filter (containsKey r.ix) = [] := List.isEmpty_iff.mp hrec
      rw [he] at this; cases this
    refine ⟨⟨hpn, by rw [p2]; exact h.applied, ⟨_, hT', ?_, ?_⟩, ?_, ?_⟩, hall⟩
    · intro q hq
      rcases List.mem_append.mp hq with h' | h'
      · exact List.mem_append_left _ (hHsub q h')
      · exact List.mem_append_right _ h'
    · intro q hq hm
      simp only [hall] at hm
      rcases List.mem_append.mp hq with h' | h'
      · exact List.mem_append_left _ (hHmat q h' hm)
      · exact List.mem_append_right _ h'
    · intro q hq; exact List.mem_append_left _ (h.fileSub q hq)
    · intro q hq hm
      simp only [hall] at hm
      rcases List.mem_append.mp hq with h' | h'
      · exact h.filePersist q h' hm
      · exact absurd hm (hnone q h')
  · have hps : (tAddRange file r.ts (some (containsKey r.ix)) keys minInt64 maxInt64).pending =
        some ⟨file.getD [], (keys.filter (containsKey r.ix)).map fun k => ⟨k, minInt64, maxInt64⟩⟩ := by
      rw [p1]; simp [hrec]
    simp only [tFlush, hps]
    have hfile' : ∀ q, q ∈ fileReqs (some (file.getD [] ++
        [(keys.filter (containsKey r.ix)).map fun k => (⟨k, minInt64, maxInt64⟩ : Tombstone)])) ↔
        (q ∈ fileReqs file ∨ q ∈ reqs (keys.filter (containsKey r.ix)) minInt64 maxInt64) := by
      intro q
      simp only [fileReqs, fileTombs, Option.getD_some, List.flatten_append, List.flatten_cons, List.flatten_nil,
        List.append_nil, List.map_append, List.mem_append]
      simp [reqs, toReq, Function.comp_def]
    refine ⟨⟨rfl, ?_, ⟨_, hT', ?_, ?_⟩, ?_, ?_⟩, hall⟩
    · simp only [Option.getD_some, List.length_append, List.length_cons, List.length_nil]
      rw [p2]; have := h.applied; omega
    · intro q hq
      rcases List.mem_append.mp hq with h' | h'
      · exact List.mem_append_left _ (hHsub q h')
      · exact List.mem_append_right _ h'
    · intro q hq hm
      simp only [hall] at hm
      rcases List.mem_append.mp hq with h' | h'
      · exact List.mem_append_left _ (hHmat q h' hm)
      · exact List.mem_append_right _ h'
    · intro q hq
      rcases (hfile' q).mp hq with h' | h'
      · exact List.mem_append_left _ (h.fileSub q h')
      · apply List.mem_append_right
        obtain ⟨h1, h2, h3⟩ := mem_reqs.mp h'
        exact mem_reqs.mpr ⟨(List.mem_filter.mp h1).1, h2, h3⟩
    · intro q hq hm
      simp only [hall] at hm
      apply (hfile' q).mpr
      rcases List.mem_append.mp hq with h' | h'
      · exact Or.inl (h.filePersist q h' hm)
      · right
        obtain ⟨ke, hke, hkk, _⟩ := hm
        obtain ⟨h1, h2, h3⟩ := mem_reqs.mp h'
        exact mem_reqs.mpr ⟨List.mem_filter.mpr ⟨h1, by rw [← hkk]; exact containsKey_all hT.inv hke⟩, h2, h3⟩

end Influx.Tsm
