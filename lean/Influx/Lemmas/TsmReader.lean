/-
  Lemmas.TsmReader — the reader level: `NewTSMReader` (apply the tombstone file),
  `TSMReader.DeleteRange` (batch: filter, append a member to the tombstone file, apply)
  and `TSMReader.Delete`.  `Req` is the list of all acknowledged requests (k, lo, hi).
  `RInv file r Req` says: the index hides exactly what `Req` asks for, and the tombstone
  file holds every request that matters — so re-opening the file restores the same.
-/
import Influx.Lemmas.TsmApply
import Influx.Lemmas.TsmVisible

namespace Influx.Tsm

/-- every tombstone of the file, in order (= `allTombs` of Model/TsmOps) -/
def fileTombs (f : TFile) : List Tombstone := (f.getD []).flatten

def fileReqs (f : TFile) : Hist := (fileTombs f).map toReq

/-- a request that can hide something: its key is in the file and its range meets the key's span -/
def matters (all : List KeyEntry) (q : Key × Int × Int) : Prop :=
  ∃ ke ∈ all, ke.key = q.1 ∧ ∃ t, q.2.1 ≤ t ∧ t ≤ q.2.2 ∧ spanIn ke t

structure RInv (file : TFile) (r : Reader) (Req : Hist) : Prop where
  nopend : r.ts.pending = none
  applied : r.ts.lastApplied ≤ (file.getD []).length
  idx : ∃ H, TInv r.ix H ∧ (∀ q ∈ H, q ∈ Req) ∧ (∀ q ∈ Req, matters r.ix.all q → q ∈ H)
  fileSub : ∀ q ∈ fileReqs file, q ∈ Req
  filePersist : ∀ q ∈ Req, matters r.ix.all q → q ∈ fileReqs file

/-! ### `.all` never changes -/

theorem deleteRange_all (ix : Index) (keys : List Key) (lo hi : Int) : (deleteRange ix keys lo hi).all = ix.all := by
  unfold deleteRange
  split
  · rfl
  · split
    · exact (delete_fields ix _).2.1
    · split
      · rfl
      · simp only
        split
        · rfl
        · exact (delete_fields ix _).2.1

theorem abStep_all (s : ABState) (t : Tombstone) : (abStep s t).ix.all = s.ix.all := by
  unfold abStep
  simp only
  split <;> split <;> simp [deleteRange_all]

theorem foldl_abStep_all (ws : List Tombstone) (s : ABState) : (ws.foldl abStep s).ix.all = s.ix.all := by
  induction ws generalizing s with
  | nil => rfl
  | cons t ws ih => simp only [List.foldl_cons]; rw [ih, abStep_all]

theorem applyWalked_all (ix : Index) (ws : List Tombstone) : (applyWalked ix ws).all = ix.all := by
  unfold applyWalked
  simp only
  split
  · exact foldl_abStep_all ws _
  · rw [deleteRange_all]; exact foldl_abStep_all ws _

theorem applyTombstones_eq (file : TFile) (r : Reader) :
    applyTombstones file r =
      { r with ix := applyWalked r.ix (tWalk file r.ts).1, ts := (tWalk file r.ts).2 } := by
  unfold applyTombstones applyWalked
  rfl

/-! ### what hides -/

/-- **hide exactly** at the reader level: a point is visible iff a block holds it and no
    acknowledged request covers it -/
theorem reader_visible_iff (file : TFile) (r : Reader) (Req : Hist) (h : RInv file r Req) (k : Key) (t : Int) :
    containsValue r.ix k t = true ↔ hasPoint r.ix.all k t ∧ ¬ coveredH Req k t := by
  obtain ⟨H, hT, hsub, hmat⟩ := h.idx
  rw [containsValue_iff r.ix H hT]
  constructor
  · rintro ⟨hp, hnc⟩
    refine ⟨hp, ?_⟩
    rintro ⟨q, hq, hqk, h1, h2⟩
    obtain ⟨ke, hke, hkk, e, he, he1, he2⟩ := hp
    have hsp := (hT.wf ke hke).within e he t he1 he2
    exact hnc ⟨q, hmat q hq ⟨ke, hke, by rw [hkk, hqk], t, h1, h2, hsp⟩, hqk, h1, h2⟩
  · rintro ⟨hp, hnc⟩
    exact ⟨hp, fun ⟨q, hq, hx⟩ => hnc ⟨q, hsub q hq, hx⟩⟩

/-! ### re-opening -/

theorem tWalk_fresh (file : TFile) : (tWalk file {}).1 = fileTombs file ∧
    (tWalk file {}).2.pending = none ∧ (tWalk file {}).2.lastApplied ≤ (file.getD []).length := by
  unfold tWalk fileTombs
  cases file with
  | none => simp
  | some ms =>
    simp only [Option.getD_some]
    split
    · next h =>
      have : ms = [] := by
        cases ms with
        | nil => rfl
        | cons a l => simp at h
      subst this; simp
    · simp

/-- **Persistence**: a reader opened on the same TSM content and the tombstone file as it is
    on disk satisfies the invariant for the same requests — whatever the old reader did. -/
theorem reopen_inv (file : TFile) (r : Reader) (Req : Hist) (h : RInv file r Req)
    (hs : SortedKE r.ix.all) (hwf : ∀ ke ∈ r.ix.all, WFKE ke) :
    RInv file (openReader file r.ix.all) Req ∧ (openReader file r.ix.all).ix.all = r.ix.all := by
  unfold openReader
  rw [applyTombstones_eq]
  obtain ⟨w1, w2, w3⟩ := tWalk_fresh file
  have hall : (applyWalked (mkIndex r.ix.all) (tWalk file {}).1).all = r.ix.all := by
    rw [applyWalked_all]; rfl
  obtain ⟨H, hT, hset⟩ := applyWalked_inv (mkIndex r.ix.all) [] (TInv_mkIndex _ hs hwf) (tWalk file {}).1
  rw [w1] at hset
  refine ⟨⟨w2, w3, ⟨H, hT, ?_, ?_⟩, h.fileSub, ?_⟩, hall⟩
  · intro q hq
    rcases (hset q).mp hq with h' | h'
    · cases h'
    · exact h.fileSub q h'
  · intro q hq hm
    simp only [hall] at hm
    exact (hset q).mpr (Or.inr (h.filePersist q hq hm))
  · intro q hq hm
    simp only [hall] at hm
    exact h.filePersist q hq hm


/-- a reader opened on a strictly sorted, well-formed key list and any tombstone file -/
theorem open_inv (file : TFile) (kes : List KeyEntry) (hs : SortedKE kes) (hwf : ∀ ke ∈ kes, WFKE ke) :
    RInv file (openReader file kes) (fileReqs file) ∧ (openReader file kes).ix.all = kes := by
  unfold openReader
  rw [applyTombstones_eq]
  obtain ⟨w1, w2, w3⟩ := tWalk_fresh file
  have hall : (applyWalked (mkIndex kes) (tWalk file {}).1).all = kes := by rw [applyWalked_all]; rfl
  obtain ⟨H, hT, hset⟩ := applyWalked_inv (mkIndex kes) [] (TInv_mkIndex _ hs hwf) (tWalk file {}).1
  rw [w1] at hset
  refine ⟨⟨w2, w3, ⟨H, hT, ?_, ?_⟩, fun q hq => hq, fun q hq _ => hq⟩, hall⟩
  · intro q hq
    rcases (hset q).mp hq with h' | h'
    · cases h'
    · exact h'
  · intro q hq _
    exact (hset q).mpr (Or.inr hq)

/-! ### DeleteRange / Delete on the reader -/

theorem filter_dropWhile_not (f : Key → Bool) (keys : List Key) :
    (keys.dropWhile fun k => !f k).filter f = keys.filter f := by
  induction keys with
  | nil => rfl
  | cons k ks ih =>
    simp only [List.dropWhile_cons, List.filter_cons]
    cases hf : f k <;> simp [hf, ih]

theorem dropWhile_not_empty (f : Key → Bool) (keys : List Key) :
    (keys.dropWhile fun k => !f k).isEmpty = (keys.filter f).isEmpty := by
  induction keys with
  | nil => rfl
  | cons k ks ih =>
    simp only [List.dropWhile_cons, List.filter_cons]
    cases hf : f k <;> simp [hf, ih]

theorem tAddRange_none (file : TFile) (o : TObj) (f : Key → Bool) (keys : List Key) (lo hi : Int)
    (hp : o.pending = none) :
    (tAddRange file o (some f) keys lo hi).pending =
      (if (keys.filter f).isEmpty then none
       else some ⟨file.getD [], (keys.filter f).map fun k => ⟨k, lo, hi⟩⟩) ∧
    (tAddRange file o (some f) keys lo hi).lastApplied = o.lastApplied := by
  unfold tAddRange
  simp only [dropWhile_not_empty, filter_dropWhile_not]
  split
  · exact ⟨hp, rfl⟩
  · simp [hp]

theorem sortedK_head_le (keys : List Key) (h : SortedK keys) (k0 : Key) (h0 : keys.head? = some k0) :
    ∀ k ∈ keys, kle k0 k = true := by
  cases keys with
  | nil => simp at h0
  | cons a l =>
    simp at h0; subst h0
    intro k hk
    rcases List.mem_cons.mp hk with rfl | hk
    · exact kle_refl _
    · exact (List.pairwise_cons.mp h).1 k hk

theorem sortedK_le_last (keys : List Key) (h : SortedK keys) (kN : Key) (hN : keys.getLast? = some kN) :
    ∀ k ∈ keys, kle k kN = true := by
  induction keys with
  | nil => simp at hN
  | cons a l ih =>
    intro k hk
    have hp := List.pairwise_cons.mp h
    cases l with
    | nil => simp at hN hk; subst hN; subst hk; exact kle_refl _
    | cons b l' =>
      have hN' : (b :: l').getLast? = some kN := by simpa [List.getLast?_cons_cons] using hN
      rcases List.mem_cons.mp hk with rfl | hk
      · exact hp.1 kN (List.mem_of_getLast? hN')
      · exact ih hp.2 hN' k hk

theorem containsKey_all {ix : Index} (h : IndexInv ix) {ke : KeyEntry} (hke : ke ∈ ix.all) :
    containsKey ix ke.key = true := by
  simp only [containsKey, h.minK, h.maxK, Bool.and_eq_true]
  exact ⟨sorted_head_le _ h.sortedAll ke hke, sorted_le_last _ h.sortedAll ke hke⟩

/-- what `batchDelete.DeleteRange` records for sorted keys: every key that matters -/
theorem bdRange_spec (file : TFile) (r : Reader) (Req : Hist) (h : RInv file r Req) (keys : List Key)
    (hne : keys ≠ []) (hsk : SortedK keys) (lo hi : Int) :
    ∃ rec : List Key,
      (bdRange file r keys lo hi).ix = r.ix ∧
      (bdRange file r keys lo hi).ts.lastApplied = r.ts.lastApplied ∧
      (bdRange file r keys lo hi).ts.pending =
        (if rec.isEmpty then none else some ⟨file.getD [], rec.map fun k => ⟨k, lo, hi⟩⟩) ∧
      (∀ k ∈ rec, k ∈ keys) ∧
      (∀ q ∈ reqs keys lo hi, matters r.ix.all q → q.1 ∈ rec) := by
  obtain ⟨H, hT, _, _⟩ := h.idx
  unfold bdRange
  cases h0 : keys.head? with
  | none => cases keys <;> simp_all
  | some k0 =>
    cases hN : keys.getLast? with
    | none => cases keys <;> simp_all
    | some kN =>
      simp only
      -- a request that matters passes every filter
      have hm : ∀ q ∈ reqs keys lo hi, matters r.ix.all q →
          overlapsKeyRange r.ix k0 kN = true ∧ overlapsTimeRange r.ix lo hi = true ∧ containsKey r.ix q.1 = true := by
        intro q hq ⟨ke, hke, hkk, t, h1, h2, hsp⟩
        obtain ⟨hqk, hqlo, hqhi⟩ := mem_reqs.mp hq
        have hck := containsKey_all hT.inv hke
        rw [hkk] at hck
        have hrange := hT.range ke hke t hsp
        refine ⟨?_, ?_, hck⟩
        · simp only [containsKey, Bool.and_eq_true] at hck
          simp only [overlapsKeyRange, Bool.and_eq_true]
          exact ⟨kle_trans hck.1 (sortedK_le_last keys hsk kN hN q.1 hqk),
                 kle_trans (sortedK_head_le keys hsk k0 h0 q.1 hqk) hck.2⟩
        · simp only [overlapsTimeRange, Bool.and_eq_true, decide_eq_true_eq]
          omega
      by_cases c1 : overlapsKeyRange r.ix k0 kN = true
      · by_cases c2 : overlapsTimeRange r.ix lo hi = true
        · simp only [c1, c2, Bool.not_true, Bool.false_eq_true, if_false]
          obtain ⟨p1, p2⟩ := tAddRange_none file r.ts (containsKey r.ix) keys lo hi h.nopend
          refine ⟨keys.filter (containsKey r.ix), rfl, p2, p1, fun k hk => (List.mem_filter.mp hk).1, ?_⟩
          intro q hq hmq
          exact List.mem_filter.mpr ⟨(mem_reqs.mp hq).1, (hm q hq hmq).2.2⟩
        · simp only [c1, c2, Bool.not_true, Bool.false_eq_true, if_false, Bool.not_false, if_true]
          exact ⟨[], rfl, rfl, by simp [h.nopend], by simp, fun q hq hmq => absurd (hm q hq hmq).2.1 c2⟩
      · simp only [c1, Bool.not_false, if_true]
        exact ⟨[], rfl, rfl, by simp [h.nopend], by simp, fun q hq hmq => absurd (hm q hq hmq).1 c1⟩

end Influx.Tsm
