/-
  The unsorted path of `scanKey`: insertion sort of the tag suffixes, rebuilding the key with
  `scanToSpaceOr`, duplicate check among neighbours.
-/
import Influx.Lemmas.LineProtocolTags

namespace Influx.LP
open Influx.Generated.LineProto

/-! ### insertion sort -/

theorem mem_insertLeft (lt : α → α → Bool) (x w : α) (l : List α) :
    w ∈ insertLeft lt x l ↔ w = x ∨ w ∈ l := by
  induction l with
  | nil => simp [insertLeft]
  | cons y ys ih =>
    simp only [insertLeft]
    split
    · simp only [List.mem_cons, ih]
      constructor
      · rintro (h | h | h) <;> simp [h]
      · rintro (h | h | h) <;> simp [h]
    · simp

theorem mem_foldl_insertLeft (lt : α → α → Bool) (l acc : List α) (w : α) :
    w ∈ l.foldl (fun revPre x => insertLeft lt x revPre) acc ↔ w ∈ acc ∨ w ∈ l := by
  induction l generalizing acc with
  | nil => simp
  | cons x xs ih =>
    simp only [List.foldl_cons, ih, mem_insertLeft, List.mem_cons]
    constructor
    · rintro ((h | h) | h) <;> simp [h]
    · rintro (h | h | h) <;> simp [h]

theorem mem_insertionSort (lt : α → α → Bool) (l : List α) (w : α) : w ∈ insertionSort lt l ↔ w ∈ l := by
  unfold insertionSort
  rw [List.mem_reverse, mem_foldl_insertLeft]; simp

/-- `lt` behaves like the strict part of a total preorder -/
structure LtOK (lt : α → α → Bool) : Prop where
  asymm : ∀ x y, lt x y = true → lt y x = false
  trans : ∀ a b c, lt a b = false → lt b c = false → lt a c = false

theorem pairwise_insertLeft (lt : α → α → Bool) (ok : LtOK lt) (x : α) (l : List α)
    (h : l.Pairwise (fun a b => lt a b = false)) : (insertLeft lt x l).Pairwise (fun a b => lt a b = false) := by
  induction l with
  | nil => simp [insertLeft]
  | cons y ys ih =>
    have hp := List.pairwise_cons.mp h
    simp only [insertLeft]
    split
    · next hlt =>
      apply List.pairwise_cons.mpr
      refine ⟨?_, ih hp.2⟩
      intro w hw
      rcases (mem_insertLeft lt x w ys).mp hw with rfl | hw
      · exact ok.asymm _ _ hlt
      · exact hp.1 w hw
    · next hlt =>
      have hxy : lt x y = false := by simpa using hlt
      apply List.pairwise_cons.mpr
      refine ⟨?_, h⟩
      intro w hw
      rcases List.mem_cons.mp hw with rfl | hw
      · exact hxy
      · exact ok.trans _ _ _ hxy (hp.1 w hw)

theorem pairwise_insertionSort (lt : α → α → Bool) (ok : LtOK lt) (l : List α) :
    (insertionSort lt l).Pairwise (fun a b => lt b a = false) := by
  unfold insertionSort
  rw [List.pairwise_reverse]
  have : ∀ acc : List α, acc.Pairwise (fun a b => lt a b = false) →
      (l.foldl (fun revPre x => insertLeft lt x revPre) acc).Pairwise (fun a b => lt a b = false) := by
    induction l with
    | nil => intro acc h; exact h
    | cons x xs ih => intro acc h; exact ih _ (pairwise_insertLeft lt ok x acc h)
  exact this [] List.Pairwise.nil

/-- the comparison `less` of points.go -/
def keyLt (a b : Bytes) : Bool := cmpBytes (rawTagKey a) (rawTagKey b) == .lt

theorem keyLt_ok : LtOK keyLt where
  asymm := by
    intro x y h
    simp only [keyLt, beq_iff_eq] at h
    simp only [keyLt, beq_eq_false_iff_ne, ne_eq]
    intro h2
    have := (cmpBytes_gt_iff_lt _ _).mpr h
    rw [h2] at this; cases this
  trans := by
    intro a b c h1 h2
    simp only [keyLt, beq_eq_false_iff_ne, ne_eq] at h1 h2 ⊢
    intro h3
    -- a < c, ¬ a < b, ¬ b < c
    cases hab : cmpBytes (rawTagKey a) (rawTagKey b) with
    | lt => exact h1 hab
    | eq =>
      have := (cmpBytes_eq_iff _ _).mp hab
      rw [this] at h3; exact h2 h3
    | gt =>
      have hba := (cmpBytes_gt_iff_lt _ _).mp hab
      exact h2 (cmpBytes_lt_trans _ _ _ hba h3)

/-- ascending without equal neighbours: pairwise different -/
theorem pairwise_ne_of_sorted (keys : List Bytes)
    (hs : keys.Pairwise (fun a b => cmpBytes b a ≠ .lt)) (hd : adjacentDup keys = false) :
    keys.Pairwise (· ≠ ·) := by
  have hlt : keys.Pairwise (fun a b => cmpBytes a b = .lt) := by
    induction keys with
    | nil => exact List.Pairwise.nil
    | cons a rest ih =>
      cases rest with
      | nil => exact List.pairwise_singleton _ _
      | cons b r =>
        have hp := List.pairwise_cons.mp hs
        simp only [adjacentDup, Bool.or_eq_false_iff, beq_eq_false_iff_ne, ne_eq] at hd
        have ht := ih hp.2 hd.2
        have hab : cmpBytes a b = .lt := by
          have h1 := hp.1 b (by simp)
          cases hc : cmpBytes a b with
          | lt => rfl
          | eq => exact absurd ((cmpBytes_eq_iff _ _).mp hc) hd.1
          | gt => exact absurd ((cmpBytes_gt_iff_lt _ _).mp hc) h1
        apply List.pairwise_cons.mpr
        refine ⟨?_, ht⟩
        intro w hw
        rcases List.mem_cons.mp hw with rfl | hw
        · exact hab
        · exact cmpBytes_lt_trans _ _ _ hab ((List.pairwise_cons.mp ht).1 w hw)
  exact pairwise_lt_ne keys hlt

/-! ### the suffixes and `scanToSpaceOr` -/

/-- a suffix of the buffer that starts with a scanned tag followed by `,` or space -/
def SuffixShape (s : Bytes) : Prop :=
  ∃ kv d X, KVShape kv ∧ s = kvText kv ++ d :: X ∧ (d = cComma ∨ d = cSpace)

theorem tagSuffixes_shape (kvs : List (Bytes × Bytes)) (rest : Bytes) (hs : ∀ kv ∈ kvs, KVShape kv)
    (hr : rest.head? = some cSpace) : ∀ s ∈ tagSuffixes (kvs.map kvText) rest, SuffixShape s := by
  induction kvs with
  | nil => intro s hs'; simp [tagSuffixes] at hs'
  | cons kv kvs ih =>
    intro s hm
    simp only [List.map_cons, tagSuffixes, List.mem_cons] at hm
    rcases hm with rfl | hm
    · cases kvs with
      | nil =>
        cases rest with
        | nil => simp at hr
        | cons d X =>
          simp at hr; subst hr
          exact ⟨kv, cSpace, X, hs kv (by simp), by simp, Or.inr rfl⟩
      | cons u us =>
        refine ⟨kv, cComma, kvText u ++ ((us.map kvText).flatMap fun t => cComma :: t) ++ rest,
          hs kv (by simp), ?_, Or.inl rfl⟩
        simp only [List.map_cons, List.flatMap_cons, List.cons_append, List.append_assoc]
    · exact ih (fun u hu => hs u (by simp [hu])) s hm

theorem lastIsBS_append (pbs : Bool) (a b : Bytes) : lastIsBS pbs (a ++ b) = lastIsBS (lastIsBS pbs a) b := by
  induction a generalizing pbs with
  | nil => rfl
  | cons x xs ih => simp [lastIsBS, ih]

theorem NoBare_append (D : Nat → Bool) (pbs : Bool) (a b : Bytes) (ha : NoBare D pbs a)
    (hb : NoBare D (lastIsBS pbs a) b) : NoBare D pbs (a ++ b) := by
  induction a generalizing pbs with
  | nil => exact hb
  | cons x xs ih => exact ⟨ha.1, ih _ ha.2 hb⟩

theorem scanToSpaceOrAux_noBare (s : Bytes) (prev d : Nat) (X : Bytes) (hd : d = cComma ∨ d = cSpace)
    (h : NoBare isMeasSpecial (prev == cBS) s) (hl : lastIsBS (prev == cBS) s = false) :
    scanToSpaceOrAux prev (s ++ d :: X) = some s := by
  induction s generalizing prev with
  | nil =>
    simp only [lastIsBS] at hl
    have hp : prev ≠ cBS := by simpa using hl
    rw [List.nil_append, scanToSpaceOrAux, if_pos ⟨hp, hd⟩]
  | cons b r ih =>
    rw [List.cons_append, scanToSpaceOrAux]
    have hno : ¬ (prev ≠ cBS ∧ (b = cComma ∨ b = cSpace)) := by
      intro ⟨h1, h2⟩
      have hb : isMeasSpecial b = true := by rcases h2 with h2 | h2 <;> simp [isMeasSpecial, h2]
      have := h.1 hb
      simp at this; exact h1 this
    rw [if_neg hno, ih b h.2 hl]; rfl

theorem kvText_noBare (kv : Bytes × Bytes) (h : KVShape kv) :
    NoBare isMeasSpecial false (kvText kv) ∧ lastIsBS false (kvText kv) = false := by
  unfold kvText
  constructor
  · apply NoBare_append
    · exact NoBare_mono _ _ (by intro b hb; simp [isMeasSpecial] at hb; rcases hb with h | h <;> simp [isTagSpecial, h]) _ _ h.k_nb
    · rw [h.k_tb]
      refine ⟨fun hb => by (revert hb; decide), ?_⟩
      exact h.v_nb
  · rw [lastIsBS_append, h.k_tb]
    simp only [lastIsBS]
    exact h.v_tb

theorem scanToSpaceOr_suffix (kv : Bytes × Bytes) (d : Nat) (X : Bytes) (h : KVShape kv)
    (hd : d = cComma ∨ d = cSpace) : scanToSpaceOr (kvText kv ++ d :: X) = some (kvText kv) := by
  obtain ⟨hnb, htb⟩ := kvText_noBare kv h
  have hne : kvText kv ≠ [] := by simp [kvText]
  cases hk : kvText kv with
  | nil => exact absurd hk hne
  | cons b r =>
    rw [hk] at hnb htb
    have hb : isMeasSpecial b = false := NoBare_false_cons _ _ _ hnb
    have hb' : ¬ (b = cComma ∨ b = cSpace) := by
      intro hh; rcases hh with hh | hh <;> simp [isMeasSpecial, hh] at hb
    rw [List.cons_append, scanToSpaceOr, if_neg hb']
    simp only [lastIsBS] at htb
    rw [scanToSpaceOrAux_noBare r b d X hd hnb.2 htb]; rfl

theorem rawTagKey_suffix (kv : Bytes × Bytes) (d : Nat) (X : Bytes) (h : KVShape kv) :
    rawTagKey (kvText kv ++ d :: X) = kv.1 := by
  unfold rawTagKey kvText
  rw [List.append_assoc, List.cons_append,
    scanTo_noBare cEq false kv.1 _ (noBare_eq_of_tag _ _ h.k_nb) h.k_tb]

/-- rebuilding the key from suffixes of this shape -/
theorem mapM_scanToSpaceOr (l : List Bytes) (h : ∀ s ∈ l, SuffixShape s) :
    ∃ kvl : List (Bytes × Bytes), l.mapM scanToSpaceOr = some (kvl.map kvText) ∧
      (∀ kv ∈ kvl, KVShape kv) ∧ l.map rawTagKey = kvl.map (·.1) := by
  induction l with
  | nil => exact ⟨[], rfl, by simp, rfl⟩
  | cons s rest ih =>
    obtain ⟨kv, d, X, hkv, rfl, hd⟩ := h s (by simp)
    obtain ⟨kvl, i1, i2, i3⟩ := ih (fun t ht => h t (by simp [ht]))
    refine ⟨kv :: kvl, ?_, ?_, ?_⟩
    · simp only [List.mapM_cons, scanToSpaceOr_suffix kv d X hkv hd, i1, List.map_cons]
      rfl
    · intro u hu
      rcases List.mem_cons.mp hu with rfl | hu
      · exact hkv
      · exact i2 u hu
    · simp only [List.map_cons, rawTagKey_suffix kv d X hkv, i3]

/-! ### what `scanKey` returns -/

/-- the key of an accepted point: a scanned name followed by scanned tags with distinct keys -/
structure KeyShape (key : Bytes) : Prop where
  ex : ∃ name kvs, key = name ++ kvsText kvs ∧ name ≠ [] ∧ NoBare (· == cComma) false name ∧
    (kvs ≠ [] → lastIsBS false name = false) ∧ (∀ kv ∈ kvs, KVShape kv) ∧
    (kvs.map (·.1)).Pairwise (· ≠ ·)

theorem flatMap_kvText (kvs : List (Bytes × Bytes)) :
    ((kvs.map kvText).flatMap fun t => cComma :: t) = kvsText kvs := by
  simp [kvsText, List.flatMap_map]

theorem scanKeySort_shape (name : Bytes) (kvs : List (Bytes × Bytes)) (rest key r : Bytes)
    (hs : ∀ kv ∈ kvs, KVShape kv) (hr : rest.head? = some cSpace)
    (h : scanKeySort name (kvs.map kvText) rest = .ok (key, r)) :
    ∃ kvl : List (Bytes × Bytes), key = name ++ kvsText kvl ∧ (kvl = [] → kvs = []) ∧
      (∀ kv ∈ kvl, KVShape kv) ∧ (kvl.map (·.1)).Pairwise (· ≠ ·) := by
  unfold scanKeySort at h
  have hshape : ∀ s ∈ insertionSort (fun a b => cmpBytes (rawTagKey a) (rawTagKey b) == .lt)
      (tagSuffixes (kvs.map kvText) rest), SuffixShape s := by
    intro s hs'
    exact tagSuffixes_shape kvs rest hs hr s ((mem_insertionSort _ _ s).mp hs')
  obtain ⟨kvl, m1, m2, m3⟩ := mapM_scanToSpaceOr _ hshape
  rw [m1] at h
  simp only at h
  split at h
  · cases h
  · next hdup =>
    simp only [Except.ok.injEq, Prod.mk.injEq] at h
    obtain ⟨rfl, rfl⟩ := h
    refine ⟨kvl, by rw [flatMap_kvText], ?_, m2, ?_⟩
    · intro he
      -- lengths: the sorted list is as long as the suffix list, which is as long as kvs
      subst he
      simp only [List.map_nil, List.map_eq_nil_iff] at m3
      have hmem : ∀ s, s ∉ tagSuffixes (kvs.map kvText) rest := by
        intro s hs'
        have := (mem_insertionSort (fun a b => cmpBytes (rawTagKey a) (rawTagKey b) == .lt) _ s).mpr hs'
        rw [m3] at this; cases this
      cases kvs with
      | nil => rfl
      | cons kv kvs' =>
        exact (hmem (kvText kv ++ ((kvs'.map kvText).flatMap fun u => cComma :: u) ++ rest)
          (by simp [tagSuffixes])).elim
    · rw [← m3]
      have hok : LtOK (fun a b => cmpBytes (rawTagKey a) (rawTagKey b) == Ordering.lt) := keyLt_ok
      have hsorted := pairwise_insertionSort _ hok (tagSuffixes (kvs.map kvText) rest)
      have hd : adjacentDup ((insertionSort (fun a b => cmpBytes (rawTagKey a) (rawTagKey b) == Ordering.lt)
          (tagSuffixes (kvs.map kvText) rest)).map rawTagKey) = false := by
        simpa using hdup
      apply pairwise_ne_of_sorted _ _ hd
      rw [List.pairwise_map]
      apply List.Pairwise.imp _ hsorted
      intro a b hab
      simpa using hab

theorem scanKeyTags_shape (name r0 key rest : Bytes) (hne : name ≠ [])
    (hnb : NoBare (· == cComma) false name) (htb : lastIsBS false name = false)
    (h : scanKeyTags name r0 = .ok (key, rest)) : KeyShape key := by
  unfold scanKeyTags at h
  cases hst : scanTags (r0.length + 1) r0 with
  | error e => rw [hst] at h; cases h
  | ok p =>
    obtain ⟨raws, rest'⟩ := p
    rw [hst] at h
    simp only at h
    obtain ⟨kvs, rfl, hkne, hks, hrest, _⟩ := scanTags_shape _ _ _ _ hst
    split at h
    · cases h
    · split at h
      · cases h
      · next hcs =>
        simp only [Except.ok.injEq, Prod.mk.injEq] at h
        obtain ⟨rfl, rfl⟩ := h
        refine ⟨name, kvs, by rw [flatMap_kvText], hne, hnb, fun _ => htb, hks, ?_⟩
        have hp := checkSorted_pairwise _ hcs
        have hkeys : (kvs.map kvText).map rawTagKey = kvs.map (·.1) := by
          rw [List.map_map]
          apply List.map_congr_left
          intro kv hkv
          exact rawTagKey_kvText kv (hks kv hkv)
        rw [hkeys] at hp
        exact pairwise_lt_ne _ hp
      · obtain ⟨kvl, h1, _, h3, h4⟩ := scanKeySort_shape name kvs rest' key rest hks hrest h
        exact ⟨name, kvl, h1, hne, hnb, fun _ => htb, h3, h4⟩

theorem scanMeasurement_shape (buf n : Bytes) (e : MeasEnd) (h : scanMeasurement buf = (n, e))
    (he : (∃ r, e = .tags r) ∨ (∃ r, e = .fields r)) :
    n ≠ [] ∧ NoBare (· == cComma) false n ∧ lastIsBS false n = false := by
  cases buf with
  | nil =>
    simp [scanMeasurement] at h
    rcases he with ⟨r, hr⟩ | ⟨r, hr⟩ <;> rw [hr] at h <;> exact absurd h.2 (by simp)
  | cons b rest =>
    by_cases hb : b = cComma
    · simp [scanMeasurement, hb] at h
      rcases he with ⟨r, hr⟩ | ⟨r, hr⟩ <;> rw [hr] at h <;> exact absurd h.2 (by simp)
    · rw [scanMeasurement, if_neg hb] at h
      obtain ⟨n', e', hne⟩ : ∃ n' e', scanMeasAux b rest = (n', e') := ⟨_, _, rfl⟩
      rw [hne] at h
      simp only [Prod.mk.injEq] at h
      obtain ⟨rfl, rfl⟩ := h
      obtain ⟨i1, i2, i3⟩ := scanMeasAux_shape b rest n' e' hne
      refine ⟨by simp, ⟨fun hd => by (simp at hd; exact absurd hd hb), ?_⟩, ?_⟩
      · exact NoBare_mono _ _ (by intro c hc; simp at hc; simp [isMeasSpecial, hc]) _ _ i1
      · simp only [lastIsBS]
        rcases he with ⟨r, hr⟩ | ⟨r, hr⟩
        · exact (i2 r hr).1
        · exact (i3 r hr).1

theorem scanKey_shape (buf key rest : Bytes) (h : scanKey buf = .ok (key, rest)) : KeyShape key := by
  unfold scanKey at h
  split at h
  · cases h
  · cases h
  · next name r hm =>
    obtain ⟨h1, h2, h3⟩ := scanMeasurement_shape _ _ _ hm (Or.inr ⟨r, rfl⟩)
    simp only [Except.ok.injEq, Prod.mk.injEq] at h
    obtain ⟨rfl, rfl⟩ := h
    exact ⟨name, [], by simp [kvsText], h1, h2, fun hh => absurd rfl hh, by simp, by simp⟩
  · next name r0 hm =>
    obtain ⟨h1, h2, h3⟩ := scanMeasurement_shape _ _ _ hm (Or.inl ⟨r0, rfl⟩)
    exact scanKeyTags_shape name r0 key rest h1 h2 h3 h

/-- **unique tag keys**: the keys `Tags()` reports for an accepted point are pairwise distinct -/
theorem distinct_tags_of_accepted (line : Bytes) (dt : Int) (prec : String) (p : Point)
    (h : parsePoint line dt prec = .ok p) :
    Spec.C12.distinct ((walkTags p.key).map (·.key)) = true := by
  obtain ⟨rest, _, hk, _⟩ := parsePoint_ok_inv line dt prec p h
  obtain ⟨name, kvs, hkey, h1, h2, h3, h4, h5⟩ := (scanKey_shape _ _ _ hk).ex
  rw [hkey]
  exact distinct_tags_of_kvs name kvs h1 h2 h3 h4 h5

end Influx.LP
