/-
  Lemmas.InfluxQL — stage lemmas relating Model.InfluxQLPipe to Spec.C22.
-/
import Influx.Model.InfluxQLPipe

namespace Influx.InfluxQLPipe.Lemmas
open Influx.Reducers Influx.Spec.C22 Influx.InfluxQLPipe

variable {V F : Type}

/-! ### limit iterator = drop / take on a stream of one tag set -/

/-- what `floatLimitIterator` keeps of a one-series stream after having counted `n` points -/
def keepFrom {α : Type} (o : Opt) (n : Nat) (l : List α) : List α :=
  let d := l.drop (o.offset - n)
  if o.limit = 0 then d else d.take (o.limit - (n - o.offset))

theorem limitGo_const {α : Type} (o : Opt) (tg : Option String) (l : List (SP α))
    (h : ∀ p ∈ l, p.tag = tg) : ∀ n, limitGo o (some tg) n l = keepFrom o n l := by
  induction l with
  | nil => intro n; simp [limitGo, keepFrom]
  | cons p ps ih =>
    intro n
    have hp : p.tag = tg := h p (by simp)
    have hps : ∀ q ∈ ps, q.tag = tg := fun q hq => h q (by simp [hq])
    have ih' := ih hps
    simp only [limitGo, hp, if_true]
    by_cases h1 : n + 1 ≤ o.offset
    · simp only [h1, if_true]
      rw [ih' (n + 1)]
      have : o.offset - n = (o.offset - (n + 1)) + 1 := by omega
      simp only [keepFrom, this, List.drop_succ_cons]
      have h2 : n + 1 - o.offset = 0 := by omega
      have h3 : n - o.offset = 0 := by omega
      simp [h2, h3]
    · simp only [h1, if_false]
      have hd : o.offset - n = 0 := by omega
      have hd' : o.offset - (n + 1) = 0 := by omega
      by_cases h2 : o.limit > 0 ∧ n + 1 - o.offset > o.limit
      · simp only [h2, and_self, if_true]
        rw [ih' (n + 1)]
        have hl : o.limit ≠ 0 := by omega
        simp only [keepFrom, hd, hd', List.drop_zero, hl, if_false]
        have : o.limit - (n - o.offset) = 0 := by omega
        have h4 : o.limit - (n + 1 - o.offset) = 0 := by omega
        simp [this, h4]
      · simp only [h2, if_false]
        rw [ih' (n + 1)]
        simp only [keepFrom, hd, hd', List.drop_zero]
        by_cases hl : o.limit = 0
        · simp [hl]
        · simp only [hl, if_false]
          have : o.limit - (n - o.offset) = (o.limit - (n + 1 - o.offset)) + 1 := by omega
          rw [this, List.take_succ_cons]

/-- **LIMIT/OFFSET stage**: on the stream of one output series the limit iterator is
    `drop offset` followed by `take limit`. -/
theorem limitIter_single {α : Type} (o : Opt) (tg : Option String) (l : List (SP α))
    (h : ∀ p ∈ l, p.tag = tg) :
    limitIter o l = if o.limit = 0 then l.drop o.offset else (l.drop o.offset).take o.limit := by
  unfold limitIter
  by_cases hc : o.limit > 0 ∨ o.offset > 0
  · simp only [hc, if_true]
    cases l with
    | nil => simp [limitGo]
    | cons p ps =>
      have hp : p.tag = tg := h p (by simp)
      have hps : ∀ q ∈ ps, q.tag = tg := fun q hq => h q (by simp [hq])
      -- first step by hand (prev = none), then the invariant
      have := limitGo_const o tg (p :: ps) h 0
      have h0 : limitGo o none 0 (p :: ps) = limitGo o (some tg) 0 (p :: ps) := by
        simp [limitGo, hp]
      rw [h0, this]
      simp [keepFrom]
  · have h1 : o.limit = 0 := by omega
    have h2 : o.offset = 0 := by omega
    simp [hc, h1, h2]

/-! ### sorting a sorted list -/

theorem insertBy_sorted_head {α : Type} (le : α → α → Bool) (x : α) (l : List α)
    (h : ∀ y ∈ l, le x y = true) : insertBy le x l = x :: l := by
  cases l with
  | nil => rfl
  | cons y ys => simp [insertBy, h y (by simp)]

theorem sortBy_of_pairwise {α : Type} (le : α → α → Bool) (l : List α)
    (h : List.Pairwise (fun a b => le a b = true) l) : sortBy le l = l := by
  induction l with
  | nil => rfl
  | cons x xs ih =>
    have hx := (List.pairwise_cons.mp h)
    simp only [sortBy, List.foldr_cons]
    have : List.foldr (insertBy le) [] xs = xs := ih hx.2
    rw [this]
    exact insertBy_sorted_head le x xs hx.1

/-! ### sorted merge of a single input -/

theorem sortedMergeGo_single (asc : Bool) (l : List (SP V)) :
    ∀ fuel, l.length ≤ fuel → sortedMergeGo asc fuel [l] = l := by
  induction l with
  | nil => intro fuel _; cases fuel <;> simp [sortedMergeGo, pickSorted]
  | cons p ps ih =>
    intro fuel hf
    cases fuel with
    | zero => simp at hf
    | succ fuel =>
      simp only [sortedMergeGo, pickSorted]
      simp only [List.getElem?_cons_zero, List.set_cons_zero]
      rw [ih fuel (by simpa using hf)]

end Influx.InfluxQLPipe.Lemmas
