/-
  Lemmas.FieldOpen — loading the change log at any byte cut, and what
  `openFields` (Engine.Open + LoadMetadataIndex) makes of the files.
-/
import Influx.Lemmas.FieldReplay

namespace Influx.Fields

/-- every stored value has the type on record for its field -/
def Typed (mem : Schema) (d : Store) : Prop := ∀ e ∈ d, mem.lookup (e.1.1, e.1.2.2.1) = some e.2.1

theorem logLen_cons (r : ChangeSet) (rs : List ChangeSet) : logLen (r :: rs) = recordLen r + logLen rs := by
  simp [logLen]

theorem logLen_append (a b : List ChangeSet) : logLen (a ++ b) = logLen a + logLen b := by
  simp [logLen, List.sum_append]

/-- a file that holds all bytes of the records yields all records -/
theorem cutLog_full (recs : List ChangeSet) (n : Nat) (h : logLen recs ≤ n) : cutLog recs n = recs := by
  induction recs generalizing n with
  | nil => rfl
  | cons r rs ih =>
    rw [logLen_cons] at h
    unfold cutLog
    have : recordLen r ≤ n := by omega
    simp only [this, if_true]
    rw [ih (n - recordLen r) (by omega)]

/-- **every byte cut inside the last record**: the load sees the log without it,
    or — only when every byte is there — with it -/
theorem cutLog_append (recs : List ChangeSet) (last : ChangeSet) (x : Nat) :
    cutLog (recs ++ [last]) (logLen recs + x) = if recordLen last ≤ x then recs ++ [last] else recs := by
  induction recs with
  | nil =>
    simp only [List.nil_append, logLen, List.map_nil, List.sum_nil, Nat.zero_add]
    unfold cutLog
    split
    · simp [cutLog]
    · rfl
  | cons r rs ih =>
    rw [logLen_cons]
    simp only [List.cons_append]
    unfold cutLog
    have h1 : recordLen r ≤ recordLen r + logLen rs + x := by omega
    have h2 : recordLen r + logLen rs + x - recordLen r = logLen rs + x := by omega
    simp only [h1, if_true, h2, ih]
    split <;> rfl

/-- any cut: what is loaded is a prefix of the records -/
theorem cutLog_prefix (recs : List ChangeSet) (n : Nat) : ∃ k, cutLog recs n = recs.take k := by
  induction recs generalizing n with
  | nil => exact ⟨0, rfl⟩
  | cons r rs ih =>
    unfold cutLog
    split
    · obtain ⟨k, hk⟩ := ih (n - recordLen r)
      exact ⟨k + 1, by simp [hk]⟩
    · exact ⟨0, rfl⟩

theorem typed_nil_data (d : Store) (h : Typed [] d) : d = [] := by
  cases d with
  | nil => rfl
  | cons e es => have := h e List.mem_cons_self; simp at this

/-- after `load`: the field set is the snapshot with the loaded part of the log
    replayed over it; the snapshot is up to date and the log is gone -/
theorem loadFields_spec (st : PState) (n : Nat) :
    (loadFields st n).mem = replay (st.idx.getD []) (cutLog (st.log.getD []) n).flatten ∧
    (loadFields st n).data = st.data ∧ (loadFields st n).series = st.series ∧
    (loadFields st n).idx.getD [] = (loadFields st n).mem ∧ (loadFields st n).log.getD [] = [] := by
  unfold loadFields
  cases hl : st.log with
  | none => simp [cutLog, replay]
  | some recs =>
    simp only [Option.getD_some]
    by_cases hr : (cutLog recs n).isEmpty = true
    · have hnil : cutLog recs n = [] := List.isEmpty_iff.1 hr
      simp [hr, hnil, replay]
    · simp only [hr, Bool.false_eq_true, if_false, writeToFile]
      refine ⟨trivial, trivial, trivial, ?_, rfl⟩
      by_cases hm : (replay (st.idx.getD []) (cutLog recs n).flatten).isEmpty = true
      · simp [hm, List.isEmpty_iff.1 hm]
      · simp [hm]

theorem loadMetadataIndex_spec (st : PState) (hT : Typed st.mem st.data)
    (h4 : st.idx.getD [] = st.mem) (h5 : st.log.getD [] = []) :
    ∃ st', loadMetadataIndex st = some st' ∧ st'.mem = st.mem ∧ st'.data = st.data ∧
      st'.series = st.series ∧ st'.idx.getD [] = st'.mem ∧ st'.log.getD [] = [] := by
  unfold loadMetadataIndex
  by_cases he : st.mem.isEmpty = true
  · have hnil : st.mem = [] := List.isEmpty_iff.1 he
    have hd : st.data = [] := by apply typed_nil_data; rw [hnil] at hT; exact hT
    simp only [he, if_true, hd, schemaFromData]
    refine ⟨_, rfl, ?_, ?_, rfl, ?_, ?_⟩
    · simp [writeToFile, hnil]
    · simp [writeToFile, hd]
    · simp [writeToFile]
    · simp [writeToFile]
  · simp only [he, Bool.false_eq_true, if_false]
    exact ⟨st, rfl, rfl, rfl, rfl, h4, h5⟩

/-- what opening the shard makes of the files -/
theorem openFields_spec (st : PState) (n : Nat)
    (hT : Typed (replay (st.idx.getD []) (cutLog (st.log.getD []) n).flatten) st.data) :
    ∃ st', openFields st n = some st' ∧
      st'.mem = replay (st.idx.getD []) (cutLog (st.log.getD []) n).flatten ∧
      st'.data = st.data ∧ st'.series = st.series ∧
      st'.idx.getD [] = st'.mem ∧ st'.log.getD [] = [] := by
  obtain ⟨h1, h2, h3, h4, h5⟩ := loadFields_spec st n
  obtain ⟨st', g0, g1, g2, g3, g4, g5⟩ := loadMetadataIndex_spec (loadFields st n) (by rw [h1, h2]; exact hT) h4 h5
  exact ⟨st', g0, by rw [g1, h1], by rw [g2, h2], by rw [g3, h3], g4, g5⟩

end Influx.Fields
