/-
  Lemmas.FluxTableCompose — "group by window" of Spec.C20 (what the storage cursor is proved to
  return) restated over the window indices of Spec.C41.
-/
import Influx.Lemmas.FluxTableEmpty
import Influx.Lemmas.WindowAggSpec

namespace Influx.FluxTable
open Influx.WindowAgg Influx.Spec.C41

/-- the C20 window function of the request -/
def stopFn (q : Req) : Int → Int := (Spec.C20.W.every q.every q.offset).stopOf

theorem stopFn_eq (q : Req) (t : Int) : stopFn q t = q.offset + (widx q t + 1) * q.every := rfl

theorem stopFn_beq (q : Req) (h : 0 < q.every) (t u : Int) :
    (stopFn q t == stopFn q u) = (widx q t == widx q u) := by
  rw [stopFn_eq, stopFn_eq]
  by_cases hw : widx q t = widx q u
  · rw [hw, beq_self_eq_true, beq_self_eq_true]
  · have : ¬ (q.offset + (widx q t + 1) * q.every = q.offset + (widx q u + 1) * q.every) := by
      intro he
      have : (widx q t + 1) * q.every = (widx q u + 1) * q.every := by omega
      have := Int.eq_of_mul_eq_mul_right (by omega : q.every ≠ 0) this
      omega
    rw [beq_eq_false_iff_ne.mpr this, beq_eq_false_iff_ne.mpr hw]

/-- the aggregate of window `i` over the points `l` -/
def rowOfIn (o : Ops Val) (q : Req) (l : List (Pt Val)) (i : Int) : Option (Pt Val) :=
  Spec.C20.aggregate o q.agg (q.offset + (i + 1) * q.every) (l.filter fun x => widx q x.1 == i)

theorem mem_distinctIdx (q : Req) : ∀ (pts : List (Pt Val)) (i : Int),
    i ∈ distinctIdx q pts ↔ ∃ x ∈ pts, widx q x.1 = i := by
  intro pts
  fun_induction distinctIdx q pts with
  | case1 => intro i; simp
  | case2 p ps ih =>
    intro i
    simp only [List.mem_cons, ih, List.mem_filter, Bool.not_eq_eq_eq_not, Bool.not_true, beq_eq_false_iff_ne, ne_eq]
    constructor
    · rintro (rfl | ⟨x, ⟨hx, _⟩, rfl⟩)
      · exact ⟨p, Or.inl rfl, rfl⟩
      · exact ⟨x, Or.inr hx, rfl⟩
    · rintro ⟨x, (rfl | hx), rfl⟩
      · exact Or.inl rfl
      · by_cases he : widx q x.1 = widx q p.1
        · exact Or.inl he
        · exact Or.inr ⟨x, ⟨hx, he⟩, rfl⟩

theorem filterMap_cons_toList {β γ : Type} (f : β → Option γ) (x : β) (xs : List β) :
    (x :: xs).filterMap f = (f x).toList ++ xs.filterMap f := by
  cases h : f x <;> simp [h]

theorem filterMap_congr' {β γ : Type} (f g : β → Option γ) (l : List β) (h : ∀ x ∈ l, f x = g x) :
    l.filterMap f = l.filterMap g := by
  induction l with
  | nil => rfl
  | cons x xs ih =>
    rw [filterMap_cons_toList, filterMap_cons_toList, h x (by simp), ih (fun y hy => h y (by simp [hy]))]

/-- **group by window, restated**: the grouped aggregate of C20 is the list of window
    aggregates over the distinct window indices -/
theorem aggSpec_windows (o : Ops Val) (q : Req) (h : 0 < q.every) :
    ∀ pts : List (Pt Val),
    Spec.C20.aggSpec o q.agg (stopFn q) pts = (distinctIdx q pts).filterMap (rowOfIn o q pts) := by
  intro pts
  fun_induction Spec.C20.aggSpec o q.agg (stopFn q) pts with
  | case1 => simp [distinctIdx]
  | case2 p ps s ih =>
    rw [distinctIdx, filterMap_cons_toList]
    have hf1 : ps.filter (fun x => stopFn q x.1 == s) = ps.filter (fun x => widx q x.1 == widx q p.1) :=
      List.filter_congr (fun x _ => stopFn_beq q h x.1 p.1)
    have hf2 : ps.filter (fun x => !(stopFn q x.1 == s)) = ps.filter (fun x => !(widx q x.1 == widx q p.1)) :=
      List.filter_congr (fun x _ => by rw [show s = stopFn q p.1 from rfl, stopFn_beq q h])
    rw [hf2] at ih
    rw [hf1, hf2, ih]
    congr 1
    · simp only [rowOfIn, List.filter_cons, beq_self_eq_true, ↓reduceIte]
      rfl
    · apply filterMap_congr'
      intro i hi
      obtain ⟨x, hx, hxi⟩ := (mem_distinctIdx q _ i).mp hi
      have hne : ¬ widx q p.1 = i := by
        have := (List.mem_filter.mp hx).2
        simp at this
        rw [← hxi]; exact fun he => this he.symm
      simp only [rowOfIn]
      congr 1
      simp only [List.filter_cons, beq_iff_eq, hne, ↓reduceIte, List.filter_filter]
      apply List.filter_congr
      intro y _
      by_cases hy : widx q y.1 = i
      · simp [hy]; exact fun he => hne he.symm
      · simp [hy]

/-- window indices are monotone in time -/
theorem widx_mono (q : Req) (h : 0 < q.every) {t u : Int} (htu : t ≤ u) : widx q t ≤ widx q u :=
  Int.ediv_le_ediv h (by omega)

/-- for time-ordered points the distinct window indices ascend strictly -/
theorem distinctIdx_ascending (q : Req) (h : 0 < q.every) :
    ∀ pts : List (Pt Val), Sorted pts → (distinctIdx q pts).Pairwise (· < ·) := by
  intro pts
  fun_induction distinctIdx q pts with
  | case1 => intro _; exact List.Pairwise.nil
  | case2 p ps ih =>
    intro hs
    unfold Sorted at hs
    rw [List.pairwise_cons] at hs
    rw [List.pairwise_cons]
    refine ⟨?_, ih (hs.2.sublist List.filter_sublist)⟩
    intro i hi
    obtain ⟨x, hx, rfl⟩ := (mem_distinctIdx q _ i).mp hi
    have hm := List.mem_filter.mp hx
    have hle := widx_mono q h (hs.1 x hm.1)
    have hne : ¬ widx q x.1 = widx q p.1 := by simpa using hm.2
    omega

end Influx.FluxTable

namespace Influx.FluxTable
open Influx.WindowAgg Influx.Spec.C41

/-- the raw rows of window `i` -/
def members (q : Req) (pts : List (Pt Val)) (i : Int) : List (Pt Val) := pts.filter fun x => widx q x.1 == i

/-- value of a non-selector aggregate over a non-empty group -/
def aggVal (o : Ops Val) (agg : Agg) (l : List (Pt Val)) : Val :=
  match agg with
  | .count => o.ofCount l.length
  | .mean => o.mean (l.foldl (fun a x => o.add a x.2) o.zero) l.length
  | _ => l.foldl (fun a x => o.add a x.2) o.zero

theorem aggregate_nonsel (o : Ops Val) (agg : Agg) (hns : isSelector agg = false) (s : Int) (p : Pt Val) (ps : List (Pt Val)) :
    Spec.C20.aggregate o agg s (p :: ps) = some (s, aggVal o agg (p :: ps)) := by
  cases agg <;> simp_all [isSelector, Spec.C20.aggregate, aggVal]

theorem members_nonempty (q : Req) (pts : List (Pt Val)) (i : Int) (hi : i ∈ distinctIdx q pts) :
    members q pts i ≠ [] := by
  obtain ⟨x, hx, hxi⟩ := (mem_distinctIdx q pts i).mp hi
  intro he
  have : x ∈ members q pts i := List.mem_filter.mpr ⟨hx, by simp [hxi]⟩
  rw [he] at this; cases this

theorem members_empty (q : Req) (pts : List (Pt Val)) (i : Int) (hi : i ∉ distinctIdx q pts) :
    members q pts i = [] := by
  rw [members, List.filter_eq_nil_iff]
  intro x hx hxi
  exact hi ((mem_distinctIdx q pts i).mpr ⟨x, hx, by simpa using hxi⟩)

/-- the output of the storage cursor for a non-selector aggregate: one (window stop, value) per
    distinct window -/
theorem out_nonsel (o : Ops Val) (q : Req) (h : 0 < q.every) (hns : isSelector q.agg = false) (pts : List (Pt Val)) :
    Spec.C20.aggSpec o q.agg (stopFn q) pts =
      (distinctIdx q pts).map fun i => (q.offset + (i + 1) * q.every, aggVal o q.agg (members q pts i)) := by
  rw [aggSpec_windows o q h]
  have : ∀ i ∈ distinctIdx q pts, rowOfIn o q pts i = some (q.offset + (i + 1) * q.every, aggVal o q.agg (members q pts i)) := by
    intro i hi
    have hne := members_nonempty q pts i hi
    unfold rowOfIn
    cases hm : members q pts i with
    | nil => exact absurd hm hne
    | cons x xs =>
      have : (pts.filter fun x => widx q x.1 == i) = x :: xs := hm
      rw [this, aggregate_nonsel o q.agg hns]
  generalize distinctIdx q pts = W at *
  induction W with
  | nil => rfl
  | cons i is ih =>
    rw [filterMap_cons_toList, this i (by simp), ih (fun j hj => this j (by simp [hj]))]
    rfl

theorem widx_stop (q : Req) (h : 0 < q.every) (i : Int) : widx q (q.offset + (i + 1) * q.every) = i + 1 :=
  widx_unique q h _ (i + 1) (by omega) (by omega)

theorem pointWin_stop (q : Req) (h : 0 < q.every) (i : Int) : pointWin q true (q.offset + (i + 1) * q.every) = i := by
  simp [pointWin, widx_stop q h]

/-- window indices of points inside the bounds lie between the first and the last window -/
theorem widx_bounds (q : Req) (h : 0 < q.every) (hb : q.bstart < q.bstop) (t : Int) (h1 : q.bstart ≤ t) (h2 : t < q.bstop) :
    widx q q.bstart ≤ widx q t ∧ widx q t ≤ widx q (q.bstop - 1) :=
  ⟨widx_mono q h h1, widx_mono q h (by omega)⟩

theorem valueAt_out (q : Req) (h : 0 < q.every) (f : Int → Val) :
    ∀ (W : List Int) (k : Int),
    valueAt q true (W.map fun i => (q.offset + (i + 1) * q.every, f i)) k = if k ∈ W then some (f k) else none := by
  intro W
  induction W with
  | nil => intro k; simp [valueAt]
  | cons i is ih =>
    intro k
    have hi := ih k
    simp only [valueAt, List.map_cons, List.find?_cons, pointWin_stop q h] at hi ⊢
    by_cases hik : i = k
    · subst hik; simp
    · have : (i == k) = false := by simpa using hik
      simp only [this]
      rw [hi]
      have hk : (k = i) = False := by simp; exact fun he => hik he.symm
      simp [List.mem_cons, hk]

end Influx.FluxTable
