/-
  Lemmas.FluxTableCompose — "group by window" of Spec.C20 (what the storage cursor is proved to
  return) restated over the window indices of Spec.C41.
-/
import Influx.Lemmas.FluxTableEmpty
import Influx.Lemmas.WindowAggSpec

namespace Influx.FluxTable
open Influx.WindowAgg Influx.Spec.C41

/-- the C20 window function of the request -/
def stopFn (q : Req) : Int → Int := (Spec.C20.W.every q.every q.offset).stopOf

theorem stopFn_eq (q : Req) (t : Int) : stopFn q t = q.offset + (widx q t + 1) * q.every := rfl

theorem stopFn_beq (q : Req) (h : 0 < q.every) (t u : Int) :
    (stopFn q t == stopFn q u) = (widx q t == widx q u) := by
  rw [stopFn_eq, stopFn_eq]
  by_cases hw : widx q t = widx q u
  · rw [hw]; simp
  · have : ¬ (q.offset + (widx q t + 1) * q.every = q.offset + (widx q u + 1) * q.every) := by
      intro he
      have : (widx q t + 1) * q.every = (widx q u + 1) * q.every := by omega
      have := Int.eq_of_mul_eq_mul_right (by omega : q.every ≠ 0) this
      omega
    simp [hw, this]

/-- the aggregate of window `i` over the points `l` -/
def rowOfIn (o : Ops Val) (q : Req) (l : List (Pt Val)) (i : Int) : Option (Pt Val) :=
  Spec.C20.aggregate o q.agg (q.offset + (i + 1) * q.every) (l.filter fun x => widx q x.1 == i)

theorem mem_distinctIdx (q : Req) : ∀ (pts : List (Pt Val)) (i : Int),
    i ∈ distinctIdx q pts ↔ ∃ x ∈ pts, widx q x.1 = i := by
  intro pts
  fun_induction distinctIdx q pts with
  | case1 => intro i; simp
  | case2 p ps ih =>
    intro i
    simp only [List.mem_cons, ih, List.mem_filter, Bool.not_eq_eq_eq_not, Bool.not_true, beq_eq_false_iff_ne, ne_eq]
    constructor
    · rintro (rfl | ⟨x, ⟨hx, _⟩, rfl⟩)
      · exact ⟨p, Or.inl rfl, rfl⟩
      · exact ⟨x, Or.inr hx, rfl⟩
    · rintro ⟨x, (rfl | hx), rfl⟩
      · exact Or.inl rfl
      · by_cases he : widx q x.1 = widx q p.1
        · exact Or.inl he
        · exact Or.inr ⟨x, ⟨hx, he⟩, rfl⟩

theorem filterMap_cons_toList {β γ : Type} (f : β → Option γ) (x : β) (xs : List β) :
    (x :: xs).filterMap f = (f x).toList ++ xs.filterMap f := by
  cases h : f x <;> simp [h]

/-- **group by window, restated**: the grouped aggregate of C20 is the list of window
    aggregates over the distinct window indices -/
theorem aggSpec_windows (o : Ops Val) (q : Req) (h : 0 < q.every) :
    ∀ pts : List (Pt Val),
    Spec.C20.aggSpec o q.agg (stopFn q) pts = (distinctIdx q pts).filterMap (rowOfIn o q pts) := by
  intro pts
  fun_induction Spec.C20.aggSpec o q.agg (stopFn q) pts with
  | case1 => simp [distinctIdx]
  | case2 p ps s ih =>
    rw [distinctIdx, filterMap_cons_toList]
    have hf1 : ps.filter (fun x => stopFn q x.1 == s) = ps.filter (fun x => widx q x.1 == widx q p.1) :=
      List.filter_congr (fun x _ => stopFn_beq q h x.1 p.1)
    have hf2 : ps.filter (fun x => !(stopFn q x.1 == s)) = ps.filter (fun x => !(widx q x.1 == widx q p.1)) :=
      List.filter_congr (fun x _ => by rw [show s = stopFn q p.1 from rfl, stopFn_beq q h])
    rw [hf2] at ih
    rw [hf1, hf2, ih]
    congr 1
    · simp only [rowOfIn, List.filter_cons, beq_self_eq_true, ↓reduceIte]
      rfl
    · apply List.filterMap_congr
      intro i hi
      obtain ⟨x, hx, hxi⟩ := (mem_distinctIdx q _ i).mp hi
      have hne : ¬ widx q p.1 = i := by
        have := (List.mem_filter.mp hx).2
        simp at this
        rw [← hxi]; exact fun he => this he.symm
      simp only [rowOfIn]
      congr 1
      simp only [List.filter_cons, beq_iff_eq, hne, ↓reduceIte, List.filter_filter]
      apply List.filter_congr
      intro y _
      by_cases hy : widx q y.1 = i
      · simp [hy]; exact fun he => hne he.symm
      · simp [hy]

/-- window indices are monotone in time -/
theorem widx_mono (q : Req) (h : 0 < q.every) {t u : Int} (htu : t ≤ u) : widx q t ≤ widx q u :=
  Int.ediv_le_ediv h (by omega)

/-- for time-ordered points the distinct window indices ascend strictly -/
theorem distinctIdx_ascending (q : Req) (h : 0 < q.every) :
    ∀ pts : List (Pt Val), Sorted pts → (distinctIdx q pts).Pairwise (· < ·) := by
  intro pts
  fun_induction distinctIdx q pts with
  | case1 => intro _; exact List.Pairwise.nil
  | case2 p ps ih =>
    intro hs
    unfold Sorted at hs
    rw [List.pairwise_cons] at hs
    rw [List.pairwise_cons]
    refine ⟨?_, ih (hs.2.sublist List.filter_sublist)⟩
    intro i hi
    obtain ⟨x, hx, rfl⟩ := (mem_distinctIdx q _ i).mp hi
    have hm := List.mem_filter.mp hx
    have hle := widx_mono q h (hs.1 x hm.1)
    have hne : ¬ widx q x.1 = widx q p.1 := by simpa using hm.2
    omega

end Influx.FluxTable
