/-
  Lemmas.DurableQueueSeg — a well-formed segment (`SegWF`) behaves like a FIFO
  of its records: `current`, `advance`, `append`, `newSeg` (open) at the
  segment level.
-/
import Influx.Lemmas.DurableQueueBytes
namespace Influx.DQ

/-- `s` holds the records `done ++ rest` and its head stands at the first record of `rest`. -/
structure SegWF (s : Seg) (done rest : List Bytes) : Prop where
  file_eq : s.file = encRecs done ++ (encRecs rest ++ be64 s.pos)
  pos_eq : s.pos = (encRecs done).length
  fits : ∀ b ∈ rest, b.length ≤ s.maxSize
  small : s.file.length < 2^63

theorem SegWF.size_eq {s : Seg} {done rest} (h : SegWF s done rest) :
    s.size = (encRecs done).length + (encRecs rest).length + 8 := by
  simp [Seg.size, h.file_eq, be64_length]; omega

theorem SegWF.drop_pos {s : Seg} {done rest} (h : SegWF s done rest) :
    s.file.drop s.pos = encRecs rest ++ be64 s.pos := by
  conv => lhs; rw [h.file_eq]
  exact drop_len_append _ _ _ h.pos_eq

theorem SegWF.take_pos {s : Seg} {done rest} (h : SegWF s done rest) :
    s.file.take s.pos = encRecs done := by
  conv => lhs; rw [h.file_eq]
  exact take_len_append _ _ _ h.pos_eq

theorem SegWF.pos_lt {s : Seg} {done rest} (h : SegWF s done rest) : s.pos < 2^63 := by
  have := h.size_eq; have := h.small; have := h.pos_eq; simp [Seg.size] at *; omega

theorem SegWF.take_size8 {s : Seg} {done rest} (h : SegWF s done rest) :
    s.file.take (s.size - 8) = encRecs done ++ encRecs rest := by
  have hs := h.size_eq
  conv => lhs; rw [h.file_eq, ← List.append_assoc]
  apply take_len_append; simp; omega

theorem current_wf_nil {s : Seg} {done} (h : SegWF s done []) : s.current = .error .eof := by
  have hs := h.size_eq; have hp := h.pos_eq
  simp at hs
  simp [Seg.current, hp, hs]

theorem current_wf_cons {s : Seg} {done r rs} (h : SegWF s done (r :: rs)) : s.current = .ok r := by
  have hs := h.size_eq; have hp := h.pos_eq
  have hr : r.length ≤ s.maxSize := h.fits r (by simp)
  have hsm := h.small
  have hlt : r.length < 2^64 := by simp [Seg.size] at hs; omega
  have hd := h.drop_pos
  simp only [encRecs_cons, encRec, List.append_assoc] at hd
  have hd8 : s.file.drop (s.pos + 8) = r ++ (encRecs rs ++ be64 s.pos) := by
    rw [← List.drop_drop, hd]
    exact drop_len_append _ _ _ (by simp [be64_length])
  unfold Seg.current
  rw [if_neg (by simp at hs; omega), hd, read8_be64 _ hlt]
  simp only []
  rw [if_neg (by omega), hd8, readN_append]

theorem advance_wf_nil {s : Seg} {done} (h : SegWF s done []) : s.advance = (s, some .eof) := by
  have hs := h.size_eq; have hp := h.pos_eq
  simp at hs
  simp [Seg.advance, hp, hs]

theorem toI64_small (n : Nat) (h : n < 2^63) : toI64 n = n := by simp [toI64, h]
theorem wrap64_small (i : Int) (h0 : 0 ≤ i) (h : i < 2^63) : wrap64 i = i := by
  unfold wrap64; rw [if_neg (by omega), if_neg (by omega)]

theorem advance_wf_cons {s : Seg} {done r rs} (h : SegWF s done (r :: rs)) :
    SegWF s.advance.1 (done ++ [r]) rs ∧ s.advance.1.maxSize = s.maxSize ∧
    s.advance.2 = (if rs = [] then some .eof else none) := by
  have hs := h.size_eq; have hp := h.pos_eq
  have hsm := h.small
  have hsz : s.file.length = s.size := rfl
  simp only [encRecs_cons, encRec_length, List.length_append] at hs
  have hlt : r.length < 2^63 := by omega
  have hd := h.drop_pos
  simp only [encRecs_cons, encRec, List.append_assoc] at hd
  have hpos : ((s.pos : Int) + (r.length : Int) + 8) = ((s.pos + r.length + 8 : Nat) : Int) := by omega
  have hadv : s.advance = s.advanceTo ((s.pos + r.length + 8 : Nat) : Int) := by
    unfold Seg.advance
    rw [if_neg (by omega), hd, read8_be64 _ (by omega)]
    simp only []
    rw [toI64_small _ hlt, hpos, wrap64_small _ (by omega) (by omega)]
  rw [hadv]
  unfold Seg.advanceTo
  rw [if_neg (by omega)]
  simp only [Int.toNat_natCast]
  rw [if_neg (by omega)]
  have hlen : (encRecs (done ++ [r])).length = s.pos + r.length + 8 := by
    simp [encRecs_append, hp]; omega
  have hwf : SegWF { file := s.file.take (s.size - 8) ++ be64 (s.pos + r.length + 8),
                     pos := s.pos + r.length + 8, maxSize := s.maxSize } (done ++ [r]) rs := by
    refine ⟨?_, hlen.symm, fun b hb => h.fits b (by simp [hb]), ?_⟩
    · simp only [h.take_size8, encRecs_append, encRecs_cons, encRecs_nil, List.append_nil, List.append_assoc]
    · simp [be64_length]; omega
  by_cases hrs : rs = []
  · subst hrs
    simp only [encRecs_nil, List.length_nil] at hs
    rw [if_pos (by omega)]
    exact ⟨hwf, rfl, by simp⟩
  · have : (encRecs rs).length > 0 := by
      cases rs with
      | nil => exact absurd rfl hrs
      | cons a t => simp; omega
    rw [if_neg (by omega)]
    exact ⟨hwf, rfl, by simp [hrs]⟩

theorem append_wf {s : Seg} {done rest} (h : SegWF s done rest) (b : Bytes)
    (hfull : ¬ s.size > s.maxSize) (hsmall : s.size + b.length + 8 < 2^63) :
    ∃ s', s.append b = .ok s' ∧ SegWF s' done (rest ++ [b]) ∧ s'.maxSize = max s.maxSize b.length := by
  refine ⟨{ file := s.file.take (s.size - 8) ++ (be64 b.length ++ b ++ be64 s.pos),
             pos := s.pos, maxSize := max s.maxSize b.length },
    by simp [Seg.append, hfull], ⟨?_, h.pos_eq, ?_, ?_⟩, rfl⟩
  · simp only [h.take_size8, encRecs_append, encRecs_cons, encRecs_nil, List.append_nil, encRec,
      List.append_assoc]
  · intro x hx
    simp only [List.mem_append, List.mem_singleton] at hx
    rcases hx with hx | hx
    · have := h.fits x hx; show x.length ≤ max s.maxSize b.length; omega
    · subst hx; show x.length ≤ max s.maxSize x.length; omega
  · have := h.size_eq
    simp [be64_length, Seg.size] at *; omega

end Influx.DQ
