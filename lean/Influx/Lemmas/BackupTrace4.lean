/-
  Lemmas.BackupTrace4 — along any run of the model, the statement checker
  (Spec.C38.judge) only ever reports the four known kinds of failure.
-/
import Influx.Lemmas.BackupTrace3

namespace Influx.Backup
open Influx.Spec.C38

/-- what the model stored under an archive id and what the checker recorded for it correspond -/
def RecOK (r : Rec) (kind : ArchKind) (ar : Archive) : Prop :=
  ∃ s : Shard, s.Inv ∧ s.cache = [] ∧ s.seriesOK = true ∧
    r.files = listing s.files ∧ r.blocks = blockListing s.files ∧ r.d = s.dump ∧
    ((kind = .backup ∧ ∃ since, r.made = .backup since ∧ ar = backupEntries since s.files) ∨
     (kind = .export ∧ ∃ a e, r.made = .export a e ∧ a ≤ e ∧ exportEntries a e s.files = .ok ar))

inductive Linked : List (String × ArchKind × Archive) → List Rec → Prop
  | nil : Linked [] []
  | cons {id : String} {kind : ArchKind} {ar : Archive} {r : Rec} {arcs : List (String × ArchKind × Archive)}
      {recs : List Rec} : r.id = id → RecOK r kind ar → Linked arcs recs →
      Linked ((id, kind, ar) :: arcs) (r :: recs)

theorem Linked.lookup {arcs : List (String × ArchKind × Archive)} {recs : List Rec} (h : Linked arcs recs)
    (id : String) :
    (arcs.lookup id = none ∧ findRec recs id = none) ∨
    ∃ kind ar r, arcs.lookup id = some (kind, ar) ∧ findRec recs id = some r ∧ RecOK r kind ar := by
  induction h with
  | nil => left; exact ⟨rfl, rfl⟩
  | @cons id' kind ar r arcs recs hid hok _ ih =>
    by_cases he : id = id'
    · right
      subst he
      refine ⟨kind, ar, r, ?_, ?_, hok⟩
      · simp [List.lookup]
      · simp [findRec, List.find?, hid]
    · have h1 : (id == id') = false := by simp [he]
      have h2 : (r.id == id) = false := by rw [hid]; simp; exact fun h => he h.symm
      rcases ih with ⟨a, b⟩ | ⟨k, a, r', h3, h4, h5⟩
      · left
        constructor
        · simp [List.lookup, h1, a]
        · simp only [findRec, List.find?, h2]; exact b
      · right
        refine ⟨k, a, r', ?_, ?_, h5⟩
        · simp [List.lookup, h1, h3]
        · simp only [findRec, List.find?, h2]; exact h4

/-- the side condition of the series clause holds after every step of the run -/
def SeriesAlong : State → List Op → Prop
  | _, [] => True
  | st, op :: rest => (step st op).1.src.seriesOK = true ∧ SeriesAlong (step st op).1 rest

theorem known_of_mem_nil {sig : Sig} (h : sig ∈ ([] : List Sig)) : sig.known = true := by simp at h

theorem lookupAll_single {st : State} {id : String} {as : List (ArchKind × Archive)}
    (h : lookupAll st [id] = some as) : ∃ a, st.archive? id = some a ∧ as = [a] := by
  simp only [lookupAll] at h
  cases ha : st.archive? id with
  | none => simp [ha] at h
  | some a => simp [ha] at h; exact ⟨a, rfl, h.symm⟩

/-- one step: the checker reports only known kinds, and its records stay linked -/
theorem judge_step (st : State) (recs : List Rec) (hinv : st.src.Inv) (hl : Linked st.archives recs)
    (op : Op) (hso : (step st op).1.src.seriesOK = true) :
    (∀ sig ∈ (judge recs op (step st op).2).1, sig.known = true) ∧
    Linked (step st op).1.archives (judge recs op (step st op).2).2 := by
  cases op with
  | write k t0 sp n v0 =>
    simp only [step]
    split <;> exact ⟨fun _ h => known_of_mem_nil h, hl⟩
  | delete ks lo hi =>
    simp only [step]
    split <;> exact ⟨fun _ h => known_of_mem_nil h, hl⟩
  | snap => exact ⟨fun _ h => known_of_mem_nil h, hl⟩
  | compact => exact ⟨fun _ h => known_of_mem_nil h, hl⟩
  | age sec =>
    simp only [step]
    split <;> exact ⟨fun _ h => known_of_mem_nil h, hl⟩
  | dump => exact ⟨fun _ h => known_of_mem_nil h, hl⟩
  | backup id since =>
    simp only [step, Shard.backup, State.put] at hso ⊢
    simp only [judge]
    refine ⟨?_, ?_⟩
    · intro sig hsig
      rw [incrementalOK_backup] at hsig
      simp at hsig
    · refine Linked.cons rfl ?_ hl
      exact ⟨st.src.flush, Shard.Inv_flush _ hinv, flush_cache _, hso, rfl, rfl, rfl,
        Or.inl ⟨rfl, since, rfl, rfl⟩⟩
  | «export» id a e =>
    simp only [step] at hso ⊢
    split
    · exact ⟨fun _ h => known_of_mem_nil h, hl⟩
    · next hae =>
      have hae' : a ≤ e := Int.not_lt.mp hae
      simp only [Shard.export] at hso ⊢
      cases hx : exportEntries a e st.src.flush.files with
      | error x =>
        simp only [hx] at hso ⊢
        refine ⟨?_, hl⟩
        intro sig hsig
        simp only [judge, List.mem_singleton] at hsig
        subst hsig
        split
        · rfl
        · next hnt =>
          have hnt' : hasTombstone (listing st.src.flush.files) = false := by simpa using hnt
          cases x with
          | tombstone =>
            exfalso
            have := (hasTombstone_listing _).mpr (exportEntries_tombstone hx)
            rw [hnt'] at this; simp at this
          | noValues =>
            rw [gapFile_of_noValues _ (Shard.Inv_flush _ hinv) a e hae' hnt' hx]
            rfl
      | ok ar =>
        simp only [hx, State.put] at hso ⊢
        refine ⟨fun _ h => known_of_mem_nil h, Linked.cons rfl ?_ hl⟩
        exact ⟨st.src.flush, Shard.Inv_flush _ hinv, flush_cache _, hso, rfl, rfl, rfl,
          Or.inr ⟨rfl, a, e, rfl, hae', hx⟩⟩
  | restore ids =>
    simp only [step]
    cases hla : lookupAll st ids with
    | none => exact ⟨fun _ h => known_of_mem_nil h, hl⟩
    | some as =>
      simp only []
      split
      · exact ⟨fun _ h => known_of_mem_nil h, hl⟩
      · next hne =>
        -- a target observation
        match ids, hla with
        | [], _ => exact ⟨fun _ h => known_of_mem_nil h, hl⟩
        | [id], hla =>
          obtain ⟨a, ha, rfl⟩ := lookupAll_single hla
          simp only [judge]
          rcases hl.lookup id with ⟨hn, _⟩ | ⟨kind, ar, r, h1, h2, hok⟩
          · simp [State.archive?, hn] at ha
          · have : a = (kind, ar) := by simp [State.archive?, h1] at ha; exact ha.symm
            subst this
            rw [h2]
            obtain ⟨s, hsi, hsc, hsso, hfiles, _, hd, hkind⟩ := hok
            refine ⟨?_, hl⟩
            rcases hkind with ⟨_, since, hmade, har⟩ | ⟨hk, _⟩
            · rw [hmade]
              cases since with
              | some t => exact fun _ h => known_of_mem_nil h
              | none =>
                simp only []
                intro sig hsig
                split at hsig
                · simp at hsig
                · next hdiff =>
                  simp only [List.mem_singleton] at hsig
                  subst hsig
                  split
                  · rfl
                  · next hnt =>
                    exfalso
                    apply hdiff
                    have hnt' : hasTombstone (listing s.files) = false := by
                      rw [← hfiles]; simpa using hnt
                    rw [hd, har]
                    simpa [Shard.empty] using restore_same s hsi hsc hsso hnt'
            · -- an Export archive: the step answered bad-op, excluded by `hne`
              exfalso; apply hne; simp [hk]
        | _ :: _ :: _, _ => exact ⟨fun _ h => known_of_mem_nil h, hl⟩
  | importA ids =>
    simp only [step]
    cases hla : lookupAll st ids with
    | none => exact ⟨fun _ h => known_of_mem_nil h, hl⟩
    | some as =>
      simp only []
      match ids, hla with
      | [], _ => exact ⟨fun _ h => known_of_mem_nil h, hl⟩
      | [id], hla =>
        obtain ⟨a, ha, rfl⟩ := lookupAll_single hla
        simp only [judge]
        rcases hl.lookup id with ⟨hn, _⟩ | ⟨kind, ar, r, h1, h2, hok⟩
        · simp [State.archive?, hn] at ha
        · have : a = (kind, ar) := by simp [State.archive?, h1] at ha; exact ha.symm
          subst this
          rw [h2]
          obtain ⟨s, hsi, hsc, hsso, hfiles, hblocks, hd, hkind⟩ := hok
          refine ⟨?_, hl⟩
          rcases hkind with ⟨_, since, hmade, har⟩ | ⟨_, a', e', hmade, hae, hx⟩
          · rw [hmade]
            cases since with
            | some t => exact fun _ h => known_of_mem_nil h
            | none =>
              simp only []
              intro sig hsig
              split at hsig
              · simp at hsig
              · next hdiff =>
                simp only [List.mem_singleton] at hsig
                subst hsig
                split
                · rfl
                · next hnt =>
                  exfalso
                  apply hdiff
                  have hnt' : hasTombstone (listing s.files) = false := by
                    rw [← hfiles]; simpa using hnt
                  rw [hd, har]
                  simpa [Shard.empty] using import_same s hsi hsc hsso hnt'
          · rw [hmade]
            simp only []
            intro sig hsig
            rw [hd, hblocks] at hsig
            have h1 : exportLower a' e' s.dump (List.foldl (fun t a => t.importA a.2) Shard.empty [(kind, ar)]).dump = true := by
              simpa using exportLower_ok s hsi hsc a' e' ar hx
            have h2 : exportWithinBlocks a' e' (blockListing s.files)
                (List.foldl (fun t a => t.importA a.2) Shard.empty [(kind, ar)]).dump = true := by
              simpa using exportWithinBlocks_ok s hsi a' e' hae ar hx
            rw [h1, h2] at hsig
            simp only [if_true, List.nil_append] at hsig
            split at hsig
            · simp at hsig
            · simp only [List.mem_singleton] at hsig; subst hsig; rfl
      | _ :: _ :: _, _ => exact ⟨fun _ h => known_of_mem_nil h, hl⟩

/-- **along any run, only known kinds of failure** -/
theorem failures_known (ops : List Op) (st : State) (recs : List Rec) (hinv : st.src.Inv)
    (hl : Linked st.archives recs) (hs : SeriesAlong st ops) :
    ∀ sig ∈ failuresFrom recs (run st ops), sig.known = true := by
  induction ops generalizing st recs with
  | nil => intro sig h; simp [run, failuresFrom] at h
  | cons op rest ih =>
    intro sig hsig
    simp only [run, failuresFrom] at hsig
    obtain ⟨hk, hl'⟩ := judge_step st recs hinv hl op hs.1
    rcases List.mem_append.mp hsig with h | h
    · exact hk sig h
    · exact ih (step st op).1 _ (step_Inv st op hinv) hl' hs.2 sig h

end Influx.Backup
