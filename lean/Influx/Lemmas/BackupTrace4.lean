/-
  Lemmas.BackupTrace4 — along any run of the model, the statement checker
  (Spec.C38.judge) only ever reports the four known kinds of failure.
-/
import Influx.Lemmas.BackupTrace3

namespace Influx.Backup
open Influx.Spec.C38

/-- what the model stored under an archive id and what the checker recorded for it correspond -/
def RecOK (r : Rec) (kind : ArchKind) (ar : Archive) : Prop :=
  ∃ s : Shard, s.Inv ∧ s.cache = [] ∧ s.seriesOK = true ∧
    r.files = listing s.files ∧ r.blocks = blockListing s.files ∧ r.d = s.dump ∧
    ((kind = .backup ∧ ∃ since, r.made = .backup since ∧ ar = backupEntries since s.files) ∨
     (kind = .export ∧ ∃ a e, r.made = .export a e ∧ a ≤ e ∧ exportEntries a e s.files = .ok ar))

inductive Linked : List (String × ArchKind × Archive) → List Rec → Prop
  | nil : Linked [] []
  | cons {id : String} {kind : ArchKind} {ar : Archive} {r : Rec} {arcs : List (String × ArchKind × Archive)}
      {recs : List Rec} : r.id = id → RecOK r kind ar → Linked arcs recs →
      Linked ((id, kind, ar) :: arcs) (r :: recs)

theorem Linked.lookup {arcs : List (String × ArchKind × Archive)} {recs : List Rec} (h : Linked arcs recs)
    (id : String) :
    (arcs.lookup id = none ∧ findRec recs id = none) ∨
    ∃ kind ar r, arcs.lookup id = some (kind, ar) ∧ findRec recs id = some r ∧ RecOK r kind ar := by
  induction h with
  | nil => left; exact ⟨rfl, rfl⟩
  | @cons id' kind ar r arcs recs hid hok _ ih =>
    by_cases he : id = id'
    · right
      subst he
      refine ⟨kind, ar, r, ?_, ?_, hok⟩
      · simp [List.lookup]
      · simp [findRec, List.find?, hid]
    · have h1 : (id == id') = false := by simp [he]
      have h2 : (r.id == id) = false := by rw [hid]; simp; exact fun h => he h.symm
      rcases ih with ⟨a, b⟩ | ⟨k, a, r', h3, h4, h5⟩
      · left
        constructor
        · simp [List.lookup, h1, a]
        · simp only [findRec, List.find?, h2]; exact b
      · right
        refine ⟨k, a, r', ?_, ?_, h5⟩
        · simp [List.lookup, h1, h3]
        · simp only [findRec, List.find?, h2]; exact h4

/-- the side condition of the series clause holds after every step of the run -/
def SeriesAlong : State → List Op → Prop
  | _, [] => True
  | st, op :: rest => (step st op).1.src.seriesOK = true ∧ SeriesAlong (step st op).1 rest

theorem known_of_mem_nil {sig : Sig} (h : sig ∈ ([] : List Sig)) : sig.known = true := by simp at h

theorem lookupAll_single {st : State} {id : String} {as : List (ArchKind × Archive)}
    (h : lookupAll st [id] = some as) : ∃ a, st.archive? id = some a ∧ as = [a] := by
  simp only [lookupAll] at h
  cases ha : st.archive? id with
  | none => simp [ha] at h
  | some a => simp [ha] at h; exact ⟨a, rfl, h.symm⟩

/-! ### `judge` on the observations of restore / import -/

theorem judge_target_snd (recs : List Rec) (op : Op) (files : List FName) (d : Dump) :
    (judge recs op (.target files d)).2 = recs := by
  cases op with
  | restore ids =>
    match ids with
    | [] => rfl
    | [id] =>
      simp only [judge]
      cases findRec recs id with
      | none => rfl
      | some r => cases hm : r.made with
        | backup since => cases since <;> simp [hm]
        | «export» a e => simp [hm]
    | _ :: _ :: _ => rfl
  | importA ids =>
    match ids with
    | [] => rfl
    | [id] =>
      simp only [judge]
      cases findRec recs id with
      | none => rfl
      | some r => cases hm : r.made with
        | backup since => cases since <;> simp [hm]
        | «export» a e => simp [hm]
    | _ :: _ :: _ => rfl
  | write => rfl
  | delete => rfl
  | snap => rfl
  | compact => rfl
  | age => rfl
  | backup => rfl
  | «export» => rfl
  | dump => rfl
  | bigcase => rfl

theorem judge_restore_single {recs : List Rec} {id : String} {r : Rec} (h : findRec recs id = some r)
    (files : List FName) (d : Dump) :
    (judge recs (.restore [id]) (.target files d)).1 =
      match r.made with
      | .backup none =>
        if sameContent r.d d then [] else [if hasTombstone r.files then .restoreLostTombstone else .restoreDiffers]
      | _ => [] := by
  simp only [judge, h]
  cases hm : r.made with
  | backup since => cases since <;> simp [hm]
  | «export» a e => simp [hm]

theorem judge_import_single {recs : List Rec} {id : String} {r : Rec} (h : findRec recs id = some r)
    (files : List FName) (d : Dump) :
    (judge recs (.importA [id]) (.target files d)).1 =
      match r.made with
      | .backup none =>
        if sameContent r.d d then [] else [if hasTombstone r.files then .restoreLostTombstone else .restoreDiffers]
      | .backup (some _) => []
      | .export a e =>
        (if exportLower a e r.d d then [] else [.exportMissingPoint]) ++
        (if exportWithinBlocks a e r.blocks d then [] else [.exportOutsideBlocks]) ++
        (if exportExact a e r.d d then [] else [.exportExtraPoints]) := by
  simp only [judge, h]
  cases hm : r.made with
  | backup since => cases since <;> simp [hm]
  | «export» a e => simp [hm]

theorem judge_restore_multi (recs : List Rec) (i1 i2 : String) (rest : List String) (o : Obs) :
    (judge recs (.restore (i1 :: i2 :: rest)) o).1.all Sig.known = true ∨
    (judge recs (.restore (i1 :: i2 :: rest)) o).1 = [.badObservation] := by
  cases o <;> simp [judge]

theorem judge_restore_noArchive (recs : List Rec) (ids : List String) :
    judge recs (.restore ids) .noArchive = ([], recs) := by
  match ids with
  | [] => rfl
  | [_] => rfl
  | _ :: _ :: _ => rfl

theorem judge_restore_badOp (recs : List Rec) (ids : List String) :
    judge recs (.restore ids) .badOp = ([], recs) := by
  match ids with
  | [] => rfl
  | [_] => rfl
  | _ :: _ :: _ => rfl

theorem judge_import_noArchive (recs : List Rec) (ids : List String) :
    judge recs (.importA ids) .noArchive = ([], recs) := by
  match ids with
  | [] => rfl
  | [_] => rfl
  | _ :: _ :: _ => rfl

/-- the content check of a full backup's restore / import passes or blames a tombstone file -/
theorem content_sig_known {r : Rec} {d : Dump} (h : hasTombstone r.files = false → sameContent r.d d = true) :
    ∀ sig ∈ (if sameContent r.d d then [] else
      [if hasTombstone r.files then Sig.restoreLostTombstone else Sig.restoreDiffers]), sig.known = true := by
  intro sig hsig
  split at hsig
  · simp at hsig
  · next hdiff =>
    simp only [List.mem_singleton] at hsig
    subst hsig
    cases ht : hasTombstone r.files with
    | true => rfl
    | false => exact absurd (h ht) hdiff

/-- one step: the checker reports only known kinds, and its records stay linked -/
theorem judge_step (st : State) (recs : List Rec) (hinv : st.src.Inv) (hl : Linked st.archives recs)
    (op : Op) (hso : (step st op).1.src.seriesOK = true) :
    (∀ sig ∈ (judge recs op (step st op).2).1, sig.known = true) ∧
    Linked (step st op).1.archives (judge recs op (step st op).2).2 := by
  cases op with
  | write k t0 sp n v0 =>
    simp only [step]
    split <;> exact ⟨fun _ h => known_of_mem_nil h, hl⟩
  | delete ks lo hi =>
    simp only [step]
    split <;> exact ⟨fun _ h => known_of_mem_nil h, hl⟩
  | snap => exact ⟨fun _ h => known_of_mem_nil h, hl⟩
  | compact => exact ⟨fun _ h => known_of_mem_nil h, hl⟩
  | age sec =>
    simp only [step]
    split <;> exact ⟨fun _ h => known_of_mem_nil h, hl⟩
  | dump => exact ⟨fun _ h => known_of_mem_nil h, hl⟩
  | bigcase n imp =>
    simp only [step]; split
    · exact ⟨fun _ h => known_of_mem_nil h, hl⟩
    · exact ⟨fun sig h => by simp [judge] at h, hl⟩
  | backup id since =>
    simp only [step, Shard.backup, State.put] at hso ⊢
    simp only [judge]
    refine ⟨?_, ?_⟩
    · intro sig hsig
      rw [incrementalOK_backup] at hsig
      simp at hsig
    · refine Linked.cons rfl ?_ hl
      exact ⟨st.src.flush, Shard.Inv_flush _ hinv, flush_cache _, hso, rfl, rfl, rfl,
        Or.inl ⟨rfl, since, rfl, rfl⟩⟩
  | «export» id a e =>
    by_cases hae : a > e
    · have hst : step st (.export id a e) = (st, .badOp) := by simp [step, hae]
      rw [hst]
      exact ⟨fun _ h => known_of_mem_nil h, hl⟩
    · have hae' : a ≤ e := Int.not_lt.mp hae
      cases hx : exportEntries a e st.src.flush.files with
      | error x =>
        have hst : step st (.export id a e) =
            ({ st with src := st.src.flush }, .exportErr x (listing st.src.flush.files) (blockListing st.src.flush.files)) := by
          simp [step, hae, Shard.export, hx]
        rw [hst]
        refine ⟨?_, hl⟩
        intro sig hsig
        simp only [judge, List.mem_singleton] at hsig
        subst hsig
        cases hnt : hasTombstone (listing st.src.flush.files) with
        | true => rfl
        | false =>
          cases x with
          | tombstone =>
            exfalso
            have := (hasTombstone_listing _).mpr (exportEntries_tombstone hx)
            rw [hnt] at this; simp at this
          | noValues =>
            simp [gapFile_of_noValues _ (Shard.Inv_flush _ hinv) a e hae' hnt hx, Sig.known]
      | ok ar =>
        have hst : step st (.export id a e) =
            (({ st with src := st.src.flush } : State).put id .export ar,
             .snapshot (archiveNames ar) (listing st.src.flush.files) (blockListing st.src.flush.files) st.src.flush.dump) := by
          simp [step, hae, Shard.export, hx]
        rw [hst] at hso ⊢
        refine ⟨fun _ h => known_of_mem_nil h, Linked.cons rfl ?_ hl⟩
        exact ⟨st.src.flush, Shard.Inv_flush _ hinv, flush_cache _, hso, rfl, rfl, rfl,
          Or.inr ⟨rfl, a, e, rfl, hae', hx⟩⟩
  | restore ids =>
    cases hla : lookupAll st ids with
    | none =>
      have hst : step st (.restore ids) = (st, .noArchive) := by simp [step, hla]
      rw [hst]; simp only [judge_restore_noArchive]; exact ⟨fun _ h => known_of_mem_nil h, hl⟩
    | some as =>
      by_cases hex : (as.any fun a => a.1 == .export) = true
      · have hst : step st (.restore ids) = (st, .badOp) := by simp [step, hla, hex]
        rw [hst]; simp only [judge_restore_badOp]; exact ⟨fun _ h => known_of_mem_nil h, hl⟩
      · have hst : step st (.restore ids) =
            (st, .target (targetNames (as.foldl (fun t a => t.restore a.2) Shard.empty).files)
                         (as.foldl (fun t a => t.restore a.2) Shard.empty).dump) := by
          simp [step, hla, hex]
        rw [hst]
        refine ⟨?_, by rw [judge_target_snd]; exact hl⟩
        match ids, hla with
        | [], _ => exact fun _ h => known_of_mem_nil h
        | _ :: _ :: _, _ => exact fun _ h => known_of_mem_nil h
        | [id], hla =>
          obtain ⟨a, ha, rfl⟩ := lookupAll_single hla
          rcases hl.lookup id with ⟨hn, _⟩ | ⟨kind, ar, r, h1, h2, hok⟩
          · simp [State.archive?, hn] at ha
          · have : a = (kind, ar) := by simp [State.archive?, h1] at ha; exact ha.symm
            subst this
            rw [judge_restore_single h2]
            obtain ⟨s, hsi, hsc, hsso, hfiles, _, hd, hkind⟩ := hok
            rcases hkind with ⟨_, since, hmade, har⟩ | ⟨hk, _⟩
            · rw [hmade]
              cases since with
              | some t => exact fun _ h => known_of_mem_nil h
              | none =>
                apply content_sig_known
                intro hnt
                rw [hfiles] at hnt
                rw [hd, har]
                simpa [Shard.empty] using restore_same s hsi hsc hsso hnt
            · exfalso; apply hex; simp [hk]
  | importA ids =>
    cases hla : lookupAll st ids with
    | none =>
      have hst : step st (.importA ids) = (st, .noArchive) := by simp [step, hla]
      rw [hst]; simp only [judge_import_noArchive]; exact ⟨fun _ h => known_of_mem_nil h, hl⟩
    | some as =>
      have hst : step st (.importA ids) =
          (st, .target (targetNames (as.foldl (fun t a => t.importA a.2) Shard.empty).files)
                       (as.foldl (fun t a => t.importA a.2) Shard.empty).dump) := by
        simp [step, hla]
      rw [hst]
      refine ⟨?_, by rw [judge_target_snd]; exact hl⟩
      match ids, hla with
      | [], _ => exact fun _ h => known_of_mem_nil h
      | _ :: _ :: _, _ => exact fun _ h => known_of_mem_nil h
      | [id], hla =>
        obtain ⟨a, ha, rfl⟩ := lookupAll_single hla
        rcases hl.lookup id with ⟨hn, _⟩ | ⟨kind, ar, r, h1, h2, hok⟩
        · simp [State.archive?, hn] at ha
        · have : a = (kind, ar) := by simp [State.archive?, h1] at ha; exact ha.symm
          subst this
          rw [judge_import_single h2]
          obtain ⟨s, hsi, hsc, hsso, hfiles, hblocks, hd, hkind⟩ := hok
          rcases hkind with ⟨_, since, hmade, har⟩ | ⟨_, a', e', hmade, hae, hx⟩
          · rw [hmade]
            cases since with
            | some t => exact fun _ h => known_of_mem_nil h
            | none =>
              apply content_sig_known
              intro hnt
              rw [hfiles] at hnt
              rw [hd, har]
              simpa [Shard.empty] using import_same s hsi hsc hsso hnt
          · rw [hmade]
            simp only []
            intro sig hsig
            rw [hd, hblocks] at hsig
            have h1 : exportLower a' e' s.dump (List.foldl (fun t a => t.importA a.2) Shard.empty [(kind, ar)]).dump = true := by
              simpa using exportLower_ok s hsi hsc a' e' ar hx
            have h2 : exportWithinBlocks a' e' (blockListing s.files)
                (List.foldl (fun t a => t.importA a.2) Shard.empty [(kind, ar)]).dump = true := by
              simpa using exportWithinBlocks_ok s hsi a' e' hae ar hx
            rw [h1, h2] at hsig
            simp only [if_true, List.nil_append] at hsig
            split at hsig
            · simp at hsig
            · simp only [List.mem_singleton] at hsig; subst hsig; rfl

/-- **along any run, only known kinds of failure** -/
theorem failures_known (ops : List Op) (st : State) (recs : List Rec) (hinv : st.src.Inv)
    (hl : Linked st.archives recs) (hs : SeriesAlong st ops) :
    ∀ sig ∈ failuresFrom recs (run st ops), sig.known = true := by
  induction ops generalizing st recs with
  | nil => intro sig h; simp [run, failuresFrom] at h
  | cons op rest ih =>
    intro sig hsig
    simp only [run, failuresFrom] at hsig
    obtain ⟨hk, hl'⟩ := judge_step st recs hinv hl op hs.1
    rcases List.mem_append.mp hsig with h | h
    · exact hk sig h
    · exact ih (step st op).1 _ (step_Inv st op hinv) hl' hs.2 sig h

end Influx.Backup
