/-
  Lemmas.TSIQuery — what the views answer in a state that satisfies the invariant.
-/
import Influx.Lemmas.TSIStepDrop

namespace Influx.Model.TSI

/-! #### listings -/

theorem mem_fsMeasurements (fs : List FileData) (n : String) :
    n ∈ fsMeasurements fs ↔ firstSome (measFlag n) fs = some false := by
  unfold fsMeasurements
  rw [mem_sortStr, List.mem_filter]
  constructor
  · rintro ⟨_, h⟩; simpa using h
  · intro h
    refine ⟨?_, by simp [h]⟩
    obtain ⟨f, hf, hg⟩ := firstSome_eq_some h
    rw [List.mem_flatMap]
    refine ⟨f, hf, ?_⟩
    unfold measFlag at hg
    cases hm : alookup f.mms n with
    | none => simp [hm] at hg
    | some mm => exact (alookup_isSome_iff f.mms n).mp (by simp [hm])

/-- if every file that has the element has it unflagged, and some file has it, the merged
    listing shows it. -/
theorem firstSome_false {get : FileData → Option Bool} {fs : List FileData}
    (hall : ∀ f ∈ fs, ∀ b, get f = some b → b = false) (hex : ∃ f ∈ fs, (get f).isSome) :
    firstSome get fs = some false := by
  cases hf : firstSome get fs with
  | none =>
    obtain ⟨f, hfm, hs⟩ := hex
    have := firstSome_eq_none.mp hf f hfm
    simp [this] at hs
  | some b =>
    obtain ⟨f, hfm, hg⟩ := firstSome_eq_some hf
    rw [hall f hfm b hg]

theorem mem_fsTagKeys_of (fs : List FileData) (hnf : ∀ f ∈ fs, NoFlags f) (n k : String)
    (hex : ∃ f ∈ fs, (keyElem n k f).isSome) : k ∈ fsTagKeys fs n := by
  unfold fsTagKeys
  rw [mem_sortStr, List.mem_filter]
  obtain ⟨f, hf, hs⟩ := hex
  refine ⟨List.mem_flatMap.mpr ⟨f, hf, (mem_fileKeys_iff n k f).mpr hs⟩, ?_⟩
  have : firstSome (fun f => (keyElem n k f).map (·.deleted)) fs = some false := by
    apply firstSome_false
    · intro g hg b hb
      cases hk : keyElem n k g with
      | none => simp [hk] at hb
      | some tk =>
        simp only [hk, Option.map_some, Option.some.injEq] at hb
        rw [← hb]; exact (hnf g hg).key n k tk hk
    · exact ⟨f, hf, by cases hk : keyElem n k f <;> simp_all⟩
  simp [this]

theorem mem_fileValues_iff (n k v : String) (f : FileData) :
    v ∈ fileValues n k f ↔ (valElem n k v f).isSome := by
  unfold fileValues valElem
  cases keyElem n k f with
  | none => simp
  | some tk => simp [alookup_isSome_iff]

theorem mem_fsTagValues_of (fs : List FileData) (hnf : ∀ f ∈ fs, NoFlags f) (n k v : String)
    (hex : ∃ f ∈ fs, (valElem n k v f).isSome) : v ∈ fsTagValues fs n k := by
  unfold fsTagValues
  rw [mem_sortStr, List.mem_filter]
  obtain ⟨f, hf, hs⟩ := hex
  refine ⟨List.mem_flatMap.mpr ⟨f, hf, (mem_fileValues_iff n k v f).mpr hs⟩, ?_⟩
  have : firstSome (fun f => (valElem n k v f).map (·.deleted)) fs = some false := by
    apply firstSome_false
    · intro g hg b hb
      cases hk : valElem n k v g with
      | none => simp [hk] at hb
      | some tv =>
        simp only [hk, Option.map_some, Option.some.injEq] at hb
        rw [← hb]; exact (hnf g hg).val n k v tv hk
    · exact ⟨f, hf, by cases hk : valElem n k v f <;> simp_all⟩
  simp [this]

/-! #### series sets of a file set -/

theorem mem_fileKeySeries (n k : String) (f : FileData) (x : Nat) :
    x ∈ fileKeySeries n k f ↔ ∃ v, x ∈ fileValSeries n k v f := by
  unfold fileKeySeries
  rw [mem_foldl_sunion (fun v => fileValSeries n k v f)]
  simp only [List.not_mem_nil, false_or]
  constructor
  · rintro ⟨v, _, hx⟩; exact ⟨v, hx⟩
  · rintro ⟨v, hx⟩
    refine ⟨v, ?_, hx⟩
    obtain ⟨tv, htv, _⟩ := mem_fileValSeries_valElem hx
    exact (mem_fileValues_iff n k v f).mpr (by simp [htv])

theorem mem_fsKeySeries (fs : List FileData) (n k : String) (x : Nat) :
    x ∈ fsKeySeries fs n k ↔ ∃ f ∈ fs, ∃ v, x ∈ fileValSeries n k v f := by
  unfold fsKeySeries
  rw [mem_foldl_sunion (fun f => fileKeySeries n k f)]
  simp only [List.not_mem_nil, false_or, mem_fileKeySeries]

/-- the tombstone fold of `FileSet.TagValueSeriesIDIterator` only ever lists ids some file lists. -/
theorem fsValSeries_sub_aux (rev : List FileData) (n k v : String) (acc : List Nat × List Nat) (x : Nat) :
    x ∈ (rev.foldl (fun (acc : List Nat × List Nat) f =>
        (sunion (sdiff acc.1 acc.2) (fileValSeries n k v f), f.tomb)) acc).1 →
      x ∈ acc.1 ∨ ∃ f ∈ rev, x ∈ fileValSeries n k v f := by
  induction rev generalizing acc with
  | nil => intro h; exact Or.inl h
  | cons f rest ih =>
    intro h
    simp only [List.foldl_cons] at h
    rcases ih _ h with h1 | ⟨g, hg, hx⟩
    · simp only [mem_sunion, mem_sdiff] at h1
      rcases h1 with h1 | h1
      · exact Or.inl h1.1
      · exact Or.inr ⟨f, by simp, h1⟩
    · exact Or.inr ⟨g, List.mem_cons_of_mem _ hg, hx⟩

theorem fsValSeries_sub (fs : List FileData) (n k v : String) (x : Nat)
    (h : x ∈ fsValSeries fs n k v) : ∃ f ∈ fs, x ∈ fileValSeries n k v f := by
  unfold fsValSeries at h
  rcases fsValSeries_sub_aux fs.reverse n k v ([], []) x h with h1 | ⟨f, hf, hx⟩
  · simp at h1
  · exact ⟨f, by simpa using hf, hx⟩

/-- … and lists every id a file lists unless a file holds its tombstone. -/
theorem fsValSeries_sup_aux (rev : List FileData) (n k v : String) (acc : List Nat × List Nat) (x : Nat)
    (hnt : ∀ f ∈ rev, x ∉ f.tomb) (hacc : x ∉ acc.2)
    (h : x ∈ acc.1 ∨ ∃ f ∈ rev, x ∈ fileValSeries n k v f) :
    x ∈ (rev.foldl (fun (acc : List Nat × List Nat) f =>
        (sunion (sdiff acc.1 acc.2) (fileValSeries n k v f), f.tomb)) acc).1 := by
  induction rev generalizing acc with
  | nil =>
    rcases h with h | ⟨f, hf, _⟩
    · exact h
    · simp at hf
  | cons f rest ih =>
    simp only [List.foldl_cons]
    apply ih
    · exact fun g hg => hnt g (List.mem_cons_of_mem _ hg)
    · exact hnt f (by simp)
    · rcases h with h | ⟨g, hg, hx⟩
      · exact Or.inl ((mem_sunion _ _ _).mpr (Or.inl ((mem_sdiff _ _ _).mpr ⟨h, hacc⟩)))
      · rcases List.mem_cons.mp hg with rfl | hg
        · exact Or.inl ((mem_sunion _ _ _).mpr (Or.inr hx))
        · exact Or.inr ⟨g, hg, hx⟩

theorem fsValSeries_sup (fs : List FileData) (n k v : String) (x : Nat)
    (hnt : ∀ f ∈ fs, x ∉ f.tomb) (h : ∃ f ∈ fs, x ∈ fileValSeries n k v f) :
    x ∈ fsValSeries fs n k v := by
  unfold fsValSeries
  apply fsValSeries_sup_aux
  · intro f hf; exact hnt f (by simpa using hf)
  · simp
  · obtain ⟨f, hf, hx⟩ := h
    exact Or.inr ⟨f, by simpa using hf, hx⟩

/-! #### answers of a state under the invariant -/

section
variable {st : State} {live : List Nat}

theorem notDeleted_iff_live (h : GInv st live) (x : Nat) (hk : (st.sf.find x).isSome) :
    st.sf.isDeleted x = false ↔ x ∈ live := by
  unfold SFile.isDeleted
  constructor
  · intro hd
    simp only [Bool.or_eq_false_iff, List.contains_eq_mem, decide_eq_false_iff_not] at hd
    cases hf : st.sf.find x with
    | none => simp [hf] at hk
    | some s =>
      have hs := find_some_mem hf
      rcases Classical.em (x ∈ live) with hl | hl
      · exact hl
      · exact absurd (h.deadDel' s hs.1 (by rw [hs.2]; exact hl)) (by rw [hs.2]; exact hd.1)
  · intro hl
    have h1 := h.liveUndel x hl
    have h2 := h.liveKnown x hl
    cases hf : st.sf.find x with
    | none => simp [hf] at h2
    | some s => simp [h1]

theorem part_of (h : GInv st live) {x : Nat} {s : SeriesInfo} (hs : st.sf.find x = some s) :
    ∃ p, st.parts[s.part]? = some p ∧ p ∈ st.parts := by
  have hlt := h.partlt s (find_some_mem hs).1
  exact ⟨st.parts[s.part], List.getElem?_eq_getElem hlt, List.getElem_mem hlt⟩

theorem pinv_of_mem (h : GInv st live) {p : Partition} (hp : p ∈ st.parts) :
    ∃ i, PInv st.sf live i p := by
  obtain ⟨i, hi, hpi⟩ := List.getElem_of_mem hp
  exact ⟨i, h.pinv i p (by rw [List.getElem?_eq_getElem hi, hpi])⟩

/-- `MeasurementIterator`: exactly the names of the live series. -/
theorem ans_measurements (h : GInv st live) (n : String) :
    n ∈ sortStr (st.parts.flatMap (fun p => fsMeasurements p.datas)) ↔
      ∃ id ∈ live, ∃ s, st.sf.find id = some s ∧ s.name = n := by
  rw [mem_sortStr, List.mem_flatMap]
  constructor
  · rintro ⟨p, hp, hn⟩
    obtain ⟨i, hpi⟩ := pinv_of_mem h hp
    rcases hpi.mfdead n ((mem_fsMeasurements _ _).mp hn) with hw | hf
    · exact hw
    · exact absurd hf (by simp)
  · rintro ⟨x, hx, s, hs, hn⟩
    obtain ⟨p, hpi, hp⟩ := part_of h hs
    refine ⟨p, hp, (mem_fsMeasurements _ _).mpr ?_⟩
    rw [← hn]
    exact (h.pinv s.part p hpi).mflive x s hx hs rfl

/-- `TagKeyIterator(n)`: at least the tag keys of the live series of `n`. -/
theorem ans_tagKeys_sup (h : GInv st live) (n k : String) {x : Nat} {s : SeriesInfo} {v : String}
    (hx : x ∈ live) (hs : st.sf.find x = some s) (hn : s.name = n) (hk : tagOf s.tags k = some v) :
    k ∈ sortStr (st.parts.flatMap (fun p => fsTagKeys p.datas n)) := by
  rw [mem_sortStr, List.mem_flatMap]
  obtain ⟨p, hpi, hp⟩ := part_of h hs
  have hpinv := h.pinv s.part p hpi
  obtain ⟨f, hf, _, hv⟩ := hpinv.comp x s hx hs rfl
  refine ⟨p, hp, mem_fsTagKeys_of p.datas ?_ n k ⟨f.data, ?_, ?_⟩⟩
  · intro d hd
    unfold Partition.datas at hd
    obtain ⟨g, hg, rfl⟩ := List.mem_map.mp hd
    exact hpinv.noflags g hg
  · unfold Partition.datas; exact List.mem_map.mpr ⟨f, hf, rfl⟩
  · obtain ⟨tv, htv, _⟩ := mem_fileValSeries_valElem (hv k v hk)
    rw [← hn]
    exact valElem_isSome_keyElem (v := v) (by rw [htv]; rfl)

/-- `TagValueIterator(n, k)`: at least the values of the live series of `n`. -/
theorem ans_tagValues_sup (h : GInv st live) (n k : String) {x : Nat} {s : SeriesInfo} {v : String}
    (hx : x ∈ live) (hs : st.sf.find x = some s) (hn : s.name = n) (hk : tagOf s.tags k = some v) :
    v ∈ sortStr (st.parts.flatMap (fun p => fsTagValues p.datas n k)) := by
  rw [mem_sortStr, List.mem_flatMap]
  obtain ⟨p, hpi, hp⟩ := part_of h hs
  have hpinv := h.pinv s.part p hpi
  obtain ⟨f, hf, _, hv⟩ := hpinv.comp x s hx hs rfl
  refine ⟨p, hp, mem_fsTagValues_of p.datas ?_ n k v ⟨f.data, ?_, ?_⟩⟩
  · intro d hd
    unfold Partition.datas at hd
    obtain ⟨g, hg, rfl⟩ := List.mem_map.mp hd
    exact hpinv.noflags g hg
  · unfold Partition.datas; exact List.mem_map.mpr ⟨f, hf, rfl⟩
  · obtain ⟨tv, htv, _⟩ := mem_fileValSeries_valElem (hv k v hk)
    rw [← hn]; simp [htv]

/-- the filter `FilterUndeletedSeriesIDIterator` on a raw view whose ids are known. -/
theorem mem_filtered (h : GInv st live) (raw : List Nat) (hk : ∀ x ∈ raw, (st.sf.find x).isSome) (x : Nat) :
    x ∈ sortNat (raw.filter (fun id => !st.sf.isDeleted id)) ↔ x ∈ raw ∧ x ∈ live := by
  rw [mem_sortNat, List.mem_filter]
  constructor
  · rintro ⟨hr, hd⟩
    exact ⟨hr, (notDeleted_iff_live h x (hk x hr)).mp (by simpa using hd)⟩
  · rintro ⟨hr, hl⟩
    exact ⟨hr, by simpa using (notDeleted_iff_live h x (hk x hr)).mpr hl⟩

/-- `IndexSet.MeasurementSeriesIDIterator(n)`: exactly the live series of `n`. -/
theorem ans_measSeries (h : GInv st live) (n : String) (x : Nat) :
    x ∈ sortNat ((st.parts.flatMap (fun p => fsMeasSeries p.datas n)).filter
        (fun id => !st.sf.isDeleted id)) ↔
      x ∈ live ∧ ∃ s, st.sf.find x = some s ∧ s.name = n := by
  have hsound : ∀ y ∈ st.parts.flatMap (fun p => fsMeasSeries p.datas n),
      ∃ s, st.sf.find y = some s ∧ s.name = n := by
    intro y hy
    obtain ⟨p, hp, hyp⟩ := List.mem_flatMap.mp hy
    obtain ⟨i, hpi⟩ := pinv_of_mem h hp
    obtain ⟨d, hd, hyd⟩ := (mem_fsMeasSeries _ _ _).mp hyp
    unfold Partition.datas at hd
    obtain ⟨f, hf, rfl⟩ := List.mem_map.mp hd
    exact (hpi.sound f hf).meas n y hyd
  rw [mem_filtered h _ (fun y hy => by obtain ⟨s, hs, _⟩ := hsound y hy; simp [hs])]
  constructor
  · rintro ⟨hr, hl⟩; exact ⟨hl, hsound x hr⟩
  · rintro ⟨hl, s, hs, hn⟩
    refine ⟨?_, hl⟩
    obtain ⟨p, hpi, hp⟩ := part_of h hs
    obtain ⟨f, hf, hm, _⟩ := (h.pinv s.part p hpi).comp x s hl hs rfl
    rw [List.mem_flatMap]
    refine ⟨p, hp, (mem_fsMeasSeries _ _ _).mpr ⟨f.data, ?_, by rw [← hn]; exact hm⟩⟩
    unfold Partition.datas; exact List.mem_map.mpr ⟨f, hf, rfl⟩

/-- `IndexSet.TagKeySeriesIDIterator(n, k)`: exactly the live series of `n` having key `k`. -/
theorem ans_keySeries (h : GInv st live) (n k : String) (x : Nat) :
    x ∈ sortNat ((st.parts.flatMap (fun p => fsKeySeries p.datas n k)).filter
        (fun id => !st.sf.isDeleted id)) ↔
      x ∈ live ∧ ∃ s, st.sf.find x = some s ∧ s.name = n ∧ (tagOf s.tags k).isSome := by
  have hsound : ∀ y ∈ st.parts.flatMap (fun p => fsKeySeries p.datas n k),
      ∃ s, st.sf.find y = some s ∧ s.name = n ∧ (tagOf s.tags k).isSome := by
    intro y hy
    obtain ⟨p, hp, hyp⟩ := List.mem_flatMap.mp hy
    obtain ⟨i, hpi⟩ := pinv_of_mem h hp
    obtain ⟨d, hd, v, hyd⟩ := (mem_fsKeySeries _ _ _ _).mp hyp
    unfold Partition.datas at hd
    obtain ⟨f, hf, rfl⟩ := List.mem_map.mp hd
    obtain ⟨s, hs, hn, ht⟩ := (hpi.sound f hf).val n k v y hyd
    exact ⟨s, hs, hn, by simp [ht]⟩
  rw [mem_filtered h _ (fun y hy => by obtain ⟨s, hs, _⟩ := hsound y hy; simp [hs])]
  constructor
  · rintro ⟨hr, hl⟩; exact ⟨hl, hsound x hr⟩
  · rintro ⟨hl, s, hs, hn, ht⟩
    refine ⟨?_, hl⟩
    obtain ⟨p, hpi, hp⟩ := part_of h hs
    obtain ⟨f, hf, _, hv⟩ := (h.pinv s.part p hpi).comp x s hl hs rfl
    cases hkv : tagOf s.tags k with
    | none => simp [hkv] at ht
    | some v =>
      rw [List.mem_flatMap]
      refine ⟨p, hp, (mem_fsKeySeries _ _ _ _).mpr ⟨f.data, ?_, v, by rw [← hn]; exact hv k v hkv⟩⟩
      unfold Partition.datas; exact List.mem_map.mpr ⟨f, hf, rfl⟩

/-- the raw (uncached) tag-value view satisfies the cache invariant. -/
theorem rawValSeries_ok (h : GInv st live) (n k v : String) :
    CacheOK st.sf live ((n, k, v), sortNat (st.parts.flatMap (fun p => fsValSeries p.datas n k v))) := by
  refine ⟨?_, ?_⟩
  · intro y hy
    simp only at hy
    rw [mem_sortNat] at hy
    obtain ⟨p, hp, hyp⟩ := List.mem_flatMap.mp hy
    obtain ⟨i, hpi⟩ := pinv_of_mem h hp
    obtain ⟨d, hd, hyd⟩ := fsValSeries_sub _ _ _ _ _ hyp
    unfold Partition.datas at hd
    obtain ⟨f, hf, rfl⟩ := List.mem_map.mp hd
    exact (hpi.sound f hf).val n k v y hyd
  · intro x hx s hs hn ht
    simp only at hn ht ⊢
    rw [mem_sortNat, List.mem_flatMap]
    obtain ⟨p, hpi, hp⟩ := part_of h hs
    have hpinv := h.pinv s.part p hpi
    obtain ⟨f, hf, _, hv⟩ := hpinv.comp x s hx hs rfl
    refine ⟨p, hp, fsValSeries_sup _ _ _ _ _ ?_ ⟨f.data, ?_, by rw [← hn]; exact hv k v ht⟩⟩
    · intro d hd
      unfold Partition.datas at hd
      obtain ⟨g, hg, rfl⟩ := List.mem_map.mp hd
      exact hpinv.notomb g hg x hx
    · unfold Partition.datas; exact List.mem_map.mpr ⟨f, hf, rfl⟩

/-- a set satisfying the cache invariant, filtered by the series file, is exactly the live
    series with that tag pair. -/
theorem ans_valSeries_of_cacheOK (h : GInv st live) (n k v : String) (ids : List Nat)
    (hc : CacheOK st.sf live ((n, k, v), ids)) (x : Nat) :
    x ∈ sortNat (ids.filter (fun id => !st.sf.isDeleted id)) ↔
      x ∈ live ∧ ∃ s, st.sf.find x = some s ∧ s.name = n ∧ tagOf s.tags k = some v := by
  rw [mem_filtered h ids (fun y hy => by obtain ⟨s, hs, _⟩ := hc.1 y hy; simp [hs])]
  constructor
  · rintro ⟨hr, hl⟩; exact ⟨hl, hc.1 x hr⟩
  · rintro ⟨hl, s, hs, hn, ht⟩
    exact ⟨hc.2 x hl s hs hn ht, hl⟩

end

end Influx.Model.TSI
