/-
  Lemmas.KCDelete — what indirectIndex.DeleteRange (model: `applyDelete`) means for one key:
  after any sequence of range deletes the key either keeps its index entries, and then a
  timestamp in the key's range is covered by the recorded tombstones exactly when one of the
  requested ranges covers it, or the key is gone, and then every timestamp in the key's range
  is covered by a requested range.
-/
import Influx.Lemmas.KCAlgebra

namespace Influx.KC
open Influx.Generated.KeyCursor

variable {V : Type}

/-! ### the tombstone sort -/

theorem mem_insertTR {x y : TimeRange} {l : List TimeRange} : y ∈ insertTR x l ↔ y = x ∨ y ∈ l := by
  induction l with
  | nil => simp [insertTR]
  | cons z zs ih =>
    unfold insertTR
    split
    · simp
    · simp only [List.mem_cons, ih]
      constructor
      · rintro (h | h | h)
        · exact Or.inr (Or.inl h)
        · exact Or.inl h
        · exact Or.inr (Or.inr h)
      · rintro (h | h | h)
        · exact Or.inr (Or.inl h)
        · exact Or.inl h
        · exact Or.inr (Or.inr h)

theorem mem_sortTR {y : TimeRange} {l : List TimeRange} : y ∈ sortTR l ↔ y ∈ l := by
  unfold sortTR
  induction l with
  | nil => simp
  | cons x xs ih => simp only [List.foldr_cons, mem_insertTR, ih, List.mem_cons]

def MinSorted (l : List TimeRange) : Prop := l.Pairwise fun a b => a.Min ≤ b.Min

theorem minSorted_insertTR {x : TimeRange} {l : List TimeRange} (h : MinSorted l) : MinSorted (insertTR x l) := by
  induction l with
  | nil => simp [insertTR, MinSorted]
  | cons z zs ih =>
    obtain ⟨h1, h2⟩ := List.pairwise_cons.1 h
    unfold insertTR
    split
    · rename_i hle
      apply List.pairwise_cons.2
      refine ⟨?_, h⟩
      have hxz : x.Min ≤ z.Min := by
        unfold trLE at hle
        split at hle
        · omega
        · simp at hle; omega
      intro y hy
      rcases List.mem_cons.1 hy with rfl | hy
      · exact hxz
      · have := h1 y hy; omega
    · rename_i hle
      apply List.pairwise_cons.2
      refine ⟨?_, ih h2⟩
      have hzx : z.Min ≤ x.Min := by
        unfold trLE at hle
        split at hle
        · omega
        · simp at hle; omega
      intro y hy
      rcases mem_insertTR.1 hy with rfl | hy
      · exact hzx
      · exact h1 y hy

theorem minSorted_sortTR (l : List TimeRange) : MinSorted (sortTR l) := by
  unfold sortTR
  induction l with
  | nil => simp [MinSorted]
  | cons x xs ih => simp only [List.foldr_cons]; exact minSorted_insertTR ih

/-! ### the chain test -/

/-- if the chain test does not abort, everything between its bounds is covered -/
theorem chainBounds_cover : ∀ (rest : List TimeRange) (prev : TimeRange) (lo hi : Int) (seen : List TimeRange),
    prev ∈ seen → prev.Max ≤ hi → (∀ ts ∈ rest, lo ≤ ts.Min) →
    (∀ x, lo ≤ x → x ≤ hi → covered seen x) →
    ((chainBounds prev rest lo hi) = (maxI64, minI64)) ∨
    ((chainBounds prev rest lo hi).1 = lo ∧
      ∀ x, lo ≤ x → x ≤ (chainBounds prev rest lo hi).2 → covered (seen ++ rest) x) := by
  intro rest
  induction rest with
  | nil =>
    intro prev lo hi seen _ _ _ hc
    right
    simp only [chainBounds, List.append_nil]
    exact ⟨trivial, hc⟩
  | cons ts rest ih =>
    intro prev lo hi seen hps hpm hlo hc
    unfold chainBounds
    split
    · exact Or.inl rfl
    · rename_i hcond
      have hadj : ts.Min ≤ prev.Max + 1 := by
        simp only [TimeRangeOverlaps, Bool.and_eq_true, bne_iff_ne, ne_eq, Bool.not_eq_true',
          Bool.and_eq_false_iff, decide_eq_false_iff_not, not_and, not_or, Decidable.not_not,
          decide_eq_true_eq, Classical.not_imp] at hcond
        by_cases h : prev.Max = ts.Min - 1
        · omega
        · have := hcond h
          omega
      have hlots : lo ≤ ts.Min := hlo ts (List.mem_cons_self ..)
      have hlo' : (if ts.Min < lo then ts.Min else lo) = lo := by split <;> omega
      rw [hlo']
      have := ih ts lo (if ts.Max > hi then ts.Max else hi) (seen ++ [ts])
        (by simp) (by split <;> omega) (fun t' ht' => hlo t' (List.mem_cons_of_mem _ ht')) (by
          intro x h1 h2
          by_cases hx : x ≤ hi
          · obtain ⟨t', ht', hcov⟩ := hc x h1 hx
            exact ⟨t', List.mem_append_left _ ht', hcov⟩
          · refine ⟨ts, by simp, ?_, ?_⟩
            · omega
            · split at h2 <;> omega)
      simpa [List.append_assoc] using this

/-! ### one key under a sequence of deletes -/

/-- requested deletes `ds` cover `x` -/
def requested (ds : List TimeRange) (x : Int) : Prop := ∃ d ∈ ds, d.Min ≤ x ∧ x ≤ d.Max

structure DelInv (E : List (IndexEntry × Vals V)) (kmin kmax : Int) (ds : List TimeRange) (st : FileState V) : Prop where
  ent : st.entries = E ∨ st.entries = []
  sub : ∀ tr ∈ st.tombs, tr ∈ ds
  alive : st.entries = E → ∀ x, kmin ≤ x → x ≤ kmax → requested ds x → covered st.tombs x
  dead : st.entries = [] → ∀ x, kmin ≤ x → x ≤ kmax → requested ds x

theorem requested_mono {ds : List TimeRange} {d : TimeRange} {x : Int} (h : requested ds x) : requested (ds ++ [d]) x := by
  obtain ⟨d', hd', h'⟩ := h
  exact ⟨d', List.mem_append_left _ hd', h'⟩

theorem applyDelete_inv {E : List (IndexEntry × Vals V)} {first last : IndexEntry × Vals V}
    (hf : E.head? = some first) (hl : E.getLast? = some last)
    (h64 : minI64 ≤ first.1.MinTime ∧ first.1.MinTime ≤ last.1.MaxTime ∧ last.1.MaxTime ≤ maxI64)
    {ds : List TimeRange} {st : FileState V} (inv : DelInv E first.1.MinTime last.1.MaxTime ds st) (d : TimeRange) :
    DelInv E first.1.MinTime last.1.MaxTime (ds ++ [d]) (applyDelete st d) := by
  have hEne : E ≠ [] := by intro e; rw [e] at hf; cases hf
  rcases inv.ent with he | he
  · -- the key is still there
    unfold applyDelete
    rw [he, hf, hl]
    simp only
    split
    · -- the whole int64 range
      rename_i hall
      refine { ent := Or.inr rfl, sub := fun tr h => List.mem_append_left _ (inv.sub tr h), alive := ?_, dead := ?_ }
      · intro e; exact absurd e.symm hEne
      · intro _ x h1 h2
        exact ⟨d, by simp, by omega, by omega⟩
    · split
      · -- outside the key's range
        rename_i hout
        refine { ent := Or.inl he, sub := fun tr h => List.mem_append_left _ (inv.sub tr h), alive := ?_, dead := ?_ }
        · intro _ x h1 h2 hr
          obtain ⟨d', hd', h3, h4⟩ := hr
          rcases List.mem_append.1 hd' with hd' | hd'
          · exact inv.alive he x h1 h2 ⟨d', hd', h3, h4⟩
          · simp at hd'; subst hd'; omega
        · intro e; rw [he] at e; exact absurd e hEne
      · split
        · -- covers every value of the key
          rename_i hcov
          refine { ent := Or.inr rfl, sub := fun tr h => List.mem_append_left _ (inv.sub tr h), alive := ?_, dead := ?_ }
          · intro e; exact absurd e.symm hEne
          · intro _ x h1 h2
            exact ⟨d, by simp, by omega, by omega⟩
        · -- recorded; maybe the tombstones now line up over the whole key
          have hmemNew : ∀ tr, tr ∈ sortTR (st.tombs ++ [d]) → tr ∈ ds ++ [d] := by
            intro tr h
            rcases List.mem_append.1 (mem_sortTR.1 h) with h | h
            · exact List.mem_append_left _ (inv.sub tr h)
            · exact List.mem_append_right _ h
          have hcovNew : ∀ x, first.1.MinTime ≤ x → x ≤ last.1.MaxTime → requested (ds ++ [d]) x →
              covered (sortTR (st.tombs ++ [d])) x := by
            intro x h1 h2 hr
            obtain ⟨d', hd', h3, h4⟩ := hr
            rcases List.mem_append.1 hd' with hd' | hd'
            · obtain ⟨t', ht', hc⟩ := inv.alive he x h1 h2 ⟨d', hd', h3, h4⟩
              exact ⟨t', mem_sortTR.2 (List.mem_append_left _ ht'), hc⟩
            · simp at hd'; subst hd'
              exact ⟨d', mem_sortTR.2 (by simp), h3, h4⟩
          cases hs : sortTR (st.tombs ++ [d]) with
          | nil =>
            have : d ∈ sortTR (st.tombs ++ [d]) := mem_sortTR.2 (by simp)
            rw [hs] at this; cases this
          | cons t0 rest =>
            simp only
            have hsorted := minSorted_sortTR (st.tombs ++ [d])
            rw [hs] at hsorted hmemNew hcovNew
            obtain ⟨hs1, _⟩ := List.pairwise_cons.1 hsorted
            have hchain := chainBounds_cover rest t0 t0.Min t0.Max [t0] (by simp) (Int.le_refl _) hs1
              (by intro x h1 h2; exact ⟨t0, by simp, h1, h2⟩)
            split
            · rename_i hfull
              refine { ent := Or.inr rfl, sub := hmemNew, alive := ?_, dead := ?_ }
              · intro e; exact absurd e.symm hEne
              · intro _ x h1 h2
                rcases hchain with hab | ⟨hlo, hcv⟩
                · rw [hab] at hfull; simp only at hfull; omega
                · obtain ⟨t', ht', hc⟩ := hcv x (by rw [← hlo]; omega) (by omega)
                  exact ⟨t', hmemNew t' (by simpa using ht'), hc⟩
            · exact { ent := Or.inl rfl, sub := hmemNew, alive := fun _ => hcovNew,
                      dead := fun e => absurd e hEne }
  · -- already gone: nothing changes
    have : applyDelete st d = st := by
      unfold applyDelete; rw [he]; rfl
    rw [this]
    exact { ent := Or.inr he, sub := fun tr h => List.mem_append_left _ (inv.sub tr h),
            alive := fun e => by rw [he] at e; exact absurd e.symm hEne,
            dead := fun _ x h1 h2 => requested_mono (inv.dead he x h1 h2) }

theorem foldl_applyDelete_inv {E : List (IndexEntry × Vals V)} {first last : IndexEntry × Vals V}
    (hf : E.head? = some first) (hl : E.getLast? = some last)
    (h64 : minI64 ≤ first.1.MinTime ∧ first.1.MinTime ≤ last.1.MaxTime ∧ last.1.MaxTime ≤ maxI64) :
    ∀ (dels ds : List TimeRange) (st : FileState V), DelInv E first.1.MinTime last.1.MaxTime ds st →
      DelInv E first.1.MinTime last.1.MaxTime (ds ++ dels) (dels.foldl applyDelete st) := by
  intro dels
  induction dels with
  | nil => intro ds st inv; simpa using inv
  | cons d dels ih =>
    intro ds st inv
    simp only [List.foldl_cons]
    have := ih (ds ++ [d]) _ (applyDelete_inv hf hl h64 inv d)
    simpa [List.append_assoc] using this

/-- a key that is not in the file stays absent -/
theorem foldl_applyDelete_nil (dels : List TimeRange) (st : FileState V) (h : st.entries = []) :
    dels.foldl applyDelete st = st := by
  induction dels with
  | nil => rfl
  | cons d dels ih =>
    simp only [List.foldl_cons]
    have : applyDelete st d = st := by unfold applyDelete; rw [h]; rfl
    rw [this]; exact ih

end Influx.KC
