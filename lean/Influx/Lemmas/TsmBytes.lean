/-
  Lemmas.TsmBytes — big-endian round trips, int64 two's complement round trip, and
  `bytes.Compare` (`kcmp`) is a linear order.
-/
import Influx.Model.TsmBytes

namespace Influx.Tsm

theorem unbe_foldl (bs : Bytes) (a : Nat) :
    bs.foldl (fun a b => a * 256 + b) a = a * 256 ^ bs.length + unbe bs := by
  induction bs generalizing a with
  | nil => simp [unbe]
  | cons b bs ih =>
    simp only [List.foldl_cons, List.length_cons, unbe]
    rw [ih, ih (0 * 256 + b)]
    simp [Nat.pow_succ, Nat.add_mul, Nat.mul_assoc, Nat.mul_comm 256, Nat.add_assoc]

@[simp] theorem be_length (n v : Nat) : (be n v).length = n := by
  induction n with
  | zero => rfl
  | succ n ih => simp [be, ih]

theorem unbe_be (n v : Nat) : unbe (be n v) = v % 256 ^ n := by
  induction n with
  | zero => simp [be, unbe, Nat.mod_one]
  | succ n ih =>
    simp only [be, unbe, List.foldl_cons]
    rw [unbe_foldl, ih, be_length]
    simp only [Nat.zero_mul, Nat.zero_add]
    rw [Nat.pow_succ, Nat.mod_mul, Nat.add_comm, Nat.mul_comm]

theorem unbe_be_lt (n v : Nat) (h : v < 256 ^ n) : unbe (be n v) = v := by
  rw [unbe_be, Nat.mod_eq_of_lt h]

/-- reading `n` bytes back from the front of a longer string -/
theorem unbe_take_be (n v : Nat) (rest : Bytes) (h : v < 256 ^ n) :
    unbe ((be n v ++ rest).take n) = v := by
  have : (be n v ++ rest).take n = be n v := by
    rw [List.take_append_of_le_length (by simp)]
    rw [List.take_of_length_le (by simp)]
  rw [this, unbe_be_lt n v h]

theorem drop_be (n v : Nat) (rest : Bytes) : (be n v ++ rest).drop n = rest := by
  rw [List.drop_append_of_le_length (by simp), List.drop_of_length_le (by simp)]; simp

theorem u64_lt (t : Int) : u64 t < 18446744073709551616 := by
  unfold u64; omega

theorem i64_u64 (t : Int) (h : inInt64 t) : i64 (u64 t) = t := by
  unfold inInt64 minInt64 maxInt64 at h
  unfold i64 u64
  split <;> omega

/-! ### `kcmp` -/

theorem kcmp_refl (a : Key) : kcmp a a = .eq := by
  induction a with
  | nil => rfl
  | cons x xs ih => simp [kcmp, ih]

theorem kcmp_eq {a b : Key} (h : kcmp a b = .eq) : a = b := by
  induction a generalizing b with
  | nil => cases b <;> simp_all [kcmp]
  | cons x xs ih =>
    cases b with
    | nil => simp [kcmp] at h
    | cons y ys =>
      simp only [kcmp] at h
      split at h
      · simp at h
      · split at h
        · simp at h
        · have : x = y := by omega
          rw [this, ih h]

theorem kcmp_swap (a b : Key) : kcmp b a = (kcmp a b).swap := by
  induction a generalizing b with
  | nil => cases b <;> rfl
  | cons x xs ih =>
    cases b with
    | nil => rfl
    | cons y ys =>
      simp only [kcmp]
      by_cases h1 : x < y
      · have : ¬ y < x := by omega
        simp [h1, this]
      · by_cases h2 : y < x
        · simp [h1, h2]
        · simp [h1, h2, ih]

theorem kcmp_lt_trans {a b c : Key} (h1 : kcmp a b = .lt) (h2 : kcmp b c = .lt) : kcmp a c = .lt := by
  induction a generalizing b c with
  | nil =>
    cases b with
    | nil => simp [kcmp] at h1
    | cons y ys => cases c <;> simp_all [kcmp]
  | cons x xs ih =>
    cases b with
    | nil => simp [kcmp] at h1
    | cons y ys =>
      cases c with
      | nil => simp [kcmp] at h2
      | cons z zs =>
        simp only [kcmp] at h1 h2 ⊢
        by_cases hxy : x < y
        · by_cases hyz : y < z
          · have : x < z := by omega
            simp [this]
          · by_cases hzy : z < y
            · simp [hyz, hzy] at h2
            · have : x < z := by omega
              simp [this]
        · by_cases hyx : y < x
          · simp [hxy, hyx] at h1
          · simp only [hxy, hyx, if_false] at h1
            have exy : x = y := by omega
            by_cases hyz : y < z
            · have : x < z := by omega
              simp [this]
            · by_cases hzy : z < y
              · simp [hyz, hzy] at h2
              · simp only [hyz, hzy, if_false] at h2
                have : ¬ x < z := by omega
                have : ¬ z < x := by omega
                simp [*, ih h1 h2]

theorem klt_iff {a b : Key} : klt a b = true ↔ kcmp a b = .lt := by simp [klt]
theorem kle_iff {a b : Key} : kle a b = true ↔ kcmp a b ≠ .gt := by simp [kle]

theorem klt_irrefl (a : Key) : klt a a = false := by simp [klt, kcmp_refl]

theorem klt_trans {a b c : Key} (h1 : klt a b = true) (h2 : klt b c = true) : klt a c = true := by
  rw [klt_iff] at *; exact kcmp_lt_trans h1 h2

theorem kle_of_klt {a b : Key} (h : klt a b = true) : kle a b = true := by
  rw [klt_iff] at h; simp [kle, h]

theorem not_klt_iff_kle {a b : Key} : klt a b = false ↔ kle b a = true := by
  simp only [klt, kle, kcmp_swap a b]
  cases kcmp a b <;> simp [Ordering.swap]

theorem kle_refl (a : Key) : kle a a = true := by simp [kle, kcmp_refl]

theorem kle_antisymm {a b : Key} (h1 : kle a b = true) (h2 : kle b a = true) : a = b := by
  simp only [kle, kcmp_swap a b] at h1 h2
  apply kcmp_eq
  cases h : kcmp a b <;> simp_all [Ordering.swap]

theorem klt_of_klt_of_kle {a b c : Key} (h1 : klt a b = true) (h2 : kle b c = true) : klt a c = true := by
  by_cases h : klt b c = true
  · exact klt_trans h1 h
  · have : kle c b = true := not_klt_iff_kle.mp (by simpa using h)
    rw [← kle_antisymm h2 this]; exact h1

theorem klt_of_kle_of_klt {a b c : Key} (h1 : kle a b = true) (h2 : klt b c = true) : klt a c = true := by
  by_cases h : klt a b = true
  · exact klt_trans h h2
  · have : kle b a = true := not_klt_iff_kle.mp (by simpa using h)
    rw [kle_antisymm h1 this]; exact h2

theorem kle_trans {a b c : Key} (h1 : kle a b = true) (h2 : kle b c = true) : kle a c = true := by
  by_cases h : klt a b = true
  · exact kle_of_klt (klt_of_klt_of_kle h h2)
  · have : kle b a = true := not_klt_iff_kle.mp (by simpa using h)
    rw [kle_antisymm h1 this]; exact h2

theorem klt_or_kle (a b : Key) : klt a b = true ∨ kle b a = true := by
  cases h : klt a b
  · right; exact not_klt_iff_kle.mp h
  · left; rfl

theorem klt_ne {a b : Key} (h : klt a b = true) : a ≠ b := by
  intro e; subst e; simp [klt_irrefl] at h

theorem kle_iff_lt_or_eq {a b : Key} : kle a b = true ↔ klt a b = true ∨ a = b := by
  constructor
  · intro h
    by_cases h' : klt a b = true
    · exact Or.inl h'
    · right; exact kle_antisymm h (not_klt_iff_kle.mp (by simpa using h'))
  · rintro (h | h)
    · exact kle_of_klt h
    · subst h; exact kle_refl a

end Influx.Tsm
