/-
  Lemmas.CodecFloat — the Gorilla XOR float codec: the decoder follows the encoder state step by step.
-/
import Influx.Lemmas.CodecBits
import Influx.Model.CodecFloat
namespace Influx.Codec
open Influx.Generated.Codec

/-! ### leading / trailing zeros -/

theorem ctz_dvd (x : Nat) (hx : x ≠ 0) : 2 ^ ctz x ∣ x := by
  fun_induction ctz x with
  | case1 => exact absurd rfl hx
  | case2 x h0 h1 => simp
  | case3 x h0 h1 ih =>
    have hx2 : x / 2 ≠ 0 := by omega
    obtain ⟨c, hc⟩ := ih hx2
    refine ⟨c, ?_⟩
    rw [Nat.pow_succ, Nat.mul_assoc, Nat.mul_comm 2, ← Nat.mul_assoc, ← hc]
    omega

theorem ctz_le_log2 (x : Nat) (hx : x ≠ 0) : ctz x ≤ Nat.log2 x := by
  have hd := Nat.le_of_dvd (Nat.pos_of_ne_zero hx) (ctz_dvd x hx)
  have := (Nat.le_log2 hx).mpr hd
  exact this

theorem lt_two_pow_clz (x : Nat) (hx : x ≠ 0) (hW : x < 2 ^ 64) : x < 2 ^ (64 - clz64 x) ∧ clz64 x + Nat.log2 x = 63 := by
  have hl : Nat.log2 x < 64 := (Nat.log2_lt hx).mpr hW
  unfold clz64
  refine ⟨?_, by omega⟩
  have : 64 - (63 - Nat.log2 x) = Nat.log2 x + 1 := by omega
  rw [this]; exact Nat.lt_log2_self

/-- the significant window `[t, 64-l)` holds all of `x` when `l ≤ clz`, `t ≤ ctz` -/
theorem window_bits (x l t : Nat) (hx : x ≠ 0) (hW : x < 2 ^ 64) (hl : l ≤ clz64 x) (ht : t ≤ ctz x) :
    x / 2 ^ t < 2 ^ (64 - l - t) ∧ x / 2 ^ t * 2 ^ t = x ∧ l + t ≤ 63 := by
  obtain ⟨h1, h2⟩ := lt_two_pow_clz x hx hW
  have h3 := ctz_le_log2 x hx
  have hlt : l + t ≤ 63 := by omega
  refine ⟨?_, ?_, hlt⟩
  · apply Nat.div_lt_of_lt_mul
    rw [← Nat.pow_add]
    have : t + (64 - l - t) = 64 - l := by omega
    rw [this]
    exact Nat.lt_of_lt_of_le h1 (Nat.pow_le_pow_right (by decide) (by omega))
  · apply Nat.div_mul_cancel
    exact Nat.dvd_trans (Nat.pow_dvd_pow 2 ht) (ctz_dvd x hx)

theorem xor_cancel (v p : Nat) : p ^^^ (v ^^^ p) = v := by
  rw [Nat.xor_comm v p, ← Nat.xor_assoc, Nat.xor_self, Nat.zero_xor]

theorem xor_eq_zero (v p : Nat) : v ^^^ p = 0 ↔ v = p := by
  constructor
  · intro h
    have := xor_cancel v p
    rw [h, Nat.xor_zero] at this
    exact this.symm
  · intro h; rw [h, Nat.xor_self]

/-! ### one step -/

/-- encoder state and decoder state agree -/
def FRel (s : FState) (d : DState) : Prop :=
  d.val = s.prev ∧ ∀ pl pt, s.window = some (pl, pt) → d.leading = pl ∧ d.trailing = pt ∧ pl + pt ≤ 63

theorem floatDecStep_step (s : FState) (d : DState) (v : Nat) (rest : List Bool)
    (hrel : FRel s d) (hp : s.prev < 2 ^ 64) (hv : v < 2 ^ 64) :
    ∃ d', FRel (floatStep s v).2 d' ∧ d'.val = v ∧
      floatDecStep d ((floatStep s v).1 ++ rest) =
        (if v = uvnan ∧ v ≠ s.prev then some none else some (some (d', rest))) := by
  obtain ⟨hval, hwin⟩ := hrel
  unfold floatStep
  simp only
  by_cases hz : v ^^^ s.prev = 0
  · -- unchanged value: a single 0 bit
    have hveq : v = s.prev := (xor_eq_zero v s.prev).mp hz
    rw [if_pos hz]
    refine ⟨d, ⟨by rw [hval, hveq], by simpa using hwin⟩, by rw [hval, hveq], ?_⟩
    simp only [List.cons_append, List.nil_append, floatDecStep]
    rw [if_neg (by intro h; exact h.2 hveq)]
  · rw [if_neg hz]
    have hvne : v ≠ s.prev := fun h => hz ((xor_eq_zero v s.prev).mpr h)
    have hxW : v ^^^ s.prev < 2 ^ 64 := Nat.xor_lt_two_pow hv hp
    have hlead : clz64 (v ^^^ s.prev) % 32 ≤ clz64 (v ^^^ s.prev) := Nat.mod_le _ _
    have hl32 : clz64 (v ^^^ s.prev) % 32 < 32 := Nat.mod_lt _ (by decide)
    have hWW : W = 2 ^ 64 := by decide
    cases hw : s.window with
    | none =>
      -- first window
      simp only [Bool.false_eq_true, if_false]
      obtain ⟨w1, w2, w3⟩ := window_bits (v ^^^ s.prev) _ _ hz hxW hlead (Nat.le_refl _)
      generalize hL : clz64 (v ^^^ s.prev) % 32 = L at *
      generalize hT : ctz (v ^^^ s.prev) = T at *
      refine ⟨{ val := v, leading := L, trailing := T }, ⟨rfl, ?_⟩, rfl, ?_⟩
      · intro pl pt h; simp only [Option.some.injEq, Prod.mk.injEq] at h; obtain ⟨rfl, rfl⟩ := h; exact ⟨rfl, rfl, w3⟩
      · simp only [List.cons_append, List.append_assoc, floatDecStep, if_true]
        rw [readBits_bitsOf, Nat.mod_eq_of_lt (by omega : L < 2 ^ 5)]
        simp only
        rw [readBits_bitsOf]
        simp only
        have hm : 64 - L - (if (64 - L - T) % 2 ^ 6 = 0 then 64 else (64 - L - T) % 2 ^ 6) = T := by
          split <;> omega
        rw [hm, readBits_bitsOf, Nat.mod_eq_of_lt w1]
        simp only
        rw [w2, Nat.mod_eq_of_lt (by rw [hWW]; exact hxW), hval, xor_cancel]
        by_cases hn : v = uvnan
        · rw [if_pos hn, if_pos ⟨hn, hvne⟩]
        · rw [if_neg hn, if_neg (fun h => hn h.1)]
    | some win =>
      obtain ⟨pl, pt⟩ := win
      obtain ⟨hdl, hdt, hplt⟩ := hwin pl pt hw
      simp only
      by_cases hre : (decide (clz64 (v ^^^ s.prev) % 32 ≥ pl) && decide (ctz (v ^^^ s.prev) ≥ pt)) = true
      · -- window reuse
        rw [if_pos hre]
        simp only [Bool.and_eq_true, decide_eq_true_eq] at hre
        obtain ⟨w1, w2, w3⟩ := window_bits (v ^^^ s.prev) pl pt hz hxW (Nat.le_trans hre.1 hlead) hre.2
        refine ⟨{ d with val := v }, ⟨rfl, ?_⟩, rfl, ?_⟩
        · intro a b h; simp only [Option.some.injEq, Prod.mk.injEq] at h
          obtain ⟨rfl, rfl⟩ := h; exact ⟨hdl, hdt, hplt⟩
        · simp only [List.cons_append, floatDecStep, Bool.false_eq_true, if_false]
          rw [hdl, hdt, readBits_bitsOf, Nat.mod_eq_of_lt w1]
          simp only
          rw [w2, Nat.mod_eq_of_lt (by rw [hWW]; exact hxW), hval, xor_cancel]
          by_cases hn : v = uvnan
          · rw [if_pos hn, if_pos ⟨hn, hvne⟩]
          · rw [if_neg hn, if_neg (fun h => hn h.1)]
      · rw [if_neg hre]
        obtain ⟨w1, w2, w3⟩ := window_bits (v ^^^ s.prev) _ _ hz hxW hlead (Nat.le_refl _)
        generalize hL : clz64 (v ^^^ s.prev) % 32 = L at *
        generalize hT : ctz (v ^^^ s.prev) = T at *
        refine ⟨{ val := v, leading := L, trailing := T }, ⟨rfl, ?_⟩, rfl, ?_⟩
        · intro a b h; simp only [Option.some.injEq, Prod.mk.injEq] at h; obtain ⟨rfl, rfl⟩ := h; exact ⟨rfl, rfl, w3⟩
        · simp only [List.cons_append, List.append_assoc, floatDecStep, if_true]
          rw [readBits_bitsOf, Nat.mod_eq_of_lt (by omega : L < 2 ^ 5)]
          simp only
          rw [readBits_bitsOf]
          simp only
          have hm : 64 - L - (if (64 - L - T) % 2 ^ 6 = 0 then 64 else (64 - L - T) % 2 ^ 6) = T := by
            split <;> omega
          rw [hm, readBits_bitsOf, Nat.mod_eq_of_lt w1]
          simp only
          rw [w2, Nat.mod_eq_of_lt (by rw [hWW]; exact hxW), hval, xor_cancel]
          by_cases hn : v = uvnan
          · rw [if_pos hn, if_pos ⟨hn, hvne⟩]
          · rw [if_neg hn, if_neg (fun h => hn h.1)]


theorem floatStep_prev (s : FState) (v : Nat) : (floatStep s v).2.prev = v := by
  unfold floatStep
  simp only
  by_cases hz : v ^^^ s.prev = 0
  · rw [if_pos hz]
  · rw [if_neg hz]
    cases hw : s.window with
    | none => simp
    | some p =>
      obtain ⟨pl, pt⟩ := p
      simp only
      by_cases hre : (decide (clz64 (v ^^^ s.prev) % 32 ≥ pl) && decide (ctz (v ^^^ s.prev) ≥ pt)) = true
      · rw [if_pos hre]
      · rw [if_neg hre]

theorem floatStep_bits_ne (s : FState) (v : Nat) : 1 ≤ (floatStep s v).1.length := by
  unfold floatStep
  simp only
  by_cases hz : v ^^^ s.prev = 0
  · rw [if_pos hz]; simp
  · rw [if_neg hz]
    cases hw : s.window with
    | none => simp
    | some p =>
      obtain ⟨pl, pt⟩ := p
      simp only
      by_cases hre : (decide (clz64 (v ^^^ s.prev) % 32 ≥ pl) && decide (ctz (v ^^^ s.prev) ≥ pt)) = true
      · rw [if_pos hre]; simp
      · rw [if_neg hre]; simp

theorem floatBitsLoop_cons (s : FState) (v : Nat) (vs : List Nat) :
    floatBitsLoop s (v :: vs) = (floatStep s v).1 ++ floatBitsLoop (floatStep s v).2 vs := by
  simp [floatBitsLoop]

theorem floatBitsLoop_length_ge (vs : List Nat) : ∀ s, vs.length ≤ (floatBitsLoop s vs).length := by
  induction vs with
  | nil => intro s; simp [floatBitsLoop]
  | cons v vs ih =>
    intro s
    rw [floatBitsLoop_cons, List.length_append, List.length_cons]
    have := floatStep_bits_ne s v
    have := ih (floatStep s v).2
    omega

theorem floatDecLoop_spec (vs : List Nat) : ∀ (s : FState) (d : DState) (pad : List Bool) (fuel : Nat),
    FRel s d → s.prev < 2 ^ 64 → s.prev ≠ uvnan → (∀ v ∈ vs, v < 2 ^ 64 ∧ v ≠ uvnan) → vs.length + 1 ≤ fuel →
    floatDecLoop fuel d (floatBitsLoop s (vs ++ [uvnan]) ++ pad) = some vs := by
  induction vs with
  | nil =>
    intro s d pad fuel hrel hp hpn _ hf
    cases fuel with
    | zero => omega
    | succ f =>
      simp only [List.nil_append]
      rw [floatBitsLoop_cons]
      have hnil : floatBitsLoop (floatStep s uvnan).2 [] = [] := by simp [floatBitsLoop]
      rw [hnil, List.append_nil]
      obtain ⟨d', _, _, hstep⟩ := floatDecStep_step s d uvnan pad hrel hp (by decide)
      rw [if_pos ⟨rfl, fun h => hpn h.symm⟩] at hstep
      simp only [floatDecLoop, hstep]
  | cons v vs ih =>
    intro s d pad fuel hrel hp hpn hall hf
    cases fuel with
    | zero => omega
    | succ f =>
      obtain ⟨hv, hvn⟩ := hall v List.mem_cons_self
      rw [List.cons_append, floatBitsLoop_cons, List.append_assoc]
      obtain ⟨d', hrel', hval', hstep⟩ := floatDecStep_step s d v (floatBitsLoop (floatStep s v).2 (vs ++ [uvnan]) ++ pad) hrel hp hv
      rw [if_neg (fun h => hvn h.1)] at hstep
      simp only [floatDecLoop, hstep]
      rw [ih (floatStep s v).2 d' pad f hrel' (by rw [floatStep_prev]; exact hv) (by rw [floatStep_prev]; exact hvn)
        (fun x hx => hall x (List.mem_cons_of_mem _ hx)) (by simp at hf; omega)]
      simp only [hval']

theorem isNaN_uvnan : isNaN uvnan = true := by decide

/-- **float codec** (both encoders emit these bits, both decoders read them): every sequence of
    non-NaN 64-bit patterns is encoded, and decodes to itself bit for bit. -/
theorem floatDecode_floatEncode (vs : List Nat) (hv : ∀ v ∈ vs, v < W) (hn : ∀ v ∈ vs, isNaN v = false) :
    ∃ b, floatEncode vs = some b ∧ floatDecode b = some vs := by
  have hWW : W = 2 ^ 64 := by decide
  have hne : ∀ v ∈ vs, v < 2 ^ 64 ∧ v ≠ uvnan := by
    intro v hvv
    refine ⟨by rw [← hWW]; exact hv v hvv, ?_⟩
    intro h; have := hn v hvv; rw [h, isNaN_uvnan] at this; exact absurd this (by decide)
  unfold floatEncode
  have hany : vs.any isNaN = false := by
    apply Bool.eq_false_iff.mpr
    intro h
    obtain ⟨v, hvv, hb⟩ := List.any_eq_true.mp h
    rw [hn v hvv] at hb; exact absurd hb (by decide)
  rw [hany]
  refine ⟨_, rfl, ?_⟩
  unfold floatDecode
  simp only
  obtain ⟨pad, hpad⟩ := bitsOfBytes_packBits (floatBits vs)
  rw [hpad]
  cases vs with
  | nil =>
    have : floatBits [] = bitsOf uvnan 64 ++ [] := by simp [floatBits, floatBitsLoop]
    rw [this, List.append_assoc, readBits_bitsOf]
    have hm : uvnan % 2 ^ 64 = uvnan := by decide
    simp only [hm, if_true]
  | cons v0 tail =>
    obtain ⟨hv0, hv0n⟩ := hne v0 List.mem_cons_self
    have : floatBits (v0 :: tail) = bitsOf v0 64 ++ floatBitsLoop { prev := v0 } (tail ++ [uvnan]) := by
      simp [floatBits]
    rw [this, List.append_assoc, readBits_bitsOf, Nat.mod_eq_of_lt hv0]
    simp only [if_neg hv0n]
    have hlen := floatBitsLoop_length_ge (tail ++ [uvnan]) { prev := v0 }
    rw [floatDecLoop_spec tail { prev := v0 } { val := v0 } pad _ ⟨rfl, by intro a b h; simp at h⟩ hv0 hv0n
      (fun x hx => hne x (List.mem_cons_of_mem _ hx))
      (by simp only [List.length_append, List.length_cons, List.length_nil] at hlen ⊢; omega)]

end Influx.Codec
