/-
  Lemmas.ReducersTop — top(n) / bottom(n) of Model.Reducers against Spec.C23.topOK.
-/
import Influx.Lemmas.ReducersDistinct
open Influx.Reducers Influx.Spec.C23

namespace Influx.Reducers.Lemmas
variable {V F : Type}

/-- value order laws: `<` is a strict weak order and Go `==` is "neither is less" -/
structure OrdLaws (A : Arith V F) : Prop where
  sw : StrictWeak A.vo.lt
  eq_iff : ∀ a b, A.vo.eq a b = (!A.vo.lt a b && !A.vo.lt b a)

/-- lexicographic combination of a strict weak order with a tie-break -/
def lexLt {α : Type} (L T : α → α → Bool) (a b : α) : Bool := L a b || (!L a b && !L b a && T a b)

theorem lexLt_strictWeak {α : Type} (L T : α → α → Bool) (hL : StrictWeak L) (hT : StrictWeak T) :
    StrictWeak (lexLt L T) where
  irrefl := by intro a; simp [lexLt, hL.irrefl, hT.irrefl]
  trans := by
    intro a b c h1 h2
    simp only [lexLt, Bool.or_eq_true, Bool.and_eq_true, Bool.not_eq_true'] at h1 h2 ⊢
    rcases h1 with h1 | ⟨⟨h1a, h1b⟩, h1t⟩ <;> rcases h2 with h2 | ⟨⟨h2a, h2b⟩, h2t⟩
    · exact Or.inl (hL.trans _ _ _ h1 h2)
    · left
      cases hac : L a c with
      | true => rfl
      | false => have := hL.negTrans a c b hac h2b; rw [h1] at this; cases this
    · left
      cases hac : L a c with
      | true => rfl
      | false => have := hL.negTrans b a c h1b hac; rw [h2] at this; cases this
    · right
      exact ⟨⟨hL.negTrans _ _ _ h1a h2a, hL.negTrans _ _ _ h2b h1b⟩, hT.trans _ _ _ h1t h2t⟩
  negTrans := by
    intro a b c h1 h2
    simp only [lexLt, Bool.or_eq_false_iff, Bool.and_eq_false_iff, Bool.not_eq_false'] at h1 h2 ⊢
    obtain ⟨h1l, h1r⟩ := h1
    obtain ⟨h2l, h2r⟩ := h2
    refine ⟨hL.negTrans _ _ _ h1l h2l, ?_⟩
    -- L c a, or no tie-break
    have key : L b a = true ∨ L c b = true → L c a = true := by
      intro h
      cases hca : L c a with
      | true => rfl
      | false =>
        rcases h with h | h
        · have := hL.negTrans b c a h2l hca; rw [h] at this; cases this
        · have := hL.negTrans c a b hca h1l; rw [h] at this; cases this
    rcases h1r with (h1r | h1r) | h1r
    · rw [h1l] at h1r; cases h1r
    · exact Or.inl (Or.inr (key (Or.inl h1r)))
    · rcases h2r with (h2r | h2r) | h2r
      · rw [h2l] at h2r; cases h2r
      · exact Or.inl (Or.inr (key (Or.inr h2r)))
      · exact Or.inr (hT.negTrans _ _ _ h1r h2r)

/-- the value part of the comparator: `<` for top, `>` for bottom -/
def valLt (A : Arith V F) (isTop : Bool) (a b : Pt V) : Bool :=
  if isTop then A.vo.lt a.v b.v else A.vo.lt b.v a.v

theorem valLt_strictWeak (A : Arith V F) (h : StrictWeak A.vo.lt) (isTop : Bool) : StrictWeak (valLt A isTop) := by
  cases isTop
  · exact ⟨fun a => by simp [valLt, h.irrefl], fun a b c h1 h2 => by simp [valLt] at *; exact h.trans _ _ _ h2 h1,
      fun a b c h1 h2 => by simp [valLt] at *; exact h.negTrans _ _ _ h2 h1⟩
  · exact ⟨fun a => by simp [valLt, h.irrefl], fun a b c h1 h2 => by simp [valLt] at *; exact h.trans _ _ _ h1 h2,
      fun a b c h1 h2 => by simp [valLt] at *; exact h.negTrans _ _ _ h1 h2⟩

def laterT (a b : Pt V) : Bool := decide (a.t > b.t)

theorem laterT_strictWeak : StrictWeak (laterT (V := V)) where
  irrefl := by intro a; simp [laterT]
  trans := by intro a b c h1 h2; simp [laterT] at *; omega
  negTrans := by intro a b c h1 h2; simp [laterT] at *; omega

theorem topCmp_eq_lex (A : Arith V F) (h : OrdLaws A) (isTop : Bool) (a b : Pt V) :
    topCmp A.vo isTop a b = lexLt (valLt A isTop) laterT a b := by
  simp only [topCmp, lexLt, valLt, laterT, h.eq_iff]
  cases isTop <;> cases h1 : A.vo.lt a.v b.v <;> cases h2 : A.vo.lt b.v a.v <;> simp

theorem topCmp_strictWeak (A : Arith V F) (h : OrdLaws A) (isTop : Bool) : StrictWeak (topCmp A.vo isTop) := by
  have := lexLt_strictWeak (valLt A isTop) laterT (valLt_strictWeak A h.sw isTop) laterT_strictWeak
  have heq : topCmp A.vo isTop = lexLt (valLt A isTop) laterT := by
    funext a b; exact topCmp_eq_lex A h isTop a b
  rw [heq]; exact this

/-- the statement's ranking is the comparator read backwards -/
theorem better_eq_cmp (A : Arith V F) (h : OrdLaws A) (isTop : Bool) (a b : Pt V) :
    better A isTop a b = topCmp A.vo isTop b a := by
  simp only [better, topCmp, h.eq_iff]
  cases isTop <;> cases h1 : A.vo.lt a.v b.v <;> cases h2 : A.vo.lt b.v a.v <;> simp <;> omega

/-! ### the heap root -/

theorem heapMinIdx_facts {α : Type} (cmp : α → α → Bool) (h : StrictWeak cmp) (l : List α) :
    match heapMinIdx cmp l with
    | none => l = []
    | some (i, m) => l[i]? = some m ∧ ∀ o ∈ l, cmp o m = false := by
  induction l with
  | nil => simp [heapMinIdx]
  | cons x xs ih =>
    simp only [heapMinIdx]
    cases hm : heapMinIdx cmp xs with
    | none =>
      rw [hm] at ih
      subst ih
      simp [h.irrefl]
    | some im =>
      obtain ⟨i, m⟩ := im
      rw [hm] at ih
      obtain ⟨hi, hmin⟩ := ih
      by_cases hc : cmp m x = true
      · simp only [hc, if_true]
        refine ⟨by simpa using hi, ?_⟩
        intro o ho
        rcases List.mem_cons.mp ho with rfl | ho
        · exact h.asymm _ _ hc
        · exact hmin o ho
      · have hc' : cmp m x = false := by simpa using hc
        simp only [hc', Bool.false_eq_true, if_false]
        refine ⟨by simp, ?_⟩
        intro o ho
        rcases List.mem_cons.mp ho with rfl | ho
        · exact h.irrefl _
        · exact h.negTrans _ _ _ (hmin o ho) hc'

theorem set_perm {α : Type} (l : List α) (i : Nat) (m p : α) (rest : List α) (hi : l[i]? = some m) :
    (l.set i p ++ m :: rest).Perm (p :: (l ++ rest)) := by
  induction l generalizing i with
  | nil => simp at hi
  | cons x xs ih =>
    cases i with
    | zero =>
      simp at hi; subst hi
      simp only [List.set_cons_zero, List.cons_append]
      refine (List.Perm.cons p List.perm_middle).trans ?_
      exact List.Perm.refl _
    | succ i =>
      simp at hi
      simp only [List.set_cons_succ, List.cons_append]
      exact (List.Perm.cons x (ih i hi)).trans (List.Perm.swap p x _)

/-- invariant of the bounded heap after a prefix `P`: the heap holds `min n |P|` points of
    `P`, and no point left out is better than a point kept -/
theorem top_fold_inv (A : Arith V F) (h : OrdLaws A) (isTop : Bool) (n : Nat) (xs : List (Pt V)) :
    ∀ (hp rest P : List (Pt V)), (hp ++ rest).Perm P → hp.length = min n P.length →
      (∀ r ∈ rest, ∀ o ∈ hp, topCmp A.vo isTop o r = false) →
      ∃ rest', ((xs.foldl (topAgg A.vo isTop n) hp) ++ rest').Perm (P ++ xs) ∧
        (xs.foldl (topAgg A.vo isTop n) hp).length = min n (P.length + xs.length) ∧
        (∀ r ∈ rest', ∀ o ∈ xs.foldl (topAgg A.vo isTop n) hp, topCmp A.vo isTop o r = false) := by
  have hsw := topCmp_strictWeak A h isTop
  induction xs with
  | nil => intro hp rest P h1 h2 h3; exact ⟨rest, by simpa using h1, by simpa using h2, h3⟩
  | cons p ps ih =>
    intro hp rest P h1 h2 h3
    simp only [List.foldl_cons]
    have hassoc : P ++ p :: ps = (P ++ [p]) ++ ps := by simp
    have hlen' : P.length + (p :: ps).length = (P ++ [p]).length + ps.length := by simp; omega
    rw [hassoc, hlen']
    by_cases hfull : hp.length = n
    · -- full: compare with the root
      have hf := heapMinIdx_facts (topCmp A.vo isTop) hsw hp
      simp only [topAgg, hfull, if_true]
      cases hm : heapMinIdx (topCmp A.vo isTop) hp with
      | none =>
        rw [hm] at hf
        subst hf
        -- n = 0
        simp only
        apply ih [] (p :: rest) (P ++ [p])
        · have : (rest).Perm P := by simpa using h1
          simpa using (List.Perm.cons p this).trans (by simpa using (List.perm_append_comm (l₁ := [p]) (l₂ := P)))
        · simp at hfull ⊢; omega
        · intro r _ o ho; cases ho
      | some im =>
        obtain ⟨i, m⟩ := im
        rw [hm] at hf
        obtain ⟨hi, hmin⟩ := hf
        have hmem : m ∈ hp := List.mem_of_getElem? hi
        by_cases hc : topCmp A.vo isTop m p = true
        · simp only [hc, if_true]
          apply ih (hp.set i p) (m :: rest) (P ++ [p])
          · refine (set_perm hp i m p rest hi).trans ?_
            have := (List.Perm.cons p h1).trans (by simpa using (List.perm_append_comm (l₁ := [p]) (l₂ := P)))
            exact this
          · simp [hfull]; omega
          · intro r hr o ho
            have ho' : o = p ∨ o ∈ hp := by
              rcases List.mem_or_eq_of_mem_set ho with h | h
              · exact Or.inr h
              · exact Or.inl h
            rcases List.mem_cons.mp hr with rfl | hr
            · rcases ho' with rfl | ho'
              · exact hsw.asymm _ _ hc
              · exact hmin o ho'
            · rcases ho' with rfl | ho'
              · exact hsw.negTrans _ _ _ (hsw.asymm _ _ hc) (h3 r hr m hmem)
              · exact h3 r hr o ho'
        · have hc' : topCmp A.vo isTop m p = false := by simpa using hc
          simp only [hc', Bool.false_eq_true, if_false]
          apply ih hp (p :: rest) (P ++ [p])
          · have := (List.Perm.cons p h1).trans (by simpa using (List.perm_append_comm (l₁ := [p]) (l₂ := P)))
            exact (List.perm_middle).trans this
          · simp [hfull]; omega
          · intro r hr o ho
            rcases List.mem_cons.mp hr with rfl | hr
            · exact hsw.negTrans _ _ _ (hmin o ho) hc'
            · exact h3 r hr o ho
    · -- still filling
      simp only [topAgg, hfull, if_false]
      apply ih (p :: hp) rest (P ++ [p])
      · have := (List.Perm.cons p h1).trans (by simpa using (List.perm_append_comm (l₁ := [p]) (l₂ := P)))
        simpa using this
      · simp; omega
      · intro r hr o ho
        rcases List.mem_cons.mp ho with rfl | ho
        · -- the heap was not full, so nothing has been left out yet
          exfalso
          have hl := h1.length_eq
          simp at hl
          have : rest = [] := by
            cases rest with
            | nil => rfl
            | cons a b => simp at hl; omega
          subst this; cases hr
        · exact h3 r hr o ho


/-! ### removing the selected points from the input -/

theorem find_erase {W : Type} (eqv : W → W → Bool) (hrefl : ∀ x, eqv x x = true)
    (hexact : ∀ a b, eqv a b = true → a = b) (a : Pt W) :
    ∀ (bs as : List (Pt W)), bs.Perm (a :: as) →
      ∃ i, bs.findIdx? (fun b => decide (a.t = b.t) && eqv a.v b.v) = some i ∧ (bs.eraseIdx i).Perm as := by
  have hp : ∀ b : Pt W, (decide (a.t = b.t) && eqv a.v b.v) = true → b = a := by
    intro b hb
    simp only [Bool.and_eq_true, decide_eq_true_eq] at hb
    have := hexact _ _ hb.2
    cases a; cases b; simp_all
  intro bs
  induction bs with
  | nil => intro as h; have := h.length_eq; simp at this
  | cons b bs ihb =>
    intro as hperm
    have hmem : a ∈ b :: bs := hperm.mem_iff.mpr (by simp)
    by_cases hb : b = a
    · subst hb
      refine ⟨0, by simp [List.findIdx?_cons, hrefl], ?_⟩
      simpa using hperm.cons_inv
    · have hpb : (decide (a.t = b.t) && eqv a.v b.v) = false := by
        cases hh : (decide (a.t = b.t) && eqv a.v b.v) with
        | false => rfl
        | true => exact absurd (hp b hh) hb
      have hmem' : a ∈ bs := by
        rcases List.mem_cons.mp hmem with h | h
        · exact absurd h.symm hb
        · exact h
      obtain ⟨l1, l2, hbs⟩ := List.append_of_mem hmem'
      have hp1 : (b :: bs).Perm (a :: b :: (l1 ++ l2)) := by
        rw [hbs]
        exact (List.Perm.cons b List.perm_middle).trans (List.Perm.swap a b _)
      have hrest : (b :: (l1 ++ l2)).Perm as := (hp1.symm.trans hperm).cons_inv
      have hbs' : bs.Perm (a :: (l1 ++ l2)) := by rw [hbs]; exact List.perm_middle
      obtain ⟨i, hi, hpi⟩ := ihb (l1 ++ l2) hbs'
      refine ⟨i + 1, by simp [List.findIdx?_cons, hpb, hi], ?_⟩
      simp only [List.eraseIdx_cons_succ]
      exact (List.Perm.cons b hpi).trans hrest

theorem removeAll_of_perm {W : Type} (eqv : W → W → Bool) (hrefl : ∀ x, eqv x x = true)
    (hexact : ∀ a b, eqv a b = true → a = b) :
    ∀ (out xs rest : List (Pt W)), (out ++ rest).Perm xs →
      ∃ rest', removeAll eqv xs out = some rest' ∧ rest'.Perm rest := by
  intro out
  induction out with
  | nil => intro xs rest h; exact ⟨xs, rfl, by simpa using h.symm⟩
  | cons o os ih =>
    intro xs rest h
    obtain ⟨i, hi, hpi⟩ := find_erase eqv hrefl hexact o xs (os ++ rest) (by simpa using h.symm)
    obtain ⟨rest', hr, hpr⟩ := ih (xs.eraseIdx i) rest hpi.symm
    exact ⟨rest', by simp [removeAll, hi, hr], hpr⟩

/-- **top(n) / bottom(n)**: `min n len` input points, best first, none of the points left
    out better than a selected one -/
theorem top_ok (A : Arith V F) (h : OrdLaws A) (hexact : ∀ a b, A.eqvV a b = true → a = b)
    (isTop : Bool) (n : Nat) (xs : List (Pt V)) :
    topOK A isTop n xs (topN A.vo isTop n xs) = true := by
  have hsw := topCmp_strictWeak A h isTop
  obtain ⟨rest, hperm, hlen, hbest⟩ :=
    top_fold_inv A h isTop n xs [] [] [] (by simp) (by simp) (by intro r hr; cases hr)
  simp only [List.nil_append, List.length_nil, Nat.zero_add] at hperm hlen
  unfold topN topOK
  -- the emitted list: the heap, sorted best first
  have hrev : StrictWeak (fun a b => topCmp A.vo isTop b a) :=
    ⟨fun a => hsw.irrefl a, fun a b c h1 h2 => hsw.trans c b a h2 h1, fun a b c h1 h2 => hsw.negTrans c b a h2 h1⟩
  have hp2 := insertionSort_perm (fun a b => topCmp A.vo isTop b a) (xs.foldl (topAgg A.vo isTop n) [])
  have hs2 := insertionSort_sorted hrev (xs.foldl (topAgg A.vo isTop n) [])
  have hall : (insertionSort (fun a b => topCmp A.vo isTop b a) (xs.foldl (topAgg A.vo isTop n) []) ++ rest).Perm xs :=
    (hp2.append_right rest).trans hperm
  obtain ⟨rest', hrem, hprest⟩ := removeAll_of_perm A.eqvV A.eqvV_refl hexact _ _ _ hall
  simp only [Bool.and_eq_true, decide_eq_true_eq]
  refine ⟨⟨by rw [hp2.length_eq, hlen], ?_⟩, ?_⟩
  · apply pairwiseB_of_pairwise
    refine hs2.imp ?_
    intro a b hab
    rw [better_eq_cmp A h]
    simpa using hab
  · simp only [hrem, List.all_eq_true]
    intro r hr o ho
    rw [better_eq_cmp A h]
    have hr' : r ∈ rest := hprest.mem_iff.mp hr
    have ho' := hp2.mem_iff.mp ho
    simp [hbest r hr' o ho']

end Influx.Reducers.Lemmas
