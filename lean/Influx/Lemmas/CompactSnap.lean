/-
  Lemmas.CompactSnap — `Compactor.WriteSnapshot` over a deduplicated cache:
  `cacheKeyIterator` writes, key after key, the last-write-wins content of the
  cache in blocks of at most `size` values.
-/
import Influx.Lemmas.CompactCaseL

namespace Influx.Model.Compact
open Influx.Spec.C04

/-! ### `Cache.Deduplicate`: last write wins -/

theorem upsert_spec (p : Int × Int) : ∀ (acc : Pts Int), Asc acc →
    Asc (upsert p acc) ∧ (∀ q ∈ upsert p acc, q = p ∨ q ∈ acc) ∧
    ∀ t, lookup (upsert p acc) t = if p.1 = t then some p.2 else lookup acc t
  | [], _ => by
    have e : upsert p ([] : Pts Int) = [p] := rfl
    rw [e]
    exact ⟨List.pairwise_singleton _ _, fun q hq => Or.inl (by simpa using hq),
      fun t => by rw [lookup_cons]⟩
  | q :: qs, h => by
    have hc := asc_cons.mp h
    unfold upsert
    by_cases h1 : p.1 < q.1
    · rw [if_pos h1]
      refine ⟨?_, by simp, ?_⟩
      · rw [asc_cons]
        refine ⟨?_, h⟩
        intro x hx
        rcases List.mem_cons.mp hx with rfl | hx2
        · exact h1
        · have := hc.1 x hx2; omega
      · intro t; rw [lookup_cons]
    · rw [if_neg h1]
      by_cases h2 : p.1 = q.1
      · rw [if_pos h2]
        refine ⟨?_, ?_, ?_⟩
        · rw [asc_cons]
          exact ⟨fun x hx => by have := hc.1 x hx; omega, hc.2⟩
        · intro x hx
          rcases List.mem_cons.mp hx with rfl | hx2
          · exact Or.inl rfl
          · exact Or.inr (List.mem_cons_of_mem _ hx2)
        · intro t
          rw [lookup_cons, lookup_cons]
          by_cases h3 : p.1 = t
          · simp [h3]
          · have : ¬ q.1 = t := by omega
            simp [h3, this]
      · rw [if_neg h2]
        obtain ⟨r1, r2, r3⟩ := upsert_spec p qs hc.2
        refine ⟨?_, ?_, ?_⟩
        · rw [asc_cons]
          refine ⟨?_, r1⟩
          intro x hx
          rcases r2 x hx with rfl | hx2
          · omega
          · exact hc.1 x hx2
        · intro x hx
          rcases List.mem_cons.mp hx with rfl | hx2
          · exact Or.inr (by simp)
          · rcases r2 x hx2 with h3 | h3
            · exact Or.inl h3
            · exact Or.inr (List.mem_cons_of_mem _ h3)
        · intro t
          rw [lookup_cons, r3 t, lookup_cons]
          by_cases h3 : p.1 = t
          · have : ¬ q.1 = t := by omega
            simp [h3, this]
          · simp [h3]

/-- the last value written at `t` -/
def lastOf (vs : Pts Int) (t : Int) : Option Int := ((vs.filter (fun p => p.1 == t)).map (·.2)).getLast?

theorem lastOf_cons (p : Int × Int) (vs : Pts Int) (t : Int) :
    lastOf (p :: vs) t = (lastOf vs t).or (if p.1 = t then some p.2 else none) := by
  unfold lastOf
  by_cases h : p.1 = t
  · simp only [List.filter_cons, h, beq_self_eq_true, if_true, List.map_cons, List.getLast?_cons]
    cases hl : (List.map (fun x => x.2) (List.filter (fun q => q.1 == t) vs)).getLast? <;> simp
  · have : (p.1 == t) = false := by simp [h]
    simp [List.filter_cons, this, h]

theorem foldl_upsert_spec : ∀ (vs acc : Pts Int), Asc acc →
    Asc (vs.foldl (fun acc p => upsert p acc) acc) ∧
    ∀ t, lookup (vs.foldl (fun acc p => upsert p acc) acc) t = (lastOf vs t).or (lookup acc t)
  | [], acc, h => ⟨h, fun t => by simp [lastOf]⟩
  | p :: vs, acc, h => by
    obtain ⟨u1, _, u3⟩ := upsert_spec p acc h
    obtain ⟨r1, r2⟩ := foldl_upsert_spec vs (upsert p acc) u1
    refine ⟨r1, ?_⟩
    intro t
    simp only [List.foldl_cons]
    rw [r2 t, u3 t, lastOf_cons]
    by_cases h3 : p.1 = t
    · simp [h3, Option.or_assoc]
    · simp [h3]

theorem dedupValues_spec (vs : Pts Int) :
    Asc (dedupValues vs) ∧ ∀ t, lookup (dedupValues vs) t = lastOf vs t := by
  obtain ⟨r1, r2⟩ := foldl_upsert_spec vs [] asc_nil
  exact ⟨r1, fun t => by rw [dedupValues, r2 t]; simp⟩

/-! ### `cacheKeyIterator.encode`: blocks of `size` values -/

theorem chunksOf_spec (size : Nat) (hs : 0 < size) : ∀ (fuel : Nat) (vs : Pts Int), vs.length < fuel →
    outPts (chunksOf size fuel vs) = vs ∧
    ∀ o ∈ chunksOf size fuel vs, OBlkOK o ∧ 1 ≤ o.pts.length ∧ o.pts.length ≤ size
  | 0, _, h => by omega
  | fuel + 1, [], _ => by simp [chunksOf]
  | fuel + 1, p :: vs, h => by
    unfold chunksOf
    have hlen : ((p :: vs).drop size).length < fuel := by
      simp only [List.length_drop, List.length_cons] at h ⊢; omega
    obtain ⟨r1, r2⟩ := chunksOf_spec size hs fuel ((p :: vs).drop size) hlen
    refine ⟨?_, ?_⟩
    · simp only [outPts_cons, r1, List.take_append_drop]
    · intro o ho
      rcases List.mem_cons.mp ho with rfl | ho2
      · have hne : (p :: vs).take size ≠ [] := by
          cases size with
          | zero => omega
          | succ n => simp
        obtain ⟨a, z, ha, hz⟩ := head_getLast_of_ne hne
        have ha' : a = p := by
          cases size with
          | zero => omega
          | succ n => simp at ha; exact ha.symm
        refine ⟨⟨a, z, ha, hz, by simp [ha'], by simp [hz]⟩, ?_, ?_⟩
        · exact List.length_pos_iff.mpr hne
        · simp; omega
      · exact r2 o ho2

/-! ### the cache of a case -/

/-- the values written for key `k`, in op order -/
def cwOf (k : Key) (ops : List Op) : Pts Int :=
  ops.flatMap fun op => match op with
    | Op.cw k' pts => if k' = k then pts else []
    | _ => []

def getC (m : List (Key × Pts Int)) (k : Key) : Pts Int :=
  (m.filter (fun e => decide (e.1 = k))).flatMap (·.2)

def KeysAscC (m : List (Key × Pts Int)) : Prop := m.Pairwise (fun a b => keyLt a.1 b.1 = true)

theorem getC_nil_of_gt {m : List (Key × Pts Int)} {k : Key} (h : ∀ e ∈ m, keyLt k e.1 = true) : getC m k = [] := by
  simp only [getC, List.flatMap_eq_nil_iff]
  intro e he
  have hm := (List.mem_filter.mp he).1
  have hk := (List.mem_filter.mp he).2
  simp only [decide_eq_true_eq] at hk
  have := h e hm
  rw [hk, keyLt_irrefl] at this; cases this

theorem getC_cons (e : Key × Pts Int) (m : List (Key × Pts Int)) (k : Key) :
    getC (e :: m) k = (if e.1 = k then e.2 else []) ++ getC m k := by
  by_cases h : e.1 = k <;> simp [getC, List.filter_cons, h]

theorem insertKey_spec (k : Key) (vs : Pts Int) :
    ∀ (m : List (Key × Pts Int)), KeysAscC m →
      KeysAscC (insertKey k vs m) ∧
      (∀ e ∈ insertKey k vs m, e.1 = k ∨ ∃ e' ∈ m, e'.1 = e.1) ∧
      (∀ k', getC (insertKey k vs m) k' = getC m k' ++ (if k' = k then vs else []))
  | [], _ => by
    simp only [insertKey]
    refine ⟨List.pairwise_singleton _ _, by simp, ?_⟩
    intro k'
    by_cases h : k = k' <;> simp [getC, h, eq_comm]
  | (k0, bs) :: rest, hs => by
    have hp := List.pairwise_cons.mp hs
    unfold insertKey
    by_cases h1 : k = k0
    · subst h1
      rw [if_pos rfl]
      refine ⟨List.pairwise_cons.mpr ⟨hp.1, hp.2⟩, ?_, ?_⟩
      · intro e he
        rcases List.mem_cons.mp he with rfl | h2
        · exact Or.inl rfl
        · exact Or.inr ⟨e, List.mem_cons_of_mem _ h2, rfl⟩
      · intro k'
        by_cases h : k = k'
        · subst h
          have := getC_nil_of_gt hp.1
          simp only [getC, List.filter_cons, decide_true, if_true, List.flatMap_cons] at this ⊢
          simp [this]
        · have h' : ¬ k' = k := fun hh => h hh.symm
          simp [getC, List.filter_cons, h, h']
    · rw [if_neg h1]
      by_cases h2 : keyLt k k0 = true
      · rw [if_pos h2]
        have hgt : ∀ e ∈ (k0, bs) :: rest, keyLt k e.1 = true := by
          intro e he
          rcases List.mem_cons.mp he with rfl | h3
          · exact h2
          · exact keyLt_trans h2 (hp.1 e h3)
        refine ⟨List.pairwise_cons.mpr ⟨hgt, hs⟩, ?_, ?_⟩
        · intro e he
          rcases List.mem_cons.mp he with rfl | h3
          · exact Or.inl rfl
          · exact Or.inr ⟨e, h3, rfl⟩
        · intro k'
          by_cases h : k = k'
          · subst h
            have := getC_nil_of_gt hgt
            rw [getC_cons, this]
            simp
          · have h' : ¬ k' = k := fun hh => h hh.symm
            simp [getC, List.filter_cons, h, h']
      · rw [if_neg h2]
        obtain ⟨r1, r2, r3⟩ := insertKey_spec k vs rest hp.2
        have hlt : keyLt k0 k = true := by
          cases hx : keyLt k0 k with
          | true => rfl
          | false =>
            have h2' : keyLt k k0 = false := by simpa using h2
            exact absurd (keyLt_total h2' hx) h1
        refine ⟨?_, ?_, ?_⟩
        · refine List.pairwise_cons.mpr ⟨?_, r1⟩
          intro e he
          rcases r2 e he with h3 | ⟨e', he', hk'⟩
          · rw [h3]; exact hlt
          · rw [← hk']; exact hp.1 e' he'
        · intro e he
          rcases List.mem_cons.mp he with rfl | h3
          · exact Or.inr ⟨(k0, bs), by simp, rfl⟩
          · rcases r2 e h3 with h4 | ⟨e', he', hk'⟩
            · exact Or.inl h4
            · exact Or.inr ⟨e', List.mem_cons_of_mem _ he', hk'⟩
        · intro k'
          have := r3 k'
          simp only [getC, List.filter_cons] at this ⊢
          by_cases h : k0 = k'
          · simp [h, this]
          · simp [h, this]

def foldCache (acc : List (Key × Pts Int)) (ops : List Op) : List (Key × Pts Int) :=
  ops.foldl (fun acc op => match op with
    | Op.cw k pts => insertKey k pts acc
    | _ => acc) acc

theorem foldCache_spec : ∀ (ops : List Op) (acc : List (Key × Pts Int)), KeysAscC acc →
    KeysAscC (foldCache acc ops) ∧ ∀ k, getC (foldCache acc ops) k = getC acc k ++ cwOf k ops
  | [], acc, hs => ⟨hs, fun k => by simp [foldCache, cwOf]⟩
  | op :: ops, acc, hs => by
    unfold foldCache
    simp only [List.foldl_cons]
    cases op with
    | cw k pts =>
      obtain ⟨a1, _, a3⟩ := insertKey_spec k pts acc hs
      obtain ⟨r1, r2⟩ := foldCache_spec ops (insertKey k pts acc) a1
      refine ⟨r1, ?_⟩
      intro k'
      have := r2 k'
      unfold foldCache at this
      rw [this, a3 k']
      by_cases hk : k' = k
      · subst hk; simp [cwOf]
      · have hk' : ¬ k = k' := fun h => hk h.symm
        simp [cwOf, hk, hk']
    | blk _ _ _ =>
      obtain ⟨r1, r2⟩ := foldCache_spec ops acc hs
      exact ⟨r1, fun k' => by have := r2 k'; unfold foldCache at this; rw [this]; simp [cwOf]⟩
    | del _ _ _ _ =>
      obtain ⟨r1, r2⟩ := foldCache_spec ops acc hs
      exact ⟨r1, fun k' => by have := r2 k'; unfold foldCache at this; rw [this]; simp [cwOf]⟩
    | compact _ _ _ =>
      obtain ⟨r1, r2⟩ := foldCache_spec ops acc hs
      exact ⟨r1, fun k' => by have := r2 k'; unfold foldCache at this; rw [this]; simp [cwOf]⟩
    | snap _ =>
      obtain ⟨r1, r2⟩ := foldCache_spec ops acc hs
      exact ⟨r1, fun k' => by have := r2 k'; unfold foldCache at this; rw [this]; simp [cwOf]⟩

theorem cacheOf_eq (ops : List Op) : cacheOf ops = foldCache [] ops := rfl

theorem cacheAt_eq (ops : List Op) (k : Key) (t : Int) : cacheAt ops k t = lastOf (cwOf k ops) t := by
  unfold cacheAt lastOf cwOf
  congr 1
  induction ops with
  | nil => rfl
  | cons op ops ih =>
    simp only [List.flatMap_cons, List.filter_append, List.map_append, ih]
    congr 1
    cases op with
    | cw k' pts =>
      by_cases hk : k' = k
      · subst hk; simp
      · have : (k' == k) = false := by simp [hk]
        simp [hk, this]
    | _ => simp

/-! ### the snapshot sequence -/

/-- the blocks written for one cache entry -/
def entryBlocks (size : Nat) (kv : Key × Pts Int) : List (OBlk Int) :=
  chunksOf size ((dedupValues kv.2).length + 1) (dedupValues kv.2)

theorem snapshotSeq_eq (size : Nat) (hs : 0 < size) (cache : List (Key × Pts Int)) :
    snapshotSeq size cache = .ok (cache.flatMap fun kv => (entryBlocks size kv).map fun b => (kv.1, b)) := by
  unfold snapshotSeq
  rw [if_neg (by omega)]
  rfl

theorem seqOf_entries (size : Nat) (k : Key) : ∀ (cache : List (Key × Pts Int)),
    seqOf k (cache.flatMap fun kv => (entryBlocks size kv).map fun b => (kv.1, b)) =
      (cache.filter (fun e => decide (e.1 = k))).flatMap (entryBlocks size)
  | [] => rfl
  | kv :: rest => by
    simp only [List.flatMap_cons, seqOf_append, seqOf_entries size k rest, List.filter_cons]
    by_cases hk : kv.1 = k
    · subst hk
      simp [seqOf_map_same]
    · simp [hk, seqOf_map_other hk]

theorem keysSorted_entries (size : Nat) : ∀ (cache : List (Key × Pts Int)), KeysAscC cache →
    KeysSorted (cache.flatMap fun kv => (entryBlocks size kv).map fun b => (kv.1, b))
  | [], _ => List.Pairwise.nil
  | kv :: rest, hs => by
    have hp := List.pairwise_cons.mp hs
    simp only [List.flatMap_cons]
    refine List.pairwise_append.mpr ⟨?_, keysSorted_entries size rest hp.2, ?_⟩
    · rw [List.pairwise_map]
      exact List.pairwise_of_forall (fun _ _ => keyLt_irrefl _)
    · intro a ha b hb
      simp only [List.mem_map] at ha
      obtain ⟨x, _, rfl⟩ := ha
      simp only [List.mem_flatMap, List.mem_map] at hb
      obtain ⟨e, he, y, _, rfl⟩ := hb
      exact keyLt_asymm (hp.1 e he)

theorem filter_key_cases : ∀ (m : List (Key × Pts Int)), KeysAscC m → ∀ k,
    m.filter (fun e => decide (e.1 = k)) = [] ∨ ∃ e, m.filter (fun e => decide (e.1 = k)) = [e]
  | [], _, _ => Or.inl rfl
  | e :: rest, hs, k => by
    have hp := List.pairwise_cons.mp hs
    by_cases hk : e.1 = k
    · right
      refine ⟨e, ?_⟩
      have : rest.filter (fun e => decide (e.1 = k)) = [] := by
        apply List.filter_eq_nil_iff.mpr
        intro x hx
        simp only [decide_eq_true_eq]
        intro heq
        have := hp.1 x hx
        rw [hk, heq, keyLt_irrefl] at this; cases this
      simp [List.filter_cons, hk, this]
    · simp only [List.filter_cons, hk, decide_false, Bool.false_eq_true, if_false]
      exact filter_key_cases rest hp.2 k

/-- **a snapshot of the case, judged by the statement checker** -/
theorem modelSnap_ok (ops : List Op) (size : Nat) (files : List OutFile)
    (h : modelSnap ops size = Obs.out files) :
    judge ops true (if size = 0 then 1000 else size) files = none := by
  generalize hsz : (if size = 0 then 1000 else size) = sz at h ⊢
  have hs : 0 < sz := by subst hsz; split <;> omega
  unfold modelSnap at h
  rw [hsz, snapshotSeq_eq sz hs] at h
  simp only [Obs.out.injEq] at h
  subst h
  generalize hseq : ((cacheOf ops).flatMap fun kv => (entryBlocks sz kv).map fun b => (kv.1, b)) = seq
  obtain ⟨sf1, sf2⟩ := splitFiles_spec limits (fun _ => 0) (seqLen seq) seq (by simp [seqLen])
  obtain ⟨c1, c2⟩ := foldCache_spec ops [] List.Pairwise.nil
  rw [← cacheOf_eq] at c1 c2
  apply judge_none ops true sz _ sf2 (by rw [sf1, ← hseq]; exact keysSorted_entries sz _ c1)
    (fun _ => []) (fun k => lastOf (cwOf k ops))
  · intro k
    rw [sf1, ← hseq, seqOf_entries]
    have hg := c2 k
    simp only [getC, List.filter_nil, List.flatMap_nil, List.nil_append] at hg
    rcases filter_key_cases (cacheOf ops) c1 k with h0 | ⟨e, he⟩
    · rw [h0] at hg ⊢
      simp only [List.flatMap_nil] at hg ⊢
      refine ⟨by simpa using asc_nil, ?_, by simp⟩
      intro t; rw [← hg]; simp [lastOf]
    · rw [he] at hg ⊢
      simp only [List.flatMap_cons, List.flatMap_nil, List.append_nil] at hg ⊢
      obtain ⟨d1, d2⟩ := dedupValues_spec e.2
      obtain ⟨k1, k2⟩ := chunksOf_spec sz hs ((dedupValues e.2).length + 1) (dedupValues e.2) (by omega)
      rw [hg] at d1 d2 k1 k2
      refine ⟨?_, ?_, ?_⟩
      · simp only [List.nil_append, entryBlocks, hg, k1]; exact d1
      · intro t
        simp only [List.nil_append, entryBlocks, hg, k1, d2 t]
      · intro o ho
        simp only [entryBlocks, hg] at ho
        obtain ⟨f1, f2, f3⟩ := k2 o ho
        exact ⟨f1, Or.inl ⟨f2, f3⟩⟩
  · intro k t
    simp only [if_true]
    exact (cacheAt_eq ops k t).symm
  · intro k b0 hb0; simp at hb0

end Influx.Model.Compact
