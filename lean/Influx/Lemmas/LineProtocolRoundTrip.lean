/-
  The line round trip: `NewPoint → String/PrecisionString → ParsePointsWithPrecision` on a
  valid point gives the point back.
-/
import Influx.Lemmas.LineProtocolLine
import Influx.Lemmas.LineProtocolTrace

namespace Influx.LP
open Influx.Generated.LineProto Influx.Spec.C11 Influx.LP.Trace

attribute [local simp] cBS_val cComma_val cSpace_val cEq_val cQuote_val cNL_val

/-! ### names -/

theorem replace21_no_pair (k : Nat) (s : Bytes) (h : bsBefore (fun c => c == k) s = false) :
    replace21 cBS k k s = s := by
  induction s with
  | nil => rfl
  | cons a r ih =>
    cases r with
    | nil => rfl
    | cons b r' =>
      simp only [bsBefore, Bool.or_eq_false_iff, Bool.and_eq_false_iff] at h
      have hnot : ¬ (a = cBS ∧ b = k) := by
        intro ⟨h1, h2⟩; rcases h.1 with h | h <;> simp_all
      rw [replace21, if_neg hnot, ih h.2]

theorem bsBefore_mono (S T : Nat → Bool) (hST : ∀ c, T c = true → S c = true) (s : Bytes)
    (h : bsBefore S s = false) : bsBefore T s = false := by
  induction s with
  | nil => rfl
  | cons a r ih =>
    cases r with
    | nil => rfl
    | cons b r' =>
      simp only [bsBefore, Bool.or_eq_false_iff, Bool.and_eq_false_iff] at h ⊢
      refine ⟨?_, ih h.2⟩
      rcases h.1 with h1 | h1
      · exact Or.inl h1
      · right
        cases hT : T b with
        | false => rfl
        | true => rw [hST b hT] at h1; cases h1

/-- a name without `\\,` and `\\ ` is its own unescaped form -/
theorem unescapeMeasurement_id (name : Bytes) (h : bsBefore Spec.C11.isMeasSpecial name = false) :
    unescapeMeasurement name = name := by
  unfold unescapeMeasurement unescapeWith
  split
  · rfl
  · unfold measurementEscapeCodes
    simp only [List.foldl_cons, List.foldl_nil, replace21_guard]
    rw [replace21_no_pair cComma name (bsBefore_mono _ _ (by intro c hc; simp [Spec.C11.isMeasSpecial] at hc ⊢; simp [hc]) _ h)]
    rw [replace21_no_pair cSpace name (bsBefore_mono _ _ (by intro c hc; simp [Spec.C11.isMeasSpecial] at hc ⊢; simp [hc]) _ h)]

/-- `point.Name()` un-escapes four bytes, `MakeKey` escapes two: they agree on names without a
    backslash directly before `,` `"` space `=` -/
theorem unescape_escBy_meas (name : Bytes) (h : bsBefore isEscapeChar name = false) :
    unescape (escBy isMeasSpecial name) = name := by
  induction name with
  | nil => rfl
  | cons b r ih =>
    have hr : bsBefore isEscapeChar r = false := by
      cases r with
      | nil => rfl
      | cons c r' => simp only [bsBefore, Bool.or_eq_false_iff] at h; exact h.2
    simp only [escBy_cons]
    by_cases hb : isMeasSpecial b = true
    · have hesc : isEscapeChar b = true := by
        simp only [isMeasSpecial, Bool.or_eq_true, beq_iff_eq] at hb
        rcases hb with h | h <;> subst h <;> decide
      simp only [hb, if_true]
      rw [unescape, if_pos ⟨rfl, hesc⟩, ih hr]
    · simp only [hb, Bool.false_eq_true, if_false]
      rw [unescape_cons_keep, ih hr]
      intro ⟨hb92, x, hx, hxe⟩
      cases r with
      | nil => simp at hx
      | cons c r' =>
        simp only [escBy_cons] at hx
        by_cases hc : isMeasSpecial c = true
        · simp [hc] at hx; subst hx; revert hxe; decide
        · simp [hc] at hx; subst hx
          simp only [bsBefore, Bool.or_eq_false_iff, Bool.and_eq_false_iff] at h
          rcases h.1 with h1 | h1
          · simp [hb92] at h1
          · rw [h1] at hxe; cases hxe

/-! ### scanKey on the rendered key -/

theorem scanMeasAux_escBy_space (s : Bytes) (prev : Nat) (rest : Bytes)
    (hl : lastIsBS (prev == cBS) s = false) :
    scanMeasAux prev (escBy isMeasSpecial s ++ cSpace :: rest) = (escBy isMeasSpecial s, .fields (cSpace :: rest)) := by
  induction s generalizing prev with
  | nil =>
    simp [lastIsBS] at hl
    simp [scanMeasAux, hl]
  | cons b r ih =>
    simp only [escBy_cons]
    simp only [lastIsBS] at hl
    by_cases hb : isMeasSpecial b = true
    · simp only [hb, if_true, List.cons_append]
      rw [scanMeasAux]
      have h1 : ¬ ((prev ≠ cBS) ∧ cBS = cComma) := by intro h; exact absurd h.2 (by decide)
      have h2 : ¬ ((prev ≠ cBS) ∧ cBS = cSpace) := by intro h; exact absurd h.2 (by decide)
      rw [if_neg h1, if_neg h2, scanMeasAux]
      simp [ih b hl]
    · have hbc : b ≠ cComma := by intro h; rw [h] at hb; exact hb (by decide)
      have hbsp : b ≠ cSpace := by intro h; rw [h] at hb; exact hb (by decide)
      simp only [hb, Bool.false_eq_true, if_false, List.cons_append]
      rw [scanMeasAux]
      simp [hbc, hbsp, ih b hl]

theorem scanMeasurement_escBy_space (name rest : Bytes) (hne : name ≠ []) (hl : noTB name) :
    scanMeasurement (escBy isMeasSpecial name ++ cSpace :: rest) =
      (escBy isMeasSpecial name, .fields (cSpace :: rest)) := by
  have hl' := lastIsBS_false_of_noTB name hl
  cases name with
  | nil => exact absurd rfl hne
  | cons b r =>
    simp only [lastIsBS] at hl'
    simp only [escBy_cons]
    by_cases hb : isMeasSpecial b = true
    · simp only [hb, if_true, List.cons_append]
      rw [scanMeasurement, if_neg (by decide), scanMeasAux]
      simp [scanMeasAux_escBy_space _ _ _ hl']
    · have hbc : b ≠ cComma := by intro h; rw [h] at hb; exact hb (by decide)
      simp only [hb, Bool.false_eq_true, if_false, List.cons_append]
      rw [scanMeasurement, if_neg hbc]
      simp [scanMeasAux_escBy_space _ _ _ hl']

/-- the conditions on the measurement of a valid point -/
structure NameOK (name : Bytes) : Prop where
  ne : name ≠ []
  tb : noTB name
  head : name.head? ≠ some 9 ∧ name.head? ≠ some 0
  hash : name.head? ≠ some 35

theorem scanKey_rendered (name : Bytes) (tags : List Tag) (rest : Bytes) (hn : NameOK name) (ht : TagsOK tags) :
    scanKey (escBy isMeasSpecial name ++ tagsText tags ++ cSpace :: rest) =
      .ok (escBy isMeasSpecial name ++ tagsText tags, cSpace :: rest) := by
  obtain ⟨c, t, hE, hws⟩ := escBy_head_ws isMeasSpecial name (by decide) hn.head hn.ne
  unfold scanKey
  have hskip : skipWhitespace (escBy isMeasSpecial name ++ tagsText tags ++ cSpace :: rest) =
      escBy isMeasSpecial name ++ tagsText tags ++ cSpace :: rest := by
    rw [hE]; exact skipWhitespace_id c _ hws
  rw [hskip]
  cases tags with
  | nil =>
    simp only [tagsText, List.flatMap_nil, List.append_nil]
    rw [scanMeasurement_escBy_space name rest hn.ne hn.tb]
  | cons u us =>
    rw [List.append_assoc, tagsText_append_eq, scanMeasurement_escBy_comma name _ hn.ne hn.tb]
    simp only
    rw [scanKeyTags_tags _ (u :: us) (by simp) rest ht]

/-! ### scanFields on the rendered fields -/

theorem lastTwo_snoc (K : Bytes) (hK : K ≠ []) : ∃ x, lastTwo (K ++ [cSpace]) = some (cSpace, x) := by
  unfold lastTwo
  rw [List.reverse_append]
  cases h : K.reverse with
  | nil => exact absurd (List.reverse_eq_nil_iff.mp h) hK
  | cons x r => exact ⟨x, by simp⟩

theorem fieldsText_head_ws (fs : List (Bytes × FV)) (hne : fs ≠ [])
    (hall : ∀ f ∈ fs, fieldKeyOK f.1 = true) : ∃ c t, fieldsText fs = c :: t ∧ isWs c = false := by
  cases fs with
  | nil => exact absurd rfl hne
  | cons f rest =>
    have hk := hall f (by simp)
    simp only [fieldKeyOK, Bool.and_eq_true, Bool.not_eq_true', List.isEmpty_eq_false_iff, bne_iff_ne, ne_eq] at hk
    obtain ⟨c, t, hE, hws⟩ := escBy_head_ws isEscapeChar f.1 (by decide) ⟨hk.1.2, hk.2⟩ hk.1.1.1.1.1
    refine ⟨c, t ++ cEq :: fvText f.2 ++ fieldsTail rest, ?_, hws⟩
    rw [fieldsText_cons, appendField, escapeString_eq, hE]
    simp

theorem scanFields_rendered (K : Bytes) (hK : K ≠ []) (fs : List (Bytes × FV)) (hne : fs ≠ [])
    (hall : ∀ f ∈ fs, fieldKeyOK f.1 = true ∧ fieldValOK f.2 = true) (T : Bytes)
    (hT : T = [] ∨ T.head? = some cSpace) :
    scanFields K (cSpace :: fieldsText fs ++ T) = .ok (fieldsText fs, T) := by
  obtain ⟨c, t, hF, hws⟩ := fieldsText_head_ws fs hne (fun f hf => (hall f hf).1)
  have hskip : skipWhitespace (cSpace :: fieldsText fs ++ T) = fieldsText fs ++ T := by
    rw [List.cons_append, skipWhitespace]
    simp only [show isWs cSpace = true from by decide, if_true]
    rw [hF, List.cons_append]; exact skipWhitespace_id c _ hws
  obtain ⟨x, hx⟩ := lastTwo_snoc K hK
  unfold scanFields
  rw [hskip]
  have hws1 : (cSpace :: fieldsText fs ++ T).length - (fieldsText fs ++ T).length = 1 := by
    simp only [List.cons_append, List.length_cons]; omega
  rw [hws1]
  have htake : (cSpace :: fieldsText fs ++ T).take 1 = [cSpace] := by simp
  simp only [htake, hx]
  exact scanFieldsM_fields fs hne hall _ rfl rfl T hT

/-! ### parsePoint on the rendered line -/

def timeText : Option Int → Bytes
  | none => []
  | some q => cSpace :: intDigits q

theorem length_le_fieldsText (fs : List (Bytes × FV)) : fs.length ≤ (fieldsText fs).length := by
  induction fs with
  | nil => simp
  | cons f rest ih =>
    rw [fieldsText_cons]
    have h1 : 1 ≤ (appendField f.1 f.2).length := by simp [appendField]; omega
    cases rest with
    | nil => simp only [List.length_cons, List.length_nil, List.length_append]; omega
    | cons g r =>
      simp only [fieldsTail, List.length_cons, List.length_append] at ih ⊢
      omega

theorem parsePoint_rendered (name : Bytes) (tags : List Tag) (fs : List (Bytes × FV)) (q : Option Int)
    (dt : Int) (prec : String) (tq : Int)
    (hn : NameOK name) (ht : TagsOK tags) (hne : fs ≠ [])
    (hall : ∀ f ∈ fs, fieldKeyOK f.1 = true ∧ fieldValOK f.2 = true)
    (hlen : ∀ f ∈ fs, (escBy isMeasSpecial name ++ tagsText tags).length + 4 + (escapeString f.1).length ≤ MaxKeyLength)
    (hq : ∀ v, q = some v → -(2 ^ 63 : Int) ≤ v ∧ v < 2 ^ 63 ∧ safeCalcTime v prec = .ok tq)
    (hq0 : q = none → tq = truncTime dt prec) :
    parsePoint (escBy isMeasSpecial name ++ tagsText tags ++ cSpace :: (fieldsText fs ++ timeText q)) dt prec =
      .ok ⟨escBy isMeasSpecial name ++ tagsText tags, fieldsText fs, tq⟩ := by
  have hKne : escBy isMeasSpecial name ++ tagsText tags ≠ [] := by
    have : escBy isMeasSpecial name ≠ [] := by simpa [escBy_eq_nil] using hn.ne
    simp [this]
  obtain ⟨f0, hf0⟩ : ∃ f, f ∈ fs := by
    cases fs with
    | nil => exact absurd rfl hne
    | cons f r => exact ⟨f, by simp⟩
  have hKlen : (escBy isMeasSpecial name ++ tagsText tags).length ≤ MaxKeyLength := by
    have := hlen f0 hf0; omega
  obtain ⟨c, t, hE, hws⟩ := escBy_head_ws isMeasSpecial name (by decide) hn.head hn.ne
  have hskip : skipWhitespace (escBy isMeasSpecial name ++ tagsText tags ++ cSpace :: (fieldsText fs ++ timeText q)) =
      escBy isMeasSpecial name ++ tagsText tags ++ cSpace :: (fieldsText fs ++ timeText q) := by
    rw [hE]; exact skipWhitespace_id c _ hws
  have hT : timeText q = [] ∨ (timeText q).head? = some cSpace := by
    cases q with
    | none => left; rfl
    | some v => right; rfl
  have hFne : fieldsText fs ≠ [] := by
    have := length_le_fieldsText fs
    cases fs with
    | nil => exact absurd rfl hne
    | cons f r => intro e; rw [e] at this; simp at this
  unfold parsePoint
  rw [scanKey_rendered name tags _ hn ht]
  simp only [hskip]
  have hemp : (escBy isMeasSpecial name ++ tagsText tags).isEmpty = false := by
    cases h : escBy isMeasSpecial name ++ tagsText tags with
    | nil => exact absurd h hKne
    | cons _ _ => rfl
  rw [hemp]
  simp only [Bool.false_eq_true, if_false]
  rw [if_neg (by omega)]
  have htake : (escBy isMeasSpecial name ++ tagsText tags ++ cSpace :: (fieldsText fs ++ timeText q)).take
      ((escBy isMeasSpecial name ++ tagsText tags ++ cSpace :: (fieldsText fs ++ timeText q)).length -
        (cSpace :: (fieldsText fs ++ timeText q)).length) = escBy isMeasSpecial name ++ tagsText tags := by
    have : (escBy isMeasSpecial name ++ tagsText tags ++ cSpace :: (fieldsText fs ++ timeText q)).length -
        (cSpace :: (fieldsText fs ++ timeText q)).length = (escBy isMeasSpecial name ++ tagsText tags).length := by
      simp only [List.length_append, List.length_cons]; omega
    rw [this, List.take_left']
    rfl
  rw [htake]
  have hsf := scanFields_rendered _ hKne fs hne hall (timeText q) hT
  rw [show cSpace :: (fieldsText fs ++ timeText q) = cSpace :: fieldsText fs ++ timeText q from rfl, hsf]
  simp only
  have hemp2 : (fieldsText fs).isEmpty = false := by
    cases h : fieldsText fs with
    | nil => exact absurd h hFne
    | cons _ _ => rfl
  rw [hemp2]
  simp only [Bool.false_eq_true, if_false]
  rw [walkFieldsCheck_fields fs _ (fun f hf => by
    have hk := (hall f hf).1
    simp only [fieldKeyOK, Bool.and_eq_true, noTrailingBS, decide_eq_true_eq] at hk
    exact ⟨hk.1.1.1.1.2, (hall f hf).2, hlen f hf⟩) _ (by have := length_le_fieldsText fs; omega)]
  simp only
  cases q with
  | none =>
    simp only [timeText]
    have : scanTime [] = .ok ([], []) := rfl
    rw [this]
    simp [hq0 rfl]
  | some v =>
    obtain ⟨h1, h2, h3⟩ := hq v rfl
    simp only [timeText]
    rw [scanTime_intDigits]
    simp only
    have hne' : (intDigits v).isEmpty = false := by
      obtain ⟨c, t, hc, _⟩ := intDigits_head v
      rw [hc]; rfl
    rw [hne']
    simp only [Bool.false_eq_true, if_false]
    rw [parseIntGo_intDigits v h1 h2]
    simp only
    rw [h3]
    simp

/-! ### no newline in the rendered line -/

theorem nl_escBy (S : Nat → Bool) (s : Bytes) (h : cNL ∉ s) : cNL ∉ escBy S s := by
  intro hm
  rcases mem_escBy S s cNL hm with h1 | h1
  · revert h1; decide
  · exact h h1

theorem nl_tagsText (tags : List Tag) (h : ∀ t ∈ tags, cNL ∉ t.key ∧ cNL ∉ t.value) : cNL ∉ tagsText tags := by
  induction tags with
  | nil => simp [tagsText]
  | cons t ts ih =>
    rw [tagsText_cons]
    obtain ⟨h1, h2⟩ := h t (by simp)
    have := ih (fun u hu => h u (by simp [hu]))
    simp only [tagText, List.cons_append, List.mem_cons, List.mem_append, not_or]
    exact ⟨by decide, ⟨nl_escBy _ _ h1, by decide, nl_escBy _ _ h2⟩, this⟩

theorem nl_intDigits (v : Int) : cNL ∉ intDigits v := by
  intro h
  rcases intDigits_bytes v _ h with h | h
  · revert h; decide
  · revert h; decide

theorem nl_fvText (v : FV) (hv : fieldValOK v = true) : cNL ∉ fvText v := by
  cases v with
  | float bits text =>
    simp only [fieldValOK, floatTextOK, Bool.and_eq_true, List.all_eq_true, Bool.or_eq_true, beq_iff_eq] at hv
    obtain ⟨_, ⟨⟨_, hall⟩, _⟩, _⟩ := hv
    intro h
    rcases hall _ h with (h | h) | h <;> revert h <;> decide
  | int i =>
    simp only [fvText, List.mem_append, not_or]
    exact ⟨nl_intDigits i, by decide⟩
  | uint u =>
    simp only [fvText, List.mem_append, not_or]
    refine ⟨?_, by decide⟩
    intro h; have := (natDigits_spec u).2.1 _ h; revert this; decide
  | bool b => cases b <;> decide
  | str st =>
    simp only [fieldValOK, Bool.not_eq_true', List.contains_eq_mem, decide_eq_false_iff_not] at hv
    simp only [fvText, List.cons_append, List.mem_cons, List.mem_append, not_or]
    refine ⟨by decide, ?_, by decide, by simp⟩
    rw [escapeStringField_eq]; exact nl_escBy _ _ hv

theorem nl_fieldsText (fs : List (Bytes × FV)) (h : ∀ f ∈ fs, cNL ∉ f.1 ∧ fieldValOK f.2 = true) :
    cNL ∉ fieldsText fs := by
  induction fs with
  | nil => simp [fieldsText, joinCommaB]
  | cons f rest ih =>
    rw [fieldsText_cons]
    obtain ⟨h1, h2⟩ := h f (by simp)
    have hrest := ih (fun g hg => h g (by simp [hg]))
    have htail : cNL ∉ fieldsTail rest := by
      cases rest with
      | nil => simp [fieldsTail]
      | cons g r => simp only [fieldsTail, List.mem_cons, not_or]; exact ⟨by decide, hrest⟩
    simp only [appendField, List.mem_append, List.mem_cons, not_or]
    refine ⟨⟨?_, by decide, nl_fvText f.2 h2⟩, htail⟩
    rw [escapeString_eq]; exact nl_escBy _ _ h1

theorem nl_timeText (q : Option Int) : cNL ∉ timeText q := by
  cases q with
  | none => simp [timeText]
  | some v => simp only [timeText, List.mem_cons, not_or]; exact ⟨by decide, nl_intDigits v⟩

/-! ### accessors on the rendered key -/

theorem parseTags_rendered (name : Bytes) (tags : List Tag) (hn : name ≠ []) (hl : noTB name)
    (ht : ∀ t ∈ tags, t.value ≠ [] ∧ noTB t.key ∧ noTB t.value) :
    parseTags (escBy isMeasSpecial name ++ tagsText tags) = some tags := by
  cases tags with
  | nil =>
    simp only [tagsText, List.flatMap_nil, List.append_nil]
    unfold parseTags walkTags
    have hE : escBy isMeasSpecial name ≠ [] := by simpa [escBy_eq_nil] using hn
    have hemp : (escBy isMeasSpecial name).isEmpty = false := by
      cases h : escBy isMeasSpecial name with
      | nil => exact absurd h hE
      | cons _ _ => rfl
    rw [scanTo_escBy_end isMeasSpecial cComma (by decide) (by decide)]
    simp [hemp, walkTagsLoop_nil]
  | cons t ts =>
    rw [tagsText_cons, List.cons_append]
    exact parseTags_tagsText name t ts hn hl ht

theorem pointName_rendered (name : Bytes) (tags : List Tag) (hl : noTB name)
    (hbs : bsBefore isEscapeChar name = false) :
    pointName (escBy isMeasSpecial name ++ tagsText tags) = name := by
  unfold pointName
  cases tags with
  | nil =>
    simp only [tagsText, List.flatMap_nil, List.append_nil]
    rw [scanTo_escBy_end isMeasSpecial cComma (by decide) (by decide)]
    exact unescape_escBy_meas name hbs
  | cons t ts =>
    rw [tagsText_cons, List.cons_append,
      scanTo_escBy isMeasSpecial cComma (by decide) (by decide) name false _ (lastIsBS_false_of_noTB _ hl)]
    exact unescape_escBy_meas name hbs

/-! ### the float table -/

theorem lookup_consistent (tab : List (Bytes × Nat)) (t : Bytes) (b : Nat) (hm : (t, b) ∈ tab)
    (hc : ∀ x ∈ tab, x.1 = t → x.2 = b) : tab.lookup t = some b := by
  induction tab with
  | nil => cases hm
  | cons x rest ih =>
    obtain ⟨t', b'⟩ := x
    by_cases he : t = t'
    · subst he
      have := hc (t, b') (by simp) rfl
      simp only at this
      simp [List.lookup, this]
    · have hm' : (t, b) ∈ rest := by
        rcases List.mem_cons.mp hm with h | h
        · exact absurd (congrArg Prod.fst h) he
        · exact h
      have hne : (t == t') = false := by simpa using he
      simp only [List.lookup, hne]
      exact ih hm' (fun y hy => hc y (by simp [hy]))

theorem toOVal_rendered (fields : List (Bytes × FV)) (hc : floatsConsistent fields = true)
    (f : Bytes × FV) (hf : f ∈ fields) :
    toOVal (Trace.floatTable fields) (pvalOf f.2) = some (ovalOf f.2) := by
  obtain ⟨k, v⟩ := f
  cases v with
  | float b t =>
    simp only [pvalOf, toOVal, ovalOf]
    have hm : (t, b) ∈ Trace.floatTable fields := by
      unfold Trace.floatTable
      exact List.mem_filterMap.mpr ⟨(k, .float b t), hf, rfl⟩
    have hcons : ∀ x ∈ Trace.floatTable fields, x.1 = t → x.2 = b := by
      intro x hx hxt
      unfold Trace.floatTable at hx
      obtain ⟨g, hg, hgx⟩ := List.mem_filterMap.mp hx
      obtain ⟨gk, gv⟩ := g
      cases gv with
      | float b2 t2 =>
        simp at hgx; subst hgx
        simp only at hxt
        simp only [floatsConsistent, List.all_eq_true] at hc
        have := hc (gk, .float b2 t2) hg (k, .float b t) hf
        simp only [Bool.or_eq_true, bne_iff_ne, ne_eq, beq_iff_eq] at this
        rcases this with h | h
        · exact absurd hxt h
        · exact h
      | int _ => simp at hgx
      | uint _ => simp at hgx
      | bool _ => simp at hgx
      | str _ => simp at hgx
    rw [lookup_consistent _ t b hm hcons]; rfl
  | int _ => rfl
  | uint _ => rfl
  | bool _ => rfl
  | str _ => rfl

theorem mapM_toOVal (fields fs : List (Bytes × FV)) (hc : floatsConsistent fields = true)
    (hsub : ∀ f ∈ fs, f ∈ fields) :
    (fs.map fun f => (f.1, pvalOf f.2)).mapM
        (fun f => (toOVal (Trace.floatTable fields) f.2).map fun v => (f.1, v)) =
      some (fs.map fun f => (f.1, ovalOf f.2)) := by
  induction fs with
  | nil => rfl
  | cons f rest ih =>
    simp only [List.map_cons, List.mapM_cons]
    rw [toOVal_rendered fields hc f (hsub f (by simp))]
    simp only [Option.map_some, Option.bind_eq_bind, Option.bind_some]
    rw [ih (fun g hg => hsub g (by simp [hg]))]
    rfl

/-! ### lengths -/

theorem length_tagsText (tags : List Tag) :
    (tagsText tags).length = (tags.map fun t => 2 + escTagLen t.key + escTagLen t.value).sum := by
  induction tags with
  | nil => rfl
  | cons t ts ih =>
    rw [tagsText_cons]
    simp only [List.cons_append, List.length_cons, List.length_append, tagText, List.map_cons, List.sum_cons, ih,
      length_escBy, escTagLen]
    have h1 : (t.key.filter isTagSpecial).length = (t.key.filter Spec.C11.isTagSpecial).length := rfl
    have h2 : (t.value.filter isTagSpecial).length = (t.value.filter Spec.C11.isTagSpecial).length := rfl
    omega

theorem length_key (p : PointIn) : (escBy isMeasSpecial p.name ++ tagsText p.tags).length = keyLen p := by
  rw [List.length_append, length_escBy, length_tagsText]
  rfl

theorem length_escapeString (k : Bytes) : (escapeString k).length = escFieldKeyLen k := by
  rw [escapeString_eq, length_escBy]; rfl

/-! ### the theorem -/

theorem precMult_eq (prec : String) : precMult prec = precisionMultiplier prec := rfl

theorem precMult_cases (prec : String) :
    precMult prec = 1 ∨ precMult prec = 1000 ∨ precMult prec = 1000000 ∨ precMult prec = 1000000000 := by
  unfold precMult
  split
  · right; left; rfl
  · split
    · right; right; left; rfl
    · split
      · right; right; right; rfl
      · left; rfl

theorem truncDuration_eq (prec : String) (h : precOK prec = true) : truncDuration prec = precMult prec := by
  simp only [precOK, Bool.or_eq_true, beq_iff_eq] at h
  rcases h with ((h | h) | h) | h <;> subst h <;> decide

/-- **The line round trip** on the model: for every valid point, supported precision and
    default time, the statement checker accepts what `NewPoint → String/PrecisionString →
    ParsePointsWithPrecision → Name/Tags/Fields/UnixNano` gives back. -/
theorem holdsOnPt_valid (p : PointIn) (prec : String) (dt : Int)
    (hv : Valid p prec = true) (hprec : precOK prec = true)
    (hdt : p.time.isSome = true ∨ dtSane dt = true) :
    holdsOnPt (modelPtObs prec dt p) = true := by
  -- unpack `Valid`
  simp only [Valid, Bool.and_eq_true, List.all_eq_true, Bool.not_eq_true', List.isEmpty_eq_false_iff,
    decide_eq_true_eq] at hv
  obtain ⟨⟨⟨⟨⟨⟨⟨⟨⟨hname, htags⟩, hsorted⟩, hescsorted⟩, hfne⟩, hfields⟩, hdistinct⟩, hconsistent⟩, htime⟩, hkeylen⟩ := hv
  simp only [nameOK, Bool.and_eq_true, Bool.not_eq_true', List.isEmpty_eq_false_iff, noTrailingBS,
    decide_eq_true_eq, List.contains_eq_mem, decide_eq_false_iff_not, bne_iff_ne, ne_eq] at hname
  obtain ⟨⟨⟨⟨⟨⟨hnne, hntb⟩, hnbs⟩, hnnl⟩, hn35⟩, hn9⟩, hn0⟩ := hname
  have hNameOK : NameOK p.name := ⟨hnne, hntb, ⟨hn9, hn0⟩, hn35⟩
  have htag : ∀ t ∈ p.tags, t.key ≠ [] ∧ t.value ≠ [] ∧ noTB t.key ∧ noTB t.value ∧ cNL ∉ t.key ∧
      cNL ∉ t.value ∧ reservedTagKeys.contains t.key = false := by
    intro t ht
    have := htags t ht
    simp only [tagOK, Bool.and_eq_true, Bool.not_eq_true', List.isEmpty_eq_false_iff, noTrailingBS,
      decide_eq_true_eq, List.contains_eq_mem, decide_eq_false_iff_not] at this
    obtain ⟨⟨⟨⟨⟨⟨h1, h2⟩, h3⟩, h4⟩, h5⟩, h6⟩, h7⟩ := this
    exact ⟨h1, h2, h3, h4, h5, h6, by simpa [reservedTagKeys, reservedKeys] using h7⟩
  have hTagsOK : TagsOK p.tags :=
    ⟨fun t ht => ⟨(htag t ht).1, (htag t ht).2.1, (htag t ht).2.2.1, (htag t ht).2.2.2.1, (htag t ht).2.2.2.2.2.2⟩,
     hescsorted⟩
  -- the sorted fields
  have hsf : ∀ f ∈ sortFields p.fields, fieldKeyOK f.1 = true ∧ fieldValOK f.2 = true := by
    intro f hf
    have := hfields f ((mem_sortFields f p.fields).mp hf)
    simpa [Bool.and_eq_true] using this
  have hsfne : sortFields p.fields ≠ [] := by
    intro e
    have := length_sortFields p.fields
    rw [e] at this
    exact hfne (List.length_eq_zero_iff.mp this.symm)
  -- the key
  have hun : unescapeMeasurement p.name = p.name :=
    unescapeMeasurement_id p.name (bsBefore_mono _ _ (by
      intro c hc; simp [Spec.C11.isMeasSpecial] at hc; rcases hc with h | h <;> subst h <;> decide) _ hnbs)
  have hfilter : p.tags.filter (fun t => !t.value.isEmpty) = p.tags := by
    apply List.filter_eq_self.mpr
    intro t ht
    have := (htag t ht).2.1
    cases h : t.value with
    | nil => exact absurd h this
    | cons _ _ => rfl
  have hkey : makeKey p.name p.tags = escBy isMeasSpecial p.name ++ tagsText p.tags := by
    unfold makeKey
    rw [hun, escapeMeasurement_eq, appendHashKey_eq, hfilter]
  have hF : marshalFields p.fields = fieldsText (sortFields p.fields) := rfl
  have hklen := length_key p
  -- NewPoint accepts
  have hnp : newPoint p = .ok (escBy isMeasSpecial p.name ++ tagsText p.tags, fieldsText (sortFields p.fields)) := by
    unfold newPoint
    have h1 : p.fields.isEmpty = false := by
      cases h : p.fields with
      | nil => exact absurd h hfne
      | cons _ _ => rfl
    have h2 : timeRejected p.time = false := by
      cases ht : p.time with
      | none => rfl
      | some t =>
        rw [ht] at htime
        simp only [timeValid, Bool.and_eq_true] at htime
        have hlo := of_decide_eq_true htime.1.1
        have hhi := of_decide_eq_true htime.1.2
        simp only [timeRejected, decide_eq_false_iff_not, not_or, Int.not_lt]
        omega
    have h3 : p.fields.any fieldRejected = false := by
      apply List.any_eq_false.mpr
      intro f hf
      unfold fieldRejected
      have := hfields f hf
      simp only [Bool.and_eq_true, fieldKeyOK, Bool.not_eq_true'] at this
      obtain ⟨hk, hval⟩ := this
      have hk1 : f.1.isEmpty = false := hk.1.1.1.1.1
      cases hfv : f.2 with
      | float b t =>
        rw [hfv] at hval
        simp only [fieldValOK, Bool.and_eq_true, Bool.not_eq_true'] at hval
        simp [hk1, hval.1]
      | int _ => simp [hk1]
      | uint _ => simp [hk1]
      | bool _ => simp [hk1]
      | str _ => simp [hk1]
    have h4 : p.fields.any (fun f => decide ((escBy isMeasSpecial p.name ++ tagsText p.tags).length + 4 + f.1.length > MaxKeyLength)) = false := by
      apply List.any_eq_false.mpr
      intro f hf
      have := hkeylen f hf
      rw [hklen]
      simp only [decide_eq_true_eq, Nat.not_lt, gt_iff_lt]
      unfold escFieldKeyLen at this
      omega
    rw [h1]
    simp only [Bool.false_eq_true, if_false]
    rw [h2]
    simp only [Bool.false_eq_true, if_false]
    rw [h3]
    simp only [Bool.false_eq_true, if_false, hkey]
    rw [h4]
    simp only [Bool.false_eq_true, if_false, hF]
  -- the rendered line
  let q : Option Int := p.time.map fun t => Int.tdiv t (precisionMultiplier prec)
  have hline : renderLine (escBy isMeasSpecial p.name ++ tagsText p.tags) (fieldsText (sortFields p.fields)) p.time prec =
      escBy isMeasSpecial p.name ++ tagsText p.tags ++ cSpace :: (fieldsText (sortFields p.fields) ++ timeText q) := by
    unfold renderLine
    cases ht : p.time with
    | none => simp [q, ht, timeText]
    | some t => simp [q, ht, timeText]
  -- the time that comes back
  obtain ⟨tq, htq1, htq2, htq3⟩ : ∃ tq : Int,
      (∀ v, q = some v → -(2 ^ 63 : Int) ≤ v ∧ v < 2 ^ 63 ∧ safeCalcTime v prec = .ok tq) ∧
      (q = none → tq = truncTime dt prec) ∧ timeOK prec dt p.time tq = true := by
    cases ht : p.time with
    | none =>
      refine ⟨truncTime dt prec, by simp [q, ht], fun _ => rfl, ?_⟩
      have hds : dtSane dt = true := by
        rcases hdt with h | h
        · rw [ht] at h; cases h
        · exact h
      simp only [dtSane, Bool.and_eq_true] at hds
      have hds1 := of_decide_eq_true hds.1
      have hds2 := of_decide_eq_true hds.2
      simp only [timeOK, Bool.and_eq_true, decide_eq_true_eq]
      unfold truncTime
      rw [truncDuration_eq prec hprec]
      have hm := precMult_cases prec
      have hw : wrap64 (dt - dt % precMult prec) = dt - dt % precMult prec := by
        unfold wrap64
        rcases hm with h | h | h | h <;> rw [h] <;> omega
      rw [hw]
      rcases hm with h | h | h | h <;> rw [h] <;> omega
    | some t =>
      rw [ht] at htime
      simp only [timeValid, Bool.and_eq_true, beq_iff_eq] at htime
      obtain ⟨⟨hlo, hhi⟩, hmod⟩ := htime
      have hlo := of_decide_eq_true hlo
      have hhi := of_decide_eq_true hhi
      simp only [MinNanoTime, MaxNanoTime] at hlo hhi
      have hm := precMult_cases prec
      have hdvd : precMult prec ∣ t := Int.dvd_of_emod_eq_zero hmod
      have hmul : Int.tdiv t (precMult prec) * precMult prec = t := Int.tdiv_mul_cancel hdvd
      refine ⟨t, ?_, by simp [q, ht], by simp [timeOK, hmod]⟩
      intro v hvq
      simp only [q, ht, Option.map_some, Option.some.injEq] at hvq
      subst hvq
      rw [← precMult_eq]
      have hsc := safeCalcTime_mul (Int.tdiv t (precMult prec)) (precMult prec) prec (precMult_eq prec).symm hm
        (by rw [hmul]; simp only [MinNanoTime]; omega) (by rw [hmul]; simp only [MaxNanoTime]; omega)
      rw [hmul] at hsc
      refine ⟨?_, ?_, hsc⟩
      · rcases hm with h | h | h | h <;> rw [h] at hmul ⊢ <;> omega
      · rcases hm with h | h | h | h <;> rw [h] at hmul ⊢ <;> omega
  -- parsePoint
  have hpp := parsePoint_rendered p.name p.tags (sortFields p.fields) q dt prec tq hNameOK hTagsOK hsfne hsf
    (fun f hf => by
      have := hkeylen f ((mem_sortFields f p.fields).mp hf)
      rw [hklen, length_escapeString]; simpa using this)
    htq1 htq2
  -- one line
  have hnl : cNL ∉ escBy isMeasSpecial p.name ++ tagsText p.tags ++ cSpace ::
      (fieldsText (sortFields p.fields) ++ timeText q) := by
    simp only [List.mem_append, List.mem_cons, not_or]
    refine ⟨⟨nl_escBy _ _ hnnl, nl_tagsText _ (fun t ht => ⟨(htag t ht).2.2.2.2.1, (htag t ht).2.2.2.2.2.1⟩)⟩,
      by decide, ?_, nl_timeText q⟩
    apply nl_fieldsText
    intro f hf
    have := hsf f hf
    refine ⟨?_, this.2⟩
    have hk := this.1
    simp only [fieldKeyOK, Bool.and_eq_true, Bool.not_eq_true', List.contains_eq_mem, decide_eq_false_iff_not] at hk
    exact hk.1.1.2
  obtain ⟨c, t, hE, hws⟩ := escBy_head_ws isMeasSpecial p.name (by decide) ⟨hn9, hn0⟩ hnne
  have hc35 : c ≠ 35 := by
    cases hnm : p.name with
    | nil => exact absurd hnm hnne
    | cons b r =>
      rw [hnm] at hE hn35
      simp only [escBy_cons] at hE
      split at hE
      · simp at hE; rw [← hE.1]; decide
      · simp at hE; rw [← hE.1]; intro e; exact hn35 (by simp [e])
  have hparse : parseLines (escBy isMeasSpecial p.name ++ tagsText p.tags ++ cSpace ::
      (fieldsText (sortFields p.fields) ++ timeText q)) dt prec =
      [(escBy isMeasSpecial p.name ++ tagsText p.tags ++ cSpace :: (fieldsText (sortFields p.fields) ++ timeText q),
        .ok ⟨escBy isMeasSpecial p.name ++ tagsText p.tags, fieldsText (sortFields p.fields), tq⟩)] := by
    unfold parseLines
    rw [splitLines_no_nl _ hnl]
    have hlob : lineOfBlock (escBy isMeasSpecial p.name ++ tagsText p.tags ++ cSpace ::
        (fieldsText (sortFields p.fields) ++ timeText q)) = some (escBy isMeasSpecial p.name ++ tagsText p.tags ++ cSpace ::
        (fieldsText (sortFields p.fields) ++ timeText q)) := by
      have hform : escBy isMeasSpecial p.name ++ tagsText p.tags ++ cSpace ::
          (fieldsText (sortFields p.fields) ++ timeText q) =
          c :: (t ++ tagsText p.tags ++ cSpace :: (fieldsText (sortFields p.fields) ++ timeText q)) := by
        rw [hE]; simp
      rw [hform] at hnl ⊢
      exact lineOfBlock_id c _ hws hc35 hnl
    simp only [List.filterMap_cons, List.filterMap_nil, hlob, Option.map_some, hpp]
  -- the accessors
  have htagsP := parseTags_rendered p.name p.tags hnne hntb
    (fun t ht => ⟨(htag t ht).2.1, (htag t ht).2.2.1, (htag t ht).2.2.2.1⟩)
  have hnameP := pointName_rendered p.name p.tags hntb hnbs
  have hfieldsP : pointFields (fieldsText (sortFields p.fields)) =
      .ok ((sortFields p.fields).map fun f => (f.1, pvalOf f.2)) := by
    unfold pointFields
    rw [iterFields_fields (sortFields p.fields) (fun f hf => by
      have hk := (hsf f hf).1
      simp only [fieldKeyOK, Bool.and_eq_true, noTrailingBS, decide_eq_true_eq] at hk
      exact ⟨hk.1.1.1.1.2, (hsf f hf).2⟩) _ (by have := length_le_fieldsText (sortFields p.fields); omega)]
    have := pointFieldsAux_sorted (sortFields p.fields) [] (fun f hf => by
      have hk := (hsf f hf).1
      simp only [fieldKeyOK, Bool.and_eq_true, Bool.not_eq_true', List.isEmpty_eq_false_iff] at hk
      exact ⟨hk.1.1.1.1.1, (hsf f hf).2⟩) (sortedKeys_sortFields p.fields hdistinct) (by simp)
    simpa using this
  have hmapM := mapM_toOVal p.fields (sortFields p.fields) hconsistent
    (fun f hf => (mem_sortFields f p.fields).mp hf)
  -- put together
  unfold holdsOnPt modelPtObs modelPt
  simp only [hnp, hline, hparse, okPoints, failedLines, List.filterMap_cons, List.filterMap_nil, errorText,
    List.isEmpty_nil, if_true, pointTags, htagsP, hfieldsP, hmapM, hnameP]
  unfold sameBack
  simp only [Bool.and_eq_true, decide_eq_true_eq]
  refine ⟨trivial, ?_, ?_, htq3⟩
  · exact (sortByKey_sorted (·.key) p.tags hsorted).symm
  · exact (sortByKey_map ovalOf p.fields).symm

end Influx.LP
