/-
  Lemmas.C36RHHMap — `insert`, `Grow`, `put`, `Get`, `Reset`, `Keys` of the robin-hood map as
  operations of a finite map, for an arbitrary hash function.
-/
import Influx.Lemmas.C36RHHInsert

namespace Influx.RHH

/-- `insert` of a well-hashed entry: overwrites the stored entry of the key, or (given a free
    slot) adds the entry; the invariant is kept. -/
theorem insert_spec {hf : Key → Nat} {s : Slots} (hw : WF hf s) (x : Entry) (hx : x.hash = hf x.key)
    (hroom : (∀ e, Mem s e → e.key ≠ x.key) → count s < s.length) :
    ∃ s' ow, insert s x = some (s', ow) ∧ WF hf s' ∧ s'.length = s.length ∧
      (∀ e, Mem s' e ↔ (Mem s e ∧ e.key ≠ x.key) ∨ e = x) ∧
      (ow = true ↔ ∃ e, Mem s e ∧ e.key = x.key) ∧
      count s' = count s + (if ow then 0 else 1) := by
  have hc := hw.pos
  have hhome : x.hash % s.length < s.length := Nat.mod_lt _ hc
  by_cases hex : ∃ e, Mem s e ∧ e.key = x.key
  · obtain ⟨e0, ⟨p, hp⟩, hk⟩ := hex
    have hrun := insertLoop_existing hw x hp hk hx (fuelFor s.length) (x.hash % s.length) 0 hhome
      (by rw [dist_home _ _ hc]) (by omega)
      (by have := dist_lt x.hash p s.length hc; unfold fuelFor; omega)
    refine ⟨s.set p (some x), true, hrun, ?_, by simp, ?_, ?_, ?_⟩
    · -- overwriting keeps every distance
      have hh : e0.hash = x.hash := by rw [hw.hash p e0 hp, hk, hx]
      refine ⟨by simpa using hc, ?_, ?_, ?_⟩
      · intro i e hi hat hd0
        simp only [List.length_set] at hi hat hd0 ⊢
        have key : ∀ j e1, At (s.set p (some x)) j e1 → ∃ e2, At s j e2 ∧ e2.hash = e1.hash := by
          intro j e1 h1
          rcases (at_set s p j x e1).mp h1 with ⟨rfl, _, rfl⟩ | ⟨_, h⟩
          · exact ⟨e0, hp, hh⟩
          · exact ⟨e1, h, rfl⟩
        obtain ⟨e2, h2, hh2⟩ := key _ e hat
        rw [← hh2] at hd0
        obtain ⟨e', he', hle⟩ := hw.rh i e2 hi h2 hd0
        by_cases hip : i = p
        · subst hip
          have := At.inj he' hp; subst this
          exact ⟨x, (at_set s i i x x).mpr (Or.inl ⟨rfl, hi, rfl⟩), by rw [← hh2, ← hh]; exact hle⟩
        · exact ⟨e', (at_set s p i x e').mpr (Or.inr ⟨hip, he'⟩), by rw [← hh2]; exact hle⟩
      · intro i j e e' hi hj hke
        have key : ∀ j e1, At (s.set p (some x)) j e1 → ∃ e2, At s j e2 ∧ e2.key = e1.key := by
          intro j e1 h1
          rcases (at_set s p j x e1).mp h1 with ⟨rfl, _, rfl⟩ | ⟨_, h⟩
          · exact ⟨e0, hp, hk⟩
          · exact ⟨e1, h, rfl⟩
        obtain ⟨a, ha, hka⟩ := key i e hi
        obtain ⟨b, hb, hkb⟩ := key j e' hj
        exact hw.uniq i j a b ha hb (by rw [hka, hkb, hke])
      · intro i e hi
        rcases (at_set s p i x e).mp hi with ⟨_, _, rfl⟩ | ⟨_, h⟩
        · exact hx
        · exact hw.hash i e h
    · intro e
      constructor
      · rintro ⟨i, hi⟩
        rcases (at_set s p i x e).mp hi with ⟨_, _, rfl⟩ | ⟨hip, h⟩
        · exact Or.inr rfl
        · refine Or.inl ⟨⟨i, h⟩, ?_⟩
          intro hke
          exact hip (hw.uniq i p e e0 h hp (by rw [hke, hk]))
      · rintro (⟨⟨i, hi⟩, hne⟩ | rfl)
        · have hip : i ≠ p := by
            intro h; subst h
            have := At.inj hi hp; subst this
            exact hne hk
          exact ⟨i, (at_set s p i x e).mpr (Or.inr ⟨hip, hi⟩)⟩
        · exact ⟨p, (at_set s p p e e).mpr (Or.inl ⟨rfl, hp.lt, rfl⟩)⟩
    · simp only [true_iff]; exact ⟨e0, ⟨p, hp⟩, hk⟩
    · simp [count_set_at s p x e0 hp]
  · have hfresh : ∀ e, Mem s e → e.key ≠ x.key := fun e hm hk => hex ⟨e, hm, hk⟩
    obtain ⟨q, hq, hfq⟩ := exists_free s (hroom hfresh)
    have hI : LoopInv hf s (x.hash % s.length) 0 x :=
      ⟨hw, hx, hfresh, hhome, by rw [dist_home _ _ hc], fun _ _ _ h => absurd rfl h,
        ⟨q, hq, hfq, by have := dist_lt (x.hash % s.length) q s.length hc; omega⟩⟩
    obtain ⟨s', hrun, hwf', hlen', hmem, hcnt⟩ := insertLoop_new (fuelFor s.length) s _ 0 x hI
      (fun q' _ _ => by have := dist_lt (x.hash % s.length) q' s.length hc; unfold fuelFor; omega)
    refine ⟨s', false, hrun, hwf', hlen', ?_, ?_, by simpa using hcnt⟩
    · intro e
      rw [hmem e]
      constructor
      · rintro (h | rfl)
        · exact Or.inl ⟨h, hfresh e h⟩
        · exact Or.inr rfl
      · rintro (⟨h, _⟩ | rfl)
        · exact Or.inl h
        · exact Or.inr rfl
    · constructor
      · intro h; cases h
      · intro h; exact absurd h hex

/-! ### empty tables -/

theorem at_replicate_none (c i : Nat) (e : Entry) : ¬ At (List.replicate c none) i e := by
  unfold At
  intro h
  have := List.getElem?_eq_some_iff.mp h
  obtain ⟨hl, he⟩ := this
  simp at he

theorem wf_empty (hf : Key → Nat) (c : Nat) (hc : 0 < c) : WF hf (List.replicate c none) :=
  ⟨by simpa using hc, fun i e _ h _ => absurd h (at_replicate_none _ _ _),
    fun i j e e' h _ _ => absurd h (at_replicate_none _ _ _),
    fun i e h => absurd h (at_replicate_none _ _ _)⟩

theorem count_empty (c : Nat) : count (List.replicate c (none : Option Entry)) = 0 := by
  simp [count]

theorem mem_empty (c : Nat) (e : Entry) : ¬ Mem (List.replicate c none) e :=
  fun ⟨i, h⟩ => at_replicate_none c i e h

/-! ### `Grow` -/

/-- the entries of a slot list, in slot order -/
def occupied (s : Slots) : List Entry := s.filterMap id

theorem mem_occupied (s : Slots) (e : Entry) : e ∈ occupied s ↔ Mem s e := by
  simp only [occupied, List.mem_filterMap, id]
  constructor
  · rintro ⟨o, ho, rfl⟩
    obtain ⟨i, hi, heq⟩ := List.getElem_of_mem ho
    exact ⟨i, by simp [At, List.getElem?_eq_getElem hi, heq]⟩
  · rintro ⟨i, hi⟩
    exact ⟨some e, List.mem_of_getElem? hi, rfl⟩

theorem count_eq_occupied (s : Slots) : count s = (occupied s).length := by
  induction s with
  | nil => rfl
  | cons a s ih =>
    cases a <;> simp_all [count, occupied]

/-- re-inserting a list of entries with pairwise different keys (none of them stored yet) into
    a table with enough room -/
theorem reinsert_spec {hf : Key → Nat} :
    ∀ (old : List (Option Entry)) (acc : Slots), WF hf acc →
      (∀ e ∈ occupied old, e.hash = hf e.key) →
      (occupied old).Pairwise (fun a b => a.key ≠ b.key) →
      (∀ e ∈ occupied old, ∀ e', Mem acc e' → e'.key ≠ e.key) →
      count acc + (occupied old).length < acc.length →
      ∃ s', Map.reinsert old acc = some s' ∧ WF hf s' ∧ s'.length = acc.length ∧
        (∀ e, Mem s' e ↔ Mem acc e ∨ e ∈ occupied old) ∧
        count s' = count acc + (occupied old).length
  | [], acc, hw, _, _, _, _ => ⟨acc, rfl, hw, rfl, by simp [occupied], by simp [occupied]⟩
  | none :: r, acc, hw, hh, hp, hfr, hroom => by
    have hocc : occupied (none :: r) = occupied r := by simp [occupied]
    rw [hocc] at hh hp hfr hroom ⊢
    have h := reinsert_spec r acc hw hh hp hfr hroom
    unfold Map.reinsert
    exact h
  | some x :: r, acc, hw, hh, hp, hfr, hroom => by
    have hocc : occupied (some x :: r) = x :: occupied r := by simp [occupied]
    rw [hocc] at hh hp hfr hroom
    have hxfresh : ∀ e', Mem acc e' → e'.key ≠ x.key := hfr x (by simp)
    obtain ⟨s1, ow, hins, hw1, hlen1, hmem1, how, hcnt1⟩ :=
      insert_spec hw x (hh x (by simp)) (fun _ => by simp at hroom; omega)
    have hownot : ow = false := by
      cases ow with
      | false => rfl
      | true => obtain ⟨e, hm, hk⟩ := how.mp rfl; exact absurd hk (hxfresh e hm)
    subst hownot
    have hcnt1 : count s1 = count acc + 1 := by simpa using hcnt1
    have hpair := List.pairwise_cons.mp hp
    obtain ⟨s', hre, hw', hlen', hmem', hcnt'⟩ := reinsert_spec r s1 hw1
      (fun e he => hh e (by simp [he])) hpair.2
      (by
        intro e he e' hm'
        rcases (hmem1 e').mp hm' with ⟨hm, _⟩ | rfl
        · exact hfr e (by simp [he]) e' hm
        · exact hpair.1 e he)
      (by simp at hroom; rw [hlen1, hcnt1]; omega)
    refine ⟨s', ?_, hw', by rw [hlen', hlen1], ?_, ?_⟩
    · simp [Map.reinsert, hins, hre]
    · intro e
      rw [hmem' e, hmem1 e, hocc]
      constructor
      · rintro ((⟨h, _⟩ | rfl) | h)
        · exact Or.inl h
        · exact Or.inr (by simp)
        · exact Or.inr (by simp [h])
      · rintro (h | h)
        · exact Or.inl (Or.inl ⟨h, hxfresh e h⟩)
        · rcases List.mem_cons.mp h with rfl | h
          · exact Or.inl (Or.inr rfl)
          · exact Or.inr h
    · rw [hcnt', hcnt1, hocc]; simp; omega

theorem pow2_spec {v c : Nat} (h : pow2 v = some c) : v ≤ c ∧ 2 ≤ c := by
  unfold pow2 at h
  have hm := List.mem_of_find?_eq_some h
  have hp := List.find?_some h
  obtain ⟨i, _, rfl⟩ := List.mem_map.mp hm
  refine ⟨by simpa using hp, ?_⟩
  have : 2 ^ (i + 1) = 2 * 2 ^ i := by rw [Nat.pow_succ]; omega
  have := Nat.one_le_two_pow (n := i)
  omega

theorem pow2_some {v : Nat} (h : v ≤ 2 ^ 61) : ∃ c, pow2 v = some c := by
  unfold pow2
  cases hf : List.find? (fun p => decide (v ≤ p)) ((List.range 61).map fun i => 2 ^ (i + 1)) with
  | some c => exact ⟨c, rfl⟩
  | none =>
    rw [List.find?_eq_none] at hf
    have := hf (2 ^ 61) (List.mem_map.mpr ⟨60, by simp, rfl⟩)
    simp at this; omega

/-- the stored keys of a well-formed table are pairwise different, in slot order -/
theorem occupied_pairwise {hf : Key → Nat} {s : Slots} (hw : WF hf s) :
    (occupied s).Pairwise (fun a b => a.key ≠ b.key) := by
  have huniq := hw.uniq
  clear hw
  induction s with
  | nil => simp [occupied]
  | cons a s ih =>
    have ih' := ih (by
      intro i j e e' hi hj hk
      have := huniq (i + 1) (j + 1) e e' (by simpa [At] using hi) (by simpa [At] using hj) hk
      omega)
    cases a with
    | none => simpa [occupied] using ih'
    | some x =>
      have : occupied (some x :: s) = x :: occupied s := by simp [occupied]
      rw [this]
      refine List.pairwise_cons.mpr ⟨?_, ih'⟩
      intro b hb hk
      obtain ⟨j, hj⟩ := (mem_occupied s b).mp hb
      have := huniq 0 (j + 1) x b (by simp [At]) (by simpa [At] using hj) hk
      omega

end Influx.RHH
