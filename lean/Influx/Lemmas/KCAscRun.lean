/-
  Lemmas.KCAscRun — the ascending cursor from seek to exhaustion: Read…Block (with the
  `goto LOOP` drops), Next, and the drain loop.
-/
import Influx.Lemmas.KCAsc

namespace Influx.KC
open Influx.Generated.KeyCursor

variable {V : Type} {n : Nat}

/-- what one Read…Block does to an ascending cursor -/
theorem readLoop_asc {B : Vector (Block V) n} (hwf : ∀ i : Fin n, BlockWF B[i]) (hord : OrderOKv B) :
    ∀ (cur : List (Fin n)) (rd : Marks n) (W : Int), InvA B rd W cur →
      ((readLoop true B cur rd).2.2 = [] ∧ ∀ i : Fin n, curVals B rd i = []) ∨
      (∃ W', W < W' ∧ InvA B (readLoop true B cur rd).1 W' (readLoop true B cur rd).2.1 ∧
        (∃ pre, cur = pre ++ (readLoop true B cur rd).2.1) ∧
        SortedV (readLoop true B cur rd).2.2 ∧ (readLoop true B cur rd).2.2 ≠ [] ∧
        ∀ p, p ∈ (readLoop true B cur rd).2.2 ↔ IsWinner B p ∧ W < p.1 ∧ p.1 ≤ W') := by
  intro cur
  induction cur with
  | nil =>
    intro rd W inv
    left
    refine ⟨rfl, ?_⟩
    intro i
    apply Classical.byContradiction
    intro h
    exact absurd (inv.cover i h) (by simp)
  | cons f rest ih =>
    intro rd W inv
    unfold readLoop
    simp only [firstVals_eq_curVals hwf]
    by_cases he : (curVals B rd f).isEmpty = true
    · simp only [he, if_true]
      have he' : curVals B rd f = [] := List.isEmpty_iff.1 he
      rcases ih rd W (inv.drop he') with h | ⟨W', h1, h2, ⟨pre, h3⟩, h4⟩
      · exact Or.inl h
      · exact Or.inr ⟨W', h1, h2, ⟨f :: pre, by rw [List.cons_append, ← h3]⟩, h4⟩
    · simp only [he]
      have hne : curVals B rd f ≠ [] := fun e => he (List.isEmpty_iff.2 e)
      right
      cases rest with
      | nil =>
        obtain ⟨lo, hlo⟩ := minTime?_isSome hne
        obtain ⟨hi, hhi⟩ := maxTime?_isSome hne
        have hm : readMulti true B rd f [] (curVals B rd f) = (markAt rd f lo hi, curVals B rd f) := by
          unfold readMulti windowInit
          simp [hlo, hhi, growMin, firstOverlap, mergeLoop]
        obtain ⟨W', h1, h2, h3, h4, h5⟩ := readMulti_asc hwf hord inv hne
        rw [hm] at h2 h3 h4 h5
        simp only [hlo, hhi]
        exact ⟨W', h1, h2, ⟨[], rfl⟩, h3, h4, h5⟩
      | cons r rs =>
        obtain ⟨W', h1, h2, h3, h4, h5⟩ := readMulti_asc hwf hord inv hne
        exact ⟨W', h1, h2, ⟨[], rfl⟩, h3, h4, h5⟩

theorem fin?_eq_some {p : Int} (h0 : 0 ≤ p) (h1 : p < n) : ∃ i : Fin n, fin? n p = some i ∧ (i.val : Int) = p := by
  unfold fin?
  rw [dif_pos ⟨h0, h1⟩]
  exact ⟨_, rfl, by simp; omega⟩

/-- the `c.pos++` loop of nextAscending finds the first unread location after `pos` -/
theorem scanAsc_spec (B : Vector (Block V) n) (rd : Marks n) :
    ∀ (k : Nat) (p : Int), -1 ≤ p → 1 ≤ k → (n : Int) - p ≤ k →
      ∃ p' r, scanAsc B rd k p = some (p', r) ∧ 0 ≤ p' ∧
        match r with
        | none => ∀ j : Fin n, p < j.val → isRead B rd j = true
        | some i => p' = i.val ∧ p < i.val ∧ isRead B rd i = false ∧
            ∀ j : Fin n, p < j.val → j.val < i.val → isRead B rd j = true := by
  intro k
  induction k with
  | zero => intro p _ h; omega
  | succ k ih =>
    intro p hp _ hk
    unfold scanAsc
    simp only
    by_cases hge : p + 1 ≥ (n : Int)
    · simp only [hge, if_true]
      refine ⟨p + 1, none, rfl, by omega, ?_⟩
      intro j hj
      have := j.isLt
      omega
    · simp only [hge, if_false]
      obtain ⟨i, hi, hiv⟩ := fin?_eq_some (n := n) (p := p + 1) (by omega) (by omega)
      simp only [hi]
      cases hr : isRead B rd i with
      | false =>
        simp only [Bool.not_false, if_true]
        refine ⟨p + 1, some i, rfl, by omega, hiv.symm, by omega, hr, ?_⟩
        intro j h1 h2; omega
      | true =>
        simp only [Bool.not_true, Bool.false_eq_true, if_false]
        obtain ⟨p', r, h1, h0, h2⟩ := ih (p + 1) (by omega) (by omega) (by omega)
        refine ⟨p', r, h1, h0, ?_⟩
        cases r with
        | none =>
          intro j hj
          by_cases e : (j.val : Int) = p + 1
          · have : j = i := Fin.ext (by omega)
            rw [this]; exact hr
          · exact h2 j (by omega)
        | some i' =>
          obtain ⟨a, b, c, d⟩ := h2
          refine ⟨a, by omega, c, ?_⟩
          intro j hj hj'
          by_cases e : (j.val : Int) = p + 1
          · have : j = i := Fin.ext (by omega)
            rw [this]; exact hr
          · exact d j (by omega) hj'

/-- KeyCursor.Next keeps the ascending invariant (it only rebuilds `current`) -/
theorem next_asc {c : Cursor V n} (hwf : ∀ i : Fin n, BlockWF c.blocks[i]) {W : Int} (hasc : c.ascending = true)
    (inv : InvA c.blocks c.rd W c.current) (hpos : 0 ≤ c.pos)
    (hp2 : ∀ i ∈ c.current, c.pos ≤ (i.val : Int)) :
    ∃ c', c.next = some c' ∧ c'.blocks = c.blocks ∧ c'.rd = c.rd ∧ c'.ascending = true ∧
      InvA c.blocks c.rd W c'.current ∧ 0 ≤ c'.pos ∧ ∀ i ∈ c'.current, c'.pos ≤ (i.val : Int) := by
  unfold Cursor.next
  cases hcur : c.current with
  | nil =>
    simp only
    exact ⟨c, rfl, rfl, rfl, hasc, hcur ▸ inv, hpos, by rw [hcur]; simp⟩
  | cons f rest =>
    simp only
    cases hr : isRead c.blocks c.rd f with
    | false =>
      simp only [Bool.not_false, if_true]
      exact ⟨c, rfl, rfl, rfl, hasc, hcur ▸ inv, hpos, hcur ▸ hp2⟩
    | true =>
      simp only [Bool.not_true, Bool.false_eq_true, if_false, hasc, if_true]
      have hincr := List.pairwise_cons.1 (hcur ▸ inv.incr)
      have hfpos : c.pos ≤ (f.val : Int) := hp2 f (by rw [hcur]; exact List.mem_cons_self ..)
      -- every location with unread values lies after pos
      have hafter : ∀ j : Fin n, curVals c.blocks c.rd j ≠ [] → c.pos < (j.val : Int) ∧ isRead c.blocks c.rd j = false := by
        intro j hj
        have hjc : j ∈ f :: rest := hcur ▸ inv.cover j hj
        have hjr : isRead c.blocks c.rd j = false := by
          cases h : isRead c.blocks c.rd j with
          | false => rfl
          | true => exact absurd (curVals_nil_of_isRead hwf h) hj
        refine ⟨?_, hjr⟩
        rcases List.mem_cons.1 hjc with rfl | hjr'
        · rw [hr] at hjr; cases hjr
        · have := hincr.1 j hjr'
          have : f.val < j.val := this
          omega
      obtain ⟨p', r, hs, hp0, hspec⟩ := scanAsc_spec c.blocks c.rd (n + 1) c.pos (by omega) (by omega) (by omega)
      rw [hs]
      cases r with
      | none =>
        simp only
        refine ⟨_, rfl, rfl, rfl, rfl, ?_, hp0, by simp⟩
        refine { rmin := inv.rmin, rmax := inv.rmax, done := inv.done, cover := ?_, incr := List.Pairwise.nil }
        intro j hj
        obtain ⟨h1, h2⟩ := hafter j hj
        rw [hspec j h1] at h2; cases h2
      | some i =>
        simp only
        obtain ⟨hp', hpi, hir, hbetween⟩ := hspec
        refine ⟨_, rfl, rfl, rfl, rfl, ?_, hp0, ?_⟩
        · refine { rmin := inv.rmin, rmax := inv.rmax, done := inv.done, cover := ?_, incr := ?_ }
          · intro j hj
            obtain ⟨h1, h2⟩ := hafter j hj
            by_cases hji : j.val < i.val
            · rw [hbetween j h1 hji] at h2; cases h2
            · by_cases e : j = i
              · subst e; exact List.mem_cons_self ..
              · apply List.mem_cons_of_mem
                apply List.mem_filter.2
                refine ⟨List.mem_finRange j, ?_⟩
                have : i.val < j.val := by
                  have : i.val ≠ j.val := fun e' => e (Fin.ext e'.symm)
                  omega
                simp [this, h2]
          · apply List.pairwise_cons.2
            constructor
            · intro j hj
              have := (List.mem_filter.1 hj).2
              simp at this
              exact this.1
            · exact (List.pairwise_lt_finRange n).filter _
        · intro j hj
          dsimp only at hj ⊢
          rcases List.mem_cons.1 hj with rfl | hj
          · omega
          · have := (List.mem_filter.1 hj).2
            simp at this
            omega

/-! ### the drain loop -/

/-- number of stored points above `W` (the variant of the drain loop) -/
def cntAbove (B : Vector (Block V) n) (W : Int) : Nat :=
  ((List.finRange n).flatMap fun i => B[i].vals).countP fun p => decide (W < p.1)

theorem countP_lt_of_witness {α : Type} {P Q : α → Bool} {l : List α} (himp : ∀ x, P x = true → Q x = true)
    {x : α} (hx : x ∈ l) (hq : Q x = true) (hp : P x = false) : l.countP P < l.countP Q := by
  induction l with
  | nil => cases hx
  | cons y l ih =>
    simp only [List.countP_cons]
    have hle : l.countP P ≤ l.countP Q := List.countP_mono_left fun z _ => himp z
    rcases List.mem_cons.1 hx with rfl | hx'
    · simp [hq, hp]; omega
    · have := ih hx'
      by_cases hy : P y = true
      · simp [hy, himp y hy]; omega
      · simp [hy]
        split <;> omega

theorem cntAbove_lt {B : Vector (Block V) n} {W W' : Int} (hW : W ≤ W') {i : Fin n} {p : Int × V}
    (hp : p ∈ B[i].vals) (h1 : W < p.1) (h2 : p.1 ≤ W') : cntAbove B W' < cntAbove B W := by
  unfold cntAbove
  apply countP_lt_of_witness (x := p)
  · intro x hx
    simp at hx ⊢; omega
  · exact List.mem_flatMap.2 ⟨i, List.mem_finRange i, hp⟩
  · simp [h1]
  · simp; omega

/-- An ascending cursor whose marks satisfy the invariant for watermark `W` delivers, block by
    block until the first empty block, exactly the newest-file-wins points above `W`, in
    ascending order, each once; it neither panics nor runs out of the fuel `#points + 1`. -/
theorem drain_asc {B : Vector (Block V) n} (hwf : ∀ i : Fin n, BlockWF B[i]) (hord : OrderOKv B) :
    ∀ (k : Nat) (c : Cursor V n) (W : Int), c.blocks = B → c.ascending = true →
      InvA B c.rd W c.current → 0 ≤ c.pos → (∀ i ∈ c.current, c.pos ≤ (i.val : Int)) →
      cntAbove B W < k →
      ∃ bs, c.drain k = some bs ∧ SortedV bs.flatten ∧ (∀ b ∈ bs, b ≠ []) ∧
        ∀ p, p ∈ bs.flatten ↔ IsWinner B p ∧ W < p.1 := by
  intro k
  induction k with
  | zero => intro c W _ _ _ _ _ h; omega
  | succ k ih =>
    intro c W hB hasc inv hpos hp2 hk
    unfold Cursor.drain Cursor.readBlock
    simp only [hB, hasc]
    rcases readLoop_asc hwf hord c.current c.rd W inv with ⟨hv, hnil⟩ | ⟨W', hW, inv', ⟨pre, hpre⟩, hsv, hne, hmem⟩
    · simp only [hv, List.isEmpty_nil, if_true]
      refine ⟨[], rfl, by simp [SortedV], by simp, ?_⟩
      intro p
      simp only [List.flatten_nil, List.not_mem_nil, false_iff]
      rintro ⟨⟨i, hl, _⟩, hw⟩
      have := (inv.mem_unread hwf).2 ⟨hl, hw⟩
      rw [hnil i] at this; cases this
    · have hne' : (readLoop true B c.current c.rd).2.2.isEmpty = false := by
        cases h : (readLoop true B c.current c.rd).2.2 with
        | nil => exact absurd h hne
        | cons _ _ => rfl
      simp only [hne']
      -- the cursor after the read
      let c1 : Cursor V n := { blocks := B, rd := (readLoop true B c.current c.rd).1, current := (readLoop true B c.current c.rd).2.1, pos := c.pos, ascending := true }
      have hp2' : ∀ i ∈ c1.current, c1.pos ≤ (i.val : Int) := by
        intro i hi
        apply hp2 i
        rw [hpre]
        exact List.mem_append_right _ hi
      obtain ⟨c2, hn, hb2, hrd2, hasc2, inv2, hpos2, hp22⟩ :=
        next_asc (c := c1) hwf (W := W') rfl inv' hpos hp2'
      have hn' : Cursor.next { blocks := B, rd := (readLoop true B c.current c.rd).1, current := (readLoop true B c.current c.rd).2.1, pos := c.pos, ascending := true } = some c2 := hn
      simp only [Bool.false_eq_true, if_false, hn']
      -- one point at least was delivered: the variant decreases
      have hdec : cntAbove B W' < cntAbove B W := by
        cases hvs : (readLoop true B c.current c.rd).2.2 with
        | nil => exact absurd hvs hne
        | cons p ps =>
          have hp : p ∈ (readLoop true B c.current c.rd).2.2 := by rw [hvs]; exact List.mem_cons_self ..
          obtain ⟨⟨i, hl, _⟩, h1, h2⟩ := (hmem p).1 hp
          exact cntAbove_lt (Int.le_of_lt hW) (mem_live.1 hl).1 h1 h2
      have hb2' : c2.blocks = B := hb2
      obtain ⟨bs, hd, hs, hnb, hm⟩ := ih c2 W' hb2' hasc2
        (by rw [hrd2]; exact inv2) hpos2 hp22 (by omega)
      refine ⟨(readLoop true B c.current c.rd).2.2 :: bs, by rw [hd]; rfl, ?_, ?_, ?_⟩
      · rw [List.flatten_cons]
        apply List.pairwise_append.2
        refine ⟨hsv, hs, ?_⟩
        intro a ha b hb
        have := ((hmem a).1 ha).2.2
        have := ((hm b).1 hb).2
        omega
      · intro b hb
        rcases List.mem_cons.1 hb with rfl | hb
        · exact hne
        · exact hnb b hb
      · intro p
        rw [List.flatten_cons, List.mem_append, hmem p, hm p]
        constructor
        · rintro (⟨h1, h2, _⟩ | ⟨h1, h2⟩)
          · exact ⟨h1, h2⟩
          · exact ⟨h1, by omega⟩
        · rintro ⟨h1, h2⟩
          by_cases h : p.1 ≤ W'
          · exact Or.inl ⟨h1, h2, h⟩
          · exact Or.inr ⟨h1, by omega⟩

end Influx.KC
