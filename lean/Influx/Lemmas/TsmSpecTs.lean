/-
  Lemmas.TsmSpecTs — the statement checker accepts every trace of the model made of
  stand-alone Tombstoner operations (AddRange / Add / Flush / Rollback / Delete / Walk /
  new object): by a simulation between the model state and the checker's state.
-/
import Influx.Model.TsmOps
import Influx.Spec.C08

namespace Influx.Tsm
open Influx.Spec.C08

abbrev SS := Influx.Spec.C08.S

def isTsOp : Op → Bool
  | .tsNew | .tsAdd _ | .tsAddRange .. | .tsFlush | .tsRollback | .tsDelete | .tsHas | .tsWalk | .tsWalkFresh => true
  | _ => false

def runFrom (sp : SS) (i : Nat) (tr : List (Op × Ans)) : SS :=
  (tr.zipIdx i).foldl (fun s x => stepS s x.2 x.1.1 x.1.2) sp

theorem runFrom_cons (sp : SS) (i : Nat) (op : Op) (a : Ans) (tr : List (Op × Ans)) :
    runFrom sp i ((op, a) :: tr) = runFrom (stepS sp i op a) (i + 1) tr := by
  simp [runFrom, List.zipIdx_cons]

theorem run_eq_runFrom (tr : List (Op × Ans)) : run tr = runFrom {} 0 tr := rfl

theorem isPrefix_append {α : Type} [DecidableEq α] (a b : List α) : isPrefix a (a ++ b) = true := by
  induction a with
  | nil => cases b <;> rfl
  | cons x a ih => simp [isPrefix, ih]

theorem isSuffix_drop_flatten (ms : List (List Tombstone)) (n : Nat) :
    isSuffix (ms.drop n).flatten ms.flatten = true := by
  unfold isSuffix
  have : ms.flatten = (ms.take n).flatten ++ (ms.drop n).flatten := by
    rw [← List.flatten_append, List.take_append_drop]
  rw [this, List.reverse_append]
  exact isPrefix_append _ _

theorem isSuffix_nil {α : Type} [DecidableEq α] (b : List α) : isSuffix ([] : List α) b = true := by
  unfold isSuffix; cases h : b.reverse <;> simp [isPrefix]

/-- the simulation relation between the model's stand-alone tombstoner and the checker -/
structure TsRel (s : State) (sp : SS) : Prop where
  fails : sp.fails = []
  obj : sp.tsObj = s.sobj.isSome
  file : sp.tsAbstain = false → allTombs s.sfile = sp.tsFile
  pend : ∀ o, s.sobj = some o → o.pending.map (·.added) = sp.tsPend
  base : sp.tsAbstain = false → ∀ o p, s.sobj = some o → o.pending = some p → p.base = s.sfile.getD []

theorem need_true (sp : SS) (b : Bool) (sig : String) (i : Nat) (hb : b = true) : sp.need b sig i = sp := by
  simp [Spec.C08.S.need, hb]

theorem tag_fails (sp : SS) (t : String) : (sp.tag t).fails = sp.fails := by
  unfold Spec.C08.S.tag; split <;> rfl

/-- without an object every operation but `ts.new` answers `err:no-ts`, which is what the checker expects -/
theorem ts_step_noobj (s : State) (sp : SS) (i : Nat) (op : Op) (hop : isTsOp op = true)
    (hnew : ∀ h : op = .tsNew, False) (hhas : ∀ h : op = .tsHas, False) (ho : s.sobj = none) (hob : sp.tsObj = false) :
    (step s op).1 = s ∧ stepS sp i op (step s op).2 = sp := by
  cases op <;> simp only [isTsOp, Bool.false_eq_true] at hop
  case tsNew => exact absurd rfl (fun h => hnew h)
  case tsHas => exact absurd rfl (fun h => hhas h)
  all_goals
    simp only [step, step.tsOp, ho, stepS, hob, Bool.not_false, if_true]
    exact ⟨trivial, need_true _ _ _ _ (by simp)⟩

theorem addRange_pending (f : TFile) (o : TObj) (ks : List Key) (lo hi : Int) (hk : ks.isEmpty = false) :
    (tAddRange f o none ks lo hi).pending =
      some ⟨(o.pending.map (·.base)).getD (f.getD []), (o.pending.map (·.added)).getD [] ++ ks.map fun k => ⟨k, lo, hi⟩⟩ := by
  simp only [tAddRange, hk, Bool.false_eq_true, if_false]
  cases o.pending <;> simp

theorem ts_step (s : State) (sp : SS) (i : Nat) (op : Op) (hop : isTsOp op = true) (h : TsRel s sp) :
    TsRel (step s op).1 (stepS sp i op (step s op).2) := by
  obtain ⟨hf, hobj, hfile, hpend, hbase⟩ := h
  by_cases hnew : op = .tsNew
  · subst hnew
    simp only [step, stepS]
    refine ⟨hf, (by simp), hfile, ?_, ?_⟩
    · intro o ho; simp at ho; subst ho; rfl
    · intro _ o p ho hp; simp at ho; subst ho; simp at hp
  by_cases hhas : op = .tsHas
  · subst hhas
    cases ho : s.sobj with
    | none =>
      simp only [step, step.tsOp, ho, stepS]
      exact ⟨hf, hobj.trans (by rw [ho]), hfile, (by intro o h'; rw [ho] at h'; cases h'), (by intro _ o p h'; rw [ho] at h'; cases h')⟩
    | some o =>
      simp only [step, step.tsOp, ho, stepS]
      refine ⟨hf, (by rw [hobj, ho]; rfl), hfile, ?_, ?_⟩
      · intro o' h'; simp at h'; subst h'
        have := hpend o ho
        unfold tHas; split <;> simpa using this
      · intro ha o' p h' hp; simp at h'; subst h'
        apply hbase ha o p ho
        unfold tHas at hp; split at hp <;> simpa using hp
  cases ho : s.sobj with
  | none =>
    have hob : sp.tsObj = false := by rw [hobj, ho]; rfl
    obtain ⟨h1, h2⟩ := ts_step_noobj s sp i op hop (fun e => hnew e) (fun e => hhas e) ho hob
    rw [h1, h2]
    exact ⟨hf, hobj, hfile, hpend, hbase⟩
  | some o =>
    have hob : sp.tsObj = true := by rw [hobj, ho]; rfl
    have hp0 := hpend o ho
    cases op <;> simp only [isTsOp, Bool.false_eq_true] at hop
    case tsNew => exact absurd rfl hnew
    case tsHas => exact absurd rfl hhas
    case tsAdd ks =>
      simp only [step, step.tsOp, ho, stepS, hob, Bool.not_true, Bool.false_eq_true, if_false]
      rw [need_true _ _ _ _ (by simp)]
      cases hk : ks.isEmpty with
      | true =>
        have : ks = [] := List.isEmpty_iff.mp hk
        subst this
        simp only [tAddRange, List.isEmpty_nil, if_true]
        exact ⟨hf, (by simp [hob]), hfile, (by intro o' h'; simp at h'; subst h'; exact hp0),
          (by intro ha o' p h' hp; simp at h'; subst h'; exact hbase ha o p ho hp)⟩
      | false =>
        simp only [Bool.false_eq_true, if_false]
        refine ⟨hf, (by simp [hob]), hfile, ?_, ?_⟩
        · intro o' h'; simp at h'; subst h'
          rw [addRange_pending _ _ _ _ _ hk, ← hp0]
          cases o.pending <;> simp
        · intro ha o' p' h' hp'; simp at h'; subst h'
          rw [addRange_pending _ _ _ _ _ hk] at hp'
          simp at hp'; subst hp'
          cases hpd : o.pending with
          | none => simp
          | some p => simpa using hbase ha o p ho hpd
    case tsAddRange ks lo hi =>
      simp only [step, step.tsOp, ho, stepS, hob, Bool.not_true, Bool.false_eq_true, if_false]
      rw [need_true _ _ _ _ (by simp)]
      cases hk : ks.isEmpty with
      | true =>
        have : ks = [] := List.isEmpty_iff.mp hk
        subst this
        simp only [tAddRange, List.isEmpty_nil, if_true]
        exact ⟨hf, (by simp [hob]), hfile, (by intro o' h'; simp at h'; subst h'; exact hp0),
          (by intro ha o' p h' hp; simp at h'; subst h'; exact hbase ha o p ho hp)⟩
      | false =>
        simp only [Bool.false_eq_true, if_false]
        refine ⟨hf, (by simp [hob]), hfile, ?_, ?_⟩
        · intro o' h'; simp at h'; subst h'
          rw [addRange_pending _ _ _ _ _ hk, ← hp0]
          cases o.pending <;> simp
        · intro ha o' p' h' hp'; simp at h'; subst h'
          rw [addRange_pending _ _ _ _ _ hk] at hp'
          simp at hp'; subst hp'
          cases hpd : o.pending with
          | none => simp
          | some p => simpa using hbase ha o p ho hpd
    case tsFlush =>
      simp only [step, step.tsOp, ho, stepS, hob, Bool.not_true, Bool.false_eq_true, if_false]
      rw [need_true _ _ _ _ (by simp)]
      cases hpd : o.pending with
      | none =>
        have : sp.tsPend = none := by rw [← hp0, hpd]; rfl
        simp only [tFlush, hpd, this]
        exact ⟨hf, (by simp [hob]), hfile, (by intro o' h'; simp at h'; subst h'; rw [hpd, this]; rfl),
          (by intro ha o' p h' hp; simp at h'; subst h'; rw [hpd] at hp; cases hp)⟩
      | some p =>
        have : sp.tsPend = some p.added := by rw [← hp0, hpd]; rfl
        simp only [tFlush, hpd, this]
        refine ⟨hf, (by simp [hob]), ?_, ?_, ?_⟩
        · intro ha
          have hb := hbase ha o p ho hpd
          simp only [allTombs, Option.getD_some, List.flatten_append, List.flatten_cons, List.flatten_nil, List.append_nil]
          rw [hb, ← hfile ha]; rfl
        · intro o' h'; simp at h'; subst h'; rfl
        · intro ha o' p' h' hp'; simp at h'; subst h'; simp at hp'
    case tsRollback =>
      simp only [step, step.tsOp, ho, stepS, hob, Bool.not_true, Bool.false_eq_true, if_false]
      rw [need_true _ _ _ _ (by simp)]
      exact ⟨hf, (by simp [hob]), hfile, (by intro o' h'; simp at h'; subst h'; rfl),
        (by intro ha o' p h' hp; simp at h'; subst h'; simp [tRollback] at hp)⟩
    case tsDelete =>
      simp only [step, step.tsOp, ho, stepS, hob, Bool.not_true, Bool.false_eq_true, if_false]
      rw [need_true _ _ _ _ (by simp)]
      refine ⟨hf, (by simp [hob]), ?_, ?_, ?_⟩
      · intro _; simp [tDelete, allTombs]
      · intro o' h'; simp at h'; subst h'; simpa [tDelete] using hp0
      · intro ha o' p h' hp
        simp at h'; subst h'
        simp only [tDelete] at hp
        simp only [Bool.or_eq_false_iff] at ha
        rw [← hp0, hp] at ha
        simp at ha
    case tsWalk =>
      simp only [step, step.tsOp, ho, stepS, hob, Bool.not_true, Bool.false_eq_true, if_false]
      have hst : ∀ _x : Unit, (tWalk s.sfile o).2.pending = o.pending := by
        intro _; unfold tWalk; split <;> (try split) <;> rfl
      cases hab : sp.tsAbstain with
      | true =>
        simp only [if_true]
        exact ⟨hf, (by simp [hob]), (by intro h'; rw [hab] at h'; cases h'),
          (by intro o' h'; simp at h'; subst h'; rw [hst ()]; exact hp0), (by intro h'; rw [hab] at h'; cases h')⟩
      | false =>
        simp only [Bool.false_eq_true, if_false]
        have hsuf : isSuffix (tWalk s.sfile o).1 sp.tsFile = true := by
          rw [← hfile hab]
          unfold tWalk allTombs
          cases s.sfile with
          | none => exact isSuffix_nil _
          | some ms =>
            simp only [Option.getD_some]
            split
            · exact isSuffix_nil _
            · exact isSuffix_drop_flatten ms _
        rw [need_true _ _ _ _ hsuf]
        exact ⟨hf, (by simp [hob]), hfile, (by intro o' h'; simp at h'; subst h'; rw [hst ()]; exact hp0),
          (by intro ha o' p h' hp; simp at h'; subst h'; rw [hst ()] at hp; exact hbase ha o p ho hp)⟩
    case tsWalkFresh =>
      simp only [step, step.tsOp, ho, stepS, hob, Bool.not_true, Bool.false_eq_true, if_false]
      cases hab : sp.tsAbstain with
      | true =>
        simp only [if_true]
        exact ⟨(by rw [tag_fails]; exact hf), (by unfold Spec.C08.S.tag; split <;> simp [hob]),
          (by intro h'; exfalso; unfold Spec.C08.S.tag at h'; split at h' <;> simp [hab] at h'),
          (by intro o' h'; simp at h'; subst h'; unfold Spec.C08.S.tag; split <;> exact hp0),
          (by intro h'; exfalso; unfold Spec.C08.S.tag at h'; split at h' <;> simp [hab] at h')⟩
      | false =>
        simp only [Bool.false_eq_true, if_false]
        rw [need_true _ _ _ _ (by rw [hfile hab]; simp)]
        exact ⟨hf, (by simp [hob]), hfile, (by intro o' h'; simp at h'; subst h'; exact hp0),
          (by intro ha o' p h' hp; simp at h'; subst h'; exact hbase ha o p ho hp)⟩

theorem ts_trace (ops : List Op) (hops : ∀ op ∈ ops, isTsOp op = true) :
    ∀ (s : State) (sp : SS) (i : Nat), TsRel s sp → (runFrom sp i (traceFrom s ops)).fails = [] := by
  induction ops with
  | nil => intro s sp i h; exact h.fails
  | cons op ops ih =>
    intro s sp i h
    simp only [traceFrom, runFrom_cons]
    exact ih (fun o ho => hops o (List.mem_cons_of_mem _ ho)) _ _ _
      (ts_step s sp i op (hops op List.mem_cons_self) h)

end Influx.Tsm
