/-
  Lemmas.EpochHolds — the statement checker of clause 3 (`Spec.C17.EpochOK`) accepts the
  epoch tracker model's trace, for every schedule.
-/
import Influx.Lemmas.EpochInv
import Influx.Spec.C17

namespace Influx.Model.Epoch
open Influx.Spec.C17 (EHist judgeEpoch judgeAll EpochOK)

/-- the tracker and the history agree on who is in flight and who is running, in order -/
structure RelE (t : Tracker) (h : EHist) : Prop where
  pos : h.pos = t.epoch
  ws : t.inflight.map (fun w => (w.id, w.gen)) = h.writes.map (fun w => (w.1, w.2 + 1))
  ds : t.deletes.map (fun d => (d.id, d.gen, d.lo, d.hi)) = h.deletes.map (fun d => (d.1, d.2.1 + 1, d.2.2.1, d.2.2.2))

theorem map_eq_length {α β γ : Type} {l1 : List α} {l2 : List β} {f : α → γ} {g : β → γ}
    (h : l1.map f = l2.map g) : l1.length = l2.length := by
  have := congrArg List.length h
  simpa using this

theorem filter_length_of_map_eq {α β γ : Type} (f : α → γ) (g : β → γ) (p1 : α → Bool) (p2 : β → Bool)
    (hp : ∀ x y, f x = g y → p1 x = p2 y) :
    ∀ (l1 : List α) (l2 : List β), l1.map f = l2.map g → (l1.filter p1).length = (l2.filter p2).length := by
  intro l1
  induction l1 with
  | nil =>
    intro l2 h
    cases l2 with
    | nil => rfl
    | cons y ys => simp at h
  | cons x xs ih =>
    intro l2 h
    cases l2 with
    | nil => simp at h
    | cons y ys =>
      simp only [List.map_cons, List.cons.injEq] at h
      have := ih ys h.2
      simp only [List.filter_cons, hp x y h.1]
      split <;> simp [this]

theorem any_of_map_eq {α β γ : Type} (f : α → γ) (g : β → γ) (p1 : α → Bool) (p2 : β → Bool)
    (hp : ∀ x y, f x = g y → p1 x = p2 y) :
    ∀ (l1 : List α) (l2 : List β), l1.map f = l2.map g → l1.any p1 = l2.any p2 := by
  intro l1
  induction l1 with
  | nil =>
    intro l2 h
    cases l2 with
    | nil => rfl
    | cons y ys => simp at h
  | cons x xs ih =>
    intro l2 h
    cases l2 with
    | nil => simp at h
    | cons y ys =>
      simp only [List.map_cons, List.cons.injEq] at h
      simp only [List.any_cons, hp x y h.1, ih ys h.2]

theorem filter_map_of_map_eq {α β γ δ : Type} (f : α → γ) (g : β → γ) (p1 : α → Bool) (p2 : β → Bool)
    (r1 : α → δ) (r2 : β → δ)
    (hp : ∀ x y, f x = g y → p1 x = p2 y ∧ r1 x = r2 y) :
    ∀ (l1 : List α) (l2 : List β), l1.map f = l2.map g → (l1.filter p1).map r1 = (l2.filter p2).map r2 := by
  intro l1
  induction l1 with
  | nil =>
    intro l2 h
    cases l2 with
    | nil => rfl
    | cons y ys => simp at h
  | cons x xs ih =>
    intro l2 h
    cases l2 with
    | nil => simp at h
    | cons y ys =>
      simp only [List.map_cons, List.cons.injEq] at h
      have := ih ys h.2
      obtain ⟨h1, h2⟩ := hp x y h.1
      simp only [List.filter_cons, h1]
      split <;> simp [this, h2]

theorem find_of_map_eq {α β γ : Type} (f : α → γ) (g : β → γ) (p1 : α → Bool) (p2 : β → Bool)
    (hp : ∀ x y, f x = g y → p1 x = p2 y) :
    ∀ (l1 : List α) (l2 : List β), l1.map f = l2.map g →
      (l1.find? p1).map f = (l2.find? p2).map g := by
  intro l1
  induction l1 with
  | nil =>
    intro l2 h
    cases l2 with
    | nil => rfl
    | cons y ys => simp at h
  | cons x xs ih =>
    intro l2 h
    cases l2 with
    | nil => simp at h
    | cons y ys =>
      simp only [List.map_cons, List.cons.injEq] at h
      simp only [List.find?_cons, hp x y h.1]
      split
      · simp [h.1]
      · exact ih ys h.2

/-- one step: the checker accepts the model's answer and the relation is kept -/
theorem judge_step (t : Tracker) (h : EHist) (hinv : Inv t) (hr : RelE t h) (op : EOp) :
    (judgeEpoch h op (step t op).2).2 = true ∧ RelE (step t op).1 (judgeEpoch h op (step t op).2).1 := by
  have hwany : ∀ id, t.inflight.any (·.id = id) = h.writes.any (·.1 = id) := fun id =>
    any_of_map_eq (fun w : Wr => (w.id, w.gen)) (fun w : Int × Nat => (w.1, w.2 + 1)) _ _
      (fun x y hxy => by simp only [Prod.mk.injEq] at hxy; simp [hxy.1]) _ _ hr.ws
  have hdany : ∀ id, t.deletes.any (·.id = id) = h.deletes.any (·.1 = id) := fun id =>
    any_of_map_eq (fun d : Del => (d.id, d.gen, d.lo, d.hi))
      (fun d : Int × Nat × Int × Int => (d.1, d.2.1 + 1, d.2.2.1, d.2.2.2)) _ _
      (fun x y hxy => by simp only [Prod.mk.injEq] at hxy; simp [hxy.1]) _ _ hr.ds
  cases op with
  | startWrite id times =>
    simp only [step]
    by_cases hdup : t.inflight.any (·.id = id) = true
    · simp only [hdup, if_true, judgeEpoch]
      exact ⟨by rw [← hwany]; exact hdup, hr⟩
    · simp only [hdup, Bool.false_eq_true, if_false, judgeEpoch]
      constructor
      · -- the wait set is the set of conflicting running deletes
        have hids : (t.deletes.filter fun d => guardMatches d times).map (·.id) =
            (h.deletes.filter fun d => times.any fun x => decide (d.2.2.1 ≤ x ∧ x ≤ d.2.2.2)).map (·.1) :=
          filter_map_of_map_eq (fun d : Del => (d.id, d.gen, d.lo, d.hi))
            (fun d : Int × Nat × Int × Int => (d.1, d.2.1 + 1, d.2.2.1, d.2.2.2)) _ _ _ _
            (fun x y hxy => by
              simp only [Prod.mk.injEq] at hxy
              simp [guardMatches, hxy.1, hxy.2.2.1, hxy.2.2.2]) _ _ hr.ds
        simp only [Bool.and_eq_true, List.all_eq_true, List.contains_eq_mem, decide_eq_true_eq]
        rw [← hids]
        exact ⟨fun x hx => mem_sortAsc.1 hx, fun x hx => mem_sortAsc.2 hx⟩
      · exact ⟨by simp [hr.pos], by simp [hr.ws, hr.pos], hr.ds⟩
  | endWrite id =>
    simp only [step]
    have hfind := find_of_map_eq (fun w : Wr => (w.id, w.gen)) (fun w : Int × Nat => (w.1, w.2 + 1))
      (fun w => decide (w.id = id)) (fun w => decide (w.1 = id))
      (fun x y hxy => by simp only [Prod.mk.injEq] at hxy; simp [hxy.1]) _ _ hr.ws
    cases hf : t.inflight.find? (·.id = id) with
    | none =>
      simp only [judgeEpoch]
      refine ⟨?_, hr⟩
      have : t.inflight.any (·.id = id) = false := by
        rw [List.any_eq_false]; intro w hw
        have := List.find?_eq_none.1 hf w hw
        simpa using this
      rw [← hwany, this]; rfl
    | some w =>
      simp only [judgeEpoch]
      refine ⟨trivial, ⟨hr.pos, ?_, ?_⟩⟩
      · simp only
        have := filter_map_of_map_eq (fun w : Wr => (w.id, w.gen)) (fun w : Int × Nat => (w.1, w.2 + 1))
          (fun w => decide (w.id ≠ id)) (fun w => decide (w.1 ≠ id)) (fun w => (w.id, w.gen)) (fun w => (w.1, w.2 + 1))
          (fun x y hxy => by simp only [Prod.mk.injEq] at hxy; exact ⟨by simp [hxy.1], by simp [hxy.1, hxy.2]⟩)
          _ _ hr.ws
        exact this
      · simp only
        split
        · rw [List.map_map, ← hr.ds]
          apply List.map_congr_left
          intro d _
          simp only [Function.comp]
          split <;> rfl
        · exact hr.ds
  | waitDelete id lo hi =>
    simp only [step]
    by_cases hdup : t.deletes.any (·.id = id) = true
    · simp only [hdup, if_true, judgeEpoch]
      exact ⟨by rw [← hdany]; exact hdup, hr⟩
    · simp only [hdup, Bool.false_eq_true, if_false, judgeEpoch]
      refine ⟨?_, ⟨by simp [hr.pos], hr.ws, by simp [hr.ds, hr.pos]⟩⟩
      simp only [decide_eq_true_eq, hinv.writes]
      exact congrArg Int.ofNat (map_eq_length hr.ws)
  | pending id =>
    simp only [step]
    have hfind := find_of_map_eq (fun d : Del => (d.id, d.gen, d.lo, d.hi))
      (fun d : Int × Nat × Int × Int => (d.1, d.2.1 + 1, d.2.2.1, d.2.2.2))
      (fun d => decide (d.id = id)) (fun d => decide (d.1 = id))
      (fun x y hxy => by simp only [Prod.mk.injEq] at hxy; simp [hxy.1]) _ _ hr.ds
    cases hf : t.deletes.find? (·.id = id) with
    | none =>
      simp only [judgeEpoch]
      refine ⟨?_, hr⟩
      have : t.deletes.any (·.id = id) = false := by
        rw [List.any_eq_false]; intro d hd
        have := List.find?_eq_none.1 hf d hd
        simpa using this
      rw [← hdany, this]; rfl
    | some d =>
      rw [hf] at hfind
      simp only [Option.map_some] at hfind
      cases hf2 : h.deletes.find? (fun d => decide (d.1 = id)) with
      | none => rw [hf2] at hfind; cases hfind
      | some d2 =>
        rw [hf2] at hfind
        simp only [Option.map_some, Option.some.injEq, Prod.mk.injEq] at hfind
        simp only [judgeEpoch, hf2]
        refine ⟨?_, hr⟩
        simp only [decide_eq_true_eq]
        have hd : d ∈ t.deletes := List.mem_of_find?_eq_some hf
        rw [hinv.pending d hd]
        simp only [earlier]
        congr 1
        exact filter_length_of_map_eq (fun w : Wr => (w.id, w.gen)) (fun w : Int × Nat => (w.1, w.2 + 1)) _ _
          (fun x y hxy => by
            simp only [Prod.mk.injEq] at hxy
            have h2 := hfind.2.1
            simp only [hxy.2, h2, decide_eq_decide]; omega) _ _ hr.ws
  | done id =>
    simp only [step]
    by_cases hex : t.deletes.any (·.id = id) = true
    · simp only [hex, if_true, judgeEpoch]
      refine ⟨trivial, ⟨hr.pos, hr.ws, ?_⟩⟩
      simp only
      exact filter_map_of_map_eq (fun d : Del => (d.id, d.gen, d.lo, d.hi))
        (fun d : Int × Nat × Int × Int => (d.1, d.2.1 + 1, d.2.2.1, d.2.2.2))
        (fun d => decide (d.id ≠ id)) (fun d => decide (d.1 ≠ id)) _ _
        (fun x y hxy => by simp only [Prod.mk.injEq] at hxy; exact ⟨by simp [hxy.1], by simp [hxy]⟩) _ _ hr.ds
    · simp only [hex, Bool.false_eq_true, if_false, judgeEpoch]
      refine ⟨?_, hr⟩
      have : t.deletes.any (·.id = id) = false := by simpa using hex
      rw [← hdany, this]; rfl

theorem judgeAll_run (ops : List EOp) : ∀ (t : Tracker) (h : EHist), Inv t → RelE t h → judgeAll h (run t ops) = true := by
  induction ops with
  | nil => intro _ _ _ _; rfl
  | cons op ops ih =>
    intro t h hi hr
    obtain ⟨h1, h2⟩ := judge_step t h hi hr op
    simp only [run, judgeAll, h1, Bool.true_and]
    exact ih _ _ (inv_step t hi op) h2

end Influx.Model.Epoch
