/-
  Lemmas.CacheDedup — `Values.Deduplicate` (stable sort + collapse, or nothing when
  already strictly ascending) computes the newest-wins canonical form `Spec.C09.canon`.
-/
import Influx.Spec.C09

namespace Influx.Cache
open Influx.Spec.C09

/-- strictly ascending timestamps -/
def SortedLt (l : List Value) : Prop := l.Pairwise (fun a b => a.t < b.t)
/-- ascending timestamps -/
def SortedLe (l : List Value) : Prop := l.Pairwise (fun a b => a.t ≤ b.t)

theorem SortedLt.le {l} (h : SortedLt l) : SortedLe l := h.imp (fun h => Int.le_of_lt h)

/-! ### lastAt -/

theorem lastAt_nil (t : Int) : lastAt [] t = none := rfl

theorem lastAt_append (a b : List Value) (t : Int) :
    lastAt (a ++ b) t = (lastAt b t).or (lastAt a t) := by
  unfold lastAt
  rw [List.filter_append, List.getLast?_append]

theorem lastAt_cons (x : Value) (l : List Value) (t : Int) :
    lastAt (x :: l) t = (lastAt l t).or (if x.t = t then some x else none) := by
  have := lastAt_append [x] l t
  simp only [List.singleton_append] at this
  rw [this]
  congr 1
  unfold lastAt
  by_cases h : x.t = t <;> simp [h]

theorem lastAt_some_t {l : List Value} {t : Int} {v : Value} (h : lastAt l t = some v) : v.t = t ∧ v ∈ l := by
  unfold lastAt at h
  have hm := List.mem_of_getLast? h
  have := List.mem_filter.mp hm
  exact ⟨by simpa using this.2, this.1⟩

theorem lastAt_none_iff {l : List Value} {t : Int} : lastAt l t = none ↔ ∀ v ∈ l, v.t ≠ t := by
  unfold lastAt
  rw [List.getLast?_eq_none_iff, List.filter_eq_nil_iff]
  simp

/-- in a strictly ascending list every timestamp occurs at most once -/
theorem lastAt_of_mem_sorted {l : List Value} (h : SortedLt l) {v : Value} (hv : v ∈ l) :
    lastAt l v.t = some v := by
  induction l with
  | nil => simp at hv
  | cons x rest ih =>
    have hp := List.pairwise_cons.mp h
    rw [lastAt_cons]
    rcases List.mem_cons.mp hv with rfl | hv'
    · have : lastAt rest v.t = none := by
        rw [lastAt_none_iff]; intro w hw; have := hp.1 w hw; omega
      simp [this]
    · have hne : x.t ≠ v.t := by have := hp.1 v hv'; omega
      simp [ih hp.2 hv', hne]

/-- **uniqueness**: a strictly ascending list is determined by its `lastAt` -/
theorem eq_of_lastAt_eq : ∀ (a b : List Value), SortedLt a → SortedLt b →
    (∀ t, lastAt a t = lastAt b t) → a = b := by
  intro a
  induction a with
  | nil =>
    intro b _ _ h
    cases b with
    | nil => rfl
    | cons y b' =>
      have := h y.t
      rw [lastAt_nil, eq_comm, lastAt_none_iff] at this
      exact absurd rfl (this y (by simp))
  | cons x a' ih =>
    intro b ha hb h
    cases b with
    | nil =>
      have := h x.t
      rw [lastAt_nil, lastAt_none_iff] at this
      exact absurd rfl (this x (by simp))
    | cons y b' =>
      have hpa := List.pairwise_cons.mp ha
      have hpb := List.pairwise_cons.mp hb
      have hx : lastAt (y :: b') x.t = some x := by rw [← h]; exact lastAt_of_mem_sorted ha (by simp)
      have hy : lastAt (x :: a') y.t = some y := by rw [h]; exact lastAt_of_mem_sorted hb (by simp)
      have hxm := (lastAt_some_t hx).2
      have hym := (lastAt_some_t hy).2
      have hxy : x = y := by
        rcases List.mem_cons.mp hxm with e | hxb
        · exact e
        · rcases List.mem_cons.mp hym with e | hya
          · exact e.symm
          · have h1 := hpb.1 x hxb
            have h2 := hpa.1 y hya
            omega
      subst hxy
      congr 1
      apply ih b' hpa.2 hpb.2
      intro t
      have := h t
      rw [lastAt_cons, lastAt_cons] at this
      by_cases ht : x.t = t
      · -- neither tail contains the head's timestamp
        have h1 : lastAt a' t = none := by
          rw [lastAt_none_iff]; intro w hw; have := hpa.1 w hw; omega
        have h2 : lastAt b' t = none := by
          rw [lastAt_none_iff]; intro w hw; have := hpb.1 w hw; omega
        rw [h1, h2]
      · simpa [ht] using this

/-! ### the stable sort -/

theorem insertByTime_perm (v : Value) (l : List Value) : (insertByTime v l).Perm (v :: l) := by
  induction l with
  | nil => simp [insertByTime]
  | cons x xs ih =>
    simp only [insertByTime]
    split
    · exact List.Perm.refl _
    · exact (List.Perm.cons x ih).trans (List.Perm.swap v x xs)

theorem insertByTime_sorted (v : Value) (l : List Value) (h : SortedLe l) : SortedLe (insertByTime v l) := by
  induction l with
  | nil => simp [insertByTime, SortedLe]
  | cons x xs ih =>
    have hp := List.pairwise_cons.mp h
    simp only [insertByTime]
    split
    · rename_i hlt
      refine List.pairwise_cons.mpr ⟨?_, h⟩
      intro w hw
      rcases List.mem_cons.mp hw with rfl | hw
      · omega
      · have := hp.1 w hw; omega
    · rename_i hge
      refine List.pairwise_cons.mpr ⟨?_, ih hp.2⟩
      intro w hw
      rcases List.mem_cons.mp ((insertByTime_perm v xs).subset hw) with rfl | hw
      · omega
      · exact hp.1 w hw

/-- the stable insertion keeps, for every timestamp, the arrival order -/
theorem insertByTime_filter (v : Value) (l : List Value) (h : SortedLe l) (t : Int) :
    (insertByTime v l).filter (fun w => w.t = t) =
      l.filter (fun w => w.t = t) ++ (if v.t = t then [v] else []) := by
  induction l with
  | nil => by_cases hv : v.t = t <;> simp [insertByTime, hv]
  | cons x xs ih =>
    have hp := List.pairwise_cons.mp h
    simp only [insertByTime]
    split
    · rename_i hlt
      -- everything from `x` on is later than `v`
      by_cases hv : v.t = t
      · have hnone : (x :: xs).filter (fun w => w.t = t) = [] := by
          rw [List.filter_eq_nil_iff]
          intro w hw
          rcases List.mem_cons.mp hw with rfl | hw
          · simp; omega
          · have := hp.1 w hw; simp; omega
        have e : (v :: x :: xs).filter (fun w => w.t = t) = v :: (x :: xs).filter (fun w => w.t = t) := by
          simp [List.filter_cons, hv]
        rw [e, hnone]
        simp [hv]
      · simp [List.filter_cons, hv]
    · rw [List.filter_cons, List.filter_cons, ih hp.2]
      split <;> simp

theorem sortStable_aux (a : List Value) : ∀ acc, SortedLe acc →
    SortedLe (a.foldl (fun acc v => insertByTime v acc) acc) ∧
    (a.foldl (fun acc v => insertByTime v acc) acc).Perm (acc ++ a) ∧
    ∀ t, (a.foldl (fun acc v => insertByTime v acc) acc).filter (fun w => w.t = t) =
      acc.filter (fun w => w.t = t) ++ a.filter (fun w => w.t = t) := by
  induction a with
  | nil => intro acc h; simp [h]
  | cons v rest ih =>
    intro acc h
    obtain ⟨h1, h2, h3⟩ := ih (insertByTime v acc) (insertByTime_sorted v acc h)
    refine ⟨h1, ?_, ?_⟩
    · refine h2.trans ?_
      have := (insertByTime_perm v acc).append_right rest
      refine this.trans ?_
      simp only [List.cons_append]
      exact (List.perm_middle).symm
    · intro t
      simp only [List.foldl_cons]
      rw [h3 t, insertByTime_filter v acc h t, List.filter_cons]
      by_cases hv : v.t = t <;> simp [hv]

theorem sortStable_sorted (a : List Value) : SortedLe (sortStable a) :=
  (sortStable_aux a [] (by simp [SortedLe])).1

theorem sortStable_perm (a : List Value) : (sortStable a).Perm a := by
  have := (sortStable_aux a [] (by simp [SortedLe])).2.1
  simpa [sortStable] using this

theorem lastAt_sortStable (a : List Value) (t : Int) : lastAt (sortStable a) t = lastAt a t := by
  unfold lastAt
  have := (sortStable_aux a [] (by simp [SortedLe])).2.2 t
  simp only [List.filter_nil, List.nil_append] at this
  unfold sortStable
  rw [this]

/-! ### collapse -/

theorem collapse_sublist (l : List Value) : (collapse l).Sublist l := by
  induction l with
  | nil => simp [collapse]
  | cons a rest ih =>
    cases rest with
    | nil => simp [collapse]
    | cons b rest' =>
      simp only [collapse]
      split
      · exact ih.trans (List.sublist_cons_self _ _)
      · exact ih.cons_cons a

theorem collapse_ne_nil {l : List Value} (h : l ≠ []) : collapse l ≠ [] := by
  induction l with
  | nil => exact absurd rfl h
  | cons a rest ih =>
    cases rest with
    | nil => simp [collapse]
    | cons b rest' =>
      simp only [collapse]
      split
      · exact ih (by simp)
      · simp

theorem collapse_head (a : Value) (rest : List Value) (h : SortedLe (a :: rest)) :
    ∀ w ∈ collapse (a :: rest), a.t ≤ w.t := by
  intro w hw
  have := (collapse_sublist (a :: rest)).subset hw
  rcases List.mem_cons.mp this with rfl | hm
  · omega
  · exact (List.pairwise_cons.mp h).1 w hm

theorem collapse_sorted (l : List Value) (h : SortedLe l) : SortedLt (collapse l) := by
  induction l with
  | nil => simp [collapse, SortedLt]
  | cons a rest ih =>
    cases rest with
    | nil => simp [collapse, SortedLt]
    | cons b rest' =>
      have hp := List.pairwise_cons.mp h
      simp only [collapse]
      split
      · exact ih hp.2
      · rename_i hne
        refine List.pairwise_cons.mpr ⟨?_, ih hp.2⟩
        intro w hw
        have h1 := collapse_head b rest' hp.2 w hw
        have h2 := hp.1 b (by simp)
        omega

theorem lastAt_collapse (l : List Value) (h : SortedLe l) (t : Int) : lastAt (collapse l) t = lastAt l t := by
  induction l with
  | nil => rfl
  | cons a rest ih =>
    cases rest with
    | nil => rfl
    | cons b rest' =>
      have hp := List.pairwise_cons.mp h
      simp only [collapse]
      split
      · rename_i heq
        rw [ih hp.2, lastAt_cons a]
        -- `b` has the same timestamp as `a` and comes later
        by_cases ht : a.t = t
        · have : (lastAt (b :: rest') t).isSome := by
            rw [lastAt_cons]
            have hb : b.t = t := by omega
            cases lastAt rest' t <;> simp [hb]
          cases hl : lastAt (b :: rest') t with
          | none => simp [hl] at this
          | some w => simp
        · simp [ht]
      · rw [lastAt_cons a, lastAt_cons a, ih hp.2]

/-! ### Deduplicate -/

theorem ordered_iff (l : List Value) : ordered l = true ↔ SortedLt l := by
  induction l with
  | nil => simp [ordered, SortedLt]
  | cons a rest ih =>
    cases rest with
    | nil => simp [ordered, SortedLt]
    | cons b rest' =>
      simp only [ordered, Bool.and_eq_true, decide_eq_true_eq, ih, SortedLt]
      constructor
      · rintro ⟨hab, hr⟩
        refine List.pairwise_cons.mpr ⟨?_, hr⟩
        intro w hw
        rcases List.mem_cons.mp hw with rfl | hw
        · exact hab
        · have := (List.pairwise_cons.mp hr).1 w hw; omega
      · intro h
        have hp := List.pairwise_cons.mp h
        exact ⟨hp.1 b (by simp), hp.2⟩

theorem dedup_sorted (a : List Value) : SortedLt (dedup a) := by
  unfold dedup
  split
  · rename_i h
    match a, h with
    | [], _ => simp [SortedLt]
    | [x], _ => simp [SortedLt]
  · split
    · rename_i h; exact (ordered_iff a).mp h
    · exact collapse_sorted _ (sortStable_sorted a)

theorem lastAt_dedup (a : List Value) (t : Int) : lastAt (dedup a) t = lastAt a t := by
  unfold dedup
  split
  · rfl
  · split
    · rfl
    · rw [lastAt_collapse _ (sortStable_sorted a), lastAt_sortStable]

theorem valuesSize_perm {a b : List Value} (h : a.Perm b) : valuesSize a = valuesSize b := by
  unfold valuesSize
  exact (h.map _).sum_nat

theorem valuesSize_sublist {a b : List Value} (h : a.Sublist b) : valuesSize a ≤ valuesSize b := by
  unfold valuesSize
  induction h with
  | slnil => simp
  | cons x _ ih => simp only [List.map_cons, List.sum_cons]; omega
  | cons_cons x _ ih => simp only [List.map_cons, List.sum_cons]; omega

theorem valuesSize_dedup_le (a : List Value) : valuesSize (dedup a) ≤ valuesSize a := by
  unfold dedup
  split
  · exact Nat.le_refl _
  · split
    · exact Nat.le_refl _
    · exact Nat.le_trans (valuesSize_sublist (collapse_sublist _)) (Nat.le_of_eq (valuesSize_perm (sortStable_perm a)))

theorem dedup_ne_nil {a : List Value} (h : a ≠ []) : dedup a ≠ [] := by
  unfold dedup
  split
  · exact h
  · split
    · exact h
    · apply collapse_ne_nil
      intro hs
      have := (sortStable_perm a).length_eq
      rw [hs] at this
      exact h (List.length_eq_zero_iff.mp this.symm)

theorem dedup_subset (a : List Value) : ∀ v ∈ dedup a, v ∈ a := by
  intro v hv
  unfold dedup at hv
  split at hv
  · exact hv
  · split at hv
    · exact hv
    · exact (sortStable_perm a).subset ((collapse_sublist _).subset hv)

/-! ### canon -/

theorem insertTime_spec (t : Int) (l : List Int) (h : l.Pairwise (· < ·)) :
    (insertTime t l).Pairwise (· < ·) ∧ ∀ x, x ∈ insertTime t l ↔ x = t ∨ x ∈ l := by
  induction l with
  | nil => simp [insertTime]
  | cons y ys ih =>
    have hp := List.pairwise_cons.mp h
    obtain ⟨ih1, ih2⟩ := ih hp.2
    simp only [insertTime]
    split
    · rename_i hlt
      refine ⟨List.pairwise_cons.mpr ⟨?_, h⟩, by simp⟩
      intro w hw
      rcases List.mem_cons.mp hw with rfl | hw
      · exact hlt
      · have := hp.1 w hw; omega
    · split
      · rename_i heq
        refine ⟨h, ?_⟩
        intro x; subst heq; simp
      · rename_i hnlt hne
        refine ⟨List.pairwise_cons.mpr ⟨?_, ih1⟩, ?_⟩
        · intro w hw
          rcases (ih2 w).mp hw with rfl | hw
          · omega
          · exact hp.1 w hw
        · intro x
          simp only [List.mem_cons, ih2]
          constructor
          · rintro (h | h | h) <;> simp [h]
          · rintro (h | h | h) <;> simp [h]

theorem times_spec (l : List Value) : (times l).Pairwise (· < ·) ∧ ∀ t, t ∈ times l ↔ ∃ v ∈ l, v.t = t := by
  induction l with
  | nil => simp [times]
  | cons v rest ih =>
    have := insertTime_spec v.t (times rest) ih.1
    refine ⟨this.1, ?_⟩
    intro t
    have e : times (v :: rest) = insertTime v.t (times rest) := rfl
    rw [e, this.2, ih.2]
    constructor
    · rintro (rfl | ⟨w, hw, rfl⟩)
      · exact ⟨v, by simp, rfl⟩
      · exact ⟨w, by simp [hw], rfl⟩
    · rintro ⟨w, hw, rfl⟩
      rcases List.mem_cons.mp hw with rfl | hw
      · exact Or.inl rfl
      · exact Or.inr ⟨w, hw, rfl⟩

/-- `filterMap` of a strictly ascending key list by a function that answers a value with that key -/
theorem filterMap_sorted (l : List Value) : ∀ (ts : List Int), ts.Pairwise (· < ·) →
    SortedLt (ts.filterMap (lastAt l)) ∧
    ∀ t, lastAt (ts.filterMap (lastAt l)) t = if t ∈ ts then lastAt l t else none := by
  intro ts
  induction ts with
  | nil => intro _; simp [SortedLt, lastAt_nil]
  | cons x xs ih =>
    intro h
    have hp := List.pairwise_cons.mp h
    obtain ⟨ih1, ih2⟩ := ih hp.2
    have hmem : ∀ w ∈ xs.filterMap (lastAt l), w.t ∈ xs := by
      intro w hw
      obtain ⟨t, ht, hl⟩ := List.mem_filterMap.mp hw
      rw [(lastAt_some_t hl).1]; exact ht
    cases hx : lastAt l x with
    | none =>
      simp only [List.filterMap_cons, hx]
      refine ⟨ih1, ?_⟩
      intro t
      rw [ih2 t]
      by_cases ht : t = x
      · subst ht
        have : t ∉ xs := by intro hm; have := hp.1 t hm; omega
        simp [this, hx]
      · simp [ht]
    | some v =>
      simp only [List.filterMap_cons, hx]
      have hvt := (lastAt_some_t hx).1
      refine ⟨List.pairwise_cons.mpr ⟨?_, ih1⟩, ?_⟩
      · intro w hw
        have := hp.1 w.t (hmem w hw)
        omega
      · intro t
        rw [lastAt_cons, ih2 t]
        by_cases ht : t = x
        · subst ht
          have : t ∉ xs := by intro hm; have := hp.1 t hm; omega
          simp [this, hvt, hx]
        · have hne : v.t ≠ t := by omega
          simp [ht, hne]

theorem canon_sorted (l : List Value) : SortedLt (canon l) :=
  (filterMap_sorted l (times l) (times_spec l).1).1

theorem lastAt_canon (l : List Value) (t : Int) : lastAt (canon l) t = lastAt l t := by
  have := (filterMap_sorted l (times l) (times_spec l).1).2 t
  unfold canon
  rw [this]
  split
  · rfl
  · rename_i hn
    symm
    rw [lastAt_none_iff]
    intro v hv hvt
    exact hn (((times_spec l).2 t).mpr ⟨v, hv, hvt⟩)

/-- **`Values.Deduplicate` is the newest-wins canonical form** -/
theorem dedup_eq_canon (a : List Value) : dedup a = canon a :=
  eq_of_lastAt_eq _ _ (dedup_sorted a) (canon_sorted a) (fun t => by rw [lastAt_dedup, lastAt_canon])

/-- the merged read: deduplicating the two deduplicated parts is the canonical form of the union -/
theorem dedup_union (s h : List Value) : dedup (dedup s ++ dedup h) = canon (s ++ h) :=
  eq_of_lastAt_eq _ _ (dedup_sorted _) (canon_sorted _) (fun t => by
    rw [lastAt_dedup, lastAt_append, lastAt_dedup, lastAt_dedup, lastAt_canon, lastAt_append])

theorem canon_of_sorted {l : List Value} (h : SortedLt l) : canon l = l :=
  eq_of_lastAt_eq _ _ (canon_sorted l) h (lastAt_canon l)

end Influx.Cache
