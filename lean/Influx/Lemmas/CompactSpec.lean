/-
  Lemmas.CompactSpec — from the iterator theorem (`RestOK`) to the executable
  clauses of the statement checker `Spec.C04.judge`; `Compactor.write` roll-over.
-/
import Influx.Lemmas.CompactRun
import Influx.Spec.C04

namespace Influx.Model.Compact
open Influx.Spec.C04

/-! ### `Compactor.write` / `writeNewFiles` -/

theorem writeOne_spec {V : Type} (lim : Limits) (bsz : OBlk V → Nat) :
    ∀ (seq cur : List (Key × OBlk V)) (nkey sz : Nat) (f rest : List (Key × OBlk V)) (roll : Bool),
      writeOne lim bsz seq cur nkey sz = (f, rest, roll) →
      f ++ rest = cur.reverse ++ seq ∧ (roll = true → rest.length < seq.length) ∧
      (roll = false → rest = [])
  | [], cur, nkey, sz, f, rest, roll, h => by
    simp only [writeOne, Prod.mk.injEq] at h
    obtain ⟨rfl, rfl, rfl⟩ := h
    simp
  | (k, b) :: seq, cur, nkey, sz, f, rest, roll, h => by
    unfold writeOne at h
    by_cases h1 : nextKeyCount cur k nkey ≥ lim.maxBlocks
    · rw [if_pos h1] at h
      simp only [Prod.mk.injEq] at h
      obtain ⟨rfl, rfl, rfl⟩ := h
      simp
    · rw [if_neg h1] at h
      cases hm : lim.maxSize with
      | none =>
        rw [hm] at h
        obtain ⟨r1, r2, r3⟩ := writeOne_spec lim bsz seq _ _ _ f rest roll h
        refine ⟨by rw [r1]; simp, fun hr => by have := r2 hr; simp; omega, r3⟩
      | some mx =>
        rw [hm] at h
        simp only at h
        by_cases h2 : sz + bsz b > mx
        · rw [if_pos h2] at h
          simp only [Prod.mk.injEq] at h
          obtain ⟨rfl, rfl, rfl⟩ := h
          simp
        · rw [if_neg h2] at h
          obtain ⟨r1, r2, r3⟩ := writeOne_spec lim bsz seq _ _ _ f rest roll h
          refine ⟨by rw [r1]; simp, fun hr => by have := r2 hr; simp; omega, r3⟩

/-- the files written hold the emitted sequence, in order, and none of them is empty -/
theorem splitFiles_spec {V : Type} (lim : Limits) (bsz : OBlk V → Nat) :
    ∀ (fuel : Nat) (seq : List (Key × OBlk V)), seq.length < fuel →
      (splitFiles lim bsz fuel seq).flatten = seq ∧ ∀ f ∈ splitFiles lim bsz fuel seq, f ≠ []
  | 0, _, h => by omega
  | fuel + 1, seq, h => by
    unfold splitFiles
    cases hw : writeOne lim bsz seq [] 0 0 with
    | mk f r =>
    obtain ⟨rest, roll⟩ := r
    obtain ⟨w1, w2, w3⟩ := writeOne_spec lim bsz seq [] 0 0 f rest roll hw
    simp only [List.reverse_nil, List.nil_append] at w1
    dsimp only
    cases roll with
    | true =>
      simp only [if_true]
      have hlt := w2 rfl
      obtain ⟨i1, i2⟩ := splitFiles_spec lim bsz fuel rest (by omega)
      refine ⟨by simp [i1, w1], ?_⟩
      intro x hx
      rcases List.mem_cons.mp hx with rfl | hx2
      · intro h0
        rw [h0] at w1
        simp only [List.nil_append] at w1
        rw [w1] at hlt; omega
      · exact i2 x hx2
    | false =>
      simp only [Bool.false_eq_true, if_false]
      have hr := w3 rfl
      rw [hr, List.append_nil] at w1
      by_cases he : f.isEmpty = true
      · rw [if_pos he]
        have : f = [] := List.isEmpty_iff.mp he
        rw [← w1, this]; simp
      · rw [if_neg he]
        refine ⟨by simp [w1], ?_⟩
        intro x hx
        simp only [List.mem_singleton] at hx
        subst hx
        intro h0; rw [h0] at he; simp at he

/-! ### list facts -/

theorem strictAscT_iff (l : Pts Int) : strictAscT l = true ↔ Asc l := by
  induction l with
  | nil => simp [strictAscT, asc_nil]
  | cons p l ih =>
    cases l with
    | nil => simp [strictAscT, Asc]
    | cons q rest =>
      simp only [strictAscT, Bool.and_eq_true, decide_eq_true_eq, ih]
      rw [asc_cons (p := p)]
      constructor
      · rintro ⟨h1, h2⟩
        refine ⟨?_, h2⟩
        intro x hx
        rcases List.mem_cons.mp hx with rfl | hx2
        · exact h1
        · have := (asc_cons.mp h2).1 x hx2; omega
      · rintro ⟨h1, h2⟩
        exact ⟨h1 q (by simp), h2⟩

/-- all values an ascending list holds at `t` -/
theorem filter_time_asc {l : Pts Int} (h : Asc l) (t : Int) :
    (l.filter (fun p => p.1 == t)).map (·.2) = (lookup l t).toList := by
  induction l with
  | nil => simp
  | cons p l ih =>
    have hc := asc_cons.mp h
    rw [lookup_cons]
    by_cases hp : p.1 = t
    · have hnone : l.filter (fun q => q.1 == t) = [] := by
        apply List.filter_eq_nil_iff.mpr
        intro q hq
        have := hc.1 q hq
        simp only [beq_iff_eq]; omega
      simp [List.filter_cons, hp, hnone]
    · have : (p.1 == t) = false := by simp [hp]
      simp [List.filter_cons, this, hp, ih hc.2]

theorem outAt_eq (files : List OutFile) (k : Key) (t : Int) :
    outAt files k t = ((outPts (seqOf k files.flatten)).filter (fun p => p.1 == t)).map (·.2) := by
  unfold outAt outBlocks
  generalize files.flatten = seq
  induction seq with
  | nil => rfl
  | cons e seq ih =>
    obtain ⟨k', b⟩ := e
    simp only [List.flatMap_cons, ih]
    by_cases hk : k' = k
    · subst hk
      simp [seqOf, List.filter_cons]
    · have : (k' == k) = false := by simp [hk]
      simp [seqOf, List.filter_cons, hk, this]

/-! ### the structural clauses -/

theorem keysSorted_of {seq : List (Key × OBlk Int)} (h : KeysSorted seq) : keysSorted seq = true := by
  induction seq with
  | nil => rfl
  | cons a seq ih =>
    cases seq with
    | nil => rfl
    | cons b rest =>
      have hp := List.pairwise_cons.mp h
      simp only [keysSorted, Bool.and_eq_true, Bool.not_eq_true']
      exact ⟨hp.1 b (by simp), ih hp.2⟩

theorem seqOf_cons_same (k : Key) (b : OBlk Int) (seq : List (Key × OBlk Int)) :
    seqOf k ((k, b) :: seq) = b :: seqOf k seq := by simp [seqOf]

theorem seqOf_cons_other {k k' : Key} (h : k' ≠ k) (b : OBlk Int) (seq : List (Key × OBlk Int)) :
    seqOf k ((k', b) :: seq) = seqOf k seq := by simp [seqOf, h]

theorem noOverlap_of : ∀ (seq : List (Key × OBlk Int)),
    (∀ k, Asc (outPts (seqOf k seq))) → (∀ e ∈ seq, OBlkOK e.2) → noOverlap seq = true
  | [], _, _ => rfl
  | [_], _, _ => rfl
  | a :: b :: rest, hasc, hok => by
    have htail : ∀ k, Asc (outPts (seqOf k (b :: rest))) := by
      intro k
      have := hasc k
      obtain ⟨ka, ba⟩ := a
      by_cases hk : ka = k
      · subst hk
        rw [seqOf_cons_same, outPts_cons] at this
        exact (asc_append.mp this).2.1
      · rw [seqOf_cons_other hk] at this; exact this
    have ih := noOverlap_of (b :: rest) htail (fun e he => hok e (List.mem_cons_of_mem _ he))
    simp only [noOverlap, Bool.and_eq_true, Bool.or_eq_true, bne_iff_ne, ne_eq, decide_eq_true_eq]
    refine ⟨?_, ih⟩
    by_cases hk : a.1 = b.1
    · right
      obtain ⟨ka, ba⟩ := a
      obtain ⟨kb, bb⟩ := b
      simp only at hk
      subst hk
      have := hasc ka
      rw [seqOf_cons_same, seqOf_cons_same, outPts_cons, outPts_cons] at this
      obtain ⟨_, za, _, hza, _, hmax⟩ := hok (ka, ba) (by simp)
      obtain ⟨ab, _, hab, _, hmin, _⟩ := hok (ka, bb) (by simp)
      have h1 := (asc_append.mp this).2.2 za (List.mem_of_getLast? hza) ab
        (List.mem_append_left _ (List.mem_of_head? hab))
      simp only at hmax hmin ⊢
      omega
    · left; exact hk

theorem blockOK_of {o : OBlk Int} (h : OBlkOK o) (hasc : Asc o.pts) : blockOK o = true := by
  obtain ⟨a, z, ha, hz, hmin, hmax⟩ := h
  simp [blockOK, ha, hz, hmin, hmax, (strictAscT_iff o.pts).mpr hasc]

theorem mem_seqOf {k : Key} {b : OBlk Int} {seq : List (Key × OBlk Int)} (h : (k, b) ∈ seq) :
    b ∈ seqOf k seq := by
  simp only [seqOf, List.mem_map, List.mem_filter, decide_eq_true_eq]
  exact ⟨(k, b), ⟨h, rfl⟩, rfl⟩

theorem asc_of_mem_outPts {outs : List (OBlk Int)} (h : Asc (outPts outs)) {o : OBlk Int} (ho : o ∈ outs) :
    Asc o.pts := by
  induction outs with
  | nil => simp at ho
  | cons x xs ih =>
    rw [outPts_cons] at h
    have := asc_append.mp h
    rcases List.mem_cons.mp ho with rfl | ho2
    · exact this.1
    · exact ih this.2.1 ho2


/-! ### the verdict -/

/-- if the written sequence has sorted keys and, per key, the expected content in blocks
    of at most `size` values, the statement checker accepts the files -/
theorem judge_none (ops : List Op) (cache : Bool) (size : Nat) (files : List OutFile)
    (hne : ∀ f ∈ files, f ≠ [])
    (hS : KeysSorted files.flatten) (orig : Key → List (Block Int)) (tgt : Key → Int → Option Int)
    (hK : ∀ k, KeyTail size (orig k) (tgt k) [] (seqOf k files.flatten))
    (hE : ∀ k t, tgt k t = (if cache then cacheAt ops else expectedAt ops) k t)
    (hSz : ∀ k, ∀ b0 ∈ orig k, b0.pts.length ≤ size) :
    judge ops cache size files = none := by
  have hasc : ∀ k, Asc (outPts (seqOf k files.flatten)) := fun k => by simpa using (hK k).asc
  have hfact : ∀ e ∈ files.flatten, BlockFact size (orig e.1) e.2 := by
    intro e he
    exact (hK e.1).blocks e.2 (mem_seqOf (by cases e; exact he))
  have hok : ∀ e ∈ files.flatten, OBlkOK e.2 := fun e he => (hfact e he).1
  have hascb : ∀ e ∈ files.flatten, Asc e.2.pts := by
    intro e he
    exact asc_of_mem_outPts (hasc e.1) (mem_seqOf (by cases e; exact he))
  unfold judge
  simp only [outBlocks]
  have c1 : (files.flatten.all fun x => blockOK x.2) = true := by
    rw [List.all_eq_true]
    intro e he
    exact blockOK_of (hok e he) (hascb e he)
  have c1' : (files.flatten.all fun (x : Key × OBlk Int) => match x with | (_, b) => blockOK b) = true := by
    rw [List.all_eq_true]
    intro e he
    obtain ⟨k, b⟩ := e
    exact blockOK_of (hok _ he) (hascb _ he)
  have c2 : (files.any fun f => f.isEmpty) = false := by
    rw [List.any_eq_false]
    intro f hf
    have := hne f hf
    cases f with
    | nil => exact absurd rfl this
    | cons a as => simp
  have c3 := keysSorted_of hS
  have c4 := noOverlap_of files.flatten hasc hok
  have c5 : ∀ dom, contentOK (if cache = true then cacheAt ops else expectedAt ops) files dom = true := by
    intro dom
    unfold contentOK
    rw [List.all_eq_true]
    rintro ⟨k, t⟩ _
    simp only [beq_iff_eq]
    rw [outAt_eq, filter_time_asc (hasc k)]
    have := (hK k).content t
    simp only [List.nil_append] at this
    rw [← this, hE k t]
  have c6 : sizeCheck ops size files = SizeVerdict.ok := by
    unfold sizeCheck
    simp only [outBlocks]
    have : (files.flatten.filter fun (x : Key × OBlk Int) => match x with | (_, b) => decide (b.pts.length > size)) = [] := by
      apply List.filter_eq_nil_iff.mpr
      intro e he
      obtain ⟨k, b⟩ := e
      simp only [decide_eq_true_eq, Nat.not_lt]
      rcases (hfact _ he).2 with h1 | ⟨b0, hb0, rfl⟩
      · exact h1.2
      · exact hSz k b0 hb0
    simp [this]
  simp only [c1', c2, c3, c4, c5, c6, Bool.not_true, Bool.false_eq_true, if_false]

end Influx.Model.Compact
