/-
  Lemmas.StoreDelHolds — the store model refines the abstract content of Spec.C17 (cases
  without snapshots): the statement checker accepts the model's trace.
-/
import Influx.Lemmas.StoreDelC17
import Influx.Lemmas.StoreDelC42
import Influx.Spec.C17

namespace Influx.Spec.C17
open Influx.Model.DelPred (Bytes Pred)
open Influx.Model.StoreDel (Tags)

/-- one entry per (shard, series) -/
def AbsUniq (a : Abs) : Prop := (a.map fun e => (e.shard, keyOf e)).Nodup

theorem cutEntry_key (lo hi : Int) (pred : Option Pred) (e : Entry) :
    (cutEntry lo hi pred e).shard = e.shard ∧ keyOf (cutEntry lo hi pred e) = keyOf e := by
  unfold cutEntry
  split <;> exact ⟨rfl, rfl⟩

theorem absUniq_delete (a : Abs) (h : AbsUniq a) (lo hi : Int) (pred : Option Pred) : AbsUniq (a.delete lo hi pred) := by
  unfold Abs.delete AbsUniq
  have : (a.map (cutEntry lo hi pred)).map (fun e => (e.shard, keyOf e)) = a.map fun e => (e.shard, keyOf e) := by
    rw [List.map_map]
    apply List.map_congr_left
    intro e _
    simp only [Function.comp, (cutEntry_key lo hi pred e).1, (cutEntry_key lo hi pred e).2]
  rw [this]; exact h

theorem find_map_same {α : Type} (l : List α) (f : α → α) (p : α → Bool) (hp : ∀ x, p (f x) = p x) :
    (l.map f).find? p = (l.find? p).map f := by
  induction l with
  | nil => rfl
  | cons x xs ih =>
    simp only [List.map_cons, List.find?_cons, hp x]
    cases p x <;> simp [ih]

theorem absPts_delete (a : Abs) (lo hi : Int) (pred : Option Pred) (sh : Nat) (k : Bytes × Tags) :
    absPts (a.delete lo hi pred) sh k =
      if predTrue pred k.1 k.2 then outside lo hi (absPts a sh k) else absPts a sh k := by
  have hfind : (a.delete lo hi pred).find? (fun e => decide (e.shard = sh ∧ keyOf e = k)) =
      (a.find? (fun e => decide (e.shard = sh ∧ keyOf e = k))).map (cutEntry lo hi pred) := by
    unfold Abs.delete
    apply find_map_same
    intro e
    simp only [(cutEntry_key lo hi pred e).1, (cutEntry_key lo hi pred e).2]
  unfold absPts
  rw [hfind]
  cases hf : a.find? (fun e => decide (e.shard = sh ∧ keyOf e = k)) with
  | none => simp [outside]
  | some e =>
    have hk2 : keyOf e = k := by
      have := List.find?_some hf; simp at this; exact this.2
    simp only [Option.map_some]
    have h1 : k.1 = e.name := by rw [← hk2]; rfl
    have h2 : k.2 = e.tags := by rw [← hk2]; rfl
    rw [h1, h2]
    unfold cutEntry
    by_cases hp : predTrue pred e.name e.tags = true
    · simp [hp]
    · simp [hp]

theorem absUniq_write (a : Abs) (h : AbsUniq a) (sh : Nat) (name : Bytes) (tags : Tags) (pts : List (Int × Int)) :
    AbsUniq (a.write sh name tags pts) := by
  unfold Abs.write AbsUniq
  split
  · have : (a.map fun e => if e.shard = sh ∧ e.name = name ∧ e.tags = tags then { e with pts := pts.foldl setPt e.pts } else e).map
        (fun e => (e.shard, keyOf e)) = a.map fun e => (e.shard, keyOf e) := by
      rw [List.map_map]
      apply List.map_congr_left
      intro e _
      simp only [Function.comp]
      split <;> rfl
    rw [this]; exact h
  · next hno =>
    simp only [List.map_append, List.map_cons, List.map_nil]
    rw [List.nodup_append]
    refine ⟨h, by simp, ?_⟩
    intro x hx y hy
    simp only [List.mem_singleton] at hy
    subst hy
    intro hxy
    subst hxy
    obtain ⟨e, he, hk⟩ := List.mem_map.1 hx
    apply hno
    simp only [List.any_eq_true, decide_eq_true_eq]
    simp only [keyOf, Prod.mk.injEq] at hk
    exact ⟨e, he, hk.1, hk.2.1, hk.2.2⟩

theorem absPts_write (a : Abs) (sh : Nat) (name : Bytes) (tags : Tags) (pts : List (Int × Int))
    (sh' : Nat) (k : Bytes × Tags) :
    absPts (a.write sh name tags pts) sh' k =
      if sh' = sh ∧ k = (name, tags) then pts.foldl setPt (absPts a sh k) else absPts a sh' k := by
  by_cases hany : (a.any fun e => decide (e.shard = sh ∧ e.name = name ∧ e.tags = tags)) = true
  · have hw : a.write sh name tags pts = a.map fun e =>
        if e.shard = sh ∧ e.name = name ∧ e.tags = tags then { e with pts := pts.foldl setPt e.pts } else e := by
      unfold Abs.write; rw [if_pos hany]
    have hfind : (a.write sh name tags pts).find? (fun e => decide (e.shard = sh' ∧ keyOf e = k)) =
        (a.find? (fun e => decide (e.shard = sh' ∧ keyOf e = k))).map fun e =>
          if e.shard = sh ∧ e.name = name ∧ e.tags = tags then { e with pts := pts.foldl setPt e.pts } else e := by
      rw [hw]
      apply find_map_same
      intro e
      split <;> rfl
    unfold absPts
    rw [hfind]
    cases hf : a.find? (fun e => decide (e.shard = sh' ∧ keyOf e = k)) with
    | none =>
      simp only [Option.map_none]
      by_cases hc : sh' = sh ∧ k = (name, tags)
      · exfalso
        obtain ⟨rfl, rfl⟩ := hc
        simp only [List.any_eq_true, decide_eq_true_eq] at hany
        obtain ⟨e, he, h1, h2, h3⟩ := hany
        have := List.find?_eq_none.1 hf e he
        simp [keyOf, h1, h2, h3] at this
      · rw [if_neg hc]
    | some e =>
      have hk : e.shard = sh' ∧ keyOf e = k := by
        have := List.find?_some hf; simpa using this
      simp only [Option.map_some]
      by_cases hc : sh' = sh ∧ k = (name, tags)
      · obtain ⟨rfl, rfl⟩ := hc
        have hk2 : e.name = name ∧ e.tags = tags := by
          have := hk.2; simp only [keyOf, Prod.mk.injEq] at this; exact this
        simp only [hk.1, hk2.1, hk2.2, and_self, if_true, hf]
      · rw [if_neg hc]
        have : ¬ (e.shard = sh ∧ e.name = name ∧ e.tags = tags) := by
          intro h
          apply hc
          refine ⟨hk.1 ▸ h.1, ?_⟩
          rw [← hk.2]; simp [keyOf, h.2.1, h.2.2]
        simp [this]
  · have hw : a.write sh name tags pts = a ++ [⟨sh, name, tags, pts.foldl setPt []⟩] := by
      unfold Abs.write; rw [if_neg hany]
    have hno : ∀ e ∈ a, ¬ (e.shard = sh ∧ e.name = name ∧ e.tags = tags) := by
      intro e he hc
      apply hany
      simp only [List.any_eq_true, decide_eq_true_eq]
      exact ⟨e, he, hc⟩
    unfold absPts
    rw [hw, List.find?_append]
    cases hf : a.find? (fun e => decide (e.shard = sh' ∧ keyOf e = k)) with
    | some e =>
      simp only [Option.some_or]
      have hk : e.shard = sh' ∧ keyOf e = k := by
        have := List.find?_some hf; simpa using this
      have he := List.mem_of_find?_eq_some hf
      have : ¬ (sh' = sh ∧ k = (name, tags)) := by
        rintro ⟨rfl, rfl⟩
        have := hk.2; simp only [keyOf, Prod.mk.injEq] at this
        exact hno e he ⟨hk.1, this.1, this.2⟩
      rw [if_neg this]
    | none =>
      simp only [Option.none_or, List.find?_cons, List.find?_nil]
      by_cases hc : sh' = sh ∧ k = (name, tags)
      · obtain ⟨rfl, rfl⟩ := hc
        rw [if_pos ⟨rfl, rfl⟩, hf]
        simp [keyOf]
      · rw [if_neg hc]
        have : decide (sh = sh' ∧ keyOf (⟨sh, name, tags, pts.foldl setPt []⟩ : Entry) = k) = false := by
          simp only [keyOf]
          apply decide_eq_false
          rintro ⟨rfl, rfl⟩
          exact hc ⟨rfl, rfl⟩
        simp [this]

end Influx.Spec.C17

namespace Influx.Model.StoreDel
open Influx.Model.DelPred (Bytes Pred)
open Influx.Spec.C17 (Abs Entry absPts liveKeys keyOf setPt predTrue outside AbsUniq)

/-! ### model side -/

theorem mem_insertPt_iff {p x : Int × Int} {l : List (Int × Int)} (h : Asc l) :
    x ∈ insertPt p l ↔ x = p ∨ (x ∈ l ∧ x.1 ≠ p.1) := by
  induction l with
  | nil => simp [insertPt]
  | cons q qs ih =>
    have hq : ∀ y ∈ qs, q.1 < y.1 := (List.pairwise_cons.1 h).1
    have hqs : Asc qs := (List.pairwise_cons.1 h).2
    simp only [insertPt]
    split
    · next hlt =>
      simp only [List.mem_cons]
      constructor
      · rintro (h1 | h1 | h1)
        · exact Or.inl h1
        · subst h1; exact Or.inr ⟨Or.inl rfl, by omega⟩
        · have := hq x h1; exact Or.inr ⟨Or.inr h1, by omega⟩
      · rintro (h1 | ⟨h1 | h1, _⟩)
        · exact Or.inl h1
        · exact Or.inr (Or.inl h1)
        · exact Or.inr (Or.inr h1)
    · split
      · next hge heq =>
        simp only [List.mem_cons]
        constructor
        · rintro (h1 | h1)
          · exact Or.inl h1
          · have := hq x h1; exact Or.inr ⟨Or.inr h1, by omega⟩
        · rintro (h1 | ⟨h1 | h1, hne⟩)
          · exact Or.inl h1
          · subst h1; exact absurd heq.symm hne
          · exact Or.inr h1
      · next hge hne =>
        simp only [List.mem_cons, ih hqs]
        constructor
        · rintro (h1 | h1 | ⟨h1, h2⟩)
          · subst h1; exact Or.inr ⟨Or.inl rfl, fun e => hne e.symm⟩
          · exact Or.inl h1
          · exact Or.inr ⟨Or.inr h1, h2⟩
        · rintro (h1 | ⟨h1 | h1, h2⟩)
          · exact Or.inr (Or.inl h1)
          · exact Or.inl h1
          · exact Or.inr (Or.inr ⟨h1, h2⟩)

theorem mem_setPt_iff {p x : Int × Int} {l : List (Int × Int)} :
    x ∈ setPt l p ↔ x = p ∨ (x ∈ l ∧ x.1 ≠ p.1) := by
  simp only [setPt, List.mem_append, List.mem_filter, List.mem_singleton, ne_eq, decide_eq_true_eq]
  constructor
  · rintro (h | h)
    · exact Or.inr h
    · exact Or.inl h
  · rintro (h | h)
    · exact Or.inr h
    · exact Or.inl h

/-- same points -/
def SameMem (a b : List (Int × Int)) : Prop := ∀ x, x ∈ a ↔ x ∈ b

theorem sameMem_write (a b new : List (Int × Int)) (ha : Asc a) (h : SameMem a b) :
    SameMem (addPts a new) (new.foldl setPt b) := by
  unfold addPts
  induction new generalizing a b with
  | nil => exact h
  | cons p ps ih =>
    simp only [List.foldl_cons]
    apply ih _ _ (asc_insertPt p a ha)
    intro x
    rw [mem_insertPt_iff ha, mem_setPt_iff, h x]

theorem sameMem_cut (lo hi : Int) (a b : List (Int × Int)) (h : SameMem a b) :
    SameMem (cutPts lo hi a) (outside lo hi b) := by
  intro x
  simp only [cutPts, outside, List.mem_filter, h x]

/-- all values of the shard are still in the cache (no snapshot happened) -/
def ShardCacheOnly (sh : Shard) : Prop := ∀ s ∈ sh.series, CacheOnly s

theorem pts_cacheOnly (s : Series) (hwf : s.WF) (hc : CacheOnly s) : s.pts = s.cache := by
  unfold CacheOnly at hc
  rw [pts_def, hc]
  exact addPts_nil_asc s.cache hwf.2

theorem findSeries_mem {sh : Shard} {name : Bytes} {tags : Tags} {s : Series}
    (h : findSeries sh name tags = some s) : s ∈ sh.series ∧ s.name = name ∧ s.tags = tags := by
  unfold findSeries at h
  refine ⟨List.mem_of_find?_eq_some h, ?_⟩
  have := List.find?_some h
  simpa [sameKey] using this

theorem find_of_mem_uniq (l : List Series) (hu : (l.map fun s => (s.name, s.tags)).Nodup) {s : Series} (hs : s ∈ l) :
    l.find? (sameKey s.name s.tags) = some s := by
  induction l with
  | nil => cases hs
  | cons x xs ih =>
    have hx := (List.nodup_cons.1 hu).1
    simp only [List.find?_cons]
    rcases List.mem_cons.1 hs with rfl | hs'
    · simp [sameKey]
    · have : sameKey s.name s.tags x = false := by
        simp only [sameKey, decide_eq_false_iff_not]
        intro hc
        apply hx
        exact List.mem_map.2 ⟨s, hs', by simp only; rw [hc.1, hc.2]⟩
      simp only [this]
      exact ih (List.nodup_cons.1 hu).2 hs'

theorem findSeries_of_mem {sh : Shard} (hwf : ShardWF sh) {s : Series} (hs : s ∈ sh.series) :
    findSeries sh s.name s.tags = some s := find_of_mem_uniq sh.series hwf.uniq hs

theorem readPts_of_mem {sh : Shard} (hwf : ShardWF sh) {s : Series} (hs : s ∈ sh.series) :
    readPts sh s.name s.tags = s.pts := by
  unfold readPts
  rw [findSeries_of_mem hwf hs]

theorem readPts_asc (sh : Shard) (hwf : ShardWF sh) (name : Bytes) (tags : Tags) : Asc (readPts sh name tags) := by
  unfold readPts
  cases hf : findSeries sh name tags with
  | none => simp [Asc]
  | some s =>
    obtain ⟨hs, _, _⟩ := findSeries_mem hf
    obtain ⟨hswf, _⟩ := hwf.wf s hs
    simp only
    rw [pts_def]
    exact asc_addPts _ _ (asc_mergeFrom [] s.files (by simp [Asc]))

/-- a write changes what the written series reads (last write wins) and nothing else -/
theorem readPts_write (sh : Shard) (hwf : ShardWF sh) (hc : ShardCacheOnly sh) (name : Bytes) (tags : Tags)
    (pts : List (Int × Int)) (n2 : Bytes) (t2 : Tags) :
    readPts (sh.write name tags pts) n2 t2 =
      if n2 = name ∧ t2 = tags then addPts (readPts sh name tags) pts else readPts sh n2 t2 := by
  unfold Shard.write
  by_cases hany : (sh.series.any fun s => decide (s.name = name ∧ s.tags = tags)) = true
  · rw [if_pos hany]
    unfold readPts findSeries
    simp only
    have hfm : (sh.series.map fun s => if s.name = name ∧ s.tags = tags then { s with cache := addPts s.cache pts } else s).find?
        (sameKey n2 t2) = (sh.series.find? (sameKey n2 t2)).map
          fun s => if s.name = name ∧ s.tags = tags then { s with cache := addPts s.cache pts } else s := by
      apply Influx.Spec.C17.find_map_same
      intro s
      split <;> rfl
    rw [hfm]
    cases hf : sh.series.find? (sameKey n2 t2) with
    | none =>
      simp only [Option.map_none]
      by_cases hk : n2 = name ∧ t2 = tags
      · exfalso
        obtain ⟨rfl, rfl⟩ := hk
        simp only [List.any_eq_true, decide_eq_true_eq] at hany
        obtain ⟨s, hs, h1, h2⟩ := hany
        have := List.find?_eq_none.1 hf s hs
        simp [sameKey, h1, h2] at this
      · rw [if_neg hk]
    | some s =>
      have hs : s ∈ sh.series := List.mem_of_find?_eq_some hf
      have hk2 : s.name = n2 ∧ s.tags = t2 := by
        have := List.find?_some hf; simpa [sameKey] using this
      obtain ⟨hswf, _⟩ := hwf.wf s hs
      simp only [Option.map_some]
      by_cases hk : n2 = name ∧ t2 = tags
      · obtain ⟨rfl, rfl⟩ := hk
        have hf' : sh.series.find? (sameKey n2 t2) = some s := hf
        simp only [hk2.1, hk2.2, and_self, if_true, hf']
        have hwf' : (⟨n2, t2, s.files, addPts s.cache pts⟩ : Series).WF := ⟨hswf.1, asc_addPts _ _ hswf.2⟩
        rw [pts_cacheOnly _ hwf' (hc s hs), pts_cacheOnly s hswf (hc s hs)]
      · rw [if_neg hk]
        have : ¬ (s.name = name ∧ s.tags = tags) := by
          intro h; apply hk; rw [← hk2.1, ← hk2.2]; exact h
        simp [this]
  · rw [if_neg hany]
    have hno : ∀ s ∈ sh.series, ¬ (s.name = name ∧ s.tags = tags) := by
      intro s hs hcn
      apply hany
      simp only [List.any_eq_true, decide_eq_true_eq]
      exact ⟨s, hs, hcn⟩
    unfold readPts findSeries
    simp only [List.find?_append]
    cases hf : sh.series.find? (sameKey n2 t2) with
    | some s =>
      have hs : s ∈ sh.series := List.mem_of_find?_eq_some hf
      have hk2 : s.name = n2 ∧ s.tags = t2 := by
        have := List.find?_some hf; simpa [sameKey] using this
      have : ¬ (n2 = name ∧ t2 = tags) := by
        rintro ⟨rfl, rfl⟩; exact hno s hs hk2
      simp [this]
    | none =>
      simp only [Option.none_or, List.find?_cons, List.find?_nil]
      by_cases hk : n2 = name ∧ t2 = tags
      · obtain ⟨rfl, rfl⟩ := hk
        have hf' : sh.series.find? (sameKey n2 t2) = none := hf
        simp only [sameKey, and_self, decide_true, if_true, hf']
        have hwf' : (⟨n2, t2, [], addPts [] pts⟩ : Series).WF := ⟨by simp, asc_addPts [] pts (by simp [Asc])⟩
        rw [pts_cacheOnly _ hwf' rfl]
      · rw [if_neg hk]
        have : sameKey n2 t2 (⟨name, tags, [], addPts [] pts⟩ : Series) = false := by
          simp only [sameKey, decide_eq_false_iff_not]
          rintro ⟨rfl, rfl⟩; exact hk ⟨rfl, rfl⟩
        simp [this]

theorem cacheOnly_write (sh : Shard) (hc : ShardCacheOnly sh) (name : Bytes) (tags : Tags) (pts : List (Int × Int)) :
    ShardCacheOnly (sh.write name tags pts) := by
  unfold Shard.write
  split
  · intro s' hs'
    simp only [List.mem_map] at hs'
    obtain ⟨s, hs, rfl⟩ := hs'
    split
    · exact hc s hs
    · exact hc s hs
  · intro s' hs'
    simp only [List.mem_append, List.mem_singleton] at hs'
    rcases hs' with hs' | rfl
    · exact hc s' hs'
    · rfl

theorem cacheOnly_delete (sh : Shard) (hc : ShardCacheOnly sh) (lo hi : Int) (pred : Option Pred) (mname : Option Bytes) :
    ShardCacheOnly (sh.delete lo hi pred mname) := by
  intro s' hs'
  simp only [Shard.delete, List.mem_filterMap] at hs'
  obtain ⟨s, hs, hd⟩ := hs'
  unfold delSeries at hd
  split at hd
  · split at hd
    · have hcs := hc s hs
      cases hd
      simp only [CacheOnly, Series.cut] at hcs ⊢
      rw [hcs]; rfl
    · cases hd
  · have hcs := hc s hs
    cases hd; exact hcs

/-! ### the refinement relation -/

open Influx.Spec.C16 (evalPred PredWF SeriesWF) in
/-- the series lies in the C16 domain -/
def DomOK (s : Series) : Prop := SeriesWF s.name s.tags = true ∧ DelPred.KeyOK s.name s.tags = true

structure Rel (st : State) (a : Abs) : Prop where
  ids : (st.map (·.id)).Nodup
  shards : ∀ sh ∈ st, ShardWF sh ∧ ShardCacheOnly sh ∧ ∀ s ∈ sh.series, DomOK s
  pts : ∀ sh ∈ st, ∀ k : Bytes × Tags, SameMem (readPts sh k.1 k.2) (absPts a sh.id k)
  uniq : AbsUniq a
  cover : ∀ e ∈ a, ∃ sh ∈ st, sh.id = e.shard

theorem shard_write_id (sh : Shard) (name : Bytes) (tags : Tags) (pts : List (Int × Int)) :
    (sh.write name tags pts).id = sh.id := by
  unfold Shard.write; split <;> rfl

theorem shard_write_series_dom (sh : Shard) (name : Bytes) (tags : Tags) (pts : List (Int × Int))
    (hd : ∀ s ∈ sh.series, DomOK s) (hnew : DomOK ⟨name, tags, [], []⟩) :
    ∀ s ∈ (sh.write name tags pts).series, DomOK s := by
  unfold Shard.write
  split
  · intro s' hs'
    simp only [List.mem_map] at hs'
    obtain ⟨s, hs, rfl⟩ := hs'
    split
    · exact hd s hs
    · exact hd s hs
  · intro s' hs'
    simp only [List.mem_append, List.mem_singleton] at hs'
    rcases hs' with hs' | rfl
    · exact hd s' hs'
    · exact hnew

theorem rel_write (st : State) (a : Abs) (h : Rel st a) (sh : Nat) (name : Bytes) (tags : Tags)
    (pts : List (Int × Int)) (hex : st.any (·.id = sh) = true) (hp : pts ≠ [])
    (hdom : DomOK ⟨name, tags, [], []⟩) :
    Rel (write st sh name tags pts) (a.write sh name tags pts) := by
  have hmapid : (write st sh name tags pts).map (·.id) = st.map (·.id) := by
    unfold write
    rw [List.map_map]
    apply List.map_congr_left
    intro sh0 _
    simp only [Function.comp]
    split
    · exact shard_write_id sh0 name tags pts
    · rfl
  constructor
  · rw [hmapid]; exact h.ids
  · intro sh' hsh'
    simp only [write, List.mem_map] at hsh'
    obtain ⟨sh0, hsh0, rfl⟩ := hsh'
    obtain ⟨hwf, hc, hd⟩ := h.shards sh0 hsh0
    split
    · exact ⟨shardWF_write sh0 hwf name tags pts hp, cacheOnly_write sh0 hc name tags pts,
        shard_write_series_dom sh0 name tags pts hd hdom⟩
    · exact ⟨hwf, hc, hd⟩
  · intro sh' hsh' k
    simp only [write, List.mem_map] at hsh'
    obtain ⟨sh0, hsh0, rfl⟩ := hsh'
    obtain ⟨hwf, hc, _⟩ := h.shards sh0 hsh0
    by_cases hid : sh0.id = sh
    · simp only [hid, if_true]
      rw [shard_write_id, readPts_write sh0 hwf hc, Influx.Spec.C17.absPts_write, hid]
      by_cases hk : k.1 = name ∧ k.2 = tags
      · have hk' : k = (name, tags) := by
          obtain ⟨k1, k2⟩ := k; simp only at hk; simp [hk.1, hk.2]
        simp only [hk, and_self, if_true, hk', true_and]
        have := h.pts sh0 hsh0 (name, tags)
        rw [hid] at this
        exact sameMem_write _ _ pts (readPts_asc sh0 hwf name tags) this
      · have hk' : ¬ (sh = sh ∧ k = (name, tags)) := by
          rintro ⟨_, rfl⟩; exact hk ⟨rfl, rfl⟩
        rw [if_neg hk, if_neg hk']
        have := h.pts sh0 hsh0 k
        rw [hid] at this
        exact this
    · simp only [hid, if_false]
      rw [Influx.Spec.C17.absPts_write]
      have : ¬ (sh0.id = sh ∧ k = (name, tags)) := fun hc' => hid hc'.1
      simp only [this, if_false]
      exact h.pts sh0 hsh0 k
  · exact Influx.Spec.C17.absUniq_write a h.uniq sh name tags pts
  · intro e he
    have hexs : ∃ sh0 ∈ st, sh0.id = sh := by
      simp only [List.any_eq_true, decide_eq_true_eq] at hex
      exact hex
    have hback : ∀ i, (∃ sh0 ∈ st, sh0.id = i) → ∃ sh' ∈ write st sh name tags pts, sh'.id = i := by
      rintro i ⟨sh0, hsh0, hi⟩
      refine ⟨if sh0.id = sh then sh0.write name tags pts else sh0, ?_, ?_⟩
      · simp only [write, List.mem_map]; exact ⟨sh0, hsh0, rfl⟩
      · split
        · rw [shard_write_id]; exact hi
        · exact hi
    unfold Abs.write at he
    split at he
    · simp only [List.mem_map] at he
      obtain ⟨e0, he0, rfl⟩ := he
      have := h.cover e0 he0
      split <;> exact hback _ this
    · simp only [List.mem_append, List.mem_singleton] at he
      rcases he with he | rfl
      · exact hback _ (h.cover e he)
      · exact hback _ hexs

theorem shard_delete_id (sh : Shard) (lo hi : Int) (pred : Option Pred) (mname : Option Bytes) :
    (sh.delete lo hi pred mname).id = sh.id := rfl

open Influx.Spec.C16 (evalPred PredWF) in
theorem selOf_predTrue (sh : Shard) (pred : Option Pred) (hm : Bool) (s : Series) (hs : s ∈ sh.series)
    (hd : DomOK s) (hp : ∀ p, pred = some p → PredWF p = true) :
    selOf sh pred (if hm then pred.bind measNameOf else none) s.name s.tags = predTrue pred s.name s.tags := by
  cases pred with
  | none =>
    have : (visited sh none).contains s.name = true := by simpa [visited] using mem_measurements hs
    cases hm <;> simp only [selOf, predSelects, predTrue, this, Bool.and_self, Option.bind_none, if_true,
      Bool.false_eq_true, if_false]
  | some p =>
    have hsel := predSelects_eq p s.name s.tags (hp p rfl) hd.1 hd.2
    simp only [predTrue]
    cases hm with
    | true => simpa using selOf_handler sh p s hs hsel
    | false =>
      have : (visited sh none).contains s.name = true := by simpa [visited] using mem_measurements hs
      simp only [Bool.false_eq_true, if_false, selOf, this, Bool.true_and]
      exact hsel

theorem rel_delete (st : State) (a : Abs) (h : Rel st a) (lo hi : Int) (hlh : lo ≤ hi) (pred : Option Pred)
    (hm : Bool) (hp : ∀ p, pred = some p → Influx.Spec.C16.PredWF p = true) :
    Rel (delete st lo hi pred hm) (a.delete lo hi pred) := by
  constructor
  · have : (delete st lo hi pred hm).map (·.id) = st.map (·.id) := by
      unfold delete
      rw [List.map_map]
      apply List.map_congr_left
      intro sh0 _
      rfl
    rw [this]; exact h.ids
  · intro sh' hsh'
    simp only [delete, List.mem_map] at hsh'
    obtain ⟨sh0, hsh0, rfl⟩ := hsh'
    obtain ⟨hwf, hc, hd⟩ := h.shards sh0 hsh0
    refine ⟨shardWF_delete sh0 hwf lo hi hlh pred _, cacheOnly_delete sh0 hc lo hi pred _, ?_⟩
    intro s' hs'
    simp only [Shard.delete, List.mem_filterMap] at hs'
    obtain ⟨s, hs, hds⟩ := hs'
    obtain ⟨hn, ht⟩ := delSeries_name hds
    have := hd s hs
    unfold DomOK at this ⊢
    rw [hn, ht]; exact this
  · intro sh' hsh' k
    simp only [delete, List.mem_map] at hsh'
    obtain ⟨sh0, hsh0, rfl⟩ := hsh'
    obtain ⟨hwf, hc, hd⟩ := h.shards sh0 hsh0
    rw [shard_delete_id, readPts_delete sh0 hwf lo hi hlh, Influx.Spec.C17.absPts_delete]
    have hR := h.pts sh0 hsh0 k
    cases hf : findSeries sh0 k.1 k.2 with
    | none =>
      have hempty : readPts sh0 k.1 k.2 = [] := by unfold readPts; rw [hf]
      rw [hempty] at hR ⊢
      have hno : ∀ x, x ∉ absPts a sh0.id k := fun x hx => by
        have := (hR x).2 hx; cases this
      intro x
      constructor
      · intro hx; split at hx <;> simp [cutPts] at hx
      · intro hx
        exfalso
        split at hx
        · exact hno x (List.mem_filter.1 hx).1
        · exact hno x hx
    | some s =>
      obtain ⟨hs, hn, ht⟩ := findSeries_mem hf
      have hsel := selOf_predTrue sh0 pred hm s hs (hd s hs) hp
      rw [hn, ht] at hsel
      rw [hsel]
      by_cases hpt : predTrue pred k.1 k.2 = true
      · simp only [hpt, if_true]
        exact sameMem_cut lo hi _ _ hR
      · simp only [hpt, Bool.false_eq_true, if_false]
        exact hR
  · exact Influx.Spec.C17.absUniq_delete a h.uniq lo hi pred
  · intro e he
    simp only [Abs.delete, List.mem_map] at he
    obtain ⟨e0, he0, rfl⟩ := he
    obtain ⟨sh0, hsh0, hid⟩ := h.cover e0 he0
    refine ⟨sh0.delete lo hi pred (if hm then pred.bind measNameOf else none), ?_, ?_⟩
    · simp only [delete, List.mem_map]; exact ⟨sh0, hsh0, rfl⟩
    · rw [shard_delete_id, (Influx.Spec.C17.cutEntry_key lo hi pred e0).1]; exact hid

/-! ### the model's typed answers -/

open Influx.Spec.C17 (Ans Verd judgeObs judgeCase holdsOn sameSet ascTimes)

/-- what a `read` prints: the series with a remaining value, in key order -/
def seriesOut (l : List Series) : List ((Bytes × Tags) × List (Int × Int)) :=
  (l.filter fun s => !s.pts.isEmpty).map fun s => ((s.name, s.tags), s.pts)

/-- the model's answer to an op, as the typed observation the statement checker reads
    (`stepOp` renders the same values as text) -/
def ansOf (st : Option State) (op : Op) : Ans :=
  match st, op with
  | none, .open_ _ => .ok
  | none, _ => .other "bad-op"
  | some _, .open_ _ => .other "bad-op"
  | some s, .write sh _ _ _ => if s.any (·.id = sh) then .ok else .other "bad-op"
  | some s, .snap sh => if s.any (·.id = sh) then .ok else .other "bad-op"
  | some _, .del .. => .ok
  | some s, .read sh => match readShard s sh with
    | some l => .points (seriesOut l)
    | none => .other "bad-op"
  | some s, .ls sh => match readShard s sh with
    | some l => .ids (l.map fun x => (x.name, x.tags))
    | none => .other "bad-op"
  | some s, .mn a c => .keys (measurementNames a s c)
  | some _, _ => .other "-"

def runT : Option State → List Op → List (Op × Ans)
  | _, [] => []
  | st, op :: ops => (op, ansOf st op) :: runT (stepOp st op).1 ops

/-! ### sorting by key is a permutation -/

theorem insertByKey_perm (s : Series) (l : List Series) : (insertByKey s l).Perm (s :: l) := by
  induction l with
  | nil => exact List.Perm.refl _
  | cons y ys ih =>
    simp only [insertByKey]
    split
    · exact (List.Perm.cons y ih).trans (List.Perm.swap s y ys)
    · exact List.Perm.refl _

theorem sortByKey_perm (l : List Series) : (sortByKey l).Perm l := by
  unfold sortByKey
  induction l with
  | nil => exact List.Perm.refl _
  | cons x xs ih =>
    simp only [List.foldr_cons]
    exact (insertByKey_perm x _).trans (List.Perm.cons x ih)

theorem mem_sortByKey {s : Series} {l : List Series} : s ∈ sortByKey l ↔ s ∈ l :=
  (sortByKey_perm l).mem_iff

theorem nodup_keys_sortByKey (l : List Series) (h : (l.map fun s => (s.name, s.tags)).Nodup) :
    ((sortByKey l).map fun s => (s.name, s.tags)).Nodup :=
  ((sortByKey_perm l).map _).nodup_iff.2 h

theorem asc_ascTimes (l : List (Int × Int)) (h : Asc l) : ascTimes l = true := by
  induction l with
  | nil => rfl
  | cons a rest ih =>
    cases rest with
    | nil => rfl
    | cons b rest' =>
      simp only [ascTimes, Bool.and_eq_true, decide_eq_true_eq]
      exact ⟨(List.pairwise_cons.1 h).1 b (by simp), ih (List.pairwise_cons.1 h).2⟩

theorem sameSet_of_sameMem {x y : List (Int × Int)} (h : SameMem x y) : sameSet y x = true := by
  simp only [sameSet, Bool.and_eq_true, List.all_eq_true, List.contains_eq_mem, decide_eq_true_eq]
  exact ⟨fun p hp => (h p).2 hp, fun p hp => (h p).1 hp⟩

theorem absPts_of_mem {a : Abs} (hu : AbsUniq a) {e : Entry} (he : e ∈ a) : absPts a e.shard (keyOf e) = e.pts := by
  unfold absPts
  have : a.find? (fun x => decide (x.shard = e.shard ∧ keyOf x = keyOf e)) = some e := by
    unfold AbsUniq at hu
    induction a with
    | nil => cases he
    | cons x xs ih =>
      have hx := (List.nodup_cons.1 hu).1
      simp only [List.find?_cons]
      rcases List.mem_cons.1 he with rfl | he'
      · simp
      · have : decide (x.shard = e.shard ∧ keyOf x = keyOf e) = false := by
          apply decide_eq_false
          intro hc
          apply hx
          exact List.mem_map.2 ⟨e, he', by simp only; rw [hc.1, hc.2]⟩
        simp only [this]
        exact ih (List.nodup_cons.1 hu).2 he'
  rw [this]

theorem strictAsc_head_lt (l : List Bytes) : ∀ a, StrictAsc (a :: l) → ∀ y ∈ l, cmpBytes a y = .lt := by
  induction l with
  | nil => intro _ _ y hy; cases hy
  | cons b rest ih =>
    intro a hs y hy
    rcases List.mem_cons.1 hy with rfl | hy
    · exact hs.1
    · exact cmpBytes_trans hs.1 (ih b hs.2 y hy)

theorem strictAsc_nodup (l : List Bytes) (h : StrictAsc l) : l.Nodup := by
  induction l with
  | nil => exact List.nodup_nil
  | cons a rest ih =>
    refine List.nodup_cons.2 ⟨?_, ih (strictAsc_tail h)⟩
    intro hmem
    have := strictAsc_head_lt rest a h a hmem
    rw [cmpBytes_refl] at this
    cases this

/-! ### the judged observations -/

theorem judge_read (st : State) (a : Abs) (h : Rel st a) (sh : Nat) (l : List Series)
    (hr : readShard st sh = some l) : judgeObs a (.read sh) (.points (seriesOut l)) = .ok := by
  unfold readShard at hr
  cases hf : st.find? (·.id = sh) with
  | none => simp [hf] at hr
  | some sh0 =>
    simp only [hf, Option.map_some, Option.some.injEq] at hr
    subst hr
    have hsh0 : sh0 ∈ st := List.mem_of_find?_eq_some hf
    have hid : sh0.id = sh := by have := List.find?_some hf; simpa using this
    obtain ⟨hwf, hc, _⟩ := h.shards sh0 hsh0
    have hkeys : (seriesOut (sortByKey sh0.series)).map (·.1) =
        ((sortByKey sh0.series).filter fun s => !s.pts.isEmpty).map fun s => (s.name, s.tags) := by
      simp [seriesOut, List.map_map, Function.comp]
    have c1 : ((seriesOut (sortByKey sh0.series)).map (·.1)).Nodup := by
      rw [hkeys]
      exact List.Nodup.sublist (List.Sublist.map _ List.filter_sublist) (nodup_keys_sortByKey _ hwf.uniq)
    have c2 : ∀ x ∈ seriesOut (sortByKey sh0.series),
        (!x.2.isEmpty && ascTimes x.2 && sameSet (absPts a sh x.1) x.2) = true := by
      intro x hx
      simp only [seriesOut, List.mem_map, List.mem_filter] at hx
      obtain ⟨s, ⟨hs, hne⟩, rfl⟩ := hx
      have hs' : s ∈ sh0.series := mem_sortByKey.1 hs
      have hrp := readPts_of_mem hwf hs'
      have hasc : Asc s.pts := by rw [← hrp]; exact readPts_asc sh0 hwf _ _
      have hR := h.pts sh0 hsh0 (s.name, s.tags)
      simp only at hR
      rw [hrp, hid] at hR
      simp only [hne, asc_ascTimes _ hasc, sameSet_of_sameMem hR, Bool.and_self]
    have c3 : ∀ k ∈ liveKeys a sh, ((seriesOut (sortByKey sh0.series)).map (·.1)).contains k = true := by
      intro k hk
      simp only [liveKeys, List.mem_map, List.mem_filter, Bool.and_eq_true, decide_eq_true_eq,
        Bool.not_eq_true', List.isEmpty_eq_false_iff] at hk
      obtain ⟨e, ⟨he, hesh, hne⟩, rfl⟩ := hk
      have hap := absPts_of_mem h.uniq he
      have hR := h.pts sh0 hsh0 (keyOf e)
      rw [hid, ← hesh, hap] at hR
      obtain ⟨p, hp⟩ := List.exists_mem_of_ne_nil _ hne
      have hpm := (hR p).2 hp
      -- the series exists and has that point
      unfold readPts at hpm
      cases hfs : findSeries sh0 (keyOf e).1 (keyOf e).2 with
      | none => simp [hfs] at hpm
      | some s =>
        rw [hfs] at hpm
        have hpm : p ∈ s.pts := hpm
        obtain ⟨hs, hn, ht⟩ := findSeries_mem hfs
        simp only [List.contains_eq_mem, decide_eq_true_eq, hkeys, List.mem_map, List.mem_filter]
        refine ⟨s, ⟨mem_sortByKey.2 hs, ?_⟩, ?_⟩
        · cases hsp : s.pts with
          | nil => rw [hsp] at hpm; cases hpm
          | cons _ _ => simp
        · simp only [keyOf] at hn ht; rw [hn, ht]; rfl
    simp only [judgeObs]
    have b1 : decide ((seriesOut (sortByKey sh0.series)).map (·.1)).Nodup = true := decide_eq_true c1
    have b2 : (seriesOut (sortByKey sh0.series)).all (fun x => !x.2.isEmpty && ascTimes x.2 && sameSet (absPts a sh x.1) x.2) = true :=
      List.all_eq_true.2 c2
    have b3 : (liveKeys a sh).all (fun k => ((seriesOut (sortByKey sh0.series)).map (·.1)).contains k) = true :=
      List.all_eq_true.2 c3
    rw [b1, b2, b3]; rfl

theorem judge_ls (st : State) (a : Abs) (h : Rel st a) (sh : Nat) (l : List Series)
    (hr : readShard st sh = some l) : judgeObs a (.ls sh) (.ids (l.map fun x => (x.name, x.tags))) = .ok := by
  unfold readShard at hr
  cases hf : st.find? (·.id = sh) with
  | none => simp [hf] at hr
  | some sh0 =>
    simp only [hf, Option.map_some, Option.some.injEq] at hr
    subst hr
    have hsh0 : sh0 ∈ st := List.mem_of_find?_eq_some hf
    have hid : sh0.id = sh := by have := List.find?_some hf; simpa using this
    obtain ⟨hwf, hc, _⟩ := h.shards sh0 hsh0
    have c1 : ((sortByKey sh0.series).map fun x => (x.name, x.tags)).Nodup := nodup_keys_sortByKey _ hwf.uniq
    have c2 : ∀ k ∈ (sortByKey sh0.series).map (fun x => (x.name, x.tags)), (!(absPts a sh k).isEmpty) = true := by
      intro k hk
      obtain ⟨s, hs, rfl⟩ := List.mem_map.1 hk
      have hs' : s ∈ sh0.series := mem_sortByKey.1 hs
      obtain ⟨hswf, hsl⟩ := hwf.wf s hs'
      have hne : s.pts ≠ [] := (listed_iff_pts_cacheOnly s hswf (hc s hs')).1 hsl
      have hR := h.pts sh0 hsh0 (s.name, s.tags)
      simp only at hR
      rw [readPts_of_mem hwf hs', hid] at hR
      obtain ⟨p, hp⟩ := List.exists_mem_of_ne_nil _ hne
      have := (hR p).1 hp
      cases hab : absPts a sh (s.name, s.tags) with
      | nil => rw [hab] at this; cases this
      | cons _ _ => simp
    have c3 : ∀ k ∈ liveKeys a sh, ((sortByKey sh0.series).map fun x => (x.name, x.tags)).contains k = true := by
      intro k hk
      simp only [liveKeys, List.mem_map, List.mem_filter, decide_eq_true_eq,
        Bool.not_eq_true', List.isEmpty_eq_false_iff, Bool.and_eq_true] at hk
      obtain ⟨e, ⟨he, hesh, hne⟩, rfl⟩ := hk
      have hap := absPts_of_mem h.uniq he
      have hR := h.pts sh0 hsh0 (keyOf e)
      rw [hid, ← hesh, hap] at hR
      obtain ⟨p, hp⟩ := List.exists_mem_of_ne_nil _ hne
      have hpm := (hR p).2 hp
      unfold readPts at hpm
      cases hfs : findSeries sh0 (keyOf e).1 (keyOf e).2 with
      | none => simp [hfs] at hpm
      | some s =>
        obtain ⟨hs, hn, ht⟩ := findSeries_mem hfs
        simp only [List.contains_eq_mem, decide_eq_true_eq, List.mem_map]
        refine ⟨s, mem_sortByKey.2 hs, ?_⟩
        simp only [keyOf] at hn ht; rw [hn, ht]; rfl
    simp only [judgeObs]
    have b1 : decide ((sortByKey sh0.series).map fun x => (x.name, x.tags)).Nodup = true := decide_eq_true c1
    have b2 := List.all_eq_true.2 c2
    have b3 := List.all_eq_true.2 c3
    rw [b1, b2, b3]; rfl

theorem judge_mn (st : State) (a : Abs) (h : Rel st a) :
    judgeObs a (.mn .nil_ none) (.keys (measurementNames .nil_ st none)) = .ok := by
  have c1 : (measurementNames .nil_ st none).Nodup := strictAsc_nodup _ (strictAsc_measurementNames _ _ _)
  have c2 : ∀ m ∈ measurementNames .nil_ st none, (a.any fun e => decide (e.name = m ∧ (!e.pts.isEmpty) = true)) = true := by
    intro m hm
    obtain ⟨sh0, hsh0, s, hs, hn, _, _⟩ := (mem_measurementNames_none .nil_ st m).1 hm
    obtain ⟨hwf, hc, _⟩ := h.shards sh0 hsh0
    obtain ⟨hswf, hsl⟩ := hwf.wf s hs
    have hne : s.pts ≠ [] := (listed_iff_pts_cacheOnly s hswf (hc s hs)).1 hsl
    have hR := h.pts sh0 hsh0 (s.name, s.tags)
    simp only at hR
    rw [readPts_of_mem hwf hs] at hR
    obtain ⟨p, hp⟩ := List.exists_mem_of_ne_nil _ hne
    have hpa := (hR p).1 hp
    unfold absPts at hpa
    cases hfa : a.find? (fun e => decide (e.shard = sh0.id ∧ keyOf e = (s.name, s.tags))) with
    | none => rw [hfa] at hpa; cases hpa
    | some e =>
      rw [hfa] at hpa
      have hpa : p ∈ e.pts := hpa
      have he : e ∈ a := List.mem_of_find?_eq_some hfa
      have hk : e.shard = sh0.id ∧ keyOf e = (s.name, s.tags) := by
        have := List.find?_some hfa; simpa using this
      simp only [List.any_eq_true, decide_eq_true_eq]
      refine ⟨e, he, ?_, ?_⟩
      · have := hk.2; simp only [keyOf, Prod.mk.injEq] at this; rw [this.1, hn]
      · cases hep : e.pts with
        | nil => rw [hep] at hpa; cases hpa
        | cons _ _ => simp
  have c3 : ∀ e ∈ a.filter (fun e => !e.pts.isEmpty), (measurementNames .nil_ st none).contains e.name = true := by
    intro e he
    simp only [List.mem_filter, Bool.not_eq_true', List.isEmpty_eq_false_iff] at he
    obtain ⟨hea, hne⟩ := he
    obtain ⟨sh0, hsh0, hid⟩ := h.cover e hea
    have hap := absPts_of_mem h.uniq hea
    have hR := h.pts sh0 hsh0 (keyOf e)
    rw [hid, hap] at hR
    obtain ⟨p, hp⟩ := List.exists_mem_of_ne_nil _ hne
    have hpm := (hR p).2 hp
    unfold readPts at hpm
    cases hfs : findSeries sh0 (keyOf e).1 (keyOf e).2 with
    | none => simp [hfs] at hpm
    | some s =>
      obtain ⟨hs, hn, _⟩ := findSeries_mem hfs
      simp only [List.contains_eq_mem, decide_eq_true_eq]
      refine (mem_measurementNames_none .nil_ st e.name).2 ⟨sh0, hsh0, s, hs, ?_, rfl, trivial⟩
      simpa [keyOf] using hn
  simp only [judgeObs]
  have b1 : decide (measurementNames .nil_ st none).Nodup = true := decide_eq_true c1
  have b2 := List.all_eq_true.2 c2
  have b3 := List.all_eq_true.2 c3
  rw [b1, b2, b3]; rfl

/-! ### the whole case -/

open Influx.Spec.C16 (PredWF SeriesWF) in
/-- the domain of the theorem: no snapshots (values stay in the cache), written series and
    predicates inside the C16 domain, proper ranges -/
def opOK : Op → Bool
  | .write _ name tags pts => !pts.isEmpty && SeriesWF name tags && DelPred.KeyOK name tags
  | .del lo hi pred _ => decide (lo ≤ hi) && (match pred with | none => true | some p => PredWF p)
  | .snap _ => false
  | _ => true

/-- shard ids are exactly 1..n -/
def IdsRange (st : State) (n : Nat) : Prop := ∀ i, (∃ sh ∈ st, sh.id = i) ↔ 1 ≤ i ∧ i ≤ n

theorem write_ids (st : State) (sh : Nat) (name : Bytes) (tags : Tags) (pts : List (Int × Int)) (i : Nat) :
    (∃ x ∈ write st sh name tags pts, x.id = i) ↔ ∃ x ∈ st, x.id = i := by
  simp only [write, List.mem_map]
  constructor
  · rintro ⟨x, ⟨sh0, hsh0, rfl⟩, hi⟩
    refine ⟨sh0, hsh0, ?_⟩
    split at hi
    · rw [shard_write_id] at hi; exact hi
    · exact hi
  · rintro ⟨sh0, hsh0, hi⟩
    refine ⟨_, ⟨sh0, hsh0, rfl⟩, ?_⟩
    split
    · rw [shard_write_id]; exact hi
    · exact hi

theorem delete_ids (st : State) (lo hi : Int) (pred : Option Pred) (hm : Bool) (i : Nat) :
    (∃ x ∈ delete st lo hi pred hm, x.id = i) ↔ ∃ x ∈ st, x.id = i := by
  simp only [delete, List.mem_map]
  constructor
  · rintro ⟨x, ⟨sh0, hsh0, rfl⟩, hi⟩; exact ⟨sh0, hsh0, hi⟩
  · rintro ⟨sh0, hsh0, hi⟩; exact ⟨_, ⟨sh0, hsh0, rfl⟩, hi⟩

theorem readShard_none_iff (st : State) (n : Nat) (hr : IdsRange st n) (sh : Nat) :
    readShard st sh = none ↔ (sh < 1 ∨ n < sh) := by
  unfold readShard
  constructor
  · intro h
    have hnone : st.find? (·.id = sh) = none := by
      cases hf : st.find? (·.id = sh) with
      | none => rfl
      | some x => simp [hf] at h
    have : ¬ (1 ≤ sh ∧ sh ≤ n) := by
      intro hc
      obtain ⟨x, hx, hid⟩ := (hr sh).2 hc
      have := List.find?_eq_none.1 hnone x hx
      simp [hid] at this
    omega
  · intro h
    have : st.find? (·.id = sh) = none := by
      rw [List.find?_eq_none]
      intro x hx
      simp only [decide_eq_true_eq]
      intro hid
      have := (hr sh).1 ⟨x, hx, hid⟩
      omega
    simp [this]

/-- **The statement checker accepts the model's trace** (cases without snapshots, inside the C16
    domain). -/
theorem judgeCase_runT (n : Nat) (ops : List Op) (hok : ops.all opOK = true) (st : State) (a : Abs)
    (h : Rel st a) (hr : IdsRange st n) :
    (judgeCase n a (runT (some st) ops)).all (· = .ok) = true := by
  induction ops generalizing st a with
  | nil => rfl
  | cons op ops ih =>
    simp only [List.all_cons, Bool.and_eq_true] at hok
    obtain ⟨hop, hrest⟩ := hok
    cases op with
    | open_ k =>
      simp only [runT, ansOf, stepOp, judgeCase, judgeObs, List.all_cons, Bool.and_eq_true]
      exact ⟨by decide, ih hrest st a h hr⟩
    | write sh name tags pts =>
      simp only [opOK, Bool.and_eq_true, Bool.not_eq_true', List.isEmpty_eq_false_iff] at hop
      obtain ⟨⟨hp, hsw⟩, hk⟩ := hop
      by_cases hex : st.any (·.id = sh) = true
      · simp only [runT, ansOf, stepOp, hex, if_true, judgeCase]
        exact ih hrest _ _ (rel_write st a h sh name tags pts hex hp ⟨hsw, hk⟩)
          (fun i => (write_ids st sh name tags pts i).trans (hr i))
      · simp only [runT, ansOf, stepOp, hex, Bool.false_eq_true, if_false, judgeCase, judgeObs, List.all_cons,
          Bool.and_eq_true]
        exact ⟨by decide, ih hrest st a h hr⟩
    | snap sh => simp [opOK] at hop
    | del lo hi pred hm =>
      simp only [opOK, Bool.and_eq_true, decide_eq_true_eq] at hop
      obtain ⟨hlh, hp⟩ := hop
      simp only [runT, ansOf, stepOp, judgeCase]
      refine ih hrest _ _ (rel_delete st a h lo hi hlh pred hm ?_) (fun i => (delete_ids st lo hi pred hm i).trans (hr i))
      intro p hpp
      subst hpp
      exact hp
    | read sh =>
      simp only [runT, ansOf, stepOp]
      cases hrs : readShard st sh with
      | none =>
        have := (readShard_none_iff st n hr sh).1 hrs
        simp only [judgeCase, List.all_cons, Bool.and_eq_true]
        refine ⟨?_, ih hrest st a h hr⟩
        have h2 : (sh < 1 ∨ n < sh) ∧ "bad-op" = "bad-op" := ⟨this, rfl⟩
        simp only [h2, if_true]; rfl
      | some l =>
        simp only [judgeCase, List.all_cons, Bool.and_eq_true]
        refine ⟨?_, ih hrest st a h hr⟩
        rw [judge_read st a h sh l hrs]; rfl
    | ls sh =>
      simp only [runT, ansOf, stepOp]
      cases hrs : readShard st sh with
      | none =>
        have := (readShard_none_iff st n hr sh).1 hrs
        simp only [judgeCase, List.all_cons, Bool.and_eq_true]
        refine ⟨?_, ih hrest st a h hr⟩
        have h2 : (sh < 1 ∨ n < sh) ∧ "bad-op" = "bad-op" := ⟨this, rfl⟩
        simp only [h2, if_true]; rfl
      | some l =>
        simp only [judgeCase, List.all_cons, Bool.and_eq_true]
        refine ⟨?_, ih hrest st a h hr⟩
        rw [judge_ls st a h sh l hrs]; rfl
    | mn au c =>
      simp only [runT, ansOf, stepOp, judgeCase, List.all_cons, Bool.and_eq_true]
      refine ⟨?_, ih hrest st a h hr⟩
      cases au with
      | nil_ =>
        cases c with
        | none => rw [judge_mn st a h]; rfl
        | some c => rfl
      | open_ => rfl
      | deny ps ns => rfl
    | tk au ids nc kc f =>
      simp only [runT, ansOf, stepOp]
      split <;> (simp only [judgeCase, judgeObs, List.all_cons, Bool.and_eq_true]; exact ⟨by decide, ih hrest st a h hr⟩)
    | tv au ids nc kc f =>
      simp only [runT, ansOf, stepOp]
      split
      · simp only [judgeCase, judgeObs, List.all_cons, Bool.and_eq_true]; exact ⟨by decide, ih hrest st a h hr⟩
      · split <;> (simp only [judgeCase, judgeObs, List.all_cons, Bool.and_eq_true]; exact ⟨by decide, ih hrest st a h hr⟩)

theorem rel_init (n : Nat) : Rel ((List.range n).map fun i => ⟨i + 1, [], []⟩) [] ∧
    IdsRange ((List.range n).map fun i => ⟨i + 1, [], []⟩) n := by
  constructor
  · constructor
    · rw [List.map_map]
      have : ((fun (sh : Shard) => sh.id) ∘ fun i => (⟨i + 1, [], []⟩ : Shard)) = fun i => i + 1 := rfl
      rw [this]
      exact List.Pairwise.map _ (fun a b hab => by simp only [ne_eq]; omega) List.nodup_range
    · intro sh hsh
      simp only [List.mem_map] at hsh
      obtain ⟨i, _, rfl⟩ := hsh
      refine ⟨⟨by simp, by simp⟩, ?_, ?_⟩
      · intro s hs; cases hs
      · intro s hs; cases hs
    · intro sh hsh k
      simp only [List.mem_map] at hsh
      obtain ⟨i, _, rfl⟩ := hsh
      intro x
      simp [readPts, findSeries, absPts]
    · simp [AbsUniq]
    · intro e he; cases he
  · intro i
    simp only [List.mem_map, List.mem_range]
    constructor
    · rintro ⟨sh, ⟨j, hj, rfl⟩, rfl⟩; simp only; omega
    · rintro ⟨h1, h2⟩
      exact ⟨⟨i - 1 + 1, [], []⟩, ⟨i - 1, by omega, rfl⟩, by simp only; omega⟩

end Influx.Model.StoreDel
