/-
  Lemmas.StoreDelHolds — the store model refines the abstract content of Spec.C17 (cases
  without snapshots): the statement checker accepts the model's trace.
-/
import Influx.Lemmas.StoreDelC17
import Influx.Spec.C17x

namespace Influx.Spec.C17x
open Influx.Model.DelPred (Bytes Pred)
open Influx.Model.StoreDel (Tags)

/-- one entry per (shard, series) -/
def AbsUniq (a : Abs) : Prop := (a.map fun e => (e.shard, keyOf e)).Nodup

theorem cutEntry_key (lo hi : Int) (pred : Option Pred) (e : Entry) :
    (cutEntry lo hi pred e).shard = e.shard ∧ keyOf (cutEntry lo hi pred e) = keyOf e := by
  unfold cutEntry
  split <;> exact ⟨rfl, rfl⟩

theorem absUniq_delete (a : Abs) (h : AbsUniq a) (lo hi : Int) (pred : Option Pred) : AbsUniq (a.delete lo hi pred) := by
  unfold Abs.delete AbsUniq
  have : (a.map (cutEntry lo hi pred)).map (fun e => (e.shard, keyOf e)) = a.map fun e => (e.shard, keyOf e) := by
    rw [List.map_map]
    apply List.map_congr_left
    intro e _
    simp only [Function.comp, (cutEntry_key lo hi pred e).1, (cutEntry_key lo hi pred e).2]
  rw [this]; exact h

theorem find_map_same {α : Type} (l : List α) (f : α → α) (p : α → Bool) (hp : ∀ x, p (f x) = p x) :
    (l.map f).find? p = (l.find? p).map f := by
  induction l with
  | nil => rfl
  | cons x xs ih =>
    simp only [List.map_cons, List.find?_cons, hp x]
    cases p x <;> simp [ih]

theorem absPts_delete (a : Abs) (lo hi : Int) (pred : Option Pred) (sh : Nat) (k : Bytes × Tags) :
    absPts (a.delete lo hi pred) sh k =
      if predTrue pred k.1 k.2 then outside lo hi (absPts a sh k) else absPts a sh k := by
  unfold absPts Abs.delete
  rw [find_map_same]
  · cases hf : a.find? (fun e => decide (e.shard = sh ∧ keyOf e = k)) with
    | none => simp [outside]
    | some e =>
      have hk := List.find?_some hf
      simp only [decide_eq_true_eq, keyOf] at hk
      obtain ⟨_, hk2⟩ := hk
      subst hk2
      simp only [Option.map_some, cutEntry]
      split <;> rfl
  · intro e
    simp only [(cutEntry_key lo hi pred e).1, (cutEntry_key lo hi pred e).2]

theorem absUniq_write (a : Abs) (h : AbsUniq a) (sh : Nat) (name : Bytes) (tags : Tags) (pts : List (Int × Int)) :
    AbsUniq (a.write sh name tags pts) := by
  unfold Abs.write AbsUniq
  split
  · have : (a.map fun e => if e.shard = sh ∧ e.name = name ∧ e.tags = tags then { e with pts := pts.foldl setPt e.pts } else e).map
        (fun e => (e.shard, keyOf e)) = a.map fun e => (e.shard, keyOf e) := by
      rw [List.map_map]
      apply List.map_congr_left
      intro e _
      simp only [Function.comp]
      split <;> rfl
    rw [this]; exact h
  · next hno =>
    simp only [List.map_append, List.map_cons, List.map_nil]
    rw [List.nodup_append]
    refine ⟨h, by simp, ?_⟩
    intro x hx y hy
    simp only [List.mem_singleton] at hy
    subst hy
    intro hxy
    subst hxy
    obtain ⟨e, he, hk⟩ := List.mem_map.1 hx
    apply hno
    simp only [List.any_eq_true, decide_eq_true_eq]
    simp only [keyOf, Prod.mk.injEq] at hk
    exact ⟨e, he, hk.1, hk.2.1, hk.2.2⟩

theorem absPts_write (a : Abs) (sh : Nat) (name : Bytes) (tags : Tags) (pts : List (Int × Int))
    (sh' : Nat) (k : Bytes × Tags) :
    absPts (a.write sh name tags pts) sh' k =
      if sh' = sh ∧ k = (name, tags) then pts.foldl setPt (absPts a sh k) else absPts a sh' k := by
  unfold absPts Abs.write
  split
  · next hany =>
    rw [find_map_same]
    · cases hf : a.find? (fun e => decide (e.shard = sh' ∧ keyOf e = k)) with
      | none =>
        simp only [Option.map_none]
        split
        · next hc =>
          exfalso
          obtain ⟨rfl, rfl⟩ := hc
          simp only [List.any_eq_true, decide_eq_true_eq] at hany
          obtain ⟨e, he, h1, h2, h3⟩ := hany
          have := List.find?_eq_none.1 hf e he
          simp [keyOf, h1, h2, h3] at this
        · rfl
      | some e =>
        have hk := List.find?_some hf
        simp only [decide_eq_true_eq, keyOf] at hk
        simp only [Option.map_some]
        by_cases hc : sh' = sh ∧ k = (name, tags)
        · obtain ⟨rfl, rfl⟩ := hc
          simp only [Prod.mk.injEq] at hk
          simp [hk.1, hk.2.1, hk.2.2, hf]
        · simp only [hc, if_false]
          have : ¬ (e.shard = sh ∧ e.name = name ∧ e.tags = tags) := by
            intro h
            apply hc
            refine ⟨hk.1 ▸ h.1, ?_⟩
            rw [← hk.2, h.2.1, h.2.2]
          simp [this]
    · intro e
      split <;> rfl
  · next hno =>
    simp only [List.any_eq_true, decide_eq_true_eq, not_exists, not_and] at hno
    rw [List.find?_append]
    cases hf : a.find? (fun e => decide (e.shard = sh' ∧ keyOf e = k)) with
    | some e =>
      simp only [Option.some_or]
      have hk := List.find?_some hf
      have he := List.mem_of_find?_eq_some hf
      simp only [decide_eq_true_eq, keyOf] at hk
      have : ¬ (sh' = sh ∧ k = (name, tags)) := by
        rintro ⟨rfl, rfl⟩
        simp only [Prod.mk.injEq] at hk
        exact hno e he hk.1 hk.2.1 hk.2.2
      simp [this]
    | none =>
      simp only [Option.none_or, List.find?_cons, List.find?_nil, keyOf]
      by_cases hc : sh' = sh ∧ k = (name, tags)
      · obtain ⟨rfl, rfl⟩ := hc
        have hnone : a.find? (fun e => decide (e.shard = sh' ∧ keyOf e = (name, tags))) = none := hf
        simp [hnone]
      · have : decide (sh = sh' ∧ (name, tags) = k) = false := by
          simp only [decide_eq_false_iff_not]
          rintro ⟨rfl, rfl⟩
          exact hc ⟨rfl, rfl⟩
        simp [this, hc]

end Influx.Spec.C17x
