/-
  Lemmas.EngineC01 — the statement checker of C01 (`Spec.C01`) accepts what the model's
  `read` returns whenever `abs` equals the last-write-wins map of the acknowledged writes.
-/
import Influx.Lemmas.Engine
import Influx.Spec.C01

namespace Influx.Model.Engine
open Influx.Spec.C01

theorem lastWritten_eq_get (w : List Entry) (k : Key) (t : Int) : lastWritten w k t = Log.get w k t := by
  induction w with
  | nil => rfl
  | cons e w ih =>
    unfold lastWritten at ih ⊢
    rw [List.reverse_cons, List.find?_append, Option.map_or, ih, Log.get]
    cases Log.get w k t with
    | some v => rfl
    | none =>
      by_cases h : e.key = k ∧ e.ts = t
      · simp [h]
      · simp [h]

theorem ordered_asc_of_pairwise {l : List Pt} (h : l.Pairwise (fun a b => a.1 < b.1)) :
    ordered true l = true := by
  induction l with
  | nil => rfl
  | cons p l ih =>
    cases l with
    | nil => rfl
    | cons q l =>
      have h1 := List.pairwise_cons.mp h
      simp only [ordered, if_true, Bool.and_eq_true, decide_eq_true_eq]
      exact ⟨h1.1 q List.mem_cons_self, ih h1.2⟩

theorem ordered_desc_of_pairwise {l : List Pt} (h : l.Pairwise (fun a b => b.1 < a.1)) :
    ordered false l = true := by
  induction l with
  | nil => rfl
  | cons p l ih =>
    cases l with
    | nil => rfl
    | cons q l =>
      have h1 := List.pairwise_cons.mp h
      simp only [ordered, Bool.false_eq_true, if_false, Bool.and_eq_true, decide_eq_true_eq]
      exact ⟨h1.1 q List.mem_cons_self, ih h1.2⟩

theorem ordered_read (s : State) (k : Key) (lo hi : Int) (asc : Bool) :
    ordered asc (s.read k lo hi asc) = true := by
  cases asc
  · exact ordered_desc_of_pairwise (s.read_sorted_desc k lo hi)
  · exact ordered_asc_of_pairwise (s.read_sorted_asc k lo hi)

/-- abs of the state = last-write-wins map of the write history `w` -/
def AbsIs (s : State) (w : List Entry) : Prop := ∀ k t, s.abs k t = Log.get w k t

theorem rowsOK_read {s : State} {w : List Entry} (h : AbsIs s w) (k : Key) (lo hi : Int) (asc : Bool) :
    rowsOK w k lo hi asc (s.read k lo hi asc) = true := by
  simp only [rowsOK, Bool.and_eq_true]
  refine ⟨⟨ordered_read s k lo hi asc, ?_⟩, ?_⟩
  · simp only [rowsSound, List.all_eq_true, Bool.and_eq_true, decide_eq_true_eq, beq_iff_eq]
    intro p hp
    have := (s.mem_read k lo hi asc p).mp hp
    rw [lastWritten_eq_get, ← h]
    exact ⟨this.1, this.2⟩
  · simp only [rowsComplete, List.all_eq_true, Bool.or_eq_true, Bool.not_eq_true', Bool.and_eq_false_iff,
      decide_eq_false_iff_not, List.any_eq_true, beq_iff_eq]
    intro e he
    by_cases hc : e.key = k ∧ lo ≤ e.ts ∧ e.ts ≤ hi
    · right
      obtain ⟨hk, hlo, hhi⟩ := hc
      -- the cell (k, e.ts) has been written, so abs has a value there
      have hsome : (Log.get w k e.ts).isSome := by
        subst hk
        clear h hlo hhi
        induction w with
        | nil => cases he
        | cons e' w ih =>
          simp only [Log.get]
          cases hg : Log.get w e.key e.ts with
          | some v => simp
          | none =>
            rcases List.mem_cons.mp he with rfl | he'
            · simp
            · have := ih he'; rw [hg] at this; simp at this
      obtain ⟨v, hv⟩ := Option.isSome_iff_exists.mp hsome
      refine ⟨(e.ts, v), ?_, rfl⟩
      rw [s.mem_read]
      exact ⟨⟨hlo, hhi⟩, by rw [h]; exact hv⟩
    · left
      by_cases h1 : e.key = k
      · by_cases h2 : lo ≤ e.ts
        · right; intro h3; exact hc ⟨h1, h2, h3⟩
        · left; right; exact h2
      · left; left; exact h1

end Influx.Model.Engine
