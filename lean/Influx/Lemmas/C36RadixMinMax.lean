/-
  Lemmas.C36RadixMinMax — as long as no node is empty (`NE`: true until the first
  `DeletePrefix`), `Minimum`/`Maximum` are the first/last element of the walk.
-/
import Influx.Lemmas.C36RadixDel

namespace Influx.Radix

mutual
/-- no child subtree is empty -/
def Node.NE : Node → Prop
  | .mk _ _ edges => Edges.NE edges
def Edges.NE : Edges → Prop
  | .nil => True
  | .cons _ c r => Node.rel c ≠ [] ∧ Node.NE c ∧ Edges.NE r
end

theorem getLast?_append_ne {α} (a b : List α) (h : b ≠ []) : (a ++ b).getLast? = b.getLast? := by
  rw [List.getLast?_append]
  cases hb : b.getLast? with
  | none => exact absurd (List.getLast?_eq_none_iff.mp hb) h
  | some x => simp

theorem walk_ne_of_rel_ne (n : Node) (h : Node.rel n ≠ []) : Node.walk n ≠ [] := by
  intro hw
  have := Node.walk_len n
  rw [hw] at this
  exact h (List.eq_nil_of_length_eq_zero this.symm)

/-- **Minimum** -/
theorem Node.min_eq : ∀ (n : Node), Node.NE n → Node.min n = (Node.walk n).head?
  | .mk (some l) _ _, _ => by simp [Node.min, Node.walk]
  | .mk none _ .nil, _ => by simp [Node.min, Node.walk, Edges.walk]
  | .mk none _ (.cons _ child r), h => by
    obtain ⟨hne, hc, _⟩ := h
    have hw := walk_ne_of_rel_ne child hne
    rw [Node.min, Node.min_eq child hc]
    simp only [Node.walk, Edges.walk, List.nil_append]
    cases hwc : Node.walk child with
    | nil => exact absurd hwc hw
    | cons x xs => simp

theorem Edges.walk_ne : ∀ (es : Edges), Edges.NE es → es ≠ .nil → Edges.walk es ≠ []
  | .nil, _, h => absurd rfl h
  | .cons _ c r, hne, _ => by
    have := walk_ne_of_rel_ne c hne.1
    simp [Edges.walk, this]

mutual
/-- **Maximum** -/
theorem Node.max_eq : ∀ (n : Node), Node.NE n → Node.max n = (Node.walk n).getLast?
  | .mk leaf pre edges, h => by
    have hE := Edges.max_eq edges h
    cases edges with
    | nil =>
      cases leaf <;> simp [Node.max, Edges.max, Node.walk, Edges.walk]
    | cons l c r =>
      have hne := Edges.walk_ne (.cons l c r) h (by simp)
      rw [Node.max]
      cases hm : Edges.max (.cons l c r) with
      | none => rw [hm] at hE; exact absurd rfl (hE.1 (by simp))
      | some res =>
        rw [hm] at hE
        simp only
        rw [hE.2 res rfl]
        simp only [Node.walk]
        rw [getLast?_append_ne _ _ hne]
theorem Edges.max_eq : ∀ (es : Edges), Edges.NE es →
    (es ≠ .nil → Edges.max es ≠ none) ∧ ∀ res, Edges.max es = some res → res = (Edges.walk es).getLast?
  | .nil, _ => ⟨fun h => absurd rfl h, fun res h => by simp [Edges.max] at h⟩
  | .cons l c .nil, h => by
    refine ⟨fun _ => by simp [Edges.max], ?_⟩
    intro res hres
    simp only [Edges.max, Option.some.injEq] at hres
    rw [← hres, Node.max_eq c h.2.1]
    simp [Edges.walk]
  | .cons l c (.cons l2 c2 r2), h => by
    obtain ⟨ih1, ih2⟩ := Edges.max_eq (.cons l2 c2 r2) h.2.2
    refine ⟨fun _ => ?_, ?_⟩
    · rw [Edges.max]; exact ih1 (by simp)
    · intro res hres
      rw [Edges.max] at hres
      rw [ih2 res hres]
      have hne := Edges.walk_ne (.cons l2 c2 r2) h.2.2 (by simp)
      have hw : Edges.walk (.cons l c (.cons l2 c2 r2)) = Node.walk c ++ Edges.walk (.cons l2 c2 r2) := by
        simp [Edges.walk]
      rw [hw, getLast?_append_ne _ _ hne]
end

/-! ### `Insert` creates no empty node -/

theorem Edges.NE_add (l : Nat) (n : Node) (hr : Node.rel n ≠ []) (hn : Node.NE n) :
    ∀ (es : Edges), Edges.NE es → Edges.NE (Edges.add l n es)
  | .nil, _ => ⟨hr, hn, trivial⟩
  | .cons l' n' r, h => by
    simp only [Edges.add]
    split
    · exact ⟨h.1, h.2.1, Edges.NE_add l n hr hn r h.2.2⟩
    · exact ⟨hr, hn, h⟩

theorem leafNode_NE (s : Key) (v : Int) (pre : Key) : Node.NE (.mk (some ⟨s, v⟩) pre .nil) ∧
    Node.rel (.mk (some ⟨s, v⟩) pre .nil) ≠ [] := by
  simp [Node.NE, Edges.NE, Node.rel]

theorem splitNode_NE (child : Node) (common restS : Key) (y : Nat) (ys s : Key) (v : Int)
    (hc : Node.NE child) (hr : Node.rel child ≠ []) :
    Node.NE (splitNode child common restS y ys s v) ∧ Node.rel (splitNode child common restS y ys s v) ≠ [] := by
  have hold : Node.NE (.mk child.leaf (y :: ys) child.edges) ∧ Node.rel (.mk child.leaf (y :: ys) child.edges) ≠ [] := by
    cases child with
    | mk cl cp ce =>
      refine ⟨by simpa [Node.NE, Node.leaf, Node.edges] using hc, ?_⟩
      have : Node.rel (.mk cl (y :: ys) ce) = Node.rel (.mk cl cp ce) := by simp [Node.rel]
      simpa [Node.leaf, Node.edges, this] using hr
  unfold splitNode
  simp only
  cases restS with
  | nil =>
    refine ⟨Edges.NE_add y _ hold.2 hold.1 .nil trivial, by simp [Node.rel]⟩
  | cons x xs =>
    have hl := leafNode_NE s v (x :: xs)
    have hne : Edges.NE (Edges.add x (.mk (some ⟨s, v⟩) (x :: xs) .nil)
        (Edges.add y (.mk child.leaf (y :: ys) child.edges) .nil)) :=
      Edges.NE_add x _ hl.2 hl.1 _ (Edges.NE_add y _ hold.2 hold.1 .nil trivial)
    refine ⟨hne, ?_⟩
    intro h0
    have hm : ((x :: xs) ++ [], v) ∈ Node.rel (.mk none common
        (Edges.add x (.mk (some ⟨s, v⟩) (x :: xs) .nil) (Edges.add y (.mk child.leaf (y :: ys) child.edges) .nil))) := by
      rw [mem_rel_mk]
      exact Or.inr ((Edges.rel_add _ _ _ _).mpr (Or.inl ⟨([], v), (mem_rel_leafNode s v _ _).mpr rfl, rfl⟩))
    rw [h0] at hm; cases hm

mutual
theorem Node.insert_NE : ∀ (n : Node) (search s : Key) (v : Int), Node.NE n →
    Node.NE (Node.insert n search s v).1 ∧ (Node.rel n ≠ [] → Node.rel (Node.insert n search s v).1 ≠ []) ∧
    (search ≠ [] ∨ True → Node.rel (Node.insert n search s v).1 ≠ [])
  | .mk leaf pre edges, search, s, v, hne => by
    cases search with
    | nil =>
      cases leaf with
      | some l => exact ⟨hne, fun h => h, fun _ => by simp [Node.insert, Node.rel]⟩
      | none => exact ⟨hne, fun _ => by simp [Node.insert, Node.rel], fun _ => by simp [Node.insert, Node.rel]⟩
    | cons c rest =>
      have hE := Edges.insertAt_NE edges c rest s v hne
      cases hi : Edges.insertAt edges c (c :: rest) s v with
      | none =>
        have hl := leafNode_NE s v (c :: rest)
        have hins : (Node.insert (.mk leaf pre edges) (c :: rest) s v).1 =
            .mk leaf pre (Edges.add c (.mk (some ⟨s, v⟩) (c :: rest) .nil) edges) := by
          simp [Node.insert, hi]
        rw [hins]
        have hmem : ((c :: rest) ++ [], v) ∈ Node.rel (.mk leaf pre (Edges.add c (.mk (some ⟨s, v⟩) (c :: rest) .nil) edges)) := by
          rw [mem_rel_mk]
          exact Or.inr ((Edges.rel_add _ _ _ _).mpr (Or.inl ⟨([], v), (mem_rel_leafNode s v _ _).mpr rfl, rfl⟩))
        have hnn : Node.rel (.mk leaf pre (Edges.add c (.mk (some ⟨s, v⟩) (c :: rest) .nil) edges)) ≠ [] := by
          intro h0; rw [h0] at hmem; cases hmem
        exact ⟨Edges.NE_add c _ hl.2 hl.1 edges hne, fun _ => hnn, fun _ => hnn⟩
      | some r =>
        obtain ⟨edges', res⟩ := r
        rw [hi] at hE
        have hins : (Node.insert (.mk leaf pre edges) (c :: rest) s v).1 = .mk leaf pre edges' := by
          simp [Node.insert, hi]
        rw [hins]
        have hnn : Node.rel (.mk leaf pre edges') ≠ [] := by
          intro h0
          have : Edges.rel edges' = [] := by
            cases leaf <;> simp [Node.rel] at h0 <;> simp [h0]
          exact hE.2 this
        exact ⟨hE.1, fun _ => hnn, fun _ => hnn⟩
theorem Edges.insertAt_NE : ∀ (es : Edges) (c : Nat) (rest s : Key) (v : Int), Edges.NE es →
    match Edges.insertAt es c (c :: rest) s v with
    | none => True
    | some (es', _) => Edges.NE es' ∧ Edges.rel es' ≠ []
  | .nil, _, _, _, _, _ => by simp [Edges.insertAt]
  | .cons l child r, c, rest, s, v, hne => by
    obtain ⟨hcr, hc, hr⟩ := hne
    by_cases hlc : l = c
    · subst hlc
      cases hsc : splitCommon (l :: rest) child.pre with
      | mk common rr =>
        obtain ⟨restS, restP⟩ := rr
        cases restP with
        | nil =>
          have hins : Edges.insertAt (.cons l child r) l (l :: rest) s v =
              some (.cons l (Node.insert child restS s v).1 r, (Node.insert child restS s v).2) := by
            simp only [Edges.insertAt, if_true, hsc]
          rw [hins]
          obtain ⟨i1, i2, _⟩ := Node.insert_NE child restS s v hc
          have := i2 hcr
          exact ⟨⟨this, i1, hr⟩, by simp [Edges.rel, this]⟩
        | cons y ys =>
          rw [insertAt_split l child r (l :: rest) s v common restS y ys hsc]
          obtain ⟨k1, k2⟩ := splitNode_NE child common restS y ys s v hc hcr
          exact ⟨⟨k2, k1, hr⟩, by simp [Edges.rel, k2]⟩
    · have ih := Edges.insertAt_NE r c rest s v hr
      cases hi : Edges.insertAt r c (c :: rest) s v with
      | none =>
        have : Edges.insertAt (.cons l child r) c (c :: rest) s v = none := by
          simp only [Edges.insertAt, hlc, if_false, hi]
        rw [this]; trivial
      | some rr =>
        obtain ⟨r', res⟩ := rr
        rw [hi] at ih
        have : Edges.insertAt (.cons l child r) c (c :: rest) s v = some (.cons l child r', res) := by
          simp only [Edges.insertAt, hlc, if_false, hi]
        rw [this]
        exact ⟨⟨hcr, hc, ih.1⟩, by simp [Edges.rel, hcr]⟩
end

end Influx.Radix
