/-
  Lemmas.C13FindID — `FindIDBySeriesKey` and `SeriesKey` under the partition invariant.
-/
import Influx.Lemmas.C13Lookup

namespace Influx.SF
open Part

variable {p : Part} {es : List Entry}

/-- a live series: its insert entry is in the segment and no tombstone names its id -/
def Live (es : List Entry) (e : Entry) : Prop := e ∈ es ∧ e.flag = insertFlag ∧ ¬ Tombed es e.id

/-- at most one live series per key -/
theorem live_unique (h : PInv p es) {a b : Entry} (ha : Live es a) (hb : Live es b)
    (hk : a.key = b.key) : a = b := by
  by_cases hab : a = b
  · exact hab
  · exfalso
    rcases pairwise_mem_or h.keys ha.1 hb.1 hab with h1 | h1
    · obtain ⟨t, ht, hf, hid, _⟩ := h1 ha.2.1 hb.2.1 hk
      exact ha.2.2 ⟨t, ht, hf, hid⟩
    · obtain ⟨t, ht, hf, hid, _⟩ := h1 hb.2.1 ha.2.1 hk.symm
      exact hb.2.2 ⟨t, ht, hf, hid⟩

theorem keyAt_entry (h : PInv p es) {e : Entry} (he : e ∈ es) (hf : e.flag = insertFlag) :
    p.keyAt e.off = some e.key := by
  unfold Part.keyAt
  rw [h.file]
  exact keyAt_fileOf es h.chain e he hf

theorem memID_some (h : PInv p es) {key : Bytes} {id : Nat} (hm : p.memID key = some id) :
    ∃ e ∈ es, e.flag = insertFlag ∧ e.key = key ∧ e.id = id ∧ p.bound < e.off ∧
      ∀ e' ∈ es, e'.flag = insertFlag → e'.key = key → p.bound < e'.off → e'.off ≤ e.off := by
  rw [h.memID_eq, memID_replay, base_memID] at hm
  cases hl : lastWith (fun e => decide (e.flag = insertFlag ∧ e.key = key))
      (es.filter (fun e => e.off > p.bound)) with
  | none => rw [hl] at hm; cases hm
  | some e =>
    rw [hl] at hm
    simp only [Option.some.injEq] at hm
    obtain ⟨he, hq, hr⟩ := lastWith_filter_some hl
    simp only [decide_eq_true_eq] at hq hr
    refine ⟨e, he, hq.1, hq.2, hm, hr, ?_⟩
    -- e is the LAST such entry: anything after it would have been found instead
    intro e' he' hf' hk' hb'
    apply Classical.byContradiction
    intro hgt
    have hgt : e.off < e'.off := by omega
    -- split the filtered list at e
    unfold lastWith at hl
    have hfl : e' ∈ (es.filter (fun e => e.off > p.bound)) :=
      List.mem_filter.mpr ⟨he', by simpa using hb'⟩
    have hsorted : (es.filter (fun e => e.off > p.bound)).Pairwise (fun a b => a.off < b.off) :=
      h.offInc.filter _
    have hrev : (es.filter (fun e => e.off > p.bound)).reverse.Pairwise (fun a b => b.off < a.off) :=
      List.pairwise_reverse.mpr hsorted
    -- in the reversed list, e' comes before e, and satisfies the predicate: find? would return e' or earlier
    have := List.find?_eq_some_iff_append.mp hl
    obtain ⟨_, as, bs, hsplit, hnone⟩ := this
    have hmem : e' ∈ as ++ e :: bs := by rw [← hsplit]; simpa using hfl
    rcases List.mem_append.mp hmem with h1 | h1
    · have := hnone e' h1
      simp [hf', hk'] at this
    · rcases List.mem_cons.mp h1 with h2 | h2
      · subst h2; omega
      · rw [hsplit] at hrev
        have := (List.pairwise_append.mp hrev).2.1
        have := (List.pairwise_cons.mp this).1 e' h2
        omega

theorem memID_none (h : PInv p es) {key : Bytes} (hm : p.memID key = none) :
    ∀ e ∈ es, e.flag = insertFlag → e.key = key → e.off ≤ p.bound := by
  rw [h.memID_eq, memID_replay, base_memID] at hm
  cases hl : lastWith (fun e => decide (e.flag = insertFlag ∧ e.key = key))
      (es.filter (fun e => e.off > p.bound)) with
  | some e => rw [hl] at hm; cases hm
  | none =>
    intro e he hf hk
    by_cases hb : e.off > p.bound
    · have := lastWith_none hl e (List.mem_filter.mpr ⟨he, by simpa using hb⟩)
      simp [hf, hk] at this
    · omega

/-- the on-disk part of `FindIDBySeriesKey` -/
def Part.diskID (p : Part) (key : Bytes) : Nat :=
  match p.idxFile with
  | none => 0
  | some d =>
    match d.keyID.find? (fun (off, _) => p.keyAt off == some key) with
    | some (_, id) => if p.isDeleted id then 0 else id
    | none => 0

theorem findID_def (p : Part) (key : Bytes) :
    p.findID key = match p.memID key with
      | some id => if id ≠ 0 ∧ !p.isDeleted id then id else p.diskID key
      | none => p.diskID key := by
  unfold Part.findID Part.memID Part.diskID
  cases h : p.memKeyID.find? (·.1 = key) with
  | none => rfl
  | some x => cases x; rfl

theorem live_not_deleted (h : PInv p es) {e : Entry} (hl : Live es e) : p.isDeleted e.id = false :=
  (isDeleted_false_iff h e.id).mpr ⟨hl.2.2, e, hl.1, hl.2.1, rfl⟩

/-- what the on-disk lookup returns is a live series with that key, or 0 -/
theorem diskID_cases (h : PInv p es) (key : Bytes) :
    p.diskID key = 0 ∨ ∃ e, Live es e ∧ e.key = key ∧ e.id = p.diskID key ∧ e.off ≤ p.bound := by
  unfold Part.diskID
  cases hd : p.idxFile with
  | none => exact Or.inl rfl
  | some d =>
    simp only
    cases hf : d.keyID.find? (fun (off, _) => p.keyAt off == some key) with
    | none => exact Or.inl rfl
    | some x =>
      obtain ⟨off, id⟩ := x
      simp only
      by_cases hdel : p.isDeleted id = true
      · simp [hdel]
      · simp only [hdel, if_false]
        right
        have hmem := List.mem_of_find?_eq_some hf
        have hq := List.find?_some hf
        rw [(h.disk d hd).d4] at hmem
        obtain ⟨y, hy, hyx⟩ := List.mem_map.mp hmem
        obtain ⟨e, he, hfl, hid, hoff, hle⟩ := (h.disk d hd).d1 y hy
        have hy1 : y.2 = off := by simpa using congrArg Prod.fst hyx
        have hy2 : y.1 = id := by simpa using congrArg Prod.snd hyx
        have hko : p.keyAt off = some key := by simpa using hq
        rw [← hy1, ← hoff, keyAt_entry h he hfl] at hko
        have hdel' : p.isDeleted e.id = false := by
          rw [hid, hy2]; simpa using hdel
        have := (isDeleted_false_iff h e.id).mp hdel'
        refine ⟨e, ⟨he, hfl, this.1⟩, by simpa using hko, by rw [hid, hy2]; simp, ?_⟩
        simp [Part.bound, hd, hle]

/-- a live series covered by the index file is what the on-disk lookup returns -/
theorem diskID_live (h : PInv p es) {e : Entry} (hl : Live es e) (hb : e.off ≤ p.bound) :
    p.diskID e.key = e.id := by
  have hoffpos := h.off_ge e hl.1
  unfold Part.diskID
  cases hd : p.idxFile with
  | none => simp [Part.bound, hd] at hb; simp [hdrSize] at hoffpos; omega
  | some d =>
    have hbd : p.bound = d.maxOffset := by simp [Part.bound, hd]
    simp only
    have hin : (e.id, e.off) ∈ d.idOff := by
      rcases (h.disk d hd).d2 e hl.1 hl.2.1 (by omega) with h1 | h1
      · exact h1
      · exact absurd h1 hl.2.2
    have hinK : (e.off, e.id) ∈ d.keyID := by
      rw [(h.disk d hd).d4]; exact List.mem_map.mpr ⟨(e.id, e.off), hin, rfl⟩
    cases hf : d.keyID.find? (fun (off, _) => p.keyAt off == some e.key) with
    | none =>
      have := List.find?_eq_none.mp hf _ hinK
      simp [keyAt_entry h hl.1 hl.2.1] at this
    | some x =>
      obtain ⟨off, id⟩ := x
      have hmem := List.mem_of_find?_eq_some hf
      have hq := List.find?_some hf
      rw [(h.disk d hd).d4] at hmem
      obtain ⟨y, hy, hyx⟩ := List.mem_map.mp hmem
      obtain ⟨e', he', hfl', hid', hoff', hle'⟩ := (h.disk d hd).d1 y hy
      have hy1 : y.2 = off := by simpa using congrArg Prod.fst hyx
      have hy2 : y.1 = id := by simpa using congrArg Prod.snd hyx
      have hko : p.keyAt off = some e.key := by simpa using hq
      rw [← hy1, ← hoff', keyAt_entry h he' hfl'] at hko
      have hk : e'.key = e.key := by simpa using hko
      -- e' is in the index file, so every tombstone of it lies behind the bound; were e' ≠ e,
      -- the earlier of the two would have a tombstone before the later one
      have he'e : e' = e := by
        by_cases heq : e' = e
        · exact heq
        · exfalso
          rcases pairwise_mem_or h.keys he' hl.1 heq with h1 | h1
          · obtain ⟨t, ht, hf, hid, hlt⟩ := h1 hfl' hl.2.1 hk
            have := (h.disk d hd).d3 y hy t ht hf (by rw [hid, hid'])
            omega
          · obtain ⟨t, ht, hf, hid, _⟩ := h1 hl.2.1 hfl' hk.symm
            exact hl.2.2 ⟨t, ht, hf, hid⟩
      subst he'e
      have hdel := live_not_deleted h hl
      simp only
      rw [← hy2, ← hid', hdel]
      simp

/-- **`FindIDBySeriesKey`**: the id of the live series with that key -/
theorem findID_live (h : PInv p es) {e : Entry} (hl : Live es e) : p.findID e.key = e.id := by
  rw [findID_def]
  have hdel := live_not_deleted h hl
  have hidpos := (h.idPos e hl.1 hl.2.1).1
  cases hm : p.memID e.key with
  | none =>
    simp only
    exact diskID_live h hl (memID_none h hm e hl.1 hl.2.1 rfl)
  | some id =>
    obtain ⟨em, hem, hfm, hkm, hidm, hbm, hlast⟩ := memID_some h hm
    simp only
    by_cases hcond : id ≠ 0 ∧ (!p.isDeleted id) = true
    · rw [if_pos hcond]
      -- em is live, hence it is e
      have hdm : p.isDeleted em.id = false := by rw [hidm]; simpa using hcond.2
      have := (isDeleted_false_iff h em.id).mp hdm
      have : em = e := live_unique h ⟨hem, hfm, this.1⟩ hl hkm
      rw [← hidm, this]
    · rw [if_neg hcond]
      -- em was deleted, so it is not e; e cannot lie behind em, nor behind the bound at all
      have hne : em ≠ e := by
        intro heq; subst heq
        apply hcond
        rw [← hidm]
        exact ⟨by omega, by simp [hdel]⟩
      by_cases hbe : p.bound < e.off
      · exfalso
        have hle := hlast e hl.1 hl.2.1 rfl hbe
        rcases pairwise_mem_or h.keys hl.1 hem (Ne.symm hne) with h1 | h1
        · obtain ⟨t, ht, hf, hid, _⟩ := h1 hl.2.1 hfm hkm.symm
          exact hl.2.2 ⟨t, ht, hf, hid⟩
        · obtain ⟨t, ht, hf, hid, hlt⟩ := h1 hfm hl.2.1 hkm
          -- em before e in the list means em.off < e.off, contradicting hle unless equal
          have hoff : em.off ≠ e.off := by
            intro ho
            rcases pairwise_mem_or h.offInc hem hl.1 hne with h2 | h2 <;> omega
          have : em.off < e.off ∨ e.off < em.off := by omega
          rcases this with h3 | h3
          · omega
          · -- the tombstone of em lies before e, but em itself lies after e: impossible
            obtain ⟨e2, he2, hf2, hid2, hlt2⟩ := h.tombAfter t ht hf
            have : e2 = em := h.id_unique he2 hem hf2 hfm (by rw [hid2, hid])
            subst this; omega
      · exact diskID_live h hl (by omega)

theorem findID_none (h : PInv p es) (key : Bytes) (hno : ∀ e, Live es e → e.key ≠ key) :
    p.findID key = 0 := by
  rw [findID_def]
  have hdisk : p.diskID key = 0 := by
    rcases diskID_cases h key with hz | ⟨e, hl, hk, _, _⟩
    · exact hz
    · exact absurd hk (hno e hl)
  cases hm : p.memID key with
  | none => exact hdisk
  | some id =>
    obtain ⟨em, hem, hfm, hkm, hidm, _, _⟩ := memID_some h hm
    simp only
    by_cases hcond : id ≠ 0 ∧ (!p.isDeleted id) = true
    · exfalso
      have hdm : p.isDeleted em.id = false := by rw [hidm]; simpa using hcond.2
      have := (isDeleted_false_iff h em.id).mp hdm
      exact hno em ⟨hem, hfm, this.1⟩ hkm
    · rw [if_neg hcond]; exact hdisk

/-- **`SeriesKey`** of a live series is its key -/
theorem seriesKey_live (h : PInv p es) {e : Entry} (hl : Live es e) : p.seriesKey e.id = some e.key := by
  unfold Part.seriesKey
  have hidpos := (h.idPos e hl.1 hl.2.1).1
  have hoff := findOffsetByID_live h hl.1 hl.2.1 hl.2.2
  have hoffpos := h.off_ge e hl.1
  simp only [show ¬ e.id = 0 by omega, if_false, hoff]
  have : ¬ e.off = 0 := by simp [hdrSize] at hoffpos; omega
  simp only [this, if_false]
  exact keyAt_entry h hl.1 hl.2.1

end Influx.SF
