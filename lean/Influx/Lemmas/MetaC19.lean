/-
  Lemmas.MetaC19 — the clauses of Spec.C19 on the model's steps (well-formed data, in-domain ops).
-/
import Influx.Lemmas.MetaStep
import Influx.Spec.C19

namespace Influx.Meta
open Influx.Generated.Meta
open Influx.Spec.C19

/-! ### list bookkeeping for the write clause -/

theorem write_lists {α β : Type} (f : β → Bool) (g : α → Bool) :
    ∀ (ts : List α) (ps : List β), ps.map f = ts.map g →
      ps.length = ts.length ∧ ((ts.zip ps).all fun (t, p) => f p == g t) = true ∧
      (ps.filter f).length = (ts.filter g).length := by
  intro ts
  induction ts with
  | nil => intro ps h; cases ps <;> simp_all
  | cons t ts ih =>
    intro ps h
    cases ps with
    | nil => simp at h
    | cons p ps =>
      simp only [List.map_cons, List.cons.injEq] at h
      obtain ⟨h1, h2, h3⟩ := ih ps h.2
      refine ⟨by simp [h1], by simp [h.1, h2], ?_⟩
      simp only [List.filter_cons, h.1]
      split <;> simp [h3]

/-- what `getRP` finds after `setDuration` -/
theorem getRP_setDuration {d : Data} {db rp : String} {D : Int} {r : RetentionPolicyInfo}
    (h : getRP (setDuration d db rp D) db rp = .ok r) : r.Duration = D := by
  unfold setDuration at h
  cases hr : getRP d db rp with
  | error e => simp only [hr] at h; cases h
  | ok r0 =>
    simp only [hr] at h
    have := getRP_setRP_same (r' := { r0 with Duration := D }) hr (getRP_name (r := r0) hr)
    rw [this] at h
    cases h; rfl

/-- **clause 1 on a `MapShards` step** -/
theorem ms_holds (s : State) (db rp : String) (c : Option Int) (ts : List Int) (hwf : WF s.data)
    (hts : ∀ t ∈ ts, inRange t) (hc : ∀ a, c = some a → a < modelNow) :
    holdsOp (.ms db rp c ts, (step s (.ms db rp c ts)).2) = true := by
  simp only [step]
  generalize hD : cutoffDur c = D
  generalize hd0 : setDuration s.data db rp D = d0
  have hw0 : WF d0 := by subst hd0; exact setDuration_wf hwf _ _ _
  cases hm : mapShards d0 db rp modelNow ts with
  | mk d res =>
    cases res with
    | error e => rfl
    | ok m =>
      obtain ⟨r, l, hr, hmc, hmp, hcnt⟩ := mapShards_ok hm
      have hdur : r.Duration = D := by subst hd0; exact getRP_setDuration hr
      have hspec := mapCreate_spec db rp (minTime r modelNow) ts d0 SgList.empty hw0 (SgOK.empty_ok d0 db rp) hts
      rw [hmc] at hspec
      obtain ⟨hok, _, hcov⟩ := hspec.2.2 l rfl
      have hdrop := mapPlace_dropped d db rp (minTime r modelNow) ts l _ hok hcov hmp
      -- the lower bound is the cutoff
      have hmin : ts.map (fun t => decide (t < minTime r modelNow)) = ts.map (tooOld c) := by
        apply List.map_congr_left
        intro t ht
        have htr := hts t ht
        cases c with
        | none =>
          simp only [cutoffDur] at hD
          simp only [minTime, hdur, ← hD, tooOld, unix_eq]
          simp; exact htr.1
        | some a =>
          simp only [cutoffDur] at hD
          have := hc a rfl
          simp only [minTime, hdur, ← hD, tooOld, add_eq]
          have hpos : modelNow - a > 0 := by omega
          simp only [hpos, ↓reduceIte]
          congr 1
          simp only [eq_iff_iff]; constructor <;> intro h <;> omega
      rw [hmin] at hdrop
      obtain ⟨h1, h2, h3⟩ := write_lists (· == Placement.dropped) (tooOld c) ts m.placements hdrop
      show writeOK c ts m = true
      unfold writeOK
      simp only [Bool.and_eq_true, beq_iff_eq]
      refine ⟨⟨h1, h2⟩, ?_⟩
      rw [hcnt]; exact h3

/-! ### cutoffs and durations in a `DeletionCheck` step -/

/-- the duration the `dc` step gives a policy: from the last cutoff naming it -/
def durOf (cs : List (String × String × Int)) (db rp : String) : Int :=
  match cutoffOf cs db rp with
  | some a => modelNow - a
  | none => 0

theorem durations_foldr (d : Data) (hwf : WF d) (hz : ∀ di ∈ d.Databases, ∀ r ∈ di.RetentionPolicies, r.Duration = 0) :
    ∀ (rs : List (String × String × Int)),
      let d0 := rs.foldr (fun (x : String × String × Int) d => setDuration d x.1 x.2.1 (modelNow - x.2.2)) d
      WF d0 ∧ ∀ di ∈ d0.Databases, ∀ r ∈ di.RetentionPolicies,
        r.Duration = match (rs.find? fun (x : String × String × Int) => x.1 == di.Name && x.2.1 == r.Name) with
          | some x => modelNow - x.2.2
          | none => 0 := by
  intro rs
  induction rs with
  | nil => exact ⟨hwf, fun di hdi r hr => by simpa using hz di hdi r hr⟩
  | cons c rs ih =>
    obtain ⟨hw1, h1⟩ := ih
    simp only [List.foldr_cons]
    generalize hd1 : rs.foldr (fun (x : String × String × Int) d => setDuration d x.1 x.2.1 (modelNow - x.2.2)) d = d1 at hw1 h1
    refine ⟨setDuration_wf hw1 _ _ _, ?_⟩
    intro di hdi r hr
    have hw0 := setDuration_wf hw1 c.1 c.2.1 (modelNow - c.2.2)
    have hget := getRP_of_mem hw0 hdi hr
    by_cases hmatch : c.1 = di.Name ∧ c.2.1 = r.Name
    · have : (c.1 == di.Name && c.2.1 == r.Name) = true := by simp [hmatch]
      rw [List.find?_cons_of_pos (by simpa using this)]
      rw [← hmatch.1, ← hmatch.2] at hget
      exact getRP_setDuration hget
    · have : ¬(c.1 == di.Name && c.2.1 == r.Name) = true := by simpa using hmatch
      rw [List.find?_cons_of_neg (by simpa using this)]
      -- the policy is untouched by this `setDuration`
      have hsame : getRP d1 di.Name r.Name = .ok r := by
        unfold setDuration at hget
        cases hr0 : getRP d1 c.1 c.2.1 with
        | error e => simpa [hr0] using hget
        | ok r0 =>
          simp only [hr0] at hget
          have := getRP_setRP_other (d := d1) (db := c.1) (rp := c.2.1) (db2 := di.Name) (rp2 := r.Name)
            (r' := { r0 with Duration := modelNow - c.2.2 }) (getRP_name (r := r0) hr0)
            (fun h => hmatch ⟨h.1.symm, h.2.symm⟩)
          rw [this] at hget
          exact hget
      obtain ⟨dj, hdj, hdjn, hrj, _⟩ := getRP_ok hsame
      have := h1 dj hdj r hrj
      rw [hdjn] at this
      exact this

theorem clearDurations_zero (d : Data) : ∀ di ∈ (clearDurations d).Databases, ∀ r ∈ di.RetentionPolicies, r.Duration = 0 := by
  intro di hdi r hr
  simp only [clearDurations, List.mem_map] at hdi
  obtain ⟨di0, _, rfl⟩ := hdi
  simp only [List.mem_map] at hr
  obtain ⟨r0, _, rfl⟩ := hr
  rfl

/-- after the `dc` step has set the durations: well-formed, and each duration is `durOf` -/
theorem dc_durations (d : Data) (hwf : WF d) (cs : List (String × String × Int)) :
    let d0 := cs.foldl (fun d (x : String × String × Int) => setDuration d x.1 x.2.1 (modelNow - x.2.2)) (clearDurations d)
    WF d0 ∧ ∀ di ∈ d0.Databases, ∀ r ∈ di.RetentionPolicies, r.Duration = durOf cs di.Name r.Name := by
  have := durations_foldr (clearDurations d) (clearDurations_wf hwf) (clearDurations_zero d) cs.reverse
  simp only [List.foldr_reverse] at this
  refine ⟨this.1, ?_⟩
  intro di hdi r hr
  rw [this.2 di hdi r hr]
  unfold durOf cutoffOf
  cases cs.reverse.find? (fun (x : String × String × Int) => x.1 == di.Name && x.2.1 == r.Name) <;> rfl

/-- **clause 2 on a `DeletionCheck` step** -/
theorem dc_holds (s : State) (cs : List (String × String × Int)) (hwf : WF s.data) :
    holdsOp (.dc cs, (step s (.dc cs)).2) = true := by
  simp only [step, holdsOp, deletionOK, List.all_eq_true]
  generalize hd0 : cs.foldl (fun d (x : String × String × Int) => setDuration d x.1 x.2.1 (modelNow - x.2.2)) (clearDurations s.data) = d0
  obtain ⟨hw0, hdur⟩ := dc_durations s.data hwf cs
  rw [hd0] at hw0 hdur
  -- an expired group lies entirely before its policy's cutoff
  have hexp : ∀ di ∈ d0.Databases, ∀ r ∈ di.RetentionPolicies, ∀ g ∈ expiredShardGroups r modelNow,
      (match cutoffOf cs di.Name r.Name with
       | some a => rangeOlder g a
       | none => false) = true := by
    intro di hdi r hr g hg
    have he := (mem_expired_iff r modelNow g).mp hg
    have hd := hdur di hdi r hr
    unfold durOf at hd
    cases hc : cutoffOf cs di.Name r.Name with
    | none => rw [hc] at hd; exact absurd hd he.2.2.1
    | some a =>
      rw [hc] at hd
      simp only at hd
      simp only [rangeOlder, Bool.or_eq_true, decide_eq_true_eq]
      left; have := he.2.2.2; omega
  have hrem : ∀ id, Removable d0 modelNow id → shardRemovable cs (fullDump d0) id = true := by
    rintro id ⟨di, hdi, r, hr, g, hg, hx, sh, hsh, rfl⟩
    simp only [shardRemovable, fullDump, List.any_eq_true, List.mem_flatMap, List.mem_map]
    refine ⟨(di.Name, r.Name, r.ShardGroups), ⟨di, hdi, r, hr, rfl⟩, g, hg, ?_⟩
    simp only [Bool.and_eq_true, List.any_eq_true, beq_iff_eq]
    refine ⟨⟨sh, hsh, rfl⟩, ?_⟩
    simp only [removable, Bool.or_eq_true]
    rcases hx with hx | hx
    · exact Or.inl ((deleted_iff g).mpr hx)
    · exact Or.inr (hexp di hdi r hr g hx)
  intro e he
  have hgood := deletionCheck_safe modelNow d0 s.store e he
  cases e with
  | dsg db rp id ok =>
    simp only [evOK, Bool.or_eq_true, Bool.not_eq_true']
    cases ok with
    | false => exact Or.inl rfl
    | true =>
      right
      obtain ⟨di, hdi, hdn, r, hr, hrn, g, hg, hid⟩ := hgood rfl
      simp only [fullDump, List.any_eq_true, List.mem_flatMap, List.mem_map]
      refine ⟨(di.Name, r.Name, r.ShardGroups), ⟨di, hdi, r, hr, rfl⟩, ?_⟩
      simp only [Bool.and_eq_true, beq_iff_eq, List.any_eq_true]
      refine ⟨⟨hdn, hrn⟩, g, ((mem_expired_iff r modelNow g).mp hg).1, hid, ?_⟩
      have := hexp di hdi r hr g hg
      rw [hdn, hrn] at this
      exact this
  | block id ok => simp only [evOK, Bool.and_eq_true, List.contains_eq_mem, decide_eq_true_eq]; exact ⟨hgood.1, hrem id hgood.2⟩
  | unblock id => simp only [evOK, Bool.and_eq_true, List.contains_eq_mem, decide_eq_true_eq]; exact ⟨hgood.1, hrem id hgood.2⟩
  | inUse id ok u => simp only [evOK, Bool.and_eq_true, List.contains_eq_mem, decide_eq_true_eq]; exact ⟨hgood.1, hrem id hgood.2⟩
  | delete id res => simp only [evOK, Bool.and_eq_true, List.contains_eq_mem, decide_eq_true_eq]; exact ⟨hgood.1, hrem id hgood.2⟩
  | dropRef id ok ph => simp only [evOK]; exact hrem id hgood
  | prune => rfl

/-- the statement's expiry clause holds of every `exp` step of the model -/
theorem exp_holds (s : State) (db rp : String) (D : Int) (t : Int) :
    holdsOp (.exp db rp D t, (step s (.exp db rp D t)).2) = true := by
  simp only [step]
  split
  · next r hr =>
    simp only [holdsOp, expiredOK, List.all_eq_true, List.mem_map, forall_exists_index, and_imp,
      forall_apply_eq_imp_iff₂]
    intro g hg
    have h := (mem_expired_iff { r with Duration := D } t g).mp hg
    simp only [Bool.and_eq_true, bne_iff_ne, ne_eq, List.any_eq_true, beq_iff_eq]
    refine ⟨h.2.2.1, g, h.1, rfl, ?_⟩
    simp only [rangeOlder, Bool.or_eq_true, decide_eq_true_eq]
    left; have := h.2.2.2; simp at this; omega
  · rfl

theorem dom19_of_spec {op : Op} (h : opInDomain op = true) : opDom op := by
  cases op <;> simp only [opInDomain, opDom, Spec.C19.inRange, Influx.Meta.inRange, Bool.and_eq_true, decide_eq_true_eq,
    Bool.or_eq_true, Bool.not_eq_true', List.all_eq_true] at h ⊢
  · intro hr; rcases h with h | h
    · rw [hr] at h; cases h
    · exact h
  · exact h
  · exact h
  · intro t ht; exact h.1 t ht
  · exact h
  · exact h
  · cases h

theorem all_run (ops : List Op) (hdom : ∀ op ∈ ops, opInDomain op = true) (s : State) (hwf : WF s.data) :
    (run s ops).all holdsOp = true := by
  induction ops generalizing s with
  | nil => rfl
  | cons op ops ih =>
    have hd := hdom op (by simp)
    simp only [run, List.all_cons, Bool.and_eq_true]
    refine ⟨?_, ih (fun o ho => hdom o (by simp [ho])) _ (step_wf s op hwf (dom19_of_spec hd))⟩
    cases op with
    | ms db rp c ts =>
      simp only [opInDomain, Bool.and_eq_true, List.all_eq_true, Spec.C19.inRange, decide_eq_true_eq] at hd
      refine ms_holds s db rp c ts hwf (fun t ht => hd.1 t ht) ?_
      intro a ha; subst ha; simpa using hd.2
    | dc cs => exact dc_holds s cs hwf
    | exp db rp D t => exact exp_holds s db rp D t
    | _ => simp [holdsOp]


end Influx.Meta
