/-
  Lemmas.KCDescRun — the descending cursor from seek to exhaustion.
-/
import Influx.Lemmas.KCDesc
import Influx.Lemmas.KCAscRun

namespace Influx.KC
open Influx.Generated.KeyCursor

variable {V : Type} {n : Nat}

theorem readLoop_desc {B : Vector (Block V) n} (hwf : ∀ i : Fin n, BlockWF B[i]) (hord : OrderOKv B) :
    ∀ (cur : List (Fin n)) (rd : Marks n) (W : Int), InvD B rd W cur →
      ((readLoop false B cur rd).2.2 = [] ∧ ∀ i : Fin n, curVals B rd i = []) ∨
      (∃ W', W' < W ∧ InvD B (readLoop false B cur rd).1 W' (readLoop false B cur rd).2.1 ∧
        (∃ pre, cur = pre ++ (readLoop false B cur rd).2.1) ∧
        SortedV (readLoop false B cur rd).2.2 ∧ (readLoop false B cur rd).2.2 ≠ [] ∧
        ∀ p, p ∈ (readLoop false B cur rd).2.2 ↔ IsWinner B p ∧ W' ≤ p.1 ∧ p.1 < W) := by
  intro cur
  induction cur with
  | nil =>
    intro rd W inv
    left
    refine ⟨rfl, ?_⟩
    intro i
    apply Classical.byContradiction
    intro h
    exact absurd (inv.cover i h) (by simp)
  | cons f rest ih =>
    intro rd W inv
    unfold readLoop
    simp only [firstVals_eq_curVals hwf]
    by_cases he : (curVals B rd f).isEmpty = true
    · simp only [he, if_true]
      have he' : curVals B rd f = [] := List.isEmpty_iff.1 he
      rcases ih rd W (inv.drop he') with h | ⟨W', h1, h2, ⟨pre, h3⟩, h4⟩
      · exact Or.inl h
      · exact Or.inr ⟨W', h1, h2, ⟨f :: pre, by rw [List.cons_append, ← h3]⟩, h4⟩
    · simp only [he]
      have hne : curVals B rd f ≠ [] := fun e => he (List.isEmpty_iff.2 e)
      right
      cases rest with
      | nil =>
        obtain ⟨lo, hlo⟩ := minTime?_isSome hne
        obtain ⟨hi, hhi⟩ := maxTime?_isSome hne
        have hm : readMulti false B rd f [] (curVals B rd f) = (markAt rd f lo hi, curVals B rd f) := by
          unfold readMulti windowInit
          simp [hlo, hhi, growMax, firstOverlap, mergeLoop]
        obtain ⟨W', h1, h2, h3, h4, h5⟩ := readMulti_desc hwf hord inv hne
        rw [hm] at h2 h3 h4 h5
        simp only [hlo, hhi]
        exact ⟨W', h1, h2, ⟨[], rfl⟩, h3, h4, h5⟩
      | cons r rs =>
        obtain ⟨W', h1, h2, h3, h4, h5⟩ := readMulti_desc hwf hord inv hne
        exact ⟨W', h1, h2, ⟨[], rfl⟩, h3, h4, h5⟩

/-- the `c.pos--` loop of nextDescending finds the last unread location before `pos` -/
theorem scanDesc_spec (B : Vector (Block V) n) (rd : Marks n) :
    ∀ (k : Nat) (p : Int), p ≤ n → 1 ≤ k → p + 1 ≤ k →
      ∃ p' r, scanDesc B rd k p = some (p', r) ∧ p' < n ∧
        match r with
        | none => ∀ j : Fin n, (j.val : Int) < p → isRead B rd j = true
        | some i => p' = i.val ∧ (i.val : Int) < p ∧ isRead B rd i = false ∧
            ∀ j : Fin n, (j.val : Int) < p → i.val < j.val → isRead B rd j = true := by
  intro k
  induction k with
  | zero => intro p _ h; omega
  | succ k ih =>
    intro p hp _ hk
    unfold scanDesc
    simp only
    by_cases hlt : p - 1 < 0
    · simp only [hlt, if_true]
      refine ⟨p - 1, none, rfl, by omega, ?_⟩
      intro j hj
      omega
    · simp only [hlt, if_false]
      obtain ⟨i, hi, hiv⟩ := fin?_eq_some (n := n) (p := p - 1) (by omega) (by omega)
      simp only [hi]
      cases hr : isRead B rd i with
      | false =>
        simp only [Bool.not_false, if_true]
        refine ⟨p - 1, some i, rfl, by omega, hiv.symm, by omega, hr, ?_⟩
        intro j h1 h2; omega
      | true =>
        simp only [Bool.not_true, Bool.false_eq_true, if_false]
        obtain ⟨p', r, h1, h0, h2⟩ := ih (p - 1) (by omega) (by omega) (by omega)
        refine ⟨p', r, h1, h0, ?_⟩
        cases r with
        | none =>
          intro j hj
          by_cases e : (j.val : Int) = p - 1
          · have : j = i := Fin.ext (by omega)
            rw [this]; exact hr
          · exact h2 j (by omega)
        | some i' =>
          obtain ⟨a, b, c, d⟩ := h2
          refine ⟨a, by omega, c, ?_⟩
          intro j hj hj'
          by_cases e : (j.val : Int) = p - 1
          · have : j = i := Fin.ext (by omega)
            rw [this]; exact hr
          · exact d j (by omega) hj'

/-- KeyCursor.Next keeps the descending invariant -/
theorem next_desc {c : Cursor V n} (hwf : ∀ i : Fin n, BlockWF c.blocks[i]) {W : Int} (hdesc : c.ascending = false)
    (inv : InvD c.blocks c.rd W c.current) (hpos : c.pos ≤ n)
    (hp2 : ∀ i ∈ c.current, (i.val : Int) ≤ c.pos) :
    ∃ c', c.next = some c' ∧ c'.blocks = c.blocks ∧ c'.rd = c.rd ∧ c'.ascending = false ∧
      InvD c.blocks c.rd W c'.current ∧ c'.pos ≤ n ∧ ∀ i ∈ c'.current, (i.val : Int) ≤ c'.pos := by
  unfold Cursor.next
  cases hcur : c.current with
  | nil =>
    simp only
    exact ⟨c, rfl, rfl, rfl, hdesc, hcur ▸ inv, hpos, by rw [hcur]; simp⟩
  | cons f rest =>
    simp only
    cases hr : isRead c.blocks c.rd f with
    | false =>
      simp only [Bool.not_false, if_true]
      exact ⟨c, rfl, rfl, rfl, hdesc, hcur ▸ inv, hpos, hcur ▸ hp2⟩
    | true =>
      simp only [Bool.not_true, Bool.false_eq_true, if_false, hdesc]
      have hshape : ShapeD (f :: rest) := by rw [← hcur]; exact inv.shape
      obtain ⟨hdecr, hlef⟩ : rest.Pairwise (· > ·) ∧ ∀ b ∈ rest, b ≤ f := hshape
      have hfpos : (f.val : Int) ≤ c.pos := hp2 f (by rw [hcur]; exact List.mem_cons_self ..)
      have hbefore : ∀ j : Fin n, curVals c.blocks c.rd j ≠ [] → (j.val : Int) < c.pos ∧ isRead c.blocks c.rd j = false := by
        intro j hj
        have hjc : j ∈ f :: rest := hcur ▸ inv.cover j hj
        have hjr : isRead c.blocks c.rd j = false := by
          cases h : isRead c.blocks c.rd j with
          | false => rfl
          | true => exact absurd (curVals_nil_of_isRead hwf h) hj
        refine ⟨?_, hjr⟩
        have hne : j ≠ f := by
          intro e; rw [e, hr] at hjr; cases hjr
        rcases List.mem_cons.1 hjc with e | hjr'
        · exact absurd e hne
        · have h1 : j.val ≤ f.val := hlef j hjr'
          have h2 : j.val ≠ f.val := fun e => hne (Fin.ext e)
          omega
      obtain ⟨p', r, hs, hp0, hspec⟩ := scanDesc_spec c.blocks c.rd (n + 1) c.pos (by omega) (by omega) (by omega)
      rw [hs]
      cases r with
      | none =>
        simp only
        refine ⟨_, rfl, rfl, rfl, rfl, ?_, Int.le_of_lt hp0, by simp⟩
        refine { rmax := inv.rmax, rmin := inv.rmin, done := inv.done, cover := ?_, shape := trivial }
        intro j hj
        obtain ⟨h1, h2⟩ := hbefore j hj
        rw [hspec j h1] at h2; cases h2
      | some i =>
        simp only
        obtain ⟨hp', hpi, hir, hbetween⟩ := hspec
        refine ⟨_, rfl, rfl, rfl, rfl, ?_, Int.le_of_lt hp0, ?_⟩
        · refine { rmax := inv.rmax, rmin := inv.rmin, done := inv.done, cover := ?_, shape := ?_ }
          · intro j hj
            obtain ⟨h1, h2⟩ := hbefore j hj
            by_cases hji : i.val < j.val
            · rw [hbetween j h1 hji] at h2; cases h2
            · apply List.mem_cons_of_mem
              apply List.mem_reverse.2
              apply List.mem_filter.2
              refine ⟨List.mem_finRange j, ?_⟩
              have : j.val ≤ i.val := by omega
              simp [this, h2]
          · constructor
            · apply List.pairwise_reverse.2
              exact ((List.pairwise_lt_finRange n).filter _).imp (fun h => h)
            · intro j hj
              have := (List.mem_filter.1 (List.mem_reverse.1 hj)).2
              simp at this
              exact Fin.le_def.2 this.1
        · intro j hj
          dsimp only at hj ⊢
          rcases List.mem_cons.1 hj with rfl | hj
          · omega
          · have := (List.mem_filter.1 (List.mem_reverse.1 hj)).2
            simp at this
            omega

/-- number of stored points below `W` -/
def cntBelow (B : Vector (Block V) n) (W : Int) : Nat :=
  ((List.finRange n).flatMap fun i => B[i].vals).countP fun p => decide (p.1 < W)

theorem cntBelow_lt {B : Vector (Block V) n} {W W' : Int} (hW : W' ≤ W) {i : Fin n} {p : Int × V}
    (hp : p ∈ B[i].vals) (h1 : W' ≤ p.1) (h2 : p.1 < W) : cntBelow B W' < cntBelow B W := by
  unfold cntBelow
  apply countP_lt_of_witness (x := p)
  · intro x hx
    simp at hx ⊢; omega
  · exact List.mem_flatMap.2 ⟨i, List.mem_finRange i, hp⟩
  · simp [h2]
  · simp; omega

/-- A descending cursor whose marks satisfy the invariant for watermark `W` delivers exactly the
    newest-file-wins points below `W`: the blocks in reverse call order concatenate to the
    ascending list of those points, each once. -/
theorem drain_desc {B : Vector (Block V) n} (hwf : ∀ i : Fin n, BlockWF B[i]) (hord : OrderOKv B) :
    ∀ (k : Nat) (c : Cursor V n) (W : Int), c.blocks = B → c.ascending = false →
      InvD B c.rd W c.current → c.pos ≤ n → (∀ i ∈ c.current, (i.val : Int) ≤ c.pos) →
      cntBelow B W < k →
      ∃ bs, c.drain k = some bs ∧ SortedV bs.reverse.flatten ∧ (∀ b ∈ bs, b ≠ []) ∧
        ∀ p, p ∈ bs.reverse.flatten ↔ IsWinner B p ∧ p.1 < W := by
  intro k
  induction k with
  | zero => intro c W _ _ _ _ _ h; omega
  | succ k ih =>
    intro c W hB hdesc inv hpos hp2 hk
    unfold Cursor.drain Cursor.readBlock
    simp only [hB, hdesc]
    rcases readLoop_desc hwf hord c.current c.rd W inv with ⟨hv, hnil⟩ | ⟨W', hW, inv', ⟨pre, hpre⟩, hsv, hne, hmem⟩
    · simp only [hv, List.isEmpty_nil, if_true]
      refine ⟨[], rfl, by simp [SortedV], by simp, ?_⟩
      intro p
      simp only [List.reverse_nil, List.flatten_nil, List.not_mem_nil, false_iff]
      rintro ⟨⟨i, hl, _⟩, hw⟩
      have := (inv.mem_unread hwf).2 ⟨hl, hw⟩
      rw [hnil i] at this; cases this
    · have hne' : (readLoop false B c.current c.rd).2.2.isEmpty = false := by
        cases h : (readLoop false B c.current c.rd).2.2 with
        | nil => exact absurd h hne
        | cons _ _ => rfl
      simp only [hne']
      let c1 : Cursor V n := { blocks := B, rd := (readLoop false B c.current c.rd).1, current := (readLoop false B c.current c.rd).2.1, pos := c.pos, ascending := false }
      have hp2' : ∀ i ∈ c1.current, (i.val : Int) ≤ c1.pos := by
        intro i hi
        apply hp2 i
        rw [hpre]
        exact List.mem_append_right _ hi
      obtain ⟨c2, hn, hb2, hrd2, hdesc2, inv2, hpos2, hp22⟩ :=
        next_desc (c := c1) hwf (W := W') rfl inv' hpos hp2'
      have hn' : Cursor.next { blocks := B, rd := (readLoop false B c.current c.rd).1, current := (readLoop false B c.current c.rd).2.1, pos := c.pos, ascending := false } = some c2 := hn
      simp only [Bool.false_eq_true, if_false, hn']
      have hdec : cntBelow B W' < cntBelow B W := by
        cases hvs : (readLoop false B c.current c.rd).2.2 with
        | nil => exact absurd hvs hne
        | cons p ps =>
          have hp : p ∈ (readLoop false B c.current c.rd).2.2 := by rw [hvs]; exact List.mem_cons_self ..
          obtain ⟨⟨i, hl, _⟩, h1, h2⟩ := (hmem p).1 hp
          exact cntBelow_lt (Int.le_of_lt hW) (mem_live.1 hl).1 h1 h2
      have hb2' : c2.blocks = B := hb2
      obtain ⟨bs, hd, hs, hnb, hm⟩ := ih c2 W' hb2' hdesc2
        (by rw [hrd2]; exact inv2) hpos2 hp22 (by omega)
      refine ⟨(readLoop false B c.current c.rd).2.2 :: bs, by rw [hd]; rfl, ?_, ?_, ?_⟩
      · rw [List.reverse_cons, List.flatten_append]
        apply List.pairwise_append.2
        refine ⟨hs, by simp only [List.flatten_cons, List.flatten_nil, List.append_nil]; exact hsv, ?_⟩
        intro a ha b hb
        have := ((hm a).1 ha).2
        have hb' : b ∈ (readLoop false B c.current c.rd).2.2 := by simpa using hb
        have := ((hmem b).1 hb').2.1
        omega
      · intro b hb
        rcases List.mem_cons.1 hb with rfl | hb
        · exact hne
        · exact hnb b hb
      · intro p
        rw [List.reverse_cons, List.flatten_append, List.mem_append, hm p]
        have : p ∈ [(readLoop false B c.current c.rd).2.2].flatten ↔ p ∈ (readLoop false B c.current c.rd).2.2 := by simp
        rw [this, hmem p]
        constructor
        · rintro (⟨h1, h2⟩ | ⟨h1, _, h2⟩)
          · exact ⟨h1, by omega⟩
          · exact ⟨h1, h2⟩
        · rintro ⟨h1, h2⟩
          by_cases h : W' ≤ p.1
          · exact Or.inr ⟨h1, h, h2⟩
          · exact Or.inl ⟨h1, by omega⟩

end Influx.KC
