/-
  Lemmas.DelPredTotal — `Matches` terminates without panic on every key, for
  every protobuf tree `NewProtobufPredicate` accepts.
-/
import Influx.Lemmas.DelPredEval

namespace Influx.Model.DelPred

theorem update_some (g : Nat) (vals : List (Option Bytes)) (n : PNode) (hwf : WFn vals.length n) :
    ∃ r n', update g vals n = some (r, n') ∧ strip n' = strip n ∧ (GenLE g n → GenLE g n') := by
  induction n with
  | cmp c neq l r =>
    unfold update
    by_cases hcg : c.gen = g
    · exact ⟨c.resp, .cmp c neq l r, by simp [hcg], rfl, id⟩
    · simp only [hcg, if_false]
      obtain ⟨lx, hl1, _⟩ := operandVal_of_WF vals l hwf.1
      obtain ⟨rx, hr1, _⟩ := operandVal_of_WF vals r hwf.2
      rw [hl1]
      cases lx with
      | none => exact ⟨_, _, rfl, rfl, id⟩
      | some lv =>
        simp only
        rw [hr1]
        cases rx with
        | none => exact ⟨_, _, rfl, rfl, id⟩
        | some rv => exact ⟨_, _, rfl, rfl, fun _ => genLE_cmp.2 (Nat.le_refl g)⟩
  | and c l r ihl ihr =>
    obtain ⟨hwl, hwr⟩ := hwf
    unfold update
    by_cases hcg : c.gen = g
    · exact ⟨c.resp, .and c l r, by simp [hcg], rfl, id⟩
    · simp only [hcg, if_false]
      obtain ⟨rl, l', hul, hsl, hgl⟩ := ihl hwl
      obtain ⟨rr, r', hur, hsr, hgr⟩ := ihr hwr
      rw [hul]
      cases rl with
      | false_ => exact ⟨_, _, rfl, by simp [strip, hsl], fun h => by have h := genLE_and.1 h; exact genLE_and.2 ⟨Nat.le_refl g, hgl h.2.1, h.2.2⟩⟩
      | needMore => exact ⟨_, _, rfl, by simp [strip, hsl], fun h => by have h := genLE_and.1 h; exact genLE_and.2 ⟨h.1, hgl h.2.1, h.2.2⟩⟩
      | true_ =>
        simp only
        rw [hur]
        cases rr with
        | false_ => exact ⟨_, _, rfl, by simp [strip, hsl, hsr], fun h => by have h := genLE_and.1 h; exact genLE_and.2 ⟨by first | exact Nat.le_refl g | exact h.1, hgl h.2.1, hgr h.2.2⟩⟩
        | needMore => exact ⟨_, _, rfl, by simp [strip, hsl, hsr], fun h => by have h := genLE_and.1 h; exact genLE_and.2 ⟨by first | exact Nat.le_refl g | exact h.1, hgl h.2.1, hgr h.2.2⟩⟩
        | true_ => exact ⟨_, _, rfl, by simp [strip, hsl, hsr], fun h => by have h := genLE_and.1 h; exact genLE_and.2 ⟨by first | exact Nat.le_refl g | exact h.1, hgl h.2.1, hgr h.2.2⟩⟩
  | or c l r ihl ihr =>
    obtain ⟨hwl, hwr⟩ := hwf
    unfold update
    by_cases hcg : c.gen = g
    · exact ⟨c.resp, .or c l r, by simp [hcg], rfl, id⟩
    · simp only [hcg, if_false]
      obtain ⟨rl, l', hul, hsl, hgl⟩ := ihl hwl
      obtain ⟨rr, r', hur, hsr, hgr⟩ := ihr hwr
      rw [hul]
      cases rl with
      | true_ => exact ⟨_, _, rfl, by simp [strip, hsl], fun h => by have h := genLE_or.1 h; exact genLE_or.2 ⟨Nat.le_refl g, hgl h.2.1, h.2.2⟩⟩
      | false_ =>
        simp only
        rw [hur]
        cases rr with
        | true_ => exact ⟨_, _, rfl, by simp [strip, hsl, hsr], fun h => by have h := genLE_or.1 h; exact genLE_or.2 ⟨by first | exact Nat.le_refl g | exact h.1, hgl h.2.1, hgr h.2.2⟩⟩
        | false_ => exact ⟨_, _, rfl, by simp [strip, hsl, hsr], fun h => by have h := genLE_or.1 h; exact genLE_or.2 ⟨by first | exact Nat.le_refl g | exact h.1, hgl h.2.1, hgr h.2.2⟩⟩
        | needMore => exact ⟨_, _, rfl, by simp [strip, hsl, hsr], fun h => by have h := genLE_or.1 h; exact genLE_or.2 ⟨by first | exact Nat.le_refl g | exact h.1, hgl h.2.1, hgr h.2.2⟩⟩
      | needMore =>
        simp only
        rw [hur]
        cases rr with
        | true_ => exact ⟨_, _, rfl, by simp [strip, hsl, hsr], fun h => by have h := genLE_or.1 h; exact genLE_or.2 ⟨by first | exact Nat.le_refl g | exact h.1, hgl h.2.1, hgr h.2.2⟩⟩
        | false_ => exact ⟨_, _, rfl, by simp [strip, hsl, hsr], fun h => by have h := genLE_or.1 h; exact genLE_or.2 ⟨by first | exact Nat.le_refl g | exact h.1, hgl h.2.1, hgr h.2.2⟩⟩
        | needMore => exact ⟨_, _, rfl, by simp [strip, hsl, hsr], fun h => by have h := genLE_or.1 h; exact genLE_or.2 ⟨by first | exact Nat.le_refl g | exact h.1, hgl h.2.1, hgr h.2.2⟩⟩

/-! ### each pop consumes at least one byte -/

theorem cut_snd_length (c : Nat) (s y : Bytes) (h : (cut c s).2 = some y) : y.length < s.length := by
  induction s with
  | nil => simp [cut] at h
  | cons b s ih =>
    rw [cut] at h
    by_cases hbc : b = c
    · simp [hbc] at h; subst h; simp
    · simp only [hbc, if_false] at h
      have := ih h
      simp only [List.length_cons]; omega

theorem splitUnesc_length (c : Nat) (pb : Bool) (s x y : Bytes) (h : splitUnesc c pb s = some (x, y)) :
    y.length < s.length := by
  induction s generalizing pb x with
  | nil => simp [splitUnesc] at h
  | cons b s ih =>
    rw [splitUnesc] at h
    by_cases hc : b = c ∧ pb = false
    · simp [hc] at h; obtain ⟨_, rfl⟩ := h; simp
    · simp only [hc, if_false] at h
      cases hs : splitUnesc c (b == 92) s with
      | none => simp [hs] at h
      | some v =>
        obtain ⟨x', y'⟩ := v
        simp [hs] at h
        obtain ⟨_, rfl⟩ := h
        have := ih _ _ hs
        simp only [List.length_cons]; omega

theorem popTag_rest_lt (s : Bytes) (hs : s ≠ []) : (popTag s).2.2.length < s.length := by
  unfold popTag
  simp only
  cases h : (cut 44 s).2 with
  | none =>
    simp only [Option.getD_none, List.length_nil]
    cases s with
    | nil => exact absurd rfl hs
    | cons a l => simp
  | some y => simpa using cut_snd_length 44 s y h

theorem popTagEscape_rest_lt (s : Bytes) (hs : s ≠ []) : (popTagEscape s).2.2.length < s.length := by
  have hpos : 0 < s.length := by
    cases s with
    | nil => exact absurd rfl hs
    | cons a l => simp
  unfold popTagEscape
  cases h : splitUnesc 44 false s with
  | none =>
    simp only
    cases splitUnesc 61 false s with
    | none => simpa using hpos
    | some v => obtain ⟨t, v'⟩ := v; simpa using hpos
  | some ab =>
    obtain ⟨a, b⟩ := ab
    simp only
    have := splitUnesc_length 44 false s a b h
    cases splitUnesc 61 false a with
    | none => simpa using this
    | some v => obtain ⟨t, v'⟩ := v; simpa using this

/-- **The loop of `Matches` terminates within `len(key)` iterations and never panics.** -/
theorem matchLoop_total (em : Bool) (fuel : Nat) (m : Matcher) (key : Bytes)
    (hfuel : key.length ≤ fuel) (hwf : WFn m.values.length m.root) :
    ∃ b m', matchLoop em fuel m key = some (b, m') ∧ strip m'.root = strip m.root ∧
      m'.values.length = m.values.length ∧ m'.locs = m.locs ∧ m'.gen = m.gen ∧
      (GenLE m.gen m.root → GenLE m.gen m'.root) := by
  induction fuel generalizing m key with
  | zero =>
    have : key = [] := List.eq_nil_of_length_eq_zero (by omega)
    subst this
    exact ⟨false, m, by simp [matchLoop], rfl, rfl, rfl, rfl, id⟩
  | succ f ih =>
    rw [matchLoop]
    by_cases hk : key = []
    · exact ⟨false, m, by simp [hk], rfl, rfl, rfl, rfl, id⟩
    · simp only [hk, if_false]
      have hrest : (if em = true then popTagEscape key else popTag key).2.2.length ≤ f := by
        cases em with
        | true => simp only [if_true]; have := popTagEscape_rest_lt key hk; omega
        | false => simp only [Bool.false_eq_true, if_false]; have := popTag_rest_lt key hk; omega
      generalize (if em = true then popTagEscape key else popTag key) = p at hrest
      obtain ⟨tag, value, rest⟩ := p
      simp only at hrest ⊢
      cases tag with
      | none => exact ih m rest hrest hwf
      | some t =>
        simp only
        cases hi : m.locs.idxOf? t with
        | none => exact ih m rest hrest hwf
        | some i =>
          simp only
          have hwf1 : WFn (m.values.set i value).length m.root := by simpa using hwf
          obtain ⟨r, root', hu, hs, hgp⟩ := update_some m.gen (m.values.set i value) m.root hwf1
          rw [hu]
          cases r with
          | true_ => exact ⟨true, _, rfl, hs, by simp, rfl, rfl, hgp⟩
          | false_ => exact ⟨false, _, rfl, hs, by simp, rfl, rfl, hgp⟩
          | needMore =>
            simp only
            have hwf2 : WFn (m.values.set i value).length root' := (WFn_congr hs _).2 hwf1
            obtain ⟨b, m', h1, h2, h3, h4, h5, h6⟩ :=
              ih { m with values := m.values.set i value, root := root' } rest hrest hwf2
            exact ⟨b, m', h1, h2.trans hs, by simpa using h3, h4, h5, fun h => h6 (hgp h)⟩

theorem genLE_succ {g : Nat} (n : PNode) (hg : GenLE g n) : GenLE (g + 1) n := by
  induction n with
  | cmp c neq l r => exact genLE_cmp.2 (Nat.le_succ_of_le (genLE_cmp.1 hg))
  | and c l r ihl ihr =>
    obtain ⟨a, b, c'⟩ := genLE_and.1 hg
    exact genLE_and.2 ⟨Nat.le_succ_of_le a, ihl b, ihr c'⟩
  | or c l r ihl ihr =>
    obtain ⟨a, b, c'⟩ := genLE_or.1 hg
    exact genLE_or.2 ⟨Nat.le_succ_of_le a, ihl b, ihr c'⟩

theorem matches_total (m : Matcher) (key : Bytes) (hwf : WFn m.values.length m.root) :
    ∃ b m', m.matches key = some (b, m') ∧ WFn m'.values.length m'.root ∧
      strip m'.root = strip m.root ∧ m'.values.length = m.values.length ∧ m'.locs = m.locs ∧
      (GenLE m.gen m.root → GenLE m'.gen m'.root) := by
  unfold Matcher.matches
  have hwfR : WFn m.reset.values.length m.reset.root := by simpa [Matcher.reset] using hwf
  obtain ⟨b, m', h1, h2, h3, h4, h5, h6⟩ :=
    matchLoop_total ((cutFieldSep key).contains 92) (cutFieldSep key).length m.reset (cutFieldSep key)
      (Nat.le_refl _) hwfR
  refine ⟨b, m', h1, ?_, h2, by rw [h3]; simp [Matcher.reset], h4, ?_⟩
  · rw [h3]
    exact (WFn_congr h2 _).2 hwfR
  · intro hg
    rw [h5]
    exact h6 (genLE_succ _ hg)

/-! ### every tree that compiles has its slot indices in range -/

theorem buildOperand_WF (L : List Bytes) (d : DNode) (o : Operand) (h : buildOperand L d = some o) :
    opWF L.length o := by
  cases d with
  | tagRef k =>
    simp only [buildOperand, Option.map_eq_some_iff] at h
    obtain ⟨i, hi, rfl⟩ := h
    have : L[i]? = some k ∨ True := Or.inr trivial
    -- idxOf? returns an index inside the list
    simp only [List.idxOf?] at hi
    have := List.findIdx?_eq_some_iff_getElem.1 hi
    exact this.1
  | strLit v => simp only [buildOperand, Option.some.injEq] at h; subst h; trivial
  | cmp neq l r => simp [buildOperand] at h
  | logical o l r => simp [buildOperand] at h

theorem buildNode_WF (L : List Bytes) (d : DNode) (n : PNode) (h : buildNode L d = some n) :
    WFn L.length n := by
  induction d generalizing n with
  | tagRef k => simp [buildNode] at h
  | strLit v => simp [buildNode] at h
  | cmp neq l r _ _ =>
    simp only [buildNode] at h
    cases hl : buildOperand L l with
    | none => simp [hl] at h
    | some lo =>
      cases hr : buildOperand L r with
      | none => simp [hl, hr] at h
      | some ro =>
        simp [hl, hr] at h
        subst h
        exact ⟨buildOperand_WF L l lo hl, buildOperand_WF L r ro hr⟩
  | logical o l r ihl ihr =>
    simp only [buildNode] at h
    cases hl : buildNode L l with
    | none => simp [hl] at h
    | some ln =>
      cases hr : buildNode L r with
      | none => simp [hl, hr] at h
      | some rn =>
        simp [hl, hr] at h
        subst h
        cases o <;> exact ⟨ihl ln hl, ihr rn hr⟩

theorem newMatcher_WF (d : DNode) (m : Matcher) (h : newMatcher d = some m) :
    WFn m.values.length m.root := by
  simp only [newMatcher, Option.map_eq_some_iff] at h
  obtain ⟨root, hr, rfl⟩ := h
  simpa using buildNode_WF _ d root hr

end Influx.Model.DelPred
