/-
  Lemmas.DurableQueueSim — the C26 model refines the statement checker
  `Spec.C26`: simulation between the byte-level queue and one abstract queue
  (`World`) kept by the checker, for every operation including torn appends /
  torn footer rewrites that are not footer-like.
-/
import Influx.Lemmas.DurableQueueQ
namespace Influx.DQ
open Influx.Spec.C26

/-- bytes an operation may add to a segment file -/
def opCost : Op → Nat
  | .append b => b.length + 16
  | .crashAppend b _ => b.length + 16
  | _ => 0

def cost (ops : List Op) : Nat := (ops.map opCost).sum

/-- what a case must respect: segment size at least a footer; entries non-empty
    (the scanner skips zero-length records) -/
def ValidOp : Op → Prop
  | .openQ _ g => 8 ≤ g
  | .append b => b ≠ []
  | .crashAppend b _ => b ≠ []
  | _ => True

/-- the crash leaves a file whose last 8 bytes do NOT pass for a head position
    (`TearNotFooterLike`: the negation of the known finding F10) -/
def GoodCrash : State → Op → Prop
  | some q, .crashAppend b k => ∀ o, (q.crashAppendFiles b k).2 = some o → o.footerLike = false
  | some q, .crashAdv k => ∀ o, (q.crashAdvFiles verifyAll k).2 = some o → o.footerLike = false
  | some q, .crashSeg b k => ∀ o, (q.crashSegFiles b k).2 = some o → o.same ≠ 0
  | _, _ => True

def GoodRun : State → List Op → Prop
  | _, [] => True
  | s, op :: ops => GoodCrash s op ∧ GoodRun (step s op).1 ops

/-- the model queue `q` is explained by the abstract queue `w` -/
structure Sim (q : Q) (w : World) (B : Nat) : Prop where
  ex : ∃ pre done r rs, QWF q.segs q.maxSeg done r rs B ∧ w.log = pre ++ done ++ (r ++ rs.flatten) ∧
        w.cur = pre.length + done.length ∧ w.cur ≤ w.lo ∧ (∀ y ∈ done ++ (r ++ rs.flatten), y ≠ [])
  cfg : ¬ q.maxSize < 2 * q.maxSeg

def Rel (B : Nat) : State → SpecState → Prop
  | none, none => True
  | some q, some ws => ∃ w, w ∈ ws ∧ Sim q w B
  | _, _ => False

theorem qOpen_empty (m g : Nat) (hm : ¬ m < 2 * g) :
    ∃ q, qOpen verifyAll m g [] = some q ∧ q.segs = [freshS g] ∧ q.maxSeg = g ∧ q.maxSize = m := by
  unfold qOpen
  rw [if_neg hm]
  simp only [List.mapM_nil]
  show ∃ q, (match (some [] : Option (List Seg)) with
    | none => none
    | some segs => _) = some q ∧ _
  simp only [List.filter_nil, List.isEmpty_nil, if_true, Q.addSegment, List.nil_append]
  have hcur : (⟨be64 0, 0, g⟩ : Seg).current = .error .eof := current_wf_nil (fresh_wf g)
  simp only [hcur]
  obtain ⟨t1, t2, t3⟩ := trimHead_single
    ({ segs := [⟨be64 0, 0, g⟩], maxSize := m, maxSeg := g, total := 0 } : Q) ⟨be64 0, 0, g⟩ rfl
  refine ⟨_, rfl, ?_, t2, t3⟩
  rw [t1]
  by_cases hf : (⟨be64 0, 0, g⟩ : Seg).full = true
  · rw [if_pos hf]
  · rw [if_neg hf]; rfl


theorem mem_flatMap_of {ws : List World} {w w' : World} {f : World → List World}
    (hw : w ∈ ws) (hw' : w' ∈ f w) : w' ∈ ws.flatMap f := List.mem_flatMap.mpr ⟨w, hw, hw'⟩

theorem sim_append {q : Q} {w : World} {B : Nat} (h : Sim q w B) (b : Bytes) (hb : b ≠ []) (hB : b.length + 16 ≤ B) :
    ∃ w', w' ∈ wstep w (.append b) (step (some q) (.append b)).2 ∧
      ∃ q', (step (some q) (.append b)).1 = some q' ∧ Sim q' w' (B - (b.length + 16)) := by
  obtain ⟨pre, done, r, rs, hq, hlog, hcur, hlo, hne⟩ := h.ex
  simp only [step]
  rcases qwf_append hq b hB with ⟨hres, hsame⟩ | ⟨hres, hms, hmx, r', rs', hq', hR⟩
  · rw [show q.append b = ((q.append b).1, (q.append b).2) from rfl, hres, hsame]
    exact ⟨w, by simp [wstep], q, rfl, ⟨⟨pre, done, r, rs, hq.mono (Nat.sub_le _ _), hlog, hcur, hlo, hne⟩, h.cfg⟩⟩
  · rw [show q.append b = ((q.append b).1, (q.append b).2) from rfl, hres]
    refine ⟨{ w with log := w.log ++ [b] }, by simp [wstep], _, rfl, ⟨⟨pre, done, r', rs', ?_, ?_, hcur, hlo, ?_⟩, ?_⟩⟩
    · rw [hms]; exact hq'
    · simp only [hlog, hR]; simp
    · intro y hy
      rw [hR] at hy
      simp only [List.mem_append, List.mem_singleton] at hy
      rcases hy with hy | (hy | hy) | hy
      · exact hne y (by simp [hy])
      · exact hne y (by simp [hy])
      · exact hne y (by simp [hy])
      · rw [hy]; exact hb
    · rw [hms, hmx]; exact h.cfg

theorem sim_cur {q : Q} {w : World} {B : Nat} (h : Sim q w B) :
    w ∈ wstep w .cur (step (some q) .cur).2 := by
  obtain ⟨pre, done, r, rs, hq, hlog, hcur, hlo, hne⟩ := h.ex
  simp only [step]
  cases r with
  | nil =>
    obtain ⟨hd, t, hsegs, hwf, htail, hemp⟩ := hq.shape
    obtain ⟨hrs, _⟩ := hemp rfl
    subst hrs
    rw [qwf_current_nil hq]
    have : w.cur = w.log.length := by simp [hlog, hcur]
    simp [wstep, this]
  | cons x r' =>
    rw [qwf_current_cons hq]
    have : w.log[w.cur]? = some x := by
      have e : w.log = (pre ++ done) ++ x :: (r' ++ rs.flatten) := by rw [hlog]; simp
      have c : w.cur = (pre ++ done).length := by rw [hcur]; simp
      rw [e, c]; simp
    simp [wstep, this]

theorem sim_adv {q : Q} {w : World} {B : Nat} (h : Sim q w B) :
    ∃ w', w' ∈ wstep w .adv (step (some q) .adv).2 ∧ Sim q.advance w' B := by
  obtain ⟨pre, done, r, rs, hq, hlog, hcur, hlo, hne⟩ := h.ex
  simp only [step, wstep, List.mem_singleton, exists_eq_left]
  cases r with
  | nil =>
    obtain ⟨hd, t, hsegs, hwf, htail, hemp⟩ := hq.shape
    obtain ⟨hrs, _⟩ := hemp rfl
    subst hrs
    have hlen : w.cur = w.log.length := by simp [hlog, hcur]
    rw [if_neg (by omega)]
    obtain ⟨done', hq', hmx, hms, hd'⟩ := qwf_advance_nil hq
    refine ⟨?_, ?_⟩
    · rcases hd' with rfl | rfl
      · exact ⟨pre, done', [], [], hq', hlog, hcur, hlo, hne⟩
      · exact ⟨pre ++ done, [], [], [], hq', by simp [hlog], by simp [hcur], hlo, by simp⟩
    · rw [hms, hmx]; exact h.cfg
  | cons x r' =>
    have hlt : w.cur < w.log.length := by simp [hlog, hcur]
    rw [if_pos hlt]
    obtain ⟨hms, hmx, done', r'', rs', hq', hR, p, hp⟩ := qwf_advance_cons hq
    refine ⟨⟨pre ++ p, done', r'', rs', by rw [hms]; exact hq', ?_, ?_, ?_, ?_⟩, by rw [hms, hmx]; exact h.cfg⟩
    · show w.log = _
      rw [hlog, hR]
      have e : pre ++ done ++ (x :: r' ++ rs.flatten) = pre ++ (done ++ [x]) ++ (r' ++ rs.flatten) := by simp
      rw [e, hp]; simp
    · simp only [World.advBy, hcur]
      have := congrArg List.length hp
      simp at this ⊢; omega
    · simp only [World.advBy]; omega
    · intro y hy
      rw [hR] at hy
      rcases List.mem_append.mp hy with hy | hy
      · have : y ∈ done ++ [x] := by rw [hp]; simp [hy]
        rcases List.mem_append.mp this with h1 | h1
        · exact hne y (by simp [h1])
        · simp at h1; exact hne y (by simp [h1])
      · refine hne y ?_
        simp only [List.mem_append, List.mem_cons] at hy ⊢
        rcases hy with h1 | h1
        · exact Or.inr (Or.inl (Or.inr h1))
        · exact Or.inr (Or.inr h1)


theorem sim_scan {q : Q} {w : World} {B : Nat} (h : Sim q w B) (n : Nat) :
    ∃ w', w' ∈ wstep w (.scan n) (step (some q) (.scan n)).2 ∧ Sim (q.scan n).1 w' B := by
  obtain ⟨pre, done, r, rs, hq, hlog, hcur, hlo, hne⟩ := h.ex
  simp only [step]
  cases r with
  | nil =>
    obtain ⟨hd, t, hsegs, hwf, htail, hemp⟩ := hq.shape
    obtain ⟨hrs, _⟩ := hemp rfl
    subst hrs
    rw [qwf_scan_nil hq]
    have : w.cur = w.log.length := by simp [hlog, hcur]
    exact ⟨w, by simp [wstep, this], h⟩
  | cons x r' =>
    obtain ⟨hres, hms, hmx, done', r'', rs', hq', hR, p, hp⟩ :=
      qwf_scan_cons hq n (fun y hy => hne y (by simp only [List.mem_append] at hy ⊢; exact Or.inr (Or.inl hy)))
    rw [show q.scan n = ((q.scan n).1, (q.scan n).2) from rfl, hres]
    simp only [wstep]
    have hdrop : w.log.drop w.cur = (x :: r') ++ rs.flatten := by
      have e : w.log = (pre ++ done) ++ ((x :: r') ++ rs.flatten) := by rw [hlog]
      have c : w.cur = (pre ++ done).length := by rw [hcur]; simp
      rw [e, c]; simp
    have hcond : ((x :: r').take n).length ≤ n ∧
        (w.log.drop w.cur).take ((x :: r').take n).length = (x :: r').take n ∧
        ((x :: r').take n ≠ [] ∨ n = 0 ∨ w.cur = w.log.length) := by
      refine ⟨List.length_take_le _ _, ?_, ?_⟩
      · rw [hdrop, List.take_append_of_le_length (List.length_take_le' _ _)]
        simp [List.length_take, List.take_eq_take_iff]
      · cases n with
        | zero => exact Or.inr (Or.inl rfl)
        | succ m => exact Or.inl (by simp)
    rw [if_pos hcond]
    refine ⟨_, List.mem_singleton.mpr rfl, ⟨pre ++ p, done', r'', rs', by rw [hms]; exact hq', ?_, ?_, ?_, ?_⟩,
      by rw [hms, hmx]; exact h.cfg⟩
    · show w.log = _
      rw [hlog, hR]
      have e : pre ++ done ++ (x :: r' ++ rs.flatten)
          = pre ++ (done ++ (x :: r').take n) ++ ((x :: r').drop n ++ rs.flatten) := by
        have := List.take_append_drop n (x :: r')
        simp only [List.append_assoc]
        rw [← List.append_assoc ((x :: r').take n), this]
      rw [e, hp]; simp
    · simp only [World.advBy, hcur]
      have := congrArg List.length hp
      simp only [List.length_append] at this ⊢; omega
    · simp only [World.advBy]; omega
    · intro y hy
      rw [hR] at hy
      rcases List.mem_append.mp hy with hy | hy
      · have : y ∈ done ++ (x :: r').take n := by rw [hp]; simp [hy]
        rcases List.mem_append.mp this with h1 | h1
        · exact hne y (by simp [h1])
        · exact hne y (by
            have := List.mem_of_mem_take h1
            simp only [List.mem_append] at this ⊢; exact Or.inr (Or.inl this))
      · rcases List.mem_append.mp hy with h1 | h1
        · exact hne y (by
            have := List.mem_of_mem_drop h1
            simp only [List.mem_append] at this ⊢; exact Or.inr (Or.inl this))
        · exact hne y (by simp only [List.mem_append]; exact Or.inr (Or.inr h1))

theorem mem_reopenAt (log : List (List Nat)) (lo bound c : Nat) (hc : c ≤ bound) :
    ({ log := log, cur := c, lo := max lo c } : World) ∈ reopenAt log lo bound := by
  simp only [reopenAt, List.mem_map, List.mem_range]
  exact ⟨c, by omega, rfl⟩

theorem sim_reopen {q : Q} {w : World} {B : Nat} (h : Sim q w B) :
    ∃ w' q', (step (some q) .reopen).1 = some q' ∧ w' ∈ wstep w .reopen (step (some q) .reopen).2 ∧ Sim q' w' B := by
  obtain ⟨pre, done, r, rs, hq, hlog, hcur, hlo, hne⟩ := h.ex
  obtain ⟨q', h1, h2, h3, done', r', rs', h4, h5, h6⟩ := qwf_reopen hq h.cfg
  simp only [step, h1]
  refine ⟨{ log := w.log, cur := w.cur, lo := max w.lo w.cur }, q', rfl, ?_, ?_⟩
  · simp only [wstep]; exact mem_reopenAt _ _ _ _ hlo
  · rcases h6 with rfl | ⟨rfl, rfl⟩
    · exact ⟨⟨pre, done', r', rs', by rw [h2]; exact h4, by rw [h5]; exact hlog, hcur, by simp; omega,
        by rw [h5]; exact hne⟩, by rw [h2, h3]; exact h.cfg⟩
    · refine ⟨⟨pre ++ done, [], r', rs', by rw [h2]; exact h4, by rw [h5]; simp [hlog], by simp [hcur],
        by simp; omega, ?_⟩, by rw [h2, h3]; exact h.cfg⟩
      intro y hy
      rw [h5] at hy
      exact hne y (by simp only [List.nil_append] at hy; exact List.mem_append_right _ hy)


theorem step_crashAppend (q : Q) (b : Bytes) (k : Nat) (q' : Q)
    (h : qOpen verifyAll q.maxSize q.maxSeg (q.crashAppendFiles b k).1 = some q') :
    ∃ sz f sm, step (some q) (.crashAppend b k) = (some q', .crashed true sz f sm) := by
  simp only [step]
  rw [show q.crashAppendFiles b k = ((q.crashAppendFiles b k).1, (q.crashAppendFiles b k).2) from rfl]
  simp only [reopenWith, h]
  cases (q.crashAppendFiles b k).2 with
  | none => exact ⟨_, _, _, rfl⟩
  | some o => exact ⟨_, _, _, rfl⟩

theorem step_crashAdv (q : Q) (k : Nat) (q' : Q)
    (h : qOpen verifyAll q.maxSize q.maxSeg (q.crashAdvFiles verifyAll k).1 = some q') :
    ∃ sz f sm, step (some q) (.crashAdv k) = (some q', .crashed true sz f sm) := by
  simp only [step]
  rw [show q.crashAdvFiles verifyAll k = ((q.crashAdvFiles verifyAll k).1, (q.crashAdvFiles verifyAll k).2) from rfl]
  simp only [reopenWith, h]
  cases (q.crashAdvFiles verifyAll k).2 with
  | none => exact ⟨_, _, _, rfl⟩
  | some o => exact ⟨_, _, _, rfl⟩

theorem sim_crashAppend {q : Q} {w : World} {B : Nat} (h : Sim q w B) (b : Bytes) (k : Nat) (hb : b ≠ [])
    (hB : b.length + 16 ≤ B) (hgood : GoodCrash (some q) (.crashAppend b k)) :
    ∃ w' q', (step (some q) (.crashAppend b k)).1 = some q' ∧
      w' ∈ wstep w (.crashAppend b k) (step (some q) (.crashAppend b k)).2 ∧ Sim q' w' (B - (b.length + 16)) := by
  obtain ⟨pre, done, r, rs, hq, hlog, hcur, hlo, hne⟩ := h.ex
  obtain ⟨q', h1, h2, h3, done', r', rs', h4, j, extra, hex, hj, hout⟩ := qwf_crashAppend hq h.cfg b k hB hgood
  obtain ⟨sz, f, sm, hstep⟩ := step_crashAppend q b k q' h1
  rw [hstep]
  let L := done ++ (r ++ rs.flatten) ++ extra
  have hL : w.log ++ extra = pre ++ L := by simp [L, hlog]
  let c := (pre ++ L.take j).length + done'.length
  have hc : c ≤ w.lo := by
    have : (L.take j).length ≤ j := List.length_take_le _ _
    simp only [c, List.length_append]; omega
  refine ⟨{ log := w.log ++ extra, cur := c, lo := max w.lo c }, q', rfl, ?_, ?_⟩
  · simp only [wstep]
    rcases hex with rfl | rfl
    · rw [List.append_nil]; exact List.mem_append_left _ (mem_reopenAt _ _ _ _ hc)
    · exact List.mem_append_right _ (mem_reopenAt _ _ _ _ hc)
  · refine ⟨⟨pre ++ L.take j, done', r', rs', by rw [h2]; exact h4, ?_, rfl, by simp; omega, ?_⟩,
      by rw [h2, h3]; exact h.cfg⟩
    · show w.log ++ extra = _
      rw [hL, List.append_assoc (pre ++ L.take j), hout, List.append_assoc pre, List.take_append_drop]
    · intro y hy
      rw [hout] at hy
      have hy' : y ∈ L := List.mem_of_mem_drop hy
      simp only [L, List.mem_append] at hy'
      rcases hy' with (h1 | h1) | h1
      · exact hne y (by simp only [List.mem_append]; exact Or.inl h1)
      · exact hne y (by simp only [List.mem_append] at h1 ⊢; exact Or.inr h1)
      · rcases hex with rfl | rfl
        · cases h1
        · simp at h1; rw [h1]; exact hb

theorem sim_crashAdv {q : Q} {w : World} {B : Nat} (h : Sim q w B) (k : Nat)
    (hgood : GoodCrash (some q) (.crashAdv k)) :
    ∃ w' q', (step (some q) (.crashAdv k)).1 = some q' ∧
      w' ∈ wstep w (.crashAdv k) (step (some q) (.crashAdv k)).2 ∧ Sim q' w' B := by
  obtain ⟨pre, done, r, rs, hq, hlog, hcur, hlo, hne⟩ := h.ex
  obtain ⟨q', h1, h2, h3, done', r', rs', h4, j, hj, hout⟩ := qwf_crashAdv hq h.cfg k hgood
  obtain ⟨sz, f, sm, hstep⟩ := step_crashAdv q k q' h1
  rw [hstep]
  let L := done ++ (r ++ rs.flatten)
  have hL : w.log = pre ++ L := by simp [L, hlog]
  let c := (pre ++ L.take j).length + done'.length
  have hlen := congrArg List.length hout
  simp only [List.length_append, List.length_drop] at hlen
  have hc : c ≤ (if w.cur < w.log.length then max w.lo (w.cur + 1) else w.lo) := by
    have h1 : (L.take j).length = min j L.length := List.length_take
    have hLl : L.length = done.length + (r.length + rs.flatten.length) := by simp [L]
    have hwl : w.log.length = pre.length + L.length := by rw [hL]; simp
    simp only [c, List.length_append]
    split
    · omega
    · omega
  refine ⟨{ log := w.log, cur := c, lo := max (w.lo) c }, q', rfl, ?_, ?_⟩
  · simp only [wstep]
    exact mem_reopenAt _ _ _ _ hc
  · refine ⟨⟨pre ++ L.take j, done', r', rs', by rw [h2]; exact h4, ?_, rfl, by simp; omega, ?_⟩,
      by rw [h2, h3]; exact h.cfg⟩
    · show w.log = _
      rw [hL, List.append_assoc (pre ++ L.take j), hout, List.append_assoc pre, List.take_append_drop]
    · intro y hy
      rw [hout] at hy
      exact hne y (List.mem_of_mem_drop hy)


theorem step_crashSeg (q : Q) (b : Bytes) (k : Nat) (q' : Q)
    (h : qOpen verifyAll q.maxSize q.maxSeg (q.crashSegFiles b k).1 = some q') :
    ∃ sz f sm, step (some q) (.crashSeg b k) = (some q', .crashed true sz f sm) := by
  simp only [step]
  rw [show q.crashSegFiles b k = ((q.crashSegFiles b k).1, (q.crashSegFiles b k).2) from rfl]
  simp only [reopenWith, h]
  cases (q.crashSegFiles b k).2 with
  | none => exact ⟨_, _, _, rfl⟩
  | some o => exact ⟨_, _, _, rfl⟩

theorem sim_crashSeg {q : Q} {w : World} {B : Nat} (h : Sim q w B) (b : Bytes) (k : Nat)
    (hgood : GoodCrash (some q) (.crashSeg b k)) :
    ∃ w' q', (step (some q) (.crashSeg b k)).1 = some q' ∧
      w' ∈ wstep w (.crashSeg b k) (step (some q) (.crashSeg b k)).2 ∧ Sim q' w' B := by
  obtain ⟨pre, done, r, rs, hq, hlog, hcur, hlo, hne⟩ := h.ex
  obtain ⟨q', h1, h2, h3, done', r', rs', h4, h5, h6⟩ := qwf_crashSeg hq h.cfg b k hgood
  obtain ⟨sz, f, sm, hstep⟩ := step_crashSeg q b k q' h1
  rw [hstep]
  refine ⟨{ log := w.log, cur := w.cur, lo := max w.lo w.cur }, q', rfl, ?_, ?_⟩
  · simp only [wstep]; exact mem_reopenAt _ _ _ _ hlo
  · rcases h6 with rfl | ⟨rfl, rfl⟩
    · exact ⟨⟨pre, done', r', rs', by rw [h2]; exact h4, by rw [h5]; exact hlog, hcur, by simp; omega,
        by rw [h5]; exact hne⟩, by rw [h2, h3]; exact h.cfg⟩
    · refine ⟨⟨pre ++ done, [], r', rs', by rw [h2]; exact h4, by rw [h5]; simp [hlog], by simp [hcur],
        by simp; omega, ?_⟩, by rw [h2, h3]; exact h.cfg⟩
      intro y hy
      rw [h5] at hy
      exact hne y (by simp only [List.nil_append] at hy; exact List.mem_append_right _ hy)

theorem Sim.mono {q : Q} {w : World} {B B' : Nat} (h : Sim q w B) (hB : B' ≤ B) : Sim q w B' := by
  obtain ⟨pre, done, r, rs, hq, rest⟩ := h.ex
  exact ⟨⟨pre, done, r, rs, hq.mono hB, rest⟩, h.cfg⟩

theorem sim_step (B : Nat) (s : State) (ss : SpecState) (op : Op) (hr : Rel B s ss) (hv : ValidOp op)
    (hg : GoodCrash s op) (hB : opCost op ≤ B) (hB8 : 8 + B < 2^63) :
    Rel (B - opCost op) (step s op).1 (sstep ss (op, (step s op).2)) := by
  cases s with
  | none =>
    cases ss with
    | some ws => exact absurd hr (by simp [Rel])
    | none =>
      cases op with
      | openQ m g =>
        simp only [step]
        by_cases hm : m < 2 * g
        · have : qOpen verifyAll m g [] = none := by simp [qOpen, hm]
          simp [this, sstep, Rel]
        · obtain ⟨q, hq, hsegs, hms, hmx⟩ := qOpen_empty m g hm
          simp only [hq, sstep]
          refine ⟨initWorld, by simp, ⟨⟨[], [], [], [], ?_, rfl, rfl, Nat.le_refl _, by simp⟩, by rw [hms, hmx]; exact hm⟩⟩
          rw [hsegs, hms]
          exact qwf_fresh g _ hv (by simp [opCost]; omega)
      | append b => simp [step, sstep, Rel]
      | cur => simp [step, sstep, Rel]
      | adv => simp [step, sstep, Rel]
      | scan n => simp [step, sstep, Rel]
      | reopen => simp [step, sstep, Rel]
      | crashAppend b k => simp [step, sstep, Rel]
      | crashAdv k => simp [step, sstep, Rel]
      | crashSeg b k => simp [step, sstep, Rel]
      | stat => simp [step, sstep, Rel]
  | some q =>
    cases ss with
    | none => exact absurd hr (by simp [Rel])
    | some ws =>
      obtain ⟨w, hw, hsim⟩ := hr
      cases op with
      | openQ m g =>
        simp only [step, sstep]
        exact ⟨w, hw, hsim.mono (Nat.sub_le _ _)⟩
      | append b =>
        obtain ⟨w', hw', q', hq', hs'⟩ := sim_append hsim b hv hB
        simp only [sstep]
        rw [hq']
        exact ⟨w', mem_flatMap_of hw hw', hs'⟩
      | cur =>
        simp only [sstep]
        exact ⟨w, mem_flatMap_of hw (sim_cur hsim), hsim.mono (Nat.sub_le _ _)⟩
      | adv =>
        obtain ⟨w', hw', hs'⟩ := sim_adv hsim
        simp only [sstep]
        exact ⟨w', mem_flatMap_of hw hw', hs'⟩
      | scan n =>
        obtain ⟨w', hw', hs'⟩ := sim_scan hsim n
        simp only [sstep]
        exact ⟨w', mem_flatMap_of hw hw', hs'⟩
      | reopen =>
        obtain ⟨w', q', hq', hw', hs'⟩ := sim_reopen hsim
        simp only [sstep]
        rw [hq']
        exact ⟨w', mem_flatMap_of hw hw', hs'⟩
      | crashAppend b k =>
        obtain ⟨w', q', hq', hw', hs'⟩ := sim_crashAppend hsim b k hv hB hg
        simp only [sstep]
        rw [hq']
        exact ⟨w', mem_flatMap_of hw hw', hs'⟩
      | crashAdv k =>
        obtain ⟨w', q', hq', hw', hs'⟩ := sim_crashAdv hsim k hg
        simp only [sstep]
        rw [hq']
        exact ⟨w', mem_flatMap_of hw hw', hs'⟩
      | crashSeg b k =>
        obtain ⟨w', q', hq', hw', hs'⟩ := sim_crashSeg hsim b k hg
        simp only [sstep]
        rw [hq']
        exact ⟨w', mem_flatMap_of hw hw', hs'⟩
      | stat =>
        simp only [step, sstep]
        exact ⟨w, mem_flatMap_of hw (by simp [Q.statAns, wstep]), hsim.mono (Nat.sub_le _ _)⟩

theorem sim_trace (ops : List Op) : ∀ (B : Nat) (s : State) (ss : SpecState), Rel B s ss →
    (∀ op ∈ ops, ValidOp op) → GoodRun s ops → cost ops ≤ B → 8 + B < 2^63 →
    ∃ B' s', Rel B' s' ((trace s ops).foldl sstep ss) := by
  induction ops with
  | nil => intro B s ss hr _ _ _ _; exact ⟨B, s, by simpa [trace] using hr⟩
  | cons op ops ih =>
    intro B s ss hr hv hg hB hB8
    simp only [trace, List.foldl_cons]
    have hc : cost (op :: ops) = opCost op + cost ops := by simp [cost]
    exact ih (B - opCost op) _ _ (sim_step B s ss op hr (hv op (by simp)) hg.1 (by omega) hB8)
      (fun o ho => hv o (by simp [ho])) hg.2 (by omega) (by omega)


end Influx.DQ

namespace Influx.DQ
open Influx.Spec.C26

/-- executable form of `GoodCrash` -/
def goodCrashB : State → Op → Bool
  | some q, .crashAppend b k => match (q.crashAppendFiles b k).2 with
    | none => true
    | some o => !o.footerLike
  | some q, .crashAdv k => match (q.crashAdvFiles verifyAll k).2 with
    | none => true
    | some o => !o.footerLike
  | some q, .crashSeg b k => match (q.crashSegFiles b k).2 with
    | none => true
    | some o => o.same != 0
  | _, _ => true

def goodRunB : State → List Op → Bool
  | _, [] => true
  | s, op :: ops => goodCrashB s op && goodRunB (step s op).1 ops

theorem goodCrash_of_B (s : State) (op : Op) (h : goodCrashB s op = true) : GoodCrash s op := by
  cases s with
  | none => cases op <;> trivial
  | some q =>
    cases op with
    | crashAppend b k =>
      simp only [goodCrashB] at h
      intro o ho
      rw [ho] at h
      simpa using h
    | crashAdv k =>
      simp only [goodCrashB] at h
      intro o ho
      rw [ho] at h
      simpa using h
    | crashSeg b k =>
      simp only [goodCrashB] at h
      intro o ho
      rw [ho] at h
      simpa using h
    | openQ _ _ => trivial
    | append _ => trivial
    | cur => trivial
    | adv => trivial
    | scan _ => trivial
    | reopen => trivial
    | stat => trivial

theorem goodRun_of_B : ∀ (ops : List Op) (s : State), goodRunB s ops = true → GoodRun s ops
  | [], _, _ => trivial
  | op :: ops, s, h => by
    simp only [goodRunB, Bool.and_eq_true] at h
    exact ⟨goodCrash_of_B s op h.1, goodRun_of_B ops _ h.2⟩

/-- a history without crash operations -/
def noCrash : List Op → Bool
  | [] => true
  | .crashAppend _ _ :: _ => false
  | .crashAdv _ :: _ => false
  | .crashSeg _ _ :: _ => false
  | _ :: ops => noCrash ops

theorem goodRun_of_noCrash : ∀ (ops : List Op) (s : State), noCrash ops = true → GoodRun s ops
  | [], _, _ => trivial
  | op :: ops, s, h => by
    cases op with
    | crashAppend _ _ => simp [noCrash] at h
    | crashAdv _ => simp [noCrash] at h
    | crashSeg _ _ => simp [noCrash] at h
    | openQ _ _ => exact ⟨by cases s <;> trivial, goodRun_of_noCrash ops _ (by simpa [noCrash] using h)⟩
    | append _ => exact ⟨by cases s <;> trivial, goodRun_of_noCrash ops _ (by simpa [noCrash] using h)⟩
    | cur => exact ⟨by cases s <;> trivial, goodRun_of_noCrash ops _ (by simpa [noCrash] using h)⟩
    | adv => exact ⟨by cases s <;> trivial, goodRun_of_noCrash ops _ (by simpa [noCrash] using h)⟩
    | scan _ => exact ⟨by cases s <;> trivial, goodRun_of_noCrash ops _ (by simpa [noCrash] using h)⟩
    | reopen => exact ⟨by cases s <;> trivial, goodRun_of_noCrash ops _ (by simpa [noCrash] using h)⟩
    | stat => exact ⟨by cases s <;> trivial, goodRun_of_noCrash ops _ (by simpa [noCrash] using h)⟩

/-- executable form of `ValidOp` -/
def validOpB : Op → Bool
  | .openQ _ g => decide (8 ≤ g)
  | .append b => !b.isEmpty
  | .crashAppend b _ => !b.isEmpty
  | _ => true

theorem validOp_of_B (op : Op) (h : validOpB op = true) : ValidOp op := by
  cases op with
  | openQ m g => simpa [validOpB, ValidOp] using h
  | append b => simp [validOpB] at h; simpa [ValidOp] using h
  | crashAppend b k => simp [validOpB] at h; simpa [ValidOp] using h
  | cur => trivial
  | adv => trivial
  | scan _ => trivial
  | reopen => trivial
  | crashAdv _ => trivial
  | crashSeg _ _ => trivial
  | stat => trivial

end Influx.DQ
