/-
  Lemmas.C36IDSet — the id-set model (strictly ascending lists) implements finite-set
  algebra: membership characterisations of every operation, canonical form, and the
  uniqueness of the ascending representation (`sorted_ext`).
-/
import Influx.Model.IDSet
import Influx.Spec.C36

namespace Influx.IDSet

abbrev Sorted (s : List Nat) : Prop := s.Pairwise (· < ·)

theorem mem_ins (x y : Nat) (s : Set) : y ∈ ins x s ↔ y = x ∨ y ∈ s := by
  induction s with
  | nil => simp [ins]
  | cons z zs ih =>
    simp only [ins]
    split
    · simp
    · split
      · next h => subst h; simp
      · simp [ih]; constructor
        · rintro (h | h | h) <;> simp [h]
        · rintro (h | h | h) <;> simp [h]

theorem ins_sorted (x : Nat) (s : Set) (h : Sorted s) : Sorted (ins x s) := by
  induction s with
  | nil => simp [ins]
  | cons z zs ih =>
    simp only [ins]
    split
    · next hlt =>
      refine List.pairwise_cons.mpr ⟨?_, h⟩
      intro a ha
      rcases List.mem_cons.mp ha with rfl | ha
      · exact hlt
      · exact Nat.lt_trans hlt ((List.pairwise_cons.mp h).1 a ha)
    · split
      · exact h
      · next h1 h2 =>
        have hz := List.pairwise_cons.mp h
        refine List.pairwise_cons.mpr ⟨?_, ih hz.2⟩
        intro a ha
        rcases (mem_ins x a zs).mp ha with rfl | ha
        · omega
        · exact hz.1 a ha

/-- the ascending representation of a set is unique -/
theorem sorted_ext : ∀ (a b : List Nat), Sorted a → Sorted b → (∀ x, x ∈ a ↔ x ∈ b) → a = b
  | [], [], _, _, _ => rfl
  | [], y :: ys, _, _, h => by have := (h y).mpr (by simp); simp at this
  | x :: xs, [], _, _, h => by have := (h x).mp (by simp); simp at this
  | x :: xs, y :: ys, ha, hb, h => by
    have hxa := List.pairwise_cons.mp ha
    have hyb := List.pairwise_cons.mp hb
    have hxy : x = y := by
      have h1 := (h x).mp (by simp)
      have h2 := (h y).mpr (by simp)
      rcases List.mem_cons.mp h1 with h1 | h1
      · exact h1
      · rcases List.mem_cons.mp h2 with h2 | h2
        · exact h2.symm
        · have := hyb.1 x h1
          have := hxa.1 y h2
          omega
    subst hxy
    congr 1
    apply sorted_ext xs ys hxa.2 hyb.2
    intro z
    constructor
    · intro hz
      have := (h z).mp (List.mem_cons_of_mem _ hz)
      rcases List.mem_cons.mp this with rfl | h'
      · have := hxa.1 z hz; omega
      · exact h'
    · intro hz
      have := (h z).mpr (List.mem_cons_of_mem _ hz)
      rcases List.mem_cons.mp this with rfl | h'
      · have := hyb.1 z hz; omega
      · exact h'

theorem union_sorted (a b : Set) (h : Sorted a) : Sorted (union a b) := by
  unfold union
  induction b generalizing a with
  | nil => exact h
  | cons x xs ih => exact ih _ (ins_sorted x a h)

theorem mem_union (a b : Set) (y : Nat) : y ∈ union a b ↔ y ∈ a ∨ y ∈ b := by
  unfold union
  induction b generalizing a with
  | nil => simp
  | cons x xs ih =>
    simp only [List.foldl_cons, ih, mem_ins, List.mem_cons]
    constructor
    · rintro ((h | h) | h) <;> simp [h]
    · rintro (h | h | h) <;> simp [h]

theorem addMany_sorted (s : Set) (ids : List Nat) (h : Sorted s) : Sorted (addMany s ids) := by
  unfold addMany
  induction ids generalizing s with
  | nil => exact h
  | cons x xs ih => exact ih _ (ins_sorted _ s h)

theorem mem_addMany (s : Set) (ids : List Nat) (y : Nat) :
    y ∈ addMany s ids ↔ y ∈ s ∨ ∃ id ∈ ids, y = norm id := by
  unfold addMany
  induction ids generalizing s with
  | nil => simp
  | cons x xs ih =>
    simp only [List.foldl_cons, ih, add, mem_ins, List.mem_cons]
    constructor
    · rintro ((h | h) | ⟨id, h1, h2⟩)
      · exact Or.inr ⟨x, Or.inl rfl, h⟩
      · exact Or.inl h
      · exact Or.inr ⟨id, Or.inr h1, h2⟩
    · rintro (h | ⟨id, rfl | h1, h2⟩)
      · exact Or.inl (Or.inr h)
      · exact Or.inl (Or.inl h2)
      · exact Or.inr ⟨id, h1, h2⟩

theorem norm_small {id : Nat} (h : id < 2 ^ 32) : norm id = id := Nat.mod_eq_of_lt h

end Influx.IDSet

namespace Influx.Spec.C36
open Influx.IDSet

theorem insNat_eq (x : Nat) (s : List Nat) : insNat x s = IDSet.ins x s := by
  induction s with
  | nil => rfl
  | cons y ys ih => simp [insNat, IDSet.ins, ih]

theorem canon_sorted (s : List Nat) : Sorted (canon s) := by
  induction s with
  | nil => simp [canon]
  | cons x xs ih => simpa [canon, insNat_eq] using ins_sorted x _ ih

theorem mem_canon (s : List Nat) (y : Nat) : y ∈ canon s ↔ y ∈ s := by
  induction s with
  | nil => simp [canon]
  | cons x xs ih =>
    have : canon (x :: xs) = IDSet.ins x (canon xs) := by simp [canon, insNat_eq]
    rw [this, mem_ins, ih]; simp

theorem canon_cons (x : Nat) (s : List Nat) : canon (x :: s) = IDSet.ins x (canon s) := by
  simp [canon, insNat_eq]

/-- a sorted list with the members of `s` is `canon s` -/
theorem eq_canon (m s : List Nat) (hm : Sorted m) (h : ∀ y, y ∈ m ↔ y ∈ s) : m = canon s :=
  sorted_ext _ _ hm (canon_sorted s) (fun y => by rw [h, mem_canon])

end Influx.Spec.C36
