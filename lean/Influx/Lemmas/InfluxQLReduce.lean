/-
  Lemmas.InfluxQLReduce — the call iterator (`xReduceYIterator.reduce`) over GROUP BY time
  window boundaries: `IteratorOptions.Window` away from the int64 clamps is the floor
  window, "inside [start, end)" is "same window start", and the iterator emits one
  aggregate per maximal run of points sharing a window.
-/
import Influx.Lemmas.InfluxQL

namespace Influx.InfluxQLPipe.Lemmas
open Influx.Reducers Influx.Spec.C22 Influx.InfluxQLPipe

/-- start of the window of `t` -/
def wsOf (o : Opt) (t : Int) : Int := t - (t - o.off) % o.dur

/-- `t` is far enough from MinTime / MaxTime for `Window` not to clamp -/
def NoClamp (o : Opt) (t : Int) : Prop := minTime + o.dur < t - o.off ∧ t - o.off + o.dur < maxTime

theorem tmod_fix (x d : Int) (hd : 0 < d) :
    (if Int.tmod x d < 0 then Int.tmod x d + d else Int.tmod x d) = x % d := by
  rw [Int.tmod_eq_emod]
  have h1 := Int.emod_nonneg x (by omega : d ≠ 0)
  have h2 := Int.emod_lt_of_pos x hd
  split <;> split <;> omega

/-- **`IteratorOptions.Window`** (Go `%`, negative-remainder fix-up, offset) away from the
    clamps: `[t − (t−off) mod d, … + d)` -/
theorem window_eq (o : Opt) (hd : 0 < o.dur) (t : Int) (hc : NoClamp o t) :
    window o t = (wsOf o t, wsOf o t + o.dur) := by
  have hne : o.dur ≠ 0 := by omega
  have hfix := tmod_fix (t - o.off) o.dur hd
  have h1 := Int.emod_nonneg (t - o.off) hne
  have h2 := Int.emod_lt_of_pos (t - o.off) hd
  obtain ⟨c1, c2⟩ := hc
  unfold window wsOf
  simp only [hne, if_false, hfix]
  have e1 : ¬ (minTime + (t - o.off) % o.dur ≥ t - o.off) := by omega
  have e2 : ¬ (maxTime - (o.dur - (t - o.off) % o.dur) ≤ t - o.off) := by omega
  simp only [e1, e2, if_false]
  congr 1 <;> omega

/-- the window start is `off` plus a multiple of `d` -/
theorem wsOf_eq_mul (o : Opt) (t : Int) : wsOf o t = o.off + o.dur * ((t - o.off) / o.dur) := by
  unfold wsOf
  have := Int.mul_ediv_add_emod (t - o.off) o.dur
  omega

/-- a time lies in `[start, end)` of `t`'s window iff it has the same window start -/
theorem inWindow_iff (o : Opt) (hd : 0 < o.dur) (t u : Int) :
    (u < wsOf o t + o.dur ∧ wsOf o t ≤ u) ↔ wsOf o u = wsOf o t := by
  have hne : o.dur ≠ 0 := by omega
  constructor
  · rintro ⟨h1, h2⟩
    have hk := wsOf_eq_mul o t
    -- (u − off) = (u − ws t) + d·k with 0 ≤ u − ws t < d
    have hmod : (u - o.off) % o.dur = u - wsOf o t := by
      have : u - o.off = (u - wsOf o t) + o.dur * ((t - o.off) / o.dur) := by omega
      rw [this, Int.add_mul_emod_self_left]
      exact Int.emod_eq_of_lt (by omega) (by omega)
    unfold wsOf at hmod ⊢
    omega
  · intro h
    have h1 := Int.emod_nonneg (u - o.off) hne
    have h2 := Int.emod_lt_of_pos (u - o.off) hd
    unfold wsOf at h ⊢
    omega

/-! ### maximal runs of points sharing a window -/

def runsGo {α : Type} (key : α → Int) : Option (Int × List α) → List α → List (Int × List α)
  | none, [] => []
  | some (k, acc), [] => [(k, acc)]
  | none, p :: ps => runsGo key (some (key p, [p])) ps
  | some (k, acc), p :: ps =>
    if key p = k then runsGo key (some (k, acc ++ [p])) ps
    else (k, acc) :: runsGo key (some (key p, [p])) ps

/-- maximal runs of consecutive elements with one key, each with its key -/
def runs {α : Type} (key : α → Int) (l : List α) : List (Int × List α) := runsGo key none l

/-- **call iterator over window boundaries**: on a stream of one tag set (no clamping,
    no nil points) the reduce iterator emits `emit start points` once per maximal run of
    consecutive points with the same window start. -/
theorem reduceGo_runs {α β : Type} (o : Opt) (hd : 0 < o.dur) (emit : Int → List (SP α) → SP β)
    (tg : Option String) (l : List (SP α)) (htag : ∀ p ∈ l, p.tag = tg) (hc : ∀ p ∈ l, NoClamp o p.t) :
    ∀ (st : Option (Int × List (SP α))), (∀ ka, st = some ka → ∃ t, ka.1 = wsOf o t) →
      reduceGo o emit (st.map fun ka => ((ka.1, ka.1 + o.dur), tg, ka.2)) l =
        (runsGo (fun p => wsOf o p.t) st l).map fun ka => emit ka.1 ka.2 := by
  induction l with
  | nil => intro st _; cases st <;> simp [reduceGo, runsGo]
  | cons p ps ih =>
    intro st hst
    have hp := htag p (by simp)
    have hcp := hc p (by simp)
    have htag' : ∀ q ∈ ps, q.tag = tg := fun q hq => htag q (by simp [hq])
    have hc' : ∀ q ∈ ps, NoClamp o q.t := fun q hq => hc q (by simp [hq])
    have hnew : ∀ ka, some (wsOf o p.t, [p]) = some ka → ∃ t, ka.1 = wsOf o t := by
      intro ka h; cases h; exact ⟨p.t, rfl⟩
    cases st with
    | none =>
      have := ih htag' hc' (some (wsOf o p.t, [p])) hnew
      simp only [Option.map_none, reduceGo, runsGo, window_eq o hd p.t hcp, hp]
      simpa using this
    | some ka =>
      obtain ⟨k, acc⟩ := ka
      obtain ⟨t, hkt⟩ := hst (k, acc) rfl
      simp only at hkt
      simp only [Option.map_some, reduceGo, runsGo, hp, decide_true, Bool.and_true]
      by_cases hk : wsOf o p.t = k
      · have hin : (decide (p.t < k + o.dur) && decide (k ≤ p.t)) = true := by
          have := (inWindow_iff o hd t p.t).mpr (by rw [hk, hkt])
          rw [← hkt] at this
          simp [this.1, this.2]
        simp only [hin, if_true, hk]
        have hsame : ∀ ka, some (k, acc ++ [p]) = some ka → ∃ t, ka.1 = wsOf o t := by
          intro ka h; cases h; exact ⟨t, hkt⟩
        have := ih htag' hc' (some (k, acc ++ [p])) hsame
        simpa using this
      · have hin : (decide (p.t < k + o.dur) && decide (k ≤ p.t)) = false := by
          cases hh : (decide (p.t < k + o.dur) && decide (k ≤ p.t)) with
          | false => rfl
          | true =>
            exfalso
            simp only [Bool.and_eq_true, decide_eq_true_eq] at hh
            have := (inWindow_iff o hd t p.t).mp (by rw [← hkt]; exact ⟨hh.1, hh.2⟩)
            exact hk (by rw [this, hkt])
        simp only [hin, Bool.false_eq_true, if_false, hk]
        have := ih htag' hc' (some (wsOf o p.t, [p])) hnew
        simp only [Option.map_some, window_eq o hd p.t hcp] at this ⊢
        simp [this]

/-- `reduceStream` = one `emit` per maximal run (stream of one tag set, no nil points) -/
theorem reduceStream_runs {α β : Type} (o : Opt) (hd : 0 < o.dur) (emit : Int → List (SP α) → SP β)
    (tg : Option String) (l : List (SP α)) (htag : ∀ p ∈ l, p.tag = tg) (hc : ∀ p ∈ l, NoClamp o p.t)
    (hnil : ∀ p ∈ l, p.nil = false) :
    reduceStream o emit l = (runs (fun p => wsOf o p.t) l).map fun ka => emit ka.1 ka.2 := by
  have hf : l.filter (!·.nil) = l := by
    rw [List.filter_eq_self]; intro p hp; simp [hnil p hp]
  unfold reduceStream runs
  rw [hf]
  have := reduceGo_runs o hd emit tg l htag hc none (by intro ka h; cases h)
  simpa using this

end Influx.InfluxQLPipe.Lemmas

namespace Influx.InfluxQLPipe.Lemmas
open Influx.Reducers Influx.Spec.C22 Influx.InfluxQLPipe

/-! ### on a stream ordered by key, runs are the groups of equal key -/

theorem dedupAdj_cons_same (k : Int) (l : List Int) : dedupAdj (k :: k :: l) = dedupAdj (k :: l) := by
  simp [dedupAdj]

theorem dedupAdj_cons_ne (k k' : Int) (l : List Int) (h : k ≠ k') :
    dedupAdj (k :: k' :: l) = k :: dedupAdj (k' :: l) := by
  simp [dedupAdj, h]

theorem mem_dedupAdj (l : List Int) : ∀ x, x ∈ dedupAdj l → x ∈ l := by
  induction l with
  | nil => intro x hx; simp [dedupAdj] at hx
  | cons a l ih =>
    intro x hx
    cases l with
    | nil => simpa [dedupAdj] using hx
    | cons b l =>
      by_cases hab : a = b
      · subst hab
        rw [dedupAdj_cons_same] at hx
        exact List.mem_cons_of_mem _ (ih x hx)
      · rw [dedupAdj_cons_ne _ _ _ hab] at hx
        rcases List.mem_cons.mp hx with rfl | hx
        · simp
        · exact List.mem_cons_of_mem _ (ih x hx)

/-- `R`: strict order in which the keys advance (`<` ascending, `>` descending) -/
theorem runsGo_sorted {α : Type} (key : α → Int) (R : Int → Int → Prop)
    (hirr : ∀ x, ¬ R x x) (htr : ∀ x y z, R x y → R y z → R x z) (rest : List α) :
    ∀ (k : Int) (acc : List α), (∀ a ∈ acc, key a = k) →
      (∀ r ∈ rest, key r = k ∨ R k (key r)) →
      List.Pairwise (fun a b => key a = key b ∨ R (key a) (key b)) rest →
      runsGo key (some (k, acc)) rest =
        (dedupAdj (k :: rest.map key)).map fun k' => (k', (acc ++ rest).filter fun a => decide (key a = k')) := by
  induction rest with
  | nil =>
    intro k acc hacc _ _
    have : acc.filter (fun a => decide (key a = k)) = acc := by
      rw [List.filter_eq_self]; intro a ha; simp [hacc a ha]
    simp [runsGo, dedupAdj, this]
  | cons p ps ih =>
    intro k acc hacc hrest hpw
    have hpw' := List.pairwise_cons.mp hpw
    simp only [runsGo]
    by_cases hk : key p = k
    · simp only [hk, if_true, List.map_cons]
      rw [dedupAdj_cons_same]
      have hacc' : ∀ a ∈ acc ++ [p], key a = k := by
        intro a ha
        rcases List.mem_append.mp ha with ha | ha
        · exact hacc a ha
        · simp at ha; subst ha; exact hk
      have hrest' : ∀ r ∈ ps, key r = k ∨ R k (key r) := fun r hr => hrest r (by simp [hr])
      rw [ih k (acc ++ [p]) hacc' hrest' hpw'.2]
      simp
    · have hR : R k (key p) := by
        rcases hrest p (by simp) with h | h
        · exact absurd h hk
        · exact h
      simp only [hk, if_false, List.map_cons]
      rw [dedupAdj_cons_ne _ _ _ (fun h => hk h.symm)]
      have hrest' : ∀ r ∈ ps, key r = key p ∨ R (key p) (key r) := fun r hr => (hpw'.1 r hr).imp Eq.symm id
      rw [ih (key p) [p] (by simp) hrest' hpw'.2]
      simp only [List.map_cons, List.cons.injEq, Prod.mk.injEq, true_and]
      -- everything from p on has a key after k
      have hafter : ∀ r ∈ p :: ps, R k (key r) := by
        intro r hr
        rcases List.mem_cons.mp hr with rfl | hr
        · exact hR
        · rcases hpw'.1 r hr with h | h
          · rw [← h]; exact hR
          · exact htr _ _ _ hR h
      refine ⟨?_, ?_⟩
      · -- the run of k is exactly acc
        rw [List.filter_append]
        have h1 : acc.filter (fun a => decide (key a = k)) = acc := by
          rw [List.filter_eq_self]; intro a ha; simp [hacc a ha]
        have h2 : (p :: ps).filter (fun a => decide (key a = k)) = [] := by
          rw [List.filter_eq_nil_iff]
          intro r hr
          have := hafter r hr
          simp only [decide_eq_true_eq]
          intro h; rw [h] at this; exact hirr _ this
        rw [h1, h2, List.append_nil]
      · apply List.map_congr_left
        intro k' hk'
        have hk'mem : k' ∈ (p :: ps).map key := by
          have := mem_dedupAdj _ k' hk'
          simpa using this
        obtain ⟨r, hr, hrk⟩ := List.mem_map.mp hk'mem
        have hRk' : R k k' := by rw [← hrk]; exact hafter r hr
        have h1 : acc.filter (fun a => decide (key a = k')) = [] := by
          rw [List.filter_eq_nil_iff]
          intro a ha
          simp only [decide_eq_true_eq]
          intro h
          rw [hacc a ha] at h
          rw [h] at hRk'; exact hirr _ hRk'
        simp only [List.singleton_append, Prod.mk.injEq, true_and]
        rw [List.filter_append, h1, List.nil_append]

/-- **runs = groups**: on a stream whose keys advance monotonically the maximal runs are,
    for each distinct key in order, all elements with that key -/
theorem runs_sorted {α : Type} (key : α → Int) (R : Int → Int → Prop)
    (hirr : ∀ x, ¬ R x x) (htr : ∀ x y z, R x y → R y z → R x z) (l : List α)
    (hpw : List.Pairwise (fun a b => key a = key b ∨ R (key a) (key b)) l) :
    runs key l = (dedupAdj (l.map key)).map fun k => (k, l.filter fun a => decide (key a = k)) := by
  cases l with
  | nil => simp [runs, runsGo, dedupAdj]
  | cons p ps =>
    have hpw' := List.pairwise_cons.mp hpw
    simp only [runs, runsGo]
    rw [runsGo_sorted key R hirr htr ps (key p) [p] (by simp) (fun r hr => (hpw'.1 r hr).imp Eq.symm id) hpw'.2]
    simp

end Influx.InfluxQLPipe.Lemmas
