/-
  Lemmas.AuthorizerLemmas — what a passed / failed authorization check implies
  (helper lemmas for Props.C29).
-/
import Influx.Model.Authorizer
import Influx.Spec.C29
import Influx.Props.C28

namespace Influx.Authzr
open Influx Influx.Tenant Influx.Generated.Authz Influx.Spec.C29

theorem allowed_may {c : Caller} {p : Permission} (hp : c.present = true) (ha : c.active = true)
    (h : allowed c.perms p = true) : may c p = true := by
  simp only [allowed, List.any_eq_true, beq_iff_eq] at h
  obtain ⟨q, hq, hm⟩ := h
  simp only [may, hp, ha, Bool.true_and, List.any_eq_true, decide_eq_true_eq]
  exact ⟨q, hq, Influx.Props.C28.C28 q p hm⟩

/-- a passed `authorize` means the caller may perform the request -/
theorem authorize_ok {c : Caller} {a : Action} {rt : ResourceType} {rid oid : Option Nat}
    (h : authorize c a rt rid oid = .ok ()) : may c (req a rt rid oid) = true := by
  unfold authorize at h
  repeat' split at h
  all_goals first
    | (simp at h; done)
    | skip
  rename_i _ _ hp ha hal
  exact allowed_may (by simpa using hp) (by simpa using ha) hal

/-- the only errors `authorize` reports are unauthorized / invalid id / no authorizer -/
theorem authorize_err_state {c : Caller} {a : Action} {rt : ResourceType} {rid oid : Option Nat} {e : Err}
    (h : authorize c a rt rid oid = .error e) : e = .unauth ∨ e = .base .inv ∨ e = .base .int := by
  unfold authorize at h
  repeat' split at h
  all_goals simp at h
  all_goals subst h
  all_goals simp

theorem filterAuthorized_sound {α : Type} (f : α → Except Err Unit) :
    ∀ (l l' : List α), filterAuthorized f l = .ok l' → ∀ x ∈ l', x ∈ l ∧ f x = .ok () := by
  intro l
  induction l with
  | nil => intro l' h x hx; simp [filterAuthorized] at h; subst h; cases hx
  | cons y ys ih =>
    intro l' h x hx
    unfold filterAuthorized at h
    split at h
    · rename_i u hy
      cases hr : filterAuthorized f ys with
      | error e => rw [hr] at h; simp [Except.map] at h
      | ok r =>
        rw [hr] at h
        simp only [Except.map, Except.ok.injEq] at h
        subst h
        rcases List.mem_cons.mp hx with rfl | hx'
        · exact ⟨by simp, by cases u; exact hy⟩
        · obtain ⟨a, b⟩ := ih r hr x hx'
          exact ⟨by simp [a], b⟩
    · obtain ⟨a, b⟩ := ih l' h x hx
      exact ⟨by simp [a], b⟩
    · cases h

theorem sameStore_self (s : St) : sameStore s s = true := by simp [sameStore]

theorem authorizeReadBucket_ok {c : Caller} {sys : Bool} {id org : Nat}
    (h : authorizeReadBucket c sys id org = .ok ()) : mayReadBucket c id org sys = true := by
  unfold authorizeReadBucket at h
  unfold mayReadBucket
  split at h <;> rename_i hs <;> simp only [hs, ↓reduceIte, Bool.false_eq_true] <;> exact authorize_ok h

theorem authorizeReadAuth_ok {c : Caller} {id : Nat} {a : AuthRec}
    (h : authorizeReadAuth c id a = .ok ()) : mayReadAuth c id a.org a.user = true := by
  unfold authorizeReadAuth at h
  split at h
  · cases h
  · rename_i h1
    simp only [mayReadAuth, mayReadUser, Bool.and_eq_true]
    exact ⟨authorize_ok h1, authorize_ok h⟩

theorem authorizeWriteAuth_ok {c : Caller} {id : Nat} {a : AuthRec}
    (h : authorizeWriteAuth c id a = .ok ()) : mayWriteAuth c id a.org a.user = true := by
  unfold authorizeWriteAuth at h
  split at h
  · cases h
  · rename_i h1
    simp only [mayWriteAuth, Bool.and_eq_true]
    exact ⟨authorize_ok h1, authorize_ok h⟩

theorem verifyPermissions_ok {c : Caller} {ps : List Permission} (h : verifyPermissions c ps = .ok ()) :
    ps.all (may c) = true := by
  unfold verifyPermissions at h
  split at h
  · rename_i hall
    simp only [List.all_eq_true, Bool.and_eq_true] at hall ⊢
    intro p hp
    obtain ⟨⟨a, b⟩, d⟩ := hall p hp
    exact allowed_may a b d
  · cases h

/-- reads: the answer of a read wrapper satisfies the statement -/
theorem callOK_read {α : Type} (c : Caller) (op : WOp) (s : St) (r : Except Err α) (f : α → Ans)
    (h : ∀ a, r = .ok a → callOK c op (f a) = true) : callOK c op (ansRead s r f).2 = true := by
  unfold ansRead
  cases r with
  | ok a => exact h a rfl
  | error e => simp [callOK]

/-- mutations: a denial leaves the state alone, a success satisfies the statement -/
theorem callOK_mut (c : Caller) (op : WOp) (s : St) (r : Res Nat) (pre : Option (Nat × Nat))
    (hden : ∀ e, r.2 = .error e → denied e = true → r.1 = s)
    (hok : ∀ id, r.2 = .ok id → callOK c op (.okMut id pre) = true) :
    callOK c op (ansMut s r pre).2 = true := by
  unfold ansMut
  cases hr : r.2 with
  | ok id => exact hok id hr
  | error e =>
    simp only [callOK, Bool.not_eq_eq_eq_not, Bool.not_true, Bool.and_eq_false_imp]
    intro hd
    rw [hden e hr hd, sameStore_self]; rfl

theorem liftT_not_denied {α : Type} (s : St) (r : Tenant.State × Except Tenant.Err α) (e : Err)
    (h : (liftT s r).2 = .error e) : denied e = false := by
  unfold liftT at h
  cases hr : r.2 with
  | ok a => simp [hr] at h
  | error e' => simp [hr] at h; subst h; rfl

end Influx.Authzr
