/-
  Lemmas.AuthorizerLemmas — what a passed / failed authorization check implies
  (helper lemmas for Props.C29).
-/
import Influx.Model.Authorizer
import Influx.Spec.C29
import Influx.Props.C28

namespace Influx.Authzr
open Influx Influx.Tenant Influx.Generated.Authz Influx.Spec.C29

theorem allowed_may {c : Caller} {p : Permission} (hp : c.present = true) (ha : c.active = true)
    (h : allowed c.perms p = true) : may c p = true := by
  simp only [allowed, List.any_eq_true, beq_iff_eq] at h
  obtain ⟨q, hq, hm⟩ := h
  simp only [may, hp, ha, Bool.true_and, List.any_eq_true, decide_eq_true_eq]
  exact ⟨q, hq, Influx.Props.C28.C28 q p hm⟩

/-- a passed `authorize` means the caller may perform the request -/
theorem authorize_ok {c : Caller} {a : Action} {rt : ResourceType} {rid oid : Option Nat}
    (h : authorize c a rt rid oid = .ok ()) : may c (req a rt rid oid) = true := by
  unfold authorize at h
  repeat' split at h
  all_goals first
    | (simp at h; done)
    | skip
  rename_i _ _ hp ha hal
  exact allowed_may (by simpa using hp) (by simpa using ha) hal

/-- the only errors `authorize` reports are unauthorized / invalid id / no authorizer -/
theorem authorize_err_state {c : Caller} {a : Action} {rt : ResourceType} {rid oid : Option Nat} {e : Err}
    (h : authorize c a rt rid oid = .error e) : e = .unauth ∨ e = .base .inv ∨ e = .base .int := by
  unfold authorize at h
  repeat' split at h
  all_goals simp at h
  all_goals subst h
  all_goals simp

theorem filterAuthorized_sound {α : Type} (f : α → Except Err Unit) :
    ∀ (l l' : List α), filterAuthorized f l = .ok l' → ∀ x ∈ l', x ∈ l ∧ f x = .ok () := by
  intro l
  induction l with
  | nil => intro l' h x hx; simp [filterAuthorized] at h; subst h; cases hx
  | cons y ys ih =>
    intro l' h x hx
    unfold filterAuthorized at h
    split at h
    · rename_i u hy
      cases hr : filterAuthorized f ys with
      | error e => rw [hr] at h; simp [Except.map] at h
      | ok r =>
        rw [hr] at h
        simp only [Except.map, Except.ok.injEq] at h
        subst h
        rcases List.mem_cons.mp hx with rfl | hx'
        · exact ⟨by simp, by cases u; exact hy⟩
        · obtain ⟨a, b⟩ := ih r hr x hx'
          exact ⟨by simp [a], b⟩
    · obtain ⟨a, b⟩ := ih l' h x hx
      exact ⟨by simp [a], b⟩
    · cases h

theorem sameStore_self (s : St) : sameStore s s = true := by simp [sameStore]

theorem authorizeReadBucket_ok {c : Caller} {sys : Bool} {id org : Nat}
    (h : authorizeReadBucket c sys id org = .ok ()) : mayReadBucket c id org sys = true := by
  unfold authorizeReadBucket at h
  unfold mayReadBucket
  split at h <;> rename_i hs <;> simp only [hs, ↓reduceIte, Bool.false_eq_true] <;> exact authorize_ok h

theorem authorizeReadAuth_ok {c : Caller} {id : Nat} {a : AuthRec}
    (h : authorizeReadAuth c id a = .ok ()) : mayReadAuth c id a.org a.user = true := by
  unfold authorizeReadAuth at h
  split at h
  · cases h
  · rename_i h1
    simp only [mayReadAuth, mayReadUser, Bool.and_eq_true]
    exact ⟨authorize_ok h1, authorize_ok h⟩

theorem authorizeWriteAuth_ok {c : Caller} {id : Nat} {a : AuthRec}
    (h : authorizeWriteAuth c id a = .ok ()) : mayWriteAuth c id a.org a.user = true := by
  unfold authorizeWriteAuth at h
  split at h
  · cases h
  · rename_i h1
    simp only [mayWriteAuth, Bool.and_eq_true]
    exact ⟨authorize_ok h1, authorize_ok h⟩

theorem verifyPermissions_ok {c : Caller} {ps : List Permission} (h : verifyPermissions c ps = .ok ()) :
    ps.all (may c) = true := by
  unfold verifyPermissions at h
  split at h
  · rename_i hall
    simp only [List.all_eq_true, Bool.and_eq_true] at hall ⊢
    intro p hp
    obtain ⟨⟨a, b⟩, d⟩ := hall p hp
    exact allowed_may a b d
  · cases h

/-- reads: the answer of a read wrapper satisfies the statement -/
theorem callOK_read {α : Type} (c : Caller) (op : WOp) (s : St) (r : Except Err α) (f : α → Ans)
    (h : ∀ a, r = .ok a → callOK c op (f a) = true) : callOK c op (ansRead s r f).2 = true := by
  unfold ansRead
  cases r with
  | ok a => exact h a rfl
  | error e => simp [callOK]

/-- mutations: a denial leaves the state alone, a success satisfies the statement -/
theorem callOK_mut (c : Caller) (op : WOp) (s : St) (r : Res Nat) (pre : Option (Nat × Nat))
    (hden : ∀ e, r.2 = .error e → denied e = true → r.1 = s)
    (hok : ∀ id, r.2 = .ok id → callOK c op (.okMut id pre) = true) :
    callOK c op (ansMut s r pre).2 = true := by
  unfold ansMut
  cases hr : r.2 with
  | ok id => exact hok id hr
  | error e =>
    simp only [callOK, Bool.not_eq_eq_eq_not, Bool.not_true, Bool.and_eq_false_imp]
    intro hd
    rw [hden e hr hd, sameStore_self]; rfl

theorem liftT_not_denied {α : Type} (s : St) (r : Tenant.State × Except Tenant.Err α) (e : Err)
    (h : (liftT s r).2 = .error e) : denied e = false := by
  unfold liftT at h
  cases hr : r.2 with
  | ok a => simp [hr] at h
  | error e' => simp [hr] at h; subst h; rfl

/-! ### the generic shapes: a failed check touches nothing, a success passed the check -/

/-- "denied calls leave the state alone" as a property of a result -/
def DenSafe (s : St) (r : Res Nat) : Prop := ∀ e, r.2 = .error e → denied e = true → r.1 = s

theorem guarded_den {g : Except Err Unit} {s : St} {k : Res Nat} (hk : DenSafe s k) : DenSafe s (guarded g s k) := by
  unfold guarded
  cases g with
  | error e => exact fun _ _ _ => rfl
  | ok u => exact hk

theorem guarded_ok {g : Except Err Unit} {s : St} {k : Res Nat} {id : Nat}
    (h : (guarded g s k).2 = .ok id) : g = .ok () ∧ k.2 = .ok id := by
  unfold guarded at h
  cases g with
  | error e => simp at h
  | ok u => exact ⟨rfl, h⟩

theorem fetchGuard_den {β : Type} {fetch : Except Err β} {g : β → Except Err Unit} {s : St} {k : Res Nat}
    (hk : DenSafe s k) : DenSafe s (fetchGuard fetch g s k) := by
  unfold fetchGuard
  cases fetch with
  | error e => exact fun _ _ _ => rfl
  | ok b => exact guarded_den hk

theorem fetchGuard_ok {β : Type} {fetch : Except Err β} {g : β → Except Err Unit} {s : St} {k : Res Nat} {id : Nat}
    (h : (fetchGuard fetch g s k).2 = .ok id) : ∃ b, fetch = .ok b ∧ g b = .ok () ∧ k.2 = .ok id := by
  unfold fetchGuard at h
  cases fetch with
  | error e => simp at h
  | ok b => exact ⟨b, rfl, guarded_ok h⟩

theorem liftT_den (s : St) (r : Tenant.State × Except Tenant.Err Nat) : DenSafe s (liftT s r) := by
  intro e h hd
  rw [liftT_not_denied s r e h] at hd; cases hd

theorem callOK_gb (c : Caller) (s : St) (id : Nat) : callOK c (.gb id) (wstep c s (.gb id)).2 = true := by
  apply callOK_read; intro a h
  unfold findBucketByID at h
  split at h
  · cases h
  · split at h
    · cases h
    · rename_i hz; cases h; exact authorizeReadBucket_ok hz

theorem findBucketByName_ok {c : Caller} {s : St} {o : Nat} {n : String} {a : Nat × BucketRec}
    (h : findBucketByName c s o n = .ok a) : mayReadBucket c a.1 a.2.org a.2.sys = true := by
  unfold findBucketByName at h
  split at h
  · cases h
  · split at h
    · cases h
    · rename_i hz; cases h; exact authorizeReadBucket_ok hz

theorem callOK_lb (c : Caller) (s : St) (o : Option Nat) : callOK c (.lb o) (wstep c s (.lb o)).2 = true := by
  apply callOK_read; intro l h
  unfold findBuckets at h
  simp only at h
  split at h
  · cases h
  · rename_i bs _
    simp only [callOK, List.all_eq_true, List.mem_map, bk]
    rintro ⟨i, og, sy⟩ ⟨e, he, heq⟩
    simp only [Prod.mk.injEq] at heq
    obtain ⟨rfl, rfl, rfl⟩ := heq
    exact authorizeReadBucket_ok (filterAuthorized_sound _ bs l h e he).2

theorem callOK_lo (c : Caller) (s : St) : callOK c .lo (wstep c s .lo).2 = true := by
  apply callOK_read; intro l h
  unfold findOrgs at h
  split at h
  · cases h
  · simp only [callOK, List.all_eq_true, mayReadOrg]
    intro o ho
    exact authorize_ok (filterAuthorized_sound _ _ l h o ho).2

theorem callOK_lu (c : Caller) (s : St) : callOK c .lu (wstep c s .lu).2 = true := by
  apply callOK_read; intro l h
  unfold findUsers at h
  simp only [callOK, List.all_eq_true, mayReadUser]
  intro o ho
  exact authorize_ok (filterAuthorized_sound _ _ l h o ho).2

theorem callOK_la (c : Caller) (s : St) : callOK c .la (wstep c s .la).2 = true := by
  apply callOK_read; intro l h
  unfold findAuths at h
  simp only [callOK, List.all_eq_true, List.mem_map, au]
  rintro ⟨i, og, us⟩ ⟨e, he, heq⟩
  simp only [Prod.mk.injEq] at heq
  obtain ⟨rfl, rfl, rfl⟩ := heq
  exact authorizeReadAuth_ok (filterAuthorized_sound _ _ l h e he).2


theorem getBucket_pre {s : St} {id : Nat} {b : BucketRec} (h : getBucket s id = .ok b) :
    preBucket s id = some (b.org, 0) := by
  unfold getBucket at h
  split at h
  · cases h
  · split at h
    · cases h
    · rename_i hb; cases h; simp [preBucket, hb]

theorem getAuth_pre {s : St} {id : Nat} {a : AuthRec} (h : getAuth s id = .ok a) :
    preAuth s id = some (a.org, a.user) := by
  unfold getAuth at h
  split at h
  · cases h
  · split at h
    · cases h
    · rename_i hb; cases h; simp [preAuth, hb]

theorem svc_not_denied_create (s : St) (a : AuthRec) (e : Err) (h : (createAuthSvc s a).2 = .error e) :
    denied e = false := by
  unfold createAuthSvc at h
  repeat' split at h
  all_goals first
    | (simp at h; subst h; rfl)
    | (simp at h; done)
    | skip
  all_goals (cases hg : (genAuthID (KV.has s.auths) 100 s.nextAuth).1 <;> simp [hg] at h <;> (try (subst h; rfl)))

theorem svc_not_denied_update (s : St) (id : Nat) (act : Bool) (e : Err) (h : (updateAuthSvc s id act).2 = .error e) :
    denied e = false := by
  unfold updateAuthSvc at h
  split at h
  · simp at h; subst h; rfl
  · simp at h

theorem getAuth_err_not_denied {s : St} {id : Nat} {e : Err} (h : getAuth s id = .error e) : denied e = false := by
  unfold getAuth at h
  repeat' split at h
  all_goals first
    | (simp at h; subst h; rfl)
    | (simp at h; done)

theorem svc_not_denied_delete (s : St) (id : Nat) (e : Err) (h : (deleteAuthSvc s id).2 = .error e) :
    denied e = false := by
  unfold deleteAuthSvc at h
  split at h
  · rename_i e' he; simp at h; subst h; exact getAuth_err_not_denied he
  · simp at h


theorem createAuthSvc_den (s : St) (a : AuthRec) : DenSafe s (createAuthSvc s a) :=
  fun e h hd => by rw [svc_not_denied_create s a e h] at hd; cases hd
theorem updateAuthSvc_den (s : St) (id : Nat) (act : Bool) : DenSafe s (updateAuthSvc s id act) :=
  fun e h hd => by rw [svc_not_denied_update s id act e h] at hd; cases hd
theorem deleteAuthSvc_den (s : St) (id : Nat) : DenSafe s (deleteAuthSvc s id) :=
  fun e h hd => by rw [svc_not_denied_delete s id e h] at hd; cases hd

/-- **every wrapped call satisfies the statement** -/
theorem callOK_wstep (c : Caller) (s : St) (op : WOp) : callOK c op (wstep c s op).2 = true := by
  cases op with
  | gb id => exact callOK_gb c s id
  | fb o n => apply callOK_read; intro a h; exact findBucketByName_ok h
  | fB o n => apply callOK_read; intro a h; exact findBucketByName_ok h
  | lb o => exact callOK_lb c s o
  | cb o n sys =>
    exact callOK_mut c _ s _ _ (guarded_den (liftT_den s _)) (fun id h => authorize_ok (guarded_ok h).1)
  | ub id n =>
    refine callOK_mut c _ s (updateBucket c s id n) _ (fetchGuard_den (liftT_den s _)) (fun i h => ?_)
    obtain ⟨b, hb, hg, _⟩ := fetchGuard_ok h
    rw [getBucket_pre hb]; exact authorize_ok hg
  | db id =>
    refine callOK_mut c _ s (deleteBucket c s id) _ (fetchGuard_den (liftT_den s _)) (fun i h => ?_)
    obtain ⟨b, hb, hg, _⟩ := fetchGuard_ok h
    rw [getBucket_pre hb]; exact authorize_ok hg
  | gO id =>
    apply callOK_read; intro a h
    unfold findOrgByID at h
    split at h
    · cases h
    · rename_i hz
      cases hg : getOrg s id with
      | error e => rw [hg] at h; cases h
      | ok n => rw [hg] at h; cases h; exact authorize_ok hz
  | fo n =>
    apply callOK_read; intro a h
    unfold findOrgByName at h
    split at h
    · cases h
    · split at h
      · cases h
      · rename_i hz; cases h; exact authorize_ok hz
  | lo => exact callOK_lo c s
  | co n => exact callOK_mut c _ s _ _ (guarded_den (liftT_den s _)) (fun id h => authorize_ok (guarded_ok h).1)
  | uo id n => exact callOK_mut c _ s _ _ (guarded_den (liftT_den s _)) (fun i h => authorize_ok (guarded_ok h).1)
  | dO id => exact callOK_mut c _ s _ _ (guarded_den (liftT_den s _)) (fun i h => authorize_ok (guarded_ok h).1)
  | gu id =>
    apply callOK_read; intro a h
    unfold findUserByID at h
    split at h
    · cases h
    · rename_i hz
      split at h
      · cases h
      · cases h; exact authorize_ok hz
  | fu n =>
    apply callOK_read; intro a h
    unfold findUserByName at h
    split at h
    · cases h
    · split at h
      · cases h
      · rename_i hz; cases h; exact authorize_ok hz
  | lu => exact callOK_lu c s
  | cu n id => exact callOK_mut c _ s _ _ (guarded_den (liftT_den s _)) (fun i h => authorize_ok (guarded_ok h).1)
  | uu id n => exact callOK_mut c _ s _ _ (guarded_den (liftT_den s _)) (fun i h => authorize_ok (guarded_ok h).1)
  | du id => exact callOK_mut c _ s _ _ (guarded_den (liftT_den s _)) (fun i h => authorize_ok (guarded_ok h).1)
  | pu id => simp [wstep, callOK, denied]
  | ga id =>
    apply callOK_read; intro a h
    unfold findAuthByID at h
    split at h
    · cases h
    · split at h
      · cases h
      · rename_i hz; cases h; exact authorizeReadAuth_ok hz
  | ft t =>
    apply callOK_read; intro a h
    unfold findAuthByToken at h
    split at h
    · cases h
    · split at h
      · cases h
      · rename_i hz; cases h; exact authorizeReadAuth_ok hz
  | la => exact callOK_la c s
  | ca a =>
    refine callOK_mut c _ s (createAuth c s a) _
      (guarded_den (guarded_den (guarded_den (createAuthSvc_den s a)))) (fun i h => ?_)
    obtain ⟨h1, h⟩ := guarded_ok h
    obtain ⟨h2, h⟩ := guarded_ok h
    obtain ⟨h3, _⟩ := guarded_ok h
    simp only [callOK, Bool.and_eq_true]
    exact ⟨⟨authorize_ok h1, authorize_ok h2⟩, verifyPermissions_ok h3⟩
  | ca2 a =>
    have hk : DenSafe s (if a.perms.any (fun p => p.Resource.Type_ = InstanceResourceType) then (s, .error (.base .int))
        else createAuthSvc s a) := by
      split
      · intro e h hd; simp at h; subst h; cases hd
      · exact createAuthSvc_den s a
    refine callOK_mut c _ s (createAuth2 c s a) _ (guarded_den (guarded_den (guarded_den hk))) (fun i h => ?_)
    obtain ⟨h1, h⟩ := guarded_ok h
    obtain ⟨h2, h⟩ := guarded_ok h
    obtain ⟨h3, _⟩ := guarded_ok h
    simp only [callOK, Bool.and_eq_true]
    exact ⟨⟨authorize_ok h1, authorize_ok h2⟩, verifyPermissions_ok h3⟩
  | ua id act =>
    refine callOK_mut c _ s (updateAuth c s id act) _ (fetchGuard_den (updateAuthSvc_den s id act)) (fun i h => ?_)
    obtain ⟨a, ha, hg, _⟩ := fetchGuard_ok h
    rw [getAuth_pre ha]; exact authorizeWriteAuth_ok hg
  | da id =>
    refine callOK_mut c _ s (deleteAuth c s id) _ (fetchGuard_den (deleteAuthSvc_den s id)) (fun i h => ?_)
    obtain ⟨a, ha, hg, _⟩ := fetchGuard_ok h
    rw [getAuth_pre ha]; exact authorizeWriteAuth_ok hg

end Influx.Authzr
