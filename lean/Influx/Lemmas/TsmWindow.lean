/-
  Lemmas.TsmWindow — the per-key tombstone list of `DeleteRange`: sorting keeps the
  ranges, and when the window scan does not abort, every time of the window is
  covered by one of the ranges (so removing the key never hides an uncovered time).
-/
import Influx.Model.TsmIndex
import Influx.Lemmas.TsmBytes

namespace Influx.Tsm
open Influx.Generated.TsmLayout

def coveredTR (rs : List TimeRange) (t : Int) : Prop := ∃ r ∈ rs, r.Min ≤ t ∧ t ≤ r.Max

theorem mem_insertTR (r x : TimeRange) (l : List TimeRange) : x ∈ insertTR r l ↔ x = r ∨ x ∈ l := by
  induction l with
  | nil => simp [insertTR]
  | cons y ys ih =>
    simp only [insertTR]
    split
    · simp
    · simp only [List.mem_cons, ih]
      constructor
      · rintro (h | h | h) <;> simp [h]
      · rintro (h | h | h) <;> simp [h]

theorem mem_sortTR (l : List TimeRange) (x : TimeRange) : x ∈ sortTR l ↔ x ∈ l := by
  have : ∀ (l acc : List TimeRange), x ∈ l.foldl (fun acc r => insertTR r acc) acc ↔ x ∈ l ∨ x ∈ acc := by
    intro l
    induction l with
    | nil => intro acc; simp
    | cons r l ih =>
      intro acc
      simp only [List.foldl_cons, ih, mem_insertTR, List.mem_cons]
      constructor
      · rintro (h | h | h) <;> simp [h]
      · rintro ((h | h) | h) <;> simp [h]
  simpa [sortTR] using this l []

/-- ordering by lower end -/
def MinSorted (l : List TimeRange) : Prop := l.Pairwise fun a b => a.Min ≤ b.Min

theorem trLe_min {a b : TimeRange} (h : trLe a b = true) : a.Min ≤ b.Min := by
  unfold trLe at h
  split at h
  · omega
  · have := of_decide_eq_true h; omega

theorem not_trLe_min {a b : TimeRange} (h : ¬ trLe a b = true) : b.Min ≤ a.Min := by
  unfold trLe at h
  split at h
  · omega
  · have : ¬ a.Min < b.Min := by simpa using h
    omega

theorem minSorted_insertTR (r : TimeRange) (l : List TimeRange) (h : MinSorted l) : MinSorted (insertTR r l) := by
  induction l with
  | nil => simp [insertTR, MinSorted]
  | cons y ys ih =>
    have hy := List.pairwise_cons.mp h
    simp only [insertTR]
    split
    · next hk =>
      apply List.pairwise_cons.mpr
      refine ⟨?_, h⟩
      intro z hz
      rcases List.mem_cons.mp hz with rfl | hz
      · exact trLe_min hk
      · have := hy.1 z hz; have := trLe_min hk; omega
    · next hk =>
      apply List.pairwise_cons.mpr
      refine ⟨?_, ih hy.2⟩
      intro z hz
      rcases (mem_insertTR r z ys).mp hz with rfl | hz
      · exact not_trLe_min hk
      · exact hy.1 z hz

theorem minSorted_sortTR (l : List TimeRange) : MinSorted (sortTR l) := by
  have : ∀ (l acc : List TimeRange), MinSorted acc → MinSorted (l.foldl (fun acc r => insertTR r acc) acc) := by
    intro l
    induction l with
    | nil => intro acc h; exact h
    | cons r l ih => intro acc h; exact ih _ (minSorted_insertTR r acc h)
  exact this l [] List.Pairwise.nil

theorem pred64_le (x : Int) : x ≤ pred64 x + 1 ∨ x = minInt64 := by
  unfold pred64; split
  · right; assumption
  · left; omega

/-- the window scan: if it does not abort, the window is covered -/
theorem windowGo_covered (C : List TimeRange) :
    ∀ (rest : List TimeRange) (prev : TimeRange) (minTs maxTs : Int),
      prev ∈ C → prev.Max ≤ maxTs → (∀ x ∈ rest, minTs ≤ x.Min) →
      (∀ t, minTs ≤ t → t ≤ maxTs → coveredTR C t) →
      ∀ a b, windowGo prev minTs maxTs rest = (a, b) → (a, b) ≠ (maxInt64, minInt64) →
      ∀ t, a ≤ t → t ≤ b → coveredTR (C ++ rest) t := by
  intro rest
  induction rest generalizing C with
  | nil =>
    intro prev minTs maxTs _ _ _ hcov a b hw _ t ha hb
    simp only [windowGo] at hw
    cases hw
    simpa using hcov t ha hb
  | cons ts rest ih =>
    intro prev minTs maxTs hprev hpm hmin hcov a b hw hne t ha hb
    simp only [windowGo] at hw
    split at hw
    · exact absurd hw.symm hne
    · next hcond =>
      have hts := hmin ts List.mem_cons_self
      have hnot : ¬ ts.Min < minTs := by omega
      simp only [hnot, if_false] at hw
      -- the next range starts at most one past what is covered
      have hadj : ts.Min ≤ prev.Max + 1 := by
        have hc : prev.Max = pred64 ts.Min ∨ rangeOverlaps prev ts.Min ts.Max = true := by
          by_cases h1 : prev.Max = pred64 ts.Min
          · exact Or.inl h1
          · right
            by_cases h2 : rangeOverlaps prev ts.Min ts.Max = true
            · exact h2
            · exfalso; apply hcond; simp [h1, h2]
        rcases hc with h1 | h2
        · rcases pred64_le ts.Min with h | h
          · omega
          · rw [h1, h]; unfold pred64 minInt64 maxInt64; simp
        · simp only [rangeOverlaps, Bool.and_eq_true, decide_eq_true_eq] at h2
          omega
      have := ih (C ++ [ts]) ts minTs (if ts.Max > maxTs then ts.Max else maxTs)
        (by simp) (by split <;> omega)
        (fun x hx => hmin x (List.mem_cons_of_mem _ hx))
        (by
          intro t' h1 h2
          by_cases hle : t' ≤ maxTs
          · obtain ⟨r, hr, hrt⟩ := hcov t' h1 hle
            exact ⟨r, by simp [hr], hrt⟩
          · refine ⟨ts, by simp, ?_, ?_⟩
            · omega
            · split at h2 <;> omega)
        a b hw hne t ha hb
      simpa [List.append_assoc] using this

theorem window_covered (ts : List TimeRange) (hs : MinSorted ts) (a b : Int) (hw : window ts = (a, b))
    (mn mx : Int) (ha : a ≤ mn) (hb : mx ≤ b) : ∀ t, mn ≤ t → t ≤ mx → coveredTR ts t := by
  intro t h1 h2
  by_cases hab : (a, b) = (maxInt64, minInt64)
  · cases hab
    exfalso; unfold maxInt64 at ha; unfold minInt64 at hb; omega
  · cases ts with
    | nil => simp only [window] at hw; exact absurd hw.symm hab
    | cons t0 rest =>
      simp only [window] at hw
      have := windowGo_covered [t0] rest t0 t0.Min t0.Max (by simp) (Int.le_refl _)
        (fun x hx => (List.pairwise_cons.mp hs).1 x hx)
        (by intro t' h1 h2; exact ⟨t0, by simp, h1, h2⟩) a b hw hab t (by omega) (by omega)
      simpa using this

end Influx.Tsm
