/-
  Lemmas.DurableQueueBytes — byte-level facts for the C26 model: big-endian
  round trip, the record encoding, reads at record boundaries.
-/
import Influx.Model.DurableQueue
namespace Influx.DQ

theorem be64_length (n : Nat) : (be64 n).length = 8 := rfl

theorem rd64_be64_append (n : Nat) (h : n < 2^64) (rest : Bytes) : rd64 (be64 n ++ rest) = n := by
  simp only [rd64, be64, List.cons_append, List.nil_append, List.take_succ_cons, List.take_zero,
    List.foldl_cons, List.foldl_nil]
  omega

theorem rd64_be64 (n : Nat) (h : n < 2^64) : rd64 (be64 n) = n := by
  simpa using rd64_be64_append n h []

theorem take_len_append {α} (a b : List α) (n : Nat) (h : n = a.length) : (a ++ b).take n = a := by
  subst h; simp

theorem drop_len_append {α} (a b : List α) (n : Nat) (h : n = a.length) : (a ++ b).drop n = b := by
  subst h; simp

/-- one record on disk -/
def encRec (b : Bytes) : Bytes := be64 b.length ++ b

/-- a run of records on disk -/
def encRecs : List Bytes → Bytes
  | [] => []
  | r :: rs => encRec r ++ encRecs rs

@[simp] theorem encRec_length (b : Bytes) : (encRec b).length = 8 + b.length := by
  simp [encRec, be64_length]

@[simp] theorem encRecs_nil : encRecs [] = [] := rfl
@[simp] theorem encRecs_cons (r : Bytes) (rs : List Bytes) : encRecs (r :: rs) = encRec r ++ encRecs rs := rfl

theorem encRecs_append (a b : List Bytes) : encRecs (a ++ b) = encRecs a ++ encRecs b := by
  induction a with
  | nil => rfl
  | cons r rs ih => simp [ih]

theorem encRecs_length_cons (r : Bytes) (rs : List Bytes) :
    (encRecs (r :: rs)).length = 8 + r.length + (encRecs rs).length := by simp

theorem read8_be64 (n : Nat) (h : n < 2^64) (rest : Bytes) : read8 (be64 n ++ rest) = .ok n := by
  have hl : (be64 n ++ rest).length = 8 + rest.length := by simp [be64_length]
  unfold read8
  split
  · next heq => rw [heq] at hl; simp at hl; omega
  · rw [if_neg (by omega), rd64_be64_append n h]

theorem readN_append (b rest : Bytes) : readN (b ++ rest) b.length = .ok b := by
  unfold readN
  by_cases h0 : b.length = 0
  · simp [List.length_eq_zero_iff.mp h0]
  · rw [if_neg h0]
    split
    · next heq =>
      have : (b ++ rest).length = 0 := by rw [heq]; rfl
      rw [List.length_append] at this; omega
    · rw [if_neg (by simp)]; simp

end Influx.DQ
