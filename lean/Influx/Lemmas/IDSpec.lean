/-
  Lemmas.IDSpec — the O(n log n) distinctness test of `Spec.C31` decides `List.Nodup`.
-/
import Influx.Spec.C31

namespace Influx.Lemmas.IDSpec
open Influx.Spec.C31

theorem strictAsc_iff (l : List Nat) : strictAsc l = true ↔ l.Pairwise (· < ·) := by
  induction l with
  | nil => simp [strictAsc]
  | cons a t ih =>
    cases t with
    | nil => simp [strictAsc]
    | cons b r =>
      simp only [strictAsc, Bool.and_eq_true, decide_eq_true_eq, ih, List.pairwise_cons]
      constructor
      · rintro ⟨hab, hb, hr⟩
        refine ⟨?_, hb, hr⟩
        intro x hx
        rcases List.mem_cons.mp hx with rfl | hx
        · exact hab
        · exact Nat.lt_trans hab (hb x hx)
      · rintro ⟨ha, hb, hr⟩
        exact ⟨ha b (List.mem_cons_self ..), hb, hr⟩

theorem distinctB_iff (l : List Nat) : distinctB l = true ↔ l.Nodup := by
  unfold distinctB
  rw [strictAsc_iff]
  have hperm := List.mergeSort_perm l (fun a b => decide (a ≤ b))
  have hsorted : (l.mergeSort (fun a b => decide (a ≤ b))).Pairwise (fun a b => decide (a ≤ b) = true) :=
    List.pairwise_mergeSort (by intro a b c; simp; omega) (by intro a b; simp; omega) l
  rw [← hperm.nodup_iff]
  generalize l.mergeSort (fun a b => decide (a ≤ b)) = m at hsorted
  constructor
  · intro h
    exact h.imp (by intro a b hab; omega)
  · intro h
    have := hsorted.and h
    exact this.imp (by intro a b ⟨h1, h2⟩; simp at h1; omega)

end Influx.Lemmas.IDSpec
