/-
  Lemmas.CheckConc — the interleaving model of Model/Check.lean: what one request
  answers, as a function of the instants at which its steps happen (`replay`),
  for every interleaving with registrations, signals and other requests.
-/
import Influx.Lemmas.Check

namespace Influx.CheckM

/-- the effect of an action on the gates alone -/
def gatesStep (g : List (String × Bool)) : Act → List (String × Bool)
  | .register n => g ++ [(n, false)]
  | .signal i b => g.mapIdx fun j x => if j = i then (x.1, b) else x
  | _ => g

theorem step_gates (s : CSt) (a : Act) : (s.step a).gates = gatesStep s.gates a := by
  cases a <;> simp only [CSt.step, gatesStep]
  case reqRespond rid => split <;> rfl

/-- **instant semantics of one request.**  Walk the actions that follow the
    request's snapshot, tracking only the gates: every `reqRead rid` takes the value
    the next snapshotted gate has *at that instant*; `reqRespond rid` aggregates what
    was read.  (`g`: gates now, `todo`: snapshotted gate indices still to read.) -/
def replay (rid : Nat) : List (String × Bool) → List Nat → List Res → List Act → Option ReadyResp
  | _, _, _, [] => none
  | g, todo, got, a :: as =>
    match a with
    | .reqRead r =>
      if r = rid then
        match todo with
        | [] => replay rid g [] got as
        | i :: rest =>
          match g[i]? with
          | some x => replay rid g rest (got ++ [gateRes x]) as
          | none => replay rid g rest got as
      else replay rid g todo got as
    | .reqRespond r => if r = rid then some (respond got) else replay rid g todo got as
    | a => replay rid (gatesStep g a) todo got as

def pend (s : CSt) (rid : Nat) : List Pending := s.pending.filter (·.rid = rid)

theorem done_mono (s : CSt) (as : List Act) (x : Nat × ReadyResp) (h : x ∈ s.done) : x ∈ (s.run as).done := by
  induction as generalizing s with
  | nil => exact h
  | cons a as ih =>
    simp only [CSt.run, List.foldl_cons]
    apply ih
    cases a <;> simp only [CSt.step] <;> try exact h
    case reqRespond rid =>
      split
      · exact List.mem_cons_of_mem _ h
      · exact h

/-- what one `reqRead` does to the request's pending entry -/
def readStep (g : List (String × Bool)) (p : Pending) : Pending :=
  match p.todo with
  | [] => p
  | i :: rest =>
    match g[i]? with
    | some x => { p with todo := rest, got := p.got ++ [gateRes x] }
    | none => { p with todo := rest }

theorem readStep_rid (g) (p : Pending) : (readStep g p).rid = p.rid := by
  unfold readStep; split
  · rfl
  · split <;> rfl

theorem step_read (s : CSt) (r : Nat) :
    s.step (.reqRead r) = { s with pending := updPending s.pending r (readStep s.gates) } := rfl

theorem filter_updPending_same (ps : List Pending) (rid : Nat) (f : Pending → Pending)
    (hf : ∀ q, (f q).rid = q.rid) :
    (updPending ps rid f).filter (·.rid = rid) = (ps.filter (·.rid = rid)).map f := by
  induction ps with
  | nil => rfl
  | cons q qs ih =>
    simp only [updPending, List.map_cons] at ih ⊢
    by_cases hq : q.rid = rid
    · simp [hq, hf, ih]
    · simp [hq, ih]

theorem filter_updPending_other (ps : List Pending) (rid r : Nat) (f : Pending → Pending)
    (hf : ∀ q, (f q).rid = q.rid) (hne : r ≠ rid) :
    (updPending ps r f).filter (·.rid = rid) = ps.filter (·.rid = rid) := by
  induction ps with
  | nil => rfl
  | cons q qs ih =>
    simp only [updPending, List.map_cons] at ih ⊢
    by_cases hq : q.rid = r
    · have : q.rid ≠ rid := by rw [hq]; exact hne
      simp [hq, hf, ih, this, hne]
    · by_cases hq2 : q.rid = rid
      · have : ¬ rid = r := fun e => hne e.symm
        rw [hq2] at hq
        simp [hq, hq2, ih]
      · simp [hq, hq2, ih]

theorem replay_sound (rid : Nat) (as : List Act) :
    ∀ (s : CSt) (p : Pending), pend s rid = [p] → (∀ a ∈ as, a ≠ .reqSnapshot rid) →
    ∀ resp, replay rid s.gates p.todo p.got as = some resp → (rid, resp) ∈ (s.run as).done := by
  induction as with
  | nil => intro s p _ _ resp h; simp [replay] at h
  | cons a as ih =>
    intro s p hp hns resp h
    have hns' : ∀ a ∈ as, a ≠ .reqSnapshot rid := fun x hx => hns x (List.mem_cons_of_mem _ hx)
    simp only [CSt.run, List.foldl_cons]
    cases a with
    | register n =>
      exact ih (s.step (.register n)) p hp hns' resp (by simpa [replay, gatesStep, CSt.step] using h)
    | signal i b =>
      exact ih (s.step (.signal i b)) p hp hns' resp (by simpa [replay, gatesStep, CSt.step] using h)
    | reqSnapshot r =>
      have hr : r ≠ rid := fun e => hns (.reqSnapshot r) List.mem_cons_self (by rw [e])
      refine ih (s.step (.reqSnapshot r)) p ?_ hns' resp (by simpa [replay, gatesStep, CSt.step] using h)
      simp only [pend, CSt.step] at hp ⊢
      simp [hr, hp]
    | reqRead r =>
      by_cases hr : r = rid
      · subst hr
        have hp' : pend (s.step (.reqRead r)) r = [readStep s.gates p] := by
          simp only [pend, step_read] at hp ⊢
          rw [filter_updPending_same _ _ _ (readStep_rid s.gates), hp]; rfl
        refine ih _ _ hp' hns' resp ?_
        simp only [replay, ↓reduceIte] at h
        simp only [step_read, readStep]
        split at h
        · next ht => simpa [ht] using h
        · next i rest ht =>
          split at h
          · next x hx => simpa [ht, hx] using h
          · next hx => simpa [ht, hx] using h
      · have hp' : pend (s.step (.reqRead r)) rid = [p] := by
          simp only [pend, step_read] at hp ⊢
          rw [filter_updPending_other _ _ _ _ (readStep_rid s.gates) hr, hp]
        refine ih _ _ hp' hns' resp ?_
        simpa [replay, hr, step_read] using h
    | reqRespond r =>
      by_cases hr : r = rid
      · subst hr
        simp only [replay, ↓reduceIte, Option.some.injEq] at h
        have hf : s.pending.find? (·.rid = r) = some p := by
          have := @List.head?_filter _ (fun q : Pending => decide (q.rid = r)) s.pending
          simp only [pend] at hp
          rw [hp] at this
          simpa using this.symm
        apply done_mono
        simp only [CSt.step, hf]
        rw [← h]
        exact List.mem_cons_self
      · simp only [replay, hr, ↓reduceIte] at h
        have hp' : pend (s.step (.reqRespond r)) rid = [p] := by
          simp only [pend, CSt.step] at hp ⊢
          split
          · simp only [List.filter_filter]
            rw [← hp]
            congr 1
            funext q
            by_cases hq : q.rid = rid
            · have : ¬ rid = r := fun e => hr e.symm
              simp [hq, this]
            · simp [hq]
          · exact hp
        refine ih _ _ hp' hns' resp ?_
        have hg : (s.step (.reqRespond r)).gates = s.gates := by
          simp only [CSt.step]; split <;> rfl
        rw [hg]; exact h
/-- an action that changes the set of gates or a gate's flag -/
def Act.mutates : Act → Bool
  | .register _ => true
  | .signal _ _ => true
  | _ => false

def readsOf (rid : Nat) (as : List Act) : Nat := (as.filter (· == .reqRead rid)).length

/-- with no registration / signal between the snapshot and the response, the reads
    see the gates as they were at the snapshot -/
theorem replay_quiescent (rid : Nat) (g : List (String × Bool)) (seg rest : List Act) :
    ∀ (todo : List Nat) (got : List Res),
    (∀ a ∈ seg, a.mutates = false) → (∀ a ∈ seg, a ≠ .reqRespond rid) →
    readsOf rid seg = todo.length →
    replay rid g todo got (seg ++ .reqRespond rid :: rest) =
      some (respond (got ++ todo.filterMap fun i => g[i]?.map gateRes)) := by
  induction seg with
  | nil =>
    intro todo got _ _ hc
    have : todo = [] := by
      cases todo with
      | nil => rfl
      | cons _ _ => simp [readsOf] at hc
    subst this
    simp [replay]
  | cons a seg ih =>
    intro todo got hm hr hc
    have hm' : ∀ a ∈ seg, a.mutates = false := fun x hx => hm x (List.mem_cons_of_mem _ hx)
    have hr' : ∀ a ∈ seg, a ≠ .reqRespond rid := fun x hx => hr x (List.mem_cons_of_mem _ hx)
    have hma := hm a List.mem_cons_self
    have hra := hr a List.mem_cons_self
    cases a with
    | register n => simp [Act.mutates] at hma
    | signal i b => simp [Act.mutates] at hma
    | reqSnapshot r =>
      have hc' : readsOf rid seg = todo.length := by simpa [readsOf] using hc
      simpa [replay, gatesStep] using ih todo got hm' hr' hc'
    | reqRespond r =>
      have hne : r ≠ rid := fun e => hra (by rw [e])
      have hc' : readsOf rid seg = todo.length := by simpa [readsOf] using hc
      simpa [replay, hne] using ih todo got hm' hr' hc'
    | reqRead r =>
      by_cases h : r = rid
      · subst h
        cases todo with
        | nil => simp [readsOf] at hc
        | cons i rest' =>
          have hc' : readsOf r seg = rest'.length := by simpa [readsOf] using hc
          simp only [List.cons_append, replay, ↓reduceIte]
          cases hx : g[i]? with
          | none => simpa [hx] using ih rest' got hm' hr' hc'
          | some x => simpa [hx, List.append_assoc] using ih rest' (got ++ [gateRes x]) hm' hr' hc'
      · have hc' : readsOf rid seg = todo.length := by
          have : (Act.reqRead r == Act.reqRead rid) = false := by simp [h]
          simpa [readsOf, this] using hc
        simpa [replay, h] using ih todo got hm' hr' hc'

theorem range'_filterMap_get {α β} (f : α → β) (g : List α) :
    ∀ pre : List α, (List.range' pre.length g.length).filterMap (fun i => (pre ++ g)[i]?.map f) = g.map f := by
  induction g with
  | nil => intro pre; simp
  | cons x g ih =>
    intro pre
    have := ih (pre ++ [x])
    simp only [List.length_append, List.length_cons, List.length_nil, List.append_assoc,
      List.cons_append, List.nil_append] at this
    simp only [List.length_cons, List.range'_succ, List.map_cons]
    rw [List.filterMap_cons]
    simp [this]

theorem range_filterMap_get (g : List (String × Bool)) :
    (List.range g.length).filterMap (fun i => g[i]?.map gateRes) = g.map gateRes := by
  have := range'_filterMap_get gateRes g []
  simpa [List.range_eq_range'] using this
/-- the gates after the first `t` actions of `as` -/
def gatesAt (g : List (String × Bool)) (as : List Act) (t : Nat) : List (String × Bool) :=
  (as.take t).foldl gatesStep g

theorem gatesAt_zero (g as) : gatesAt g as 0 = g := by simp [gatesAt]
theorem gatesAt_succ (g a as t) : gatesAt g (a :: as) (t + 1) = gatesAt (gatesStep g a) as t := by
  simp [gatesAt]

/-- the values the reads at instants `ts` see of the snapshotted gates `todo` -/
def readAt (g : List (String × Bool)) (as : List Act) (ts todo : List Nat) : List Res :=
  (ts.zip todo).filterMap fun p => (gatesAt g as p.1)[p.2]?.map gateRes

theorem readAt_shift (g : List (String × Bool)) (a : Act) (as : List Act) (ts todo : List Nat) :
    readAt g (a :: as) (ts.map (· + 1)) todo = readAt (gatesStep g a) as ts todo := by
  unfold readAt
  induction ts generalizing todo with
  | nil => simp
  | cons t ts ih =>
    cases todo with
    | nil => simp
    | cons i rest =>
      simp only [List.map_cons, List.zip_cons_cons, List.filterMap_cons, gatesAt_succ]
      rw [ih rest]

/-- **explicit instants.**  If the request answers `resp`, there are instants
    `ts` — strictly increasing positions of its own `reqRead` actions, all before the
    position `c` of its `reqRespond` — such that the j-th snapshotted gate was read at
    instant `ts[j]` and `resp` aggregates exactly the values the gates had at those instants. -/
theorem replay_instants (rid : Nat) (as : List Act) :
    ∀ (g : List (String × Bool)) (todo : List Nat) (got : List Res) (resp : ReadyResp),
    replay rid g todo got as = some resp →
    ∃ (ts : List Nat) (c : Nat), as[c]? = some (.reqRespond rid) ∧ ts.length ≤ todo.length ∧
      ts.Pairwise (· < ·) ∧ (∀ t ∈ ts, t < c ∧ as[t]? = some (.reqRead rid)) ∧
      resp = respond (got ++ readAt g as ts todo) := by
  induction as with
  | nil => intro g todo got resp h; simp [replay] at h
  | cons a as ih =>
    intro g todo got resp h
    -- lifting an answer for the tail to the whole list
    have lift : ∀ (g' : List (String × Bool)) (todo' : List Nat) (got' : List Res), g' = gatesStep g a →
        (∃ (ts : List Nat) (c : Nat), as[c]? = some (.reqRespond rid) ∧ ts.length ≤ todo'.length ∧
          ts.Pairwise (· < ·) ∧ (∀ t ∈ ts, t < c ∧ as[t]? = some (.reqRead rid)) ∧
          resp = respond (got' ++ readAt g' as ts todo')) →
        ∃ (ts : List Nat) (c : Nat), (a :: as)[c]? = some (.reqRespond rid) ∧ ts.length ≤ todo'.length ∧
          ts.Pairwise (· < ·) ∧ (∀ t ∈ ts, t < c ∧ (a :: as)[t]? = some (.reqRead rid)) ∧
          resp = respond (got' ++ readAt g (a :: as) ts todo') ∧ ∀ t ∈ ts, 0 < t := by
      intro g' todo' got' hg ⟨ts, c, h1, h2, h3, h4, h5⟩
      refine ⟨ts.map (· + 1), c + 1, by simpa using h1, by simpa using h2, ?_, ?_, ?_, ?_⟩
      · exact List.Pairwise.map _ (fun _ _ h => Nat.add_lt_add_right h 1) h3
      · intro t ht
        obtain ⟨t', ht', rfl⟩ := List.mem_map.1 ht
        obtain ⟨h6, h7⟩ := h4 t' ht'
        exact ⟨by omega, by simpa using h7⟩
      · rw [readAt_shift, ← hg]; exact h5
      · intro t ht
        obtain ⟨t', _, rfl⟩ := List.mem_map.1 ht
        omega
    cases a with
    | register n =>
      obtain ⟨ts, c, h1, h2, h3, h4, h5, -⟩ := lift _ todo got rfl (ih _ todo got resp (by simpa [replay] using h))
      exact ⟨ts, c, h1, h2, h3, h4, h5⟩
    | signal i b =>
      obtain ⟨ts, c, h1, h2, h3, h4, h5, -⟩ := lift _ todo got rfl (ih _ todo got resp (by simpa [replay] using h))
      exact ⟨ts, c, h1, h2, h3, h4, h5⟩
    | reqSnapshot r =>
      obtain ⟨ts, c, h1, h2, h3, h4, h5, -⟩ := lift _ todo got rfl (ih _ todo got resp (by simpa [replay] using h))
      exact ⟨ts, c, h1, h2, h3, h4, h5⟩
    | reqRespond r =>
      by_cases hr : r = rid
      · subst hr
        simp only [replay, ↓reduceIte, Option.some.injEq] at h
        exact ⟨[], 0, rfl, by simp, List.Pairwise.nil, by simp, by simp [readAt, h]⟩
      · obtain ⟨ts, c, h1, h2, h3, h4, h5, -⟩ :=
          lift g todo got rfl (ih g todo got resp (by simpa [replay, hr] using h))
        exact ⟨ts, c, h1, h2, h3, h4, h5⟩
    | reqRead r =>
      by_cases hr : r = rid
      · subst hr
        cases todo with
        | nil =>
          obtain ⟨ts, c, h1, h2, h3, h4, h5, -⟩ :=
            lift g [] got rfl (ih g [] got resp (by simpa [replay] using h))
          exact ⟨ts, c, h1, h2, h3, h4, h5⟩
        | cons i rest =>
          simp only [replay, ↓reduceIte] at h
          cases hx : g[i]? with
          | none =>
            rw [hx] at h
            obtain ⟨ts, c, h1, h2, h3, h4, h5, h6⟩ := lift g rest got rfl (ih g rest got resp h)
            refine ⟨0 :: ts, c, h1, by simp; omega, ?_, ?_, ?_⟩
            · exact List.pairwise_cons.2 ⟨fun t ht => h6 t ht, h3⟩
            · intro t ht
              cases ht with
              | head => exact ⟨by
                  cases c with
                  | zero => simp at h1
                  | succ c => omega, rfl⟩
              | tail _ ht => exact h4 t ht
            · rw [h5]
              simp only [readAt, List.zip_cons_cons, List.filterMap_cons, gatesAt_zero, hx, Option.map_none]
          | some x =>
            rw [hx] at h
            obtain ⟨ts, c, h1, h2, h3, h4, h5, h6⟩ :=
              lift g rest (got ++ [gateRes x]) rfl (ih g rest (got ++ [gateRes x]) resp h)
            refine ⟨0 :: ts, c, h1, by simp; omega, ?_, ?_, ?_⟩
            · exact List.pairwise_cons.2 ⟨fun t ht => h6 t ht, h3⟩
            · intro t ht
              cases ht with
              | head => exact ⟨by
                  cases c with
                  | zero => simp at h1
                  | succ c => omega, rfl⟩
              | tail _ ht => exact h4 t ht
            · rw [h5]
              simp only [readAt, List.zip_cons_cons, List.filterMap_cons, gatesAt_zero, hx, Option.map_some,
                List.append_assoc, List.singleton_append]
      · obtain ⟨ts, c, h1, h2, h3, h4, h5, -⟩ :=
          lift g todo got rfl (ih g todo got resp (by simpa [replay, hr] using h))
        exact ⟨ts, c, h1, h2, h3, h4, h5⟩
end Influx.CheckM
