/-
  Lemmas.EngineWal — WAL framing: complete records decode back; a torn last record (any strict
  prefix of its bytes) is dropped and everything before it is kept, the file being truncated
  exactly at the end of the last complete record.
-/
import Influx.Model.EngineWal

namespace Influx.Model.Engine.Wal

theorem unbe32_be32 {n : Nat} (h : n < 4294967296) : unbe32 (be32 n) = n := by
  simp only [be32, unbe32]; omega

theorem be32_length (n : Nat) : (be32 n).length = 4 := rfl

theorem encode_length (r : Rec) : r.encode.length = 5 + r.payload.length := by
  simp [Rec.encode, be32_length]; omega

theorem decodeAll_succ (valid : Nat → List Nat → Bool) (fuel : Nat) (bs : List Nat) :
    decodeAll valid (fuel + 1) bs =
      if bs.length < 5 then ([], 0)
      else if (bs.drop 5).length < unbe32 ((bs.drop 1).take 4) then ([], 0)
      else if !valid (bs.headD 0) ((bs.drop 5).take (unbe32 ((bs.drop 1).take 4))) then ([], 0)
      else (⟨bs.headD 0, (bs.drop 5).take (unbe32 ((bs.drop 1).take 4))⟩ ::
              (decodeAll valid fuel ((bs.drop 5).drop (unbe32 ((bs.drop 1).take 4)))).1,
            5 + unbe32 ((bs.drop 1).take 4) +
              (decodeAll valid fuel ((bs.drop 5).drop (unbe32 ((bs.drop 1).take 4)))).2) := rfl

/-- one complete record in front: the reader takes it -/
theorem decodeAll_cons (valid : Nat → List Nat → Bool) (fuel : Nat) (r : Rec) (tail : List Nat)
    (hv : valid r.typ r.payload = true) (hl : r.payload.length < 4294967296) :
    decodeAll valid (fuel + 1) (r.encode ++ tail) =
      (r :: (decodeAll valid fuel tail).1, 5 + r.payload.length + (decodeAll valid fuel tail).2) := by
  have hlen : ¬ (r.encode ++ tail).length < 5 := by rw [List.length_append, encode_length]; omega
  have h1 : (r.encode ++ tail).headD 0 = r.typ := by simp [Rec.encode]
  have h2 : ((r.encode ++ tail).drop 1).take 4 = be32 r.payload.length := by
    simp [Rec.encode, be32]
  have h3 : (r.encode ++ tail).drop 5 = r.payload ++ tail := by
    simp [Rec.encode, be32]
  rw [decodeAll_succ]
  simp only [hlen, if_false, h1, h2, h3, unbe32_be32 hl]
  have h4 : ¬ (r.payload ++ tail).length < r.payload.length := by rw [List.length_append]; omega
  have h5 : (r.payload ++ tail).take r.payload.length = r.payload := by simp
  have h6 : (r.payload ++ tail).drop r.payload.length = tail := by simp
  simp only [h4, if_false, h5, h6, hv, Bool.not_true, Bool.false_eq_true]

/-- a strict prefix of one record: the reader stops, nothing decoded, nothing kept -/
theorem decodeAll_torn (valid : Nat → List Nat → Bool) (fuel : Nat) (r : Rec) (n : Nat)
    (hn : n < r.encode.length) (hl : r.payload.length < 4294967296) :
    decodeAll valid fuel (r.encode.take n) = ([], 0) := by
  cases fuel with
  | zero => rfl
  | succ fuel =>
    rw [decodeAll_succ]
    by_cases h5 : (r.encode.take n).length < 5
    · rw [if_pos h5]
    · rw [if_neg h5]
      have hlen := encode_length r
      have hn5 : 5 ≤ n := by
        rw [List.length_take] at h5; omega
      have h2 : ((r.encode.take n).drop 1).take 4 = be32 r.payload.length := by
        have : r.encode = r.typ :: (be32 r.payload.length ++ r.payload) := rfl
        rw [this]
        obtain ⟨m, rfl⟩ : ∃ m, n = m + 5 := ⟨n - 5, by omega⟩
        simp [be32, List.take_succ_cons]
      have h3 : ((r.encode.take n).drop 5).length < r.payload.length := by
        rw [List.length_drop, List.length_take]; omega
      rw [h2, unbe32_be32 hl, if_pos h3]

theorem encodeAll_cons (r : Rec) (rs : List Rec) : encodeAll (r :: rs) = r.encode ++ encodeAll rs := by
  simp [encodeAll]

theorem encodeAll_length_le_fuel (rs : List Rec) : rs.length ≤ (encodeAll rs).length := by
  induction rs with
  | nil => simp [encodeAll]
  | cons r rs ih =>
    rw [encodeAll_cons, List.length_append, encode_length]
    simp only [List.length_cons]; omega

/-- **Framing**: complete records followed by a torn one (`n` of its bytes, `n` strictly less
    than its length; `n = 0` is the clean end) decode to exactly the complete records, and the
    file is truncated at their end.  For any fuel that covers the records. -/
theorem decodeAll_records_torn (valid : Nat → List Nat → Bool) (rs : List Rec) (e : Rec) (n : Nat) (fuel : Nat)
    (hv : ∀ r ∈ rs, valid r.typ r.payload = true) (hl : ∀ r ∈ rs, r.payload.length < 4294967296)
    (hle : e.payload.length < 4294967296) (hn : n < e.encode.length) (hf : rs.length < fuel) :
    decodeAll valid fuel (encodeAll rs ++ e.encode.take n) = (rs, (encodeAll rs).length) := by
  induction rs generalizing fuel with
  | nil =>
    simp only [encodeAll, List.flatMap_nil, List.nil_append, List.length_nil]
    exact decodeAll_torn valid fuel e n hn hle
  | cons r rs ih =>
    obtain ⟨fuel', rfl⟩ : ∃ f, fuel = f + 1 := ⟨fuel - 1, by simp at hf; omega⟩
    rw [encodeAll_cons, List.append_assoc,
      decodeAll_cons valid fuel' r _ (hv r List.mem_cons_self) (hl r List.mem_cons_self),
      ih fuel' (fun x hx => hv x (List.mem_cons_of_mem _ hx)) (fun x hx => hl x (List.mem_cons_of_mem _ hx))
        (by simp at hf; omega)]
    simp only [List.length_append, encode_length]

/-- the loader on a segment with a torn tail -/
theorem loadSegment_torn (valid : Nat → List Nat → Bool) (rs : List Rec) (e : Rec) (n : Nat)
    (hv : ∀ r ∈ rs, valid r.typ r.payload = true) (hl : ∀ r ∈ rs, r.payload.length < 4294967296)
    (hle : e.payload.length < 4294967296) (hn : n < e.encode.length) :
    loadSegment valid (encodeAll rs ++ e.encode.take n) = (rs, (encodeAll rs).length) := by
  unfold loadSegment
  apply decodeAll_records_torn valid rs e n _ hv hl hle hn
  have := encodeAll_length_le_fuel rs
  rw [List.length_append]; omega

/-- engine level: the segment's durable entries followed by ANY strict prefix of the bytes of
    the entry in flight load as exactly the durable entries -/
theorem Codec.load_torn (c : Codec) (recs : List WalEntry) (e : WalEntry) (n : Nat)
    (hn : n < (c.enc e).encode.length) :
    c.load (c.segBytes recs ++ (c.enc e).encode.take n) = recs.map some ∧
    (loadSegment c.valid (c.segBytes recs ++ (c.enc e).encode.take n)).2 = (c.segBytes recs).length := by
  have h := loadSegment_torn c.valid (recs.map c.enc) (c.enc e) n
    (fun r hr => by obtain ⟨x, _, rfl⟩ := List.mem_map.mp hr; exact c.valid_enc x)
    (fun r hr => by obtain ⟨x, _, rfl⟩ := List.mem_map.mp hr; exact c.len_ok x)
    (c.len_ok e) hn
  constructor
  · simp only [Codec.load, Codec.segBytes, h, List.map_map]
    apply List.map_congr_left
    intro x _
    exact c.dec_enc x
  · simp only [Codec.segBytes, h]

/-- no tear: everything loads and the file keeps its length -/
theorem Codec.load_clean (c : Codec) (recs : List WalEntry) :
    c.load (c.segBytes recs) = recs.map some ∧
    (loadSegment c.valid (c.segBytes recs)).2 = (c.segBytes recs).length := by
  have h := c.load_torn recs (.write []) 0 (by rw [encode_length]; omega)
  simpa using h

end Influx.Model.Engine.Wal
