/-
  Lemmas.KCSort — the order of `seeks` when sort.Sort is an insertion sort (n ≤ 12): the
  pre-sort order of FileStore.locations (file-major) satisfies OrderOK, and insertion sort under
  ascLocations.Less / descLocations.Less never moves a location across an overlapping location
  of an older file, so OrderOK is preserved.
-/
import Influx.Lemmas.KCSpec

namespace Influx.KC
open Influx.Generated.KeyCursor Influx.Spec.C06

variable {V : Type}

/-- entries overlap in time -/
def overlapP (a b : Block V) : Prop :=
  a.entry.MinTime ≤ b.entry.MaxTime ∧ b.entry.MinTime ≤ a.entry.MaxTime

/-- OrderOK as a relation between an earlier and a later element -/
def okPair (a b : Block V) : Prop := overlapP a b → a.file < b.file

theorem orderOK_iff' (seeks : List (Block V)) : orderOK seeks = true ↔ seeks.Pairwise okPair := by
  rw [orderOK_iff]
  constructor <;> intro h <;> refine h.imp ?_
  · intro a b hab ⟨o1, o2⟩; exact hab o1 o2
  · intro a b hab o1 o2; exact hab ⟨o1, o2⟩

theorem mem_insGo {α : Type} {less : α → α → Bool} {x y : α} {l : List α} :
    y ∈ insGo less x l ↔ y = x ∨ y ∈ l := by
  induction l with
  | nil => simp [insGo]
  | cons z zs ih =>
    unfold insGo
    split
    · simp only [List.mem_cons, ih]
      constructor
      · rintro (h | h | h)
        · exact Or.inr (Or.inl h)
        · exact Or.inl h
        · exact Or.inr (Or.inr h)
      · rintro (h | h | h)
        · exact Or.inr (Or.inl h)
        · exact Or.inl h
        · exact Or.inr (Or.inr h)
    · simp

/-- the sorted prefix, reversed: every later element is fine with every earlier one -/
def RevOK (rp : List (Block V)) : Prop := rp.Pairwise fun later earlier => okPair earlier later

theorem lessLoc_overlap {asc : Bool} {x y : Block V} (h : lessLoc asc x y = true) (o : overlapP x y) :
    x.file < y.file := by
  unfold lessLoc at h
  have : OverlapsTimeRange x.entry y.entry.MinTime y.entry.MaxTime = true := by
    simp [OverlapsTimeRange]; exact ⟨o.1, o.2⟩
  simpa [this] using h

theorem insGo_ok (asc : Bool) (x : Block V) : ∀ (rp : List (Block V)), RevOK rp →
    (∀ y ∈ rp, okPair y x) → RevOK (insGo (lessLoc asc) x rp)
  | [], _, _ => by simp [insGo, RevOK]
  | y :: ys, h, hx => by
    obtain ⟨h1, h2⟩ := List.pairwise_cons.1 h
    unfold insGo
    split
    · rename_i hl
      apply List.pairwise_cons.2
      constructor
      · intro z hz
        rcases mem_insGo.1 hz with rfl | hz
        · exact fun o => lessLoc_overlap hl o
        · exact h1 z hz
      · exact insGo_ok asc x ys h2 (fun z hz => hx z (List.mem_cons_of_mem _ hz))
    · apply List.pairwise_cons.2
      exact ⟨hx, h⟩

theorem foldl_insGo_ok (asc : Bool) : ∀ (l rp : List (Block V)), RevOK rp →
    (∀ x ∈ l, ∀ y ∈ rp, okPair y x) → l.Pairwise okPair →
    RevOK (l.foldl (fun rp x => insGo (lessLoc asc) x rp) rp)
  | [], rp, h, _, _ => h
  | x :: l, rp, h, hx, hl => by
    obtain ⟨hl1, hl2⟩ := List.pairwise_cons.1 hl
    simp only [List.foldl_cons]
    apply foldl_insGo_ok asc l _ (insGo_ok asc x rp h (hx x (List.mem_cons_self ..)))
    · intro x' hx' y hy
      rcases mem_insGo.1 hy with rfl | hy
      · exact hl1 x' hx'
      · exact hx x' (List.mem_cons_of_mem _ hx') y hy
    · exact hl2

/-- insertion sort under ascLocations.Less / descLocations.Less preserves OrderOK -/
theorem insertionSort_ok (asc : Bool) (l : List (Block V)) (h : l.Pairwise okPair) :
    (insertionSort (lessLoc asc) l).Pairwise okPair := by
  unfold insertionSort
  apply List.pairwise_reverse.2
  exact foldl_insGo_ok asc l [] List.Pairwise.nil (by intro _ _ y hy; cases hy) h

theorem mem_insertionSort {α : Type} (less : α → α → Bool) (l : List α) (y : α) :
    y ∈ insertionSort less l ↔ y ∈ l := by
  unfold insertionSort
  rw [List.mem_reverse]
  suffices ∀ (l rp : List α), y ∈ l.foldl (fun rp x => insGo less x rp) rp ↔ y ∈ l ∨ y ∈ rp by
    simpa using this l []
  intro l
  induction l with
  | nil => intro rp; simp
  | cons x l ih =>
    intro rp
    simp only [List.foldl_cons, ih, mem_insGo, List.mem_cons]
    constructor
    · rintro (h | h | h)
      · exact Or.inl (Or.inr h)
      · exact Or.inl (Or.inl h)
      · exact Or.inr h
    · rintro ((h | h) | h)
      · exact Or.inr (Or.inl h)
      · exact Or.inl h
      · exact Or.inr (Or.inr h)

/-! ### the pre-sort order -/

theorem zipIdx_pairwise {α : Type} (l : List α) :
    l.zipIdx.Pairwise fun a b => a.2 < b.2 ∧ l[a.2]? = some a.1 ∧ l[b.2]? = some b.1 := by
  have h1 : l.zipIdx.Pairwise fun a b => a.2 < b.2 := by
    have := List.pairwise_lt_range' (s := 0) (n := l.length) 1
    rw [← List.zipIdx_map_snd 0 l] at this
    exact List.pairwise_map.1 this
  refine h1.imp_of_mem ?_
  intro a b ha hb hab
  exact ⟨hab, List.mem_zipIdx_iff_getElem?.1 ha, List.mem_zipIdx_iff_getElem?.1 hb⟩

/-- blocks of one file: an earlier block ends before a later one starts -/
theorem blocks_disjoint {f : FileSpec} (w : FileWF f) {k k' : Nat} {b b' : List Int} (hk : k < k')
    (hb : f.blocks[k]? = some b) (hb' : f.blocks[k']? = some b') :
    (entryOfInts b).MaxTime < (entryOfInts b').MinTime := by
  have hp := (List.pairwise_flatten.1 w.sorted).2
  obtain ⟨h1, rfl⟩ := List.getElem?_eq_some_iff.1 hb
  obtain ⟨h2, rfl⟩ := List.getElem?_eq_some_iff.1 hb'
  have := List.pairwise_iff_getElem.1 hp k k' h1 h2 hk
  have m1 := List.getElem_mem h1
  have m2 := List.getElem_mem h2
  obtain ⟨_, e1, _⟩ := entry_bounds (w.block_sorted m1) (w.ne _ m1)
  obtain ⟨e2, _, _⟩ := entry_bounds (w.block_sorted m2) (w.ne _ m2)
  exact this _ e1 _ e2

/-- FileStore.locations lists the locations in an OrderOK order (file-major; one file's
    entries do not overlap) -/
theorem locations_ok {files : List FileSpec} (hok : filesOK files = true)
    {sts : List (FileState Nat)} (hsts : fileStates files = some sts) (t : Int) (asc : Bool) :
    (locations sts t asc).Pairwise okPair := by
  unfold locations
  apply List.pairwise_flatMap.2
  constructor
  · -- within one file
    rintro ⟨st, fi⟩ hmem
    have hst : sts[fi]? = some st := by simpa using List.mem_zipIdx_iff_getElem?.1 hmem
    obtain ⟨f, hf, hfs⟩ := location_file hsts hst
    have w := filesOK_get hok hf
    show (fileLocations t asc fi st).Pairwise okPair
    unfold fileLocations
    apply List.pairwise_filterMap.2
    refine (zipIdx_pairwise st.entries).imp ?_
    rintro ⟨⟨e, vals⟩, k⟩ ⟨⟨e', vals'⟩, k'⟩ ⟨hlt, hg, hg'⟩ b hb b' hb'
    simp only at hlt hg hg' hb hb'
    split at hb
    · split at hb'
      · simp at hb hb'
        subst hb hb'
        obtain ⟨_, bl, hbl, rfl, _⟩ := entry_of_state w fi hfs hg
        obtain ⟨_, bl', hbl', rfl, _⟩ := entry_of_state w fi hfs hg'
        have := blocks_disjoint w hlt hbl hbl'
        intro o
        have := o.2
        simp only at this
        omega
      · cases hb'
    · cases hb
  · -- across files
    refine (zipIdx_pairwise sts).imp ?_
    rintro ⟨st, fi⟩ ⟨st', fi'⟩ ⟨hlt, _, _⟩ x hx y hy
    obtain ⟨_, _, _, _, _, rfl⟩ := mem_fileLocations.1 hx
    obtain ⟨_, _, _, _, _, rfl⟩ := mem_fileLocations.1 hy
    intro _
    exact hlt

/-- **no hypothesis on the order**: with sort.Sort = insertion sort (what Go runs for up to 12
    locations) the model's read satisfies the statement -/
theorem model_holds_insertion {files : List FileSpec} (hok : filesOK files = true) {t : Int} {asc : Bool}
    (ht : seekOK t asc = true) :
    ∃ seeks bs, seeksSorted files t asc = some seeks ∧ orderOK seeks = true ∧
      runSeeks seeks t asc = some bs ∧ (∀ b ∈ bs, b ≠ []) ∧ holdsOn id files t asc bs = true := by
  -- the file states exist
  have hsome : ∃ sts, fileStates files = some sts := by
    unfold fileStates
    suffices ∀ (fs : List FileSpec) (i : Nat), (∀ f ∈ fs, fileOK f = true) → ∃ sts, fileStatesFrom i fs = some sts by
      exact this files 0 (by unfold filesOK at hok; exact List.all_eq_true.1 hok)
    intro fs
    induction fs with
    | nil => intro i _; exact ⟨[], rfl⟩
    | cons f fs ih =>
      intro i h
      obtain ⟨rest, hr⟩ := ih (i + 1) (fun g hg => h g (List.mem_cons_of_mem _ hg))
      have w := fileWF_of_ok (h f (List.mem_cons_self ..))
      simp only [fileStatesFrom, fileState_eq w i, hr]
      exact ⟨_, rfl⟩
  obtain ⟨sts, hsts⟩ := hsome
  let seeks := insertionSort (lessLoc asc) (locations sts t asc)
  have hmem : ∀ b, b ∈ seeks ↔ b ∈ locations sts t asc := mem_insertionSort _ _
  have hord : orderOK seeks = true := (orderOK_iff' seeks).2 (insertionSort_ok asc _ (locations_ok hok hsts t asc))
  have hwf := seeks_wf hok hsts hmem
  refine ⟨seeks, ?_⟩
  have hss : seeksSorted files t asc = some seeks := by unfold seeksSorted; rw [hsts]; rfl
  cases asc with
  | true =>
    simp only [seekOK, if_true, Bool.and_eq_true, decide_eq_true_eq] at ht
    obtain ⟨bs, hrun, hsorted, hne, hm⟩ := runSeeks_asc seeks hwf hord ht.1
    refine ⟨bs, hss, hord, hrun, hne, ?_⟩
    unfold holdsOn delivered expected
    simp only [if_true, id, beq_iff_eq]
    have : (expectedAsc files t true).map (fun p => (p.1, p.2)) = expectedAsc files t true := by simp
    rw [this]
    apply sorted_ext hsorted (sorted_expectedAsc files t true)
    intro p
    rw [hm p, mem_expectedAsc]
    simp only [if_true]
    constructor
    · rintro ⟨h1, h2⟩
      exact ⟨(winner_iff_newest hok hsts hmem (by simpa using h2)).1 h1, h2⟩
    · rintro ⟨h1, h2⟩
      exact ⟨(winner_iff_newest hok hsts hmem (by simpa using h2)).2 h1, h2⟩
  | false =>
    simp only [seekOK, Bool.false_eq_true, if_false, Bool.and_eq_true, decide_eq_true_eq] at ht
    obtain ⟨bs, hrun, hsorted, hne, hm⟩ := runSeeks_desc seeks hwf hord ht.2
    refine ⟨bs, hss, hord, hrun, hne, ?_⟩
    unfold holdsOn delivered expected
    simp only [Bool.false_eq_true, if_false, id, beq_iff_eq]
    have : (expectedAsc files t false).reverse.map (fun p => (p.1, p.2)) = (expectedAsc files t false).reverse := by simp
    rw [this, reverse_flatten_reverse]
    congr 1
    apply sorted_ext hsorted (sorted_expectedAsc files t false)
    intro p
    rw [hm p, mem_expectedAsc]
    simp only [Bool.false_eq_true, if_false]
    constructor
    · rintro ⟨h1, h2⟩
      exact ⟨(winner_iff_newest hok hsts hmem (by simpa using h2)).1 h1, h2⟩
    · rintro ⟨h1, h2⟩
      exact ⟨(winner_iff_newest hok hsts hmem (by simpa using h2)).2 h1, h2⟩

end Influx.KC
