/-
  Lemmas.BackupTrace1 — observation-level facts about one backup / export /
  restore / import of the model, in the vocabulary of Spec.C38 (listings, dumps).
-/
import Influx.Lemmas.BackupDump

namespace Influx.Backup
open Influx.Spec.C38

/-! ### incremental clause -/

theorem changedAfter_eq_after (m : MTime) (since : Option Int) : changedAfter m since = m.after since := by
  cases since <;> cases m <;> simp [changedAfter, MTime.after]

theorem mem_archiveNames_tsm {ar : Archive} {g q : Nat} {bs : List Block} (h : Entry.tsm g q bs ∈ ar) :
    (⟨g, q, false⟩ : FName) ∈ archiveNames ar :=
  List.mem_map.mpr ⟨_, h, rfl⟩

theorem mem_archiveNames_tomb {ar : Archive} {g q : Nat} (h : Entry.tomb g q ∈ ar) :
    (⟨g, q, true⟩ : FName) ∈ archiveNames ar :=
  List.mem_map.mpr ⟨_, h, rfl⟩

theorem backupEntries_mem (since : Option Int) (fs : List TFile) (f : TFile) (hf : f ∈ fs) :
    (f.mtime.after since = true → Entry.tsm f.gen f.seq f.blocks ∈ backupEntries since fs) ∧
    (∀ m, f.tombM = some m → m.after since = true → Entry.tomb f.gen f.seq ∈ backupEntries since fs) := by
  induction fs with
  | nil => simp at hf
  | cons g fs ih =>
    rw [backupEntries_cons]
    rcases List.mem_cons.mp hf with rfl | hf
    · constructor
      · intro h; simp [h]
      · intro m hm h; simp [hm, h]
    · obtain ⟨i1, i2⟩ := ih hf
      constructor
      · intro h; simp [i1 h]
      · intro m hm h; simp [i2 m hm h]

/-- the incremental clause of the statement holds of every backup of the model -/
theorem incrementalOK_backup (since : Option Int) (fs : List TFile) :
    incrementalOK since (archiveNames (backupEntries since fs)) (listing fs) = true := by
  unfold incrementalOK listing
  rw [List.all_eq_true]
  intro e he
  obtain ⟨f, hf, hef⟩ := List.mem_flatMap.mp he
  obtain ⟨h1, h2⟩ := backupEntries_mem since fs f hf
  rw [changedAfter_eq_after]
  rcases List.mem_append.mp hef with hm | hm
  · cases htm : f.tombM with
    | none => simp [htm] at hm
    | some m =>
      simp [htm] at hm; subst hm
      cases ha : m.after since with
      | false => simp
      | true =>
        have := mem_archiveNames_tomb (h2 m htm ha)
        simp [this]
  · simp at hm; subst hm
    cases ha : f.mtime.after since with
    | false => simp
    | true =>
      have := mem_archiveNames_tsm (h1 ha)
      simp [this]

/-! ### tombstone files in a listing -/

theorem hasTombstone_listing (fs : List TFile) :
    hasTombstone (listing fs) = true ↔ ∃ f ∈ fs, f.tombM.isSome = true := by
  unfold hasTombstone listing
  rw [List.any_eq_true]
  constructor
  · rintro ⟨e, he, ht⟩
    obtain ⟨f, hf, hef⟩ := List.mem_flatMap.mp he
    rcases List.mem_append.mp hef with hm | hm
    · cases htm : f.tombM with
      | none => simp [htm] at hm
      | some m => exact ⟨f, hf, by simp [htm]⟩
    · simp at hm; subst hm; simp at ht
  · rintro ⟨f, hf, ht⟩
    cases htm : f.tombM with
    | none => simp [htm] at ht
    | some m =>
      refine ⟨(⟨f.gen, f.seq, true⟩, m), ?_, rfl⟩
      exact List.mem_flatMap.mpr ⟨f, hf, by simp [htm]⟩

theorem no_tombstone_listing {fs : List TFile} (h : hasTombstone (listing fs) = false) :
    ∀ f ∈ fs, f.tombM = none := by
  intro f hf
  cases htm : f.tombM with
  | none => rfl
  | some m =>
    have : hasTombstone (listing fs) = true := (hasTombstone_listing fs).mpr ⟨f, hf, by simp [htm]⟩
    rw [h] at this; simp at this

/-! ### series of a restored / imported shard -/

theorem mem_addSeries {ser ks : List Key} {k : Key} : k ∈ addSeries ser ks ↔ k ∈ ser ∨ k ∈ ks := by
  unfold addSeries
  induction ks generalizing ser with
  | nil => simp
  | cons a ks ih =>
    simp only [List.foldl_cons]
    rw [ih]
    by_cases hc : ser.contains a = true
    · simp only [hc, if_true]
      have : a ∈ ser := by simpa using hc
      constructor
      · rintro (h | h)
        · exact Or.inl h
        · exact Or.inr (by simp [h])
      · rintro (h | h)
        · exact Or.inl h
        · rcases List.mem_cons.mp h with rfl | h
          · exact Or.inl this
          · exact Or.inr h
    · have hc' : ser.contains a = false := by simpa using hc
      simp only [hc', Bool.false_eq_true, if_false]
      rw [mem_insertKey]
      constructor
      · rintro ((rfl | h) | h)
        · exact Or.inr (by simp)
        · exact Or.inl h
        · exact Or.inr (by simp [h])
      · rintro (h | h)
        · exact Or.inl (Or.inr h)
        · rcases List.mem_cons.mp h with rfl | h
          · exact Or.inl (Or.inl rfl)
          · exact Or.inr h

theorem mem_blocksKeys {bs : List Block} {k : Key} : k ∈ blocksKeys bs ↔ ∃ b ∈ bs, b.key = k := by
  unfold blocksKeys
  rw [mem_sortKeys, List.mem_map]

/-- the keys of the blocks of the `.tsm` entries of an archive -/
def archiveKeys (ar : Archive) : List Key := (archiveBlocks ar).flatMap (fun bs => bs.map (·.key))

theorem restore_series (s : Shard) (ar : Archive) (k : Key) :
    k ∈ (s.restore ar).series ↔ k ∈ s.series ∨ k ∈ archiveKeys ar := by
  induction ar generalizing s with
  | nil => simp [Shard.restore, archiveKeys, archiveBlocks]
  | cons e rest ih =>
    cases e with
    | tomb g q => simp only [Shard.restore]; rw [ih]; simp [archiveKeys, archiveBlocks]
    | tsm g q bs =>
      simp only [Shard.restore]
      rw [ih]
      simp only [mem_addSeries, mem_blocksKeys, archiveKeys, archiveBlocks, List.flatMap_cons, List.mem_append,
        List.mem_map]
      constructor
      · rintro ((h | h) | h)
        · exact Or.inl h
        · exact Or.inr (Or.inl h)
        · exact Or.inr (Or.inr h)
      · rintro (h | h | h)
        · exact Or.inl (Or.inl h)
        · exact Or.inl (Or.inr h)
        · exact Or.inr h

theorem import_series (s : Shard) (ar : Archive) (k : Key) :
    k ∈ (s.importA ar).series ↔ k ∈ s.series ∨ k ∈ archiveKeys ar := by
  induction ar generalizing s with
  | nil => simp [Shard.importA, archiveKeys, archiveBlocks]
  | cons e rest ih =>
    cases e with
    | tomb g q => simp only [Shard.importA]; rw [ih]; simp [archiveKeys, archiveBlocks]
    | tsm g q bs =>
      simp only [Shard.importA]
      rw [ih]
      simp only [mem_addSeries, mem_blocksKeys, archiveKeys, archiveBlocks, List.flatMap_cons, List.mem_append,
        List.mem_map]
      constructor
      · rintro ((h | h) | h)
        · exact Or.inl h
        · exact Or.inr (Or.inl h)
        · exact Or.inr (Or.inr h)
      · rintro (h | h | h)
        · exact Or.inl (Or.inl h)
        · exact Or.inl (Or.inr h)
        · exact Or.inr h

theorem mem_archiveKeys_backup_none {fs : List TFile} {k : Key} :
    k ∈ archiveKeys (backupEntries none fs) ↔ ∃ f ∈ fs, ∃ b ∈ f.blocks, b.key = k := by
  unfold archiveKeys
  rw [archiveBlocks_backup_none]
  simp only [List.mem_flatMap, List.mem_map]
  constructor
  · rintro ⟨bs, ⟨f, hf, rfl⟩, b, hb, rfl⟩
    exact ⟨f, hf, b, hb, rfl⟩
  · rintro ⟨f, hf, b, hb, rfl⟩
    exact ⟨f.blocks, ⟨f, hf, rfl⟩, b, hb, rfl⟩

/-- a readable point of a cache-less shard lies in a block of its key -/
theorem abs_some_block {s : Shard} (hc : s.cache = []) {k : Key} {t : TS} {v : Val} (h : s.abs k t = some v) :
    ∃ f ∈ s.files, ∃ b ∈ f.blocks, b.key = k := by
  unfold Shard.abs at h
  simp [hc, cacheLookup] at h
  obtain ⟨f, hf, hl⟩ := filesLookup_some h
  obtain ⟨b, hb, hbl⟩ := blocksLookup_some (lookup_some_raw hl)
  exact ⟨f, hf, b, hb, (Block.lookup_some_mem hbl).1⟩

end Influx.Backup
