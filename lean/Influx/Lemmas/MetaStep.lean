/-
  Lemmas.MetaStep — every harness operation keeps the meta data well-formed.
-/
import Influx.Lemmas.MetaMap
import Influx.Lemmas.MetaRetention

namespace Influx.Meta
open Influx.Generated.Meta

/-! ### reload is the identity on well-formed data -/

theorem reloadSG_id {g : ShardGroupInfo} (h : WFGroup g) : reloadSG g = g := by
  obtain ⟨lo, ne, hi, tr, del⟩ := h
  unfold MinNanoTime MaxNanoTime at *
  have hs : wrap64 g.StartTime = g.StartTime := wrap64_id _ (by omega) (by omega)
  have he : wrap64 g.EndTime = g.EndTime := wrap64_id _ (by omega) (by omega)
  have hz1 : g.StartTime ≠ zeroTime := by unfold zeroTime; omega
  have hz2 : g.EndTime ≠ zeroTime := by unfold zeroTime; omega
  have hS : (if (if Time.IsZero g.StartTime = true then (0 : Int) else Time.UnixNano g.StartTime) == 0 then (0 : Int)
      else UnmarshalTime (if Time.IsZero g.StartTime = true then 0 else Time.UnixNano g.StartTime)) = g.StartTime := by
    simp only [(isZero_false_iff _).mpr hz1, Bool.false_eq_true, ↓reduceIte, Time.UnixNano, hs, UnmarshalTime, unix_eq]
    by_cases h0 : g.StartTime = 0 <;> simp [h0]
  have hE : (if (if Time.IsZero g.EndTime = true then (0 : Int) else Time.UnixNano g.EndTime) == 0 then (0 : Int)
      else UnmarshalTime (if Time.IsZero g.EndTime = true then 0 else Time.UnixNano g.EndTime)) = g.EndTime := by
    simp only [(isZero_false_iff _).mpr hz2, Bool.false_eq_true, ↓reduceIte, Time.UnixNano, he, UnmarshalTime, unix_eq]
    by_cases h0 : g.EndTime = 0 <;> simp [h0]
  have hD : UnmarshalTime (if Time.IsZero g.DeletedAt = true then 0 else Time.UnixNano g.DeletedAt) = g.DeletedAt := by
    rcases del with hd | hd
    · simp [hd, Time.IsZero, UnmarshalTime]
    · have hz : g.DeletedAt ≠ zeroTime := by unfold zeroTime; omega
      have hw : wrap64 g.DeletedAt = g.DeletedAt := wrap64_id _ (by omega) (by omega)
      simp only [(isZero_false_iff _).mpr hz, Bool.false_eq_true, ↓reduceIte, Time.UnixNano, hw, UnmarshalTime, unix_eq]
      have : g.DeletedAt ≠ 0 := by omega
      simp [this]
  cases g with
  | mk ID S E D Sh T =>
    simp only at tr hS hE hD
    subst tr
    simp only [reloadSG, unmarshalSG, marshalSG, MarshalTime, unix_eq]
    simp only [hS, hE, hD]
    simp [Time.IsZero]

theorem map_id_of_forall {α : Type} (f : α → α) (l : List α) (h : ∀ x ∈ l, f x = x) : l.map f = l := by
  induction l with
  | nil => rfl
  | cons y ys ih => simp [h y (by simp), ih (fun x hx => h x (by simp [hx]))]

/-- **persist + reload returns the same meta data** (bounds, deletion marks, everything) -/
theorem reload_id {d : Data} (h : WF d) : reload d = d := by
  unfold reload
  have : d.Databases.map (fun di => { di with RetentionPolicies := di.RetentionPolicies.map fun r =>
      { r with ShardGroups := r.ShardGroups.map reloadSG } }) = d.Databases := by
    apply map_id_of_forall
    intro di hdi
    have : di.RetentionPolicies.map (fun r => { r with ShardGroups := r.ShardGroups.map reloadSG }) = di.RetentionPolicies := by
      apply map_id_of_forall
      intro r hr
      have : r.ShardGroups.map reloadSG = r.ShardGroups :=
        map_id_of_forall _ _ (fun g hg => reloadSG_id (((h.dbs di hdi).rps r hr).groups g hg))
      rw [this]
    rw [this]
  rw [this]

/-! ### updates of single groups -/

/-- `x` is `y` with possibly other shards / deletion mark, still well-formed; a deleted `y` stays deleted -/
structure Sub (x y : ShardGroupInfo) : Prop where
  st : x.StartTime = y.StartTime
  en : x.EndTime = y.EndTime
  del : y.DeletedAt ≠ zeroTime → x.DeletedAt ≠ zeroTime
  wf : WFGroup x

/-- pointwise `Sub` -/
inductive SubL : List ShardGroupInfo → List ShardGroupInfo → Prop where
  | nil : SubL [] []
  | cons {x y : ShardGroupInfo} {xs ys : List ShardGroupInfo} : Sub x y → SubL xs ys → SubL (x :: xs) (y :: ys)

theorem Sub.refl {g : ShardGroupInfo} (h : WFGroup g) : Sub g g := ⟨rfl, rfl, fun h => h, h⟩

theorem Disj.sub {x1 y1 x2 y2 : ShardGroupInfo} (h : Disj y1 y2) (h1 : Sub x1 y1) (h2 : Sub x2 y2) : Disj x1 x2 := by
  unfold Disj at *
  rcases h with h | h | h | h
  · exact Or.inl (h1.del h)
  · exact Or.inr (Or.inl (h2.del h))
  · right; right; left; rw [h1.en, h2.st]; exact h
  · right; right; right; rw [h2.en, h1.st]; exact h

theorem pairwise_sub {xs ys : List ShardGroupInfo} (h : SubL xs ys) (hp : ys.Pairwise Disj) :
    xs.Pairwise Disj := by
  induction h with
  | nil => exact List.Pairwise.nil
  | @cons x y xs ys hxy hrest ih =>
    rw [List.pairwise_cons] at hp ⊢
    refine ⟨?_, ih hp.2⟩
    intro x' hx'
    obtain ⟨y', hy', hs⟩ : ∃ y' ∈ ys, Sub x' y' := by
      clear ih hp
      induction hrest with
      | nil => simp at hx'
      | @cons a b as bs hab _ ih2 =>
        rcases List.mem_cons.mp hx' with rfl | hx'
        · exact ⟨b, by simp, hab⟩
        · obtain ⟨y', hy', hs⟩ := ih2 hx'
          exact ⟨y', by simp [hy'], hs⟩
    exact (hp.1 y' hy').sub hxy hs

theorem WFRP_sub {r : RetentionPolicyInfo} (hr : WFRP r) {gs : List ShardGroupInfo}
    (h : SubL gs r.ShardGroups) : WFRP { r with ShardGroups := gs } := by
  refine ⟨hr.sgd, ?_, pairwise_sub h hr.disj⟩
  intro g hg
  have : ∀ (xs ys : List ShardGroupInfo), SubL xs ys → g ∈ xs → WFGroup g := by
    intro xs ys hf
    induction hf with
    | nil => intro h; simp at h
    | cons hab _ ih => intro h; rcases List.mem_cons.mp h with rfl | h; exact hab.wf; exact ih h
  exact this _ _ h hg

theorem forall2_refl {l : List ShardGroupInfo} (h : ∀ g ∈ l, WFGroup g) : SubL l l := by
  induction l with
  | nil => exact SubL.nil
  | cons y ys ih => exact SubL.cons (Sub.refl (h y (by simp))) (ih (fun g hg => h g (by simp [hg])))

/-- a sublist of the groups is again a well-formed policy -/
theorem WFRP_filter {r : RetentionPolicyInfo} (hr : WFRP r) (p : ShardGroupInfo → Bool) :
    WFRP { r with ShardGroups := r.ShardGroups.filter p } :=
  ⟨hr.sgd, fun g hg => hr.groups g (List.mem_filter.mp hg).1, hr.disj.filter p⟩

theorem modelNow_ok : (0 : Int) < modelNow ∧ modelNow ≤ MaxNanoTime := by
  unfold modelNow MaxNanoTime; omega

/-- marking a group deleted at a wall-clock time -/
theorem Sub_delete {g : ShardGroupInfo} (h : WFGroup g) {t : Int} (ht : 0 < t ∧ t ≤ MaxNanoTime) :
    Sub { g with DeletedAt := t } g :=
  ⟨rfl, rfl, fun _ => by simp only; unfold zeroTime; omega, ⟨h.lo, h.ne, h.hi, h.tr, Or.inr ht⟩⟩

theorem forall2_deleteGo {l : List ShardGroupInfo} (h : ∀ g ∈ l, WFGroup g) (id : Nat) {t : Int}
    (ht : 0 < t ∧ t ≤ MaxNanoTime) : SubL (deleteShardGroup.go id t l) l := by
  induction l with
  | nil => exact SubL.nil
  | cons y ys ih =>
    simp only [deleteShardGroup.go]
    split
    · exact SubL.cons (Sub_delete (h y (by simp)) ht) (forall2_refl (fun g hg => h g (by simp [hg])))
    · exact SubL.cons (Sub.refl (h y (by simp))) (ih (fun g hg => h g (by simp [hg])))

theorem getRP_name {d : Data} {db rp : String} {r : RetentionPolicyInfo} (h : getRP d db rp = .ok r) : r.Name = rp := by
  obtain ⟨_, _, _, _, hn⟩ := getRP_ok h; exact hn

theorem deleteShardGroup_wf {d d' : Data} (hwf : WF d) {db rp : String} {id : Nat} {t : Int}
    (ht : 0 < t ∧ t ≤ MaxNanoTime) (h : deleteShardGroup d db rp id t = .ok d') : WF d' := by
  unfold deleteShardGroup at h
  cases hr : getRP d db rp with
  | error e => simp [hr] at h
  | ok r =>
    simp only [hr] at h
    split at h
    · simp only [Except.ok.injEq] at h
      subst h
      have hwr := getRP_wf hwf hr
      exact WF_setRP hwf db rp _ (getRP_name (r := r) hr) (WFRP_sub hwr (forall2_deleteGo hwr.groups id ht))
    · cases h

theorem forall2_map_sub {l : List ShardGroupInfo} (f : ShardGroupInfo → ShardGroupInfo)
    (h : ∀ g ∈ l, Sub (f g) g) : SubL (l.map f) l := by
  induction l with
  | nil => exact SubL.nil
  | cons y ys ih => exact SubL.cons (h y (by simp)) (ih (fun g hg => h g (by simp [hg])))

theorem setDeletedAt_wf {d : Data} (hwf : WF d) (db rp : String) (id : Nat) {t : Int}
    (ht : 0 < t ∧ t ≤ MaxNanoTime) : WF (setDeletedAt d db rp id t) := by
  unfold setDeletedAt
  cases hr : getRP d db rp with
  | error e => exact hwf
  | ok r =>
    simp only
    have hwr := getRP_wf hwf hr
    refine WF_setRP hwf db rp _ (getRP_name (r := r) hr) (WFRP_sub hwr (forall2_map_sub _ ?_))
    intro g hg
    split
    · exact Sub_delete (hwr.groups g hg) ht
    · exact Sub.refl (hwr.groups g hg)

theorem setDuration_wf {d : Data} (hwf : WF d) (db rp : String) (D : Int) : WF (setDuration d db rp D) := by
  unfold setDuration
  cases hr : getRP d db rp with
  | error e => exact hwf
  | ok r =>
    have hwr := getRP_wf hwf hr
    exact WF_setRP hwf db rp _ (getRP_name (r := r) hr) ⟨hwr.sgd, hwr.groups, hwr.disj⟩

theorem setDuration_mono (d : Data) (db rp : String) (D : Int) : Mono d (setDuration d db rp D) := by
  unfold setDuration
  cases hr : getRP d db rp with
  | error e => exact Mono.refl d
  | ok r => exact Mono_setRP hr (getRP_name (r := r) hr) (fun _ h => h)

/-! ### `DropShard` -/

theorem Sub_dropShard {g : ShardGroupInfo} (h : WFGroup g) (shards : List ShardInfo) {t : Int}
    (ht : 0 < t ∧ t ≤ MaxNanoTime) (c : Bool) :
    Sub (if c then { { g with Shards := shards } with DeletedAt := t } else { g with Shards := shards }) g := by
  split
  · exact ⟨rfl, rfl, fun _ => by simp only; unfold zeroTime; omega, ⟨h.lo, h.ne, h.hi, h.tr, Or.inr ht⟩⟩
  · exact ⟨rfl, rfl, fun h => h, ⟨h.lo, h.ne, h.hi, h.tr, h.del⟩⟩

theorem dropShardGroups_sub {l l' : List ShardGroupInfo} (h : ∀ g ∈ l, WFGroup g) (id : Nat) {t : Int}
    (ht : 0 < t ∧ t ≤ MaxNanoTime) (hd : dropShardGroups id t l = some l') : SubL l' l := by
  induction l generalizing l' with
  | nil => simp [dropShardGroups] at hd
  | cons y ys ih =>
    simp only [dropShardGroups] at hd
    split at hd
    · simp only [Option.some.injEq] at hd
      subst hd
      exact SubL.cons (Sub_dropShard (h y (by simp)) _ ht _) (forall2_refl (fun g hg => h g (by simp [hg])))
    · cases hrec : dropShardGroups id t ys with
      | none => simp [hrec] at hd
      | some zs =>
        simp only [hrec, Option.map_some, Option.some.injEq] at hd
        subst hd
        exact SubL.cons (Sub.refl (h y (by simp))) (ih (fun g hg => h g (by simp [hg])) hrec)

theorem dropShardRPs_wf {l l' : List RetentionPolicyInfo} (h : ∀ r ∈ l, WFRP r) (id : Nat) {t : Int}
    (ht : 0 < t ∧ t ≤ MaxNanoTime) (hd : dropShardRPs id t l = some l') :
    (∀ r ∈ l', WFRP r) ∧ l'.map (·.Name) = l.map (·.Name) := by
  induction l generalizing l' with
  | nil => simp [dropShardRPs] at hd
  | cons y ys ih =>
    simp only [dropShardRPs] at hd
    cases hg : dropShardGroups id t y.ShardGroups with
    | some gs =>
      simp only [hg, Option.some.injEq] at hd
      subst hd
      refine ⟨?_, by simp⟩
      intro r hr
      rcases List.mem_cons.mp hr with rfl | hr
      · exact WFRP_sub (h y (by simp)) (dropShardGroups_sub (h y (by simp)).groups id ht hg)
      · exact h r (by simp [hr])
    | none =>
      simp only [hg] at hd
      cases hrec : dropShardRPs id t ys with
      | none => simp [hrec] at hd
      | some zs =>
        simp only [hrec, Option.map_some, Option.some.injEq] at hd
        subst hd
        have := ih (fun r hr => h r (by simp [hr])) hrec
        refine ⟨?_, by simp [this.2]⟩
        intro r hr
        rcases List.mem_cons.mp hr with rfl | hr
        · exact h r (by simp)
        · exact this.1 r hr

theorem dropShardDBs_wf {l l' : List DatabaseInfo} (h : ∀ di ∈ l, WFDB di) (id : Nat) {t : Int}
    (ht : 0 < t ∧ t ≤ MaxNanoTime) (hd : dropShardDBs id t l = some l') :
    (∀ di ∈ l', WFDB di) ∧ l'.map (·.Name) = l.map (·.Name) := by
  induction l generalizing l' with
  | nil => simp [dropShardDBs] at hd
  | cons y ys ih =>
    simp only [dropShardDBs] at hd
    cases hg : dropShardRPs id t y.RetentionPolicies with
    | some rs =>
      simp only [hg, Option.some.injEq] at hd
      subst hd
      have := dropShardRPs_wf (h y (by simp)).rps id ht hg
      refine ⟨?_, by simp⟩
      intro di hdi
      rcases List.mem_cons.mp hdi with rfl | hdi
      · exact ⟨this.1, by simp only [this.2]; exact (h y (by simp)).names⟩
      · exact h di (by simp [hdi])
    | none =>
      simp only [hg] at hd
      cases hrec : dropShardDBs id t ys with
      | none => simp [hrec] at hd
      | some zs =>
        simp only [hrec, Option.map_some, Option.some.injEq] at hd
        subst hd
        have := ih (fun r hr => h r (by simp [hr])) hrec
        refine ⟨?_, by simp [this.2]⟩
        intro r hr
        rcases List.mem_cons.mp hr with rfl | hr
        · exact h r (by simp)
        · exact this.1 r hr

theorem dropShard_wf {d : Data} (hwf : WF d) (id : Nat) {t : Int} (ht : 0 < t ∧ t ≤ MaxNanoTime) :
    WF (dropShard d id t) := by
  unfold dropShard
  cases hd : dropShardDBs id t d.Databases with
  | none => exact hwf
  | some ds =>
    have := dropShardDBs_wf hwf.dbs id ht hd
    exact ⟨this.1, by simp only [this.2]; exact hwf.names⟩

theorem pruneShardGroups_wf {d : Data} (hwf : WF d) (e : Int) : WF (pruneShardGroups d e) := by
  unfold pruneShardGroups
  refine ⟨?_, ?_⟩
  · intro di hdi
    simp only [List.mem_map] at hdi
    obtain ⟨di0, hdi0, rfl⟩ := hdi
    have h0 := hwf.dbs di0 hdi0
    refine ⟨?_, ?_⟩
    · intro r hr
      simp only [List.mem_map] at hr
      obtain ⟨r0, hr0, rfl⟩ := hr
      exact WFRP_filter (h0.rps r0 hr0) _
    · simp only [List.map_map]
      have : ((fun x : RetentionPolicyInfo => x.Name) ∘ fun r : RetentionPolicyInfo =>
          { r with ShardGroups := r.ShardGroups.filter fun g =>
            Time.IsZero g.DeletedAt || !Time.After e g.DeletedAt || decide (g.Shards.length > 0) }) = (·.Name) := by
        funext r; rfl
      rw [this]; exact h0.names
  · simp only [List.map_map]
    have : ((fun x : DatabaseInfo => x.Name) ∘ fun di : DatabaseInfo =>
        { di with RetentionPolicies := di.RetentionPolicies.map fun r =>
          { r with ShardGroups := r.ShardGroups.filter fun g =>
            Time.IsZero g.DeletedAt || !Time.After e g.DeletedAt || decide (g.Shards.length > 0) } }) = (·.Name) := by
      funext r; rfl
    rw [this]; exact hwf.names

end Influx.Meta

namespace Influx.Meta
open Influx.Generated.Meta

/-! ### the harness op `rp` -/

theorem normalised_pos (sgd : Int) : 0 < NormalisedShardDuration sgd 0 := by
  unfold NormalisedShardDuration shardGroupDuration MinRetentionPolicyDuration
  simp only [beq_iff_eq, decide_eq_true_eq, Bool.or_eq_true]
  split
  · split <;> omega
  · split
    · split
      · omega
      · split <;> omega
    · omega

theorem not_mem_names_of_find_none {α : Type} (name : α → String) (l : List α) (n : String)
    (h : l.find? (fun x => name x == n) = none) : n ∉ l.map name := by
  intro hc
  simp only [List.mem_map] at hc
  obtain ⟨x, hx, rfl⟩ := hc
  have := List.find?_eq_none.mp h x hx
  simp at this

theorem find_map_names {l : List DatabaseInfo} (f : DatabaseInfo → DatabaseInfo) (hf : ∀ x, (f x).Name = x.Name)
    (n : String) : (l.map f).find? (fun x => x.Name == n) = (l.find? (fun x => x.Name == n)).map f := by
  induction l with
  | nil => rfl
  | cons y ys ih =>
    simp only [List.map_cons]
    by_cases hy : (y.Name == n) = true
    · rw [List.find?_cons_of_pos (by simpa [hf] using hy), List.find?_cons_of_pos (by simpa using hy)]; rfl
    · rw [List.find?_cons_of_neg (by simpa [hf] using hy), List.find?_cons_of_neg (by simpa using hy)]; exact ih

/-- replacing the database named `db` by one with the same name in which every policy of the old
    one is still found: nothing that could be looked up is lost -/
theorem getRP_replace_db {d1 : Data} (hwf : WF d1) {db : String} {di di' : DatabaseInfo} (hdi : di ∈ d1.Databases)
    (hdin : di.Name = db) (hname : di'.Name = db)
    (hkeep : ∀ rp2 r, di.findRP rp2 = some r → di'.findRP rp2 = some r)
    {db2 rp2 : String} {r : RetentionPolicyInfo} (h : getRP d1 db2 rp2 = .ok r) :
    getRP { d1 with Databases := d1.Databases.map fun x => if x.Name == db then di' else x } db2 rp2 = .ok r := by
  unfold getRP retentionPolicy findDB at h ⊢
  simp only
  rw [find_map_names _ (by intro x; split <;> simp_all) db2]
  cases hf : d1.Databases.find? (fun x => x.Name == db2) with
  | none => simp [hf] at h
  | some dj =>
    simp only [hf, Option.map_some] at h ⊢
    by_cases hx : (dj.Name == db) = true
    · simp only [hx, ↓reduceIte]
      have hdj : dj ∈ d1.Databases := List.mem_of_find?_eq_some hf
      have hdjdi : dj = di := by
        have h1 := findDB_of_mem hwf.names hdj
        have h2 := findDB_of_mem hwf.names hdi
        simp only [beq_iff_eq] at hx
        rw [hx] at h1; rw [hdin] at h2; rw [h1] at h2; exact Option.some.inj h2
      subst hdjdi
      cases hr : dj.findRP rp2 with
      | none => simp [hr] at h
      | some r0 =>
        simp only [hr, Except.ok.injEq] at h
        subst h
        simp [hkeep rp2 r0 hr]
    · simp only [hx, Bool.false_eq_true, ↓reduceIte]
      exact h

/-- the domain of the harness op `rp`: a raw shard group duration is positive -/
theorem opRP_wf {d d' : Data} (hwf : WF d) {db rp : String} {sgd : Int} {raw : Bool}
    (hdom : raw = true → 0 < sgd) (h : opRP d db rp sgd raw = .ok d') : WF d' ∧ Mono d d' := by
  unfold opRP at h
  -- the data with the database in place
  generalize hd1 : (if (findDB d db).isSome = true then d else
      { d with Databases := d.Databases ++ [{ Name := db, DefaultRetentionPolicy := "", RetentionPolicies := [] }] }) = d1 at h
  have hwf1 : WF d1 ∧ Mono d d1 := by
    subst hd1
    split
    · exact ⟨hwf, Mono.refl d⟩
    · next hnone =>
      have hnone' : findDB d db = none := by simpa using hnone
      refine ⟨⟨?_, ?_⟩, ?_⟩
      · intro di hdi
        simp only [List.mem_append, List.mem_singleton] at hdi
        rcases hdi with hdi | rfl
        · exact hwf.dbs di hdi
        · exact ⟨by simp, by simp⟩
      · simp only [List.map_append, List.map_cons, List.map_nil]
        rw [List.nodup_append]
        refine ⟨hwf.names, by simp, ?_⟩
        intro a ha b hb
        simp only [List.mem_singleton] at hb
        subst hb
        intro hab; subst hab
        exact not_mem_names_of_find_none DatabaseInfo.Name d.Databases _ hnone' ha
      · intro db2 rp2 r hr
        refine ⟨r, ?_, fun _ h => h⟩
        unfold getRP retentionPolicy findDB at hr ⊢
        simp only [List.find?_append]
        cases hf : d.Databases.find? (fun x => x.Name == db2) with
        | none => simp [findDB, hf] at hr
        | some di => simpa [hf] using hr
  cases hdb : findDB d1 db with
  | none => simp [hdb] at h
  | some di =>
    simp only [hdb] at h
    have hdi : di ∈ d1.Databases := by unfold findDB at hdb; exact List.mem_of_find?_eq_some hdb
    have hdin : di.Name = db := by unfold findDB at hdb; simpa using List.find?_some hdb
    -- the final (raw) adjustment
    have fin : ∀ d2 d3 : Data, WF d2 → Mono d d2 →
        (if raw = true then
          match getRP d2 db rp with
          | .ok r => Except.ok (setRP d2 db rp { r with ShardGroupDuration := sgd })
          | .error e => Except.error e
        else Except.ok d2) = Except.ok d3 → WF d3 ∧ Mono d d3 := by
      intro d2 d3 hw2 hm2 hfin
      by_cases hraw : raw = true
      · simp only [hraw, ↓reduceIte] at hfin
        cases hr : getRP d2 db rp with
        | error e => simp [hr] at hfin
        | ok r =>
          simp only [hr, Except.ok.injEq] at hfin
          subst hfin
          have hwr := getRP_wf hw2 hr
          exact ⟨WF_setRP hw2 db rp _ (getRP_name (r := r) hr) ⟨hdom hraw, hwr.groups, hwr.disj⟩,
            hm2.trans (Mono_setRP hr (getRP_name (r := r) hr) (fun _ h => h))⟩
      · simp only [hraw, Bool.false_eq_true, ↓reduceIte, Except.ok.injEq] at hfin
        subst hfin
        exact ⟨hw2, hm2⟩
    cases hrp : di.findRP rp with
    | some r =>
      simp only [hrp] at h
      split at h
      · cases h
      · exact fin d1 d' hwf1.1 hwf1.2 h
    | none =>
      simp only [hrp] at h
      refine fin _ d' ?_ ?_ h
      · -- the database with the new, empty policy appended
        refine ⟨?_, ?_⟩
        · intro x hx
          simp only [List.mem_map] at hx
          obtain ⟨y, hy, rfl⟩ := hx
          split
          · have h0 := hwf1.1.dbs di hdi
            refine ⟨?_, ?_⟩
            · intro r hr
              simp only [List.mem_append, List.mem_singleton] at hr
              rcases hr with hr | rfl
              · exact h0.rps r hr
              · exact ⟨normalised_pos sgd, by simp, by simp⟩
            · simp only [List.map_append, List.map_cons, List.map_nil]
              rw [List.nodup_append]
              refine ⟨h0.names, by simp, ?_⟩
              intro a ha b hb
              simp only [List.mem_singleton] at hb
              subst hb
              intro hab; subst hab
              unfold DatabaseInfo.findRP at hrp
              exact not_mem_names_of_find_none RetentionPolicyInfo.Name di.RetentionPolicies _ hrp ha
          · exact hwf1.1.dbs y hy
        · simp only [List.map_map]
          have : d1.Databases.map ((fun x : DatabaseInfo => x.Name) ∘ fun x => if (x.Name == db) = true then
              { di with RetentionPolicies := di.RetentionPolicies ++
                [{ Name := rp, ReplicaN := 1, Duration := 0, ShardGroupDuration := NormalisedShardDuration sgd 0, ShardGroups := [] }] }
              else x) = d1.Databases.map (·.Name) := by
            apply List.map_congr_left
            intro x _
            simp only [Function.comp]
            split
            · next hx => simp only [beq_iff_eq] at hx; simp [hx, hdin]
            · rfl
          rw [this]; exact hwf1.1.names
      · refine hwf1.2.trans ?_
        intro db2 rp2 r hr
        refine ⟨r, ?_, fun _ h => h⟩
        refine getRP_replace_db (di' := { di with RetentionPolicies := di.RetentionPolicies ++
          [{ Name := rp, ReplicaN := 1, Duration := 0, ShardGroupDuration := NormalisedShardDuration sgd 0, ShardGroups := [] }] })
          hwf1.1 hdi hdin hdin ?_ hr
        intro rp3 r3 h3
        unfold DatabaseInfo.findRP at h3 ⊢
        simp [List.find?_append, h3]

end Influx.Meta

namespace Influx.Meta
open Influx.Generated.Meta

/-! ### `DeletionCheck` keeps the data well-formed -/

theorem dcExpire_wf (db rp : String) {now : Int} (hn : 0 < now ∧ now ≤ MaxNanoTime) (s : DC) (g : ShardGroupInfo)
    (h : WF s.data) : WF (dcExpire db rp now s g).data := by
  unfold dcExpire
  split
  · exact h
  · cases hd : deleteShardGroup s.data db rp g.ID now with
    | error e => simpa [hd] using h
    | ok d' => simpa [hd] using deleteShardGroup_wf h hn hd

theorem dcCollect_wf {now : Int} (hn : 0 < now ∧ now ≤ MaxNanoTime) (s : DC) (h : WF s.data) :
    WF (dcCollect now s).data := by
  unfold dcCollect
  apply foldl_inv (fun s' : DC => WF s'.data) _ _ _ h
  intro s1 di _ h1
  apply foldl_inv (fun s' : DC => WF s'.data) _ _ _ h1
  intro s2 r _ h2
  unfold dcPolicy
  exact foldl_inv (fun s' : DC => WF s'.data) _ _ _ h2 (fun s3 g _ h3 => dcExpire_wf _ _ hn s3 g h3)

theorem dcDropRef_wf {now : Int} (hn : 0 < now ∧ now ≤ MaxNanoTime) (ph : Bool) (s : DC) (id : Nat)
    (h : WF s.data) : WF (dcDropRef now ph s id).data := by
  unfold dcDropRef
  split
  · exact h
  · exact dropShard_wf h id hn

theorem dcLocal_wf {now : Int} (hn : 0 < now ∧ now ≤ MaxNanoTime) (s : DC) (id : Nat)
    (h : WF s.data) : WF (dcLocal now s id).data := by
  unfold dcLocal
  split
  · exact h
  · simp only
    split
    · exact h
    · split
      · exact h
      · split
        · exact h
        · split
          · exact dcDropRef_wf hn _ _ _ h
          · split
            · exact h
            · exact dcDropRef_wf hn _ _ _ h

theorem deletionCheck_wf {now : Int} (hn : 0 < now ∧ now ≤ MaxNanoTime) (d : Data) (st : Store) (h : WF d) :
    WF (deletionCheck now d st).data := by
  unfold deletionCheck
  simp only
  apply pruneShardGroups_wf
  apply foldl_inv (fun s' : DC => WF s'.data)
  · show WF (List.foldl (dcLocal now) _ _).data
    apply foldl_inv (fun s' : DC => WF s'.data)
    · exact dcCollect_wf hn _ h
    · intro s id _ hs; exact dcLocal_wf hn s id hs
  · intro s id _ hs; exact dcDropRef_wf hn true s id hs

/-! ### `MapShards` -/

theorem mapShards_wf {d : Data} (hwf : WF d) (db rp : String) (now : Int) {ts : List Int}
    (hts : ∀ t ∈ ts, inRange t) : WF (mapShards d db rp now ts).1 ∧ Mono d (mapShards d db rp now ts).1 := by
  unfold mapShards
  cases hr : getRP d db rp with
  | error e => exact ⟨hwf, Mono.refl d⟩
  | ok r =>
    simp only
    have := mapCreate_spec db rp (minTime r now) ts d SgList.empty hwf (SgOK.empty_ok d db rp) hts
    cases hm : mapCreate db rp (minTime r now) d SgList.empty ts with
    | mk d' res =>
      rw [hm] at this
      cases res with
      | error e => exact ⟨this.1, this.2.1⟩
      | ok l =>
        simp only
        cases mapPlace (minTime r now) l ts <;> exact ⟨this.1, this.2.1⟩

end Influx.Meta

namespace Influx.Meta
open Influx.Generated.Meta

/-! ### `PrecreateShardGroups` -/

theorem precreateRP_spec {d : Data} (hwf : WF d) (from_ to : Int) (hto : to ≤ MaxNanoTime) (db : String)
    (r : RetentionPolicyInfo) (hr : WFRP r) :
    WF (precreateRP from_ to db d r) ∧ Mono d (precreateRP from_ to db d r) := by
  unfold precreateRP
  cases hl : r.ShardGroups.getLast? with
  | none => exact ⟨hwf, Mono.refl d⟩
  | some g =>
    simp only
    split
    · next hcond =>
      simp only [Bool.and_eq_true, Bool.not_eq_true', before_iff, after_iff] at hcond
      have hg : g ∈ r.ShardGroups := List.mem_of_getLast? hl
      have hwg := hr.groups g hg
      have hin : inRange (Time.Add g.EndTime 1) := by
        have := hwg.lo; have := hwg.ne
        simp only [inRange, add_eq]; omega
      cases hrp : getRP d db r.Name with
      | error e => exact ⟨hwf, Mono.refl d⟩
      | ok r' =>
        simp only
        split
        · exact ⟨hwf, Mono.refl d⟩
        · cases hc : createShardGroup d db r.Name (Time.Add g.EndTime 1) with
          | error e => exact ⟨hwf, Mono.refl d⟩
          | ok d' =>
            have := createShardGroup_spec hwf hin hc
            exact ⟨this.1, this.2.1⟩
    · exact ⟨hwf, Mono.refl d⟩

theorem precreate_spec {d : Data} (hwf : WF d) (from_ to : Int) (hto : to ≤ MaxNanoTime) :
    WF (precreateShardGroups d from_ to) ∧ Mono d (precreateShardGroups d from_ to) := by
  unfold precreateShardGroups
  apply foldl_inv (fun acc : Data => WF acc ∧ Mono d acc) _ _ _ ⟨hwf, Mono.refl d⟩
  intro acc di hdi hacc
  apply foldl_inv (fun acc : Data => WF acc ∧ Mono d acc) _ _ _ hacc
  intro acc2 r hr hacc2
  have := precreateRP_spec hacc2.1 from_ to hto di.Name r ((hwf.dbs di hdi).rps r hr)
  exact ⟨this.1, hacc2.2.trans this.2⟩

/-! ### the state machine -/

/-- the quantifier domain of the meta properties, per operation -/
def opDom : Op → Prop
  | .rp _ _ sgd raw => raw = true → 0 < sgd
  | .sgd _ _ d => 0 < d
  | .csg _ _ t => inRange t
  | .ms _ _ _ ts => ∀ t ∈ ts, inRange t
  | .setdel _ _ _ a => 0 < a ∧ a ≤ MaxNanoTime
  | .pre _ to => to ≤ MaxNanoTime
  | .trunc _ => False
  | _ => True

theorem foldl_setDuration_wf (cs : List (String × String × Int)) (d : Data) (h : WF d) :
    WF (cs.foldl (fun d (x : String × String × Int) => setDuration d x.1 x.2.1 (modelNow - x.2.2)) d) := by
  induction cs generalizing d with
  | nil => exact h
  | cons c cs ih => exact ih _ (setDuration_wf h _ _ _)

theorem clearDurations_wf {d : Data} (h : WF d) : WF (clearDurations d) := by
  unfold clearDurations
  refine ⟨?_, ?_⟩
  · intro di hdi
    simp only [List.mem_map] at hdi
    obtain ⟨di0, hdi0, rfl⟩ := hdi
    have h0 := h.dbs di0 hdi0
    refine ⟨?_, ?_⟩
    · intro r hr
      simp only [List.mem_map] at hr
      obtain ⟨r0, hr0, rfl⟩ := hr
      have := h0.rps r0 hr0
      exact ⟨this.sgd, this.groups, this.disj⟩
    · simp only [List.map_map]
      have : ((fun x : RetentionPolicyInfo => x.Name) ∘ fun r : RetentionPolicyInfo => { r with Duration := 0 }) = (·.Name) := by
        funext r; rfl
      rw [this]; exact h0.names
  · simp only [List.map_map]
    have : ((fun x : DatabaseInfo => x.Name) ∘ fun di : DatabaseInfo =>
        { di with RetentionPolicies := di.RetentionPolicies.map fun r => { r with Duration := 0 } }) = (·.Name) := by
      funext r; rfl
    rw [this]; exact h.names

/-- **every in-domain operation keeps the meta data well-formed** -/
theorem step_wf (s : State) (op : Op) (hwf : WF s.data) (hd : opDom op) : WF (step s op).1.data := by
  cases op with
  | rp db rp sgd raw =>
    simp only [step]
    cases h : opRP s.data db rp sgd raw with
    | ok d => exact (opRP_wf hwf hd h).1
    | error e => exact hwf
  | sgd db rp d =>
    simp only [step]
    cases hr : getRP s.data db rp with
    | error e => exact hwf
    | ok r =>
      have hwr := getRP_wf hwf hr
      exact WF_setRP hwf db rp _ (getRP_name (r := r) hr) ⟨hd, hwr.groups, hwr.disj⟩
  | csg db rp t =>
    simp only [step]
    cases h : clientCreateShardGroup s.data db rp t with
    | error e => exact hwf
    | ok res => obtain ⟨d, g⟩ := res; exact (clientCreateShardGroup_spec hwf hd h).1
  | ms db rp c ts =>
    simp only [step]
    generalize hd0 : setDuration s.data db rp _ = d0
    have hw0 : WF d0 := by subst hd0; exact setDuration_wf hwf _ _ _
    have := mapShards_wf hw0 db rp modelNow hd
    cases hm : mapShards d0 db rp modelNow ts with
    | mk d res =>
      rw [hm] at this
      cases res <;> exact this.1
  | dump db rp => simp only [step]; split <;> exact hwf
  | restart => simp only [step]; rw [reload_id hwf]; exact hwf
  | find db rp t => simp only [step]; split <;> exact hwf
  | range db rp a b => simp only [step]; split <;> exact hwf
  | del db rp id =>
    simp only [step]
    cases h : deleteShardGroup s.data db rp id modelNow with
    | ok d => exact deleteShardGroup_wf hwf modelNow_ok h
    | error e => exact hwf
  | exp db rp D t => simp only [step]; split <;> exact hwf
  | store f ids => exact hwf
  | dc cs =>
    simp only [step]
    exact deletionCheck_wf modelNow_ok _ _ (foldl_setDuration_wf cs _ (clearDurations_wf hwf))
  | setdel db rp id a => exact setDeletedAt_wf hwf db rp id hd
  | dropshard id => exact dropShard_wf hwf id modelNow_ok
  | pre a b => exact (precreate_spec hwf a b hd).1
  | trunc t => exact hd.elim

theorem init_wf : WF State.init.data := ⟨by simp [State.init], by simp [State.init]⟩

/-- operations that never remove a group from a policy -/
def keeps : Op → Bool
  | .del .. | .dc .. | .setdel .. | .dropshard .. => false
  | _ => true

theorem step_mono (s : State) (op : Op) (hwf : WF s.data) (hd : opDom op) (hk : keeps op = true) :
    Mono s.data (step s op).1.data := by
  cases op with
  | rp db rp sgd raw =>
    simp only [step]
    cases h : opRP s.data db rp sgd raw with
    | ok d => exact (opRP_wf hwf hd h).2
    | error e => exact Mono.refl _
  | sgd db rp d =>
    simp only [step]
    cases hr : getRP s.data db rp with
    | error e => exact Mono.refl _
    | ok r => exact Mono_setRP hr (getRP_name (r := r) hr) (fun _ h => h)
  | csg db rp t =>
    simp only [step]
    cases h : clientCreateShardGroup s.data db rp t with
    | error e => exact Mono.refl _
    | ok res => obtain ⟨d, g⟩ := res; exact (clientCreateShardGroup_spec hwf hd h).2.1
  | ms db rp c ts =>
    simp only [step]
    generalize hd0 : setDuration s.data db rp _ = d0
    have hw0 : WF d0 := by subst hd0; exact setDuration_wf hwf _ _ _
    have hm0 : Mono s.data d0 := by subst hd0; exact setDuration_mono _ _ _ _
    have := mapShards_wf hw0 db rp modelNow hd
    cases hm : mapShards d0 db rp modelNow ts with
    | mk d res =>
      rw [hm] at this
      cases res <;> exact hm0.trans this.2
  | dump db rp => simp only [step]; split <;> exact Mono.refl _
  | restart => simp only [step]; rw [reload_id hwf]; exact Mono.refl _
  | find db rp t => simp only [step]; split <;> exact Mono.refl _
  | range db rp a b => simp only [step]; split <;> exact Mono.refl _
  | exp db rp D t => simp only [step]; split <;> exact Mono.refl _
  | store f ids => exact Mono.refl _
  | pre a b => exact (precreate_spec hwf a b hd).2
  | trunc t => exact hd.elim
  | del | dc | setdel | dropshard => simp [keeps] at hk

end Influx.Meta
