/-
  Lemmas.EpochInv — invariant of the epoch tracker: a delete's `pending` is the number of
  writes that entered before it and have not left.
-/
import Influx.Model.Epoch

namespace Influx.Model.Epoch

def earlier (t : Tracker) (d : Del) : List Wr := t.inflight.filter fun w => w.gen < d.gen

structure Inv (t : Tracker) : Prop where
  writes : t.writes = t.inflight.length
  wids : (t.inflight.map (·.id)).Nodup
  wgen : ∀ w ∈ t.inflight, w.gen ≤ t.epoch
  dgen : ∀ d ∈ t.deletes, d.gen ≤ t.largest ∧ t.largest ≤ t.epoch
  distinct : ∀ w ∈ t.inflight, ∀ d ∈ t.deletes, w.gen ≠ d.gen
  pending : ∀ d ∈ t.deletes, d.pending = (earlier t d).length

theorem inv_init : Inv {} := by
  constructor <;> simp

theorem filter_length_remove (l : List Wr) (id : Int) (w : Wr) (hnd : (l.map (·.id)).Nodup)
    (hw : w ∈ l) (hid : w.id = id) (p : Wr → Bool) :
    ((l.filter (·.id ≠ id)).filter p).length = (l.filter p).length - (if p w then 1 else 0) := by
  induction l with
  | nil => cases hw
  | cons x xs ih =>
    have hx := (List.nodup_cons.1 hnd).1
    have hxs := (List.nodup_cons.1 hnd).2
    rcases List.mem_cons.1 hw with rfl | hw'
    · -- w is the head; no other element has its id
      have hrest : xs.filter (·.id ≠ id) = xs := by
        rw [List.filter_eq_self]
        intro y hy
        simp only [ne_eq, decide_eq_true_eq]
        intro hc
        apply hx
        exact List.mem_map.2 ⟨y, hy, by simp only; rw [hc, hid]⟩
      simp only [List.filter_cons, hid, ne_eq, not_true_eq_false, decide_false, Bool.false_eq_true, if_false, hrest]
      by_cases hp : p w = true
      · simp [hp]
      · simp [hp]
    · have hxid : x.id ≠ id := by
        intro hc
        apply hx
        exact List.mem_map.2 ⟨w, hw', by simp only; rw [hid, hc]⟩
      simp only [List.filter_cons, ne_eq, hxid, not_false_eq_true, decide_true, if_true]
      have := ih hxs hw'
      by_cases hpx : p x = true
      · simp only [hpx, if_true, List.length_cons]
        rw [this]
        have hpos : p w = true → 0 < (xs.filter p).length := by
          intro hpw
          exact List.length_pos_of_mem (List.mem_filter.2 ⟨hw', hpw⟩)
        by_cases hpw : p w = true
        · have := hpos hpw; simp [hpw]; omega
        · simp [hpw]
      · simp only [hpx, Bool.false_eq_true, if_false]
        exact this

/-- **The invariant is kept by every step.** -/
theorem inv_step (t : Tracker) (h : Inv t) (op : EOp) : Inv (step t op).1 := by
  cases op with
  | startWrite id times =>
    simp only [step]
    split
    · exact h
    · next hno =>
      simp only [List.any_eq_true, decide_eq_true_eq, not_exists, not_and] at hno
      constructor
      · simp [h.writes]
      · simp only [List.map_append, List.map_cons, List.map_nil]
        rw [List.nodup_append]
        refine ⟨h.wids, by simp, ?_⟩
        intro a ha b hb
        simp only [List.mem_singleton] at hb
        subst hb
        obtain ⟨w, hw, rfl⟩ := List.mem_map.1 ha
        exact hno w hw
      · intro w hw
        simp only [List.mem_append, List.mem_singleton] at hw
        rcases hw with hw | rfl
        · have := h.wgen w hw; simp only; omega
        · simp
      · intro d hd
        have := h.dgen d hd
        simp only; omega
      · intro w hw d hd
        simp only [List.mem_append, List.mem_singleton] at hw
        rcases hw with hw | rfl
        · exact h.distinct w hw d hd
        · have := h.dgen d hd
          simp only; omega
      · intro d hd
        rw [h.pending d hd]
        have hdg := h.dgen d hd
        simp only [earlier, List.filter_append, List.length_append]
        have : ([⟨id, t.epoch + 1⟩] : List Wr).filter (fun w => w.gen < d.gen) = [] := by
          simp only [List.filter_cons, List.filter_nil]
          have : ¬ (t.epoch + 1 < d.gen) := by omega
          simp [this]
        rw [this]; simp
  | endWrite id =>
    simp only [step]
    cases hf : t.inflight.find? (·.id = id) with
    | none => exact h
    | some w =>
      have hw : w ∈ t.inflight := List.mem_of_find?_eq_some hf
      have hwid : w.id = id := by simpa using List.find?_some hf
      simp only
      have hlen : (t.inflight.filter (·.id ≠ id)).length = t.inflight.length - 1 := by
        have := filter_length_remove t.inflight id w h.wids hw hwid (fun _ => true)
        have hall : t.inflight.filter (fun _ => true) = t.inflight := by
          rw [List.filter_eq_self]; intro _ _; rfl
        rw [hall] at this
        simpa using this
      have hpos : 0 < t.inflight.length := List.length_pos_of_mem hw
      constructor
      · simp only [hlen, h.writes]; omega
      · exact List.Nodup.sublist (List.Sublist.map _ List.filter_sublist) h.wids
      · intro x hx
        exact h.wgen x (List.mem_filter.1 hx).1
      · intro d hd
        split at hd
        · obtain ⟨d0, hd0, rfl⟩ := List.mem_map.1 hd
          have := h.dgen d0 hd0
          split <;> exact this
        · exact h.dgen d hd
      · intro x hx d hd
        have hx' := (List.mem_filter.1 hx).1
        split at hd
        · obtain ⟨d0, hd0, rfl⟩ := List.mem_map.1 hd
          have := h.distinct x hx' d0 hd0
          split <;> exact this
        · exact h.distinct x hx' d hd
      · intro d hd
        simp only [earlier]
        split at hd
        · next hle =>
          obtain ⟨d0, hd0, rfl⟩ := List.mem_map.1 hd
          have hrem := filter_length_remove t.inflight id w h.wids hw hwid (fun x => decide (x.gen < d0.gen))
          have hp0 := h.pending d0 hd0
          have hne := h.distinct w hw d0 hd0
          simp only [earlier] at hp0
          split
          · next hgt =>
            -- the write entered after the delete: it was never counted
            rw [hrem, hp0]
            have : decide (w.gen < d0.gen) = false := by simp; omega
            simp [this]
          · next hngt =>
            simp only
            rw [hrem, hp0]
            have hlt : w.gen < d0.gen := by omega
            have hmem : w ∈ t.inflight.filter (fun x => decide (x.gen < d0.gen)) :=
              List.mem_filter.2 ⟨hw, by simpa using hlt⟩
            have := List.length_pos_of_mem hmem
            simp [hlt]; omega
        · next hnle =>
          -- the write is newer than every delete: no count changes
          have hrem := filter_length_remove t.inflight id w h.wids hw hwid (fun x => decide (x.gen < d.gen))
          rw [hrem, h.pending d hd]
          have := (h.dgen d hd).1
          have : decide (w.gen < d.gen) = false := by simp; omega
          simp [this, earlier]
  | waitDelete id lo hi =>
    simp only [step]
    split
    · exact h
    · constructor
      · exact h.writes
      · exact h.wids
      · intro w hw; have := h.wgen w hw; simp only; omega
      · intro d hd
        simp only [List.mem_append, List.mem_singleton] at hd
        rcases hd with hd | rfl
        · have := h.dgen d hd; simp only; omega
        · simp
      · intro w hw d hd
        simp only [List.mem_append, List.mem_singleton] at hd
        rcases hd with hd | rfl
        · exact h.distinct w hw d hd
        · have := h.wgen w hw; simp only; omega
      · intro d hd
        simp only [List.mem_append, List.mem_singleton] at hd
        rcases hd with hd | rfl
        · exact h.pending d hd
        · simp only [earlier, h.writes]
          have : t.inflight.filter (fun w => decide (w.gen < t.epoch + 1)) = t.inflight := by
            rw [List.filter_eq_self]
            intro w hw
            have := h.wgen w hw
            simp; omega
          rw [this]
  | pending id =>
    simp only [step]
    split <;> exact h
  | done id =>
    simp only [step]
    split
    · constructor
      · exact h.writes
      · exact h.wids
      · exact h.wgen
      · intro d hd; exact h.dgen d (List.mem_filter.1 hd).1
      · intro w hw d hd; exact h.distinct w hw d (List.mem_filter.1 hd).1
      · intro d hd; exact h.pending d (List.mem_filter.1 hd).1
    · exact h

theorem mem_insertAsc {x y : Int} {l : List Int} : y ∈ insertAsc x l ↔ y = x ∨ y ∈ l := by
  induction l with
  | nil => simp [insertAsc]
  | cons z zs ih =>
    simp only [insertAsc]
    split
    · simp
    · simp only [List.mem_cons, ih]
      constructor
      · rintro (h | h | h)
        · exact Or.inr (Or.inl h)
        · exact Or.inl h
        · exact Or.inr (Or.inr h)
      · rintro (h | h | h)
        · exact Or.inr (Or.inl h)
        · exact Or.inl h
        · exact Or.inr (Or.inr h)

theorem mem_sortAsc {y : Int} {l : List Int} : y ∈ sortAsc l ↔ y ∈ l := by
  unfold sortAsc
  induction l with
  | nil => simp
  | cons x xs ih => simp only [List.foldr_cons, mem_insertAsc, ih, List.mem_cons]

end Influx.Model.Epoch
