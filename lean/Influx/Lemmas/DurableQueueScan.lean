/-
  Lemmas.DurableQueueScan — the scanner and `advanceTo` on a well-formed segment.
-/
import Influx.Lemmas.DurableQueueCrash
namespace Influx.DQ

/-- bytes from a record boundary inside the unconsumed part -/
theorem SegWF.drop_boundary {s : Seg} {done a b} (h : SegWF s done (a ++ b)) :
    s.file.drop (s.pos + (encRecs a).length) = encRecs b ++ be64 s.pos := by
  rw [← List.drop_drop, h.drop_pos, encRecs_append, List.append_assoc]
  exact drop_len_append _ _ _ rfl

theorem SegWF.boundary_le {s : Seg} {done a b} (h : SegWF s done (a ++ b)) :
    s.pos + (encRecs a).length + (encRecs b).length = s.size - 8 ∧ s.size ≥ 8 := by
  have := h.size_eq; have := h.pos_eq
  simp [encRecs_append] at *; omega

/-- one `Next` at a record boundary: delivers the next non-empty record -/
theorem scanNext_cons {s : Seg} {done a r b} (h : SegWF s done (a ++ r :: b)) (hr : r ≠ []) (fuel : Nat) :
    scanNext s (fuel + 1) { pos := ((s.pos + (encRecs a).length : Nat) : Int) }
      = ({ pos := ((s.pos + (encRecs (a ++ [r])).length : Nat) : Int) }, some r) := by
  have hb := h.boundary_le
  have hsm := h.small
  have hsz : s.file.length = s.size := rfl
  have hfit : r.length ≤ s.maxSize := h.fits r (by simp)
  simp only [encRecs_cons, encRec_length, List.length_append] at hb
  have hd := h.drop_boundary
  simp only [encRecs_cons, encRec, List.append_assoc] at hd
  have hd8 : s.file.drop (s.pos + (encRecs a).length + 8) = r ++ (encRecs b ++ be64 s.pos) := by
    rw [← List.drop_drop, hd]; exact drop_len_append _ _ _ (by simp [be64_length])
  have hr0 : r.length ≠ 0 := by intro h0; exact hr (List.length_eq_zero_iff.mp h0)
  unfold scanNext
  simp only [Bool.false_eq_true, Option.isSome_none, or_self, if_false]
  rw [if_neg (by omega)]
  simp only [Int.toNat_natCast]
  rw [if_neg (by omega), hd, read8_be64 _ (by omega)]
  simp only []
  rw [if_neg hr0, if_neg (by omega), hd8, readN_append]
  simp only []
  rw [toI64_small _ (by omega), wrap64_small _ (by omega) (by omega)]
  congr 2
  simp [encRecs_append]; omega

/-- `Next` at the end of the segment: `eof` -/
theorem scanNext_end {s : Seg} {done a} (h : SegWF s done a) (fuel : Nat) :
    scanNext s (fuel + 1) { pos := ((s.pos + (encRecs a).length : Nat) : Int) }
      = ({ pos := ((s.pos + (encRecs a).length : Nat) : Int), eof := true }, none) := by
  have h' : SegWF s done (a ++ []) := by simpa using h
  have hb := h'.boundary_le
  unfold scanNext
  simp only [Bool.false_eq_true, Option.isSome_none, or_self, if_false]
  rw [if_neg (by omega)]
  simp only [Int.toNat_natCast]
  rw [if_pos (by simp at hb; omega)]

/-- `n` × `Next` from a record boundary: the next `n` records (all non-empty), the
    scanner ends on a record boundary without error -/
theorem scanMany_wf {s : Seg} {done} (n : Nat) :
    ∀ (a b : List Bytes), SegWF s done (a ++ b) → (∀ x ∈ b, x ≠ []) →
      ∃ sc', scanMany s n { pos := ((s.pos + (encRecs a).length : Nat) : Int) } = (sc', b.take n) ∧
        sc'.pos = ((s.pos + (encRecs (a ++ b.take n)).length : Nat) : Int) ∧ sc'.err = none := by
  induction n with
  | zero => intro a b _ _; exact ⟨_, rfl, by simp, rfl⟩
  | succ n ih =>
    intro a b h hne
    cases b with
    | nil =>
      simp only [scanMany]
      have := scanNext_end (by simpa using h : SegWF s done a) s.size
      rw [this]
      exact ⟨_, rfl, by simp, rfl⟩
    | cons r b' =>
      simp only [scanMany]
      rw [scanNext_cons h (hne r (by simp)) s.size]
      simp only []
      have h' : SegWF s done ((a ++ [r]) ++ b') := by simpa using h
      obtain ⟨sc', hsc, hpos, herr⟩ := ih (a ++ [r]) b' h' (fun x hx => hne x (by simp [hx]))
      rw [hsc]
      exact ⟨sc', rfl, by simpa using hpos, herr⟩

/-- `advanceTo` a record boundary of a well-formed segment -/
theorem advanceTo_wf {s : Seg} {done a b} (h : SegWF s done (a ++ b)) :
    SegWF (s.advanceTo ((s.pos + (encRecs a).length : Nat) : Int)).1 (done ++ a) b ∧
    (s.advanceTo ((s.pos + (encRecs a).length : Nat) : Int)).1.maxSize = s.maxSize ∧
    (s.advanceTo ((s.pos + (encRecs a).length : Nat) : Int)).2 = (if b = [] then some .eof else none) := by
  have hb := h.boundary_le
  have hsm := h.small
  have hsz : s.file.length = s.size := rfl
  unfold Seg.advanceTo
  rw [if_neg (by omega)]
  simp only [Int.toNat_natCast]
  rw [if_neg (by omega)]
  have hwf : SegWF { file := s.file.take (s.size - 8) ++ be64 (s.pos + (encRecs a).length),
                     pos := s.pos + (encRecs a).length, maxSize := s.maxSize } (done ++ a) b := by
    refine ⟨?_, by simp [encRecs_append, h.pos_eq], fun x hx => h.fits x (by simp [hx]), ?_⟩
    · simp only [h.take_size8, encRecs_append, List.append_assoc]
    · simp [be64_length]; omega
  by_cases hbn : b = []
  · subst hbn
    simp only [encRecs_nil, List.length_nil] at hb
    rw [if_pos (by omega)]
    exact ⟨hwf, rfl, by simp⟩
  · have : (encRecs b).length > 0 := by
      cases b with
      | nil => exact absurd rfl hbn
      | cons x t => simp; omega
    rw [if_neg (by omega)]
    exact ⟨hwf, rfl, by simp [hbn]⟩

end Influx.DQ
