/-
  The model's answer to the `pp` / `pk` operations of C12 as the observation `Spec.C12.holdsOn`
  judges (the driver prints the same computation as text).
-/
import Influx.Model.LineProtocolPoint
import Influx.Spec.C12

namespace Influx.LP.Trace12
open Influx.LP Influx.Spec.C12

def fieldClean (f : RawField) : Bool :=
  match f.typ with
  | .string => 2 ≤ f.valueBuf.length      -- `StringValue()` slices valueBuf[1:len-1]
  | _ => true

def pointObs (p : Point) : PointObs :=
  { key := p.key
    name := pointName p.key
    tags := (pointTags p.key).getD []
    time := p.time
    fieldKeys := (iterFields (p.fields.length + 1) p.fields).map (·.key)
    clean := (pointTags p.key).isSome &&
      (iterFields (p.fields.length + 1) p.fields).all fieldClean }

def modelObs (prec : String) (dt : Int) (buf : Bytes) : Obs :=
  let rs := parseLines buf dt prec
  { prec := prec, dt := dt, buf := buf
    res := some ((okPoints rs).map pointObs, errorText (failedLines rs)) }

end Influx.LP.Trace12
