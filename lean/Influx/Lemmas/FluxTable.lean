/-
  Lemmas.FluxTable — window arithmetic shared by the C41 theorems: Go's
  GetLatestBounds / Window.at against the floor-division windows of Spec.C41.
-/
import Influx.Model.FluxTable
import Influx.Spec.C41

namespace Influx.FluxTable
open Influx.WindowAgg Influx.Spec.C41
open Influx.Window (Window Bounds)

theorem at_start (q : Req) (i : Int) : (q.win.at i).start = q.offset + i * q.every := by
  simp [Req.win, Window.at, Int.mul_comm]

theorem at_stop (q : Req) (i : Int) : (q.win.at i).stop = q.offset + i * q.every + q.every := by
  simp [Req.win, Window.at, Int.mul_comm]

/-- the index Go computes (truncated division + adjustment) is the floor-division index -/
theorem glb_index (q : Req) (h : 0 < q.every) (t : Int) :
    (q.win.getLatestBounds t).index = widx q t := by
  simp [Window.getLatestBounds, Window.at, Req.win, widx, Window.lastIndex_eq_fdiv _ _ _ h]

theorem glb_eq_at (q : Req) (h : 0 < q.every) (t : Int) :
    q.win.getLatestBounds t = q.win.at (widx q t) := by
  simp [Window.getLatestBounds, Req.win, widx, Window.lastIndex_eq_fdiv _ _ _ h]

/-- `getWindowBoundsFor` is "window ∩ bounds" -/
theorem clip_eq (q : Req) (i : Int) : clip q (q.win.at i) = clipped q i := by
  simp only [clip, clipped, at_start, at_stop]
  congr 1
  · simp only [Int.max_def]; split <;> split <;> omega
  · simp only [Int.min_def]; split <;> split <;> omega

/-- window `widx q t` contains `t` -/
theorem widx_spec (q : Req) (h : 0 < q.every) (t : Int) :
    q.offset + widx q t * q.every ≤ t ∧ t < q.offset + widx q t * q.every + q.every := by
  have h1 := Int.mul_ediv_add_emod (t - q.offset) q.every
  have h2 := Int.emod_nonneg (t - q.offset) (by omega : q.every ≠ 0)
  have h3 := Int.emod_lt_of_pos (t - q.offset) h
  simp only [widx]
  rw [Int.mul_comm]
  constructor <;> omega

/-- a time lies in window `i` iff `i` is its index -/
theorem widx_unique (q : Req) (h : 0 < q.every) (t i : Int)
    (h1 : q.offset + i * q.every ≤ t) (h2 : t < q.offset + i * q.every + q.every) : widx q t = i := by
  have hs := widx_spec q h t
  generalize widx q t = j at *
  -- two windows containing t coincide
  have hlt : ∀ a b : Int, q.offset + a * q.every ≤ t → t < q.offset + b * q.every + q.every → a < b + 1 := by
    intro a b ha hb
    apply Int.lt_of_not_ge
    intro hge
    have := Int.mul_le_mul_of_nonneg_right hge (Int.le_of_lt h)
    rw [Int.add_mul] at this
    omega
  have := hlt j i hs.1 h2
  have := hlt i j h1 hs.2
  omega

end Influx.FluxTable
