/-
  Lemmas.TsmSpecTime — `TimeRange()` of a freshly opened index equals the checker's
  min / max over all blocks of the content (per key: blocks in min-time order with
  non-decreasing max times).
-/
import Influx.Lemmas.TsmSpecLookup
import Influx.Lemmas.TsmVisible

namespace Influx.Tsm
open Influx.Spec.C08 Influx.Generated.TsmLayout

def optMinStep (m : Option Int) (b : SBlock) : Option Int :=
  match m with
  | none => some b.minT
  | some x => some (if b.minT < x then b.minT else x)

def optMaxStep (m : Option Int) (b : SBlock) : Option Int :=
  match m with
  | none => some b.maxT
  | some x => some (if b.maxT > x then b.maxT else x)

theorem contentMin_eq (c : List SKey) : contentMin c = (c.flatMap (·.blocks)).foldl optMinStep none := rfl
theorem contentMax_eq (c : List SKey) : contentMax c = (c.flatMap (·.blocks)).foldl optMaxStep none := rfl

theorem foldMin_spec (l : List SBlock) : ∀ (x : Int),
    ∃ m, l.foldl optMinStep (some x) = some m ∧ m ≤ x ∧ (∀ b ∈ l, m ≤ b.minT) ∧ (m = x ∨ ∃ b ∈ l, m = b.minT) := by
  induction l with
  | nil => intro x; exact ⟨x, rfl, Int.le_refl _, by simp, Or.inl rfl⟩
  | cons b l ih =>
    intro x
    simp only [List.foldl_cons, optMinStep]
    obtain ⟨m, h1, h2, h3, h4⟩ := ih (if b.minT < x then b.minT else x)
    refine ⟨m, h1, by split at h2 <;> omega, ?_, ?_⟩
    · intro b' hb'
      rcases List.mem_cons.mp hb' with rfl | hb'
      · split at h2 <;> omega
      · exact h3 b' hb'
    · rcases h4 with h4 | ⟨b', hb', h4⟩
      · by_cases hc : b.minT < x
        · rw [if_pos hc] at h4; exact Or.inr ⟨b, List.mem_cons_self, h4⟩
        · rw [if_neg hc] at h4; exact Or.inl h4
      · exact Or.inr ⟨b', List.mem_cons_of_mem _ hb', h4⟩

theorem foldMax_spec (l : List SBlock) : ∀ (x : Int),
    ∃ m, l.foldl optMaxStep (some x) = some m ∧ x ≤ m ∧ (∀ b ∈ l, b.maxT ≤ m) ∧ (m = x ∨ ∃ b ∈ l, m = b.maxT) := by
  induction l with
  | nil => intro x; exact ⟨x, rfl, Int.le_refl _, by simp, Or.inl rfl⟩
  | cons b l ih =>
    intro x
    simp only [List.foldl_cons, optMaxStep]
    obtain ⟨m, h1, h2, h3, h4⟩ := ih (if b.maxT > x then b.maxT else x)
    refine ⟨m, h1, by split at h2 <;> omega, ?_, ?_⟩
    · intro b' hb'
      rcases List.mem_cons.mp hb' with rfl | hb'
      · split at h2 <;> omega
      · exact h3 b' hb'
    · rcases h4 with h4 | ⟨b', hb', h4⟩
      · by_cases hc : b.maxT > x
        · rw [if_pos hc] at h4; exact Or.inr ⟨b, List.mem_cons_self, h4⟩
        · rw [if_neg hc] at h4; exact Or.inl h4
      · exact Or.inr ⟨b', List.mem_cons_of_mem _ hb', h4⟩

/-- the checker's minimum: a lower bound of all blocks' min times, attained -/
theorem contentMin_spec (c : List SKey) (hne : c.flatMap (·.blocks) ≠ []) :
    ∃ m, contentMin c = some m ∧ (∀ b ∈ c.flatMap (·.blocks), m ≤ b.minT) ∧ ∃ b ∈ c.flatMap (·.blocks), m = b.minT := by
  rw [contentMin_eq]
  cases hl : c.flatMap (·.blocks) with
  | nil => exact absurd hl hne
  | cons b l =>
    simp only [List.foldl_cons, optMinStep]
    obtain ⟨m, h1, h2, h3, h4⟩ := foldMin_spec l b.minT
    refine ⟨m, h1, ?_, ?_⟩
    · intro b' hb'
      rcases List.mem_cons.mp hb' with rfl | hb'
      · exact h2
      · exact h3 b' hb'
    · rcases h4 with h4 | ⟨b', hb', h4⟩
      · exact ⟨b, List.mem_cons_self, h4⟩
      · exact ⟨b', List.mem_cons_of_mem _ hb', h4⟩

theorem contentMax_spec (c : List SKey) (hne : c.flatMap (·.blocks) ≠ []) :
    ∃ m, contentMax c = some m ∧ (∀ b ∈ c.flatMap (·.blocks), b.maxT ≤ m) ∧ ∃ b ∈ c.flatMap (·.blocks), m = b.maxT := by
  rw [contentMax_eq]
  cases hl : c.flatMap (·.blocks) with
  | nil => exact absurd hl hne
  | cons b l =>
    simp only [List.foldl_cons, optMaxStep]
    obtain ⟨m, h1, h2, h3, h4⟩ := foldMax_spec l b.maxT
    refine ⟨m, h1, ?_, ?_⟩
    · intro b' hb'
      rcases List.mem_cons.mp hb' with rfl | hb'
      · exact h2
      · exact h3 b' hb'
    · rcases h4 with h4 | ⟨b', hb', h4⟩
      · exact ⟨b, List.mem_cons_self, h4⟩
      · exact ⟨b', List.mem_cons_of_mem _ hb', h4⟩

/-- the index's scan: attained by some key's first (last) entry, unless nothing beats the start value -/
theorem scanMin_attained (kes : List KeyEntry) : ∀ (m : Int),
    kes.foldl scanMinStep m = m ∨ ∃ ke ∈ kes, ∃ e, ke.entries.head? = some e ∧ kes.foldl scanMinStep m = e.MinTime := by
  induction kes with
  | nil => intro m; exact Or.inl rfl
  | cons ke kes ih =>
    intro m
    simp only [List.foldl_cons]
    rcases ih (scanMinStep m ke) with h | ⟨x, hx, e, he, h⟩
    · rw [h]
      unfold scanMinStep
      cases hh : ke.entries.head? with
      | none => exact Or.inl rfl
      | some e =>
        simp only
        by_cases hc : e.MinTime < m
        · rw [if_pos hc]; exact Or.inr ⟨ke, List.mem_cons_self, e, hh, rfl⟩
        · rw [if_neg hc]; exact Or.inl rfl
    · exact Or.inr ⟨x, List.mem_cons_of_mem _ hx, e, he, h⟩

theorem scanMax_attained (kes : List KeyEntry) : ∀ (m : Int),
    kes.foldl scanMaxStep m = m ∨ ∃ ke ∈ kes, ∃ e, ke.entries.getLast? = some e ∧ kes.foldl scanMaxStep m = e.MaxTime := by
  induction kes with
  | nil => intro m; exact Or.inl rfl
  | cons ke kes ih =>
    intro m
    simp only [List.foldl_cons]
    rcases ih (scanMaxStep m ke) with h | ⟨x, hx, e, he, h⟩
    · rw [h]
      unfold scanMaxStep
      cases hh : ke.entries.getLast? with
      | none => exact Or.inl rfl
      | some e =>
        simp only
        by_cases hc : e.MaxTime > m
        · rw [if_pos hc]; exact Or.inr ⟨ke, List.mem_cons_self, e, hh, rfl⟩
        · rw [if_neg hc]; exact Or.inl rfl
    · exact Or.inr ⟨x, List.mem_cons_of_mem _ hx, e, he, h⟩

/-- per key: blocks in min-time order, max times non-decreasing, all times in int64 -/
structure TimeOK (c : List SKey) : Prop where
  ne : ∀ sk ∈ c, sk.blocks ≠ []
  sortedMin : ∀ sk ∈ c, sk.blocks.Pairwise fun a b => a.minT ≤ b.minT
  sortedMax : ∀ sk ∈ c, sk.blocks.Pairwise fun a b => a.maxT ≤ b.maxT
  int64 : ∀ sk ∈ c, ∀ b ∈ sk.blocks, minInt64 ≤ b.minT ∧ b.minT ≤ maxInt64 ∧ minInt64 ≤ b.maxT ∧ b.maxT ≤ maxInt64

theorem head_min {l : List SBlock} (h : l.Pairwise fun a b => a.minT ≤ b.minT) {a : SBlock} (ha : l.head? = some a) :
    ∀ b ∈ l, a.minT ≤ b.minT := by
  cases l with
  | nil => simp at ha
  | cons x l =>
    simp at ha; subst ha
    intro b hb
    rcases List.mem_cons.mp hb with rfl | hb
    · exact Int.le_refl _
    · exact (List.pairwise_cons.mp h).1 b hb

theorem last_max {l : List SBlock} (h : l.Pairwise fun a b => a.maxT ≤ b.maxT) {z : SBlock} (hz : l.getLast? = some z) :
    ∀ b ∈ l, b.maxT ≤ z.maxT := by
  induction l with
  | nil => simp at hz
  | cons x l ih =>
    intro b hb
    have hp := List.pairwise_cons.mp h
    cases l with
    | nil => simp at hz hb; subst hz; subst hb; exact Int.le_refl _
    | cons y l' =>
      have hz' : (y :: l').getLast? = some z := by simpa [List.getLast?_cons_cons] using hz
      rcases List.mem_cons.mp hb with rfl | hb
      · exact hp.1 z (List.mem_of_getLast? hz')
      · exact ih hp.2 hz' b hb

/-- **TimeRange agrees with the content** -/
theorem timerange_rel (c : List SKey) (hc : TimeOK c) (hne : c ≠ []) :
    contentMin c = some (scanMinTime (c.map toKE)) ∧ contentMax c = some (scanMaxTime (c.map toKE)) := by
  have hblocks : c.flatMap (·.blocks) ≠ [] := by
    cases c with
    | nil => exact absurd rfl hne
    | cons sk c' =>
      have := hc.ne sk List.mem_cons_self
      cases hb : sk.blocks with
      | nil => exact absurd hb this
      | cons b bs => simp [hb]
  constructor
  · obtain ⟨m, h1, h2, b0, hb0, h3⟩ := contentMin_spec c hblocks
    rw [h1]
    congr 1
    have hle := scanMin_le (c.map toKE) maxInt64
    simp only at hle
    obtain ⟨sk0, hsk0, hb0'⟩ := List.mem_flatMap.mp hb0
    -- scan ≤ m : the first entry of b0's key is ≤ b0.min
    have hA : scanMinTime (c.map toKE) ≤ m := by
      cases hh : sk0.blocks.head? with
      | none => cases hbs : sk0.blocks <;> simp_all
      | some a =>
        have h1' := hle.2 (toKE sk0) (List.mem_map_of_mem hsk0) a.entry (by simp [toKE, Spec.C08.entriesOf, hh])
        have := head_min (hc.sortedMin sk0 hsk0) hh b0 hb0'
        simp only [SBlock.entry] at h1'
        unfold scanMinTime; omega
    -- m ≤ scan : scan is maxInt64 or some first entry's min, both ≥ m
    have hB : m ≤ scanMinTime (c.map toKE) := by
      rcases scanMin_attained (c.map toKE) maxInt64 with h | ⟨ke, hke, e, he, h⟩
      · unfold scanMinTime; rw [h]
        have := (hc.int64 sk0 hsk0 b0 hb0').2.1
        omega
      · unfold scanMinTime; rw [h]
        obtain ⟨sk, hsk, rfl⟩ := List.mem_map.mp hke
        simp only [toKE, Spec.C08.entriesOf, List.head?_map] at he
        cases hh : sk.blocks.head? with
        | none => simp [hh] at he
        | some a =>
          simp [hh] at he; subst he
          exact h2 a (List.mem_flatMap.mpr ⟨sk, hsk, List.mem_of_mem_head? hh⟩)
    omega
  · obtain ⟨m, h1, h2, b0, hb0, h3⟩ := contentMax_spec c hblocks
    rw [h1]
    congr 1
    have hge := scanMax_ge (c.map toKE) minInt64
    simp only at hge
    obtain ⟨sk0, hsk0, hb0'⟩ := List.mem_flatMap.mp hb0
    have hA : m ≤ scanMaxTime (c.map toKE) := by
      cases hh : sk0.blocks.getLast? with
      | none => cases hbs : sk0.blocks <;> simp_all
      | some z =>
        have h1' := hge.2 (toKE sk0) (List.mem_map_of_mem hsk0) z.entry (by simp [toKE, Spec.C08.entriesOf, hh])
        have := last_max (hc.sortedMax sk0 hsk0) hh b0 hb0'
        simp only [SBlock.entry] at h1'
        unfold scanMaxTime; omega
    have hB : scanMaxTime (c.map toKE) ≤ m := by
      rcases scanMax_attained (c.map toKE) minInt64 with h | ⟨ke, hke, e, he, h⟩
      · unfold scanMaxTime; rw [h]
        have := (hc.int64 sk0 hsk0 b0 hb0').2.2.1
        omega
      · unfold scanMaxTime; rw [h]
        obtain ⟨sk, hsk, rfl⟩ := List.mem_map.mp hke
        simp only [toKE, Spec.C08.entriesOf, List.getLast?_map] at he
        cases hh : sk.blocks.getLast? with
        | none => simp [hh] at he
        | some z =>
          simp [hh] at he; subst he
          exact h2 z (List.mem_flatMap.mpr ⟨sk, hsk, List.mem_of_getLast? hh⟩)
    omega

end Influx.Tsm
