/-
  `Fields()` of a point parsed from the text `Fields.MarshalBinary` wrote: the same keys, types
  and values, sorted by key.
-/
import Influx.Lemmas.LineProtocolFields2

namespace Influx.LP
open Influx.Generated.LineProto Influx.Spec.C11

attribute [local simp] cBS_val cComma_val cSpace_val cEq_val cQuote_val cNL_val

def pvalOf : FV → PVal
  | .float _ t => .float t
  | .int v => .int v
  | .uint v => .uint v
  | .bool b => .bool b
  | .str s => .str s

theorem unescapeStringField_escape (s : Bytes) : unescapeStringField (escapeStringField s) = s := by
  induction s with
  | nil => rfl
  | cons b r ih =>
    by_cases hb : b = cQuote ∨ b = cBS
    · have : escapeStringField (b :: r) = cBS :: b :: escapeStringField r := by
        rw [escapeStringField, if_pos hb]
      rw [this, unescapeStringField, if_pos ⟨rfl, hb.symm⟩, ih]
    · have : escapeStringField (b :: r) = b :: escapeStringField r := by
        rw [escapeStringField, if_neg hb]
      rw [this]
      simp only [not_or] at hb
      cases h : escapeStringField r with
      | nil =>
        have : r = [] := by
          cases r with
          | nil => rfl
          | cons c r' => simp only [escapeStringField] at h; split at h <;> cases h
        subst this; rfl
      | cons x E =>
        rw [unescapeStringField, if_neg (fun hh => hb.2 hh.1), ← h, ih]

theorem digit_in_set (c : Nat) (h : isDigit c = true ∨ c = 45 ∨ c = 46) :
    (str "0123456789-.nNiIu").contains c = true := by
  have : c = 48 ∨ c = 49 ∨ c = 50 ∨ c = 51 ∨ c = 52 ∨ c = 53 ∨ c = 54 ∨ c = 55 ∨ c = 56 ∨ c = 57 ∨ c = 45 ∨ c = 46 := by
    rcases h with h | h | h
    · simp [isDigit] at h; omega
    · omega
    · omega
  rcases this with h | h | h | h | h | h | h | h | h | h | h | h <;> subst h <;> decide

theorem classify_int (i : Int) :
    classifyValue (intDigits i ++ [105]) = (.integer, intDigits i) := by
  obtain ⟨c, t, hc, hg⟩ := intDigits_head i
  unfold classifyValue
  rw [hc, List.cons_append]
  have hq : c ≠ cQuote := by
    rcases hg with hg | hg
    · exact (isDigit_ne c hg).2.2.2.2.2.2.2.2.2.1
    · subst hg; decide
  have hset := digit_in_set c (by rcases hg with h | h; exact Or.inl h; exact Or.inr (Or.inl h))
  have hlast : (c :: (t ++ [105])).getLast? = some 105 := by
    show ((c :: t) ++ [105]).getLast? = _; exact getLast?_append_single _ _
  have hdl : (c :: (t ++ [105])).dropLast = c :: t := by
    show ((c :: t) ++ [105]).dropLast = _; exact List.dropLast_concat
  simp only [hq, if_false, hset, if_true, hlast, hdl]

theorem classify_uint (u : Nat) :
    classifyValue (natDigits u ++ [117]) = (.unsigned, natDigits u) := by
  obtain ⟨c, t, hc, hg⟩ := natDigits_head u
  unfold classifyValue
  rw [hc, List.cons_append]
  have hq : c ≠ cQuote := (isDigit_ne c hg).2.2.2.2.2.2.2.2.2.1
  have hset := digit_in_set c (Or.inl hg)
  have hlast : (c :: (t ++ [117])).getLast? = some 117 := by
    show ((c :: t) ++ [117]).getLast? = _; exact getLast?_append_single _ _
  have hdl : (c :: (t ++ [117])).dropLast = c :: t := by
    show ((c :: t) ++ [117]).dropLast = _; exact List.dropLast_concat
  simp only [hq, if_false, hset, if_true, hlast, hdl]
  simp

theorem classify_float (text : Bytes) (hne : text ≠ [])
    (hall : ∀ b ∈ text, isDigit b = true ∨ b = 46 ∨ b = 45) : classifyValue text = (.float, text) := by
  cases text with
  | nil => exact absurd rfl hne
  | cons c t =>
    unfold classifyValue
    have hc := hall c (by simp)
    have hq : c ≠ cQuote := by
      rcases hc with h | h | h
      · exact (isDigit_ne c h).2.2.2.2.2.2.2.2.2.1
      · subst h; decide
      · subst h; decide
    have hset := digit_in_set c (by rcases hc with h | h | h; exact Or.inl h; exact Or.inr (Or.inr h); exact Or.inr (Or.inl h))
    obtain ⟨l, hl⟩ : ∃ l, (c :: t).getLast? = some l := by
      cases h : (c :: t).getLast? with
      | none => simp at h
      | some l => exact ⟨l, rfl⟩
    have hlm : l ∈ c :: t := List.mem_of_getLast? hl
    have hl' := hall l hlm
    have h105 : l ≠ 105 := by
      rcases hl' with h | h | h
      · exact (isDigit_ne l h).2.2.1
      · omega
      · omega
    have h117 : l ≠ 117 := by
      rcases hl' with h | h | h
      · exact (isDigit_ne l h).2.2.2.1
      · omega
      · omega
    simp only [hq, if_false, hset, if_true, hl, Option.some.injEq, h105, h117]

/-- every accessor of the iterator returns the value that was rendered -/
theorem fieldValue_rawFieldOf (k : Bytes) (v : FV) (hv : fieldValOK v = true) :
    fieldValue (rawFieldOf (k, v)) = some (.ok (pvalOf v)) := by
  unfold rawFieldOf
  cases v with
  | float bits text =>
    simp only [fieldValOK, floatTextOK, Bool.and_eq_true, Bool.not_eq_true', List.isEmpty_eq_false_iff,
      List.all_eq_true, Bool.or_eq_true, beq_iff_eq] at hv
    obtain ⟨_, ⟨⟨hne, hall⟩, _⟩, hpf⟩ := hv
    have := classify_float text hne (fun b hb => by
      rcases hall b hb with (h | h) | h
      · exact Or.inl h
      · exact Or.inr (Or.inl h)
      · exact Or.inr (Or.inr h))
    simp only [fvText, this, fieldValue, hpf, if_true, pvalOf]
  | int i =>
    simp only [fieldValOK, Bool.and_eq_true, decide_eq_true_eq] at hv
    simp only [fvText, classify_int, fieldValue, parseIntGo_intDigits i hv.1 hv.2, pvalOf]
  | uint u =>
    simp only [fieldValOK, decide_eq_true_eq] at hv
    simp only [fvText, classify_uint, fieldValue, parseUintGo_natDigits u hv, pvalOf]
  | bool b => cases b <;> rfl
  | str s =>
    have hcl : classifyValue (fvText (.str s)) = (.string, fvText (.str s)) := by
      simp [fvText, classifyValue]
    simp only [hcl, fieldValue, pvalOf]
    have hlen : ¬ (fvText (FV.str s)).length < 2 := by simp [fvText]
    rw [if_neg hlen]
    have : ((fvText (FV.str s)).drop 1).dropLast = escapeStringField s := by
      simp [fvText]
    rw [this, unescapeStringField_escape]

/-! ### building the sorted association list -/

theorem mapInsert_append (k : Bytes) (v : β) (acc : List (Bytes × β))
    (h : ∀ x ∈ acc, cmpBytes k x.1 = .gt) : mapInsert k v acc = acc ++ [(k, v)] := by
  induction acc with
  | nil => rfl
  | cons a rest ih =>
    obtain ⟨k', v'⟩ := a
    have := h (k', v') (by simp)
    simp only at this
    simp only [mapInsert, this, List.cons_append]
    rw [ih (fun x hx => h x (by simp [hx]))]

/-- strictly increasing keys -/
def SortedKeys {β : Type} (l : List (Bytes × β)) : Prop := l.Pairwise (fun a b => cmpBytes a.1 b.1 = .lt)

theorem pointFieldsAux_sorted (fs : List (Bytes × FV)) (acc : List (Bytes × PVal))
    (hv : ∀ f ∈ fs, f.1 ≠ [] ∧ fieldValOK f.2 = true) (hs : SortedKeys fs)
    (hacc : ∀ a ∈ acc, ∀ f ∈ fs, cmpBytes a.1 f.1 = .lt) :
    pointFieldsAux (fs.map rawFieldOf) acc = .ok (acc ++ fs.map fun f => (f.1, pvalOf f.2)) := by
  induction fs generalizing acc with
  | nil => simp [pointFieldsAux]
  | cons f rest ih =>
    obtain ⟨k, v⟩ := f
    obtain ⟨hne, hval⟩ := hv (k, v) (by simp)
    simp only at hne hval
    have hemp : (rawFieldOf (k, v)).key.isEmpty = false := by
      simp only [rawFieldOf]
      cases h : k with
      | nil => exact absurd h hne
      | cons _ _ => rfl
    rw [List.map_cons, pointFieldsAux]
    simp only [hemp, Bool.false_eq_true, if_false]
    rw [fieldValue_rawFieldOf k v hval]
    simp only []
    have hkey : (rawFieldOf (k, v)).key = k := rfl
    rw [hkey, mapInsert_append _ _ _ (fun x hx => (cmpBytes_gt_iff_lt _ _).mpr (hacc x hx (k, v) (by simp)))]
    have hs' := List.pairwise_cons.mp hs
    rw [ih (acc ++ [(k, pvalOf v)]) (fun g hg => hv g (by simp [hg])) hs'.2]
    · simp
    · intro a ha g hg
      rcases List.mem_append.mp ha with h | h
      · exact hacc a h g (by simp [hg])
      · simp at h; subst h; exact hs'.1 g hg

end Influx.LP
