/-
  Lemmas.TSIFile — per-file invariants of the tsi1 model and their preservation by log
  entries, log compaction and index-file merges.

  `Sound sf d`: every id listed under a measurement / tag value in the file is a series of
  the series file with that measurement name / that tag pair.
-/
import Influx.Lemmas.TSIMerge

namespace Influx.Model.TSI

/-- the series file binds an id to at most one series, and tag keys of a series are distinct. -/
structure SFOK (sf : SFile) : Prop where
  nodup : ∀ s ∈ sf.known, (s.tags.map (·.1)).Nodup
  uniq : ∀ s ∈ sf.known, ∀ t ∈ sf.known, s.id = t.id → s = t

theorem find_some_mem {sf : SFile} {id : Nat} {s : SeriesInfo} (h : sf.find id = some s) :
    s ∈ sf.known ∧ s.id = id := by
  unfold SFile.find at h
  have h1 := List.mem_of_find?_eq_some h
  have h2 := List.find?_some h
  exact ⟨h1, by simpa using h2⟩

theorem find_of_mem {sf : SFile} (hok : SFOK sf) {s : SeriesInfo} (hs : s ∈ sf.known) :
    sf.find s.id = some s := by
  unfold SFile.find
  cases hf : sf.known.find? (fun t => decide (t.id = s.id)) with
  | none =>
    have := List.find?_eq_none.mp hf s hs
    simp at this
  | some t =>
    have ht := List.mem_of_find?_eq_some hf
    have hid : t.id = s.id := by simpa using List.find?_some hf
    rw [hok.uniq t ht s hs hid]

structure Sound (sf : SFile) (d : FileData) : Prop where
  meas : ∀ n x, x ∈ fileMeasSeries n d → ∃ s, sf.find x = some s ∧ s.name = n
  val : ∀ n k v x, x ∈ fileValSeries n k v d → ∃ s, sf.find x = some s ∧ s.name = n ∧ tagOf s.tags k = some v

theorem sound_empty (sf : SFile) : Sound sf {} where
  meas n x h := by simp [fileMeasSeries, alookup] at h
  val n k v x h := by simp [fileValSeries, valElem, keyElem, alookup] at h

theorem noflags_empty : NoFlags {} where
  key n k tk h := by simp [keyElem, alookup] at h
  val n k v tv h := by simp [valElem, keyElem, alookup] at h

/-! #### series entries -/

theorem execSeries_sound {sf : SFile} (hok : SFOK sf) {d : FileData} (h : Sound sf d) (isAdd : Bool)
    (id : Nat) : Sound sf (execSeries sf d isAdd id) := by
  cases hf : sf.find id with
  | none => rw [execSeries_unknown sf d isAdd id hf]; exact h
  | some s =>
    have hd := hok.nodup s (find_some_mem hf).1
    refine ⟨?_, ?_⟩
    · intro n x hx
      rw [execSeries_mem_fileMeasSeries sf d isAdd id s hf] at hx
      by_cases hn : n = s.name
      · simp only [hn, if_true] at hx
        cases isAdd
        · simp only [Bool.false_eq_true, if_false] at hx
          exact hn ▸ h.meas s.name x hx.1
        · simp only [if_true] at hx
          rcases hx with rfl | hx
          · exact ⟨s, hf, hn.symm⟩
          · exact hn ▸ h.meas s.name x hx
      · simp only [hn, if_false] at hx
        exact h.meas n x hx
    · intro n k v x hx
      rw [execSeries_mem_fileValSeries sf d isAdd id s hf hd] at hx
      by_cases hn : n = s.name ∧ tagOf s.tags k = some v
      · obtain ⟨hn1, hn2⟩ := hn
        subst hn1
        simp only [hn2, and_self, if_true] at hx
        cases isAdd
        · simp only [Bool.false_eq_true, if_false] at hx
          exact h.val s.name k v x hx.1
        · simp only [if_true] at hx
          rcases hx with rfl | hx
          · exact ⟨s, hf, rfl, hn2⟩
          · exact h.val s.name k v x hx
      · simp only [hn, if_false] at hx
        exact h.val n k v x hx

theorem updKey_deleted (isAdd : Bool) (id : Nat) (tk : TagKey) (v : String) (h : tk.deleted = false) :
    (updKey isAdd id tk v).deleted = false := by
  unfold updKey; cases isAdd <;> simp [h]

theorem updVal_deleted (isAdd : Bool) (id : Nat) (tv : TagValue) (h : tv.deleted = false) :
    (updVal isAdd id tv).deleted = false := by
  unfold updVal; cases isAdd <;> simp [h]

theorem execSeries_noflags {sf : SFile} (hok : SFOK sf) {d : FileData} (h : NoFlags d) (isAdd : Bool)
    (id : Nat) : NoFlags (execSeries sf d isAdd id) := by
  cases hf : sf.find id with
  | none => rw [execSeries_unknown sf d isAdd id hf]; exact h
  | some s =>
    have hd := hok.nodup s (find_some_mem hf).1
    refine ⟨?_, ?_⟩
    · intro n k tk hk
      rw [execSeries_keyElem sf d isAdd id s hf hd] at hk
      split at hk
      · split at hk
        · exact h.key n k tk hk
        · simp only [Option.some.injEq] at hk
          subst hk
          apply updKey_deleted
          cases hk0 : keyElem n k d with
          | none => rfl
          | some tk0 => exact h.key n k tk0 hk0
      · exact h.key n k tk hk
    · intro n k v tv hv
      rw [execSeries_valElem sf d isAdd id s hf hd] at hv
      split at hv
      · simp only [Option.some.injEq] at hv
        subst hv
        apply updVal_deleted
        cases hv0 : valElem n k v d with
        | none => rfl
        | some tv0 => exact h.val n k v tv0 hv0
      · exact h.val n k v tv hv

/-! #### tombstone entries: accessor effects -/

theorem exec_delMeas_fileMeasSeries (sf : SFile) (d : FileData) (m n : String) :
    fileMeasSeries n (exec sf d (.delMeas m)) = if n = m then [] else fileMeasSeries n d := by
  unfold fileMeasSeries
  rw [exec_delMeas_mms]
  split <;> rfl

theorem exec_delMeas_keyElem (sf : SFile) (d : FileData) (m n k : String) :
    keyElem n k (exec sf d (.delMeas m)) = if n = m then none else keyElem n k d := by
  unfold keyElem
  rw [exec_delMeas_mms]
  split <;> simp [alookup]

theorem exec_delMeas_measFlag (sf : SFile) (d : FileData) (m n : String) :
    measFlag n (exec sf d (.delMeas m)) = if n = m then some true else measFlag n d := by
  unfold measFlag
  rw [exec_delMeas_mms]
  split <;> rfl

theorem exec_delMeas_valElem (sf : SFile) (d : FileData) (m n k v : String) :
    valElem n k v (exec sf d (.delMeas m)) = if n = m then none else valElem n k v d := by
  unfold valElem
  rw [exec_delMeas_keyElem]
  split <;> rfl

/-- a key / value tombstone changes flags only: the series under every tag value stay. -/
theorem exec_delKey_fileMeasSeries (sf : SFile) (d : FileData) (m key n : String) :
    fileMeasSeries n (exec sf d (.delKey m key)) = fileMeasSeries n d := by
  unfold fileMeasSeries
  rw [exec_delKey_mms]
  by_cases h : n = m
  · subst h
    simp only [if_true, delKeyMeas, Option.map_some, Option.getD_some]
    have := fileMeasSeries_getMeas d n
    unfold fileMeasSeries at this
    exact this.symm
  · simp [h]

theorem exec_delVal_fileMeasSeries (sf : SFile) (d : FileData) (m key value n : String) :
    fileMeasSeries n (exec sf d (.delVal m key value)) = fileMeasSeries n d := by
  unfold fileMeasSeries
  rw [exec_delVal_mms]
  by_cases h : n = m
  · subst h
    simp only [if_true, delValMeas, Option.map_some, Option.getD_some]
    have := fileMeasSeries_getMeas d n
    unfold fileMeasSeries at this
    exact this.symm
  · simp [h]

theorem getMeas_keys (d : FileData) (n k : String) :
    alookup (getMeas d n).keys k = keyElem n k d := by
  unfold getMeas keyElem
  cases alookup d.mms n <;> simp [alookup]

theorem exec_delKey_keyElem (sf : SFile) (d : FileData) (m key n k : String) :
    keyElem n k (exec sf d (.delKey m key)) =
      if n = m ∧ k = key then some { ((keyElem n k d).getD {}) with deleted := true }
      else keyElem n k d := by
  unfold keyElem
  rw [exec_delKey_mms]
  by_cases h : n = m
  · subst h
    simp only [if_true, Option.bind_some, delKeyMeas, alookup_aset, true_and]
    have := getMeas_keys d n
    unfold keyElem at this
    by_cases hk : k = key
    · subst hk; simp [this]
    · simp [hk, this]
  · simp [h]

theorem exec_delKey_valElem (sf : SFile) (d : FileData) (m key n k v : String) :
    valElem n k v (exec sf d (.delKey m key)) = valElem n k v d := by
  unfold valElem
  rw [exec_delKey_keyElem]
  split
  · cases keyElem n k d <;> simp [alookup]
  · rfl

theorem exec_delVal_keyElem_deleted (sf : SFile) (d : FileData) (m key value n k : String) (tk : TagKey)
    (h : keyElem n k (exec sf d (.delVal m key value)) = some tk) :
    tk.deleted = ((keyElem n k d).getD {}).deleted := by
  unfold keyElem at h
  rw [exec_delVal_mms] at h
  by_cases hn : n = m
  · subst hn
    simp only [if_true, Option.bind_some, delValMeas, alookup_aset] at h
    have hg := getMeas_keys d n
    by_cases hk : k = key
    · subst hk
      simp only [if_true, Option.some.injEq] at h
      subst h
      simp [hg]
    · simp only [hk, if_false] at h
      rw [hg] at h
      simp [h]
  · simp only [hn, if_false] at h
    have : keyElem n k d = some tk := h
    simp [this]

theorem exec_delVal_mem_fileValSeries (sf : SFile) (d : FileData) (m key value n k v : String) (x : Nat) :
    x ∈ fileValSeries n k v (exec sf d (.delVal m key value)) ↔ x ∈ fileValSeries n k v d := by
  unfold fileValSeries valElem keyElem
  rw [exec_delVal_mms]
  by_cases hn : n = m
  · subst hn
    simp only [if_true, Option.bind_some, delValMeas, alookup_aset]
    have hg := getMeas_keys d n
    unfold keyElem at hg
    by_cases hk : k = key
    · subst hk
      simp only [if_true, Option.bind_some, alookup_aset]
      rw [hg]
      by_cases hv : v = value
      · subst hv
        simp only [if_true, Option.map_some, Option.getD_some]
        cases hkk : (alookup d.mms n).bind (fun mm => alookup mm.keys k) with
        | none => simp [alookup]
        | some tk0 =>
          simp only [Option.getD_some, Option.bind_some]
          cases alookup tk0.values v <;> simp
      · simp only [hv, if_false]
        cases hkk : (alookup d.mms n).bind (fun mm => alookup mm.keys k) with
        | none => simp [alookup]
        | some tk0 => simp
    · simp only [hk, if_false]
      rw [hg]
  · simp [hn]

/-- flags-only entries keep `Sound`. -/
theorem exec_delKey_sound {sf : SFile} {d : FileData} (h : Sound sf d) (m key : String) :
    Sound sf (exec sf d (.delKey m key)) where
  meas n x hx := h.meas n x (by rwa [exec_delKey_fileMeasSeries] at hx)
  val n k v x hx := h.val n k v x (by
    rw [fileValSeries_eq, exec_delKey_valElem] at hx; exact hx)

theorem exec_delVal_sound {sf : SFile} {d : FileData} (h : Sound sf d) (m key value : String) :
    Sound sf (exec sf d (.delVal m key value)) where
  meas n x hx := h.meas n x (by rwa [exec_delVal_fileMeasSeries] at hx)
  val n k v x hx := h.val n k v x ((exec_delVal_mem_fileValSeries sf d m key value n k v x).mp hx)

theorem exec_delMeas_sound {sf : SFile} {d : FileData} (h : Sound sf d) (m : String) :
    Sound sf (exec sf d (.delMeas m)) where
  meas n x hx := by
    rw [exec_delMeas_fileMeasSeries] at hx
    split at hx
    · simp at hx
    · exact h.meas n x hx
  val n k v x hx := by
    rw [fileValSeries_eq, exec_delMeas_valElem] at hx
    split at hx
    · simp at hx
    · exact h.val n k v x hx

theorem exec_sound {sf : SFile} (hok : SFOK sf) {d : FileData} (h : Sound sf d) (e : Entry) :
    Sound sf (exec sf d e) := by
  cases e with
  | add id => exact execSeries_sound hok h true id
  | delSeries id => exact execSeries_sound hok h false id
  | delMeas m => exact exec_delMeas_sound h m
  | delKey m k => exact exec_delKey_sound h m k
  | delVal m k v => exact exec_delVal_sound h m k v

/-! #### compaction keeps `Sound` -/

theorem compactLog_sound {sf : SFile} {d : FileData} (h : Sound sf d) (hnf : NoFlags d) :
    Sound sf (compactLogData d) where
  meas n x hx := h.meas n x (by rwa [compactLog_fileMeasSeries] at hx)
  val n k v x hx := h.val n k v x (by
    rw [fileValSeries_eq, compactLog_valElem_noflags hnf] at hx; exact hx)

theorem merge_sound {sf : SFile} {fs : List FileData} (h : ∀ f ∈ fs, Sound sf f)
    (hnf : ∀ f ∈ fs, NoFlags f) : Sound sf (mergeData fs) where
  meas n x hx := by
    obtain ⟨f, hf, hxf⟩ := (merge_mem_fileMeasSeries fs n x).mp hx
    exact (h f hf).meas n x hxf
  val n k v x hx := by
    obtain ⟨f, hf, hxf⟩ := (merge_mem_fileValSeries fs hnf n k v x).mp hx
    exact (h f hf).val n k v x hxf

end Influx.Model.TSI
