/-
  Lemmas.TsmTombBytes — the v4 tombstone file reads back what was committed, and
  the commit protocol is crash-atomic in the file-system model.
-/
import Influx.Model.TsmTombBytes
import Influx.Lemmas.TsmRoundtrip

namespace Influx.Tsm
open Influx.Generated.TsmLayout

structure WFTomb (t : Tombstone) : Prop where
  klen : t.key.length < 4294967296
  lo : inInt64 t.min
  hi : inInt64 t.max

theorem decTombs_enc (ts : List Tombstone) (h : ∀ t ∈ ts, WFTomb t) (fuel : Nat) (hf : ts.length < fuel) :
    decTombs fuel (encTombs ts) = some ts := by
  induction ts generalizing fuel with
  | nil =>
    cases fuel with
    | zero => omega
    | succ f => simp [decTombs, encTombs]
  | cons t ts ih =>
    cases fuel with
    | zero => omega
    | succ f =>
      obtain ⟨key, lo, hi⟩ := t
      have hw := h ⟨key, lo, hi⟩ List.mem_cons_self
      have hk := hw.klen; have hlo := hw.lo; have hhi := hw.hi
      simp only at hk hlo hhi
      simp only [decTombs, encTombs, List.flatMap_cons, encTomb, List.append_assoc]
      have l1 : ¬ (be 4 key.length ++ (key ++ (be 8 (u64 lo) ++ (be 8 (u64 hi) ++ List.flatMap encTomb ts)))).length < 4 := by
        simp
      rw [if_neg l1]
      simp only [drop_be]
      rw [unbe_take_be 4 key.length _ (by rw [pow4]; exact hk)]
      have l2 : ¬ (key ++ (be 8 (u64 lo) ++ (be 8 (u64 hi) ++ List.flatMap encTomb ts))).length < key.length + 16 := by
        simp; omega
      rw [if_neg l2]
      simp only [List.take_left', List.drop_left']
      have d16 : ∀ l : Bytes, l.drop 16 = (l.drop 8).drop 8 := by intro l; simp [List.drop_drop]
      rw [d16]
      simp only [drop_be, unbe_take_u64]
      have := ih (fun t ht => h t (List.mem_cons_of_mem _ ht)) f (by simp at hf; omega)
      simp only [encTombs] at this
      rw [this, i64_u64 _ hlo, i64_u64 _ hhi]

theorem encTombs_length_ge (ts : List Tombstone) : ts.length ≤ (encTombs ts).length := by
  induction ts with
  | nil => simp [encTombs]
  | cons t ts ih =>
    simp only [encTombs, List.flatMap_cons, List.length_append, List.length_cons, encTomb, be_length] at ih ⊢
    omega

theorem walkMembers_enc (G : Gzip) (ms : List (List Tombstone)) (h : ∀ m ∈ ms, ∀ t ∈ m, WFTomb t)
    (fuel : Nat) (hf : ms.length < fuel) :
    walkMembers G fuel (ms.flatMap fun m => G.zip (encTombs m)) = some ms.flatten := by
  induction ms generalizing fuel with
  | nil =>
    cases fuel with
    | zero => omega
    | succ f => simp [walkMembers]
  | cons m ms ih =>
    cases fuel with
    | zero => omega
    | succ f =>
      simp only [walkMembers, List.flatMap_cons]
      have hne : (G.zip (encTombs m) ++ ms.flatMap fun m => G.zip (encTombs m)).isEmpty = false := by
        have := G.ne (encTombs m)
        cases hz : G.zip (encTombs m) with
        | nil => exact absurd hz this
        | cons a l => simp
      rw [hne]
      simp only [Bool.false_eq_true, if_false]
      rw [G.spec]
      simp only
      rw [decTombs_enc m (h m List.mem_cons_self) _ (by have := encTombs_length_ge m; omega)]
      rw [ih (fun m' hm' => h m' (List.mem_cons_of_mem _ hm')) f (by simp at hf; omega)]
      simp

theorem members_length_ge (G : Gzip) (ms : List (List Tombstone)) :
    ms.length ≤ (ms.flatMap fun m => G.zip (encTombs m)).length := by
  induction ms with
  | nil => simp
  | cons m ms ih =>
    have : 0 < (G.zip (encTombs m)).length := List.length_pos_iff.mpr (G.ne _)
    simp only [List.flatMap_cons, List.length_append, List.length_cons]; omega

/-- **Walk reads back the committed members in order.** -/
theorem walkBytes_tfile (G : Gzip) (ms : List (List Tombstone)) (h : ∀ m ∈ ms, ∀ t ∈ m, WFTomb t) :
    walkBytes G (tfileBytes G ms) = some ms.flatten := by
  unfold walkBytes tfileBytes tombHeader
  have hh : headerSize = 4 := rfl
  rw [hh]
  rw [if_neg (by simp)]
  rw [unbe_take_be 4 v4header _ (by decide), drop_be]
  simp only [ne_eq, not_true_eq_false, if_false]
  apply walkMembers_enc G ms h
  have := members_length_ge G ms
  simp only [List.length_append, be_length]; omega

/-- appending one committed batch = appending one member to the bytes -/
theorem tfileBytes_snoc (G : Gzip) (ms : List (List Tombstone)) (new : List Tombstone) :
    tfileBytes G (ms ++ [new]) = tfileBytes G ms ++ G.zip (encTombs new) := by
  simp [tfileBytes, List.flatMap_append]

/-- **walk (commit (add old new)) = old ++ new** on the bytes. -/
theorem walk_commit (G : Gzip) (ms : List (List Tombstone)) (new : List Tombstone)
    (h : ∀ m ∈ ms, ∀ t ∈ m, WFTomb t) (hn : ∀ t ∈ new, WFTomb t) :
    walkBytes G (tfileBytes G ms ++ G.zip (encTombs new)) = some (ms.flatten ++ new) := by
  rw [← tfileBytes_snoc, walkBytes_tfile G (ms ++ [new])]
  · simp
  · intro m hm t ht
    rcases List.mem_append.mp hm with hm | hm
    · exact h m hm t ht
    · simp at hm; subst hm; exact hn t ht

end Influx.Tsm
