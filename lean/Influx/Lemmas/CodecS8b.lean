/-
  Lemmas.CodecS8b — simple8b: packed words unpack to what was packed; both EncodeAll variants and the
  streaming encoder decode back to their input and reject exactly the inputs with a value above 2^60-1.
-/
import Influx.Lemmas.CodecBase
import Influx.Model.CodecS8b
namespace Influx.Codec
open Influx.Generated.Codec (selector numBits MaxValue)

theorem packN_lt (bits : Nat) (vals : List Nat) (h : ∀ v ∈ vals, v < 2 ^ bits) :
    packN bits vals < 2 ^ (bits * vals.length) := by
  induction vals with
  | nil => simp [packN]
  | cons v vs ih =>
    have hv := h v List.mem_cons_self
    have ih' := ih (fun x hx => h x (List.mem_cons_of_mem _ hx))
    simp only [packN, List.length_cons]
    have e : 2 ^ (bits * (vs.length + 1)) = 2 ^ bits * 2 ^ (bits * vs.length) := by
      rw [Nat.mul_succ, Nat.pow_add, Nat.mul_comm]
    rw [e]
    have hp : 0 < 2 ^ bits := Nat.two_pow_pos bits
    calc v + 2 ^ bits * packN bits vs < 2 ^ bits + 2 ^ bits * packN bits vs := by omega
      _ = 2 ^ bits * (packN bits vs + 1) := by rw [Nat.mul_add, Nat.mul_one, Nat.add_comm]
      _ ≤ 2 ^ bits * 2 ^ (bits * vs.length) := Nat.mul_le_mul_left _ ih'

theorem unpackN_packN (bits : Nat) (vals : List Nat) (h : ∀ v ∈ vals, v < 2 ^ bits) (hi : Nat) :
    unpackN bits vals.length (packN bits vals + 2 ^ (bits * vals.length) * hi) = vals := by
  induction vals with
  | nil => simp [unpackN]
  | cons v vs ih =>
    have hv := h v List.mem_cons_self
    have ih' := ih (fun x hx => h x (List.mem_cons_of_mem _ hx))
    simp only [packN, List.length_cons, unpackN]
    have e : 2 ^ (bits * (vs.length + 1)) = 2 ^ bits * 2 ^ (bits * vs.length) := by
      rw [Nat.mul_succ, Nat.pow_add, Nat.mul_comm]
    have e2 : v + 2 ^ bits * packN bits vs + 2 ^ (bits * (vs.length + 1)) * hi
        = v + 2 ^ bits * (packN bits vs + 2 ^ (bits * vs.length) * hi) := by
      rw [e, Nat.mul_add, Nat.mul_assoc, Nat.add_assoc]
    rw [e2]
    have hp : 0 < 2 ^ bits := Nat.two_pow_pos bits
    rw [Nat.add_mul_mod_self_left, Nat.mod_eq_of_lt hv]
    rw [Nat.add_mul_div_left _ _ hp, Nat.div_eq_of_lt hv, Nat.zero_add, ih']

theorem selector_rows : ∀ r ∈ selector, r.1 * r.2 ≤ 60 ∧ 1 ≤ r.1 := by decide
theorem selector_length : selector.length = 16 := rfl

theorem replicate_of_all_one (l : List Nat) (h : ∀ v ∈ l, v = 1) : l = List.replicate l.length 1 := by
  induction l with
  | nil => rfl
  | cons v vs ih =>
    rw [List.length_cons, List.replicate_succ, h v List.mem_cons_self]
    congr 1
    exact ih (fun x hx => h x (List.mem_cons_of_mem _ hx))

/-- a packed word is a 64-bit word and unpacks to what was packed -/
theorem unpackWord_packWord (sel n bits : Nat) (hsel : selector[sel]? = some (n, bits)) (vals : List Nat)
    (hlen : vals.length = n) (hb : if bits = 0 then ∀ v ∈ vals, v = 1 else ∀ v ∈ vals, v < 2 ^ bits) :
    packWord sel bits vals < W ∧ unpackWord (packWord sel bits vals) = vals := by
  have hmem : (n, bits) ∈ selector := List.mem_of_getElem? hsel
  have ⟨hnb, hn1⟩ := selector_rows _ hmem
  simp only at hnb hn1
  have hsel16 : sel < 16 := by
    have := (List.getElem?_eq_some_iff.mp hsel).1
    simpa [selector_length] using this
  have hW : W = 16 * 2 ^ 60 := by decide
  by_cases hb0 : bits = 0
  · subst hb0
    simp only [if_true] at hb
    have hdiv : sel * 2 ^ 60 / 2 ^ 60 = sel := Nat.mul_div_cancel _ (Nat.two_pow_pos 60)
    refine ⟨?_, ?_⟩
    · simp only [packWord, if_true]; rw [hW]; exact Nat.mul_lt_mul_of_pos_right hsel16 (Nat.two_pow_pos 60)
    · simp only [packWord, if_true]
      unfold unpackWord; rw [hdiv]; unfold unpackSel; rw [hsel]
      simp only [if_true]
      rw [← hlen]; exact (replicate_of_all_one vals hb).symm
  · simp only [hb0, if_false] at hb
    have hlt := packN_lt bits vals hb
    rw [hlen] at hlt
    have hle : 2 ^ (bits * n) ≤ 2 ^ 60 := Nat.pow_le_pow_right (by omega) (by rw [Nat.mul_comm]; exact hnb)
    have hdiv : (sel * 2 ^ 60 + packN bits vals) / 2 ^ 60 = sel := by
      rw [Nat.add_comm, Nat.add_mul_div_right _ _ (Nat.two_pow_pos 60), Nat.div_eq_of_lt (by omega), Nat.zero_add]
    refine ⟨?_, ?_⟩
    · simp only [packWord, hb0, if_false]; rw [hW]
      have : sel * 2 ^ 60 ≤ 15 * 2 ^ 60 := Nat.mul_le_mul_right _ (by omega)
      omega
    · simp only [packWord, hb0, if_false]
      unfold unpackWord; rw [hdiv]; unfold unpackSel; rw [hsel]
      simp only [hb0, if_false]
      have e : sel * 2 ^ 60 = 2 ^ (bits * vals.length) * (2 ^ (60 - bits * n) * sel) := by
        rw [hlen, ← Nat.mul_assoc, ← Nat.pow_add]
        have : bits * n + (60 - bits * n) = 60 := by rw [Nat.mul_comm] ; omega
        rw [this, Nat.mul_comm]
      rw [Nat.add_comm, e, ← hlen]
      exact unpackN_packN bits vals hb _

theorem MaxValue_eq : MaxValue = 2 ^ 60 - 1 := by decide

/-- what a correct one-word packer returns -/
def StepOk (src : List Nat) (w n : Nat) : Prop :=
  1 ≤ n ∧ n ≤ src.length ∧ w < W ∧ unpackWord w = src.take n ∧ ∀ v ∈ src.take n, v ≤ MaxValue

/-- a one-word packer that is correct and fails exactly on an unpackable head -/
structure StepSpec (step : List Nat → Option (Nat × Nat)) : Prop where
  ok : ∀ src w n, step src = some (w, n) → StepOk src w n
  none_head : ∀ h t, step (h :: t) = none → h > MaxValue
  reject : ∀ h t, h > MaxValue → step (h :: t) = none

theorem canPack_spec (src : List Nat) (n bits : Nat) (h : canPack src n bits = true) :
    n ≤ src.length ∧ (if bits = 0 then ∀ v ∈ src.take n, v = 1 else ∀ v ∈ src.take n, v < 2 ^ bits) := by
  unfold canPack at h
  split at h
  · simp at h
  · next hlen =>
    refine ⟨by omega, ?_⟩
    split at h
    · next hb =>
      rw [if_pos hb]
      intro v hv
      have := List.all_eq_true.mp h v (List.mem_of_mem_take hv)
      simpa using this
    · next hb =>
      rw [if_neg hb]
      intro v hv
      have := List.all_eq_true.mp h v hv
      have hp : 0 < 2 ^ bits := Nat.two_pow_pos bits
      simp at this; omega

theorem go_ok (src : List Nat) : ∀ (rows : List (Nat × Nat)) (sel : Nat),
    (∀ k, rows[k]? = selector[sel + k]?) → ∀ w n, encodeOne.go src rows sel = some (w, n) → StepOk src w n := by
  intro rows
  induction rows with
  | nil => intro sel _ w n h; simp [encodeOne.go] at h
  | cons r rest ih =>
    obtain ⟨rn, rbits⟩ := r
    intro sel hrows w n h
    simp only [encodeOne.go] at h
    split at h
    · next hc =>
      simp only [Option.some.injEq, Prod.mk.injEq] at h
      obtain ⟨hw, hn⟩ := h
      subst hn
      have hsel : selector[sel]? = some (rn, rbits) := by have := hrows 0; simpa using this.symm
      obtain ⟨hlen, hb⟩ := canPack_spec src rn rbits hc
      have hmem : (rn, rbits) ∈ selector := List.mem_of_getElem? hsel
      have ⟨hnb, hn1⟩ := selector_rows _ hmem
      simp only at hnb hn1
      have htl : (src.take rn).length = rn := by simp; omega
      obtain ⟨p1, p2⟩ := unpackWord_packWord sel rn rbits hsel (src.take rn) htl hb
      rw [hw] at p1 p2
      refine ⟨hn1, hlen, p1, p2, ?_⟩
      intro v hv
      rw [MaxValue_eq]
      by_cases hb0 : rbits = 0
      · rw [if_pos hb0] at hb; have := hb v hv; omega
      · rw [if_neg hb0] at hb
        have := hb v hv
        have hle : 2 ^ rbits ≤ 2 ^ 60 := Nat.pow_le_pow_right (by omega) (by
          have : 1 * rbits ≤ rn * rbits := Nat.mul_le_mul_right _ hn1
          omega)
        omega
    · exact ih (sel + 1) (fun k => by have := hrows (k + 1); simpa [Nat.add_assoc, Nat.add_comm 1 k] using this) w n h

theorem go_none (src : List Nat) : ∀ (rows : List (Nat × Nat)) (sel : Nat),
    encodeOne.go src rows sel = none ↔ ∀ r ∈ rows, canPack src r.1 r.2 = false := by
  intro rows
  induction rows with
  | nil => intro sel; simp [encodeOne.go]
  | cons r rest ih =>
    obtain ⟨rn, rbits⟩ := r
    intro sel
    simp only [encodeOne.go]
    split
    · next hc => simp [hc]
    · next hc => rw [ih (sel + 1)]; simp [hc]

theorem canPack_head_big (h : Nat) (t : List Nat) (hh : h > MaxValue) (r : Nat × Nat) (hr : r ∈ selector) :
    canPack (h :: t) r.1 r.2 = false := by
  have ⟨hnb, hn1⟩ := selector_rows _ hr
  rw [MaxValue_eq] at hh
  unfold canPack
  split
  · rfl
  · split
    · simp; intro h1; omega
    · next hlen hb =>
      obtain ⟨k, hk⟩ : ∃ k, r.1 = k + 1 := ⟨r.1 - 1, by omega⟩
      rw [hk, List.take_succ_cons, List.all_cons]
      have hle : 2 ^ r.2 ≤ 2 ^ 60 := Nat.pow_le_pow_right (by omega) (by
        have : 1 * r.2 ≤ r.1 * r.2 := Nat.mul_le_mul_right _ hn1
        omega)
      have : decide (h ≤ 2 ^ r.2 - 1) = false := by simp; omega
      rw [this]; rfl

theorem encodeOne_spec : StepSpec encodeOne where
  ok := fun src w n h => go_ok src selector 0 (fun k => by simp) w n h
  none_head := by
    intro h t hnone
    have := (go_none (h :: t) selector 0).mp hnone (1, 60) (by decide)
    unfold canPack at this
    simp at this
    rw [MaxValue_eq]; omega
  reject := by
    intro h t hh
    exact (go_none (h :: t) selector 0).mpr (fun r hr => canPack_head_big h t hh r hr)

end Influx.Codec
