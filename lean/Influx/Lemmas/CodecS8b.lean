/-
  Lemmas.CodecS8b — simple8b: packed words unpack to what was packed; both EncodeAll variants and the
  streaming encoder decode back to their input and reject exactly the inputs with a value above 2^60-1.
-/
import Influx.Lemmas.CodecBase
import Influx.Model.CodecS8b
namespace Influx.Codec
open Influx.Generated.Codec (selector numBits MaxValue)

theorem packN_lt (bits : Nat) (vals : List Nat) (h : ∀ v ∈ vals, v < 2 ^ bits) :
    packN bits vals < 2 ^ (bits * vals.length) := by
  induction vals with
  | nil => simp [packN]
  | cons v vs ih =>
    have hv := h v List.mem_cons_self
    have ih' := ih (fun x hx => h x (List.mem_cons_of_mem _ hx))
    simp only [packN, List.length_cons]
    have e : 2 ^ (bits * (vs.length + 1)) = 2 ^ bits * 2 ^ (bits * vs.length) := by
      rw [Nat.mul_succ, Nat.pow_add, Nat.mul_comm]
    rw [e]
    have hp : 0 < 2 ^ bits := Nat.two_pow_pos bits
    calc v + 2 ^ bits * packN bits vs < 2 ^ bits + 2 ^ bits * packN bits vs := by omega
      _ = 2 ^ bits * (packN bits vs + 1) := by rw [Nat.mul_add, Nat.mul_one, Nat.add_comm]
      _ ≤ 2 ^ bits * 2 ^ (bits * vs.length) := Nat.mul_le_mul_left _ ih'

theorem unpackN_packN (bits : Nat) (vals : List Nat) (h : ∀ v ∈ vals, v < 2 ^ bits) (hi : Nat) :
    unpackN bits vals.length (packN bits vals + 2 ^ (bits * vals.length) * hi) = vals := by
  induction vals with
  | nil => simp [unpackN]
  | cons v vs ih =>
    have hv := h v List.mem_cons_self
    have ih' := ih (fun x hx => h x (List.mem_cons_of_mem _ hx))
    simp only [packN, List.length_cons, unpackN]
    have e : 2 ^ (bits * (vs.length + 1)) = 2 ^ bits * 2 ^ (bits * vs.length) := by
      rw [Nat.mul_succ, Nat.pow_add, Nat.mul_comm]
    have e2 : v + 2 ^ bits * packN bits vs + 2 ^ (bits * (vs.length + 1)) * hi
        = v + 2 ^ bits * (packN bits vs + 2 ^ (bits * vs.length) * hi) := by
      rw [e, Nat.mul_add, Nat.mul_assoc, Nat.add_assoc]
    rw [e2]
    have hp : 0 < 2 ^ bits := Nat.two_pow_pos bits
    rw [Nat.add_mul_mod_self_left, Nat.mod_eq_of_lt hv]
    rw [Nat.add_mul_div_left _ _ hp, Nat.div_eq_of_lt hv, Nat.zero_add, ih']

theorem selector_rows : ∀ r ∈ selector, r.1 * r.2 ≤ 60 ∧ 1 ≤ r.1 := by decide
theorem selector_length : selector.length = 16 := rfl

theorem replicate_of_all_one (l : List Nat) (h : ∀ v ∈ l, v = 1) : l = List.replicate l.length 1 := by
  induction l with
  | nil => rfl
  | cons v vs ih =>
    rw [List.length_cons, List.replicate_succ, h v List.mem_cons_self]
    congr 1
    exact ih (fun x hx => h x (List.mem_cons_of_mem _ hx))

/-- a packed word is a 64-bit word and unpacks to what was packed -/
theorem unpackWord_packWord (sel n bits : Nat) (hsel : selector[sel]? = some (n, bits)) (vals : List Nat)
    (hlen : vals.length = n) (hb : if bits = 0 then ∀ v ∈ vals, v = 1 else ∀ v ∈ vals, v < 2 ^ bits) :
    packWord sel bits vals < W ∧ unpackWord (packWord sel bits vals) = vals := by
  have hmem : (n, bits) ∈ selector := List.mem_of_getElem? hsel
  have ⟨hnb, hn1⟩ := selector_rows _ hmem
  simp only at hnb hn1
  have hsel16 : sel < 16 := by
    have := (List.getElem?_eq_some_iff.mp hsel).1
    simpa [selector_length] using this
  have hW : W = 16 * 2 ^ 60 := by decide
  by_cases hb0 : bits = 0
  · subst hb0
    simp only [if_true] at hb
    have hdiv : sel * 2 ^ 60 / 2 ^ 60 = sel := Nat.mul_div_cancel _ (Nat.two_pow_pos 60)
    refine ⟨?_, ?_⟩
    · simp only [packWord, if_true]; rw [hW]; exact Nat.mul_lt_mul_of_pos_right hsel16 (Nat.two_pow_pos 60)
    · simp only [packWord, if_true]
      unfold unpackWord; rw [hdiv]; unfold unpackSel; rw [hsel]
      simp only [if_true]
      rw [← hlen]; exact (replicate_of_all_one vals hb).symm
  · simp only [hb0, if_false] at hb
    have hlt := packN_lt bits vals hb
    rw [hlen] at hlt
    have hle : 2 ^ (bits * n) ≤ 2 ^ 60 := Nat.pow_le_pow_right (by omega) (by rw [Nat.mul_comm]; exact hnb)
    have hdiv : (sel * 2 ^ 60 + packN bits vals) / 2 ^ 60 = sel := by
      rw [Nat.add_comm, Nat.add_mul_div_right _ _ (Nat.two_pow_pos 60), Nat.div_eq_of_lt (by omega), Nat.zero_add]
    refine ⟨?_, ?_⟩
    · simp only [packWord, hb0, if_false]; rw [hW]
      have : sel * 2 ^ 60 ≤ 15 * 2 ^ 60 := Nat.mul_le_mul_right _ (by omega)
      omega
    · simp only [packWord, hb0, if_false]
      unfold unpackWord; rw [hdiv]; unfold unpackSel; rw [hsel]
      simp only [hb0, if_false]
      have e : sel * 2 ^ 60 = 2 ^ (bits * vals.length) * (2 ^ (60 - bits * n) * sel) := by
        rw [hlen, ← Nat.mul_assoc, ← Nat.pow_add]
        have : bits * n + (60 - bits * n) = 60 := by rw [Nat.mul_comm] ; omega
        rw [this, Nat.mul_comm]
      rw [Nat.add_comm, e, ← hlen]
      exact unpackN_packN bits vals hb _

theorem MaxValue_eq : MaxValue = 2 ^ 60 - 1 := by decide

/-- what a correct one-word packer returns -/
def StepOk (src : List Nat) (w n : Nat) : Prop :=
  1 ≤ n ∧ n ≤ src.length ∧ w < W ∧ unpackWord w = src.take n ∧ ∀ v ∈ src.take n, v ≤ MaxValue

/-- a one-word packer that is correct and fails exactly on an unpackable head -/
structure StepSpec (step : List Nat → Option (Nat × Nat)) : Prop where
  ok : ∀ src w n, step src = some (w, n) → StepOk src w n
  none_head : ∀ h t, step (h :: t) = none → h > MaxValue
  reject : ∀ h t, h > MaxValue → step (h :: t) = none

theorem canPack_spec (src : List Nat) (n bits : Nat) (h : canPack src n bits = true) :
    n ≤ src.length ∧ (if bits = 0 then ∀ v ∈ src.take n, v = 1 else ∀ v ∈ src.take n, v < 2 ^ bits) := by
  unfold canPack at h
  split at h
  · simp at h
  · next hlen =>
    refine ⟨by omega, ?_⟩
    split at h
    · next hb =>
      rw [if_pos hb]
      intro v hv
      have := List.all_eq_true.mp h v (List.mem_of_mem_take hv)
      simpa using this
    · next hb =>
      rw [if_neg hb]
      intro v hv
      have := List.all_eq_true.mp h v hv
      have hp : 0 < 2 ^ bits := Nat.two_pow_pos bits
      simp at this; omega

theorem go_ok (src : List Nat) : ∀ (rows : List (Nat × Nat)) (sel : Nat),
    (∀ k, rows[k]? = selector[sel + k]?) → ∀ w n, encodeOne.go src rows sel = some (w, n) → StepOk src w n := by
  intro rows
  induction rows with
  | nil => intro sel _ w n h; simp [encodeOne.go] at h
  | cons r rest ih =>
    obtain ⟨rn, rbits⟩ := r
    intro sel hrows w n h
    simp only [encodeOne.go] at h
    split at h
    · next hc =>
      simp only [Option.some.injEq, Prod.mk.injEq] at h
      obtain ⟨hw, hn⟩ := h
      subst hn
      have hsel : selector[sel]? = some (rn, rbits) := by have := hrows 0; simpa using this.symm
      obtain ⟨hlen, hb⟩ := canPack_spec src rn rbits hc
      have hmem : (rn, rbits) ∈ selector := List.mem_of_getElem? hsel
      have ⟨hnb, hn1⟩ := selector_rows _ hmem
      simp only at hnb hn1
      have htl : (src.take rn).length = rn := by simp; omega
      obtain ⟨p1, p2⟩ := unpackWord_packWord sel rn rbits hsel (src.take rn) htl hb
      rw [hw] at p1 p2
      refine ⟨hn1, hlen, p1, p2, ?_⟩
      intro v hv
      rw [MaxValue_eq]
      by_cases hb0 : rbits = 0
      · rw [if_pos hb0] at hb; have := hb v hv; omega
      · rw [if_neg hb0] at hb
        have := hb v hv
        have hle : 2 ^ rbits ≤ 2 ^ 60 := Nat.pow_le_pow_right (by omega) (by
          have : 1 * rbits ≤ rn * rbits := Nat.mul_le_mul_right _ hn1
          omega)
        omega
    · exact ih (sel + 1) (fun k => by have := hrows (k + 1); simpa [Nat.add_assoc, Nat.add_comm 1 k] using this) w n h

theorem go_none (src : List Nat) : ∀ (rows : List (Nat × Nat)) (sel : Nat),
    encodeOne.go src rows sel = none ↔ ∀ r ∈ rows, canPack src r.1 r.2 = false := by
  intro rows
  induction rows with
  | nil => intro sel; simp [encodeOne.go]
  | cons r rest ih =>
    obtain ⟨rn, rbits⟩ := r
    intro sel
    simp only [encodeOne.go]
    split
    · next hc => simp [hc]
    · next hc => rw [ih (sel + 1)]; simp [hc]

theorem canPack_head_big (h : Nat) (t : List Nat) (hh : h > MaxValue) (r : Nat × Nat) (hr : r ∈ selector) :
    canPack (h :: t) r.1 r.2 = false := by
  have ⟨hnb, hn1⟩ := selector_rows _ hr
  rw [MaxValue_eq] at hh
  unfold canPack
  split
  · rfl
  · split
    · simp; intro h1; omega
    · next hlen hb =>
      obtain ⟨k, hk⟩ : ∃ k, r.1 = k + 1 := ⟨r.1 - 1, by omega⟩
      rw [hk, List.take_succ_cons, List.all_cons]
      have hle : 2 ^ r.2 ≤ 2 ^ 60 := Nat.pow_le_pow_right (by omega) (by
        have : 1 * r.2 ≤ r.1 * r.2 := Nat.mul_le_mul_right _ hn1
        omega)
      have : decide (h ≤ 2 ^ r.2 - 1) = false := by simp; omega
      rw [this]; rfl

theorem encodeOne_spec : StepSpec encodeOne where
  ok := fun src w n h => go_ok src selector 0 (fun k => by simp) w n h
  none_head := by
    intro h t hnone
    have := (go_none (h :: t) selector 0).mp hnone (1, 60) (by decide)
    unfold canPack at this
    simp at this
    rw [MaxValue_eq]; omega
  reject := by
    intro h t hh
    exact (go_none (h :: t) selector 0).mpr (fun r hr => canPack_head_big h t hh r hr)

theorem decodeWords_cons (w : Nat) (ws : List Nat) : decodeWords (w :: ws) = unpackWord w ++ decodeWords ws := by
  simp [decodeWords]

theorem decodeWords_append (a b : List Nat) : decodeWords (a ++ b) = decodeWords a ++ decodeWords b := by
  simp [decodeWords]

/-- **EncodeAll accepts every input whose values fit in 60 bits, and the words decode back to it.** -/
theorem encodeAllWith_ok (step : List Nat → Option (Nat × Nat)) (hs : StepSpec step) :
    ∀ (fuel : Nat) (src : List Nat), src.length ≤ fuel → (∀ v ∈ src, v ≤ MaxValue) →
      ∃ ws, encodeAllWith step fuel src = some ws ∧ decodeWords ws = src ∧ ∀ w ∈ ws, w < W := by
  intro fuel
  induction fuel with
  | zero =>
    intro src hlen _
    have : src = [] := List.length_eq_zero_iff.mp (by omega)
    subst this
    exact ⟨[], by simp [encodeAllWith], rfl, by simp⟩
  | succ f ih =>
    intro src hlen hall
    cases src with
    | nil => exact ⟨[], by simp [encodeAllWith], rfl, by simp⟩
    | cons h t =>
      simp only [encodeAllWith, List.isEmpty_cons, Bool.false_eq_true, if_false]
      cases hst : step (h :: t) with
      | none =>
        have := hs.none_head h t hst
        have := hall h List.mem_cons_self
        omega
      | some p =>
        obtain ⟨w, n⟩ := p
        obtain ⟨h1, h2, h3, h4, h5⟩ := hs.ok _ _ _ hst
        have hdl : ((h :: t).drop n).length ≤ f := by simp at hlen ⊢; omega
        obtain ⟨ws, e1, e2, e3⟩ := ih ((h :: t).drop n) hdl (fun v hv => hall v (List.mem_of_mem_drop hv))
        simp only [e1]
        refine ⟨w :: ws, rfl, ?_, ?_⟩
        · rw [decodeWords_cons, h4, e2, List.take_append_drop]
        · intro x hx
          rcases List.mem_cons.mp hx with rfl | hx'
          · exact h3
          · exact e3 x hx'

/-- **EncodeAll rejects every input that contains a value above 2^60-1.** -/
theorem encodeAllWith_reject (step : List Nat → Option (Nat × Nat)) (hs : StepSpec step) :
    ∀ (fuel : Nat) (src : List Nat), (∃ v ∈ src, v > MaxValue) → encodeAllWith step fuel src = none := by
  intro fuel
  induction fuel with
  | zero =>
    intro src ⟨v, hv, _⟩
    cases src with
    | nil => simp at hv
    | cons h t => simp [encodeAllWith]
  | succ f ih =>
    intro src ⟨v, hv, hbig⟩
    cases src with
    | nil => simp at hv
    | cons h t =>
      simp only [encodeAllWith, List.isEmpty_cons, Bool.false_eq_true, if_false]
      cases hst : step (h :: t) with
      | none => rfl
      | some p =>
        obtain ⟨w, n⟩ := p
        obtain ⟨h1, h2, h3, h4, h5⟩ := hs.ok _ _ _ hst
        have hin : v ∈ (h :: t).drop n := by
          have : v ∈ (h :: t).take n ++ (h :: t).drop n := by rw [List.take_append_drop]; exact hv
          rcases List.mem_append.mp this with h' | h'
          · have := h5 v h'; omega
          · exact h'
        simp only [ih _ ⟨v, hin, hbig⟩]

/-! ### influxdb's EncodeAll step -/

theorem numBits_eq_selector : ∀ k, numBits[k]? = selector[2 + k]? := by
  intro k
  have : numBits = selector.drop 2 := by decide
  rw [this, List.getElem?_drop]

theorem numBits_bits_pos : ∀ r ∈ numBits, r.2 ≠ 0 := by decide

theorem codesLoop_ok (src : List Nat) : ∀ (rows : List (Nat × Nat)) (code : Nat),
    (∀ k, rows[k]? = selector[code + 2 + k]?) → ∀ w n, codesLoop src rows code = some (w, n) → StepOk src w n := by
  intro rows
  induction rows with
  | nil => intro code _ w n h; simp [codesLoop] at h
  | cons r rest ih =>
    obtain ⟨rn, rbits⟩ := r
    intro code hrows w n h
    have hnext : ∀ k, rest[k]? = selector[code + 1 + 2 + k]? := fun k => by
      have := hrows (k + 1)
      simp only [List.getElem?_cons_succ] at this
      rw [this]; congr 1; omega
    simp only [codesLoop] at h
    split at h
    · exact ih (code + 1) hnext w n h
    · next hlen =>
      split at h
      · next hall =>
        simp only [Option.some.injEq, Prod.mk.injEq] at h
        obtain ⟨hw, hn⟩ := h
        subst hn
        have hsel : selector[code + 2]? = some (rn, rbits) := by have := hrows 0; simpa using this.symm
        have hmem : (rn, rbits) ∈ selector := List.mem_of_getElem? hsel
        have ⟨hnb, hn1⟩ := selector_rows _ hmem
        simp only at hnb hn1
        have hb0 : rbits ≠ 0 := by
          have h1 : numBits[code]? = some (rn, rbits) := by
            rw [numBits_eq_selector, Nat.add_comm]; exact hsel
          exact numBits_bits_pos _ (List.mem_of_getElem? h1)
        have hlt : ∀ v ∈ src.take rn, v < 2 ^ rbits := by
          intro v hv; have := List.all_eq_true.mp hall v hv; simpa using this
        have htl : (src.take rn).length = rn := by simp; omega
        obtain ⟨p1, p2⟩ := unpackWord_packWord (code + 2) rn rbits hsel (src.take rn) htl (by rw [if_neg hb0]; exact hlt)
        simp only [packWord, hb0, if_false] at p1 p2
        rw [hw] at p1 p2
        refine ⟨hn1, by omega, p1, p2, ?_⟩
        intro v hv
        rw [MaxValue_eq]
        have := hlt v hv
        have hle : 2 ^ rbits ≤ 2 ^ 60 := Nat.pow_le_pow_right (by omega) (by
          have : 1 * rbits ≤ rn * rbits := Nat.mul_le_mul_right _ hn1
          omega)
        omega
      · exact ih (code + 1) hnext w n h

theorem codesLoop_none (src : List Nat) : ∀ (rows : List (Nat × Nat)) (code : Nat),
    codesLoop src rows code = none ↔
      ∀ r ∈ rows, r.1 > src.length ∨ (src.take r.1).all (fun v => decide (v < 2 ^ r.2)) = false := by
  intro rows
  induction rows with
  | nil => intro code; simp [codesLoop]
  | cons r rest ih =>
    obtain ⟨rn, rbits⟩ := r
    intro code
    simp only [codesLoop]
    split
    · next h =>
      rw [ih (code + 1)]
      constructor
      · intro hr r hmem
        rcases List.mem_cons.mp hmem with rfl | hm
        · exact Or.inl h
        · exact hr r hm
      · intro hr r hmem; exact hr r (List.mem_cons_of_mem _ hmem)
    · next h =>
      split
      · next h2 =>
        constructor
        · intro hc; simp at hc
        · intro hall
          rcases hall (rn, rbits) List.mem_cons_self with a | b
          · exact absurd a h
          · simp only at b; rw [h2] at b; simp at b
      · next h2 =>
        rw [ih (code + 1)]
        constructor
        · intro hr r hmem
          rcases List.mem_cons.mp hmem with rfl | hm
          · right; simpa using h2
          · exact hr r hm
        · intro hr r hmem; exact hr r (List.mem_cons_of_mem _ hmem)

theorem leadingOnes_le (l : List Nat) (lim : Nat) : leadingOnes l lim ≤ lim ∧ leadingOnes l lim ≤ l.length := by
  induction l generalizing lim with
  | nil => simp [leadingOnes]
  | cons v vs ih =>
    cases lim with
    | zero => simp [leadingOnes]
    | succ k =>
      simp only [leadingOnes]
      split
      · have := ih k; simp; omega
      · simp

theorem leadingOnes_take (l : List Nat) (lim : Nat) : ∀ v ∈ l.take (leadingOnes l lim), v = 1 := by
  induction l generalizing lim with
  | nil => simp [leadingOnes]
  | cons v vs ih =>
    cases lim with
    | zero => simp [leadingOnes]
    | succ k =>
      simp only [leadingOnes]
      split
      · next h1 =>
        intro x hx
        rw [List.take_succ_cons] at hx
        rcases List.mem_cons.mp hx with rfl | hx'
        · exact h1
        · exact ih k x hx'
      · simp

theorem ones_stepOk (src : List Nat) (sel n : Nat) (hsel : selector[sel]? = some (n, 0)) (hn : n ≤ src.length)
    (hones : ∀ v ∈ src.take n, v = 1) : StepOk src (sel * 2 ^ 60) n := by
  have hmem : (n, 0) ∈ selector := List.mem_of_getElem? hsel
  have ⟨_, hn1⟩ := selector_rows _ hmem
  have htl : (src.take n).length = n := by simp; omega
  obtain ⟨p1, p2⟩ := unpackWord_packWord sel n 0 hsel (src.take n) htl (by simpa using hones)
  simp only [packWord, if_true] at p1 p2
  refine ⟨hn1, hn, p1, p2, ?_⟩
  intro v hv; rw [hones v hv, MaxValue_eq]; omega

theorem mem_take_of_le {α} (l : List α) (a b : Nat) (h : a ≤ b) (x : α) (hx : x ∈ l.take a) : x ∈ l.take b := by
  have : l.take a = (l.take b).take a := by rw [List.take_take]; congr 1; omega
  rw [this] at hx; exact List.mem_of_mem_take hx

theorem encodeStepI_spec : StepSpec encodeStepI where
  ok := by
    intro src w n h
    unfold encodeStepI at h
    have hcodes : ∀ w n, codesLoop src numBits 0 = some (w, n) → StepOk src w n :=
      codesLoop_ok src numBits 0 (fun k => by rw [numBits_eq_selector])
    by_cases hlen : src.length ≥ 120
    · rw [if_pos hlen] at h
      simp only at h
      have hlimle : (if src.length ≥ 240 then 240 else 120) ≤ src.length := by split <;> omega
      generalize (if src.length ≥ 240 then 240 else 120) = lim at h hlimle
      have hl := leadingOnes_le src lim
      by_cases hk : leadingOnes src lim = 240
      · rw [if_pos hk] at h
        simp only [Option.some.injEq, Prod.mk.injEq] at h
        obtain ⟨rfl, rfl⟩ := h
        have := ones_stepOk src 0 240 (by decide) (by omega)
          (fun v hv => by rw [← hk] at hv; exact leadingOnes_take src _ v hv)
        rw [Nat.zero_mul] at this; exact this
      · rw [if_neg hk] at h
        by_cases hk2 : leadingOnes src lim ≥ 120
        · rw [if_pos hk2] at h
          simp only [Option.some.injEq, Prod.mk.injEq] at h
          obtain ⟨rfl, rfl⟩ := h
          have := ones_stepOk src 1 120 (by decide) (by omega)
            (fun v hv => leadingOnes_take src lim v (mem_take_of_le src 120 _ hk2 v hv))
          rw [Nat.one_mul] at this; exact this
        · rw [if_neg hk2] at h
          exact hcodes w n h
    · rw [if_neg hlen] at h
      exact hcodes w n h
  none_head := by
    intro h t hnone
    unfold encodeStepI at hnone
    have key : codesLoop (h :: t) numBits 0 = none → h > MaxValue := by
      intro hc
      have := (codesLoop_none (h :: t) numBits 0).mp hc (1, 60) (by decide)
      simp at this
      rw [MaxValue_eq]; omega
    by_cases hlen : (h :: t).length ≥ 120
    · rw [if_pos hlen] at hnone
      simp only at hnone
      generalize (if (h :: t).length ≥ 240 then 240 else 120) = lim at hnone
      by_cases hk : leadingOnes (h :: t) lim = 240
      · rw [if_pos hk] at hnone; simp at hnone
      · rw [if_neg hk] at hnone
        by_cases hk2 : leadingOnes (h :: t) lim ≥ 120
        · rw [if_pos hk2] at hnone; simp at hnone
        · rw [if_neg hk2] at hnone; exact key hnone
    · rw [if_neg hlen] at hnone
      exact key hnone
  reject := by
    intro h t hh
    have hne : h ≠ 1 := by rw [MaxValue_eq] at hh; omega
    have key : codesLoop (h :: t) numBits 0 = none := by
      apply (codesLoop_none (h :: t) numBits 0).mpr
      intro r hr
      by_cases hlen : r.1 > (h :: t).length
      · exact Or.inl hlen
      · right
        have hr' : r ∈ selector := by
          have : numBits = selector.drop 2 := by decide
          rw [this] at hr; exact List.mem_of_mem_drop hr
        have ⟨hnb, hn1⟩ := selector_rows _ hr'
        obtain ⟨k, hk⟩ : ∃ k, r.1 = k + 1 := ⟨r.1 - 1, by omega⟩
        rw [hk, List.take_succ_cons, List.all_cons]
        have hle : 2 ^ r.2 ≤ 2 ^ 60 := Nat.pow_le_pow_right (by omega) (by
          have : 1 * r.2 ≤ r.1 * r.2 := Nat.mul_le_mul_right _ hn1
          omega)
        have : decide (h < 2 ^ r.2) = false := by rw [MaxValue_eq] at hh; simp; omega
        rw [this]; rfl
    unfold encodeStepI
    have hl0 : ∀ lim, leadingOnes (h :: t) lim = 0 := by
      intro lim; cases lim <;> simp [leadingOnes, hne]
    split
    · simp only [hl0]
      simpa using key
    · exact key

/-- both `EncodeAll`s: accept + decode back -/
theorem encodeAllJ_ok (src : List Nat) (h : ∀ v ∈ src, v ≤ MaxValue) :
    ∃ ws, encodeAllJ src.length src = some ws ∧ decodeWords ws = src ∧ ∀ w ∈ ws, w < W :=
  encodeAllWith_ok encodeOne encodeOne_spec _ src (Nat.le_refl _) h
theorem encodeAllI_ok (src : List Nat) (h : ∀ v ∈ src, v ≤ MaxValue) :
    ∃ ws, encodeAllI src.length src = some ws ∧ decodeWords ws = src ∧ ∀ w ∈ ws, w < W :=
  encodeAllWith_ok encodeStepI encodeStepI_spec _ src (Nat.le_refl _) h
theorem encodeAllJ_reject (src : List Nat) (h : ∃ v ∈ src, v > MaxValue) : encodeAllJ src.length src = none :=
  encodeAllWith_reject encodeOne encodeOne_spec _ src h
theorem encodeAllI_reject (src : List Nat) (h : ∃ v ∈ src, v > MaxValue) : encodeAllI src.length src = none :=
  encodeAllWith_reject encodeStepI encodeStepI_spec _ src h

/-! ### the streaming encoder -/

theorem decodeWords_snoc (out : List Nat) (w : Nat) : decodeWords (out ++ [w]) = decodeWords out ++ unpackWord w := by
  simp [decodeWords]

def Stream.Inv (s : Stream) (written : List Nat) : Prop :=
  decodeWords s.out ++ s.pending = written ∧ (∀ w ∈ s.out, w < W) ∧ s.pending.length ≤ 240

theorem encodeOne_some_of_good (l : List Nat) (hne : l ≠ []) (hall : ∀ v ∈ l, v ≤ MaxValue) :
    ∃ w n, encodeOne l = some (w, n) ∧ StepOk l w n := by
  cases l with
  | nil => exact absurd rfl hne
  | cons h t =>
    cases he : encodeOne (h :: t) with
    | none =>
      have := encodeOne_spec.none_head h t he
      have := hall h List.mem_cons_self
      omega
    | some p => exact ⟨p.1, p.2, rfl, encodeOne_spec.ok _ _ _ he⟩

theorem Stream.write_ok (s : Stream) (written : List Nat) (v : Nat) (hinv : s.Inv written)
    (hall : ∀ x ∈ written, x ≤ MaxValue) :
    ∃ s', s.write v = some s' ∧ s'.Inv (written ++ [v]) := by
  obtain ⟨h1, h2, h3⟩ := hinv
  unfold Stream.write
  split
  · next hfull =>
    have hne : s.pending ≠ [] := by intro h; rw [h] at hfull; simp at hfull
    have hgood : ∀ x ∈ s.pending, x ≤ MaxValue := fun x hx => hall x (by rw [← h1]; exact List.mem_append_right _ hx)
    obtain ⟨w, n, he, k1, k2, k3, k4, k5⟩ := encodeOne_some_of_good s.pending hne hgood
    rw [he]
    refine ⟨_, rfl, ?_, ?_, ?_⟩
    · show decodeWords (s.out ++ [w]) ++ (s.pending.drop n ++ [v]) = written ++ [v]
      rw [decodeWords_snoc, k4, ← h1]
      simp only [List.append_assoc]
      rw [← List.append_assoc (List.take n s.pending), List.take_append_drop]
    · intro x hx
      rcases List.mem_append.mp hx with h | h
      · exact h2 x h
      · simp at h; rw [h]; exact k3
    · simp; omega
  · next hnot =>
    refine ⟨_, rfl, ?_, h2, ?_⟩
    · simp only; rw [← h1, List.append_assoc]
    · simp; omega

theorem Stream.fold_ok (vs : List Nat) : ∀ (s : Stream) (written : List Nat), s.Inv written →
    (∀ x ∈ written ++ vs, x ≤ MaxValue) → ∃ s', vs.foldlM Stream.write s = some s' ∧ s'.Inv (written ++ vs) := by
  induction vs with
  | nil => intro s written hinv _; exact ⟨s, rfl, by simpa using hinv⟩
  | cons v rest ih =>
    intro s written hinv hall
    obtain ⟨s1, e1, i1⟩ := s.write_ok written v hinv (fun x hx => hall x (List.mem_append_left _ hx))
    obtain ⟨s2, e2, i2⟩ := ih s1 (written ++ [v]) i1 (by simpa using hall)
    refine ⟨s2, ?_, by simpa using i2⟩
    rw [List.foldlM_cons, e1]; exact e2

theorem Stream.drain_ok : ∀ (fuel : Nat) (s : Stream) (written : List Nat), s.pending.length ≤ fuel → s.Inv written →
    (∀ x ∈ written, x ≤ MaxValue) → ∃ ws, s.drain fuel = some ws ∧ decodeWords ws = written ∧ ∀ w ∈ ws, w < W := by
  intro fuel
  induction fuel with
  | zero =>
    intro s written hlen ⟨h1, h2, _⟩ _
    have : s.pending = [] := List.length_eq_zero_iff.mp (by omega)
    refine ⟨s.out, by simp [Stream.drain, this], by rw [← h1, this, List.append_nil], h2⟩
  | succ f ih =>
    intro s written hlen hinv hall
    obtain ⟨h1, h2, h3⟩ := hinv
    by_cases hp : s.pending = []
    · refine ⟨s.out, by simp [Stream.drain, hp], by rw [← h1, hp, List.append_nil], h2⟩
    · have hgood : ∀ x ∈ s.pending, x ≤ MaxValue := fun x hx => hall x (by rw [← h1]; exact List.mem_append_right _ hx)
      obtain ⟨w, n, he, k1, k2, k3, k4, k5⟩ := encodeOne_some_of_good s.pending hp hgood
      have hne : s.pending.isEmpty = false := by simpa using hp
      simp only [Stream.drain, hne, Bool.false_eq_true, if_false, he]
      apply ih
      · simp; omega
      · refine ⟨?_, ?_, by simp; omega⟩
        · show decodeWords (s.out ++ [w]) ++ s.pending.drop n = written
          rw [decodeWords_snoc, k4, ← h1]
          simp only [List.append_assoc]
          rw [List.take_append_drop]
        · intro x hx
          rcases List.mem_append.mp hx with h | h
          · exact h2 x h
          · simp at h; rw [h]; exact k3
      · exact hall

/-- **the streaming encoder's words decode back to what was written** -/
theorem encodeStream_ok (vs : List Nat) (h : ∀ v ∈ vs, v ≤ MaxValue) :
    ∃ ws, encodeStream vs = some ws ∧ decodeWords ws = vs ∧ ∀ w ∈ ws, w < W := by
  obtain ⟨s, e, i⟩ := Stream.fold_ok vs {} [] ⟨rfl, by simp, by simp⟩ (by simpa using h)
  unfold encodeStream
  rw [e]
  simp only [List.nil_append] at i
  exact Stream.drain_ok _ s vs (by omega) i h

def Stream.Bad (s : Stream) : Prop := ∃ v ∈ s.pending, v > MaxValue

theorem Stream.drain_reject : ∀ (fuel : Nat) (s : Stream), s.Bad → s.drain fuel = none := by
  intro fuel
  induction fuel with
  | zero =>
    intro s ⟨v, hv, _⟩
    have : s.pending.isEmpty = false := by cases hp : s.pending <;> simp_all
    simp [Stream.drain, this]
  | succ f ih =>
    intro s ⟨v, hv, hbig⟩
    have hne : s.pending.isEmpty = false := by cases hp : s.pending <;> simp_all
    simp only [Stream.drain, hne, Bool.false_eq_true, if_false]
    cases he : encodeOne s.pending with
    | none => rfl
    | some p =>
      obtain ⟨w, n⟩ := p
      obtain ⟨k1, k2, k3, k4, k5⟩ := encodeOne_spec.ok _ _ _ he
      simp only
      apply ih
      refine ⟨v, ?_, hbig⟩
      have : v ∈ s.pending.take n ++ s.pending.drop n := by rw [List.take_append_drop]; exact hv
      rcases List.mem_append.mp this with h' | h'
      · have := k5 v h'; omega
      · exact h'

theorem Stream.fold_reject (vs : List Nat) : ∀ (s : Stream), (∃ v ∈ s.pending ++ vs, v > MaxValue) →
    match vs.foldlM Stream.write s with
    | none => True
    | some s' => s'.Bad := by
  induction vs with
  | nil => intro s h; simpa [Stream.Bad] using h
  | cons x rest ih =>
    intro s ⟨v, hv, hbig⟩
    rw [List.foldlM_cons]
    cases hw : s.write x with
    | none => trivial
    | some s1 =>
      simp only [Option.bind_eq_bind, Option.bind_some]
      apply ih
      refine ⟨v, ?_, hbig⟩
      unfold Stream.write at hw
      split at hw
      · cases he : encodeOne s.pending with
        | none => rw [he] at hw; simp at hw
        | some p =>
          obtain ⟨w, n⟩ := p
          rw [he] at hw
          simp only [Option.some.injEq] at hw
          obtain ⟨k1, k2, k3, k4, k5⟩ := encodeOne_spec.ok _ _ _ he
          subst hw
          simp only [List.append_assoc, List.singleton_append]
          rcases List.mem_append.mp hv with h1 | h1
          · have : v ∈ s.pending.take n ++ s.pending.drop n := by rw [List.take_append_drop]; exact h1
            rcases List.mem_append.mp this with h' | h'
            · have := k5 v h'; omega
            · exact List.mem_append_left _ h'
          · exact List.mem_append_right _ h1
      · simp only [Option.some.injEq] at hw
        subst hw
        simp only [List.append_assoc, List.singleton_append]
        exact hv

/-- **the streaming encoder rejects an input containing a value above 2^60-1** -/
theorem encodeStream_reject (vs : List Nat) (h : ∃ v ∈ vs, v > MaxValue) : encodeStream vs = none := by
  have := Stream.fold_reject vs {} (by simpa using h)
  unfold encodeStream
  cases hf : vs.foldlM Stream.write ({} : Stream) with
  | none => rfl
  | some s => rw [hf] at this; exact Stream.drain_reject _ s this

end Influx.Codec
