/-
  Lemmas.BackupTrace2 — the statement's checks (Spec.C38) on the model's own
  observations of one backup→restore, backup→import, export→import.
-/
import Influx.Lemmas.BackupTrace1

namespace Influx.Backup
open Influx.Spec.C38

/-- the model-level side condition of the series clause: when no file has a
    tombstone file, every key that has a block is listed in the index.
    (An invariant of every run: Lemmas.BackupSeries.seriesAlong_all.) -/
def Shard.seriesOK (s : Shard) : Bool :=
  !(s.files.all (fun f => f.tombM.isNone)) ||
  s.files.all (fun f => f.blocks.all (fun b => s.series.contains b.key))

/-! ### candidate times depend on the files only through their block lists -/

def blocksTimes (bss : List (List Block)) (k : Key) : List TS :=
  bss.flatMap (fun bs => (bs.filter (·.key == k)).flatMap (fun b => b.pts.map (·.1)))

theorem files_times_eq (fs : List TFile) (k : Key) :
    fs.flatMap (fun f => (f.blocks.filter (·.key == k)).flatMap (fun b => b.pts.map (·.1))) =
      blocksTimes (fs.map (·.blocks)) k := by
  unfold blocksTimes
  induction fs with
  | nil => rfl
  | cons f fs ih => simp [List.flatMap_cons, ih]

theorem times_congr (s s' : Shard) (hc : s.cache = s'.cache)
    (hb : s.files.map (·.blocks) = s'.files.map (·.blocks)) (k : Key) : s.times k = s'.times k := by
  unfold Shard.times
  rw [files_times_eq, files_times_eq, hc, hb]

/-- reading a cache-less shard without tombstone records -/
theorem abs_of_no_cache_no_tombs (s : Shard) (hc : s.cache = []) (hnt : ∀ f ∈ s.files, f.tombs = [])
    (k : Key) (t : TS) : s.abs k t = bsLookup (s.files.map (·.blocks)) k t := by
  unfold Shard.abs
  rw [hc]
  simp only [cacheLookup, List.find?_nil, Option.map_none, Option.none_or]
  rw [filesLookup_eq_raw_of_no_tombs _ hnt, filesLookupRaw_eq_bsLookup]

/-- two cache-less, tombstone-less shards with the same block lists dump the same points -/
theorem dump_pts_of_blocks (s s' : Shard) (hc : s.cache = []) (hc' : s'.cache = [])
    (hnt : ∀ f ∈ s.files, f.tombs = []) (hnt' : ∀ f ∈ s'.files, f.tombs = [])
    (hb : s.files.map (·.blocks) = s'.files.map (·.blocks)) : s.dump.pts = s'.dump.pts := by
  apply dump_pts_congr
  · exact times_congr s s' (by rw [hc, hc']) hb
  · intro k t
    rw [abs_of_no_cache_no_tombs s hc hnt, abs_of_no_cache_no_tombs s' hc' hnt', hb]

theorem no_tombs_of_listing {s : Shard} (hi : s.Inv) (h : hasTombstone (listing s.files) = false) :
    ∀ f ∈ s.files, f.tombs = [] :=
  fun f hf => (hi.wf f hf).2.1 (no_tombstone_listing h f hf)

/-! ### restore / import of a full backup -/

theorem restored_files (s : Shard) (hi : s.Inv) :
    (Shard.empty.restore (backupEntries none s.files)).files = s.files.map strip := by
  rw [restore_files]
  have := restoreFiles_backup_none [] s.files (by simpa using hi.sorted)
  simpa [Shard.empty] using this

theorem sameSeries_of (src tgt : Shard)
    (h1 : ∀ k ∈ tgt.series, k ∈ src.series)
    (h2 : ∀ k t v, src.abs k t = some v → k ∈ tgt.series) :
    sameSeries src.dump tgt.dump = true := by
  unfold sameSeries
  rw [Bool.and_eq_true, List.all_eq_true, List.all_eq_true]
  constructor
  · intro k hk
    simpa [Shard.dump] using h1 k (by simpa [Shard.dump] using hk)
  · intro e he
    obtain ⟨t, v, ha⟩ := dump_pts_key he
    simpa [Shard.dump] using h2 e.1 t v ha

theorem seriesOK_keys {s : Shard} (hso : s.seriesOK = true) (hnt : hasTombstone (listing s.files) = false)
    {f : TFile} (hf : f ∈ s.files) {b : Block} (hb : b ∈ f.blocks) : b.key ∈ s.series := by
  unfold Shard.seriesOK at hso
  have hall : s.files.all (fun f => f.tombM.isNone) = true := by
    rw [List.all_eq_true]
    intro g hg
    simp [no_tombstone_listing hnt g hg]
  rw [hall] at hso
  simp only [Bool.not_true, Bool.false_or, List.all_eq_true] at hso
  simpa using hso f hf b hb

/-- **restore clause on observations**: without a tombstone file in the listing,
    the restored shard dumps the same content -/
theorem restore_same (s : Shard) (hi : s.Inv) (hc : s.cache = []) (hso : s.seriesOK = true)
    (hnt : hasTombstone (listing s.files) = false) :
    sameContent s.dump (Shard.empty.restore (backupEntries none s.files)).dump = true := by
  have hnt' := no_tombs_of_listing hi hnt
  have hfiles := restored_files s hi
  have hcache : (Shard.empty.restore (backupEntries none s.files)).cache = [] := by
    rw [restore_cache]; rfl
  unfold sameContent
  rw [Bool.and_eq_true]
  constructor
  · have : s.dump.pts = (Shard.empty.restore (backupEntries none s.files)).dump.pts := by
      apply dump_pts_of_blocks s _ hc hcache hnt'
      · rw [hfiles]; intro f hf
        obtain ⟨g, _, rfl⟩ := List.mem_map.mp hf
        rfl
      · rw [hfiles]; simp [List.map_map, Function.comp_def]
    rw [this]; exact beq_self_eq_true _
  · apply sameSeries_of
    · intro k hk
      rcases (restore_series _ _ k).mp hk with h | h
      · simp [Shard.empty] at h
      · obtain ⟨f, hf, b, hb, rfl⟩ := mem_archiveKeys_backup_none.mp h
        exact seriesOK_keys hso hnt hf hb
    · intro k t v ha
      obtain ⟨f, hf, b, hb, hk⟩ := abs_some_block hc ha
      exact (restore_series _ _ k).mpr (Or.inr (mem_archiveKeys_backup_none.mpr ⟨f, hf, b, hb, hk⟩))

theorem import_same (s : Shard) (hi : s.Inv) (hc : s.cache = []) (hso : s.seriesOK = true)
    (hnt : hasTombstone (listing s.files) = false) :
    sameContent s.dump (Shard.empty.importA (backupEntries none s.files)).dump = true := by
  have hnt' := no_tombs_of_listing hi hnt
  have hcache : (Shard.empty.importA (backupEntries none s.files)).cache = [] := by
    rw [import_cache]; rfl
  have hb : s.files.map (·.blocks) = (Shard.empty.importA (backupEntries none s.files)).files.map (·.blocks) := by
    rw [import_files, importFiles_blocks, archiveBlocks_backup_none]; simp [Shard.empty]
  have htombs : ∀ f ∈ (Shard.empty.importA (backupEntries none s.files)).files, f.tombs = [] := by
    rw [import_files]; exact importFiles_tombs _ _ _ (by simp [Shard.empty])
  unfold sameContent
  rw [Bool.and_eq_true]
  constructor
  · rw [dump_pts_of_blocks s _ hc hcache hnt' htombs hb]; exact beq_self_eq_true _
  · apply sameSeries_of
    · intro k hk
      rcases (import_series _ _ k).mp hk with h | h
      · simp [Shard.empty] at h
      · obtain ⟨f, hf, b, hb, rfl⟩ := mem_archiveKeys_backup_none.mp h
        exact seriesOK_keys hso hnt hf hb
    · intro k t v ha
      obtain ⟨f, hf, b, hb, hk⟩ := abs_some_block hc ha
      exact (import_series _ _ k).mpr (Or.inr (mem_archiveKeys_backup_none.mpr ⟨f, hf, b, hb, hk⟩))

/-! ### export → import -/

theorem imported_abs (ar : Archive) (k : Key) (t : TS) :
    (Shard.empty.importA ar).abs k t = bsLookup (archiveBlocks ar) k t := by
  have hc : (Shard.empty.importA ar).cache = [] := by rw [import_cache]; rfl
  have ht : ∀ f ∈ (Shard.empty.importA ar).files, f.tombs = [] := by
    rw [import_files]; exact importFiles_tombs _ _ _ (by simp [Shard.empty])
  rw [abs_of_no_cache_no_tombs _ hc ht, import_files, importFiles_blocks]
  simp [Shard.empty]

theorem export_no_tombs_files {s : Shard} (hi : s.Inv) {a e : TS} {ar : Archive}
    (h : exportEntries a e s.files = .ok ar) : ∀ f ∈ s.files, f.tombs = [] :=
  fun f hf => (hi.wf f hf).2.1 ((exportEntries_ok h).2.1 f hf)

/-- **lower half of the export clause on observations** -/
theorem exportLower_ok (s : Shard) (hi : s.Inv) (hc : s.cache = []) (a e : TS) (ar : Archive)
    (h : exportEntries a e s.files = .ok ar) :
    exportLower a e s.dump (Shard.empty.importA ar).dump = true := by
  unfold exportLower
  rw [List.all_eq_true]
  rintro ⟨k, t, v⟩ hp
  obtain ⟨hk, ha⟩ := mem_dumpFlat.mp hp
  by_cases hr : a ≤ t ∧ t ≤ e
  · have : (Shard.empty.importA ar).abs k t = some v := by
      rw [imported_abs, (exportEntries_ok h).1,
        bsLookup_export _ (fun f hf => (hi.wf f hf).1) a e k t hr.1 hr.2,
        ← abs_of_no_cache_no_tombs s hc (export_no_tombs_files hi h), ha]
    have hm := (dumpHas_iff _ k t v).mpr (mem_dumpFlat.mpr ⟨hk, this⟩)
    simp [hm]
  · have : (decide (a ≤ t) && decide (t ≤ e)) = false := by
      rw [Bool.and_eq_false_iff]
      by_cases h1 : a ≤ t
      · right; exact decide_eq_false (fun h2 => hr ⟨h1, h2⟩)
      · left; exact decide_eq_false h1
    simp [this]

theorem gone_of_no_tombs (f : TFile) (h : f.tombs = []) (k : Key) : f.gone k = false := by
  simp [TFile.gone, h, goneAux]

theorem mem_blockListing {fs : List TFile} {f : TFile} (hf : f ∈ fs) (hnt : f.tombs = [])
    {b : Block} (hb : b ∈ f.blocks) :
    ((⟨f.gen, f.seq, false⟩ : FName), b.key, b.lo, b.hi) ∈ blockListing fs := by
  unfold blockListing
  refine List.mem_flatMap.mpr ⟨f, hf, List.mem_map.mpr ⟨b, ?_, rfl⟩⟩
  simp [hb, gone_of_no_tombs f hnt]

/-- **upper half on observations**: every imported point lies in a listed block of
    its key that overlaps the range -/
theorem exportWithinBlocks_ok (s : Shard) (hi : s.Inv) (a e : TS) (hae : a ≤ e) (ar : Archive)
    (h : exportEntries a e s.files = .ok ar) :
    exportWithinBlocks a e (blockListing s.files) (Shard.empty.importA ar).dump = true := by
  unfold exportWithinBlocks
  rw [List.all_eq_true]
  rintro ⟨k, t, v⟩ hp
  obtain ⟨_, ha⟩ := mem_dumpFlat.mp hp
  rw [imported_abs, (exportEntries_ok h).1] at ha
  obtain ⟨f, hf, b, hb, _, hk, hlo, hhi, h1, h2⟩ :=
    bsLookup_export_some _ (fun f hf => (hi.wf f hf).1) a e hae k t v ha
  rw [List.any_eq_true]
  refine ⟨_, mem_blockListing hf (export_no_tombs_files hi h f hf) hb, ?_⟩
  simp [hk, hlo, hhi, Spec.C38.overlaps, h1, h2]

end Influx.Backup
