/-
  Lemmas.TSIMerge — views of compacted files: `LogFile.CompactTo` (compactLogData) and
  `IndexFiles.CompactTo` (mergeData), on the accessors; `buildSeriesSet` / `mergeSets` in
  terms of the newest mention of an id.
-/
import Influx.Lemmas.TSIExec

namespace Influx.Model.TSI

/-- no tag key and no tag value of the file carries a tombstone flag. -/
structure NoFlags (d : FileData) : Prop where
  key : ∀ n k tk, keyElem n k d = some tk → tk.deleted = false
  val : ∀ n k v tv, valElem n k v d = some tv → tv.deleted = false

/-! #### lookups in mapped association lists -/

theorem alookup_map_snd {α β : Type} (l : List (String × α)) (g : String → α → β) (k : String) :
    alookup (l.map (fun p => (p.1, g p.1 p.2))) k = (alookup l k).map (g k) := by
  induction l with
  | nil => simp [alookup]
  | cons kv rest ih =>
    obtain ⟨k₀, v₀⟩ := kv
    simp only [List.map_cons, alookup]
    by_cases h : k₀ = k
    · subst h; simp
    · simp [h, ih]

theorem alookup_filterMap_keys {β : Type} (vs : List String) (F : String → Option β) (v₀ : String) :
    alookup (vs.filterMap (fun v => (F v).map (fun t => (v, t)))) v₀ =
      if v₀ ∈ vs then F v₀ else none := by
  induction vs with
  | nil => simp [alookup]
  | cons x xs ih =>
    simp only [List.filterMap_cons, List.mem_cons]
    cases hx : F x with
    | none =>
      simp only [Option.map_none, ih]
      by_cases h : v₀ = x
      · subst h; simp [hx]
      · simp [h]
    | some t =>
      simp only [Option.map_some, alookup]
      by_cases h : x = v₀
      · subst h; simp [hx]
      · have h' : ¬ v₀ = x := fun e => h e.symm
        simp [h, h', ih]

/-! #### compactLogData -/

theorem compactLog_mms (d : FileData) (n : String) :
    alookup (compactLogData d).mms n =
      (alookup d.mms n).map (fun mm => { mm with keys := mm.keys.map (fun (k, tk) =>
        if tk.deleted then (k, { tk with values := [] }) else (k, tk)) }) := by
  unfold compactLogData
  simp only
  induction d.mms with
  | nil => simp [alookup]
  | cons kv rest ih =>
    obtain ⟨k₀, v₀⟩ := kv
    simp only [List.map_cons, alookup]
    by_cases h : k₀ = n
    · simp [h]
    · simp [h, ih]

theorem compactLog_measFlag (d : FileData) (n : String) :
    measFlag n (compactLogData d) = measFlag n d := by
  unfold measFlag
  rw [compactLog_mms]
  cases alookup d.mms n <;> rfl

theorem compactLog_fileMeasSeries (d : FileData) (n : String) :
    fileMeasSeries n (compactLogData d) = fileMeasSeries n d := by
  unfold fileMeasSeries
  rw [compactLog_mms]
  cases alookup d.mms n <;> rfl

theorem compactLog_keyElem (d : FileData) (n k : String) :
    keyElem n k (compactLogData d) =
      (keyElem n k d).map (fun tk => if tk.deleted then { tk with values := [] } else tk) := by
  unfold keyElem
  rw [compactLog_mms]
  cases alookup d.mms n with
  | none => rfl
  | some mm =>
    simp only [Option.map_some, Option.bind_some]
    induction mm.keys with
    | nil => simp [alookup]
    | cons kv rest ih =>
      obtain ⟨k₀, tk₀⟩ := kv
      simp only [List.map_cons, alookup]
      by_cases h : k₀ = k
      · by_cases hdel : tk₀.deleted <;> simp [h, hdel, alookup]
      · by_cases hdel : tk₀.deleted <;> simp [h, hdel, alookup, ih]

/-- without tombstone flags a log file compacts to the same views. -/
theorem compactLog_keyElem_noflags {d : FileData} (h : NoFlags d) (n k : String) :
    keyElem n k (compactLogData d) = keyElem n k d := by
  rw [compactLog_keyElem]
  cases hk : keyElem n k d with
  | none => rfl
  | some tk => simp [h.key n k tk hk]

theorem compactLog_valElem_noflags {d : FileData} (h : NoFlags d) (n k v : String) :
    valElem n k v (compactLogData d) = valElem n k v d := by
  unfold valElem
  rw [compactLog_keyElem_noflags h]

theorem compactLog_noflags {d : FileData} (h : NoFlags d) : NoFlags (compactLogData d) where
  key n k tk hk := h.key n k tk (by rwa [compactLog_keyElem_noflags h] at hk)
  val n k v tv hv := h.val n k v tv (by rwa [compactLog_valElem_noflags h] at hv)

theorem compactLog_sets (d : FileData) :
    (compactLogData d).sset = d.sset ∧ (compactLogData d).tomb = d.tomb := ⟨rfl, rfl⟩

/-! #### mergeData -/

theorem mem_names_iff (fs : List FileData) (n : String) :
    n ∈ dedupStr (fs.flatMap (fun f => f.mms.map (·.1))) ↔ ∃ f ∈ fs, (alookup f.mms n).isSome := by
  unfold dedupStr
  rw [mem_sortStr]
  simp only [List.mem_flatMap, alookup_isSome_iff]

theorem merge_mms (fs : List FileData) (n : String) :
    alookup (mergeData fs).mms n =
      if (∃ f ∈ fs, (alookup f.mms n).isSome) then some (mergeMeas fs n) else none := by
  unfold mergeData
  simp only
  rw [alookup_map_keys]
  by_cases h : ∃ f ∈ fs, (alookup f.mms n).isSome
  · simp [h, (mem_names_iff fs n).mpr h]
  · have : ¬ n ∈ dedupStr (fs.flatMap (fun f => f.mms.map (·.1))) := fun hn => h ((mem_names_iff fs n).mp hn)
    simp [h, this]

theorem firstSome_measFlag_isSome (fs : List FileData) (n : String) :
    (firstSome (measFlag n) fs).isSome ↔ ∃ f ∈ fs, (alookup f.mms n).isSome := by
  constructor
  · intro h
    cases hf : firstSome (measFlag n) fs with
    | none => simp [hf] at h
    | some b =>
      obtain ⟨f, hfm, hg⟩ := firstSome_eq_some hf
      refine ⟨f, hfm, ?_⟩
      unfold measFlag at hg
      cases hm : alookup f.mms n with
      | none => simp [hm] at hg
      | some mm => rfl
  · rintro ⟨f, hfm, hs⟩
    cases hf : firstSome (measFlag n) fs with
    | none =>
      have := (firstSome_eq_none.mp hf) f hfm
      unfold measFlag at this
      cases hm : alookup f.mms n with
      | none => simp [hm] at hs
      | some mm => simp [hm] at this
    | some b => rfl

/-- the merged file lists a measurement iff some input does, with the newest input's flag. -/
theorem merge_measFlag (fs : List FileData) (n : String) :
    measFlag n (mergeData fs) = firstSome (measFlag n) fs := by
  unfold measFlag
  rw [merge_mms]
  by_cases h : ∃ f ∈ fs, (alookup f.mms n).isSome
  · have hs := (firstSome_measFlag_isSome fs n).mpr h
    unfold measFlag at hs
    simp only [h, if_true, Option.map_some, mergeMeas]
    cases hf : firstSome (fun f => (alookup f.mms n).map (·.deleted)) fs with
    | none => simp [hf] at hs
    | some b => unfold measFlag; simp [hf]
  · have hs : ¬ (firstSome (measFlag n) fs).isSome := fun hh => h ((firstSome_measFlag_isSome fs n).mp hh)
    unfold measFlag at hs
    simp only [h, if_false, Option.map_none]
    cases hf : firstSome (fun f => (alookup f.mms n).map (·.deleted)) fs with
    | none => rfl
    | some b => simp [hf] at hs

theorem mem_fsMeasSeries (fs : List FileData) (n : String) (x : Nat) :
    x ∈ fsMeasSeries fs n ↔ ∃ f ∈ fs, x ∈ fileMeasSeries n f := by
  unfold fsMeasSeries
  rw [mem_foldl_sunion (fun f => fileMeasSeries n f)]
  simp

theorem mem_fileMeasSeries_isSome {n : String} {f : FileData} {x : Nat}
    (h : x ∈ fileMeasSeries n f) : (alookup f.mms n).isSome := by
  unfold fileMeasSeries at h
  cases hm : alookup f.mms n with
  | none => simp [hm] at h
  | some mm => rfl

theorem merge_mem_fileMeasSeries (fs : List FileData) (n : String) (x : Nat) :
    x ∈ fileMeasSeries n (mergeData fs) ↔ ∃ f ∈ fs, x ∈ fileMeasSeries n f := by
  unfold fileMeasSeries
  rw [merge_mms]
  by_cases h : ∃ f ∈ fs, (alookup f.mms n).isSome
  · simp only [h, if_true, Option.map_some, Option.getD_some, mergeMeas]
    have := mem_fsMeasSeries fs n x
    unfold fileMeasSeries at this
    exact this
  · simp only [h, if_false, Option.map_none, Option.getD_none, List.not_mem_nil, false_iff]
    rintro ⟨f, hf, hx⟩
    exact h ⟨f, hf, mem_fileMeasSeries_isSome (by unfold fileMeasSeries; exact hx)⟩

theorem mem_fileKeys_iff (n k : String) (f : FileData) :
    k ∈ fileKeys n f ↔ (keyElem n k f).isSome := by
  unfold fileKeys keyElem
  cases alookup f.mms n with
  | none => simp
  | some mm => simp [alookup_isSome_iff]

theorem keyElem_isSome_meas {n k : String} {f : FileData} (h : (keyElem n k f).isSome) :
    (alookup f.mms n).isSome := by
  unfold keyElem at h
  cases hm : alookup f.mms n with
  | none => simp [hm] at h
  | some mm => rfl

theorem merge_keyElem (fs : List FileData) (n k : String) :
    keyElem n k (mergeData fs) =
      if (∃ f ∈ fs, (keyElem n k f).isSome) then some (mergeKey fs n k) else none := by
  unfold keyElem
  rw [merge_mms]
  by_cases hk : ∃ f ∈ fs, (keyElem n k f).isSome
  · obtain ⟨f, hf, hks⟩ := hk
    have hm : ∃ f ∈ fs, (alookup f.mms n).isSome := ⟨f, hf, keyElem_isSome_meas hks⟩
    have hmem : k ∈ dedupStr (fs.flatMap (fileKeys n)) := by
      unfold dedupStr
      rw [mem_sortStr, List.mem_flatMap]
      exact ⟨f, hf, (mem_fileKeys_iff n k f).mpr hks⟩
    have hk' : ∃ f ∈ fs, ((alookup f.mms n).bind (fun mm => alookup mm.keys k)).isSome := ⟨f, hf, hks⟩
    simp only [hm, if_true, Option.bind_some, mergeMeas, alookup_map_keys, hmem, hk']
  · have hmem : ¬ k ∈ dedupStr (fs.flatMap (fileKeys n)) := by
      unfold dedupStr
      rw [mem_sortStr, List.mem_flatMap]
      rintro ⟨f, hf, hkf⟩
      exact hk ⟨f, hf, (mem_fileKeys_iff n k f).mp hkf⟩
    have hk' : ¬ ∃ f ∈ fs, ((alookup f.mms n).bind (fun mm => alookup mm.keys k)).isSome := hk
    by_cases hm : ∃ f ∈ fs, (alookup f.mms n).isSome
    · simp only [hm, if_true, Option.bind_some, mergeMeas, alookup_map_keys, hmem, hk', if_false]
    · simp only [hm, if_false, Option.bind_none, hk']

/-- `upto` keeps everything when no element is deleted. -/
theorem upto_noflags (l : List TagKey) (h : ∀ tk ∈ l, tk.deleted = false) :
    mergedKeyValues.upto l = l := by
  induction l with
  | nil => rfl
  | cons tk rest ih =>
    unfold mergedKeyValues.upto
    have h0 := h tk (by simp)
    simp only [h0, Bool.false_eq_true, if_false]
    rw [ih (fun t ht => h t (List.mem_cons_of_mem _ ht))]

theorem findSome_valElem (fs : List FileData) (n k v : String) :
    (fs.filterMap (keyElem n k)).findSome? (fun tk => alookup tk.values v) = firstSome (valElem n k v) fs := by
  induction fs with
  | nil => rfl
  | cons f rest ih =>
    simp only [List.filterMap_cons, firstSome_cons]
    have hve : valElem n k v f = (keyElem n k f).bind (fun tk => alookup tk.values v) := rfl
    rw [hve]
    cases hk : keyElem n k f with
    | none => simp only [Option.bind_none]; exact ih
    | some tk =>
      simp only [List.findSome?_cons, Option.bind_some]
      cases hv : alookup tk.values v with
      | none => exact ih
      | some tv => rfl

/-- under `NoFlags` the merged value list binds exactly the values some input has, with the
    newest input's flag. -/
theorem alookup_mergedKeyValues (fs : List FileData) (hnf : ∀ f ∈ fs, NoFlags f) (n k v : String) :
    alookup (mergedKeyValues fs n k) v = (firstSome (valElem n k v) fs).map (·.deleted) := by
  unfold mergedKeyValues
  simp only
  have hup : mergedKeyValues.upto (fs.filterMap (keyElem n k)) = fs.filterMap (keyElem n k) := by
    apply upto_noflags
    intro tk htk
    obtain ⟨f, hf, hkf⟩ := List.mem_filterMap.mp htk
    exact (hnf f hf).key n k tk hkf
  rw [hup]
  have hrw : (fun v => Option.map (fun tv => (v, tv.deleted))
        ((fs.filterMap (keyElem n k)).findSome? (fun tk => alookup tk.values v))) =
      (fun v => ((firstSome (valElem n k v) fs).map (·.deleted)).map (fun t => (v, t))) := by
    funext v'
    rw [findSome_valElem]
    cases firstSome (valElem n k v') fs <;> rfl
  rw [hrw, alookup_filterMap_keys]
  split
  · rfl
  · next hmem =>
    -- not listed: no input has the value
    cases hf : firstSome (valElem n k v) fs with
    | none => rfl
    | some tv =>
      exfalso
      apply hmem
      obtain ⟨f, hfm, hvf⟩ := firstSome_eq_some hf
      obtain ⟨tk, htk, hlv⟩ := valElem_keyElem hvf
      rw [mem_sortStr, List.mem_flatMap]
      refine ⟨tk, List.mem_filterMap.mpr ⟨f, hfm, htk⟩, ?_⟩
      exact (alookup_isSome_iff tk.values v).mp (by simp [hlv])

theorem valElem_isSome_keyElem {n k v : String} {f : FileData} (h : (valElem n k v f).isSome) :
    (keyElem n k f).isSome := by
  unfold valElem at h
  cases hk : keyElem n k f with
  | none => simp [hk] at h
  | some tk => rfl

theorem merge_valElem (fs : List FileData) (hnf : ∀ f ∈ fs, NoFlags f) (n k v : String) :
    valElem n k v (mergeData fs) =
      (firstSome (valElem n k v) fs).map (fun tv => mergeVal fs n k v tv.deleted) := by
  unfold valElem
  rw [merge_keyElem]
  by_cases hk : ∃ f ∈ fs, (keyElem n k f).isSome
  · simp only [hk, if_true, Option.bind_some, mergeKey]
    rw [alookup_map_snd (mergedKeyValues fs n k) (fun v del => mergeVal fs n k v del),
      alookup_mergedKeyValues fs hnf]
    unfold valElem
    cases firstSome (fun f => (keyElem n k f).bind (fun tk => alookup tk.values v)) fs <;> rfl
  · simp only [hk, if_false, Option.bind_none]
    cases hf : firstSome (fun f => (keyElem n k f).bind (fun tk => alookup tk.values v)) fs with
    | none => rfl
    | some tv =>
      exfalso
      obtain ⟨f, hfm, hvf⟩ := firstSome_eq_some hf
      exact hk ⟨f, hfm, valElem_isSome_keyElem (by unfold valElem; rw [hvf]; rfl)⟩

theorem merge_mem_fileValSeries (fs : List FileData) (hnf : ∀ f ∈ fs, NoFlags f) (n k v : String)
    (x : Nat) : x ∈ fileValSeries n k v (mergeData fs) ↔ ∃ f ∈ fs, x ∈ fileValSeries n k v f := by
  rw [fileValSeries_eq, merge_valElem fs hnf]
  cases hf : firstSome (valElem n k v) fs with
  | none =>
    simp only [Option.map_none, Option.getD_none, List.not_mem_nil, false_iff]
    rintro ⟨f, hfm, hx⟩
    obtain ⟨tv, htv, _⟩ := mem_fileValSeries_valElem hx
    have := (firstSome_eq_none.mp hf) f hfm
    simp [htv] at this
  | some tv =>
    simp only [Option.map_some, Option.getD_some, mergeVal]
    rw [mem_foldl_sunion (fun f => fileValSeries n k v f)]
    simp

theorem merge_noflags (fs : List FileData) (hnf : ∀ f ∈ fs, NoFlags f) : NoFlags (mergeData fs) where
  key n k tk hk := by
    rw [merge_keyElem] at hk
    split at hk
    · simp only [Option.some.injEq] at hk
      subst hk
      simp only [mergeKey]
      cases hf : firstSome (fun f => (keyElem n k f).map (·.deleted)) fs with
      | none => rfl
      | some b =>
        obtain ⟨f, hfm, hg⟩ := firstSome_eq_some hf
        cases hkf : keyElem n k f with
        | none => simp [hkf] at hg
        | some tk' =>
          simp only [hkf, Option.map_some, Option.some.injEq] at hg
          simp [← hg, (hnf f hfm).key n k tk' hkf]
    · simp at hk
  val n k v tv hv := by
    rw [merge_valElem fs hnf] at hv
    cases hf : firstSome (valElem n k v) fs with
    | none => simp [hf] at hv
    | some tv' =>
      simp only [hf, Option.map_some, Option.some.injEq] at hv
      subst hv
      obtain ⟨f, hfm, hg⟩ := firstSome_eq_some hf
      simp [mergeVal, (hnf f hfm).val n k v tv' hg]

/-! #### series / tombstone id sets: the newest mention decides -/

/-- the newest file mentioning `id` in its series set (`some true`) or its tombstone set. -/
def status (id : Nat) (fs : List FileData) : Option Bool :=
  firstSome (fun f => if id ∈ f.sset then some true else if id ∈ f.tomb then some false else none) fs

theorem mem_buildSeriesSet_aux (id : Nat) (rev : List FileData) (acc : List Nat) :
    id ∈ rev.foldl (fun acc f => sunion (sdiff acc f.tomb) f.sset) acc ↔
      match status id rev.reverse with
      | some b => b = true
      | none => id ∈ acc := by
  induction rev generalizing acc with
  | nil => simp [status, firstSome]
  | cons f rest ih =>
    simp only [List.foldl_cons, List.reverse_cons]
    rw [ih]
    unfold status
    rw [firstSome_append]
    cases hr : firstSome (fun f => if id ∈ f.sset then some true else if id ∈ f.tomb then some false else none)
        rest.reverse with
    | some b => rfl
    | none =>
      simp only [firstSome]
      by_cases h1 : id ∈ f.sset
      · simp [h1, mem_sunion]
      · by_cases h2 : id ∈ f.tomb
        · simp [h1, h2, mem_sunion, mem_sdiff]
        · simp [h1, h2, mem_sunion, mem_sdiff]

/-- `Partition.buildSeriesSet`: an id is in the rebuilt set iff its newest mention is a series entry. -/
theorem mem_buildSeriesSet (id : Nat) (fs : List FileData) :
    id ∈ buildSeriesSet fs ↔ status id fs = some true := by
  unfold buildSeriesSet
  rw [mem_buildSeriesSet_aux]
  simp only [List.reverse_reverse]
  cases status id fs with
  | none => simp
  | some b => simp

end Influx.Model.TSI
