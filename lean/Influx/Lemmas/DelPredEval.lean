/-
  Lemmas.DelPredEval — the lazily evaluated, memoising predicate tree of
  tsm1/predicate.go computes the cache-free three-valued value `eval3` of the
  current slots; definite values are stable when more slots get filled.
-/
import Influx.Model.DelPred

namespace Influx.Model.DelPred

/-- content of a slot (`none` = nil or out of range) -/
def slot (vals : List (Option Bytes)) (i : Nat) : Option Bytes :=
  match vals[i]? with
  | some (some x) => some x
  | _ => none

def opVal (vals : List (Option Bytes)) : Operand → Option Bytes
  | .lit b => some b
  | .ref i => slot vals i

/-- the value of a node on the current slots, ignoring the caches -/
def eval3 (vals : List (Option Bytes)) : PNode → Resp
  | .cmp _ neq l r =>
    match opVal vals l with
    | none => .needMore
    | some lv =>
      match opVal vals r with
      | none => .needMore
      | some rv => respOfBool (evalCmp neq lv rv)
  | .and _ l r =>
    match eval3 vals l with
    | .false_ => .false_
    | .needMore => .needMore
    | .true_ => eval3 vals r
  | .or _ l r =>
    match eval3 vals l, eval3 vals r with
    | .true_, _ => .true_
    | _, .true_ => .true_
    | .false_, .false_ => .false_
    | _, _ => .needMore

def opWF (n : Nat) : Operand → Prop
  | .lit _ => True
  | .ref i => i < n

/-- slot indices in range -/
def WFn (n : Nat) : PNode → Prop
  | .cmp _ _ l r => opWF n l ∧ opWF n r
  | .and _ l r => WFn n l ∧ WFn n r
  | .or _ l r => WFn n l ∧ WFn n r

/-- a cache of the current generation holds the (definite) value of its node -/
def CacheOK (g : Nat) (vals : List (Option Bytes)) : PNode → Prop
  | .cmp c neq l r => c.gen = g → (c.resp = eval3 vals (.cmp c neq l r) ∧ c.resp ≠ .needMore)
  | .and c l r => (c.gen = g → (c.resp = eval3 vals (.and c l r) ∧ c.resp ≠ .needMore)) ∧
      CacheOK g vals l ∧ CacheOK g vals r
  | .or c l r => (c.gen = g → (c.resp = eval3 vals (.or c l r) ∧ c.resp ≠ .needMore)) ∧
      CacheOK g vals l ∧ CacheOK g vals r

/-- no cache is newer than generation `g` -/
def GenLE (g : Nat) : PNode → Prop
  | .cmp c _ _ _ => c.gen ≤ g
  | .and c l r => c.gen ≤ g ∧ GenLE g l ∧ GenLE g r
  | .or c l r => c.gen ≤ g ∧ GenLE g l ∧ GenLE g r

/-- the node without its caches -/
def strip : PNode → PNode
  | .cmp _ neq l r => .cmp newCache neq l r
  | .and _ l r => .and newCache (strip l) (strip r)
  | .or _ l r => .or newCache (strip l) (strip r)

theorem eval3_strip (vals) (n : PNode) : eval3 vals (strip n) = eval3 vals n := by
  induction n with
  | cmp c neq l r => rfl
  | and c l r ihl ihr => simp [strip, eval3, ihl, ihr]
  | or c l r ihl ihr => simp [strip, eval3, ihl, ihr]

theorem eval3_congr {a b : PNode} (h : strip a = strip b) (vals) : eval3 vals a = eval3 vals b := by
  rw [← eval3_strip vals a, ← eval3_strip vals b, h]

theorem WFn_strip (k : Nat) (n : PNode) : WFn k (strip n) ↔ WFn k n := by
  induction n with
  | cmp c neq l r => simp [strip, WFn]
  | and c l r ihl ihr => simp [strip, WFn, ihl, ihr]
  | or c l r ihl ihr => simp [strip, WFn, ihl, ihr]

theorem WFn_congr {a b : PNode} (h : strip a = strip b) (k) : WFn k a ↔ WFn k b := by
  rw [← WFn_strip k a, ← WFn_strip k b, h]

theorem operandVal_of_WF (vals : List (Option Bytes)) (o : Operand) (h : opWF vals.length o) :
    ∃ x, operandVal vals o = some x ∧ opVal vals o = x := by
  cases o with
  | lit b => exact ⟨some b, rfl, rfl⟩
  | ref i =>
    have hi : i < vals.length := h
    refine ⟨vals[i], ?_, ?_⟩
    · simp [operandVal, hi]
    · simp only [opVal, slot, List.getElem?_eq_getElem hi]
      cases vals[i] <;> rfl

theorem cacheOK_cmp {g vals c neq l r} : CacheOK g vals (.cmp c neq l r) ↔
    (c.gen = g → (c.resp = eval3 vals (.cmp c neq l r) ∧ c.resp ≠ .needMore)) := by
  simp [CacheOK]
theorem cacheOK_and {g vals c l r} : CacheOK g vals (.and c l r) ↔
    (c.gen = g → (c.resp = eval3 vals (.and c l r) ∧ c.resp ≠ .needMore)) ∧
      CacheOK g vals l ∧ CacheOK g vals r := by
  simp [CacheOK]
theorem cacheOK_or {g vals c l r} : CacheOK g vals (.or c l r) ↔
    (c.gen = g → (c.resp = eval3 vals (.or c l r) ∧ c.resp ≠ .needMore)) ∧
      CacheOK g vals l ∧ CacheOK g vals r := by
  simp [CacheOK]
theorem genLE_cmp {g c neq l r} : GenLE g (.cmp c neq l r) ↔ c.gen ≤ g := by simp [GenLE]
theorem genLE_and {g c l r} : GenLE g (.and c l r) ↔ c.gen ≤ g ∧ GenLE g l ∧ GenLE g r := by simp [GenLE]
theorem genLE_or {g c l r} : GenLE g (.or c l r) ↔ c.gen ≤ g ∧ GenLE g l ∧ GenLE g r := by simp [GenLE]

/-- **`Update()` computes `eval3`**, keeps the shape, and keeps the caches sound. -/
theorem update_spec (g : Nat) (vals : List (Option Bytes)) (n : PNode)
    (hwf : WFn vals.length n) (hc : CacheOK g vals n) (hg : GenLE g n) :
    ∃ n', update g vals n = some (eval3 vals n, n') ∧ strip n' = strip n ∧
      CacheOK g vals n' ∧ GenLE g n' := by
  induction n with
  | cmp c neq l r =>
    unfold update
    by_cases hcg : c.gen = g
    · have := cacheOK_cmp.1 hc hcg
      exact ⟨_, by simp [hcg, this.1], rfl, hc, hg⟩
    · simp only [hcg, if_false]
      obtain ⟨lx, hl1, hl2⟩ := operandVal_of_WF vals l hwf.1
      obtain ⟨rx, hr1, hr2⟩ := operandVal_of_WF vals r hwf.2
      rw [hl1]
      cases lx with
      | none =>
        refine ⟨.cmp c neq l r, ?_, rfl, hc, hg⟩
        simp [eval3, hl2]
      | some lv =>
        simp only
        rw [hr1]
        cases rx with
        | none =>
          refine ⟨.cmp c neq l r, ?_, rfl, hc, hg⟩
          simp [eval3, hl2, hr2]
        | some rv =>
          refine ⟨.cmp ⟨g, respOfBool (evalCmp neq lv rv)⟩ neq l r, ?_, rfl, ?_, ?_⟩
          · simp [eval3, hl2, hr2]
          · refine cacheOK_cmp.2 (fun _ => ?_)
            simp only [eval3, hl2, hr2, true_and]
            unfold respOfBool; split <;> simp
          · exact genLE_cmp.2 (Nat.le_refl g)
  | and c l r ihl ihr =>
    obtain ⟨hwl, hwr⟩ := hwf
    obtain ⟨hcc, hcl, hcr⟩ := cacheOK_and.1 hc
    obtain ⟨hgc, hgl, hgr⟩ := genLE_and.1 hg
    unfold update
    by_cases hcg : c.gen = g
    · have := hcc hcg
      exact ⟨_, by simp [hcg, this.1], rfl, hc, hg⟩
    · simp only [hcg, if_false]
      obtain ⟨l', hul, hsl, hcl', hgl'⟩ := ihl hwl hcl hgl
      rw [hul]
      have hel : eval3 vals l' = eval3 vals l := eval3_congr hsl vals
      cases hl : eval3 vals l with
      | false_ =>
        refine ⟨.and ⟨g, .false_⟩ l' r, ?_, ?_, cacheOK_and.2 ⟨?_, hcl', hcr⟩, genLE_and.2 ⟨Nat.le_refl g, hgl', hgr⟩⟩
        · simp [eval3, hl]
        · simp [strip, hsl]
        · intro _; simp [eval3, hel, hl]
      | needMore =>
        refine ⟨.and c l' r, ?_, ?_, cacheOK_and.2 ⟨?_, hcl', hcr⟩, genLE_and.2 ⟨hgc, hgl', hgr⟩⟩
        · simp [eval3, hl]
        · simp [strip, hsl]
        · intro h; exact absurd h hcg
      | true_ =>
        simp only
        obtain ⟨r', hur, hsr, hcr', hgr'⟩ := ihr hwr hcr hgr
        rw [hur]
        have her : eval3 vals r' = eval3 vals r := eval3_congr hsr vals
        cases hr : eval3 vals r with
        | false_ =>
          refine ⟨.and ⟨g, .false_⟩ l' r', ?_, ?_, cacheOK_and.2 ⟨?_, hcl', hcr'⟩, genLE_and.2 ⟨Nat.le_refl g, hgl', hgr'⟩⟩
          · simp [eval3, hl, hr]
          · simp [strip, hsl, hsr]
          · intro _; simp [eval3, hel, hl, her, hr]
        | needMore =>
          refine ⟨.and c l' r', ?_, ?_, cacheOK_and.2 ⟨?_, hcl', hcr'⟩, genLE_and.2 ⟨hgc, hgl', hgr'⟩⟩
          · simp [eval3, hl, hr]
          · simp [strip, hsl, hsr]
          · intro h; exact absurd h hcg
        | true_ =>
          refine ⟨.and c l' r', ?_, ?_, cacheOK_and.2 ⟨?_, hcl', hcr'⟩, genLE_and.2 ⟨hgc, hgl', hgr'⟩⟩
          · simp [eval3, hl, hr]
          · simp [strip, hsl, hsr]
          · intro h; exact absurd h hcg
  | or c l r ihl ihr =>
    obtain ⟨hwl, hwr⟩ := hwf
    obtain ⟨hcc, hcl, hcr⟩ := cacheOK_or.1 hc
    obtain ⟨hgc, hgl, hgr⟩ := genLE_or.1 hg
    unfold update
    by_cases hcg : c.gen = g
    · have := hcc hcg
      exact ⟨_, by simp [hcg, this.1], rfl, hc, hg⟩
    · simp only [hcg, if_false]
      obtain ⟨l', hul, hsl, hcl', hgl'⟩ := ihl hwl hcl hgl
      rw [hul]
      have hel : eval3 vals l' = eval3 vals l := eval3_congr hsl vals
      obtain ⟨r', hur, hsr, hcr', hgr'⟩ := ihr hwr hcr hgr
      have her : eval3 vals r' = eval3 vals r := eval3_congr hsr vals
      cases hl : eval3 vals l with
      | true_ =>
        refine ⟨.or ⟨g, .true_⟩ l' r, ?_, ?_, cacheOK_or.2 ⟨?_, hcl', hcr⟩, genLE_or.2 ⟨Nat.le_refl g, hgl', hgr⟩⟩
        · simp [eval3, hl]
        · simp [strip, hsl]
        · intro _; simp [eval3, hel, hl]
      | false_ =>
        simp only
        rw [hur]
        cases hr : eval3 vals r with
        | true_ =>
          refine ⟨.or ⟨g, .true_⟩ l' r', ?_, ?_, cacheOK_or.2 ⟨?_, hcl', hcr'⟩, genLE_or.2 ⟨Nat.le_refl g, hgl', hgr'⟩⟩
          · simp [eval3, hl, hr]
          · simp [strip, hsl, hsr]
          · intro _; simp [eval3, hel, hl, her, hr]
        | false_ =>
          refine ⟨.or ⟨g, .false_⟩ l' r', ?_, ?_, cacheOK_or.2 ⟨?_, hcl', hcr'⟩, genLE_or.2 ⟨Nat.le_refl g, hgl', hgr'⟩⟩
          · simp [eval3, hl, hr]
          · simp [strip, hsl, hsr]
          · intro _; simp [eval3, hel, hl, her, hr]
        | needMore =>
          refine ⟨.or c l' r', ?_, ?_, cacheOK_or.2 ⟨?_, hcl', hcr'⟩, genLE_or.2 ⟨hgc, hgl', hgr'⟩⟩
          · simp [eval3, hl, hr]
          · simp [strip, hsl, hsr]
          · intro h; exact absurd h hcg
      | needMore =>
        simp only
        rw [hur]
        cases hr : eval3 vals r with
        | true_ =>
          refine ⟨.or ⟨g, .true_⟩ l' r', ?_, ?_, cacheOK_or.2 ⟨?_, hcl', hcr'⟩, genLE_or.2 ⟨Nat.le_refl g, hgl', hgr'⟩⟩
          · simp [eval3, hl, hr]
          · simp [strip, hsl, hsr]
          · intro _; simp [eval3, hel, hl, her, hr]
        | false_ =>
          refine ⟨.or c l' r', ?_, ?_, cacheOK_or.2 ⟨?_, hcl', hcr'⟩, genLE_or.2 ⟨hgc, hgl', hgr'⟩⟩
          · simp [eval3, hl, hr]
          · simp [strip, hsl, hsr]
          · intro h; exact absurd h hcg
        | needMore =>
          refine ⟨.or c l' r', ?_, ?_, cacheOK_or.2 ⟨?_, hcl', hcr'⟩, genLE_or.2 ⟨hgc, hgl', hgr'⟩⟩
          · simp [eval3, hl, hr]
          · simp [strip, hsl, hsr]
          · intro h; exact absurd h hcg

end Influx.Model.DelPred
