/-
  Lemmas.C13Ops — the partition operations keep `PInv2`.
-/
import Influx.Lemmas.C13Steps

namespace Influx.SF
open Part

variable {p : Part} {es : List Entry}

theorem replay_congr : ∀ (l : List Entry) (a b : Part), a.memKeyID = b.memKeyID → a.memIDOff = b.memIDOff →
    a.tomb = b.tomb → a.maxOffset = b.maxOffset →
    (replay a l).memKeyID = (replay b l).memKeyID ∧ (replay a l).memIDOff = (replay b l).memIDOff ∧
    (replay a l).tomb = (replay b l).tomb ∧ (replay a l).maxOffset = (replay b l).maxOffset
  | [], _, _, h1, h2, h3, h4 => ⟨h1, h2, h3, h4⟩
  | x :: l, a, b, h1, h2, h3, h4 => by
    obtain ⟨g1, g2, g3, g4⟩ := execEntry_congr a b x h1 h2 h3 h4
    exact replay_congr l _ _ g1 g2 g3 g4

theorem maxSeriesID_mem (es : List Entry) :
    SF.maxSeriesID es = 0 ∨ ∃ e ∈ es, e.flag = insertFlag ∧ e.id = SF.maxSeriesID es := by
  suffices h : ∀ (l : List Entry) (m : Nat),
      l.foldl (fun m e => if e.flag = insertFlag ∧ e.id > m then e.id else m) m = m ∨
      ∃ e ∈ l, e.flag = insertFlag ∧ e.id = l.foldl (fun m e => if e.flag = insertFlag ∧ e.id > m then e.id else m) m by
    exact h es 0
  intro l
  induction l with
  | nil => intro m; exact Or.inl rfl
  | cons x xs ih =>
    intro m
    simp only [List.foldl_cons]
    rcases ih (if x.flag = insertFlag ∧ x.id > m then x.id else m) with h | ⟨e, he, hf, hid⟩
    · rw [h]
      by_cases hc : x.flag = insertFlag ∧ x.id > m
      · right; exact ⟨x, by simp, hc.1, by simp [hc]⟩
      · left; simp [hc]
    · right; exact ⟨e, by simp [he], hf, hid⟩

theorem seq_gt_max (h : PInv2 p es) : SF.maxSeriesID es < p.seq ∧ p.pid + 1 ≤ p.seq := by
  have hs := h.seqEq
  unfold nextSeq at hs
  constructor
  · rcases maxSeriesID_mem es with h0 | ⟨e, he, hf, hid⟩
    · rw [h0]; split at hs <;> omega
    · rw [← hid]; exact (h.idPos e he hf).2.1
  · simp only [partN] at hs; split at hs <;> omega

theorem off_lt_length (h : PInv p es) : ∀ e ∈ es, e.off + e.size ≤ p.file.length := by
  intro e he
  obtain ⟨pre, rest, hs, hp⟩ := Chain.split hdrSize es h.chain e he
  have hw := Chain.wf_of_mem _ _ h.chain e he
  rw [h.file, fileOf_length, hs]
  simp [Entry.bytes_length hw]
  omega

/-! ### create -/

theorem createOne_live (h : PInv2 p es) {e : Entry} (hl : Live es e) : p.createOne e.key = (p, e.id) := by
  unfold Part.createOne
  have := findID_live h.toPInv hl
  have hpos := (h.idPos e hl.1 hl.2.1).1
  have hne : e.id ≠ 0 := by omega
  simp only [this, ne_eq, hne, not_false_eq_true, if_true]

/-- the insert entry `createOne` appends for a new key -/
def newEntry (p : Part) (key : Bytes) : Entry := ⟨insertFlag, p.seq, key, p.file.length⟩

/-- the partition after the append, before `index.Insert` -/
def appended (p : Part) (flag id : Nat) (key : Bytes) (seq' : Nat) : Part :=
  { p with file := p.file ++ entryBytes flag id key, seq := seq' }

theorem createOne_eq (p : Part) (key : Bytes) (hfind : p.findID key = 0) :
    p.createOne key = ((appended p insertFlag p.seq key (p.seq + partN)).execEntry (newEntry p key), p.seq) := by
  unfold Part.createOne
  simp only [hfind, ne_eq, not_true_eq_false, if_false, Part.append]
  rfl

theorem createOne_new (h : PInv2 p es) (key : Bytes) (hk : shortKey key)
    (hno : ∀ e, Live es e → e.key ≠ key) (hseq : p.seq < 2 ^ 64) :
    (p.createOne key).2 = p.seq ∧ PInv2 (p.createOne key).1 (es ++ [newEntry p key]) ∧
      (p.createOne key).1.seq = p.seq + partN ∧ (p.createOne key).1.pid = p.pid ∧
      (p.createOne key).1.threshold = p.threshold := by
  have hfind := findID_none h.toPInv key hno
  obtain ⟨hmax, hpidle⟩ := seq_gt_max h
  rw [createOne_eq p key hfind]
  have hwf : (newEntry p key).wf := ⟨hseq, Or.inl ⟨rfl, hk⟩⟩
  have hmem := execEntry_congr (appended p insertFlag p.seq key (p.seq + partN)) p (newEntry p key) rfl rfl rfl rfl
  refine ⟨rfl, ?_, by rw [execEntry_seq]; rfl, by rw [execEntry_pid]; rfl, by rw [execEntry_threshold]; rfl⟩
  have hinv : PInv ((appended p insertFlag p.seq key (p.seq + partN)).execEntry (newEntry p key))
      (es ++ [newEntry p key]) := by
    apply h.toPInv.snoc (newEntry p key) _ hwf rfl h.boundLt
    · rw [execEntry_file]; rfl
    · rw [execEntry_idxFile]; rfl
    · rw [execEntry_pid]; rfl
    · exact hmem.1
    · exact hmem.2.1
    · exact hmem.2.2.1
    · exact hmem.2.2.2
    · intro x hx hfx
      rw [execEntry_seq, execEntry_pid]
      show 0 < x.id ∧ x.id < p.seq + partN ∧ x.id % partN = (p.pid + 1) % partN
      rcases List.mem_append.mp hx with h1 | h1
      · obtain ⟨a, b, c⟩ := h.idPos x h1 hfx
        exact ⟨a, by simp only [partN]; omega, c⟩
      · have : x = newEntry p key := by simpa using h1
        subst this
        refine ⟨?_, ?_, h.seqMod⟩
        · show 0 < p.seq; omega
        · show p.seq < p.seq + partN; simp [partN]
    · intro x hx hfx _
      exact (h.idPos x hx hfx).2.1
    · rw [execEntry_seq, execEntry_pid]
      show (p.seq + partN) % partN = (p.pid + 1) % partN
      have := h.seqMod
      simp only [partN] at this ⊢
      omega
    · intro x hx hfx _ hkx
      apply Classical.byContradiction
      intro hnt
      exact hno x ⟨hx, hfx, hnt⟩ hkx
    · intro hf; exact absurd rfl hf
  refine ⟨hinv, ?_, ?_⟩
  · rw [execEntry_seq, execEntry_pid]
    show p.seq + partN = nextSeq p.pid (es ++ [newEntry p key])
    unfold nextSeq
    rw [maxSeriesID_snoc]
    have : (newEntry p key).flag = insertFlag ∧ (newEntry p key).id > SF.maxSeriesID es := ⟨rfl, hmax⟩
    simp only [this, and_self, if_true]
    show p.seq + partN = if p.seq ≥ p.pid + 1 then p.seq + partN else p.pid + 1
    simp [hpidle]
  · rw [execEntry_file]
    have : ((appended p insertFlag p.seq key (p.seq + partN)).execEntry (newEntry p key)).bound = p.bound := by
      simp [Part.bound, execEntry_idxFile, appended]
    rw [this]
    show p.bound < (p.file ++ entryBytes insertFlag p.seq key).length
    have := h.boundLt
    simp only [List.length_append]
    omega

/-! ### delete -/

/-- the tombstone entry `DeleteSeriesID` appends -/
def tombEntry (p : Part) (id : Nat) : Entry := ⟨tombstoneFlag, id, [], p.file.length⟩

theorem delete_noop {id : Nat} (hd : p.isDeleted id = true) : p.delete id = p := by
  unfold Part.delete; simp [hd]

theorem delete_eq (p : Part) (id : Nat) (hd : p.isDeleted id = false) :
    p.delete id = (appended p tombstoneFlag id [] p.seq).execEntry (tombEntry p id) := by
  unfold Part.delete
  simp only [hd, Bool.false_eq_true, if_false, Part.append]
  rfl

theorem delete_live (h : PInv2 p es) (id : Nat) (hd : p.isDeleted id = false) (hseq : p.seq < 2 ^ 64) :
    PInv2 (p.delete id) (es ++ [tombEntry p id]) ∧ (p.delete id).seq = p.seq ∧
      (p.delete id).pid = p.pid ∧ (p.delete id).threshold = p.threshold := by
  obtain ⟨hnt, e0, he0, hf0, hid0⟩ := (isDeleted_false_iff h.toPInv id).mp hd
  rw [delete_eq p id hd]
  have hidlt : id < 2 ^ 64 := by
    have := (h.idPos e0 he0 hf0).2.1; omega
  have hwf : (tombEntry p id).wf := ⟨hidlt, Or.inr ⟨rfl, rfl⟩⟩
  have hflag : (tombEntry p id).flag ≠ insertFlag := by simp [tombEntry, tombstoneFlag, insertFlag]
  have hmem := execEntry_congr (appended p tombstoneFlag id [] p.seq) p (tombEntry p id) rfl rfl rfl rfl
  refine ⟨⟨?_, ?_, ?_⟩, by rw [execEntry_seq]; rfl, by rw [execEntry_pid]; rfl, by rw [execEntry_threshold]; rfl⟩
  · apply h.toPInv.snoc (tombEntry p id) _ hwf rfl h.boundLt
    · rw [execEntry_file]; rfl
    · rw [execEntry_idxFile]; rfl
    · rw [execEntry_pid]; rfl
    · exact hmem.1
    · exact hmem.2.1
    · exact hmem.2.2.1
    · exact hmem.2.2.2
    · intro x hx hfx
      rw [execEntry_seq, execEntry_pid]
      rcases List.mem_append.mp hx with h1 | h1
      · exact h.idPos x h1 hfx
      · have : x = tombEntry p id := by simpa using h1
        subst this; exact absurd hfx hflag
    · intro x _ _ hfe; exact absurd hfe hflag
    · rw [execEntry_seq, execEntry_pid]; exact h.seqMod
    · intro x _ _ hfe; exact absurd hfe hflag
    · intro _; exact ⟨e0, he0, hf0, hid0⟩
  · rw [execEntry_seq, execEntry_pid]
    show p.seq = nextSeq p.pid (es ++ [tombEntry p id])
    unfold nextSeq
    rw [maxSeriesID_snoc]
    have : ¬ ((tombEntry p id).flag = insertFlag ∧ (tombEntry p id).id > SF.maxSeriesID es) :=
      fun hh => hflag hh.1
    simp only [this, if_false]
    exact h.seqEq
  · rw [execEntry_file]
    have : ((appended p tombstoneFlag id [] p.seq).execEntry (tombEntry p id)).bound = p.bound := by
      simp [Part.bound, execEntry_idxFile, appended]
    rw [this]
    show p.bound < (p.file ++ entryBytes tombstoneFlag id []).length
    have := h.boundLt
    simp only [List.length_append]
    omega

end Influx.SF
