/-
  Lemmas.C36RadixDel — `DeletePrefix` removes exactly the pairs whose key has the prefix, and
  returns their number.
-/
import Influx.Lemmas.C36RadixLK

namespace Influx.Radix

/-- `p` is a prefix of `k` -/
def pfx (p k : Key) : Bool := (stripPrefix k p).isSome

theorem pfx_nil (k : Key) : pfx [] k = true := by cases k <;> simp [pfx, stripPrefix]

theorem pfx_cons_cons (a b : Nat) (p k : Key) : pfx (a :: p) (b :: k) = (decide (b = a) && pfx p k) := by
  simp only [pfx, stripPrefix]
  by_cases h : b = a <;> simp [h]

theorem pfx_cons_nil (a : Nat) (p : Key) : pfx (a :: p) [] = false := by simp [pfx, stripPrefix]

theorem pfx_append_same : ∀ (a x k : Key), pfx (a ++ x) (a ++ k) = pfx x k
  | [], _, _ => rfl
  | c :: cs, x, k => by simp [pfx_cons_cons, pfx_append_same cs x k]

/-- `p` is a prefix of `a`: every extension of `a` has the prefix `p` -/
theorem pfx_of_strip : ∀ (a p rem k : Key), stripPrefix a p = some rem → pfx p (a ++ k) = true
  | a, [], _, k, _ => pfx_nil _
  | [], _ :: _, _, _, h => by simp [stripPrefix] at h
  | c :: cs, d :: ds, rem, k, h => by
    simp only [stripPrefix] at h
    by_cases hcd : c = d
    · simp only [hcd, if_true] at h
      simp [pfx_cons_cons, hcd, pfx_of_strip cs ds rem k h]
    · simp [hcd] at h

/-- neither is a prefix of the other: no extension of `a` has the prefix `p` -/
theorem pfx_incompatible : ∀ (a p k : Key), stripPrefix a p = none → stripPrefix p a = none →
    pfx p (a ++ k) = false
  | _, [], _, h, _ => by cases ‹Key› <;> simp [stripPrefix] at h
  | [], _ :: _, _, _, h => by simp [stripPrefix] at h
  | c :: cs, d :: ds, k, h1, h2 => by
    simp only [stripPrefix] at h1 h2
    by_cases hcd : c = d
    · simp only [hcd, if_true] at h1 h2
      simp [pfx_cons_cons, hcd, pfx_incompatible cs ds k h1 h2]
    · simp [pfx_cons_cons, hcd]

def keep (p : Key) : KV → Bool := fun q => !pfx p q.1

theorem filter_map_prefix (a x : Key) (l : List KV) :
    (l.map fun q => (a ++ q.1, q.2)).filter (keep (a ++ x)) = (l.filter (keep x)).map fun q => (a ++ q.1, q.2) := by
  induction l with
  | nil => rfl
  | cons q qs ih =>
    have hk : keep (a ++ x) (a ++ q.1, q.2) = keep x q := by simp [keep, pfx_append_same]
    rw [List.map_cons, List.filter_cons, List.filter_cons, hk, ih]
    by_cases h : keep x q = true
    · simp [h]
    · simp [h]

theorem filter_all_removed (p : Key) (l : List KV) (h : ∀ q ∈ l, pfx p q.1 = true) : l.filter (keep p) = [] := by
  rw [List.filter_eq_nil_iff]
  intro q hq
  simp [keep, h q hq]

theorem filter_none_removed (p : Key) (l : List KV) (h : ∀ q ∈ l, pfx p q.1 = false) : l.filter (keep p) = l := by
  rw [List.filter_eq_self]
  intro q hq
  simp [keep, h q hq]

mutual
theorem Node.walk_len : ∀ (n : Node), (Node.walk n).length = (Node.rel n).length
  | .mk leaf pre edges => by
    have := Edges.walk_len edges
    cases leaf <;> simp [Node.walk, Node.rel, this]
theorem Edges.walk_len : ∀ (es : Edges), (Edges.walk es).length = (Edges.rel es).length
  | .nil => rfl
  | .cons l c r => by simp [Edges.walk, Edges.rel, Node.walk_len c, Edges.walk_len r]
end

/-- the emptied node `deletePrefix` leaves behind -/
theorem cleared_facts (pre : Key) : Node.SW (.mk none pre .nil) ∧ Node.rel (.mk none pre .nil) = [] ∧
    ∀ path, Node.LK path (.mk none pre .nil) := by
  refine ⟨by simp [Node.SW, Edges.SW], by simp [Node.rel, Edges.rel], fun path => ⟨fun l hl => (by cases hl), trivial⟩⟩

theorem mergeChild_facts (pre : Key) (l : Nat) (cpre : Key) (r : Edges) :
    Node.rel (mergeChild (.mk none pre (.cons l (.mk none cpre .nil) r))) = [] ∧
    Node.SW (mergeChild (.mk none pre (.cons l (.mk none cpre .nil) r))) ∧
    (mergeChild (.mk none pre (.cons l (.mk none cpre .nil) r))).pre = pre ++ cpre ∧
    ∀ path, Node.LK path (mergeChild (.mk none pre (.cons l (.mk none cpre .nil) r))) := by
  simp only [mergeChild, Node.leaf, Node.pre, Node.edges]
  exact ⟨by simp [Node.rel, Edges.rel], by simp [Node.SW, Edges.SW], trivial,
    fun path => ⟨fun l hl => (by cases hl), trivial⟩⟩

/-- what one level of `deletePrefix` returns -/
structure DelOK (p : Key) (es : Edges) (d : DelRes) : Prop where
  sw : Edges.SW d.edges
  labels : Edges.labels d.edges = Edges.labels es
  rel : Edges.rel d.edges = (Edges.rel es).filter (keep p)
  count : d.count + (Edges.rel d.edges).length = (Edges.rel es).length
  len : d.edges.length = es.length
  lk : ∀ path, Edges.LK path es → Edges.LK path d.edges
  /-- `cleared` only when the child at the head of the matching edge was emptied -/
  cleared : d.cleared = true → ∀ l c r, d.edges = .cons l c r → r = .nil → Node.rel c = [] ∧
    ∃ cpre, c = .mk none cpre .nil

end Influx.Radix

namespace Influx.Radix

theorem Edges.length_pos_of_labels : ∀ (es : Edges), Edges.length es = (Edges.labels es).length
  | .nil => rfl
  | .cons _ _ r => by simp [Edges.length, Edges.labels, Edges.length_pos_of_labels r]

theorem keep_other_label (c : Nat) (rest : Key) (l : Nat) (t k : Key) (h : l ≠ c) :
    pfx (c :: rest) (l :: t ++ k) = false := by
  simp [pfx_cons_cons, h]

theorem rel_filter_mk (leaf : Option Leaf) (pre : Key) (edges : Edges) (c : Nat) (rest : Key) :
    (Node.rel (.mk leaf pre edges)).filter (keep (c :: rest)) =
      (match leaf with | some l => [([], l.val)] | none => []) ++ (Edges.rel edges).filter (keep (c :: rest)) := by
  cases leaf with
  | none => simp [Node.rel]
  | some l => simp [Node.rel, List.filter_cons, keep, pfx_cons_nil]

mutual
theorem Node.del_spec : ∀ (n : Node) (isRoot : Bool) (c : Nat) (rest : Key), Node.SW n →
    Node.SW (Node.del n isRoot (c :: rest)).1 ∧
    Node.rel (Node.del n isRoot (c :: rest)).1 = (Node.rel n).filter (keep (c :: rest)) ∧
    (Node.del n isRoot (c :: rest)).2 + (Node.rel (Node.del n isRoot (c :: rest)).1).length = (Node.rel n).length ∧
    (∀ l t, n.pre = l :: t → ∃ t', (Node.del n isRoot (c :: rest)).1.pre = l :: t') ∧
    (Node.rel (Node.del n isRoot (c :: rest)).1 ≠ [] → (Node.del n isRoot (c :: rest)).1.pre = n.pre) ∧
    (isRoot = true → (Node.del n isRoot (c :: rest)).1.pre = n.pre) ∧
    (∀ P, Node.LK P n → Node.LK P (Node.del n isRoot (c :: rest)).1) ∧
    ((Node.del n isRoot (c :: rest)).1.pre ≠ n.pre → ∀ P, Node.LK P (Node.del n isRoot (c :: rest)).1)
  | .mk leaf pre edges, isRoot, c, rest, hsw => by
    have hE := Edges.del_spec edges c rest hsw
    cases hd : Edges.del edges c (c :: rest) with
    | none =>
      rw [hd] at hE
      have hres : Node.del (.mk leaf pre edges) isRoot (c :: rest) = (.mk leaf pre edges, 0) := by
        simp only [Node.del, hd]
      rw [hres]
      refine ⟨hsw, ?_, by simp, fun l t h => ⟨t, h⟩, fun _ => rfl, fun _ => rfl, fun P h => h, fun h => absurd rfl h⟩
      rw [rel_filter_mk, hE]
      cases leaf <;> simp [Node.rel]
    | some d =>
      rw [hd] at hE
      by_cases hm : (d.cleared && !isRoot && d.edges.length == 1 && leaf.isNone) = true
      · -- the parent of the emptied node is merged with it
        have hres : Node.del (.mk leaf pre edges) isRoot (c :: rest) = (mergeChild (.mk leaf pre d.edges), d.count) := by
          simp only [Node.del, hd, hm, if_true]
        simp only [Bool.and_eq_true, Bool.not_eq_true', beq_iff_eq] at hm
        obtain ⟨⟨⟨hcl, hnr⟩, hlen⟩, hleaf⟩ := hm
        have hleafn : leaf = none := by cases leaf <;> simp_all
        subst hleafn
        -- the single edge left leads to the emptied node
        cases hde : d.edges with
        | nil => rw [hde] at hlen; simp [Edges.length] at hlen
        | cons l1 c1 r1 =>
          have hr1 : r1 = .nil := by
            rw [hde] at hlen
            cases r1 with
            | nil => rfl
            | cons _ _ _ => simp [Edges.length] at hlen
          obtain ⟨hrelc, cpre, hc1⟩ := hE.cleared hcl l1 c1 r1 hde hr1
          subst hr1; subst hc1
          obtain ⟨m1, m2, m3, m4⟩ := mergeChild_facts pre l1 cpre .nil
          rw [hres, hde]
          have hrel0 : Edges.rel d.edges = [] := by
            rw [hde]; simp [Edges.rel, hrelc]
          have hfil : (Edges.rel edges).filter (keep (c :: rest)) = [] := by rw [← hE.rel, hrel0]
          refine ⟨m2, ?_, ?_, ?_, fun h => absurd m1 h, ?_, fun P _ => m4 P, fun _ P => m4 P⟩
          · rw [m1, rel_filter_mk, hfil]; rfl
          · rw [m1]
            have := hE.count
            rw [hrel0] at this
            simpa [Node.rel] using this
          · intro l t hlt
            rw [m3]
            simp only [Node.pre] at hlt
            exact ⟨t ++ cpre, by rw [hlt]; rfl⟩
          · intro h; rw [hnr] at h; cases h
      · have hres : Node.del (.mk leaf pre edges) isRoot (c :: rest) = (.mk leaf pre d.edges, d.count) := by
          simp only [Node.del, hd, hm]
          simp
        rw [hres]
        refine ⟨hE.sw, ?_, ?_, fun l t h => ⟨t, h⟩, fun _ => rfl, fun _ => rfl, ?_, fun h => absurd rfl h⟩
        · rw [rel_filter_mk, ← hE.rel]
          cases leaf <;> simp [Node.rel]
        · have := hE.count
          cases leaf <;> simp [Node.rel] <;> omega
        · intro P hlk
          exact ⟨hlk.1, hE.lk P hlk.2⟩
theorem Edges.del_spec : ∀ (es : Edges) (c : Nat) (rest : Key), Edges.SW es →
    match Edges.del es c (c :: rest) with
    | none => (Edges.rel es).filter (keep (c :: rest)) = Edges.rel es
    | some d => DelOK (c :: rest) es d
  | .nil, c, rest, _ => by simp [Edges.del, Edges.rel]
  | .cons l child r, c, rest, hsw => by
    obtain ⟨⟨t, ht⟩, hc, hr, hlt⟩ := hsw
    by_cases hlc : l = c
    · subst hlc
      -- the other edges are untouched: their keys start with larger labels
      have hrkeep : (Edges.rel r).filter (keep (l :: rest)) = Edges.rel r := by
        apply filter_none_removed
        intro q hq
        obtain ⟨l', hl', t', ht'⟩ := Edges.rel_head r hr q hq
        rw [ht']
        have := hlt l' hl'
        simp [pfx_cons_cons]; omega
      have hcleared : ∀ (hall : ∀ q ∈ Node.rel child, pfx (l :: rest) (child.pre ++ q.1) = true),
          DelOK (l :: rest) (.cons l child r) ⟨.cons l (.mk none child.pre .nil) r, (Node.walk child).length, true⟩ := by
        intro hall
        obtain ⟨f1, f2, f3⟩ := cleared_facts child.pre
        refine ⟨⟨⟨t, ht⟩, f1, hr, hlt⟩, rfl, ?_, ?_, rfl, ?_, ?_⟩
        · simp only [Edges.rel, f2, List.map_nil, List.nil_append, List.filter_append, hrkeep]
          rw [filter_all_removed]
          · rfl
          · intro q hq
            obtain ⟨q', hq', rfl⟩ := List.mem_map.mp hq
            exact hall q' hq'
        · simp [Edges.rel, f2, Node.walk_len]
        · intro path hlk
          exact ⟨f3 _, hlk.2⟩
        · intro _ l1 c1 r1 he _
          cases he
          exact ⟨f2, child.pre, rfl⟩
      cases h1 : stripPrefix child.pre (l :: rest) with
      | some rem1 =>
        cases rem1 with
        | cons a as =>
          have hres : Edges.del (.cons l child r) l (l :: rest) =
              some ⟨.cons l (.mk none child.pre .nil) r, (Node.walk child).length, true⟩ := by
            simp only [Edges.del, if_true, h1]
          rw [hres]
          exact hcleared (fun q _ => pfx_of_strip _ _ _ q.1 h1)
        | nil =>
          -- child.pre = the prefix exactly
          have heq : child.pre = l :: rest := by
            have := (stripPrefix_some _ _ _).mp h1; simpa using this
          have h2 : stripPrefix (l :: rest) child.pre = some [] := by
            rw [heq]; exact (stripPrefix_some _ _ _).mpr (by simp)
          have hres : Edges.del (.cons l child r) l (l :: rest) =
              some ⟨.cons l (.mk none child.pre .nil) r, (Node.walk child).length, true⟩ := by
            simp only [Edges.del, if_true, h1, h2]
          rw [hres]
          exact hcleared (fun q _ => pfx_of_strip _ _ _ q.1 h1)
      | none =>
        cases h2 : stripPrefix (l :: rest) child.pre with
        | none =>
          have hres : Edges.del (.cons l child r) l (l :: rest) = none := by
            simp only [Edges.del, if_true, h1, h2]
          rw [hres]
          simp only [Edges.rel, List.filter_append, hrkeep]
          rw [filter_none_removed]
          intro q hq
          obtain ⟨q', _, rfl⟩ := List.mem_map.mp hq
          exact pfx_incompatible _ _ _ h1 h2
        | some rem2 =>
          cases rem2 with
          | nil =>
            -- impossible: equal strings are prefixes of each other
            have := (stripPrefix_some _ _ _).mp h2
            have : child.pre = l :: rest := by simpa using this.symm
            rw [this] at h1
            have := (stripPrefix_some (l :: rest) (l :: rest) []).mpr (by simp)
            rw [this] at h1; cases h1
          | cons x xs =>
            have hsplit : l :: rest = child.pre ++ x :: xs := (stripPrefix_some _ _ _).mp h2
            obtain ⟨g1, g2, g3, g4, g5, _, g7, g8⟩ := Node.del_spec child false x xs hc
            have hres : Edges.del (.cons l child r) l (l :: rest) =
                some ⟨.cons l (Node.del child false (x :: xs)).1 r, (Node.del child false (x :: xs)).2, false⟩ := by
              simp only [Edges.del, if_true, h1, h2]
            rw [hres]
            have hblock : ((Node.rel (Node.del child false (x :: xs)).1).map
                fun q => ((Node.del child false (x :: xs)).1.pre ++ q.1, q.2)) =
                ((Node.rel child).map fun q => (child.pre ++ q.1, q.2)).filter (keep (l :: rest)) := by
              rw [hsplit, filter_map_prefix, ← g2]
              by_cases hne : Node.rel (Node.del child false (x :: xs)).1 = []
              · simp [hne]
              · rw [g5 hne]
            refine ⟨⟨g4 l t ht, g1, hr, hlt⟩, rfl, ?_, ?_, rfl, ?_, fun h => (by cases h)⟩
            · simp only [Edges.rel, List.filter_append, hrkeep, hblock]
            · simp only [Edges.rel, List.length_append, List.length_map]
              omega
            · intro path hlk
              refine ⟨?_, hlk.2⟩
              by_cases hpe : (Node.del child false (x :: xs)).1.pre = child.pre
              · rw [hpe]; exact g7 _ hlk.1
              · exact g8 hpe _
    · -- another label
      have hhere : ((Node.rel child).map fun q => (child.pre ++ q.1, q.2)).filter (keep (c :: rest)) =
          (Node.rel child).map fun q => (child.pre ++ q.1, q.2) := by
        apply filter_none_removed
        intro q hq
        obtain ⟨q', _, rfl⟩ := List.mem_map.mp hq
        simp only [ht]
        exact keep_other_label c rest l t q'.1 hlc
      have ih := Edges.del_spec r c rest hr
      cases hd : Edges.del r c (c :: rest) with
      | none =>
        rw [hd] at ih
        have hres : Edges.del (.cons l child r) c (c :: rest) = none := by
          simp only [Edges.del, hlc, if_false, hd]
        rw [hres]
        simp only [Edges.rel, List.filter_append, hhere, ih]
      | some d =>
        rw [hd] at ih
        have hres : Edges.del (.cons l child r) c (c :: rest) = some { d with edges := .cons l child d.edges } := by
          simp only [Edges.del, hlc, if_false, hd]
        rw [hres]
        refine ⟨⟨⟨t, ht⟩, hc, ih.sw, by rw [ih.labels]; exact hlt⟩, by simp [Edges.labels, ih.labels], ?_, ?_, by simp [Edges.length, ih.len], ?_, ?_⟩
        · simp only [Edges.rel, List.filter_append, hhere, ih.rel]
        · have := ih.count
          simp only [Edges.rel, List.length_append]
          omega
        · intro path hlk
          exact ⟨hlk.1, ih.lk path hlk.2⟩
        · intro _ l1 c1 r1 he hr1
          -- the matching edge lies further right, so the list has at least two edges
          cases he
          have := ih.len
          rw [hr1] at this
          cases r with
          | nil => simp [Edges.del] at hd
          | cons _ _ _ => simp [Edges.length] at this
end

end Influx.Radix
