/-
  Lemmas.WindowAggFolders — each accumulator (`countF … meanF`) computes the aggregate
  the statement (`Spec.C20.aggregate`) asks for; `drain` simulation between state machines.
-/
import Influx.Lemmas.WindowAggSpec

namespace Influx.WindowAgg
open Influx.Spec.C20
variable {α : Type}

theorem foldl_count (qs : List (Pt α)) (n : Nat) :
    qs.foldl (fun g q => (countF (α := α) o).add1 (some g) q) n = n + qs.length := by
  induction qs generalizing n with
  | nil => rfl
  | cons q qs ih =>
    have := ih (n + 1)
    simp only [countF] at this
    simp only [List.foldl_cons, List.length_cons, countF]; rw [this]; omega

theorem hF_count (o : Ops α) (s : Int) (p : Pt α) (qs : List (Pt α)) :
    aggregate o .count s (p :: qs) = some ((countF o).fin s (foldG (countF o) p qs)) := by
  simp only [aggregate, foldG]
  have : (countF o).add1 none p = 1 := rfl
  rw [this, foldl_count (o := o)]
  simp [countF, Nat.add_comm]

theorem hF_sum (o : Ops α) (s : Int) (p : Pt α) (qs : List (Pt α)) :
    aggregate o .sum s (p :: qs) = some ((sumF o).fin s (foldG (sumF o) p qs)) := by
  simp [aggregate, foldG, sumF]

theorem hF_min (o : Ops α) (s : Int) (p : Pt α) (qs : List (Pt α)) :
    aggregate o .min s (p :: qs) = some ((minF o).fin s (foldG (minF o) p qs)) := by
  simp [aggregate, foldG, minF]

theorem hF_max (o : Ops α) (s : Int) (p : Pt α) (qs : List (Pt α)) :
    aggregate o .max s (p :: qs) = some ((maxF o).fin s (foldG (maxF o) p qs)) := by
  simp [aggregate, foldG, maxF]

theorem foldl_mean (o : Ops α) (qs : List (Pt α)) (s0 : α) (n0 : Nat) :
    qs.foldl (fun g q => (meanF o).add1 (some g) q) (s0, n0) =
      (qs.foldl (fun a q => o.add a q.2) s0, n0 + qs.length) := by
  induction qs generalizing s0 n0 with
  | nil => rfl
  | cons q qs ih =>
    simp only [List.foldl_cons, List.length_cons, meanF]
    have := ih (o.add s0 q.2) (n0 + 1)
    simp only [meanF] at this
    rw [this]
    congr 1; omega

theorem hF_mean (o : Ops α) (s : Int) (p : Pt α) (qs : List (Pt α)) :
    aggregate o .mean s (p :: qs) = some ((meanF o).fin s (foldG (meanF o) p qs)) := by
  simp only [aggregate, foldG]
  have : (meanF o).add1 none p = (o.add o.zero p.2, 1) := rfl
  rw [this, foldl_mean]
  simp [meanF, Nat.add_comm]

/-- two state machines that step alike drain alike -/
theorem drain_sim {σ τ β : Type} (f : σ → Option (σ × List β)) (g : τ → Option (τ × List β)) (emb : τ → σ)
    (h : ∀ t, f (emb t) = (g t).map (fun r => (emb r.1, r.2))) :
    ∀ (fuel : Nat) (t : τ), drain f fuel (emb t) = drain g fuel t := by
  intro fuel
  induction fuel with
  | zero => intro t; rfl
  | succ n ih =>
    intro t
    simp only [drain, h t]
    cases g t with
    | none => rfl
    | some r => simp only [Option.map_some]; split <;> simp [ih]

end Influx.WindowAgg
