/-
  Lemmas.TsmSpecLookup2 — the checker's judgement of every index lookup on the model's
  answers, for an index freshly built from the written content.
-/
import Influx.Lemmas.TsmSpecLookup
import Influx.Lemmas.TsmSpecTime

namespace Influx.Tsm
open Influx.Spec.C08 Influx.Generated.TsmLayout

def isLookup : Op → Bool
  | .keycount | .keyat _ | .key _ | .seek _ | .contains _ | .entries _ | .typ _ | .keyrange
  | .containsvalue .. | .timerange | .overlapstime .. => true
  | _ => false

structure LCtx (c : List SKey) (kes : List KeyEntry) : Prop where
  rel : c.map toKE = kes
  sorted : c.Pairwise fun a b => klt a.key b.key = true
  ne : ∀ sk ∈ c, sk.blocks ≠ []
  nonempty : c ≠ []
  time : TimeOK c

structure SSt (sp : SS) (c : List SKey) : Prop where
  content : sp.content = some c
  abstain : sp.abstain = none
  opened : sp.opened = true
  reqs : sp.reqs = []
  pend : sp.pend = none

theorem present_true (sk : SKey) (h : sk.blocks ≠ []) : mayBeAbsent [] sk = false := by
  unfold mayBeAbsent spanOf
  cases hb : sk.blocks with
  | nil => exact absurd hb h
  | cons b bs =>
    have : (b :: bs).getLast? ≠ none := by simp
    obtain ⟨z, hz⟩ := Option.ne_none_iff_exists'.mp this
    simp [hz, fullyCovered, reqsFor, covers]

theorem gone_false (sk : SKey) : mustBeAbsent [] sk = false := by
  unfold mustBeAbsent
  cases spanOf sk with
  | none => rfl
  | some p => simp [reqsFor]

theorem LCtx.sortedKE {c : List SKey} {kes : List KeyEntry} (h : LCtx c kes) : SortedKE kes := by
  rw [← h.rel]
  unfold SortedKE
  rw [List.pairwise_map]
  exact h.sorted

theorem find_rel {c : List SKey} {kes : List KeyEntry} (h : LCtx c kes) (k : Key) :
    kes.find? (fun ke => ke.key = k) = (findKey c k).map toKE := by
  rw [← h.rel, List.find?_map]
  rfl

theorem search_rel {c : List SKey} {kes : List KeyEntry} (h : LCtx c kes) (k : Key) :
    search (mkIndex kes) k = (findKey c k).map toKE := by
  rw [search_eq_find (mkIndex_inv kes h.sortedKE)]
  exact find_rel h k

theorem findKey_mem {c : List SKey} {k : Key} {sk : SKey} (h : findKey c k = some sk) : sk ∈ c ∧ sk.key = k := by
  unfold findKey at h
  exact ⟨List.mem_of_find?_eq_some h, by simpa using List.find?_some h⟩

theorem entriesOf_ne (sk : SKey) (h : sk.blocks ≠ []) : Spec.C08.entriesOf sk ≠ [] := by
  unfold Spec.C08.entriesOf
  cases hb : sk.blocks with
  | nil => exact absurd hb h
  | cons b bs => simp

theorem getElem_rel {c : List SKey} {kes : List KeyEntry} (h : LCtx c kes) (n : Nat) :
    kes[n]? = (c[n]?).map toKE := by
  rw [← h.rel]; simp

theorem rank_rel {c : List SKey} {kes : List KeyEntry} (h : LCtx c kes) (k : Key) :
    rank kes k = (c.filter fun sk => klt sk.key k).length := by
  rw [← h.rel]
  unfold rank
  rw [List.filter_map, List.length_map]
  rfl

theorem find_any_blocks (bs : List SBlock) (t : Int) :
    ((bs.map (·.entry)).find? (fun x => entryContains x t)).isSome =
      bs.any (fun b => decide (b.minT ≤ t) && decide (t ≤ b.maxT)) := by
  induction bs with
  | nil => rfl
  | cons b bs ih =>
    simp only [List.map_cons, List.find?_cons, List.any_cons]
    by_cases hb : entryContains b.entry t = true
    · have : (decide (b.minT ≤ t) && decide (t ≤ b.maxT)) = true := by
        simp only [entryContains, SBlock.entry, Bool.and_eq_true, decide_eq_true_eq] at hb ⊢
        exact ⟨of_decide_eq_true hb.1, of_decide_eq_true hb.2⟩
      simp [hb, this]
    · have : (decide (b.minT ≤ t) && decide (t ≤ b.maxT)) = false := by
        cases hx : (decide (b.minT ≤ t) && decide (t ≤ b.maxT)) with
        | false => rfl
        | true =>
          exfalso; apply hb
          simp only [entryContains, SBlock.entry, Bool.and_eq_true, decide_eq_true_eq] at hx ⊢
          exact ⟨decide_eq_true hx.1, decide_eq_true hx.2⟩
      simp only [hb, this, Bool.false_or]
      exact ih

/-- the model does not change state on a lookup, and the checker accepts its answer -/
theorem lookup_step (s : State) (sp : SS) (i : Nat) (op : Op) (hop : isLookup op = true)
    (c : List SKey) (kes : List KeyEntry) (hc : LCtx c kes) (r : Reader) (hr : s.rdr = some r)
    (hix : r.ix = mkIndex kes) (hs : SSt sp c) :
    (step s op).1 = s ∧ stepS sp i op (step s op).2 = sp := by
  have hcont := hs.content; have habs := hs.abstain; have hopen := hs.opened
  have hreqs := hs.reqs; have hpend := hs.pend
  have hlive : (mkIndex kes).live = kes := rfl
  have hfilterP : c.filter (fun sk => !mayBeAbsent [] sk) = c := by
    apply List.filter_eq_self.mpr
    intro sk hsk; simp [present_true sk (hc.ne sk hsk)]
  have hfilterG : c.filter (fun sk => !mustBeAbsent [] sk) = c := by
    apply List.filter_eq_self.mpr
    intro sk _; simp [gone_false sk]
  have hlen : kes.length = c.length := by rw [← hc.rel]; simp
  cases op <;> simp only [isLookup, Bool.false_eq_true] at hop
  case keycount =>
    simp only [step, hr, hix, hlive, stepS, hcont, habs, hopen, hpend, Option.isSome_none, Bool.false_eq_true,
      if_false, judgeRead, hreqs, hfilterP, hfilterG, hlen]
    exact ⟨trivial, need_true _ _ _ _ (by simp)⟩
  case keyat j =>
    simp only [step, hr, hix, stepS, hcont, habs, hopen, hpend, Option.isSome_none, Bool.false_eq_true,
      if_false, judgeRead, hreqs, List.isEmpty_nil, if_true, keyAt, hlive]
    refine ⟨trivial, ?_⟩
    by_cases hj : j < 0
    · simp [hj]
    · simp only [hj, if_false]
      rw [getElem_rel hc]
      cases c[j.toNat]? with
      | none => simp
      | some sk => simp [toKE, need_true]
  case key j =>
    simp only [step, hr, hix, stepS, hcont, habs, hopen, hpend, Option.isSome_none, Bool.false_eq_true,
      if_false, judgeRead, hreqs, List.isEmpty_nil, if_true, keyAt, hlive]
    refine ⟨trivial, ?_⟩
    by_cases hj : j < 0
    · simp [hj]
    · simp only [hj, if_false]
      rw [getElem_rel hc]
      cases c[j.toNat]? with
      | none => simp
      | some sk => simp [toKE, need_true]
  case seek k =>
    simp only [step, hr, hix, stepS, hcont, habs, hopen, hpend, Option.isSome_none, Bool.false_eq_true,
      if_false, judgeRead, hreqs, List.isEmpty_nil, if_true]
    refine ⟨trivial, ?_⟩
    rw [searchOffset_eq_rank _ (by exact hc.sortedKE), hlive, rank_rel hc]
    simp
  case contains k =>
    simp only [step, hr, hix, stepS, hcont, habs, hopen, hpend, Option.isSome_none, Bool.false_eq_true,
      if_false, judgeRead, hreqs, contains, Tsm.entriesOf, search_rel hc]
    refine ⟨trivial, ?_⟩
    cases hf : findKey c k with
    | none => simp [need_true]
    | some sk =>
      have hm := findKey_mem hf
      have hne := entriesOf_ne sk (hc.ne sk hm.1)
      simp only [Option.map_some, toKE]
      rw [need_true]
      cases he : Spec.C08.entriesOf sk with
      | nil => exact absurd he hne
      | cons a l => simp [gone_false]
  case entries k =>
    simp only [step, hr, hix, stepS, hcont, habs, hopen, hpend, Option.isSome_none, Bool.false_eq_true,
      if_false, judgeRead, hreqs, Tsm.entriesOf, search_rel hc]
    refine ⟨trivial, ?_⟩
    cases hf : findKey c k with
    | none => simp [need_true]
    | some sk =>
      have hm := findKey_mem hf
      have hne := entriesOf_ne sk (hc.ne sk hm.1)
      simp only [Option.map_some, toKE]
      cases he : Spec.C08.entriesOf sk with
      | nil => exact absurd he hne
      | cons a l => simp [gone_false, need_true]
  case typ k =>
    simp only [step, hr, hix, stepS, hcont, habs, hopen, hpend, Option.isSome_none, Bool.false_eq_true,
      if_false, judgeRead, hreqs, typeOf, search_rel hc]
    refine ⟨trivial, ?_⟩
    cases hf : findKey c k with
    | none => simp
    | some sk => simp [toKE, gone_false, need_true]
  case keyrange =>
    simp only [step, hr, hix, stepS, hcont, habs, hopen, hpend, Option.isSome_none, Bool.false_eq_true,
      if_false, judgeRead, hreqs, mkIndex]
    refine ⟨trivial, ?_⟩
    apply need_true
    rw [← hc.rel]
    cases hcc : c with
    | nil => exact absurd hcc hc.nonempty
    | cons a l =>
      have : ((a :: l).map toKE).getLast? = ((a :: l).getLast?).map toKE := by
        rw [List.getLast?_map]
      rw [this]
      cases hl : (a :: l).getLast? with
      | none => simp at hl
      | some z => simp [toKE]
  case timerange =>
    obtain ⟨t1, t2⟩ := timerange_rel c hc.time hc.nonempty
    rw [hc.rel] at t1 t2
    simp only [step, hr, hix, stepS, hcont, habs, hopen, hpend, Option.isSome_none, Bool.false_eq_true,
      if_false, judgeRead, hreqs, t1, t2]
    refine ⟨trivial, ?_⟩
    simp [mkIndex]
  case overlapstime lo hi =>
    obtain ⟨t1, t2⟩ := timerange_rel c hc.time hc.nonempty
    rw [hc.rel] at t1 t2
    have t1' : contentMin c = some (mkIndex kes).minTime := t1
    have t2' : contentMax c = some (mkIndex kes).maxTime := t2
    simp only [step, hr, hix, stepS, hcont, habs, hopen, hpend, Option.isSome_none, Bool.false_eq_true,
      if_false, judgeRead, hreqs, t1', t2', overlapsTimeRange]
    refine ⟨trivial, ?_⟩
    simp
  case containsvalue k t =>
    simp only [step, hr, hix, stepS, hcont, habs, hopen, hpend, Option.isSome_none, Bool.false_eq_true,
      if_false, judgeRead, hreqs]
    refine ⟨trivial, ?_⟩
    apply need_true
    have htr : tombRange (mkIndex kes) k = [] := rfl
    simp only [containsValue, entryOf, Tsm.entriesOf, search_rel hc, visible, reqsFor, List.filter_nil, covers,
      List.any_nil, Bool.not_false, Bool.and_true, htr]
    cases hf : findKey c k with
    | none => simp
    | some sk =>
      simp only [Option.map_some, toKE, Spec.C08.entriesOf]
      apply decide_eq_true
      rw [← find_any_blocks sk.blocks t]
      split
      · next h => rw [h]; rfl
      · next v h => rw [h]; rfl

end Influx.Tsm
