/-
  Lemmas.TsmLookup — the binary search of `indirectIndex` (ported
  `bytesutil.SearchBytesFixed` + the comparison of `searchOffset`) meets its
  specification on a strictly sorted key list, and the lookups built on it equal
  plain list functions.
-/
import Influx.Model.TsmIndex
import Influx.Lemmas.TsmBytes

namespace Influx.Tsm
open Influx.Generated.TsmLayout

def SortedKE (l : List KeyEntry) : Prop := l.Pairwise fun a b => klt a.key b.key = true

theorem sorted_get {l : List KeyEntry} (h : SortedKE l) {p q : Nat} {a b : KeyEntry}
    (hpq : p < q) (ha : l[p]? = some a) (hb : l[q]? = some b) : klt a.key b.key = true := by
  have hp : p < l.length := by
    rcases Nat.lt_or_ge p l.length with h' | h'
    · exact h'
    · rw [List.getElem?_eq_none h'] at ha; cases ha
  have hq : q < l.length := by
    rcases Nat.lt_or_ge q l.length with h' | h'
    · exact h'
    · rw [List.getElem?_eq_none h'] at hb; cases hb
  rw [List.getElem?_eq_getElem hp] at ha
  rw [List.getElem?_eq_getElem hq] at hb
  cases ha; cases hb
  exact (List.pairwise_iff_getElem.mp h) p q hp hq hpq

/-- the loop invariant of `SearchBytesFixed` -/
theorem searchLoop_spec (live : List KeyEntry) (hs : SortedKE live) (target : Key) :
    ∀ (fuel i j : Nat), i ≤ j → j < live.length → j - i ≤ fuel →
    (∀ p ke, p < i → live[p]? = some ke → klt ke.key target = true) →
    (j = live.length - 1 ∨ ∃ ke, live[j]? = some ke ∧ kle target ke.key = true) →
    let r := searchLoop live target fuel i j
    r < live.length ∧
    (∀ p ke, p < r → live[p]? = some ke → klt ke.key target = true) ∧
    (r = live.length - 1 ∨ ∃ ke, live[r]? = some ke ∧ kle target ke.key = true) := by
  intro fuel
  induction fuel with
  | zero =>
    intro i j hij hj hf hlo hhi
    have : i = j := by omega
    subst this
    simp only [searchLoop]
    exact ⟨hj, hlo, hhi⟩
  | succ fuel ih =>
    intro i j hij hj hf hlo hhi
    simp only [searchLoop]
    by_cases hlt : i < j
    · simp only [hlt, if_true]
      have hh : (i + j) / 2 < live.length := by omega
      rw [List.getElem?_eq_getElem hh]
      simp only
      by_cases hc : kle target (live[(i + j) / 2]).key = true
      · simp only [hc, if_true]
        exact ih i ((i + j) / 2) (by omega) hh (by omega) hlo
          (Or.inr ⟨live[(i + j) / 2], List.getElem?_eq_getElem hh, hc⟩)
      · simp only [hc]
        have hc' : klt (live[(i + j) / 2]).key target = true := by
          rcases klt_or_kle (live[(i + j) / 2]).key target with h | h
          · exact h
          · exact absurd h hc
        refine ih ((i + j) / 2 + 1) j (by omega) hj (by omega) ?_ hhi
        intro p ke hp hke
        rcases Nat.lt_or_ge p ((i + j) / 2) with h | h
        · -- below the probe: smaller than the probe key
          exact klt_trans (sorted_get hs h hke (List.getElem?_eq_getElem hh)) hc'
        · have : p = (i + j) / 2 := by omega
          subst this
          rw [List.getElem?_eq_getElem hh] at hke
          cases hke; exact hc'
    · have : i = j := by omega
      subst this
      simp only [Nat.lt_irrefl, if_false]
      exact ⟨hj, hlo, hhi⟩


/-- number of keys below `key`: where `key` is or would be -/
def rank (l : List KeyEntry) (key : Key) : Nat := (l.filter fun ke => klt ke.key key).length

theorem rank_of_partition (l : List KeyEntry) (key : Key) (r : Nat) (hr : r ≤ l.length)
    (hlo : ∀ p ke, p < r → l[p]? = some ke → klt ke.key key = true)
    (hhi : ∀ p ke, r ≤ p → l[p]? = some ke → klt ke.key key = false) : rank l key = r := by
  induction l generalizing r with
  | nil => simp at hr; subst hr; rfl
  | cons a l ih =>
    cases r with
    | zero =>
      have : ∀ ke ∈ a :: l, klt ke.key key = false := by
        intro ke hke
        obtain ⟨p, hp⟩ := List.getElem?_of_mem hke
        exact hhi p ke (Nat.zero_le _) hp
      simp only [rank]
      rw [List.filter_eq_nil_iff.mpr (by intro ke hke; simp [this ke hke])]
      rfl
    | succ r =>
      have ha : klt a.key key = true := hlo 0 a (Nat.succ_pos _) rfl
      simp only [rank, List.filter_cons, ha, if_true, List.length_cons]
      have := ih r (by simpa using hr)
        (fun p ke hp hke => hlo (p + 1) ke (by omega) (by simpa using hke))
        (fun p ke hp hke => hhi (p + 1) ke (by omega) (by simpa using hke))
      simp only [rank] at this
      omega

/-- **Seek**: on a strictly sorted key list `searchOffset` is the number of keys
    smaller than the target (the key count when every key is smaller). -/
theorem searchOffset_eq_rank (ix : Index) (hs : SortedKE ix.live) (key : Key) :
    searchOffset ix key = rank ix.live key := by
  unfold searchOffset
  by_cases hn : ix.live.length = 0
  · have : ix.live = [] := List.length_eq_zero_iff.mp hn
    simp [this, searchLoop, rank]
  · have hspec := searchLoop_spec ix.live hs key ix.live.length 0 (ix.live.length - 1)
      (Nat.zero_le _) (by omega) (by omega) (by intro p ke hp; omega) (Or.inl rfl)
    simp only at hspec
    generalize searchLoop ix.live key ix.live.length 0 (ix.live.length - 1) = r at hspec
    obtain ⟨hr, hlo, hhi⟩ := hspec
    show (match ix.live[r]? with
      | some ke => if kle key ke.key = true then r else ix.live.length
      | none => ix.live.length) = rank ix.live key
    rw [List.getElem?_eq_getElem hr]
    simp only
    by_cases hc : kle key (ix.live[r]).key = true
    · simp only [hc, if_true]
      symm
      apply rank_of_partition _ _ _ (by omega) hlo
      intro p ke hp hke
      rw [not_klt_iff_kle]
      rcases Nat.lt_or_ge r p with h | h
      · exact kle_trans hc (kle_of_klt (sorted_get hs h (List.getElem?_eq_getElem hr) hke))
      · have : p = r := by omega
        subst this
        rw [List.getElem?_eq_getElem hr] at hke; cases hke; exact hc
    · simp only [hc]
      -- the key found is smaller: it is the last one, so every key is smaller
      have hlast : r = ix.live.length - 1 := by
        rcases hhi with h | ⟨ke, hke, h⟩
        · exact h
        · rw [List.getElem?_eq_getElem hr] at hke; cases hke; exact absurd h hc
      have hc' : klt (ix.live[r]).key key = true := by
        rcases klt_or_kle (ix.live[r]).key key with h | h
        · exact h
        · exact absurd h hc
      symm
      apply rank_of_partition _ _ _ (Nat.le_refl _)
      · intro p ke hp hke
        rcases Nat.lt_or_ge p r with h | h
        · exact hlo p ke h hke
        · have : p = r := by omega
          subst this
          rw [List.getElem?_eq_getElem hr] at hke; cases hke; exact hc'
      · intro p ke hp hke
        rw [List.getElem?_eq_none hp] at hke; cases hke

theorem rank_le (l : List KeyEntry) (key : Key) : rank l key ≤ l.length := List.length_filter_le _ _

/-- in a sorted list the element at position `rank` is the first one not below `key` -/
theorem sorted_rank_split (l : List KeyEntry) (hs : SortedKE l) (key : Key) :
    (∀ p ke, p < rank l key → l[p]? = some ke → klt ke.key key = true) ∧
    (∀ p ke, rank l key ≤ p → l[p]? = some ke → klt ke.key key = false) := by
  induction l with
  | nil => simp
  | cons a l ih =>
    have hs' : SortedKE l := (List.pairwise_cons.mp hs).2
    have ha : ∀ b ∈ l, klt a.key b.key = true := (List.pairwise_cons.mp hs).1
    obtain ⟨ih1, ih2⟩ := ih hs'
    by_cases hak : klt a.key key = true
    · have hr : rank (a :: l) key = rank l key + 1 := by simp [rank, List.filter_cons, hak]
      rw [hr]
      constructor
      · intro p ke hp hke
        cases p with
        | zero => simp at hke; subst hke; exact hak
        | succ p => exact ih1 p ke (by omega) (by simpa using hke)
      · intro p ke hp hke
        cases p with
        | zero => omega
        | succ p => exact ih2 p ke (by omega) (by simpa using hke)
    · have hak' : klt a.key key = false := by simpa using hak
      have hall : ∀ b ∈ l, klt b.key key = false := by
        intro b hb
        rw [not_klt_iff_kle]
        exact kle_trans (not_klt_iff_kle.mp hak') (kle_of_klt (ha b hb))
      have hr : rank (a :: l) key = 0 := by
        simp only [rank, List.filter_cons, hak', Bool.false_eq_true, if_false]
        rw [List.filter_eq_nil_iff.mpr (by intro ke hke; simp [hall ke hke])]; rfl
      rw [hr]
      constructor
      · intro p ke hp; omega
      · intro p ke _ hke
        cases p with
        | zero => simp at hke; subst hke; exact hak'
        | succ p =>
          have : ke ∈ l := List.mem_of_getElem? (by simpa using hke)
          exact hall ke this

theorem sorted_find_eq (l : List KeyEntry) (hs : SortedKE l) (key : Key) :
    l.find? (fun ke => ke.key = key) =
      match l[rank l key]? with
      | some ke => if ke.key = key then some ke else none
      | none => none := by
  obtain ⟨h1, h2⟩ := sorted_rank_split l hs key
  induction l with
  | nil => simp [rank]
  | cons a l ih =>
    have hs' : SortedKE l := (List.pairwise_cons.mp hs).2
    have ha : ∀ b ∈ l, klt a.key b.key = true := (List.pairwise_cons.mp hs).1
    by_cases hak : klt a.key key = true
    · have hr : rank (a :: l) key = rank l key + 1 := by simp [rank, List.filter_cons, hak]
      have hne : ¬ a.key = key := klt_ne hak
      rw [hr]
      simp only [List.find?_cons, hne, decide_false, List.getElem?_cons_succ]
      obtain ⟨h1', h2'⟩ := sorted_rank_split l hs' key
      exact ih hs' h1' h2'
    · have hak' : klt a.key key = false := by simpa using hak
      have hr : rank (a :: l) key = 0 := by
        have := h2 0 a
        by_cases h0 : rank (a :: l) key = 0
        · exact h0
        · have := h1 0 a (by omega) rfl
          rw [this] at hak'; cases hak'
      rw [hr]
      simp only [List.getElem?_cons_zero]
      by_cases hk : a.key = key
      · simp [List.find?_cons, hk]
      · simp only [List.find?_cons, hk, decide_false, if_false]
        apply List.find?_eq_none.mpr
        intro b hb
        have : klt key b.key = true :=
          klt_of_kle_of_klt (by
            rcases kle_iff_lt_or_eq.mp (not_klt_iff_kle.mp hak') with h | h
            · exact kle_of_klt h
            · exact absurd h.symm hk) (ha b hb) |> fun h => by
              rcases kle_iff_lt_or_eq.mp (not_klt_iff_kle.mp hak') with h' | h'
              · exact klt_trans h' (ha b hb)
              · exact absurd h'.symm hk
        simpa using (klt_ne this).symm

end Influx.Tsm

namespace Influx.Tsm

/-- what every reachable index satisfies: the parsed keys are strictly sorted, the
    live keys are a sub-list of them, the key range is that of the parsed keys -/
structure IndexInv (ix : Index) : Prop where
  sortedAll : SortedKE ix.all
  sub : ix.live.Sublist ix.all
  minK : ix.minKey = (ix.all.head?.map (·.key)).getD []
  maxK : ix.maxKey = (ix.all.getLast?.map (·.key)).getD []

theorem IndexInv.sortedLive {ix : Index} (h : IndexInv ix) : SortedKE ix.live :=
  List.Pairwise.sublist h.sub h.sortedAll

theorem sorted_head_le (l : List KeyEntry) (hs : SortedKE l) (ke : KeyEntry) (hke : ke ∈ l) :
    kle ((l.head?.map (·.key)).getD []) ke.key = true := by
  cases l with
  | nil => cases hke
  | cons a l =>
    simp only [List.head?_cons, Option.map_some, Option.getD_some]
    rcases List.mem_cons.mp hke with rfl | h
    · exact kle_refl _
    · exact kle_of_klt ((List.pairwise_cons.mp hs).1 ke h)

theorem sorted_le_last (l : List KeyEntry) (hs : SortedKE l) (ke : KeyEntry) (hke : ke ∈ l) :
    kle ke.key ((l.getLast?.map (·.key)).getD []) = true := by
  induction l with
  | nil => cases hke
  | cons a l ih =>
    have hs' : SortedKE l := (List.pairwise_cons.mp hs).2
    cases l with
    | nil =>
      simp at hke; subst hke; simp [kle_refl]
    | cons b l =>
      have hl : (a :: b :: l).getLast? = (b :: l).getLast? := by simp [List.getLast?_cons_cons]
      rw [hl]
      rcases List.mem_cons.mp hke with rfl | h
      · have hb : (b :: l).getLast? ≠ none := by simp
        obtain ⟨z, hz⟩ := Option.ne_none_iff_exists'.mp hb
        have hzm : z ∈ b :: l := List.mem_of_getLast? hz
        rw [hz]
        exact kle_of_klt ((List.pairwise_cons.mp hs).1 z hzm)
      · exact ih hs' h

theorem containsKey_of_mem {ix : Index} (h : IndexInv ix) {ke : KeyEntry} (hke : ke ∈ ix.live) :
    containsKey ix ke.key = true := by
  have hall : ke ∈ ix.all := h.sub.subset hke
  simp only [containsKey, h.minK, h.maxK, Bool.and_eq_true]
  exact ⟨sorted_head_le _ h.sortedAll ke hall, sorted_le_last _ h.sortedAll ke hall⟩

/-- **search** (the exact lookup behind `Entries`, `Type`, `Contains`): the live entry
    with that key, if any. -/
theorem search_eq_find {ix : Index} (h : IndexInv ix) (key : Key) :
    search ix key = ix.live.find? (fun ke => ke.key = key) := by
  unfold search
  by_cases hc : containsKey ix key = true
  · simp only [hc, Bool.not_true, Bool.false_eq_true, if_false]
    rw [searchOffset_eq_rank ix h.sortedLive, sorted_find_eq _ h.sortedLive]
    cases ix.live[rank ix.live key]? <;> rfl
  · simp only [hc, Bool.not_false, if_true]
    symm
    apply List.find?_eq_none.mpr
    intro ke hke
    simp only [decide_eq_true_eq]
    intro heq
    subst heq
    exact hc (containsKey_of_mem h hke)

theorem mkIndex_inv (kes : List KeyEntry) (hs : SortedKE kes) : IndexInv (mkIndex kes) :=
  ⟨hs, List.Sublist.refl _, rfl, rfl⟩

end Influx.Tsm
