/-
  Lemmas.MetaWriter — `sort.Search`, `sgList.ShardGroupAt`, `MapShards`.
-/
import Influx.Lemmas.MetaBounds

namespace Influx.Meta
open Influx.Generated.Meta

/-- Go's `sort.Search` loop: with enough fuel the result is `n` or an index where `f` holds -/
theorem goSearch_spec (f : Nat → Bool) (n : Nat) :
    ∀ (fuel i j : Nat), i ≤ j → j - i < fuel → j ≤ n → (j = n ∨ f j = true) →
      goSearch f fuel i j ≤ n ∧ (goSearch f fuel i j = n ∨ f (goSearch f fuel i j) = true) := by
  intro fuel
  induction fuel with
  | zero => intro i j _ h; omega
  | succ k ih =>
    intro i j hij hfuel hjn hj
    unfold goSearch
    by_cases hlt : i < j
    · simp only [hlt, ↓reduceIte]
      by_cases hf : f ((i + j) / 2) = true
      · simp only [hf, Bool.not_true, Bool.false_eq_true, ↓reduceIte]
        apply ih i ((i + j) / 2) (by omega) (by omega) (by omega) (Or.inr hf)
      · simp only [hf, Bool.not_false, ↓reduceIte]
        apply ih ((i + j) / 2 + 1) j (by omega) (by omega) hjn hj
    · simp only [hlt, ↓reduceIte]
      have : i = j := by omega
      subst this
      exact ⟨hjn, hj⟩

/-- membership is preserved by the insertion sort -/
theorem mem_sgInsert {g x : ShardGroupInfo} {l : List ShardGroupInfo} : x ∈ sgInsert g l ↔ x = g ∨ x ∈ l := by
  induction l with
  | nil => simp [sgInsert]
  | cons y ys ih =>
    simp only [sgInsert]
    split
    · simp
    · simp only [List.mem_cons, ih]
      constructor
      · rintro (h | h | h)
        · exact Or.inr (Or.inl h)
        · exact Or.inl h
        · exact Or.inr (Or.inr h)
      · rintro (h | h | h)
        · exact Or.inr (Or.inl h)
        · exact Or.inl h
        · exact Or.inr (Or.inr h)

theorem mem_sgSort_aux {x : ShardGroupInfo} (l acc : List ShardGroupInfo) :
    x ∈ l.foldl (fun acc g => sgInsert g acc) acc ↔ x ∈ acc ∨ x ∈ l := by
  induction l generalizing acc with
  | nil => simp
  | cons y ys ih =>
    simp only [List.foldl_cons, ih, mem_sgInsert, List.mem_cons]
    constructor
    · rintro ((h | h) | h)
      · exact Or.inr (Or.inl h)
      · exact Or.inl h
      · exact Or.inr (Or.inr h)
    · rintro (h | h | h)
      · exact Or.inl (Or.inr h)
      · exact Or.inl (Or.inl h)
      · exact Or.inr h

theorem mem_sgSort {x : ShardGroupInfo} {l : List ShardGroupInfo} : x ∈ sgSort l ↔ x ∈ l := by
  unfold sgSort
  rw [mem_sgSort_aux]
  simp

theorem perm_sgInsert (g : ShardGroupInfo) (l : List ShardGroupInfo) : (sgInsert g l).Perm (g :: l) := by
  induction l with
  | nil => simp [sgInsert]
  | cons y ys ih =>
    simp only [sgInsert]
    split
    · exact List.Perm.refl _
    · exact (List.Perm.cons y ih).trans (List.Perm.swap g y ys)

theorem perm_sgSort_aux (l acc : List ShardGroupInfo) :
    (l.foldl (fun acc g => sgInsert g acc) acc).Perm (l ++ acc) := by
  induction l generalizing acc with
  | nil => simp
  | cons y ys ih =>
    simp only [List.foldl_cons]
    refine (ih (sgInsert y acc)).trans ?_
    refine (List.Perm.append_left ys (perm_sgInsert y acc)).trans ?_
    simp

theorem perm_sgSort (l : List ShardGroupInfo) : (sgSort l).Perm l := by
  unfold sgSort
  simpa using perm_sgSort_aux l []

/-- `ShardGroupAt` only returns a group whose `[start, end)` contains the timestamp, and it is
    one of the list's items -/
theorem shardGroupAt_some (l : SgList) (t : Int) (g : ShardGroupInfo) (h : (l.shardGroupAt t).2 = some g) :
    g ∈ l.items ∧ g.StartTime ≤ t ∧ t < g.EndTime := by
  unfold SgList.shardGroupAt at h
  split at h
  · simp at h
  · simp only at h
    split at h
    · next g' hdirect =>
      simp only [Option.some.injEq] at h
      subst h
      split at hdirect
      · next g0 hidx =>
        split at hdirect
        · simp at hdirect
        · next hnb =>
          simp only [Option.some.injEq] at hdirect
          subst hdirect
          have hmem : g0 ∈ sgSort l.items := List.mem_of_getElem? hidx
          refine ⟨mem_sgSort.mp hmem, by simpa using hnb, ?_⟩
          -- the index came from the binary search: `EndTime.After(t)` holds there
          have hs := goSearch_spec (endAfter (sgSort l.items) t) (sgSort l.items).length ((sgSort l.items).length + 1) 0 (sgSort l.items).length
              (by omega) (by omega) (by omega) (Or.inl rfl)
          rcases hs.2 with hs | hs
          · rw [hs] at hidx
            simp at hidx
          · simp only [endAfter, hidx] at hs
            simpa using hs
      · simp at hdirect
    · split at h
      · simp at h
      · simp only at h
        have := List.find?_some h
        have hm := List.mem_of_find?_eq_some h
        refine ⟨mem_sgSort.mp hm, ?_⟩
        exact (contains_iff g t).mp this

theorem shardGroupAt_items (l : SgList) (t : Int) : ((l.shardGroupAt t).1.items).Perm l.items := by
  unfold SgList.shardGroupAt
  split
  · exact List.Perm.refl _
  · simp only
    split
    · exact perm_sgSort _
    · split <;> exact perm_sgSort _

/-- every point `mapPlace` maps lands in a group containing its timestamp -/
theorem mapPlace_within (min : Int) : ∀ (ts : List Int) (l : SgList) (ps : List Placement),
    mapPlace min l ts = .ok ps →
    ps.length = ts.length ∧ ∀ t p, (t, p) ∈ ts.zip ps → ∀ sh g, p = Placement.mapped sh g → g.StartTime ≤ t ∧ t < g.EndTime := by
  intro ts
  induction ts with
  | nil =>
    intro l ps h
    simp only [mapPlace, Except.ok.injEq] at h
    subst h
    simp
  | cons t ts ih =>
    intro l ps h
    simp only [mapPlace] at h
    split at h
    · next hnone =>
      cases hrec : mapPlace min (l.shardGroupAt t).1 ts with
      | error e => simp [hrec, Except.map] at h
      | ok ps' =>
        simp only [hrec, Except.map, Except.ok.injEq] at h
        subst h
        have := ih _ _ hrec
        refine ⟨by simp [this.1], ?_⟩
        intro t' p hp sh g hpg
        simp only [List.zip_cons_cons, List.mem_cons, Prod.mk.injEq] at hp
        rcases hp with ⟨rfl, rfl⟩ | hp
        · cases hpg
        · exact this.2 t' p hp sh g hpg
    · next g0 hsome =>
      split at h
      · simp at h
      · next sh0 hsh =>
        cases hrec : mapPlace min (l.shardGroupAt t).1 ts with
        | error e => simp [hrec, Except.map] at h
        | ok ps' =>
          simp only [hrec, Except.map, Except.ok.injEq] at h
          subst h
          have := ih _ _ hrec
          refine ⟨by simp [this.1], ?_⟩
          intro t' p hp sh g hpg
          simp only [List.zip_cons_cons, List.mem_cons, Prod.mk.injEq] at hp
          rcases hp with ⟨rfl, rfl⟩ | hp
          · simp only [Placement.mapped.injEq] at hpg
            obtain ⟨_, rfl⟩ := hpg
            split at hsome
            · simp at hsome
            · exact (shardGroupAt_some l t' g0 hsome).2
          · exact this.2 t' p hp sh g hpg

end Influx.Meta

namespace Influx.Meta
open Influx.Generated.Meta

theorem shardGroupByTimestamp_some {gs : List ShardGroupInfo} {t : Int} {g : ShardGroupInfo}
    (h : shardGroupByTimestamp gs t = some g) :
    g ∈ gs ∧ g.StartTime ≤ t ∧ t < g.EndTime ∧ g.DeletedAt = zeroTime := by
  have h1 := List.find?_some h
  have h2 := List.mem_of_find?_eq_some h
  simp only [sgMatches, Bool.and_eq_true, Bool.not_eq_true'] at h1
  exact ⟨h2, ((contains_iff g t).mp h1.1.1).1, ((contains_iff g t).mp h1.1.1).2, (deleted_false_iff g).mp h1.1.2⟩

/-- the group `Client.CreateShardGroup` returns for a timestamp contains it and is live -/
theorem clientCreateShardGroup_some {d d' : Data} {db rp : String} {t : Int} {g : ShardGroupInfo}
    (h : clientCreateShardGroup d db rp t = .ok (d', some g)) :
    g.StartTime ≤ t ∧ t < g.EndTime ∧ g.DeletedAt = zeroTime := by
  unfold clientCreateShardGroup at h
  cases h1 : getRP d db rp with
  | error e => simp [h1] at h
  | ok r =>
    simp only [h1] at h
    cases h2 : shardGroupByTimestamp r.ShardGroups t with
    | some g' =>
      simp only [h2, Except.ok.injEq, Prod.mk.injEq, Option.some.injEq] at h
      obtain ⟨_, rfl⟩ := h
      exact (shardGroupByTimestamp_some h2).2
    | none =>
      simp only [h2] at h
      cases h3 : createShardGroup d db rp t with
      | error e => simp [h3] at h
      | ok d2 =>
        simp only [h3] at h
        cases h4 : getRP d2 db rp with
        | error e => simp [h4] at h
        | ok r2 =>
          simp only [h4, Except.ok.injEq, Prod.mk.injEq] at h
          exact (shardGroupByTimestamp_some h.2).2

/-- a successful `mapShards` is a successful `mapPlace` over some list of groups -/
theorem mapShards_ok {d d' : Data} {db rp : String} {now : Int} {ts : List Int} {m : ShardMapping}
    (h : mapShards d db rp now ts = (d', .ok m)) :
    ∃ r l, getRP d db rp = .ok r ∧ mapCreate db rp (minTime r now) d SgList.empty ts = (d', .ok l) ∧
      mapPlace (minTime r now) l ts = .ok m.placements ∧ m.retentionDropped = countDropped m.placements := by
  unfold mapShards at h
  cases h1 : getRP d db rp with
  | error e => simp [h1] at h
  | ok r =>
    simp only [h1] at h
    cases h2 : mapCreate db rp (minTime r now) d SgList.empty ts with
    | mk d2 res =>
      cases res with
      | error e => simp [h2] at h
      | ok l =>
        simp only [h2] at h
        cases h3 : mapPlace (minTime r now) l ts with
        | error e => simp [h3] at h
        | ok ps =>
          simp only [h3, Prod.mk.injEq, Except.ok.injEq] at h
          obtain ⟨rfl, rfl⟩ := h
          exact ⟨r, l, rfl, h2, h3, rfl⟩

end Influx.Meta
