/-
  Lemmas.StoreDelOrder — `cmpBytes` is a strict total order; `sortDedup` yields the strictly
  ascending list of the elements.
-/
import Influx.Model.StoreDel

namespace Influx.Model.StoreDel
open Influx.Model.DelPred (Bytes)

theorem cmpBytes_refl (a : Bytes) : cmpBytes a a = .eq := by
  induction a with
  | nil => rfl
  | cons x xs ih => simp [cmpBytes, ih]

theorem cmpBytes_eq {a b : Bytes} (h : cmpBytes a b = .eq) : a = b := by
  induction a generalizing b with
  | nil => cases b with
    | nil => rfl
    | cons y ys => simp [cmpBytes] at h
  | cons x xs ih => cases b with
    | nil => simp [cmpBytes] at h
    | cons y ys =>
      simp only [cmpBytes] at h
      split at h
      · cases h
      · split at h
        · cases h
        · have : x = y := by omega
          rw [this, ih h]

theorem cmpBytes_lt_gt {a b : Bytes} : cmpBytes a b = .lt ↔ cmpBytes b a = .gt := by
  induction a generalizing b with
  | nil => cases b <;> simp [cmpBytes]
  | cons x xs ih => cases b with
    | nil => simp [cmpBytes]
    | cons y ys =>
      simp only [cmpBytes]
      by_cases h1 : x < y
      · have : ¬ y < x := by omega
        simp [h1, this]
      · by_cases h2 : y < x
        · simp [h1, h2]
        · simp only [h1, h2, if_false]
          exact ih

theorem cmpBytes_trans {a b c : Bytes} (h1 : cmpBytes a b = .lt) (h2 : cmpBytes b c = .lt) :
    cmpBytes a c = .lt := by
  induction a generalizing b c with
  | nil => cases b with
    | nil => simp [cmpBytes] at h1
    | cons y ys => cases c with
      | nil => simp [cmpBytes] at h2
      | cons z zs => simp [cmpBytes]
  | cons x xs ih => cases b with
    | nil => simp [cmpBytes] at h1
    | cons y ys => cases c with
      | nil => simp [cmpBytes] at h2
      | cons z zs =>
        simp only [cmpBytes] at h1 h2 ⊢
        by_cases hxy : x < y
        · by_cases hyz : y < z
          · have : x < z := by omega
            simp [this]
          · simp only [hyz, if_false] at h2
            split at h2
            · cases h2
            · have : x < z := by omega
              simp [this]
        · simp only [hxy, if_false] at h1
          split at h1
          · cases h1
          · next hyx =>
            have hxy' : x = y := by omega
            subst hxy'
            by_cases hyz : x < z
            · simp [hyz]
            · simp only [hyz, if_false] at h2 ⊢
              split at h2
              · cases h2
              · next hzx =>
                simp only [hzx, if_false]
                exact ih h1 h2

/-- strictly ascending in byte order -/
def StrictAsc : List Bytes → Prop
  | [] => True
  | [_] => True
  | a :: b :: rest => cmpBytes a b = .lt ∧ StrictAsc (b :: rest)

theorem mem_insertSorted {x y : Bytes} {l : List Bytes} : y ∈ insertSorted x l ↔ y = x ∨ y ∈ l := by
  induction l with
  | nil => simp [insertSorted]
  | cons z zs ih =>
    simp only [insertSorted]
    split
    · simp
    · next h =>
      have := cmpBytes_eq h
      subst this
      simp only [List.mem_cons]
      constructor
      · exact Or.inr
      · rintro (h | h)
        · exact Or.inl h
        · exact h
    · simp only [List.mem_cons, ih]
      constructor
      · rintro (h | h | h)
        · exact Or.inr (Or.inl h)
        · exact Or.inl h
        · exact Or.inr (Or.inr h)
      · rintro (h | h | h)
        · exact Or.inr (Or.inl h)
        · exact Or.inl h
        · exact Or.inr (Or.inr h)

theorem mem_sortDedup {y : Bytes} {l : List Bytes} : y ∈ sortDedup l ↔ y ∈ l := by
  unfold sortDedup
  induction l with
  | nil => simp
  | cons x xs ih => simp only [List.foldr_cons, mem_insertSorted, ih, List.mem_cons]

theorem strictAsc_cons {a : Bytes} {l : List Bytes} (h : StrictAsc l) (hlt : ∀ y ∈ l.head?, cmpBytes a y = .lt) :
    StrictAsc (a :: l) := by
  cases l with
  | nil => trivial
  | cons b rest => exact ⟨hlt b rfl, h⟩

theorem strictAsc_tail {a : Bytes} {l : List Bytes} (h : StrictAsc (a :: l)) : StrictAsc l := by
  cases l with
  | nil => trivial
  | cons b rest => exact h.2

theorem strictAsc_insertSorted (x : Bytes) (l : List Bytes) (h : StrictAsc l) : StrictAsc (insertSorted x l) := by
  induction l with
  | nil => trivial
  | cons z zs ih =>
    simp only [insertSorted]
    split
    · next hlt => exact ⟨hlt, h⟩
    · exact h
    · next hgt =>
      have hzx : cmpBytes z x = .lt := cmpBytes_lt_gt.2 hgt
      have htail := ih (strictAsc_tail h)
      apply strictAsc_cons htail
      intro y hy
      -- the head of `insertSorted x zs` is x or the head of zs
      cases zs with
      | nil => simp [insertSorted] at hy; subst hy; exact hzx
      | cons w ws =>
        simp only [insertSorted] at hy
        split at hy
        · simp at hy; subst hy; exact hzx
        · simp at hy; subst hy; exact h.1
        · simp at hy; subst hy; exact h.1

theorem strictAsc_sortDedup (l : List Bytes) : StrictAsc (sortDedup l) := by
  unfold sortDedup
  induction l with
  | nil => trivial
  | cons x xs ih => exact strictAsc_insertSorted x _ ih

theorem strictAsc_filter (p : Bytes → Bool) (l : List Bytes) (h : StrictAsc l) : StrictAsc (l.filter p) := by
  -- via the pairwise characterisation
  have hpw : ∀ l : List Bytes, StrictAsc l → l.Pairwise (fun a b => cmpBytes a b = .lt) := by
    intro l
    induction l with
    | nil => intro _; exact List.Pairwise.nil
    | cons a rest ih =>
      intro h
      have ht := ih (strictAsc_tail h)
      refine List.pairwise_cons.2 ⟨?_, ht⟩
      intro y hy
      cases rest with
      | nil => cases hy
      | cons b rest' =>
        rcases List.mem_cons.1 hy with rfl | hy
        · exact h.1
        · exact cmpBytes_trans h.1 ((List.pairwise_cons.1 ht).1 y hy)
  have hback : ∀ l : List Bytes, l.Pairwise (fun a b => cmpBytes a b = .lt) → StrictAsc l := by
    intro l
    induction l with
    | nil => intro _; trivial
    | cons a rest ih =>
      intro h
      cases rest with
      | nil => trivial
      | cons b rest' =>
        exact ⟨(List.pairwise_cons.1 h).1 b (by simp), ih (List.pairwise_cons.1 h).2⟩
  exact hback _ (List.Pairwise.filter _ (hpw l h))

end Influx.Model.StoreDel
