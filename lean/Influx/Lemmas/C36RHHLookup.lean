/-
  Lemmas.C36RHHLookup — `(*HashMap).index` finds exactly the stored entry of a key.
-/
import Influx.Lemmas.C36RHHBase

namespace Influx.RHH

/-- no stored key `k`: every run of the loop answers -1 -/
theorem indexLoop_absent (c : Nat) (s : Slots) (h : Nat) (k : Key)
    (habs : ∀ e, Mem s e → e.key ≠ k) :
    ∀ (fuel pos d : Nat), indexLoop c fuel s pos d h k = none := by
  intro fuel
  induction fuel with
  | zero => intro pos d; rfl
  | succ fuel ih =>
    intro pos d
    unfold indexLoop
    cases hs : s[pos]? with
    | none => rfl
    | some o =>
      cases o with
      | none => rfl
      | some e =>
        simp only
        split
        · rfl
        · split
          · next hm => exact absurd hm.2 (habs e ⟨pos, hs⟩)
          · exact ih _ _

/-- a stored key is found: the loop walks from the home slot to it without stopping -/
theorem indexLoop_found {hf : Key → Nat} {s : Slots} (hw : WF hf s) {p : Nat} {e : Entry}
    (hp : At s p e) :
    ∀ (fuel pos d : Nat), pos < s.length → d = dist e.hash pos s.length →
      d ≤ dist e.hash p s.length → dist e.hash p s.length - d < fuel →
      indexLoop s.length fuel s pos d e.hash e.key = some e := by
  intro fuel
  induction fuel with
  | zero => intro pos d _ _ _ hf; omega
  | succ fuel ih =>
    intro pos d hpos hd hle hfuel
    unfold indexLoop
    by_cases heq : d = dist e.hash p s.length
    · -- arrived
      have : pos = p := dist_inj e.hash pos p s.length hw.pos hpos hp.lt (by omega)
      subst this
      unfold At at hp
      simp only [hp]
      have : ¬ dist e.hash pos s.length < d := by omega
      simp [this]
    · obtain ⟨e', h', hle'⟩ := hw.path hp (dist e.hash p s.length - d) pos hpos (by omega)
      have hne : ¬ (e'.hash = e.hash ∧ e'.key = e.key) := by
        rintro ⟨_, hk⟩
        have := hw.uniq pos p e' e h' hp hk
        subst this
        exact heq hd
      have hlt := dist_lt e.hash p s.length hw.pos
      have hnext := dist_next e.hash pos s.length hw.pos hpos (by omega)
      unfold At at h'
      simp only [h']
      have : ¬ dist e'.hash pos s.length < d := by omega
      simp only [this, if_false, hne]
      exact ih (next pos s.length) (d + 1) (next_lt _ _ hw.pos) (by omega) (by omega) (by omega)

/-- **Get is the abstract lookup**: `lookup` returns the stored entry of the key, if any. -/
theorem lookup_found {hf : Key → Nat} {s : Slots} (hw : WF hf s) {e : Entry} (hm : Mem s e) :
    lookup s (hf e.key) e.key = some e := by
  obtain ⟨p, hp⟩ := hm
  have hh := hw.hash p e hp
  unfold lookup
  rw [← hh]
  apply indexLoop_found hw hp
  · exact Nat.mod_lt _ hw.pos
  · rw [dist_home _ _ hw.pos]
  · omega
  · have := dist_lt e.hash p s.length hw.pos; omega

theorem lookup_absent (s : Slots) (h : Nat) (k : Key) (habs : ∀ e, Mem s e → e.key ≠ k) :
    lookup s h k = none := indexLoop_absent _ s h k habs _ _ _

theorem lookup_some_iff {hf : Key → Nat} {s : Slots} (hw : WF hf s) (k : Key) (e : Entry) :
    lookup s (hf k) k = some e ↔ Mem s e ∧ e.key = k := by
  constructor
  · intro h
    by_cases hex : ∃ e', Mem s e' ∧ e'.key = k
    · obtain ⟨e', hm, hk⟩ := hex
      have := lookup_found hw hm
      rw [hk] at this
      rw [this] at h
      cases h
      exact ⟨hm, hk⟩
    · have := lookup_absent s (hf k) k (fun e' hm hk => hex ⟨e', hm, hk⟩)
      rw [this] at h; cases h
  · rintro ⟨hm, rfl⟩
    exact lookup_found hw hm

end Influx.RHH
