/-
  Lemmas.SchedFlight — executions in flight read off the log (no run of a task is taken while an
  earlier one executes), and `settle` with all invariants, ending at rest or spinning against workers
  held by the environment.
-/
import Influx.Lemmas.SchedHolds
set_option linter.unusedSimpArgs false
set_option linter.unusedVariables false
namespace Influx.Lemmas.Sched
open Influx.Model.Sched Influx.Spec.C24

/-! ### executions in flight, read off the log -/

/-- has task `id` a run that was taken and has not finished (log newest first) -/
def inflight (id : Nat) : List LogEv → Bool
  | [] => false
  | .took _ r _ :: rest => if r.id = id then true else inflight id rest
  | .finished _ r :: rest => if r.id = id then false else inflight id rest
  | .scheduled _ _ _ _ :: rest => inflight id rest
  | .released _ :: rest => inflight id rest

/-- no run of a task is taken while an earlier run of it is in flight -/
def NoOverlap : List LogEv → Prop
  | [] => True
  | .took _ r _ :: rest => inflight r.id rest = false ∧ NoOverlap rest
  | _ :: rest => NoOverlap rest

def busyIds (s : State) : List Nat := s.busy.map (·.2.id)

structure InvF (s : State) : Prop where
  busy : ∀ id, inflight id s.log = true ↔ id ∈ busyIds s
  no : NoOverlap s.log

theorem invF_init : InvF init := ⟨by simp [init, inflight, busyIds], by simp [init, NoOverlap]⟩

theorem inflight_tooks (now : Int) (id : Nat) (rs : List (Nat × Run)) (log : List LogEv) :
    inflight id (tooks now rs ++ log) = ((runIds rs).contains id || inflight id log) := by
  induction rs generalizing log with
  | nil => simp [tooks, runIds]
  | cons a rs ih =>
    rw [tooks_cons, ih]
    have hc : runIds (a :: rs) = a.2.id :: runIds rs := rfl
    rw [hc, List.contains_cons]
    by_cases h : a.2.id = id
    · simp [inflight, h]
    · have h' : (id == a.2.id) = false := by simpa using fun hh => h hh.symm
      simp [inflight, h, h']

theorem noOverlap_tooks (now : Int) (rs : List (Nat × Run)) (log : List LogEv) (hn : (runIds rs).Nodup)
    (hfree : ∀ wr ∈ rs, inflight wr.2.id log = false) (hno : NoOverlap log) :
    NoOverlap (tooks now rs ++ log) := by
  induction rs generalizing log with
  | nil => simpa [tooks] using hno
  | cons a rs ih =>
    rw [tooks_cons]
    have hnd : a.2.id ∉ runIds rs := (List.nodup_cons.mp (by simpa [runIds] using hn)).1
    have hn' : (runIds rs).Nodup := (List.nodup_cons.mp (by simpa [runIds] using hn)).2
    apply ih _ hn'
    · intro wr hwr
      have hne : a.2.id ≠ wr.2.id := fun hh => hnd (by rw [hh]; exact List.mem_map.mpr ⟨wr, hwr, rfl⟩)
      simp [inflight, hne]
      exact hfree wr (List.mem_cons_of_mem _ hwr)
    · exact ⟨hfree a (by simp), hno⟩

/-- the workers' state after a pass: the dispatched runs on top of what was executing -/
theorem dispatch_busy_eq (cfg : Cfg) (now : Int) (q : List Item) (busy : List (Nat × Run)) :
    (dispatch cfg now q busy).busy = (dispatch cfg now q busy).runs.reverse ++ busy := by
  induction q generalizing busy with
  | nil => simp [dispatch]
  | cons it rest ih =>
    unfold dispatch
    split
    · simp
    · split
      · exact ih busy
      · have := ih ((cfg.wk it.id, { id := it.id, sf := it.next, runAt := it.when }) :: busy)
        split <;> simp [this]

theorem invF_processStep (cfg : Cfg) {s : State} (hB : InvB cfg s) (hU : InvU s) (hF : InvF s) :
    InvF (processStep cfg s) := by
  have hids := dispatch_ids cfg s.now s.queue s.busy hU.uniq
  have hrn : (runIds (dispatch cfg s.now s.queue s.busy).runs).Nodup := (List.nodup_append.mp hids.2).2.1
  have hbe := dispatch_busy_eq cfg s.now s.queue s.busy
  have hb2 := dispatch_busy cfg s.now s.queue s.busy hB.wk hB.uniq
  have hlog : (processStep cfg s).log = tooks s.now (dispatch cfg s.now s.queue s.busy).runs ++ s.log := rfl
  have hbusy : (processStep cfg s).busy = (dispatch cfg s.now s.queue s.busy).runs.reverse ++ s.busy := hbe
  -- a dispatched run's task was not executing
  have hfree : ∀ wr ∈ (dispatch cfg s.now s.queue s.busy).runs, inflight wr.2.id s.log = false := by
    intro wr hwr
    cases hfl : inflight wr.2.id s.log with
    | false => rfl
    | true =>
      exfalso
      obtain ⟨b, hb, hbid⟩ := List.mem_map.mp ((hF.busy wr.2.id).mp hfl)
      -- b executes on worker wk(b.id) = wk(wr.id) = wr.1, which is in the new busy list twice
      have hwb := hB.wk b hb
      have hwr1 : wr.1 = cfg.wk wr.2.id := by
        have : wr ∈ (dispatch cfg s.now s.queue s.busy).busy := by rw [hbe]; simp [hwr]
        exact hb2.1 wr this
      have hnd := hb2.2
      rw [hbe, List.map_append] at hnd
      have hdis := (List.nodup_append.mp hnd).2.2
      exact hdis wr.1 (List.mem_map.mpr ⟨wr, by simp [hwr], rfl⟩) b.1 (List.mem_map.mpr ⟨b, hb, rfl⟩)
        (by rw [hwr1, hwb, hbid])
  refine ⟨?_, ?_⟩
  · intro id
    rw [hlog, inflight_tooks]
    simp only [busyIds, hbusy, List.map_append, List.mem_append, List.map_reverse, List.mem_reverse,
      Bool.or_eq_true, List.contains_iff_mem]
    rw [hF.busy id]
    rfl
  · rw [hlog]
    exact noOverlap_tooks s.now _ s.log hrn hfree hF.no


theorem inflight_finisheds (id : Nat) (fin : List (Nat × Run)) (log : List LogEv) :
    inflight id ((fin.map (fun b => LogEv.finished b.1 b.2)).reverse ++ log) =
      (!(runIds fin).contains id && inflight id log) := by
  induction fin generalizing log with
  | nil => simp [runIds]
  | cons a fin ih =>
    have : ((a :: fin).map (fun b => LogEv.finished b.1 b.2)).reverse ++ log =
        (fin.map (fun b => LogEv.finished b.1 b.2)).reverse ++ (LogEv.finished a.1 a.2 :: log) := by simp
    rw [this, ih]
    have hc : runIds (a :: fin) = a.2.id :: runIds fin := rfl
    rw [hc, List.contains_cons]
    by_cases h : a.2.id = id
    · simp [inflight, h]
    · have h' : (id == a.2.id) = false := by simpa using fun hh => h hh.symm
      simp [inflight, h, h']

theorem noOverlap_notook_prefix (pre log : List LogEv) (h : pre.filterMap tookRun = []) (hno : NoOverlap log) :
    NoOverlap (pre ++ log) := by
  induction pre with
  | nil => exact hno
  | cons ev pre ih =>
    cases ev with
    | took w r n => simp [tookRun] at h
    | scheduled _ _ _ _ => exact ih (by simpa [tookRun] using h)
    | released _ => exact ih (by simpa [tookRun] using h)
    | finished _ _ => exact ih (by simpa [tookRun] using h)

theorem finisheds_notook (fin : List (Nat × Run)) :
    ((fin.map (fun b => LogEv.finished b.1 b.2)).reverse).filterMap tookRun = [] := by
  rw [List.filterMap_eq_nil_iff]
  intro ev hev
  simp only [List.mem_reverse, List.mem_map] at hev
  obtain ⟨b, _, rfl⟩ := hev
  rfl

/-- splitting the executing runs by a predicate on the task id -/
theorem filter_ids_split (busy : List (Nat × Run)) (p : Nat → Bool) (hn : (busy.map (·.2.id)).Nodup) (id : Nat) :
    id ∈ (busy.filter (fun b => p b.2.id)).map (·.2.id) ↔
      (id ∈ busy.map (·.2.id) ∧ ¬ id ∈ (busy.filter (fun b => !p b.2.id)).map (·.2.id)) := by
  simp only [List.mem_map, List.mem_filter]
  constructor
  · rintro ⟨b, ⟨hb, hp⟩, rfl⟩
    refine ⟨⟨b, hb, rfl⟩, ?_⟩
    rintro ⟨b', ⟨hb', hp'⟩, hid⟩
    rw [hid] at hp'
    simp [hp] at hp'
  · rintro ⟨⟨b, hb, rfl⟩, hnot⟩
    refine ⟨b, ⟨hb, ?_⟩, rfl⟩
    cases hp : p b.2.id with
    | true => rfl
    | false => exact absurd ⟨b, ⟨hb, by simp [hp]⟩, rfl⟩ hnot

theorem invF_finishFree (cfg : Cfg) (blocked : List Nat) {s : State} (hB : InvB cfg s) (hF : InvF s) :
    InvF (finishFree blocked s) := by
  have hlog : (finishFree blocked s).log =
      ((s.busy.filter (fun b => !blocked.contains b.2.id)).map (fun b => LogEv.finished b.1 b.2)).reverse ++ s.log := rfl
  have hbusy : (finishFree blocked s).busy = s.busy.filter (fun b => blocked.contains b.2.id) := rfl
  refine ⟨?_, ?_⟩
  · intro id
    rw [hlog, inflight_finisheds]
    simp only [busyIds, hbusy]
    rw [filter_ids_split s.busy (fun i => blocked.contains i) (busy_ids_nodup hB) id]
    simp only [Bool.and_eq_true, Bool.not_eq_true', ← Bool.not_eq_true, List.contains_iff_mem, runIds]
    rw [hF.busy id]
    constructor
    · rintro ⟨h1, h2⟩; exact ⟨h2, by simpa using h1⟩
    · rintro ⟨h1, h2⟩; exact ⟨by simpa using h2, h1⟩
  · rw [hlog]
    exact noOverlap_notook_prefix _ _ (finisheds_notook _) hF.no

theorem nodup_map_inj {α β : Type} (f : α → β) (l : List α) (h : (l.map f).Nodup) {a b : α}
    (ha : a ∈ l) (hb : b ∈ l) (hf : f a = f b) : a = b := by
  induction l with
  | nil => simp at ha
  | cons y ys ih =>
    simp only [List.map_cons, List.nodup_cons] at h
    rcases List.mem_cons.mp ha with rfl | ha' <;> rcases List.mem_cons.mp hb with rfl | hb'
    · rfl
    · exact absurd (List.mem_map.mpr ⟨b, hb', hf.symm⟩) h.1
    · exact absurd (List.mem_map.mpr ⟨a, ha', hf⟩) h.1
    · exact ih h.2 ha' hb'

theorem invF_step (r : Bool) (cfg : Cfg) {s : State} (hB : InvB cfg s) (hU : InvU s) (hF : InvF s) (e : Ev) :
    InvF (stepEv r cfg s e) := by
  cases e with
  | schedule id c off last =>
    simp only [stepEv]
    cases h : schedule s id c off last with
    | none => simpa using hF
    | some s' =>
      simp only [Option.getD_some]
      obtain ⟨nt, _, rfl⟩ := schedule_some h
      have hb := (armFor_fields s { id := id, next := nt, offset := off, cron := c }).2.2.2.2.1
      exact ⟨by intro i; simp only [busyIds, hb, inflight]; exact hF.busy i, hF.no⟩
  | release id => exact ⟨by intro i; simp only [stepEv, release, busyIds, inflight]; exact hF.busy i, hF.no⟩
  | advance d => exact ⟨hF.busy, hF.no⟩
  | timerFire => simp only [stepEv]; split <;> exact ⟨hF.busy, hF.no⟩
  | wake => simp only [stepEv]; split <;> exact ⟨hF.busy, hF.no⟩
  | iter =>
    simp only [stepEv]
    unfold iter
    split
    · exact hF
    · split
      · exact ⟨hF.busy, hF.no⟩
      · split
        · unfold notDue; split <;> exact ⟨hF.busy, hF.no⟩
        · have hp := invF_processStep cfg hB hU hF
          rcases afterProcess_cases (processStep cfg s) with ⟨_, ha⟩ | ⟨_, _, _, _, ha⟩ | ⟨_, _, _, _, ha⟩ <;>
            rw [ha] <;> exact ⟨hp.busy, hp.no⟩
  | done w =>
    simp only [stepEv]
    cases hf : s.busy.find? (fun b => b.1 == w) with
    | none => exact hF
    | some b =>
      simp only []
      have hbm : b ∈ s.busy := List.mem_of_find?_eq_some hf
      have hbw : b.1 = w := by simpa using List.find?_some hf
      -- the entries on worker w are exactly [b]
      have hsame : ∀ x ∈ s.busy, x.1 = w → x = b := fun x hx hxw =>
        nodup_map_inj (·.1) s.busy hB.uniq hx hbm (by rw [hxw, hbw])
      refine ⟨?_, hF.no⟩
      intro id
      simp only [inflight, busyIds]
      have hnd := busy_ids_nodup hB
      by_cases hid : b.2.id = id
      · simp only [hid, if_true]
        constructor
        · intro h; cases h
        · intro hmem
          exfalso
          obtain ⟨x, hx, hxid⟩ := List.mem_map.mp hmem
          obtain ⟨hx1, hx2⟩ := List.mem_filter.mp hx
          -- x and b have the same id, so they are the same entry, but x.1 ≠ w
          have : x = b := nodup_map_inj (·.2.id) s.busy hnd hx1 hbm (by rw [hxid, hid])
          rw [this, hbw] at hx2
          simp at hx2
      · simp only [hid, if_false]
        rw [hF.busy id]
        simp only [busyIds, List.mem_map, List.mem_filter]
        constructor
        · rintro ⟨x, hx, rfl⟩
          refine ⟨x, ⟨hx, ?_⟩, rfl⟩
          simp
          intro hxw
          exact hid (by rw [hsame x hx hxw])
        · rintro ⟨x, ⟨hx, _⟩, rfl⟩
          exact ⟨x, hx, rfl⟩



/-! ### all invariants, now including the in-flight bookkeeping -/

structure Good2 (cfg : Cfg) (s : State) : Prop where
  g : Good cfg s
  f : InvF s

theorem good2_step (cfg : Cfg) {s : State} (h : Good2 cfg s) (e : Ev) : Good2 cfg (stepEv true cfg s e) :=
  ⟨good_step cfg h.g e, invF_step true cfg h.g.b h.g.l.u h.f e⟩

theorem good2_finishFree (cfg : Cfg) (blocked : List Nat) {s : State} (h : Good2 cfg s) :
    Good2 cfg (finishFree blocked s) :=
  ⟨good_finishFree cfg blocked h.g, invF_finishFree cfg blocked h.g.b h.f⟩

/-- what settles add to the log: runs taken at a time not after `bound`, and completions of runs
    the environment does not hold -/
def SegB (blocked : List Nat) (bound : Int) (seg : List LogEv) : Prop :=
  ∀ ev ∈ seg, (∃ w r n, ev = LogEv.took w r n ∧ n ≤ bound) ∨ (∃ w r, ev = LogEv.finished w r ∧ r.id ∉ blocked)

theorem segB_nil (blocked : List Nat) (bound : Int) : SegB blocked bound [] := by intro ev h; simp at h

theorem segB_append {blocked : List Nat} {bound : Int} {a b : List LogEv} (ha : SegB blocked bound a)
    (hb : SegB blocked bound b) : SegB blocked bound (a ++ b) := by
  intro ev h
  rcases List.mem_append.mp h with h | h
  · exact ha ev h
  · exact hb ev h

theorem segB_mono {blocked : List Nat} {b1 b2 : Int} {seg : List LogEv} (h : SegB blocked b1 seg) (hb : b1 ≤ b2) :
    SegB blocked b2 seg := by
  intro ev hev
  rcases h ev hev with ⟨w, r, n, rfl, hn⟩ | h
  · exact Or.inl ⟨w, r, n, rfl, by omega⟩
  · exact Or.inr h

theorem finishFree_segB (blocked : List Nat) (s : State) (bound : Int) :
    ∃ fs, (finishFree blocked s).log = fs ++ s.log ∧ SegB blocked bound fs := by
  refine ⟨_, rfl, ?_⟩
  intro ev hev
  simp only [List.mem_reverse, List.mem_map, List.mem_filter] at hev
  obtain ⟨b, ⟨_, hb⟩, rfl⟩ := hev
  exact Or.inr ⟨b.1, b.2, rfl, by simpa using hb⟩

theorem seg_nil_of_eq {seg l : List LogEv} (h : l = seg ++ l) : seg = [] := by
  have := congrArg List.length h
  simp only [List.length_append] at this
  exact List.eq_nil_of_length_eq_zero (by omega)

theorem iter_segB (cfg : Cfg) (blocked : List Nat) (s : State) :
    ∃ seg, (iter true cfg s).log = seg ++ s.log ∧ SegB blocked s.now seg := by
  obtain ⟨_, seg, hl, hs⟩ := iter_seg cfg s
  refine ⟨seg, hl, ?_⟩
  intro ev hev
  rcases hs ev hev with ⟨w, r, rfl⟩ | hfin
  · exact Or.inl ⟨w, r, s.now, rfl, Int.le_refl _⟩
  · -- iter adds no completions
    exfalso
    by_cases hlp : s.mode = .looping
    · rcases iter_cases true cfg s hlp with ⟨_, he⟩ | ⟨it, rest, _, _, he⟩ | ⟨it, rest, _, _, he⟩
      · rw [he] at hl
        have : seg = [] := seg_nil_of_eq hl
        rw [this] at hev; simp at hev
      · rw [he, (notDue_queue _ _ _).2] at hl
        have : seg = [] := seg_nil_of_eq hl
        rw [this] at hev; simp at hev
      · rw [he, afterProcess_log] at hl
        have hl2 : (processStep cfg s).log = tooks s.now (dispatch cfg s.now s.queue s.busy).runs ++ s.log := rfl
        rw [hl2] at hl
        have := List.append_cancel_right hl
        rw [← this] at hev
        simp only [tooks, List.mem_reverse, List.mem_map] at hev
        obtain ⟨wr, _, rfl⟩ := hev
        simp [isFinished] at hfin
    · have : iter true cfg s = s := by unfold iter; simp [hlp]
      rw [this] at hl
      have : seg = [] := seg_nil_of_eq hl
      rw [this] at hev; simp at hev

/-- the end of a settle: at rest, or spinning against workers held by the environment -/
def EndOK (cfg : Cfg) (s : State) : Prop :=
  (s.mode = .idle ∧ s.tick = false ∧ timerExpired s = false) ∨
  (s.mode = .looping ∧ (∃ it ∈ s.queue, it.when ≤ s.now) ∧
    ∀ it ∈ s.queue, it.when ≤ s.now → workerBusy s.busy (cfg.wk it.id) = true)

theorem dispatch_no_runs (cfg : Cfg) (now : Int) (q : List Item) (busy : List (Nat × Run)) (hs : Sorted q)
    (hr : (dispatch cfg now q busy).runs = []) :
    (dispatch cfg now q busy).kept = q ∧ (dispatch cfg now q busy).ins = [] ∧
      (dispatch cfg now q busy).busy = busy ∧
      ∀ it ∈ q, it.when ≤ now → workerBusy busy (cfg.wk it.id) = true := by
  induction q generalizing busy with
  | nil => simp [dispatch]
  | cons x rest ih =>
    unfold Sorted at hs
    rw [List.pairwise_cons] at hs
    obtain ⟨hx, hrest⟩ := hs
    unfold dispatch at hr ⊢
    split
    · next hnd =>
      refine ⟨rfl, rfl, rfl, ?_⟩
      intro it hit hdue
      exfalso
      rcases List.mem_cons.mp hit with rfl | hit
      · omega
      · have := le_when (hx it hit); omega
    · next hnd =>
      split
      · next hbusy =>
        simp only [hnd, hbusy, if_true, if_false] at hr
        obtain ⟨h1, h2, h3, h4⟩ := ih busy hrest hr
        refine ⟨by simp [h1], h2, h3, ?_⟩
        intro it hit hdue
        rcases List.mem_cons.mp hit with rfl | hit
        · exact hbusy
        · exact h4 it hit hdue
      · next hfree =>
        exfalso
        simp only [hnd, hfree, if_false] at hr
        cases hc : x.cron x.next <;> simp [hc] at hr


theorem finishFree_busy_blocked (blocked : List Nat) (s : State) :
    ∀ b ∈ (finishFree blocked s).busy, b.2.id ∈ blocked := by
  intro b hb
  have : b ∈ s.busy.filter (fun b => blocked.contains b.2.id) := hb
  simpa using (List.mem_filter.mp this).2

/-- a pass that stays in the loop without dispatching anything: every due item's worker is executing -/
theorem iter_spinning (cfg : Cfg) (s : State) (hs : Sorted s.queue) (hl : s.mode = .looping)
    (h1 : (iter true cfg s).mode = .looping) (h2 : (iter true cfg s).log.length = s.log.length) :
    (iter true cfg s).busy = s.busy ∧ (iter true cfg s).queue = s.queue ∧ (iter true cfg s).now = s.now ∧
      (∃ it ∈ s.queue, it.when ≤ s.now) ∧
      ∀ it ∈ s.queue, it.when ≤ s.now → workerBusy s.busy (cfg.wk it.id) = true := by
  rcases iter_cases true cfg s hl with ⟨_, he⟩ | ⟨it, rest, _, _, he⟩ | ⟨it, rest, _, _, he⟩
  · rw [he] at h1; simp at h1
  · rw [he] at h1; simp [notDue] at h1
  · rcases afterProcess_cases (processStep cfg s) with ⟨_, ha⟩ | ⟨_, _, _, _, ha⟩ | ⟨m, q, hq, hle, ha⟩
    · rw [he, ha] at h1; simp at h1
    · rw [he, ha] at h1; simp at h1
    · have hlog : (iter true cfg s).log = tooks s.now (dispatch cfg s.now s.queue s.busy).runs ++ s.log := by
        rw [he, ha]; rfl
      have hruns : (dispatch cfg s.now s.queue s.busy).runs = [] := by
        rw [hlog] at h2
        simp only [List.length_append, tooks, List.length_reverse, List.length_map] at h2
        exact List.eq_nil_of_length_eq_zero (by omega)
      obtain ⟨hk, hi, hb, hall⟩ := dispatch_no_runs cfg s.now s.queue s.busy hs hruns
      have hqq : (processStep cfg s).queue = s.queue := by
        show reinsert (dispatch cfg s.now s.queue s.busy).ins (dispatch cfg s.now s.queue s.busy).kept = s.queue
        rw [hk, hi]; rfl
      refine ⟨?_, ?_, ?_, ⟨m, by rw [← hqq, hq]; simp, hle⟩, hall⟩
      · rw [he, ha]; exact hb
      · rw [he, ha]
        show reinsert (dispatch cfg s.now s.queue s.busy).ins (dispatch cfg s.now s.queue s.busy).kept = s.queue
        rw [hk, hi]; rfl
      · rw [he, ha]; rfl

theorem settle_spec2 (cfg : Cfg) (blocked : List Nat) (fuel : Nat) (s : State) (hG : Good2 cfg s) :
    Good2 cfg (settle true cfg blocked fuel s).1 ∧
    (settle true cfg blocked fuel s).1.now = s.now ∧
    (∃ seg, (settle true cfg blocked fuel s).1.log = seg ++ s.log ∧ SegB blocked s.now seg) ∧
    ((settle true cfg blocked fuel s).2 ≠ .outOfFuel →
      EndOK cfg (settle true cfg blocked fuel s).1 ∧
      ∀ b ∈ (settle true cfg blocked fuel s).1.busy, b.2.id ∈ blocked) := by
  induction fuel generalizing s with
  | zero =>
    refine ⟨hG, rfl, ⟨[], rfl, segB_nil _ _⟩, ?_⟩
    intro h
    simp [settle] at h
  | succ fuel ih =>
    have hG1 := good2_finishFree cfg blocked hG
    obtain ⟨fs, hfl, hfs⟩ := finishFree_segB blocked s s.now
    have hnow1 : (finishFree blocked s).now = s.now := rfl
    have cont : ∀ s2 : State, Good2 cfg s2 → s2.now = s.now →
        (∃ seg, s2.log = seg ++ s.log ∧ SegB blocked s.now seg) →
        (Good2 cfg (settle true cfg blocked fuel s2).1 ∧
          (settle true cfg blocked fuel s2).1.now = s.now ∧
          (∃ seg, (settle true cfg blocked fuel s2).1.log = seg ++ s.log ∧ SegB blocked s.now seg) ∧
          ((settle true cfg blocked fuel s2).2 ≠ .outOfFuel →
            EndOK cfg (settle true cfg blocked fuel s2).1 ∧
            ∀ b ∈ (settle true cfg blocked fuel s2).1.busy, b.2.id ∈ blocked)) := by
      intro s2 hG2 hn2 ⟨seg2, hl2, hs2⟩
      obtain ⟨h1, h2, ⟨seg3, hl3, hs3⟩, h4⟩ := ih s2 hG2
      refine ⟨h1, by rw [h2, hn2], ⟨seg3 ++ seg2, by rw [hl3, hl2, List.append_assoc], ?_⟩, h4⟩
      exact segB_append (hn2 ▸ hs3) hs2
    simp only [settle]
    split
    · apply cont
      · exact good2_step cfg hG1 .timerFire
      · simp only [stepEv]; split <;> rfl
      · refine ⟨fs, ?_, hfs⟩
        simp only [stepEv]; split <;> exact hfl
    · split
      · apply cont
        · exact good2_step cfg hG1 .wake
        · simp only [stepEv]; split <;> rfl
        · refine ⟨fs, ?_, hfs⟩
          simp only [stepEv]; split <;> exact hfl
      · split
        · next hlp =>
          obtain ⟨segi, hli, hsi⟩ := iter_segB cfg blocked (finishFree blocked s)
          have hin := iter_now cfg (finishFree blocked s)
          have hGi : Good2 cfg (iter true cfg (finishFree blocked s)) := good2_step cfg hG1 .iter
          split
          · next hsp =>
            refine ⟨hGi, by rw [hin, hnow1], ⟨segi ++ fs, by rw [hli, hfl, List.append_assoc],
              segB_append (hnow1 ▸ hsi) hfs⟩, ?_⟩
            intro _
            obtain ⟨hb, hq, hn, ⟨itd, hitd, hdued⟩, hall⟩ :=
              iter_spinning cfg (finishFree blocked s) hG1.g.t.sorted hlp hsp.1 hsp.2
            refine ⟨Or.inr ⟨hsp.1, ⟨itd, by rw [hq]; exact hitd, by rw [hn]; exact hdued⟩, ?_⟩, ?_⟩
            · intro it hit hdue
              rw [hq] at hit
              rw [hn] at hdue
              rw [hb]
              exact hall it hit hdue
            · rw [hb]; exact finishFree_busy_blocked blocked s
          · apply cont
            · exact hGi
            · rw [hin, hnow1]
            · exact ⟨segi ++ fs, by rw [hli, hfl, List.append_assoc], segB_append (hnow1 ▸ hsi) hfs⟩
        · next hne hni hnl =>
          refine ⟨hG1, rfl, ⟨fs, hfl, hfs⟩, ?_⟩
          intro _
          have hmode : (finishFree blocked s).mode = .idle := by
            cases hm : (finishFree blocked s).mode with
            | idle => rfl
            | looping => exact absurd hm hnl
          refine ⟨Or.inl ⟨hmode, ?_, by simpa using hne⟩, finishFree_busy_blocked blocked s⟩
          cases ht : (finishFree blocked s).tick with
          | false => rfl
          | true => exact absurd ⟨hmode, ht⟩ hni

end Influx.Lemmas.Sched
