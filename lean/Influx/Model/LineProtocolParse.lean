/-
  Influx.Model.LineProtocolParse — `ParsePointsWithPrecision` and everything
  below it (points.go:358-1270), `strconv.ParseInt/ParseUint/ParseBool` and the
  *acceptance* (syntax + range) of `strconv.ParseFloat`, `SafeCalcTime`.

  Go index loops are recursion over the remaining suffix; look-behind bytes are
  arguments.  Where Go could index out of range the model answers
  `Err.panic`.  Loops whose next position is the result of a sub-scanner are
  written either as one state machine over the bytes (scanFields, scanLine) or
  with a fuel argument equal to the buffer length (scanTags, walkFields).
-/
import Influx.Model.LineProtocol

namespace Influx.LP
open Influx.Generated.LineProto

/-! ### errors (rendered to Go's message text by `Err.msg`) -/

inductive Err
  | missingMeasurement | missingFields | missingTagKey | missingTagValue | invalidTagFormat
  | reservedTag (k : Bytes) | duplicateTags | maxKey (n : Nat)
  | missingFieldKey | missingFieldValue | invalidNumber
  | intParse (tok : Bytes) (range : Bool) | uintParse (tok : Bytes) (range : Bool) | invalidFloat
  | invalidBoolean | unbalancedQuotes | invalidFieldFormat | invalidValue (k : Bytes)
  | badTimestamp | tsParse (tok : Bytes) (range : Bool) | timeOutOfRange | invalidPoint
  | panic (what : String)
deriving DecidableEq, Repr

/-! ### decimal numbers -/

def isDigit (b : Nat) : Bool := 48 ≤ b && b ≤ 57

/-- value of a string of ASCII digits (no check) -/
def digitsVal (ds : Bytes) : Nat := ds.foldl (fun acc d => 10 * acc + (d - 48)) 0

/-- `strconv.ParseUint(s, 10, 64)`: `ok v` | `error range?` -/
def parseUintGo (s : Bytes) : Except Bool Nat :=
  if s.isEmpty || !s.all isDigit then .error false
  else if digitsVal s < 2 ^ 64 then .ok (digitsVal s) else .error true

/-- `strconv.ParseInt(s, 10, 64)` -/
def parseIntGo (s : Bytes) : Except Bool Int :=
  let neg := s.head? = some 45
  let body := if s.head? = some 45 ∨ s.head? = some 43 then s.drop 1 else s
  if body.isEmpty || !body.all isDigit then .error false
  else
    let v := digitsVal body
    if neg then (if v ≤ 2 ^ 63 then .ok (-(v : Int)) else .error true)
    else (if v < 2 ^ 63 then .ok (v : Int) else .error true)

/-- `strconv.ParseBool` -/
def parseBoolGo (s : Bytes) : Option Bool :=
  if s = str "1" ∨ s = str "t" ∨ s = str "T" ∨ s = str "TRUE" ∨ s = str "true" ∨ s = str "True" then some true
  else if s = str "0" ∨ s = str "f" ∨ s = str "F" ∨ s = str "FALSE" ∨ s = str "false" ∨ s = str "False" then some false
  else none

/-! ### acceptance of `strconv.ParseFloat(s, 64)` on the alphabet `[0-9.eE+-]`
    (the only bytes `scanNumber` lets through): decimal syntax of `readFloat`, and the
    overflow test "rounds to ≥ 2^1024", i.e. value ≥ 2^1024 − 2^970 (correct rounding,
    ties to even).  Underflow is not an error in Go.  Mantissas longer than 800 digits
    (truncated by `strconv`) are outside the model's claim. -/

structure FloatSyn where
  mant : Nat        -- all mantissa digits as an integer
  nd : Nat          -- number of mantissa digits (incl. leading zeros)
  frac : Nat        -- digits after the point
  eneg : Bool
  exp : Nat
deriving Repr

/-- split off a run of digits -/
def spanDigits : Bytes → Bytes × Bytes
  | [] => ([], [])
  | b :: rest => if isDigit b then (b :: (spanDigits rest).1, (spanDigits rest).2) else ([], b :: rest)

def floatSyntax (s : Bytes) : Option FloatSyn :=
  let s := if s.head? = some 45 ∨ s.head? = some 43 then s.drop 1 else s
  let ip := spanDigits s
  let fp : Bytes × Bytes := match ip.2 with
    | 46 :: r => spanDigits r
    | r => ([], r)
  let digs := ip.1 ++ fp.1
  if digs.isEmpty then none else
  match fp.2 with
  | [] => some ⟨digitsVal digs, digs.length, fp.1.length, false, 0⟩
  | e :: r =>
    if e = 101 ∨ e = 69 then
      let eneg := r.head? = some 45
      let r := if r.head? = some 45 ∨ r.head? = some 43 then r.drop 1 else r
      let ed := spanDigits r
      if ed.1.isEmpty ∨ ¬ ed.2.isEmpty then none
      else some ⟨digitsVal digs, digs.length, fp.1.length, eneg, digitsVal ed.1⟩
    else none

/-- number of decimal digits of a positive number, by fuel -/
def numDigitsAux : Nat → Nat → Nat
  | 0, _ => 0
  | f + 1, n => if n < 10 then 1 else 1 + numDigitsAux f (n / 10)
def numDigits (n : Nat) : Nat := numDigitsAux (n + 1) n

def floatOverflowThreshold : Nat := 2 ^ 1024 - 2 ^ 970

/-- does `mant × 10^(±exp − frac)` round to ±Inf? -/
def floatOverflows (f : FloatSyn) : Bool :=
  if f.mant = 0 then false else
  let e10 : Int := (if f.eneg then -(f.exp : Int) else (f.exp : Int)) - (f.frac : Int)
  let top : Int := (numDigits f.mant : Int) + e10   -- value < 10^top, value ≥ 10^(top-1)
  if top > 310 then true
  else if top < 300 then false
  else if e10 ≥ 0 then f.mant * 10 ^ e10.toNat ≥ floatOverflowThreshold
  else f.mant ≥ floatOverflowThreshold * 10 ^ (-e10).toNat

/-- `parseFloatBytes(tok, 64)` returns no error -/
def parseFloatOk (tok : Bytes) : Bool :=
  match floatSyntax tok with
  | none => false
  | some f => !floatOverflows f

/-! ### scanNumber / scanBoolean on the token (the bytes up to the next ',' / ' ' / end) -/

def isNumeric (b : Nat) : Bool := isDigit b || b == 46

structure NumSt where
  isInt : Bool := false
  isUnsigned : Bool := false
  decimal : Bool := false
  scientific : Bool := false

/-- the `for` loop of `scanNumber`; `atStart` = (i == start), `prev` = buf[i-1] -/
def scanNumberLoop : NumSt → Bool → Nat → Bytes → Option NumSt
  | st, _, _, [] => some st
  | st, atStart, prev, b :: rest =>
    if b = 105 ∧ !atStart ∧ !(st.isInt || st.isUnsigned) then
      scanNumberLoop { st with isInt := true } false b rest
    else if b = 117 ∧ !atStart ∧ !(st.isInt || st.isUnsigned) then
      scanNumberLoop { st with isUnsigned := true } false b rest
    else if b = 46 ∧ st.decimal then none
    else
      let st := if b = 46 then { st with decimal := true } else st
      if !atStart ∧ (b = 101 ∨ b = 69) then scanNumberLoop { st with scientific := true } false b rest
      else if (b = 43 ∨ b = 45) ∧ (prev = 101 ∨ prev = 69) then scanNumberLoop st false b rest
      else if !isNumeric b then none
      else scanNumberLoop st false b rest

/-- the errors `scanNumber` can return -/
inductive NumErr
  | invalidNumber | intParse (tok : Bytes) (range : Bool) | uintParse (tok : Bytes) (range : Bool) | invalidFloat
deriving DecidableEq, Repr

def NumErr.toErr : NumErr → Err
  | .invalidNumber => .invalidNumber
  | .intParse t r => .intParse t r
  | .uintParse t r => .uintParse t r
  | .invalidFloat => .invalidFloat

/-- `scanNumber(buf, start)` where `tok` = buf[start : next ',' or ' ' or end] (non-empty) -/
def checkNumber (tok : Bytes) : Except NumErr Unit :=
  let neg := tok.head? = some 45
  let body := if neg then tok.drop 1 else tok
  -- "-" at the very end of the buffer and "-," both end as ErrInvalidNumber
  match scanNumberLoop {} (!neg) (if neg then 45 else cEq) body with
  | none => .error .invalidNumber
  | some st =>
    if (st.isInt || st.isUnsigned) && (st.decimal || st.scientific) then .error .invalidNumber else
    let nd := tok.length - (if st.isInt then 1 else 0) - (if st.decimal then 1 else 0) - (if neg then 1 else 0)
    if nd = 0 then .error .invalidNumber else
    if st.isInt then
      if tok.getLast? ≠ some 105 then .error .invalidNumber else
      let b := tok.dropLast
      if b.length ≥ maxInt64Digits ∨ b.length ≥ minInt64Digits then
        match parseIntGo b with
        | .ok _ => .ok ()
        | .error r => .error (.intParse b r)
      else .ok ()
    else if st.isUnsigned then
      if tok.getLast? ≠ some 117 then .error .invalidNumber else
      if neg then .error .invalidNumber else
      let b := tok.dropLast
      if b.length ≥ maxUint64Digits then
        match parseUintGo b with
        | .ok _ => .ok ()
        | .error r => .error (.uintParse b r)
      else .ok ()
    else
      if st.scientific ∨ tok.length ≥ maxFloat64Digits ∨ tok.length ≥ minFloat64Digits then
        if parseFloatOk tok then .ok () else .error .invalidFloat
      else .ok ()

/-- `scanBoolean(buf, start)` on the token -/
def checkBoolean (tok : Bytes) : Except Err Unit :=
  match tok with
  | [] => .error .invalidBoolean
  | c :: _ =>
    if c ≠ 116 ∧ c ≠ 102 ∧ c ≠ 84 ∧ c ≠ 70 then .error .invalidBoolean
    else if tok.length = 1 then .ok ()
    else if (c = 116 ∨ c = 84) ∧ tok.length ≠ 4 then .error .invalidBoolean
    else if (c = 102 ∨ c = 70) ∧ tok.length ≠ 5 then .error .invalidBoolean
    else
      let valid :=
        if c = 116 then tok = str "true"
        else if c = 102 then tok = str "false"
        else if c = 84 then tok = str "TRUE" ∨ tok = str "True"
        else tok = str "FALSE" ∨ tok = str "False"
      if valid then .ok () else .error .invalidBoolean

/-! ### skipWhitespace, scanLine -/

def isWs (b : Nat) : Bool := b == 32 || b == 9 || b == 0

def skipWhitespace : Bytes → Bytes
  | [] => []
  | b :: rest => if isWs b then skipWhitespace rest else b :: rest

structure LineSt where
  quoted : Bool := false
  fields : Bool := false
  equals : Nat := 0
  commas : Nat := 0
deriving DecidableEq, Repr

/-- one iteration of `scanLine` on a byte that is not skipped as part of an escape pair;
    `none`: the line ends before this byte -/
def LineSt.step (s : LineSt) (b : Nat) : Option LineSt :=
  let s := if b = cSpace then { s with fields := true } else s
  if s.fields ∧ !s.quoted ∧ b = cEq then some { s with equals := s.equals + 1 }
  else if s.fields ∧ !s.quoted ∧ b = cComma then some { s with commas := s.commas + 1 }
  else if s.fields ∧ b = cQuote ∧ s.equals > s.commas then some { s with quoted := !s.quoted }
  else if b = cNL ∧ !s.quoted then none
  else some s

def consHead (b : Nat) : List Bytes → List Bytes
  | [] => [[b]]
  | l :: ls => (b :: l) :: ls

def hasTwo : Bytes → Bool
  | _ :: _ :: _ => true
  | _ => false

/-- the outer loop of `ParsePointsWithPrecision` with `scanLine`: the blocks, in order.
    `skip` = this byte is the second of an escape pair (`buf[i]=='\\' && i+2 < len`). -/
def splitLines : Bool → LineSt → Bytes → List Bytes
  | _, _, [] => [[]]
  | true, s, b :: rest => consHead b (splitLines false s rest)
  | false, s, b :: rest =>
    if b = cBS ∧ hasTwo rest then consHead b (splitLines true s rest)
    else match s.step b with
      | none => [] :: splitLines false {} rest
      | some s' => consHead b (splitLines false s' rest)

/-- what `ParsePointsWithPrecision` hands to `parsePoint` for a block (`none`: skipped) -/
def lineOfBlock (block : Bytes) : Option Bytes :=
  match skipWhitespace block with
  | [] => none
  | c :: t =>
    if c = 35 then none
    else some (if (c :: t).getLast? = some cNL then (c :: t).dropLast else c :: t)

/-! ### scanKey -/

/-- loop of `scanTagsKey`; returns (key bytes, rest after '=') -/
def scanTagsKeyAux : Nat → Bytes → Except Err (Bytes × Bytes)
  | _, [] => .error .missingTagValue
  | prev, b :: rest =>
    if (b = cSpace ∨ b = cComma) ∧ prev ≠ cBS then .error .missingTagValue
    else if b = cEq ∧ prev ≠ cBS then .ok ([], rest)
    else match scanTagsKeyAux b rest with
      | .ok (k, r) => .ok (b :: k, r)
      | .error e => .error e

def scanTagsKey : Bytes → Except Err (Bytes × Bytes)
  | [] => .error .missingTagKey
  | b :: rest =>
    if b = cSpace ∨ b = cComma ∨ b = cEq then .error .missingTagKey
    else match scanTagsKeyAux b rest with
      | .ok (k, r) => .ok (b :: k, r)
      | .error e => .error e

inductive TagEnd
  | key (rest : Bytes)       -- after an unescaped comma
  | fields (rest : Bytes)    -- at an unescaped space
deriving DecidableEq, Repr

def scanTagsValueAux : Nat → Bytes → Except Err (Bytes × TagEnd)
  | _, [] => .error .missingFields
  | prev, b :: rest =>
    if b = cEq ∧ prev ≠ cBS then .error .invalidTagFormat
    else if b = cComma ∧ prev ≠ cBS then .ok ([], .key rest)
    else if b = cSpace ∧ prev ≠ cBS then .ok ([], .fields (b :: rest))
    else match scanTagsValueAux b rest with
      | .ok (v, e) => .ok (b :: v, e)
      | .error e => .error e

def scanTagsValue : Bytes → Except Err (Bytes × TagEnd)
  | [] => .error .missingTagValue
  | b :: rest =>
    if b = cComma ∨ b = cSpace then .error .missingTagValue
    else match scanTagsValueAux b rest with
      | .ok (v, e) => .ok (b :: v, e)
      | .error e => .error e

/-- `scanTags`: the raw tags `k=v` (buf[indices[j] : indices[j+1]-1]) and the rest, which
    starts at the space before the fields.  `fuel` ≥ number of tags. -/
def scanTags : Nat → Bytes → Except Err (List Bytes × Bytes)
  | 0, _ => .error (.panic "scanTags fuel")
  | fuel + 1, buf =>
    match scanTagsKey buf with
    | .error e => .error e
    | .ok (k, r1) =>
      match scanTagsValue r1 with
      | .error e => .error e
      | .ok (v, .fields r2) => .ok ([k ++ cEq :: v], r2)
      | .ok (v, .key r2) =>
        match scanTags fuel r2 with
        | .error e => .error e
        | .ok (ts, r) => .ok ((k ++ cEq :: v) :: ts, r)

/-- `reservedTagKeys` (points.go:39) -/
def reservedTagKeys : List Bytes :=
  [[255], [0], str reservedFieldTagKey, str reservedMeasurementTagKey, str reservedTimeTagKey]

/-- the tag key as scanKey sees it: `scanTo(tag, 0, '=')` -/
def rawTagKey (raw : Bytes) : Bytes := (scanTo cEq false raw).1

/-- first pass for sortedness: `ok sorted?` or the duplicate error -/
def checkSorted : List Bytes → Except Err Bool
  | [] => .ok true
  | [_] => .ok true
  | a :: b :: rest =>
    match cmpBytes a b with
    | .gt => .ok false
    | .eq => .error .duplicateTags
    | .lt => checkSorted (b :: rest)

/-- inner loop of `insertionSort`: `x` moves left past every element it is smaller than;
    the prefix is given reversed (nearest neighbour first). -/
def insertLeft (lt : α → α → Bool) (x : α) : List α → List α
  | [] => [x]
  | y :: ys => if lt x y then y :: insertLeft lt x ys else x :: y :: ys

/-- `insertionSort(0, n, buf, indices)` -/
def insertionSort (lt : α → α → Bool) (l : List α) : List α :=
  (l.foldl (fun revPre x => insertLeft lt x revPre) []).reverse

/-- `scanToSpaceOr(buf, i, ',')` on the suffix; `none` = index out of range -/
def scanToSpaceOrAux : Nat → Bytes → Option Bytes
  | prev, [] => if prev = cBS then none else some []
  | prev, b :: rest =>
    if prev ≠ cBS ∧ (b = cComma ∨ b = cSpace) then some []
    else (scanToSpaceOrAux b rest).map (b :: ·)

def scanToSpaceOr : Bytes → Option Bytes
  | [] => none
  | b :: rest => if b = cComma ∨ b = cSpace then some [] else (scanToSpaceOrAux b rest).map (b :: ·)

def adjacentDup : List Bytes → Bool
  | [] => false
  | [_] => false
  | a :: b :: rest => a == b || adjacentDup (b :: rest)

/-- suffixes of the buffer at each tag start: raw_j ++ ',' ++ raw_{j+1} ++ … ++ rest -/
def tagSuffixes : List Bytes → Bytes → List Bytes
  | [], _ => []
  | t :: ts, rest =>
    (t ++ (ts.flatMap fun u => cComma :: u) ++ rest) :: tagSuffixes ts rest

/-- the unsorted path of `scanKey`: sort the tag start indices, rebuild the key, look for
    duplicates among neighbours -/
def scanKeySort (name : Bytes) (raws : List Bytes) (rest : Bytes) : Except Err (Bytes × Bytes) :=
  match (insertionSort (fun a b => cmpBytes (rawTagKey a) (rawTagKey b) == .lt) (tagSuffixes raws rest)).mapM
      scanToSpaceOr with
  | none => .error (.panic "scanToSpaceOr")
  | some vs =>
    if adjacentDup ((insertionSort (fun a b => cmpBytes (rawTagKey a) (rawTagKey b) == .lt)
        (tagSuffixes raws rest)).map rawTagKey) then .error .duplicateTags
    else .ok (name ++ (vs.flatMap fun v => cComma :: v), rest)

/-- `scanKey` after the measurement when tags follow (`r0` starts after the first comma) -/
def scanKeyTags (name r0 : Bytes) : Except Err (Bytes × Bytes) :=
  match scanTags (r0.length + 1) r0 with
  | .error e => .error e
  | .ok (raws, rest) =>
    match raws.find? (fun t => reservedTagKeys.contains (rawTagKey t)) with
    | some t => .error (.reservedTag (rawTagKey t))
    | none =>
      match checkSorted (raws.map rawTagKey) with
      | .error e => .error e
      | .ok true => .ok (name ++ (raws.flatMap fun t => cComma :: t), rest)
      | .ok false => scanKeySort name raws rest

/-- `scanKey(buf, 0)`: (key, rest starting at the space) -/
def scanKey (buf0 : Bytes) : Except Err (Bytes × Bytes) :=
  match scanMeasurement (skipWhitespace buf0) with
  | (_, .noname) => .error .missingMeasurement
  | (_, .eof) => .error .missingFields
  | (name, .fields rest) => .ok (name, rest)
  | (name, .tags r0) => scanKeyTags name r0

/-! ### scanFields -/

inductive FMode
  | normal
  | skip                      -- second byte of an escape pair
  | num (revTok : Bytes)      -- inside scanNumber
  | bool (revTok : Bytes)     -- inside scanBoolean
deriving DecidableEq, Repr

structure FSt where
  quoted : Bool := false
  equals : Nat := 0
  commas : Nat := 0
  p1 : Nat       -- buf[i-1]
  p2 : Nat       -- buf[i-2]
deriving DecidableEq, Repr

def FSt.push (s : FSt) (b : Nat) : FSt := { s with p1 := b, p2 := s.p1 }

/-- checks after the loop of `scanFields` -/
def FSt.finish (s : FSt) (rest : Bytes) : Except Err (Bytes × Bytes) :=
  if s.quoted then .error .unbalancedQuotes
  else if s.equals = 0 ∨ s.commas ≠ s.equals - 1 then .error .invalidFieldFormat
  else .ok ([], rest)

def consOk (b : Nat) : Except Err (Bytes × Bytes) → Except Err (Bytes × Bytes)
  | .ok (f, r) => .ok (b :: f, r)
  | .error e => .error e

/-- the loop of `scanFields` from the first field byte: (fields bytes, rest) -/
def scanFieldsM : FMode → FSt → Bytes → Except Err (Bytes × Bytes)
  | .normal, s, [] => s.finish []
  | .skip, s, [] => s.finish []          -- unreachable: skip is entered only when a byte follows
  | .num t, s, [] =>
    match checkNumber t.reverse with
    | .error e => .error e.toErr
    | .ok _ => s.finish []
  | .bool t, s, [] =>
    match checkBoolean t.reverse with
    | .error e => .error e
    | .ok _ => s.finish []
  | .skip, s, b :: rest => consOk b (scanFieldsM .normal (s.push b) rest)
  | .num t, s, b :: rest =>
    if b = cComma ∨ b = cSpace then
      match checkNumber t.reverse with
      | .error e => .error e.toErr
      | .ok _ =>
        -- back in the main loop at the delimiter (not quoted here)
        if b = cComma then consOk b (scanFieldsM .normal ({ s with commas := s.commas + 1 }.push b) rest)
        else s.finish (b :: rest)
    else consOk b (scanFieldsM (.num (b :: t)) (s.push b) rest)
  | .bool t, s, b :: rest =>
    if b = cComma ∨ b = cSpace then
      match checkBoolean t.reverse with
      | .error e => .error e
      | .ok _ =>
        if b = cComma then consOk b (scanFieldsM .normal ({ s with commas := s.commas + 1 }.push b) rest)
        else s.finish (b :: rest)
    else consOk b (scanFieldsM (.bool (b :: t)) (s.push b) rest)
  | .normal, s, b :: rest =>
    if b = cBS ∧ !rest.isEmpty then consOk b (scanFieldsM .skip (s.push b) rest)
    else if b = cQuote ∧ s.equals > s.commas then
      consOk b (scanFieldsM .normal ({ s with quoted := !s.quoted }.push b) rest)
    else if b = cEq ∧ !s.quoted then
      let s := { s with equals := s.equals + 1 }
      if s.p1 = cSpace ∧ s.p2 ≠ cBS then .error .missingFieldKey
      else if s.p1 = cComma ∧ s.p2 ≠ cBS then .error .missingFieldKey
      else match rest with
        | [] => .error .missingFieldValue
        | c :: _ =>
          if c = cComma ∨ c = cSpace then .error .missingFieldValue
          else if isNumeric c ∨ c = 45 ∨ c = 78 ∨ c = 110 then
            consOk b (scanFieldsM (.num []) (s.push b) rest)
          else if c ≠ cQuote then consOk b (scanFieldsM (.bool []) (s.push b) rest)
          else consOk b (scanFieldsM .normal (s.push b) rest)
    else if b = cSpace ∧ !s.quoted then s.finish (b :: rest)
    else
      let s := if b = cComma ∧ !s.quoted then { s with commas := s.commas + 1 } else s
      consOk b (scanFieldsM .normal (s.push b) rest)

/-- the last two bytes of a (non-empty) consumed prefix, most recent first -/
def lastTwo (pre : Bytes) : Option (Nat × Nat) :=
  match pre.reverse with
  | a :: b :: _ => some (a, b)
  | _ => none

/-- `scanFields(buf, i)` where `pre` = buf[:i] and `rest` = buf[i:] -/
def scanFields (pre rest : Bytes) : Except Err (Bytes × Bytes) :=
  let ws := rest.length - (skipWhitespace rest).length
  match lastTwo (pre ++ rest.take ws) with
  | none => .error (.panic "scanFields lookbehind")
  | some (p1, p2) => scanFieldsM .normal { p1 := p1, p2 := p2 } (skipWhitespace rest)

/-! ### walkFields -/

/-- `scanFieldValue(buf, 0)`; `skip`: second byte of `\"` or `\\` -/
def scanFieldValue : Bool → Bool → Bytes → Bytes × Bytes
  | _, _, [] => ([], [])
  | true, q, b :: rest => (b :: (scanFieldValue false q rest).1, (scanFieldValue false q rest).2)
  | false, q, b :: rest =>
    if b = cBS ∧ (rest.head? = some cQuote ∨ rest.head? = some cBS) then
      (b :: (scanFieldValue true q rest).1, (scanFieldValue true q rest).2)
    else if b = cQuote then (b :: (scanFieldValue false (!q) rest).1, (scanFieldValue false (!q) rest).2)
    else if b = cComma ∧ !q then ([], b :: rest)
    else (b :: (scanFieldValue false q rest).1, (scanFieldValue false q rest).2)

/-- `walkFields(fields, fn)` collecting (raw key, raw value); `Err.invalidValue` as in Go -/
def walkFields : Nat → Bytes → Except Err (List (Bytes × Bytes))
  | 0, _ => .ok []
  | _, [] => .ok []
  | fuel + 1, b :: r =>
    let s1 := scanTo cEq false (b :: r)
    if s1.2.length < 2 then .error (.invalidValue s1.1)
    else
      let s2 := scanFieldValue false false (s1.2.drop 1)
      match walkFields fuel (s2.2.drop 1) with
      | .error e => .error e
      | .ok fs => .ok ((s1.1, s2.1) :: fs)

/-- the callback of parsePoint: first field whose series key is too long -/
def firstTooLong (keyLen : Nat) : List (Bytes × Bytes) → Option Nat
  | [] => none
  | (k, _) :: rest =>
    if keyLen + 4 + k.length > MaxKeyLength then some (keyLen + 4 + k.length) else firstTooLong keyLen rest

/-- walkFields with the callback of parsePoint (max key length, and — since the fix
    fixes/C12-lone-quote-value-panic.patch — no lone `"` as a value): the walk stops at the
    first offending field, so a later `invalid value` is not reported. -/
def walkFieldsCheck (keyLen : Nat) : Nat → Bytes → Except Err Unit
  | 0, _ => .ok ()
  | _, [] => .ok ()
  | fuel + 1, b :: r =>
    let s1 := scanTo cEq false (b :: r)
    if s1.2.length < 2 then .error (.invalidValue s1.1)
    else if keyLen + 4 + s1.1.length > MaxKeyLength then .error (.maxKey (keyLen + 4 + s1.1.length))
    else
      let s2 := scanFieldValue false false (s1.2.drop 1)
      -- fix C12-lone-quote-value-panic: a lone `"` is not a value
      if s2.1 = [cQuote] then .error .unbalancedQuotes
      else walkFieldsCheck keyLen fuel (s2.2.drop 1)

/-! ### scanTime, SafeCalcTime -/

/-- loop of `scanTime`: (timestamp bytes, rest) -/
def scanTimeAux : Bool → Bytes → Except Err (Bytes × Bytes)
  | _, [] => .ok ([], [])
  | atStart, b :: rest =>
    if b = cNL ∨ b = cSpace then .ok ([], b :: rest)
    else if atStart ∧ b = 45 then consOk b (scanTimeAux false rest)
    else if b < 48 ∨ b > 57 then .error .badTimestamp
    else consOk b (scanTimeAux false rest)

def scanTime (rest : Bytes) : Except Err (Bytes × Bytes) := scanTimeAux true (skipWhitespace rest)

/-- `GetPrecisionMultiplier` -/
def precisionMultiplier (prec : String) : Int :=
  if prec = "us" then 1000 else if prec = "ms" then 1000000 else if prec = "s" then 1000000000 else 1

/-- `safeSignedMult` on int64 (wrapping product `c`, test `c/b == a`) -/
def wrap64 (x : Int) : Int := ((x + 2 ^ 63) % 2 ^ 64) - 2 ^ 63

def safeSignedMult (a b : Int) : Int × Bool :=
  if a = 0 ∨ b = 0 ∨ a = 1 ∨ b = 1 then (wrap64 (a * b), true)
  else if a = MinNanoTime ∨ b = MaxNanoTime then (0, false)
  else (wrap64 (a * b), decide (Int.tdiv (wrap64 (a * b)) b = a))

/-- `SafeCalcTime` + `CheckTime`: unix nanoseconds -/
def safeCalcTime (ts : Int) (prec : String) : Except Err Int :=
  match safeSignedMult ts (precisionMultiplier prec) with
  | (t, true) => if t < MinNanoTime ∨ t > MaxNanoTime then .error .timeOutOfRange else .ok t
  | (_, false) => .error .timeOutOfRange

/-- `SetPrecision` applied to the default time (`Time.Truncate`, floor for our multiples) -/
def truncDuration (prec : String) : Int :=
  if prec = "u" ∨ prec = "us" then 1000
  else if prec = "ms" then 1000000
  else if prec = "s" then 1000000000
  else if prec = "m" then 60000000000
  else if prec = "h" then 3600000000000
  else 1

/-- the truncated time read back with `UnixNano()` (which wraps below the int64 range) -/
def truncTime (t : Int) (prec : String) : Int := wrap64 (t - t % truncDuration prec)

/-! ### parsePoint -/

structure Point where
  key : Bytes
  fields : Bytes
  time : Int
deriving DecidableEq, Repr

/-- `parsePoint(buf, defaultTime, precision)` -/
def parsePoint (buf : Bytes) (defaultTime : Int) (prec : String) : Except Err Point :=
  match scanKey buf with
  | .error e => .error e
  | .ok (key, rest) =>
    if key.isEmpty then .error .missingMeasurement
    else if key.length > MaxKeyLength then .error (.maxKey key.length)
    else
      -- bytes of buf before `rest` (for scanFields' look-behind)
      let pre := (skipWhitespace buf).take ((skipWhitespace buf).length - rest.length)
      match scanFields pre rest with
      | .error e => .error e
      | .ok (fields, rest2) =>
        if fields.isEmpty then .error .missingFields
        else match walkFieldsCheck key.length (fields.length + 1) fields with
          | .error e => .error e
          | .ok _ =>
            match scanTime rest2 with
            | .error e => .error e
            | .ok (ts, rest3) =>
              if ts.isEmpty then .ok ⟨key, fields, truncTime defaultTime prec⟩
              else match parseIntGo ts with
                | .error r => .error (.tsParse ts r)
                | .ok v =>
                  match safeCalcTime v prec with
                  | .error e => .error e
                  | .ok t =>
                    if rest3.all (· == cSpace) then .ok ⟨key, fields, t⟩ else .error .invalidPoint

/-- `ParsePointsWithPrecision`: per candidate line, in order: the text and the result -/
def parseLines (buf : Bytes) (defaultTime : Int) (prec : String) : List (Bytes × Except Err Point) :=
  (splitLines false {} buf).filterMap fun block =>
    (lineOfBlock block).map fun line => (line, parsePoint line defaultTime prec)

def okPoints (rs : List (Bytes × Except Err Point)) : List Point :=
  rs.filterMap fun r => match r.2 with | .ok p => some p | .error _ => none

def failedLines (rs : List (Bytes × Except Err Point)) : List (Bytes × Err) :=
  rs.filterMap fun r => match r.2 with | .ok _ => none | .error e => some (r.1, e)

/-! ### error text -/

/-- decimal digits of a natural number -/
def natDigitsAux : Nat → Nat → Bytes → Bytes
  | 0, _, acc => acc
  | f + 1, n, acc => if n < 10 then (48 + n) :: acc else natDigitsAux f (n / 10) ((48 + n % 10) :: acc)
def natDigits (n : Nat) : Bytes := natDigitsAux (n + 1) n []
def intDigits (i : Int) : Bytes := if i < 0 then 45 :: natDigits i.natAbs else natDigits i.natAbs

def quoteReserved (k : Bytes) : Bytes :=
  if k = [255] then str "\"\\xff\"" else if k = [0] then str "\"\\x00\"" else cQuote :: k ++ [cQuote]

def numErrText (fn : String) (tok : Bytes) (range : Bool) : Bytes :=
  str "strconv." ++ str fn ++ str ": parsing \"" ++ tok ++ str "\": " ++
    (if range then str "value out of range" else str "invalid syntax")

def Err.msg : Err → Bytes
  | .missingMeasurement => str "missing measurement"
  | .missingFields => str "missing fields"
  | .missingTagKey => str "missing tag key"
  | .missingTagValue => str "missing tag value"
  | .invalidTagFormat => str "invalid tag format"
  | .reservedTag k => str "cannot use reserved tag key " ++ quoteReserved k
  | .duplicateTags => str "duplicate tags"
  | .maxKey n => str "max key length exceeded: " ++ natDigits n ++ str " > " ++ natDigits MaxKeyLength
  | .missingFieldKey => str "missing field key"
  | .missingFieldValue => str "missing field value"
  | .invalidNumber => str "invalid number"
  | .intParse tok r => str "unable to parse integer " ++ tok ++ str ": " ++ numErrText "ParseInt" tok r
  | .uintParse tok r => str "unable to parse unsigned " ++ tok ++ str ": " ++ numErrText "ParseUint" tok r
  | .invalidFloat => str "invalid float"
  | .invalidBoolean => str "invalid boolean"
  | .unbalancedQuotes => str "unbalanced quotes"
  | .invalidFieldFormat => str "invalid field format"
  | .invalidValue k => str "invalid value: field-key=" ++ k
  | .badTimestamp => str "bad timestamp"
  | .tsParse tok r => numErrText "ParseInt" tok r
  | .timeOutOfRange =>
    str "time outside range " ++ intDigits MinNanoTime ++ str " - " ++ intDigits MaxNanoTime
  | .invalidPoint => str "point is invalid"
  | .panic w => str "PANIC " ++ str w

def errPrefix : Bytes := str "unable to parse '"
def errSep : Bytes := str "': "

/-- one entry of the joined error -/
def errEntry (line : Bytes) (msg : Bytes) : Bytes := errPrefix ++ line ++ errSep ++ msg

def joinNL : List Bytes → Bytes
  | [] => []
  | [a] => a
  | a :: b :: rest => a ++ cNL :: joinNL (b :: rest)

/-- the error returned by `ParsePointsWithPrecision` (`none` = nil) -/
def errorText (failed : List (Bytes × Err)) : Option Bytes :=
  if failed.isEmpty then none else some (joinNL (failed.map fun f => errEntry f.1 f.2.msg))

end Influx.LP
