/-
  Model.FieldProto — token formats of the C40 / C10 case files: point tokens →
  typed points, typed observations ↔ answer strings.  Shared by Drv.C40 and
  Drv.C10 (no algorithms of the model here).
-/
import Influx.Proto
import Influx.Model.FieldTypes

open Influx Influx.Proto Influx.Fields

namespace Influx.Fields.Tok

/-! ## tokens → typed values (shared with Drv.C10) -/

def validName (s : String) : Bool :=
  !s.isEmpty && s.toList.all (fun c => c.isAlphanum || c == '_') && s.toList.all (fun c => c.toNat < 128)

def parseNatCanon (s : String) : Option Nat :=
  match s.toNat? with
  | some n => if toString n == s then some n else none
  | none => none

def parseIntCanon (s : String) : Option Int :=
  match s.toInt? with
  | some n => if toString n == s then some n else none
  | none => none

def parseFType : String → Option FType
  | "f" => some .float | "i" => some .int | "u" => some .uint | "b" => some .bool | "s" => some .str
  | _ => none

def ftypeStr : FType → String
  | .float => "f" | .int => "i" | .uint => "u" | .bool => "b" | .str => "s"

def lowerHex (s : String) : Bool := s.toList.all (fun c => c.isDigit || ('a' ≤ c && c ≤ 'f'))

/-- value token of type `t` → `slen` (0 unless string), `none` if not canonical -/
def parseVal (t : FType) (v : String) : Option Nat :=
  match t with
  | .float =>
    match hex64 v with
    | some n => if lowerHex v && (n / 2 ^ 52) % 2048 != 2047 then some 0 else none
    | none => none
  | .int =>
    match parseIntCanon v with
    | some n => if -(2 ^ 63 : Int) ≤ n && n < 2 ^ 63 then some 0 else none
    | none => none
  | .uint =>
    match parseNatCanon v with
    | some n => if n < 2 ^ 64 then some 0 else none
    | none => none
  | .bool => if v == "0" || v == "1" then some 0 else none
  | .str =>
    match v.splitOn "x" with
    | [c, n] =>
      match parseNatCanon c, parseNatCanon n with
      | some c, some n => if c < 26 && (n > 0 || c == 0) && n ≤ 4000000 then some n else none
      | _, _ => none
    | _ => none

def parseField (s : String) : Option FieldV :=
  match s.splitOn ":" with
  | [name, t, v] =>
    if !validName name then none else
    match parseFType t with
    | some ty => (parseVal ty v).map fun n => ⟨name, ty, v, n⟩
    | none => none
  | _ => none

def strictAsc : List String → Bool
  | a :: b :: rest => a < b && strictAsc (b :: rest)
  | _ => true

def parseTags (s : String) : Option (List (String × String)) :=
  if s == "-" then some [] else
  let r := (s.splitOn ";").mapM fun kv =>
    match kv.splitOn "=" with
    | [k, v] => if validName k && validName v then some (k, v) else none
    | _ => none
  match r with
  | some l => if strictAsc (l.map (·.1)) then some l else none
  | none => none

def tsLimit : Int := 2 ^ 60

def parsePoint (tok : String) : Option Point :=
  match tok.splitOn "|" with
  | [m, tg, fs, ts] =>
    if !validName m then none else
    match parseTags tg, (fs.splitOn ";").mapM parseField, parseIntCanon ts with
    | some tags, some fields, some t =>
      if strictAsc (fields.map (·.name)) && !fields.isEmpty && -tsLimit < t && t < tsLimit
      then some ⟨m, tags, fields, t⟩ else none
    | _, _, _ => none
  | _ => none

/-! ## rendering -/

def tagsStr (t : List (String × String)) : String :=
  if t.isEmpty then "-" else ";".intercalate (t.map fun kv => kv.1 ++ "=" ++ kv.2)

def entryStr (e : EKey × Val) : String :=
  e.1.1 ++ "|" ++ tagsStr e.1.2.1 ++ "|" ++ e.1.2.2.1 ++ "|" ++ toString e.1.2.2.2 ++ "|" ++ ftypeStr e.2.1 ++ ":" ++ e.2.2

def sortStrs (l : List String) : List String := l.mergeSort (fun a b => !(b < a))

def storeStr (d : Store) : String := joinComma (sortStrs (d.map entryStr))

def schemaStr (s : Schema) : String :=
  joinComma (sortStrs (s.map fun e => e.1.1 ++ "." ++ e.1.2 ++ ":" ++ ftypeStr e.2))

def rawKeyStr (k : RawKey) : String :=
  k.1.1 ++ "|" ++ tagsStr k.1.2.1 ++ "#" ++ k.1.2.2 ++ ":" ++ ftypeStr k.2

def rawKeysStr (ks : List RawKey) : String := joinComma (sortStrs (ks.map rawKeyStr))

def reasonStr : Reason → String
  | .tagTime => "tag-time" | .fieldTime => "field-time" | .tooLong => "too-long"
  | .conflict => "conflict" | .stripped => "time-stripped"

def parseReason : String → Option Reason
  | "tag-time" => some .tagTime | "field-time" => some .fieldTime | "too-long" => some .tooLong
  | "conflict" => some .conflict | "time-stripped" => some .stripped
  | _ => none

def resStr : WriteRes → String
  | .ok => "ok"
  | .partialWrite n r => s!"partial {n} {reasonStr r}"
  | .hardError e => "err:" ++ e

/-! ## answers → typed observations -/

def parseEntry (s : String) : Option (EKey × Val) :=
  match s.splitOn "|" with
  | [m, tg, f, ts, tv] =>
    match parseTags tg, parseIntCanon ts, tv.splitOn ":" with
    | some tags, some t, [ty, v] =>
      (parseFType ty).map fun ty => ((m, tags, f, t), (ty, v))
    | _, _, _ => none
  | _ => none

def parseStore (s : String) : Option Store := (splitComma s).mapM parseEntry

def parseRawKey (s : String) : Option RawKey :=
  match s.splitOn "#" with
  | [sk, ft] =>
    match sk.splitOn "|", ft.splitOn ":" with
    | [m, tg], [f, ty] =>
      match parseTags tg, parseFType ty with
      | some tags, some ty => some ((m, tags, f), ty)
      | _, _ => none
    | _, _ => none
  | _ => none

def parseRes : List String → Option WriteRes
  | ["ok"] => some .ok
  | ["partial", n, k] =>
    match parseNatCanon n, parseReason k with
    | some n, some r => some (.partialWrite n r)
    | some n, none => some (.partialWrite n .conflict)   -- unknown reason text: the count is what C40 states
    | _, _ => none
  | [e] => if e.startsWith "err:" || e == "timeout" || e == "skipped" || e == "crash" || e.startsWith "panic"
           then some (.hardError ((e.replace "err:" "").replace " " "_")) else none
  | _ => none


def parseSchemaEntry (s : String) : Option (FKey × FType) :=
  match s.splitOn ":" with
  | [mf, t] =>
    match mf.splitOn ".", parseFType t with
    | [m, f], some ty => some ((m, f), ty)
    | _, _ => none
  | _ => none

def parseSchema (s : String) : Option Schema := (splitComma s).mapM parseSchemaEntry

end Influx.Fields.Tok
