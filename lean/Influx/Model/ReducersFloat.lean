/-
  Model.ReducersFloat — the IEEE-754 double instance of the arithmetic parameters
  (`FOps`, `VOps`, `Arith`) used by the compiled drivers of C22 / C23: Lean's `Float`
  (the C `double` operations), Go's `math.Min` / `math.Max`, bit-pattern equality.
  Core Lean only.  Nothing is proved about `Float`; the theorems quantify over every
  `Arith`, this is merely the instance the correspondence runs execute.
-/
import Influx.Proto
import Influx.Model.ReducersTypes

namespace Influx.Reducers.IEEE
open Influx.Proto Influx.Reducers

/-! ### IEEE doubles -/

def fNaN : Float := 0.0 / 0.0
def fInf : Float := 1.0 / 0.0

def signbit (x : Float) : Bool := x.toBits >>> 63 == 1

/-- Go `math.Min` -/
def goMin (x y : Float) : Float :=
  if x == -fInf || y == -fInf then -fInf
  else if x.isNaN || y.isNaN then fNaN
  else if x == 0 && x == y then (if signbit x then x else y)
  else if x < y then x else y

/-- Go `math.Max` -/
def goMax (x y : Float) : Float :=
  if x == fInf || y == fInf then fInf
  else if x.isNaN || y.isNaN then fNaN
  else if x == 0 && x == y then (if signbit x then y else x)
  else if x > y then x else y

def fops : FOps Float where
  add := (· + ·)
  sub := (· - ·)
  mul := (· * ·)
  div := (· / ·)
  lt := fun a b => decide (a < b)
  ofInt := Float.ofInt
  sqrt := Float.sqrt
  nan := fNaN
  half := 0.5

def floatVOps : VOps Float Float where
  add := (· + ·)
  sub := (· - ·)
  lt := fun a b => decide (a < b)
  eq := fun a b => a == b
  zero := 0.0
  toF := id
  isNaN := Float.isNaN
  minStep := goMin
  maxStep := goMax
  spreadInitMin := fInf
  spreadInitMax := -fInf
  medianSingleKeepsTime := true

def bitsEq (a b : Float) : Bool := a.toBits == b.toBits

theorem bitsEq_refl (x : Float) : bitsEq x x = true := by simp [bitsEq]

def floatArith : Arith Float Float where
  vo := floatVOps
  fo := fops
  eqvV := bitsEq
  eqvF := bitsEq
  eqvV_refl := bitsEq_refl
  eqvF_refl := bitsEq_refl

def intFloatArith : Arith Int Float := intArith fops bitsEq bitsEq_refl

def parseFloat (s : String) : Option Float := (hex64 s).map fun n => Float.ofBits n.toUInt64
def showFloat (x : Float) : String := toHex64 x.toBits.toNat

end Influx.Reducers.IEEE
