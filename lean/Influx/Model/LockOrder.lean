/-
  Model.LockOrder — the lock model of C39 and an executable acyclicity check.

  Locks are the named mutexes of tsdb / tsm1 (`tsm1.Engine.mu`, `tsm1.Cache.mu`,
  `tsm1.FileStore.fastMu`, …).  A thread holds some locks and may be blocked
  waiting for one more.  The acquisition relation E (extracted from the Go AST on
  every run by go/cmd/c39/lockorder.go) says which lock may be requested while
  which lock is held.  Core Lean only.
-/
namespace Influx.LockOrder

abbrev Lock := String

structure Thread where
  held : List Lock
  waiting : Option Lock
deriving Repr

/-- the thread only ever requests `b` while holding `a` if (a,b) is an acquisition pair -/
def Respects (E : Lock → Lock → Prop) (t : Thread) : Prop :=
  ∀ a ∈ t.held, ∀ b, t.waiting = some b → E a b

/-- a deadlock state: a non-empty set of threads each blocked on a lock held by one of them -/
def Deadlocked (ts : List Thread) : Prop :=
  ts ≠ [] ∧ ∀ t ∈ ts, ∃ b, t.waiting = some b ∧ ∃ t' ∈ ts, b ∈ t'.held

/-! ### executable check: a topological order is computed (Kahn) and then *checked* -/

def addNode (n : Lock) (l : List Lock) : List Lock := if l.contains n then l else l ++ [n]

def nodes (E : List (Lock × Lock)) : List Lock :=
  E.foldl (fun acc e => addNode e.2 (addNode e.1 acc)) []

/-- repeatedly remove a node that has no incoming edge from the remaining nodes -/
def kahnAux (E : List (Lock × Lock)) : Nat → List Lock → List Lock → List Lock
  | 0, rem, acc => acc.reverse ++ rem
  | fuel + 1, rem, acc =>
    match rem.find? (fun n => !(E.any (fun e => e.2 == n && rem.contains e.1))) with
    | none => acc.reverse ++ rem          -- every remaining node has a predecessor: a cycle
    | some n => kahnAux E fuel (rem.erase n) (n :: acc)

def topoOrder (E : List (Lock × Lock)) : List Lock :=
  let ns := nodes E
  kahnAux E ns.length ns []

def rankIn (order : List Lock) (a : Lock) : Nat := order.idxOf a

/-- every edge goes forward in the order -/
def checkOrder (order : List Lock) (E : List (Lock × Lock)) : Bool :=
  E.all (fun e => decide (rankIn order e.1 < rankIn order e.2))

/-- the decision used on the extracted relation -/
def isAcyclic (E : List (Lock × Lock)) : Bool := checkOrder (topoOrder E) E

/-- one cycle-ish witness for the report: the nodes Kahn could not remove -/
def stuckNodes (E : List (Lock × Lock)) : List Lock :=
  (nodes E).filter (fun n => E.any (fun e => e.1 == n && decide (rankIn (topoOrder E) e.1 ≥ rankIn (topoOrder E) e.2)))

end Influx.LockOrder
