/-
  Model.C36 — the four data structures of C36 behind one typed operation interface
  (`Op`, `Obs`, `State`, `step`).  A case uses the ops of one structure, but nothing
  depends on that: the state is the product and every op touches its own component.
-/
import Influx.Model.RHH
import Influx.Model.Bloom
import Influx.Model.Radix
import Influx.Model.IDSet

namespace Influx.C36

abbrev Key := List Nat

/-- number of bloom / id-set registers -/
def nReg : Nat := 4

inductive ROp where
  | new (cap lf : Nat)
  | put (k : Key) (h : Nat) (v : Int)
  | get (k : Key) (h : Nat)
  | len | cap | dump | keys
  | grow (sz : Nat)
  | reset
  | dist (h i c : Nat)
deriving Repr

inductive BOp where
  | new (r m k : Nat)
  | buf (r : Nat) (bytes : List Nat) (k : Nat)
  | ins (r : Nat) (key : Key) (h0 h1 : Nat)
  | has (r : Nat) (key : Key) (h0 h1 : Nat)
  | merge (r o : Nat)
  | clone (src dst : Nat)
  | bytes (r : Nat)
  | kl (r : Nat)
deriving Repr

inductive TOp where
  | new
  | ins (k : Key) (v : Int)
  | get (k : Key)
  | del (p : Key)
  | min | max | len | walk | dump
deriving Repr

inductive SOp where
  | new (r : Nat) (ids : List Nat)
  | add (r id : Nat)
  | addMany (r : Nat) (ids : List Nat)
  | rem (r id : Nat)
  | has (r id : Nat)
  | card (r : Nat)
  | merge (r : Nat) (others : List Nat)
  | mergeIP (r o : Nat)
  | eq (a b : Nat)
  | and (a b dst : Nat)
  | andNot (a b dst : Nat)
  | diff (r o : Nat)
  | inter (a b : Nat)
  | clone (src dst : Nat)
  | roundTrip (src dst : Nat)
  | clear (r : Nat)
  | slice (r : Nat)
deriving Repr

inductive Op where
  | r (o : ROp) | b (o : BOp) | t (o : TOp) | s (o : SOp)
deriving Repr

/-- structure of a radix node as the hook `VerifDump` prints it -/
inductive Obs where
  | ok
  | okN (n : Nat)
  | nil
  | int (i : Int)
  | nat (n : Nat)
  | bool (b : Bool)
  | keys (ks : List Key)
  | slots (ss : List (Option (Key × Int)))
  | pairs (ps : List (Key × Int))
  | kv (k : Key) (v : Int)
  | insRes (v : Int) (inserted : Bool)
  | ids (xs : List Nat)
  | two (a b : Nat)
  | bytes (bs : List Nat)
  | text (s : String)
  /-- `nomap`, `nofilter`, `notree`, `err`, `err-m`, `err-k`, `hang`, `bad-op` -/
  | err (e : String)
  /-- an implementation answer the driver could not parse -/
  | other (s : String)
deriving Repr, DecidableEq

structure State where
  map : Option RHH.Map := none
  bf : List (Option Bloom.Filter) := List.replicate nReg none
  tree : Option Radix.Tree := none
  sets : List IDSet.Set := List.replicate nReg []

def init : State := {}

/-! ### rendering of a radix tree (`VerifDump`) lives here because `tdump` is an observation -/

def hexDigit (n : Nat) : Char :=
  if n < 10 then Char.ofNat (48 + n) else Char.ofNat (87 + n)

def hexKey (k : Key) : String :=
  if k.isEmpty then "-" else String.ofList (k.flatMap fun b => [hexDigit ((b / 16) % 16), hexDigit (b % 16)])

mutual
def dumpNode : Radix.Node → String
  | .mk leaf pre edges =>
    "(" ++ hexKey pre ++ "|" ++
      (match leaf with | some l => hexKey l.key ++ ":" ++ toString l.val | none => "_") ++ "|" ++
      dumpEdges edges true ++ ")"
def dumpEdges : Radix.Edges → Bool → String
  | .nil, _ => ""
  | .cons l n r, first => (if first then "" else ",") ++ toString l ++ "=" ++ dumpNode n ++ dumpEdges r false
end

def leafObs : Option Radix.Leaf → Obs
  | some l => .kv l.key l.val
  | none => .nil

def stepR (m : Option RHH.Map) : ROp → Option RHH.Map × Obs
  | .new c lf =>
    match RHH.Map.new c lf with
    | some m' => (some m', .ok)
    | none => (m, .err "panic")
  | .dist h i c => (m, .nat (RHH.dist h i c))
  | op =>
    match m with
    | none => (none, .err "nomap")
    | some mp =>
      match op with
      | .put k h v =>
        match mp.put h k v with
        | some m' => (some m', .ok)
        | none => (some mp, .err "hang")
      | .get k h =>
        match mp.get h k with
        | some v => (m, .int v)
        | none => (m, .nil)
      | .len => (m, .nat mp.n)
      | .cap => (m, .nat mp.cap)
      | .dump => (m, .slots (mp.slots.map fun s => s.map fun e => (e.key, e.val)))
      | .keys => (m, .keys mp.keys)
      | .grow sz =>
        match mp.grow sz with
        | some m' => (some m', .ok)
        | none => (m, .err "hang")
      | .reset => (some mp.reset, .ok)
      | _ => (m, .err "bad-op")

def getReg {α} (xs : List α) (r : Nat) : Option α := xs[r]?

def stepB (bf : List (Option Bloom.Filter)) : BOp → List (Option Bloom.Filter) × Obs
  | .new r m k =>
    if r < nReg then
      match Bloom.new m k with
      | some f => (bf.set r (some f), .okN (f.bits.length / 8))
      | none => (bf, .err "panic")
    else (bf, .err "bad-op")
  | .buf r bytes k =>
    if r < nReg then
      match Bloom.ofBuffer bytes k with
      | some f => (bf.set r (some f), .okN (f.bits.length / 8))
      | none => (bf, .err "err")
    else (bf, .err "bad-op")
  | .ins r _ h0 h1 =>
    match bf[r]? with
    | some (some f) => (bf.set r (some (f.insert h0 h1)), .ok)
    | some none => (bf, .err "nofilter")
    | none => (bf, .err "bad-op")
  | .has r _ h0 h1 =>
    match bf[r]? with
    | some (some f) => (bf, .bool (f.contains h0 h1))
    | some none => (bf, .err "nofilter")
    | none => (bf, .err "bad-op")
  | .merge r o =>
    match bf[r]?, bf[o]? with
    | some (some f), some (some g) =>
      match f.merge g with
      | .ok f' => (bf.set r (some f'), .ok)
      | .error .m => (bf, .err "err-m")
      | .error .k => (bf, .err "err-k")
    | some none, some _ => (bf, .err "nofilter")
    | some (some _), some none => (bf, .err "nofilter")
    | _, _ => (bf, .err "bad-op")
  | .clone src dst =>
    match bf[src]? with
    | some (some f) => if dst < nReg then (bf.set dst (some f), .ok) else (bf, .err "bad-op")
    | some none => (bf, .err "nofilter")
    | none => (bf, .err "bad-op")
  | .bytes r =>
    match bf[r]? with
    | some (some f) => (bf, .bytes f.bytes)
    | some none => (bf, .err "nofilter")
    | none => (bf, .err "bad-op")
  | .kl r =>
    match bf[r]? with
    | some (some f) => (bf, .two f.k (f.bits.length / 8))
    | some none => (bf, .err "nofilter")
    | none => (bf, .err "bad-op")

def stepT (t : Option Radix.Tree) (op : TOp) : Option Radix.Tree × Obs :=
  match op, t with
  | .new, _ => (some Radix.Tree.empty, .ok)
  | _, none => (none, .err "notree")
  | .ins k v, some tr =>
    let (tr', r) := tr.insert k v
    (some tr', .insRes r.val r.inserted)
  | .get k, some tr =>
    match tr.get k with
    | some v => (t, .int v)
    | none => (t, .nil)
  | .del p, some tr =>
    let (tr', n) := tr.deletePrefix p
    (some tr', .nat n)
  | .min, some tr => (t, leafObs (Radix.Node.min tr.root))
  | .max, some tr => (t, leafObs (Radix.Node.max tr.root))
  | .len, some tr => (t, .int tr.size)
  | .walk, some tr => (t, .pairs ((Radix.Node.walk tr.root).map fun l => (l.key, l.val)))
  | .dump, some tr => (t, .text (dumpNode tr.root))

def stepS (ss : List IDSet.Set) : SOp → List IDSet.Set × Obs
  | .new r ids => if r < nReg then (ss.set r (IDSet.addMany [] ids), .ok) else (ss, .err "bad-op")
  | .add r id =>
    match ss[r]? with
    | some s => (ss.set r (IDSet.add s id), .ok)
    | none => (ss, .err "bad-op")
  | .addMany r ids =>
    match ss[r]? with
    | some s => (ss.set r (IDSet.addMany s ids), .ok)
    | none => (ss, .err "bad-op")
  | .rem r id =>
    match ss[r]? with
    | some s => (ss.set r (IDSet.remove s id), .ok)
    | none => (ss, .err "bad-op")
  | .has r id =>
    match ss[r]? with
    | some s => (ss, .bool (IDSet.contains s id))
    | none => (ss, .err "bad-op")
  | .card r =>
    match ss[r]? with
    | some s => (ss, .nat s.length)
    | none => (ss, .err "bad-op")
  | .merge r others =>
    match ss[r]?, others.mapM (fun o => ss[o]?) with
    | some s, some os =>
      -- `s.Merge(s)` deadlocks in the code; the harness refuses it
      if others.contains r then (ss, .err "bad-op") else (ss.set r (IDSet.merge s os), .ok)
    | _, _ => (ss, .err "bad-op")
  | .mergeIP r o =>
    match ss[r]?, ss[o]? with
    | some s, some t => (ss.set r (IDSet.union s t), .ok)
    | _, _ => (ss, .err "bad-op")
  | .eq a b =>
    match ss[a]?, ss[b]? with
    | some s, some t => (ss, .bool (IDSet.equals s t))
    | _, _ => (ss, .err "bad-op")
  | .and a b dst =>
    match ss[a]?, ss[b]? with
    | some s, some t => if dst < nReg then (ss.set dst (IDSet.and s t), .ok) else (ss, .err "bad-op")
    | _, _ => (ss, .err "bad-op")
  | .andNot a b dst =>
    match ss[a]?, ss[b]? with
    | some s, some t => if dst < nReg then (ss.set dst (IDSet.andNot s t), .ok) else (ss, .err "bad-op")
    | _, _ => (ss, .err "bad-op")
  | .diff r o =>
    match ss[r]?, ss[o]? with
    | some s, some t =>
      -- `s.Diff(s)` deadlocks in the code; the harness refuses it
      if r = o then (ss, .err "bad-op") else (ss.set r (IDSet.andNot s t), .ok)
    | _, _ => (ss, .err "bad-op")
  | .inter a b =>
    match ss[a]?, ss[b]? with
    | some s, some t => (ss, .bool (IDSet.intersects s t))
    | _, _ => (ss, .err "bad-op")
  | .clone src dst =>
    match ss[src]? with
    | some s => if dst < nReg then (ss.set dst s, .ok) else (ss, .err "bad-op")
    | none => (ss, .err "bad-op")
  | .roundTrip src dst =>
    -- WriteTo then UnmarshalBinary into a fresh set: roaring's codec is abstract (identity)
    match ss[src]? with
    | some s => if dst < nReg then (ss.set dst s, .ok) else (ss, .err "bad-op")
    | none => (ss, .err "bad-op")
  | .clear r =>
    match ss[r]? with
    | some _ => (ss.set r [], .ok)
    | none => (ss, .err "bad-op")
  | .slice r =>
    match ss[r]? with
    | some s => (ss, .ids s)
    | none => (ss, .err "bad-op")

def step (st : State) : Op → State × Obs
  | .r o => let (m, a) := stepR st.map o; ({ st with map := m }, a)
  | .b o => let (b, a) := stepB st.bf o; ({ st with bf := b }, a)
  | .t o => let (t, a) := stepT st.tree o; ({ st with tree := t }, a)
  | .s o => let (s, a) := stepS st.sets o; ({ st with sets := s }, a)

/-- the model's trace: every op paired with the model's answer -/
def run : State → List Op → List (Op × Obs)
  | _, [] => []
  | st, o :: os => let (st', a) := step st o; (o, a) :: run st' os

end Influx.C36
