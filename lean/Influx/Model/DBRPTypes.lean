/-
  Influx.Model.DBRPTypes — `influxdb.DBRPMapping`, `influxdb.Bucket` (id, org, name) and
  `influxdb.DBRPMappingFilter` as the generated `Influx.Generated.DBRP` and the model use them.
  `platform.ID` is a `Nat` (0 = invalid); the pointer fields of the filter are `Option`s.
-/
namespace Influx.DBRP

structure Mapping where
  ID : Nat
  Database : String
  RetentionPolicy : String
  Default : Bool
  Virtual : Bool
  OrganizationID : Nat
  BucketID : Nat
deriving Repr, DecidableEq, Inhabited

structure Bucket where
  ID : Nat
  OrgID : Nat
  Name : String
deriving Repr, DecidableEq, Inhabited

structure Filter where
  ID : Option Nat := none
  OrgID : Option Nat := none
  BucketID : Option Nat := none
  Database : Option String := none
  RetentionPolicy : Option String := none
  Default : Option Bool := none
  Virtual : Option Bool := none
deriving Repr, DecidableEq, Inhabited

end Influx.DBRP
