/-
  Model.CodecRun — typed core of the C07 driver: what the model of the codecs
  observes for one operation of the property's vocabulary (Spec.C07.Op).
-/
import Influx.Model.CodecBlock

namespace Influx.Codec
open Influx.Spec.C07

/-- encode with both encoders, decode each output with the (shared) decoder model -/
def rtOf {α : Type} (encS encB : Option Bytes) (dec : Bytes → Option α) : RT α :=
  let ds := encS.bind dec
  let db := encB.bind dec
  { encS := encS, encB := encB, ss := ds, sb := ds, bs := db, bb := db }

/-- a block decoder is only run when a block was produced -/
def decBlock (c : Compressor) (v : Vals) (b : Bytes) : Option (List Nat × Vals) :=
  if b.isEmpty then none else blockDecode c v b

def run (c : Compressor) : Op → Obs
  | .zz x => .zz (zigzagEnc x) (zigzagDec (zigzagEnc x))
  | .s8b vs =>
    let i := encodeAllI vs.length vs
    let j := encodeAllJ vs.length vs
    let t := encodeStream vs
    let d (w : Option (List Nat)) := w.map decodeWords
    .s8b i j t [d i, d i, d j, d j, d t, d t]
  -- the model's batch encoders have no buffer parameter: a reused buffer changes nothing
  | .codec v => let r := rtOf (valsEncodeS c v) (valsEncodeB c v) (valsDecode c v); .codec r r.bs r.bb
  | .time ts => let r := rtOf (timeEncodeS ts) (timeEncodeB ts) timeDecode; .time r r.bs r.bb
  | .block ts v =>
    let s := blockEncodeS c ts v
    let b := blockEncodeB c ts v
    let r := rtOf s b (decBlock c v)
    .block r true r.ss r.bs

end Influx.Codec
