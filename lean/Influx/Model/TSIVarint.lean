/-
  Model.TSIVarint — the variable-length integers of the tsi1 log-entry framing:
  `encoding/binary.PutUvarint`, `binary.Uvarint` and tsi1's `uvarint()` helper
  (tsdb/index/tsi1/tsi1.go), which decides between "short buffer" (a torn tail, dropped by
  `LogFile.open`) and a hard parse error (which makes `Open` fail).

  Core Lean only.
-/
namespace Influx.Model.TSI

/-- `binary.PutUvarint`: base-128 digits, least significant first, continuation bit 0x80. -/
def putUvarint (x : Nat) : List Nat :=
  if x < 128 then [x] else (x % 128 + 128) :: putUvarint (x / 128)
decreasing_by omega

/-- result of `binary.Uvarint`: value and bytes read (`n > 0`), buffer too small (`n == 0`),
    or overflow (`n < 0`). -/
inductive UV
  | ok (v n : Nat)
  | short
  | overflow
deriving DecidableEq, Repr

/-- `binary.Uvarint` reading byte number `i` (the loop of the Go function, written as a
    recursion on the tail: the value is digit + 128 × value of the rest). -/
def readUv (i : Nat) : List Nat → UV
  | [] => .short
  | b :: rest =>
    if i = 10 then .overflow                       -- i == MaxVarintLen64
    else if b < 128 then
      (if i = 9 ∧ b > 1 then .overflow else .ok b 1)
    else
      match readUv (i + 1) rest with
      | .ok v n => .ok ((b - 128) + 128 * v) (n + 1)
      | r => r

/-- tsi1's `uvarint(data)` helper. -/
inductive UVH
  | ok (v n : Nat)
  /-- `io.ErrShortBuffer` -/
  | shortBuffer
  /-- "parsing binary-encoded uint64 value failed" -/
  | parseError
deriving DecidableEq, Repr

def uvarintHelper (data : List Nat) : UVH :=
  if data.length < 1 then .shortBuffer
  else
    match readUv 0 data with
    | .short => .shortBuffer          -- n == 0
    | .overflow => .parseError        -- n < 0
    | .ok v n => if n > data.length then .shortBuffer else .ok v n

/-- the value fits the ten bytes `Uvarint` accepts, starting at byte `i`
    (`fitsUv 0 x` ⇔ `x < 2^64`). -/
def fitsUv (i : Nat) (x : Nat) : Bool :=
  if x < 128 then (i < 9 || (i == 9 && x ≤ 1))
  else (i < 9 && fitsUv (i + 1) (x / 128))
decreasing_by omega

end Influx.Model.TSI

namespace Influx.Model.TSI

/-! ### the log-entry framing (`appendLogEntry` / `LogEntry.UnmarshalBinary`) -/

/-- the fields of a `LogEntry` as bytes. -/
structure RawEntry where
  flag : Nat
  id : Nat
  name : List Nat
  key : List Nat
  value : List Nat
deriving DecidableEq, Repr

/-- a length-prefixed byte string. -/
def lenPrefixed (s : List Nat) : List Nat := putUvarint s.length ++ s

/-- the checksummed part of an entry. -/
def entryBody (e : RawEntry) : List Nat :=
  e.flag :: (putUvarint e.id ++ lenPrefixed e.name ++ lenPrefixed e.key ++ lenPrefixed e.value)

/-- `appendLogEntry`; `crc` is CRC-32 as four bytes (not modelled: any function). -/
def encodeEntry (crc : List Nat → List Nat) (e : RawEntry) : List Nat := entryBody e ++ crc (entryBody e)

/-- outcomes of `LogEntry.UnmarshalBinary`. -/
inductive DecodeResult
  | ok (e : RawEntry) (size : Nat)
  /-- `io.ErrShortBuffer`: `LogFile.open` stops reading here and keeps what it has -/
  | shortBuffer
  /-- `ErrLogEntryChecksumMismatch`: likewise -/
  | checksumMismatch
  /-- any other error: `LogFile.open` (and `Index.Open`) fail -/
  | parseError
deriving DecidableEq, Repr

inductive FieldResult
  | ok (field rest : List Nat)
  | shortBuffer
  | parseError

/-- "parse length, read data" of `UnmarshalBinary`. -/
def readField (data : List Nat) : FieldResult :=
  match uvarintHelper data with
  | .shortBuffer => .shortBuffer
  | .parseError => .parseError
  | .ok sz n =>
    if data.length < n + sz then .shortBuffer
    else .ok ((data.drop n).take sz) (data.drop (n + sz))

inductive FieldsResult
  | ok (id : Nat) (name key value rest : List Nat)
  | shortBuffer
  | parseError

/-- the part of `UnmarshalBinary` after the flag byte: series id, name, key, value. -/
def parseFields (d1 : List Nat) : FieldsResult :=
  match uvarintHelper d1 with
  | .shortBuffer => .shortBuffer
  | .parseError => .parseError
  | .ok id n =>
    match readField (d1.drop n) with
    | .shortBuffer => .shortBuffer
    | .parseError => .parseError
    | .ok name d3 =>
      match readField d3 with
      | .shortBuffer => .shortBuffer
      | .parseError => .parseError
      | .ok key d4 =>
        match readField d4 with
        | .shortBuffer => .shortBuffer
        | .parseError => .parseError
        | .ok value d5 => .ok id name key value d5

/-- `LogEntry.UnmarshalBinary`. -/
def decodeEntry (crc : List Nat → List Nat) (data : List Nat) : DecodeResult :=
  match data with
  | [] => .shortBuffer
  | flag :: d1 =>
    match parseFields d1 with
    | .shortBuffer => .shortBuffer
    | .parseError => .parseError
    | .ok id name key value d5 =>
      -- checksum of `orig[:start-len(data)]`, compared with the next four bytes
      let bodyLen := data.length - d5.length
      if d5.length < 4 then .shortBuffer
      else if crc (data.take bodyLen) ≠ d5.take 4 then .checksumMismatch
      else .ok ⟨flag, id, name, key, value⟩ (bodyLen + 4)

end Influx.Model.TSI
