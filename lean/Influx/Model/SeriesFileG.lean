/-
  Model.SeriesFileG — the series partition with SEVERAL segments (after a roll-over).

  Same code as `Model/SeriesFile.lean`, without the single-segment restriction:
  `writeLogEntry`/`createSegment` (roll over when the entry does not fit), `openSegments`
  (the id sequence from the LAST segment that holds an insert entry — reverse search),
  `Recover` (segments from the one of `maxOffset` on), offsets `JoinSeriesOffset(segmentID, pos)`.
  `SeriesSegmentSize(id)` is kept with its uint16 arithmetic (`shift := id + 22` wraps for
  ids ≥ 0xffea), which is what lets the harness reach a roll-over with 64…1024-byte segments
  (first segment `fff0`…`fff4`).

  The driver uses these definitions whenever a partition is not in the single-segment state
  or an op could fill its segment (`C13.stepM`); the theorems of `Props/C13` about whole
  histories cover the single-segment branch, `openSeq_gt` covers `openSegments` in general.
-/
import Influx.Model.SeriesFile

namespace Influx.SF

/-- `SeriesSegmentSize(id)` (uint16 `shift := id + 22`; capped at 28) -/
def segSize (id : Nat) : Nat :=
  let shift := (id + 22) % 65536
  2 ^ (if shift ≥ 28 then 28 else shift)

/-- `JoinSeriesOffset` -/
def joinOff (segId pos : Nat) : Nat := segId * 2 ^ 32 + pos

def segEntries (s : Nat × Bytes) : List Entry :=
  (entries s.2).map fun e => { e with off := joinOff s.1 e.off }

/-- `openSegments`: search the segments in reverse for the first whose highest id reaches the
    sequence; `revSegs` = entries per segment, newest first -/
def openSeqGo (seq : Nat) : List (List Entry) → Nat
  | [] => seq
  | es :: rest => if maxSeriesID es ≥ seq then maxSeriesID es + partN else openSeqGo seq rest

def openSeq (pid : Nat) (segs : List (List Entry)) : Nat := openSeqGo (pid + 1) segs.reverse

namespace Part

def segs (p : Part) : List (Nat × Bytes) := p.older ++ [(p.segId, p.file)]

def entriesG (p : Part) : List Entry := p.segs.flatMap segEntries

/-- `ReadSeriesKeyFromSegments` / `seriesKeyByOffset` -/
def keyAtG (p : Part) (off : Nat) : Option Bytes :=
  let sid := (off / 2 ^ 32) % 65536
  let pos := off % 2 ^ 32
  match p.segs.find? (·.1 = sid) with
  | some s => readKey s.2 (pos + entryHdrSize)
  | none => none

def findIDG (p : Part) (key : Bytes) : Nat :=
  let disk : Nat :=
    match p.idxFile with
    | none => 0
    | some d =>
      match d.keyID.find? (fun (off, _) => p.keyAtG off == some key) with
      | some (_, id) => if p.isDeleted id then 0 else id
      | none => 0
  match p.memKeyID.find? (·.1 = key) with
  | some (_, id) => if id ≠ 0 ∧ !p.isDeleted id then id else disk
  | none => disk

/-- `SeriesIndex.Recover` over all segments from the one of `maxOffset` on -/
def recoverG (p : Part) : Part :=
  let p0 : Part :=
    { p with
      maxSeriesID := match p.idxFile with | some d => d.maxSeriesID | none => 0
      maxOffset := match p.idxFile with | some d => d.maxOffset | none => 0
      memKeyID := [], memIDOff := [], tomb := [] }
  let minSeg := (p0.maxOffset / 2 ^ 32) % 65536
  let es := ((p.segs.filter (·.1 ≥ minSeg)).flatMap segEntries).filter (fun e => e.off > p0.maxOffset)
  es.foldl execEntry p0

/-- `SeriesPartition.Open` -/
def loadG (p : Part) (threshold : Nat) : Part :=
  let p1 : Part :=
    { p with
      file := resize p.file (dataSize p.file)
      seq := openSeq p.pid (p.segs.map fun s => entries s.2)
      threshold := threshold }
  p1.recoverG

/-- `writeLogEntry`: append to the active segment, or `createSegment` first when the entry does
    not fit; `none` = `ErrSeriesSegmentNotWritable` (does not fit a fresh segment either) -/
def appendG (p : Part) (flag id : Nat) (key : Bytes) : Option (Part × Nat) :=
  let data := entryBytes flag id key
  if p.file.length + data.length ≤ segSize p.segId then
    some ({ p with file := p.file ++ data }, joinOff p.segId p.file.length)
  else
    let newId := (p.segId + 1) % 65536
    if hdrSize + data.length ≤ segSize newId then
      some ({ p with older := p.older ++ [(p.segId, p.file)], segId := newId, file := hdr ++ data },
        joinOff newId hdrSize)
    else none

def createOneG (p : Part) (key : Bytes) : Option (Part × Nat) :=
  let id0 := p.findIDG key
  if id0 ≠ 0 then some (p, id0) else
  match p.appendG insertFlag p.seq key with
  | none => none
  | some (q, off) => some (({ q with seq := p.seq + partN }).execEntry ⟨insertFlag, p.seq, key, off⟩, p.seq)

def deleteG (p : Part) (id : Nat) : Option Part :=
  if p.isDeleted id then some p
  else
    match p.appendG tombstoneFlag id [] with
    | none => none
    | some (q, off) => some (q.execEntry ⟨tombstoneFlag, id, [], off⟩)

def seriesKeyG (p : Part) (id : Nat) : Option Bytes :=
  if id = 0 then none else
  let off := p.findOffsetByID id
  if off = 0 then none else p.keyAtG off

def compactG (p : Part) : Part :=
  let es := p.entriesG.takeWhile (fun e => e.off ≤ p.maxOffset)
  let ins := es.filter (·.flag = insertFlag)
  let live := ins.filter fun e => !p.isDeleted e.id
  let idx : IndexFile :=
    { maxSeriesID := match ins.getLast? with | some e => e.id | none => 0
      maxOffset := match ins.getLast? with | some e => e.off | none => 0
      count := live.length
      keyID := live.map fun e => (e.off, e.id)
      idOff := live.map fun e => (e.id, e.off) }
  let amb := hasDup (live.map (·.id)) || hasDup (live.map (·.key)) || live.any (·.id == 0)
  ({ p with idxFile := some idx, ambiguous := p.ambiguous || amb }).recoverG

def afterCreateG (old new : Part) : Part :=
  if (new.file.length ≠ old.file.length ∨ new.older.length ≠ old.older.length) ∧ new.threshold ≠ 0 ∧
      new.memIDOff.length ≥ new.threshold
  then new.compactG else new

end Part

namespace SFile

def createKeysG : List Part → List (Bytes × Nat) → Option (List Part × List Nat)
  | ps, [] => some (ps, [])
  | ps, k :: ks =>
    match ps[k.2]? with
    | none => none
    | some p =>
      match p.createOneG k.1 with
      | none => none
      | some (q, id) =>
        match createKeysG (ps.set k.2 q) ks with
        | none => none
        | some (r, ids) => some (r, id :: ids)

def createG (s : SFile) (keys : List (Bytes × Nat)) : Option (SFile × List Nat) :=
  match createKeysG s.parts keys with
  | none => none
  | some (ps, ids) =>
    some ((({ s with parts := List.zipWith Part.afterCreateG s.parts ps }).see keys).issue ids, ids)

def findIDG (s : SFile) (k : Bytes × Nat) : Nat :=
  match s.parts[k.2]? with
  | some p => p.findIDG k.1
  | none => 0

def deleteG (s : SFile) (id : Nat) : Option SFile :=
  match s.parts[idPart id]? with
  | none => some s
  | some p =>
    match p.deleteG id with
    | none => none
    | some q => some { s with parts := s.parts.set (idPart id) q }

def seriesKeyG (s : SFile) (id : Nat) : Option Bytes :=
  if id = 0 then none else
  match s.parts[idPart id]? with
  | some p => p.seriesKeyG id
  | none => none

def reopenG (s : SFile) : SFile := { s with parts := s.parts.map (·.loadG s.thr) }

def compactG (s : SFile) (i : Nat) : SFile :=
  match s.parts[i]? with
  | some p => { s with parts := s.parts.set i p.compactG }
  | none => s

/-- nothing was ever written -/
def fresh (s : SFile) : Bool :=
  s.parts.all fun p => p.file == hdr && p.older.isEmpty && p.idxFile.isNone && p.segId == 0

/-- the harness replaces the empty segment 0000 of every partition by an empty segment `id` -/
def smallSeg (s : SFile) (id : Nat) : SFile :=
  ({ s with parts := s.parts.map fun (p : Part) => { p with segId := id } }).reopenG

/-- what a create leaves when it dies right after `createSegment`: a header-only newest segment -/
def hdrSeg (s : SFile) (i : Nat) : SFile :=
  match s.parts[i]? with
  | none => s
  | some p =>
    let q : Part := { p with older := p.older ++ [(p.segId, p.file)], segId := (p.segId + 1) % 65536, file := hdr }
    ({ s with parts := s.parts.set i q }).reopenG

end SFile

end Influx.SF
